(* Expr source tie, definitions only (no proofs).  How the regenerated IR of coq/Gen/Facts_Expr.v (Expr.eval_new and
   Expr.exact_eval of flipjump/assembler/inner_classes/expr.py in the current source) is run and read as the functions
   eval_new / exact_eval of the hand model Model/Expr.v:
     * an Expr object is VObj of its attribute `value`: an int, a data string (label / parameter name), or the pair
       (operator key, tuple of Expr objects)                                                          [enc]
     * the label table / the parameter dictionary are dicts given by their items in insertion order   [labels_value, params_value]
     * `op_string_to_function[op]` / `f( *args)` : the function is represented by its key; calling it is the denotation
       Model/Expr.py_call of the entry of ExprSpec.doc_op_table (Tie/C12_tie.op_table_is_documented proves that table equal
       to the one regenerated from the current source)                                                [op_lookup, op_call]
     * `a is b` on two objects: never "same" when their contents differ; when they do not differ the answer is taken from
       an arbitrary stream of booleans (the world's input bits): the theorems of Tie/Expr_tie.v hold for EVERY stream, so
       for whatever CPython's object identity answers                                                 [is_call]
     * a call of eval_new / exact_eval runs the regenerated body with the call depth decreased        [expr_call]
   Tie/Expr_tie.v proves [run_exact_eval] / [run_eval_new] equal to the encoded outcome of Expr.exact_eval / Expr.eval_new for
   every tree, dictionary and depth above the height of the tree; the C12 campaign evaluates [check_scase] (vm_compute)
   against what the REAL Expr.eval_new / Expr.exact_eval returned. *)
From FJ Require Import Lib.Base Model.Ast Spec.ExprSpec Model.Expr Model.PyIR.
From FJ Require Import Gen.Facts_Expr.        (* regenerated; keep on its own line *)

Definition expr_cfg : config := mkconfig 0%N 0%N [] (fun _ => None).

(* ---- the representation of the model's data ---------------------------------------------------------------------- *)
Fixpoint codes (s : string) : list N :=
  match s with EmptyString => [] | String c r => N_of_ascii c :: codes r end.

Fixpoint enc (e : Ast.expr) : value :=
  match e with
  | Ast.EInt z => VObj (of_Z z)
  | Ast.ELbl s => VObj (VText (codes s))
  | Ast.EOp o args => VObj (VPair (VText (codes (opname_str o))) (VList (map enc args)))
  end.

Definition labels_value (L : list (string * Z)) : value :=
  VDict (map (fun p => (VText (codes (fst p)), of_Z (snd p))) L).
Definition params_value (S : list (string * Ast.expr)) : value :=
  VDict (map (fun p => (VText (codes (fst p)), enc (snd p))) S).
(* a dict read as the model's substitution: the first item with the key *)
Definition msubst_of_list (S : list (string * Ast.expr)) : msubst :=
  fun s => match find (fun p => String.eqb (fst p) s) S with Some p => Some (snd p) | None => None end.

Fixpoint height (e : Ast.expr) : nat :=
  match e with
  | Ast.EOp _ args => S (fold_right (fun a m => Nat.max (height a) m) O args)
  | _ => O
  end.

(* ---- the three calls whose meaning Model/PyIR.v leaves to the tie -------------------------------------------------- *)
Definition table_find (t : list N) : option pyfun :=
  match find (fun p => text_eqb (codes (fst p)) t) doc_op_table with Some p => Some (snd p) | None => None end.

Fixpoint ints_of (l : list value) : option (list Z) :=
  match l with
  | [] => Some []
  | v :: r => match int_Z v, ints_of r with Some z, Some zs => Some (z :: zs) | _, _ => None end
  end.

(* what an operator function answers / raises; the exceptions the model's fragment cannot name are Unsupported *)
Definition op_outcome (r : outcome Z) (w : world) : eres :=
  match r with
  | Ok z => EOk (of_Z z) w
  | LibError ExprOpRaised => EExn (XLib src_tag_op_raised) w
  | LibError _ => EUnsup
  | RawExn ZeroDivisionError => EExn XZeroDiv w
  | RawExn ValueError => EExn XValue w
  | RawExn TypeError => EExn XType w
  | RawExn _ => EUnsup
  end.

Definition op_lookup (args : list value) (w : world) : eres :=
  match args with
  | [VText t] => match table_find t with Some _ => EOk (VText t) w | None => EExn XKeyError w end
  | _ => EUnsup
  end.
Definition op_call (args : list value) (w : world) : eres :=
  match args with
  | [VText t; VList l] =>
    match table_find t, ints_of l with
    | Some fn, Some zs => op_outcome (py_call fn zs) w
    | _, _ => EUnsup
    end
  | _ => EUnsup
  end.

(* do two values have the same content?  (None: a value this tie gives no identity semantics to) *)
Fixpoint same_value (a b : value) : option bool :=
  match a, b with
  | VInt x, VInt y => Some (x =? y)%N
  | VNeg p, VNeg q => Some (Pos.eqb p q)
  | VText s, VText t => Some (text_eqb s t)
  | VObj u, VObj v => same_value u v
  | VPair a1 a2, VPair b1 b2 =>
    match same_value a1 b1, same_value a2 b2 with Some x, Some y => Some (x && y) | _, _ => None end
  | VList l1, VList l2 =>
    (fix go (l1 l2 : list value) : option bool :=
       match l1, l2 with
       | [], [] => Some true
       | x :: r1, y :: r2 => match same_value x y, go r1 r2 with Some p, Some q => Some (p && q) | _, _ => None end
       | _, _ => Some false
       end) l1 l2
  | VInt _, (VNeg _ | VText _ | VPair _ _) | VNeg _, (VInt _ | VText _ | VPair _ _)
  | VText _, (VInt _ | VNeg _ | VPair _ _) | VPair _ _, (VInt _ | VNeg _ | VText _) => Some false
  | _, _ => None
  end.

Definition pop_inp (w : world) : bool * world :=
  match w.(w_inp) with
  | [] => (false, w)
  | c :: r => (c, mkworld w.(w_mem) r w.(PyIR.w_out) w.(w_hist) w.(w_opc) w.(w_dev))
  end.
Definition is_call (args : list value) (w : world) : eres :=
  match args with
  | [a; b] =>
    match same_value a b with
    | None => EUnsup
    | Some false => EOk (VBool false) w
    | Some true => EOk (VBool (fst (pop_inp w))) (snd (pop_inp w))
    end
  | _ => EUnsup
  end.

(* the interpreter closed for expr.py: like PyIR.call_at, with the three calls above instead of PyIR.prim *)
Fixpoint expr_call (depth : nat) (f : fname) (args : list value) (w : world) : eres :=
  match f with
  | P_op_lookup => op_lookup args w
  | P_op_call => op_call args w
  | P_is => is_call args w
  | _ =>
    match depth with
    | O => EUnsup
    | S d =>
      match expr_program f with
      | None => EUnsup
      | Some (params, body) =>
        match bind_params params args [] with
        | None => EUnsup
        | Some en =>
          match exec expr_cfg (expr_call d) body en w with
          | SOk CNormal _ w1 => EOk VNone w1
          | SOk (CReturn v) _ w1 => EOk v w1
          | SOk (CRaise x) _ w1 => EExn x w1
          | SOk CContinue _ _ => EUnsup
          | SUnsup => EUnsup
          end
        end
      end
    end
  end.

Definition run_exact_eval (d : nat) (e : Ast.expr) (L : list (string * Z)) (w : world) : eres :=
  expr_call d F_expr_exact_eval [enc e; labels_value L] w.
Definition run_eval_new (d : nat) (e : Ast.expr) (S : list (string * Ast.expr)) (w : world) : eres :=
  expr_call d F_expr_eval_new [enc e; params_value S] w.

(* ---- the model's outcomes as outcomes of the interpreter ------------------------------------------------------------ *)
(* the library exception carries a message whose text is not modelled: only its diagnostic class (rule X10) *)
Definition lib_tag (k : liberr) : option N :=
  match k with
  | ExprOpRaised => Some src_tag_op_raised
  | ExprBadMath _ => Some src_tag_bad_math
  | ExprCantEvaluateLabel _ => Some src_tag_cant_evaluate_label
  | _ => None
  end.
Definition enc_outcome {A} (f : A -> value) (r : outcome A) (w : world) : eres :=
  match r with
  | Ok a => EOk (f a) w
  | LibError k => match lib_tag k with Some t => EExn (XLib t) w | None => EUnsup end
  | RawExn _ => EUnsup
  end.

(* ---- cases of the C12 campaign through the regenerated methods ------------------------------------------------------ *)
Inductive sobs :=
| SoTree (m : Ast.expr)              (* eval_new returned this tree *)
| SoInt (z : Z)                      (* exact_eval returned this int *)
| SoLib (tag : N)                    (* FlipJumpExprException of that diagnostic class *)
| SoOther.                           (* any other exception: never expected *)

Definition in_world (ids : list bool) : world := mkworld (PositiveMap.empty N) ids [] [] 0%N no_dev.

Definition agrees (r : eres) (o : sobs) : bool :=
  match r, o with
  | EOk v _, SoTree m => match same_value v (enc m) with Some true => true | _ => false end
  | EOk v _, SoInt z => match same_value v (of_Z z) with Some true => true | _ => false end
  | EExn (XLib t) _, SoLib t' => (t =? t')%N
  | _, _ => false
  end.

Record scase := mk_scase {
  sc_tree : Ast.expr;
  sc_params : list (string * Ast.expr);
  sc_labels : list (string * Z);
  sc_new : sobs;                      (* what the real tree.eval_new(params) did *)
  sc_exact : sobs;                    (* what the real tree.exact_eval(labels) did *)
  sc_staged : sobs }.                 (* what the real tree.eval_new(params).exact_eval(labels) did (SoOther when eval_new raised) *)

(* the identity oracle: "never the same object" and "the same object whenever the contents agree" *)
Definition always_same : list bool := repeat true 4096.

Definition check_scase (c : scase) : bool :=
  let d := S (height c.(sc_tree)) in
  let run ids :=
    agrees (run_eval_new d c.(sc_tree) c.(sc_params) (in_world ids)) c.(sc_new) &&
    match c.(sc_new) with
    | SoTree m => agrees (run_exact_eval (S (height m)) m c.(sc_labels) (in_world ids)) c.(sc_staged)
    | _ => true
    end in
  run [] && run always_same &&
  agrees (run_exact_eval d c.(sc_tree) c.(sc_labels) (in_world [])) c.(sc_exact).
