From FJ Require Import Lib.Base Model.AsmCache Proofs.AsmCacheProps Gen.Facts_C13.
From Coq Require Import String.
(* C13 - tie between the regenerated facts (Gen/Facts_C13.v, rewritten from the source by every check) and the
   model (Model/AsmCache.v).  Everything here is by computation on the generated definitions: an edit of the
   cache key, of what snapshot/restore copy, of the per-call / per-file resets, of a transcribed function, or a
   new module-global, makes this file fail to compile. *)
Local Open Scope string_scope.

Definition smem (s : string) (l : list string) : bool := existsb (String.eqb s) l.
Definition field_is (name kind : string) (l : list (string * string)) : bool :=
  existsb (fun p => String.eqb (fst p) name && String.eqb (snd p) kind) l.

(* ---- the cache key ---- *)
Lemma key_has_width : smem "memory_width" key_components = true.            Proof. reflexivity. Qed.
Lemma key_has_warning_mode : smem "warning_as_errors" key_components = true. Proof. reflexivity. Qed.
Lemma key_has_files : smem "files" key_components = true.                    Proof. reflexivity. Qed.
Lemma key_has_short_name : smem "short_name" key_file_components = true.     Proof. reflexivity. Qed.
Lemma key_has_path : smem "resolved_path" key_file_components = true.        Proof. reflexivity. Qed.
Lemma key_has_mtime : smem "st_mtime_ns" key_file_components = true.         Proof. reflexivity. Qed.
Lemma key_has_size : smem "st_size" key_file_components = true.              Proof. reflexivity. Qed.
Lemma key_covers_the_whole_prefix : key_files_range = "input_files[:prefix_length]". Proof. reflexivity. Qed.
Lemma key_is_exactly : key_components = ["memory_width"; "warning_as_errors"; "files"]
                       /\ key_file_components = ["short_name"; "resolved_path"; "st_mtime_ns"; "st_size"].
Proof. split; reflexivity. Qed.

(* ---- the shape of the tree, computed from the facts ---- *)
Definition gen_shape : shape :=
  mkshape (smem "memory_width" key_components) (smem "warning_as_errors" key_components)
          (smem "short_name" key_file_components) (smem "resolved_path" key_file_components)
          (smem "st_mtime_ns" key_file_components) (smem "st_size" key_file_components)
          (field_is "consts" "copy" snapshot_fields) (field_is "macros" "copy" snapshot_fields)
          (field_is "main_ops" "copy" snapshot_fields)
          (field_is "consts" "copy" restore_fields) (field_is "macros" "copy" restore_fields)
          (field_is "main.ops" "copy" restore_fields)
          (smem "curr_namespace=[]" lex_parse_resets)
          (smem "error_occurred=False" parse_macro_tree_resets) (smem "all_errors=''" parse_macro_tree_resets)
          limit_restored_in_finally.

Lemma shape_of_the_tree : gen_shape = code_shape.
Proof. reflexivity. Qed.

(* ---- the transcribed functions are the ones the model was written from ---- *)
Lemma tie_parse_macro_tree : skel_parse_macro_tree =
  ["global error_occurred, all_errors"; "error_occurred = False"; "all_errors = ''"; "if not input_files:";
   "> raise FlipJumpParsingException('The FlipJump parser got an empty files list.')"; "lexer = FJLexer()";
   "parser = FJParser(memory_width, warning_as_errors, input_files[0])";
   "_parse_files_into_parser(parser, lexer, input_files, memory_width, warning_as_errors)";
   "parser.validate_no_label_const_collisions()"; "exit_if_errors()"; "return parser.macros"].
Proof. reflexivity. Qed.

Lemma tie_lex_parse_curr_file : skel_lex_parse_curr_file =
  ["global curr_text, curr_namespace"; "try:"; "> curr_text = curr_file.open('r', encoding='utf-8').read()";
   "except UnicodeDecodeError as e:";
   "> raise FlipJumpParsingException(f'file {curr_file} is not valid utf-8 text: {e}') from None";
   "curr_namespace = []"; "lex_res = lexer.tokenize(curr_text)"; "exit_if_errors()"; "parser.parse(lex_res)";
   "exit_if_errors()"].
Proof. reflexivity. Qed.

Lemma tie_parse_files_into_parser : skel_parse_files_into_parser =
  ["global curr_file, curr_file_short_name"; "files_seen: Set[Union[str, Path]] = set()";
   "prefix_length = _stl_prefix_length(input_files)";
   "cache_key = _stl_cache_key(input_files, prefix_length, memory_width, warning_as_errors) if prefix_length else None";
   "first_uncached_index = 0"; "if cache_key is not None and cache_key in _stl_prefix_cache:";
   "> _restore_parser_from_cache(parser, _stl_prefix_cache[cache_key])";
   "> for (curr_file_short_name, curr_file) in input_files[:prefix_length]:"; "> > validate_current_file(files_seen)";
   "> first_uncached_index = prefix_length";
   "for (file_index, (curr_file_short_name, curr_file)) in enumerate(input_files):";
   "> if file_index < first_uncached_index:"; "> > continue"; "> validate_current_file(files_seen)";
   "> lex_parse_curr_file(lexer, parser)"; "> if cache_key is not None and file_index == prefix_length - 1:";
   "> > _snapshot_parser_to_cache(parser, cache_key)"].
Proof. reflexivity. Qed.

Lemma tie_stl_prefix_length : skel_stl_prefix_length =
  ["stl_dir = _STL_DIR"; "prefix_length = 0"; "for (_, file_path) in input_files:"; "> try:";
   "> > if not file_path.resolve().is_relative_to(stl_dir):"; "> > > break"; "> except OSError:"; "> > break";
   "> prefix_length += 1"; "return prefix_length"].
Proof. reflexivity. Qed.

Lemma tie_validate_current_file : skel_validate_current_file =
  ["if not path.isfile(curr_file):"; "> raise FlipJumpParsingException(f'No such file {curr_file}.')";
   "if curr_file_short_name in files_seen:";
   "> raise FlipJumpParsingException(f""Short file name is repeated: '{curr_file_short_name}'."")";
   "abs_path = curr_file.absolute()"; "if abs_path in files_seen:";
   "> raise FlipJumpParsingException(f"".fj file path is repeated: '{abs_path}'."")";
   "files_seen.add(curr_file_short_name)"; "files_seen.add(abs_path)"].
Proof. reflexivity. Qed.

Lemma tie_exit_if_errors : List.length skel_exit_if_errors = 2%nat /\ hd "" skel_exit_if_errors = "if error_occurred:".
Proof. split; reflexivity. Qed.

(* assemble: the limit is read first; parse, then expand (where the limit is set), then resolve and write; library
   errors pass, a RecursionError becomes a FlipJumpAssemblerException of its own ("nests too deeply"), anything else
   becomes the catch-all (in the model all three are the diag carried by E_raw / E_backend); the `finally` puts the
   limit back *)
Lemma tie_assemble :
  skel_assemble =
  ["recursion_limit_before = sys.getrecursionlimit()"; "try:";
   "> with PrintTimer('  parsing:         ', print_time=print_time):";
   "> > macros = parse_macro_tree(input_files, memory_width, warning_as_errors)";
   "> with PrintTimer('  macro resolve:   ', print_time=print_time):";
   "> > ops, labels = resolve_macros(memory_width, macros, show_statistics=show_statistics, max_recursion_depth=max_recursion_depth)";
   "> with PrintTimer('  labels resolve:  ', print_time=print_time):";
   "> > labels_resolve(ops, labels, memory_width, fjm_writer)"; "> assert_first_op_assembled(fjm_writer)";
   "> with PrintTimer('  create binary:   ', print_time=print_time):"; "> > fjm_writer.write_to_file()";
   "> > save_debugging_labels(debugging_file_path, labels)"; "except FlipJumpException as fj_exception:";
   "> raise fj_exception"; "except RecursionError as recursion_error:";
   "> raise FlipJumpAssemblerException(""The source nests too deeply for python's recursion limit (an expression with hundreds of nested terms, or macro nesting close to max_recursion_depth). Split the expression, or raise max_recursion_depth."") from recursion_error";
   "except Exception as unknown_exception:";
   "> raise FlipJumpAssemblerException('Unknown exception during assembling the .fj files, please report this bug') from unknown_exception";
   "finally:"; "> sys.setrecursionlimit(recursion_limit_before)"].
Proof. reflexivity. Qed.

Lemma tie_resolve_macros_sets_limit_first :
  hd "" skel_resolve_macros = "preprocessor_data = PreprocessorData(memory_width, macros, max_recursion_depth)"
  /\ preprocessor_init_limit =
     ["sys.setrecursionlimit(max_recursion_depth + GAP_BETWEEN_PYTHONS_AND_PREPROCESSOR_MACRO_RECURSION_DEPTH)"].
Proof. split; reflexivity. Qed.

(* ---- every module-global the pipeline writes is a component of gstate ---- *)
Definition modelled_globals : list string :=
  ["all_errors"; "curr_file"; "curr_file_short_name"; "curr_namespace"; "curr_text"; "error_occurred"].
Definition third {A B C} (t : A * B * C) : C := snd t.
Lemma globals_are_modelled :
  forallb (fun t => smem (third t) modelled_globals) globals_written = true
  /\ forallb (fun t => String.eqb (fst (fst t)) "flipjump/assembler/fj_parser.py") globals_written = true.
Proof. split; reflexivity. Qed.
Lemma container_mutations_are_modelled :
  map (fun t => (snd (fst t), snd t)) container_mutations =
  [("curr_namespace", "pop"); ("curr_namespace", "append"); ("_stl_prefix_cache", "item-assignment")].
Proof. reflexivity. Qed.
(* the only interpreter-wide setting touched is the recursion limit: set in PreprocessorData.__init__, read and
   put back by assemble *)
Lemma process_global_calls_are_modelled :
  map (fun t => (snd (fst (fst t)), snd (fst t), snd t)) process_global_calls =
  [("assemble", "sys.getrecursionlimit", ""); ("assemble", "sys.setrecursionlimit", "recursion_limit_before");
   ("PreprocessorData.__init__", "sys.setrecursionlimit",
    "max_recursion_depth + GAP_BETWEEN_PYTHONS_AND_PREPROCESSOR_MACRO_RECURSION_DEPTH")]
  /\ limit_restored_in_finally = true.
Proof. split; reflexivity. Qed.

(* ---- constants ---- *)
Lemma tie_constants :
  default_max_macro_recursion_depth = DEFAULT_DEPTH /\ gap_pythons_preprocessor = GAP
  /\ fresh_process_recursion_limit = FRESH_LIMIT /\ (DEFAULT_DEPTH + GAP = FRESH_LIMIT)%Z.
Proof. repeat split; reflexivity. Qed.

(* ---- the theorem for the shape read from the tree ---- *)
Theorem C13_tie_history_free : history_free_statement gen_shape.
Proof. rewrite shape_of_the_tree. exact history_free_code. Qed.
Print Assumptions C13_tie_history_free.
