From FJ Require Import Lib.Base Model.Cli Proofs.CliProps Gen.Facts_C20.
From Coq Require Import String Ascii.
(* C20 - tie between the regenerated facts (Gen/Facts_C20.v: argparse add_argument defaults/choices, keyword defaults
   of the flipjump_quickstart functions and of Writer.__init__, FJMVersion values, and which expression every route
   passes for every parameter) and the model (Model/Cli.v).  All by computation on the generated definitions. *)
Local Open Scope string_scope.

(* ---- reading the canonical value strings ---- *)
Definition digit_of (c : ascii) : option Z :=
  let n := nat_of_ascii c in
  if (Nat.leb 48 n && Nat.leb n 57)%bool then Some (Z.of_nat (n - 48)) else None.
Fixpoint digits (s : string) (acc : Z) : option Z :=
  match s with
  | EmptyString => Some acc
  | String c r => match digit_of c with Some dg => digits r (10 * acc + dg)%Z | None => None end
  end.
Definition parse_Z (s : string) : option Z := match s with EmptyString => None | _ => digits s 0%Z end.
Definition parse_optZ (s : string) : option (option Z) :=
  if String.eqb s "None" then Some None else match parse_Z s with Some z => Some (Some z) | None => None end.
Definition parse_bool (s : string) : option bool :=
  if String.eqb s "True" then Some true else if String.eqb s "False" then Some false else None.
Fixpoint scan_list (s : string) (cur : option Z) (acc : list Z) : option (list Z) :=
  match s with
  | EmptyString => None
  | String c r =>
    if (Ascii.eqb c "[" || Ascii.eqb c " ")%bool then scan_list r cur acc
    else if Ascii.eqb c "," then match cur with Some n => scan_list r None (acc ++ [n])%list | None => None end
    else if Ascii.eqb c "]" then Some (match cur with Some n => (acc ++ [n])%list | None => acc end)
    else match digit_of c with
         | Some dg => scan_list r (Some (10 * (match cur with Some n => n | None => 0 end) + dg)%Z) acc
         | None => None
         end
  end.
Definition parse_listZ (s : string) : option (list Z) := scan_list s None [].
Definition parse_quoted (s : string) : option string :=
  match s with
  | String "'" r => let n := String.length r in
                    match n with O => None | S m => if String.eqb (substring m 1 r) "'" then Some (substring 0 m r) else None end
  | _ => None
  end.

Definition arg_row (dest : string) :=
  find (fun r => match r with (d, _, _, _, _, _, _, _) => String.eqb d dest end) cli_arguments.
Definition arg_default (dest : string) : string :=
  match arg_row dest with Some (_, _, _, dflt, _, _, _, _) => dflt | None => "<missing>" end.
Definition arg_choices (dest : string) : string :=
  match arg_row dest with Some (_, _, _, _, ch, _, _, _) => ch | None => "<missing>" end.
Definition arg_flags (dest : string) : string :=
  match arg_row dest with Some (_, fl, _, _, _, _, _, _) => fl | None => "<missing>" end.
Definition kw (l : list (string * string)) (k : string) : string :=
  match find (fun p => String.eqb (fst p) k) l with Some p => snd p | None => "<missing>" end.

Definition bind {A B} (o : option A) (f : A -> option B) : option B := match o with Some x => f x | None => None end.
Notation "x <- e ;; k" := (bind e (fun x => k)) (at level 61, e at next level, right associativity).

(* the table of defaults, as the source states it *)
Definition gen_defs : option defs :=
  cw <- parse_Z (arg_default "width") ;; cwc <- parse_listZ (arg_choices "width") ;;
  cv <- parse_optZ (arg_default "version") ;; cf <- parse_Z (arg_default "flags") ;;
  cp <- parse_Z (arg_default "lzma_preset") ;; cpc <- parse_listZ (arg_choices "lzma_preset") ;;
  cwe <- parse_bool (arg_default "werror") ;; cmd <- parse_Z (arg_default "max_recursion_depth") ;;
  cns <- parse_bool (arg_default "no_stl") ;; cst <- parse_bool (arg_default "stats") ;;
  csi <- parse_bool (arg_default "silent") ;; cdo <- parse_Z (arg_default "debug_ops_list") ;;
  ctr <- parse_bool (arg_default "trace") ;; cpr <- parse_bool (arg_default "profile") ;;
  cfm <- parse_optZ (arg_default "flat_max_words") ;; cio <- parse_quoted (arg_default "io") ;;
  vw <- parse_Z (kw fjm_versions "CompressedVersion") ;; vn <- parse_Z (kw fjm_versions "NormalVersion") ;;
  vs <- Some (fold_right (fun p acc => match parse_Z (snd p) with Some z => z :: acc | None => acc end) [] fjm_versions) ;;
  qw <- parse_Z (kw api_assemble_defaults "memory_width") ;; qs <- parse_bool (kw api_assemble_defaults "use_stl") ;;
  qv <- parse_Z (kw api_assemble_defaults "fjm_version") ;; qe <- parse_bool (kw api_assemble_defaults "warning_as_errors") ;;
  qst <- parse_bool (kw api_assemble_defaults "show_statistics") ;; qpt <- parse_bool (kw api_assemble_defaults "print_time") ;;
  qmd <- parse_Z (kw api_assemble_defaults "max_recursion_depth") ;;
  qtr <- parse_bool (kw api_run_defaults "show_trace") ;; qrp <- parse_bool (kw api_run_defaults "print_time") ;;
  qpe <- parse_bool (kw api_run_defaults "print_termination") ;;
  qlo <- parse_optZ (kw api_run_defaults "last_ops_debugging_list_length") ;;
  qpf <- parse_bool (kw api_run_defaults "profile") ;; qfm <- parse_optZ (kw api_run_defaults "flat_max_words") ;;
  wf <- parse_Z (kw writer_defaults "flags") ;; wp <- parse_Z (kw writer_defaults "lzma_preset") ;;
  Some (mkdefs cw cwc cv cf cp cpc cwe cmd cns cst csi cdo ctr cpr cfm cio vw vn vs
               qw qs qv qe qst qpt qmd qtr qrp qpe qlo qpf qfm wf wp).

(* the defaults read from the source are the modelled (= documented) ones *)
Lemma defaults_of_the_source : gen_defs = Some model_defs.
Proof. vm_compute. reflexivity. Qed.

(* the documented ones, spelled out: width 64; without -v, version 3 with an output file and 1 without;
   the standard library is included (no_stl False / use_stl True) *)
Lemma documented_defaults :
  arg_default "width" = "64" /\ kw api_assemble_defaults "memory_width" = "64" /\
  kw api_assemble_and_run_defaults "memory_width" = "64" /\
  arg_default "version" = "None" /\ kw fjm_versions "CompressedVersion" = "3" /\ kw fjm_versions "NormalVersion" = "1" /\
  kw api_assemble_defaults "fjm_version" = "3" /\
  arg_default "no_stl" = "False" /\ kw api_assemble_defaults "use_stl" = "True" /\
  kw api_assemble_and_run_defaults "use_stl" = "True".
Proof. repeat split; reflexivity. Qed.

(* the real names of the flags the property quantifies over *)
Lemma flag_names :
  arg_flags "width" = "-w --width" /\ arg_flags "version" = "-v --version" /\ arg_flags "no_stl" = "--no_stl" /\
  arg_flags "outfile" = "-o --outfile" /\ arg_flags "debug" = "-d --debug" /\ arg_flags "werror" = "--werror" /\
  arg_flags "lzma_preset" = "--lzma_preset" /\ arg_flags "silent" = "-s --silent" /\
  arg_flags "asm" = "-a --asm" /\ arg_flags "run" = "-r --run".
Proof. repeat split; reflexivity. Qed.

(* every keyword of assemble_and_run / assemble_and_debug that assemble also has carries the same default *)
Lemma combined_api_defaults_agree :
  forallb (fun p => String.eqb (kw api_assemble_and_run_defaults (fst p)) (snd p)
                    && String.eqb (kw api_assemble_and_debug_defaults (fst p)) (snd p))
          (filter (fun p => negb (String.eqb (fst p) "debugging_file_path")) api_assemble_defaults) = true.
Proof. reflexivity. Qed.

(* get_version: what is returned without -v *)
Lemma tie_get_version :
  skel_get_version =
  ["if version is not None:"; "> if version not in {v.value for v in SUPPORTED_VERSIONS_NAMES}:";
   "> > supported = ', '.join((f'{v.value}: {name}' for v, name in SUPPORTED_VERSIONS_NAMES.items()))";
   "> > error_func(f'invalid fjm version {version}. supported versions are: {supported}.')";
   "> return FJMVersion(version)"; "if is_outfile_specified:"; "> return FJMVersion.CompressedVersion";
   "return FJMVersion.NormalVersion"].
Proof. reflexivity. Qed.

Lemma tie_get_file_tuples :
  skel_get_file_tuples =
  ["file_tuples = []"; "if not no_stl:"; "> for (i, stl_path) in enumerate(get_stl_paths(), start=1):";
   "> > file_tuples.append((f's{i}', stl_path))"; "for (i, file) in enumerate(files, start=1):";
   "> file_tuples.append((f'f{i}', Path(file)))"; "return file_tuples"].
Proof. reflexivity. Qed.

Lemma tie_get_files_paths :
  skel_get_files_paths =
  ["out_fjm_path = get_fjm_file_path(args, error_func, temp_dir_name)";
   "debug_path = get_debug_file_path(args, error_func, temp_dir_name)";
   "in_fjm_path = Path(args.files[0]) if args.run else out_fjm_path";
   "return (debug_path, in_fjm_path, out_fjm_path)"].
Proof. reflexivity. Qed.

Lemma tie_get_fjm_file_path :
  skel_get_fjm_file_path =
  ["out_fjm_file = args.outfile"; "if out_fjm_file is None:"; "> if args.asm:";
   "> > error_func('assemble-only is used, but no outfile is specified.')";
   "> out_fjm_file = os.path.join(temp_dir_name, 'out.fjm')"; "else:";
   "> if not args.run and (not out_fjm_file.endswith('.fjm')):";
   "> > error_func(f'output file {out_fjm_file} is not a .fjm file.')"; "return Path(out_fjm_file)"].
Proof. reflexivity. Qed.

Lemma tie_get_debug_file_path :
  skel_get_debug_file_path =
  ["debug_file: Optional[str] = args.debug";
   "debug_file_needed = not args.asm and any((args.breakpoint, args.breakpoint_contains))";
   "if debug_file is None and debug_file_needed:"; "> if not args.silent:";
   "> > parser_warning = 'Parser Warning - breakpoints are used but the debugging flag (-d) is not specified.'";
   "> > if args.werror:"; "> > > error_func(parser_warning)";
   "> > print(f'{parser_warning} Debugging data will be saved.')"; "> debug_file = ''"; "if debug_file == '':";
   "> if args.asm:"; "> > error_func('assemble-only is used with the debug flag, but no debug file is specified.')";
   "> if args.run:"; "> > error_func('run-only is used with the debug flag, but no debug file is specified.')";
   "> debug_file = os.path.join(temp_dir_name, 'debug.fjd')"; "if debug_file is None:"; "> return None";
   "return Path(debug_file)"].
Proof. reflexivity. Qed.

Lemma tie_execute_assemble_run :
  skel_execute_assemble_run =
  ["with TemporaryDirectory(suffix=get_temp_directory_suffix(args.files)) as temp_dir_name:";
   "> debug_path, in_fjm_path, out_fjm_path = get_files_paths(args, error_func, temp_dir_name)";
   "> if not args.run:"; "> > assemble(out_fjm_path, debug_path, args, error_func)"; "> if not args.asm:";
   "> > run(in_fjm_path, debug_path, args, error_func)"].
Proof. reflexivity. Qed.

(* ---- the plumbing: which expression reaches which parameter (this is what asm_call / run_call record) ---- *)
Lemma tie_cli_assemble :
  plumb_cli_assemble_to_get_file_tuples = [("#0", "args.files"); ("no_stl", "args.no_stl")] /\
  plumb_cli_assemble_to_Writer =
    [("#0", "out_fjm_file"); ("#1", "args.width");
     ("#2", "get_version(args.version, args.outfile is not None, error_func)");
     ("flags", "args.flags"); ("lzma_preset", "args.lzma_preset")] /\
  plumb_cli_assemble_to_assembler_assemble =
    [("#0", "file_tuples"); ("#1", "args.width"); ("#2", "fjm_writer"); ("warning_as_errors", "args.werror");
     ("debugging_file_path", "debug_file"); ("show_statistics", "args.stats"); ("print_time", "not args.silent");
     ("max_recursion_depth", "args.max_recursion_depth")].
Proof. repeat split; reflexivity. Qed.

Lemma tie_cli_run :
  plumb_cli_run_to_debug =
    [("#0", "in_fjm_path"); ("#1", "debug_file"); ("breakpoints_addresses", "set()");
     ("breakpoints", "set(args.breakpoint)"); ("breakpoints_contains", "set(args.breakpoint_contains)");
     ("io_device", "io_device"); ("show_trace", "args.trace"); ("print_time", "not args.silent");
     ("print_termination", "not args.silent"); ("last_ops_debugging_list_length", "args.debug_ops_list");
     ("profile", "args.profile"); ("flat_max_words", "args.flat_max_words")].
Proof. reflexivity. Qed.

Lemma tie_api_assemble :
  plumb_api_assemble_to_get_file_tuples =
    [("#0", "[str(fj_file.absolute()) for fj_file in fj_file_paths]"); ("no_stl", "not use_stl")] /\
  plumb_api_assemble_to_Writer = [("#0", "output_fjm_path"); ("#1", "memory_width"); ("#2", "fjm_version")] /\
  plumb_api_assemble_to_assembler_assemble =
    [("#0", "file_tuples"); ("#1", "memory_width"); ("#2", "fjm_writer"); ("debugging_file_path", "debugging_file_path");
     ("warning_as_errors", "warning_as_errors"); ("show_statistics", "show_statistics"); ("print_time", "print_time");
     ("max_recursion_depth", "max_recursion_depth")].
Proof. repeat split; reflexivity. Qed.

Lemma tie_api_run :
  plumb_api_run_to_debug =
    [("#0", "fjm_path"); ("#1", "debugging_file"); ("breakpoints_addresses", "None"); ("breakpoints", "None");
     ("breakpoints_contains", "None"); ("io_device", "io_device"); ("show_trace", "show_trace");
     ("print_time", "print_time"); ("print_termination", "print_termination");
     ("last_ops_debugging_list_length", "last_ops_debugging_list_length"); ("profile", "profile");
     ("flat_max_words", "flat_max_words")] /\
  plumb_api_debug_to_fjm_run_run =
    [("#0", "fjm_path"); ("io_device", "io_device"); ("show_trace", "show_trace"); ("print_time", "print_time");
     ("breakpoint_handler", "breakpoint_handler if breakpoint_handler.breakpoints else None");
     ("last_ops_debugging_list_length", "last_ops_debugging_list_length"); ("profile", "profile");
     ("flat_max_words", "flat_max_words")] /\
  plumb_api_debug_to_get_breakpoint_handler =
    [("#0", "debugging_file"); ("#1", "breakpoints_addresses"); ("#2", "breakpoints"); ("#3", "breakpoints_contains")] /\
  hd "" skel_api_debug = "if io_device is None:" /\ nth 1 skel_api_debug "" = "> io_device = StandardIO(True)".
Proof. repeat split; reflexivity. Qed.

Lemma tie_api_assemble_and_run :
  plumb_api_assemble_and_run_to_assemble_and_debug =
    [("#0", "fj_file_paths"); ("memory_width", "memory_width"); ("use_stl", "use_stl"); ("fjm_version", "fjm_version");
     ("warning_as_errors", "warning_as_errors"); ("show_statistics", "show_statistics"); ("print_time", "print_time");
     ("max_recursion_depth", "max_recursion_depth"); ("io_device", "io_device"); ("show_trace", "show_trace");
     ("print_termination", "print_termination"); ("last_ops_debugging_list_length", "last_ops_debugging_list_length")] /\
  plumb_api_assemble_and_debug_to_assemble =
    [("#0", "fj_file_paths"); ("#1", "fjm_file"); ("memory_width", "memory_width"); ("use_stl", "use_stl");
     ("fjm_version", "fjm_version"); ("warning_as_errors", "warning_as_errors"); ("debugging_file_path", "debug_file");
     ("show_statistics", "show_statistics"); ("print_time", "print_time"); ("max_recursion_depth", "max_recursion_depth")] /\
  plumb_api_assemble_and_debug_to_debug =
    [("#0", "fjm_file"); ("#1", "debug_file"); ("breakpoints_addresses", "breakpoints_addresses");
     ("breakpoints", "breakpoints"); ("breakpoints_contains", "breakpoints_contains"); ("io_device", "io_device");
     ("show_trace", "show_trace"); ("print_time", "print_time"); ("print_termination", "print_termination");
     ("last_ops_debugging_list_length", "last_ops_debugging_list_length")].
Proof. repeat split; reflexivity. Qed.

(* fjm_run.run has no parameter that only one route could set *)
Lemma tie_run_parameters :
  fjm_run_run_parameters = ["fjm_path"; "breakpoint_handler"; "io_device"; "show_trace"; "print_time";
                            "last_ops_debugging_list_length"; "profile"; "flat_max_words"].
Proof. reflexivity. Qed.

(* ---- the theorems, for the table of defaults read from the source ---- *)
Theorem C20_tie_same_args :
  forall gd, gen_defs = Some gd ->
  forall stl_paths is_file suffix_of (absolute : path -> path) io_modes render_nat,
    (forall p, absolute (absolute p) = absolute p) ->
    forall u tmp1 tmp2 o,
      uo_outfile u = Some o -> ends_with ".fjm" o = true -> twostep_expressible u ->
      onestep_asm gd stl_paths is_file suffix_of io_modes render_nat u tmp1
        = twostep_asm gd stl_paths is_file suffix_of io_modes render_nat u tmp2
      /\ onestep_run gd is_file suffix_of io_modes u tmp1 = twostep_run gd is_file suffix_of io_modes u tmp2
      /\ (api_expressible gd u = true ->
          forall c, onestep_asm gd stl_paths is_file suffix_of io_modes render_nat u tmp1 = inl (Some c) ->
                    norm_asm absolute c = norm_asm absolute (api_assemble gd stl_paths absolute render_nat u o))
      /\ (api_expressible gd u = true ->
          forall c, onestep_run gd is_file suffix_of io_modes u tmp1 = inl (Some c) -> c = api_run gd u o).
Proof.
  intros gd Hgd. rewrite defaults_of_the_source in Hgd. inversion Hgd; subst gd.
  intros stl_paths is_file suffix_of absolute io_modes render_nat Habs u tmp1 tmp2 o EO Hs Ht.
  split; [apply onestep_twostep_same_asm; exact Ht|].
  split; [apply onestep_twostep_same_run; [exact Ht | intros o' E; rewrite EO in E; inversion E; subst; exact Hs]|].
  split.
  - intros Hx c Hc. eapply cli_api_same_asm; eauto.
  - intros Hx c Hc. eapply cli_api_same_run; eauto.
Qed.
Print Assumptions C20_tie_same_args.
