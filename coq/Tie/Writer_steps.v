(* Writer source tie, definitions only (no proofs).  How the regenerated IR of coq/Gen/Facts_Writer.v (the data / segment
   methods of fjm_writer.Writer in the current source) is read as the writer functions of the hand model Model/Fjm.v:
   the Writer object is the attribute list d_self (word_size, version as its integer, segments as a list of 4-tuples,
   data as a list of ints - all Python ints, negative ones included), one call of Model/Fjm.wop is one method call, and
   how the call ends is the outcome code of Fjm.exec (0 returned, 1 FlipJumpWriteFjmException, 3 IndexError) with the
   returned int and the state the object is left in.
   Tie/Writer_tie.v proves [src_step] equal to [hand_step] for every configuration, state and arguments; the C06 campaign
   evaluates [check_writer_src] (vm_compute) against what the REAL Writer did. *)
From FJ Require Import Lib.Base Lib.Bytes Spec.ImageSpec Model.Fjm Model.PyIR.
From FJ Require Import Gen.Facts_Writer.        (* regenerated; keep on its own line *)
Local Open Scope Z_scope.

Definition wr_cfg : config := mkconfig 0 0 [] (fun _ => None).
(* add_simple_segment_with_data -> add_segment -> _validate_segment_not_overlapping -> _validate_.._not_overlapping ->
   _is_collision / get_segment_addresses_repr: call depth 5 *)
Definition callW : fname -> list value -> world -> eres := call_at wr_cfg writer_program 6.

Definition zseg_value (t : Z * Z * Z * Z) : value :=
  let '(s, l, ds, dl) := t in VList [of_Z s; of_Z l; of_Z ds; of_Z dl].
Definition writer_obj (c : wcfg) (st : wstate) : env :=
  [(f_writer_word_size, of_Z (c_w c)); (f_writer_version, of_Z (c_ver c));
   (f_writer_segments, VList (map zseg_value (ws_segs st))); (f_writer_data, VList (map of_Z (ws_data st)))].
Definition writer_world (c : wcfg) (st : wstate) : world :=
  mkworld (PositiveMap.empty N) [] [] [] 0%N (mkdev (writer_obj c st) [] []).

(* reading the object back *)
Fixpoint value_zs (l : list value) : option (list Z) :=
  match l with
  | [] => Some []
  | v :: r => match int_Z v, value_zs r with Some z, Some zs => Some (z :: zs) | _, _ => None end
  end.
Fixpoint value_zsegs (l : list value) : option (list (Z * Z * Z * Z)) :=
  match l with
  | [] => Some []
  | VList [a; b; c; d] :: r =>
    match int_Z a, int_Z b, int_Z c, int_Z d, value_zsegs r with
    | Some s, Some l', Some ds, Some dl, Some rest => Some ((s, l', ds, dl) :: rest)
    | _, _, _, _, _ => None
    end
  | _ => None
  end.
Definition state_of (w : world) : option wstate :=
  match lookup w.(w_dev).(d_self) f_writer_segments, lookup w.(w_dev).(d_self) f_writer_data with
  | Some (VList vs), Some (VList vd) =>
    match value_zsegs vs, value_zs vd with Some segs, Some d => Some (mkws segs d) | _, _ => None end
  | _, _ => None
  end.

(* one call on the Writer of configuration c in state st: outcome code, returned int, state afterwards
   (None: an outcome the model does not have, e.g. Unsupported; the state after an IndexError is not compared) *)
Definition src_call (op : wop) (w : world) : eres :=
  match op with
  | AddData l => callW F_w_add_data [VList (map of_Z l)] w
  | AddSeg s l ds dl => callW F_w_add_segment [of_Z s; of_Z l; of_Z ds; of_Z dl] w
  end.
Definition src_step (c : wcfg) (st : wstate) (op : wop) : option (N * Z * option wstate) :=
  match src_call op (writer_world c st) with
  | EOk v w' =>
    match state_of w', (match v with VNone => Some 0 | _ => int_Z v end) with
    | Some st', Some r => Some (0%N, r, Some st')
    | _, _ => None
    end
  | EExn (XLib _) w' => match state_of w' with Some st' => Some (1%N, 0, Some st') | None => None end
  | EExn XIndex _ => Some (3%N, 0, None)
  | _ => None
  end.

(* the same in the hand model *)
Definition hand_step (c : wcfg) (st : wstate) (op : wop) : N * Z * option wstate :=
  match apply_op c st op with
  | OpOk st' r => (0%N, r, Some st')
  | OpLib => (1%N, 0, Some st)
  | OpRaw e => (wexn_code e, 0, None)
  end.

(* a sequence of calls, as Fjm.exec runs it *)
Fixpoint src_exec (c : wcfg) (ops : list wop) (st : wstate) : option (list (N * Z) * option wstate) :=
  match ops with
  | [] => Some ([], Some st)
  | op :: r =>
    match src_step c st op with
    | Some (code, ret, Some st') =>
      match src_exec c r st' with Some (l, f) => Some ((code, ret) :: l, f) | None => None end
    | Some (code, ret, None) => Some ([(code, ret)], None)
    | None => None
    end
  end.

(* add_simple_segment_with_data(segment_start, data) as the two calls it makes *)
Definition src_simple (c : wcfg) (st : wstate) (s : Z) (l : list Z) : eres :=
  callW F_w_add_simple_segment_with_data [of_Z s; VList (map of_Z l)] (writer_world c st).

(* ---- write_to_file: the bytes it assembles --------------------------------------------------------------------------------- *)
(* lzma is an oracle of the configuration (Writer._compress_data is the primitive P_compress_data) *)
Definition wr_cfg_z (compress : bytes -> option bytes) : config := mkconfig 0 0 [] compress.
Definition write_obj (c : wcfg) (st : wstate) : env :=
  writer_obj c st ++ [(f_writer_flags, of_Z (c_flags c)); (f_writer_reserved, of_Z 0)].
Definition write_world (c : wcfg) (st : wstate) : world :=
  mkworld (PositiveMap.empty N) [] [] [] 0%N (mkdev (write_obj c st) [] []).
(* the file after the call (what an exception leaves on disk), as a result of Fjm.write *)
Definition wres_of (r : eres) : option wres :=
  match r with
  | EOk _ w' => Some (WOk w'.(w_dev).(d_stdout))
  | EExn (XLib _) _ => Some WLib
  | EExn XStruct w' => Some (WRaw ExStruct w'.(w_dev).(d_stdout))
  | EExn XKeyError w' => Some (WRaw ExKey w'.(w_dev).(d_stdout))
  | _ => None
  end.
Definition src_write (compress : bytes -> option bytes) (c : wcfg) (st : wstate) : option wres :=
  wres_of (call_at (wr_cfg_z compress) writer_program 1 F_w_write_to_file [] (write_world c st)).

(* ---- correspondence: a C06 case (Model/Fjm.c06) through the regenerated methods: the per-call outcomes the real Writer
   gave, and the file the real Writer wrote (or left behind) = what the regenerated write_to_file assembles from the table +
   pool the regenerated add_data / add_segment built *)
Definition check_writer_src (c : c06) : bool :=
  let cfg := mkcfg (k_w c) (k_ver c) (k_flags c) (k_preset c) in
  if negb (cfg_valid cfg) then negb (k_ctor c) else
  k_ctor c &&
  match src_exec cfg (k_ops c) ws_empty with
  | Some (res, fin) =>
    zpairs_eqb res (k_opres c) &&
    match fin with
    | None => (k_write c =? 9)%N
    | Some st => match src_write (lz_compress c) cfg st with
                 | Some r => let '(code, file) := wres_code r in (code =? k_write c)%N && bytes_eqb file (k_file c)
                 | None => false
                 end
    end
  | None => false
  end.
