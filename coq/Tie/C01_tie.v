(* The constants the engine and file models hard-code equal the ones in the current source
   (coq/Gen/Facts_C01.v is regenerated from /repo by harness/fjverif/gen_facts_c01.py on every run). *)
From Coq Require Import NArith List String.
From FJ Require Import Lib.Base Model.EngNative Model.Fjm Model.RunCase Gen.Facts_C01.
Import ListNotations.
Local Open Scope N_scope.

Lemma page_geometry : gen_PAGE_BITS = EngNative.PAGE_BITS /\ gen_PAGE_WORDS = EngNative.PAGE_WORDS /\
                      gen_PAGE_MASK = EngNative.PAGE_MASK.
Proof. repeat split; reflexivity. Qed.

Lemma flat_constants : gen_FLAT_MAX_WORDS_DEFAULT = EngNative.FLAT_MAX_WORDS_DEFAULT /\
                       gen_GARBAGE_SENTINEL = EngNative.GARBAGE_SENTINEL /\
                       gen_FLAT_GARBAGE_MAGIC = EngNative.FLAT_GARBAGE_MAGIC.
Proof. repeat split; reflexivity. Qed.

(* the native termination codes and the TerminationCause enum, as used by RunCase.cause_code and fjm_run._run_native *)
Lemma termination_codes :
  gen_TERM_LOOPING = 0 /\ gen_TERM_EOF = 1 /\ gen_TERM_NULL_IP = 2 /\ gen_TERM_MEMORY_ERROR = 3 /\
  gen_termination_causes = [("Looping"%string, 0); ("EOF"%string, 1); ("NullIP"%string, 2); ("UnalignedWord"%string, 3);
                            ("UnalignedOp"%string, 4); ("RuntimeMemoryError"%string, 5); ("KeyboardInterrupt"%string, 6)].
Proof. repeat split; reflexivity. Qed.

(* every C loop defines in_addr = 3 * width + ww + 1, the machine definition's input bit address *)
Lemma in_addr_everywhere : gen_in_addr_c_loops = 3.
Proof. reflexivity. Qed.

Lemma file_format_constants :
  gen_reserved_dict_threshold = Fjm.reserved_dict_threshold /\ gen_reserved_dict_threshold = 1000 /\
  gen_header_base_format = "<HHQQ"%string /\ gen_header_extension_format = "<QL"%string /\
  gen_segment_format = "<QQQQ"%string /\ gen_supported_widths = [8; 16; 32; 64].
Proof. repeat split; reflexivity. Qed.
