(* EngPy source tie, definitions only (no proofs).  How the regenerated IR of coq/Gen/Facts_EngPy.v is read as the
   functions the hand model Model/EngPy.v provides: the Reader configuration the engines run with, the closed call
   semantics, and one iteration of each `while True:` loop as a step function on the model state [pst].
   Tie/EngPy_tie.v proves these equal to the hand model for every state; the C01 campaign evaluates [check_case_src]
   (this file, vm_compute) against what the real engines returned, so that a translator or interpreter defect cannot
   hide behind the proofs.  Part of the trusted reading, keep it short. *)
From FJ Require Import Lib.Base Spec.MachineSpec Model.EngPy Model.PyIR Model.RunCase.
From FJ Require Import Gen.Facts_EngPy.        (* regenerated; keep on its own line (engpy_source.py relocates it) *)
Local Open Scope N_scope.

Section W.
Variable ww : N.
Variable zb : list (N * N).

(* the Reader the engines run with: width w = 2^ww, GarbageHandling.Stop, the given zero ranges *)
Definition cfg : config := mkconfig (MachineSpec.w ww) src_garbage_stop zb (fun _ => None).
Definition callS : nat -> fname -> list value -> world -> eres := call_at cfg src_program.
(* calls made by a loop body nest at most 5 deep (loop -> _handle_input -> write_bit -> _get_memory_word -> _new_garbage_val) *)
Definition call : fname -> list value -> world -> eres := callS 8.

(* what the run ends with: `return TerminationStatistics(statistics, cause)` in the loop, or the
   FlipJumpRuntimeMemoryException that fjm_run.run turns into RuntimeMemoryError(address) *)
Definition cause_of_term (c : N) : option cause :=
  if c =? src_cause_Looping then Some Looping
  else if c =? src_cause_EOF then Some EOFc
  else if c =? src_cause_NullIP then Some NullIP
  else None.
Definition cause_of_exit (c : ctl) : option cause :=
  match c with
  | CReturn (VTerm t) => cause_of_term t
  | CRaise (XMemory a) => Some (MemErr a)
  | _ => None
  end.

Definition no_world : world := mkworld (PositiveMap.empty N) [] [] [] 0 no_dev.
(* the local variables at the loop head: run the statements before the loop *)
Definition loop_env (params : env) (prelude : stmt) : option env :=
  match exec cfg call prelude params no_world with SOk CNormal en _ => Some en | _ => None end.

(* ---- _run_fast: one iteration of `while True:` from the model state s ----------------------------------------- *)
(* `ip` and `ops` are the loop-carried locals; statistics.op_counter is only written on the way out (the return
   sites and the `finally:` clause), which is where the model's p_ops of a halted run comes from.
   The ip of a halted run is not part of what the loops return: it is reported as 0. *)
Definition fast_outcome (r : sres) : option (pst + cause * pst) :=
  match r with
  | SUnsup => None
  | SOk CNormal en1 wd =>
    match lookup en1 v_run_fast_ip, lookup en1 v_run_fast_ops with
    | Some (VInt ip1), Some (VInt ops1) => Some (inl (mkpst ip1 wd.(w_mem) wd.(w_inp) wd.(w_out) ops1 wd.(w_hist)))
    | _, _ => None
    end
  | SOk c en1 wd =>
    match cause_of_exit c, exec cfg call src_run_fast_finally en1 wd with
    | Some cs, SOk CNormal _ wd1 => Some (inr (cs, mkpst 0 wd1.(w_mem) wd1.(w_inp) wd1.(w_out) wd1.(w_opc) wd1.(w_hist)))
    | _, _ => None
    end
  end.
Definition src_fast_step (s : pst) : option (pst + cause * pst) :=
  match loop_env [] src_run_fast_prelude with
  | None => None
  | Some en0 =>
    let en := bind (bind en0 v_run_fast_ip (VInt s.(p_ip))) v_run_fast_ops (VInt s.(p_ops)) in
    fast_outcome (exec cfg call src_run_fast_body en (mkworld s.(p_mem) s.(p_inp) s.(p_out) s.(p_hist) 0 no_dev))
  end.

(* ---- _run_featured (breakpoint_handler = None, show_trace = False): one iteration ---------------------------- *)
(* `ip` is the loop-carried local; the op count lives in statistics.op_counter (register_op) *)
Definition featured_outcome (r : sres) : option (pst + cause * pst) :=
  match r with
  | SUnsup => None
  | SOk CNormal en1 wd =>
    match lookup en1 v_run_featured_ip with
    | Some (VInt ip1) => Some (inl (mkpst ip1 wd.(w_mem) wd.(w_inp) wd.(w_out) wd.(w_opc) wd.(w_hist)))
    | _ => None
    end
  | SOk c en1 wd =>
    match cause_of_exit c, exec cfg call src_run_featured_finally en1 wd with
    | Some cs, SOk CNormal _ wd1 => Some (inr (cs, mkpst 0 wd1.(w_mem) wd1.(w_inp) wd1.(w_out) wd1.(w_opc) wd1.(w_hist)))
    | _, _ => None
    end
  end.
Definition featured_params : env :=
  bind (bind [] v_run_featured_breakpoint_handler VNone) v_run_featured_show_trace (VBool false).
Definition src_featured_step (s : pst) : option (pst + cause * pst) :=
  match loop_env featured_params src_run_featured_prelude with
  | None => None
  | Some en0 =>
    let en := bind en0 v_run_featured_ip (VInt s.(p_ip)) in
    featured_outcome (exec cfg call src_run_featured_body en (mkworld s.(p_mem) s.(p_inp) s.(p_out) s.(p_hist) s.(p_ops) no_dev))
  end.
End W.

(* the step functions made total: an Unsupported outcome stops the run as "out of fuel" (Tie/EngPy_tie.v proves that
   it does not happen; in the campaign it would show as a disagreement) *)
Definition src_total (f : pst -> option (pst + cause * pst)) (s : pst) : pst + cause * pst :=
  match f s with Some r => r | None => inr (OutOfFuel, s) end.

(* ---- one correspondence case (the rcase encoding of Model/RunCase.v) on the regenerated loop bodies ------------ *)
Definition run_case_src (c : rcase) : cause * pst :=
  let '(zbs, ps) := py_init c in
  run_py (src_total (if c.(c_eng) =? 0 then src_featured_step c.(c_ww) zbs else src_fast_step c.(c_ww) zbs))
         (N.to_nat c.(c_fuel)) ps.
Definition observe_src (c : rcase) : robs :=
  let '(cs, s) := run_case_src c in
  let '(cc, fa) := cause_code cs in
  let '(ob, ot) := out_bytes s.(p_out) in
  mkobs cc s.(p_ops) fa (N.of_nat (length s.(p_out))) ob (bits_val ot)
        (match c.(e_last) with Some (k, _) => rev (firstn (N.to_nat k) s.(p_hist)) | None => [] end)
        (map (fun p => (fst p, mget0 s.(p_mem) (fst p))) c.(e_mem)).
(* cause, fault address, op count, output bits, last-ops ring and final memory words, as the real engine returned them *)
Definition check_case_src (c : rcase) : bool := obs_matches c (observe_src c).
