(* Devices source tie, definitions only (no proofs).  How the regenerated IR of coq/Gen/Facts_Devices.v (FixedIO and
   StandardIO of the current source) is read as the functions of the hand model Model/Devices.v: a device object is the
   attribute list d_self of the interpreter's world, sys.stdin / sys.stdout are d_stdin / d_stdout, one operation of
   Spec/IOSpec.op is one method call, and what the call returns or raises is the observation Spec/IOSpec.obs.
   Tie/Devices_tie.v proves these equal to Model/Devices.v for every device state; the C17 campaign evaluates
   [check_fixed_src] / [check_standard_src] (vm_compute) against what the REAL classes answered. *)
From FJ Require Import Lib.Base Spec.MachineSpec Spec.IOSpec Model.PyIR Model.Devices.
From FJ Require Import Gen.Facts_Devices.        (* regenerated; keep on its own line *)
Local Open Scope N_scope.

(* the device methods use no Reader and call only primitives (depth 1) *)
Definition dev_cfg : config := mkconfig 0 0 [] (fun _ => None).
Definition callD : fname -> list value -> world -> eres := call_at dev_cfg dev_program 1.

(* a world that holds only a device *)
Definition dev_world (d : dev) : world := mkworld (PositiveMap.empty N) [] [] [] 0 d.

(* what a call returned / raised, as the observation of Spec/IOSpec.v (code 99: not an answer of a device) *)
Definition obs_of (r : eres) : obs :=
  match r with
  | EOk (VBool b) _ => OBit b
  | EOk VNone _ => ODone
  | EOk (VBytes l) _ => OBytes l
  | EExn XEOF _ => OEof
  | EExn XIncomplete _ => OIncomplete
  | EExn XOverflow _ => ORaw EXN_OVERFLOW
  | _ => ORaw 99
  end.
Definition world_after (w : world) (r : eres) : world :=
  match r with EOk _ w' => w' | EExn _ w' => w' | EUnsup => w end.

(* one operation on the device of class FixedIO (fixed = true) / StandardIO *)
Definition src_call (fixed : bool) (o : op) (w : world) : eres :=
  match o with
  | OpRead => callD (if fixed then F_fixed_read_bit else F_std_read_bit) [] w
  | OpWrite b => callD (if fixed then F_fixed_write_bit else F_std_write_bit) [VBool b] w
  | OpGet a => callD (if fixed then F_fixed_get_output else F_std_get_output) [VBool a] w
  end.
Fixpoint src_run (fixed : bool) (w : world) (ops : list op) : list obs * world :=
  match ops with
  | [] => ([], w)
  | o :: r =>
    let res := src_call fixed o w in
    let '(l, w') := src_run fixed (world_after w res) r in (obs_of res :: l, w')
  end.

(* FixedIO(input) / StandardIO(output_verbose) with `stdin` on sys.stdin: run __init__ on an object without attributes *)
Definition src_fixed_new (input : list N) : world :=
  world_after (dev_world no_dev) (callD F_fixed_init [VBytes input] (dev_world no_dev)).
Definition src_std_new (verbose : bool) (stdin : list N) : world :=
  let w := dev_world (mkdev [] stdin []) in world_after w (callD F_std_init [VBool verbose] w).

(* ---- correspondence cases of checks/c17.py (tcase / scase of Model/Devices.v) on the regenerated methods -------- *)
Definition check_fixed_src (c : tcase) : bool :=
  let '(input, ops, ob) := c in
  codes_eqb (map obs_code (fst (src_run true (src_fixed_new input) (map op_of_code ops)))) ob.
Definition check_standard_src (c : scase) : bool :=
  let '(verbose, input, ops, ob, out) := c in
  let '(tr, w) := src_run false (src_std_new verbose input) (map op_of_code ops) in
  codes_eqb (map obs_code tr) ob && codes_eqb w.(w_dev).(d_stdout) out.
