(* Breakpoints source tie, definitions only (no proofs).  How the regenerated IR of coq/Gen/Facts_Breakpoints.v (the three
   update_breakpoints_* functions of debugging/breakpoints.py in the current source, and the order in which get_breakpoints
   calls them) is read as the breakpoint functions of the hand model Model/Labels.v: a set is the list of its elements in
   iteration order, the label table and the breakpoints dict are the lists of their items in insertion order, labels are
   data strings (code points), the warnings are what print() puts on the output stream.
   Tie/Breakpoints_tie.v proves [src_get_breakpoints] equal to Labels.get_breakpoints + the lines of Labels.bp_warnings;
   the C16 campaign evaluates [check_bcase_src] (vm_compute) against what the REAL get_breakpoint_handler built and printed. *)
From FJ Require Import Lib.Base Model.Labels Model.PyIR.
From Coq Require Import String.
From FJ Require Import Gen.Facts_Breakpoints.        (* regenerated; keep on its own line *)
Local Open Scope Z_scope.

Definition bp_cfg : config := mkconfig 0 0 [] (fun _ => None).

Definition set_value (l : list str) : value := VList (map VText l).
Definition addrs_value (l : list Z) : value := VList (map of_Z l).
Definition table_value (t : table) : value := VDict (map (fun p => (VText (fst p), of_Z (snd p))) t).
Definition label_value (o : option str) : value := match o with None => VNone | Some s => VText s end.
Definition bdict_value (d : bdict) : value := VDict (map (fun p => (of_Z (fst p), label_value (snd p))) d).
Fixpoint items_bdict (l : list (value * value)) : option bdict :=
  match l with
  | [] => Some []
  | (k, v) :: r =>
    match int_Z k, (match v with VNone => Some None | VText s => Some (Some s) | _ => None end), items_bdict r with
    | Some a, Some o, Some d => Some ((a, o) :: d)
    | _, _, _ => None
    end
  end.

(* a world in which only the output stream matters *)
Definition out_world (out : list N) : world := mkworld (PositiveMap.empty N) [] [] [] 0%N (mkdev [] [] out).

(* run one of the three functions: its parameters, the variable that holds the breakpoints dict; the result is the dict the
   caller sees afterwards (rule B1 of the translator) and the output stream *)
Definition run_update (f : fname) (bp_var : ident) (args : list value) (out : list N) : option (bdict * list N) :=
  match bp_program f with
  | Some (params, body) =>
    match bind_params params args [] with
    | Some en =>
      match exec bp_cfg (call_at bp_cfg bp_program 0) body en (out_world out) with
      | SOk CNormal en' w' =>
        match lookup en' bp_var with
        | Some (VDict items) => option_map (fun d => (d, w'.(w_dev).(d_stdout))) (items_bdict items)
        | _ => None
        end
      | _ => None
      end
    | None => None
    end
  | None => None
  end.

Definition src_from_addresses (A : list Z) (d : bdict) (out : list N) : option (bdict * list N) :=
  run_update F_bp_from_addresses v_bp_from_addresses_breakpoints [addrs_value A; bdict_value d] out.
Definition src_from_contains (Sub : list str) (t : table) (d : bdict) (out : list N) : option (bdict * list N) :=
  run_update F_bp_from_contains v_bp_from_contains_breakpoints [set_value Sub; bdict_value d; table_value t] out.
Definition src_from_labels (Ls : list str) (t : table) (d : bdict) (out : list N) : option (bdict * list N) :=
  run_update F_bp_from_labels v_bp_from_labels_breakpoints [set_value Ls; bdict_value d; table_value t] out.

(* get_breakpoints: a fresh dict, the three functions in the order of the current source *)
Definition src_apply (A : list Z) (Ls Sub : list str) (t : table) (st : option (bdict * list N)) (f : fname) : option (bdict * list N) :=
  match st with
  | None => None
  | Some (d, out) =>
    match f with
    | F_bp_from_addresses => src_from_addresses A d out
    | F_bp_from_contains => src_from_contains Sub t d out
    | F_bp_from_labels => src_from_labels Ls t d out
    | _ => None
    end
  end.
Definition src_get_breakpoints (A : list Z) (Ls Sub : list str) (t : table) : option (bdict * list N) :=
  fold_left (src_apply A Ls Sub t) src_get_breakpoints_order (Some ([], [])).

(* "Warning:  Breakpoint label <l> can't be found!" and the newline of print *)
Definition warn_line (l : str) : list N :=
  (S_ "Warning:  Breakpoint label "%string ++ l ++ S_ " can't be found!"%string ++ [10%N])%list.

(* a breakpoint query of the C16 campaign (Model/Labels.bcase) through the regenerated functions: the dict the real
   get_breakpoint_handler built, and the warning lines it printed *)
Definition check_bcase_src (c : bcase) : bool :=
  match src_get_breakpoints c.(b_A) c.(b_L) c.(b_S) c.(b_table) with
  | Some (d, out) => bdict_eqb d c.(b_observed) && text_eqb out (List.concat (map warn_line c.(b_warnings)))
  | None => false
  end.
