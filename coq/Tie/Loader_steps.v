(* Loader source tie, definitions only (no proofs).  How the regenerated IR of coq/Gen/Facts_Loader.v
   (Reader._init_memory and Reader._validate_segments of the current source) is read as the loading stage of the hand model
   Model/Fjm.v: the Reader object is the attribute list d_self (memory_width, version set by the header stage;
   memory_segments and zeros_boundaries built here), Reader.memory is w_mem, the segment table is a list of 4-tuples and
   the data pool a list of ints; what the call returns or raises is an [mres] of Model/Fjm.v.
   Tie/Loader_tie.v proves [src_stage] equal to [hand_stage] for every table and pool; the C10 campaign evaluates
   [check10_src] (the whole reader model with the regenerated stage, vm_compute) against what the REAL Reader did. *)
From FJ Require Import Lib.Base Lib.Bytes Spec.ImageSpec Model.PyIR Model.Fjm.
From FJ Require Import Gen.Facts_Loader.        (* regenerated; keep on its own line *)
Local Open Scope N_scope.

Definition ldr_cfg : config := mkconfig 0 0 [] (fun _ => None).
(* _init_memory calls _validate_segments: call depth 2 *)
Definition callL : fname -> list value -> world -> eres := call_at ldr_cfg loader_program 2.

Definition seg_value (t : tseg) : value :=
  let '(ss, sl, ds, dl) := t in VList [VInt ss; VInt sl; VInt ds; VInt dl].
Definition pairs_value (l : list (N * N)) : value := VList (map (fun q => VPair (VInt (fst q)) (VInt (snd q))) l).
Fixpoint value_pairs (l : list value) : option (list (N * N)) :=
  match l with
  | [] => Some []
  | VPair (VInt a) (VInt b) :: r => option_map (cons (a, b)) (value_pairs r)
  | _ => None
  end.

(* the Reader after _init_header_fields / _validate_header: its width and version *)
Definition reader_obj (w ver : N) : env := [(f_reader_memory_width, VInt w); (f_reader_version, VInt ver)].
Definition loader_world (w ver : N) : world := mkworld (PositiveMap.empty N) [] [] [] 0 (mkdev (reader_obj w ver) [] []).

(* the diagnostic classes of gen_facts_loader.MESSAGES *)
Definition err_of_tag (t : N) : option rerr :=
  match t with 1 => Some ETable | 2 => Some EOddData | 3 => Some EPool | _ => None end.

(* self._init_memory(segments, data), read as a result of Model/Fjm.v (RxFuel: an outcome the model does not have) *)
Definition src_stage (w ver : N) (table : list tseg) (data : list N) : mres :=
  match callL F_init_memory [VList (map seg_value table); VList (map VInt data)] (loader_world w ver) with
  | EOk _ wd =>
    match lookup wd.(w_dev).(d_self) f_reader_memory_segments, lookup wd.(w_dev).(d_self) f_reader_zeros_boundaries with
    | Some (VList vs), Some (VList vz) =>
      match value_pairs vs, value_pairs vz with
      | Some segs, Some z => MOk segs wd.(w_mem) z
      | _, _ => MRaw RxFuel
      end
    | _, _ => MRaw RxFuel
    end
  | EExn (XLib t) _ => match err_of_tag t with Some k => MErr k | None => MRaw RxFuel end
  | EExn XIndex _ => MRaw RxIndex
  | _ => MRaw RxFuel
  end.

(* the same stage in the hand model (the end of Fjm.read_thr) *)
Definition hand_stage (thr w ver : N) (table : list tseg) (data : list N) : mres :=
  if validate_segments table then MErr ETable
  else init_memory thr w ((ver =? 2) || (ver =? 3)) data (N.of_nat (length data)) (PositiveMap.empty N) table.

(* Fjm.read_thr with the loading stage as a parameter (the text of read_thr up to `_init_memory`) *)
Definition read_with (stage : N -> N -> list tseg -> list N -> mres) (decompress : bytes -> option bytes) (b : bytes) : rres :=
  match take header_base_size b with
  | None => RErr EStruct
  | Some (h, r1) =>
    let magic := u_at 0 2 h in
    let w := u_at 2 2 h in
    let ver := u_at 4 8 h in
    let segnum := u_at 12 8 h in
    if max_version <? ver then RErr EVersion else
    match (if ver =? 0 then Some (0, 0, r1)
           else match take header_extension_size r1 with
                | None => None
                | Some (e, r2) => Some (u_at 0 8 e, u_at 8 4 e, r2)
                end) with
    | None => RErr EStruct
    | Some (flags, reserved, r2) =>
      if negb (magic =? FJ_MAGIC) then RErr EMagic else
      if negb (supported_width w) then RErr EWidth else
      if negb (reserved =? 0) then RErr EReserved else
      if N.of_nat (length r2) <? 32 * segnum then RErr EStruct else
      match read_segs (N.to_nat segnum) r2 with
      | None => RErr EStruct
      | Some (table, payload) =>
        match word_bytes w with
        | None => RRaw RxKey
        | Some wb =>
          match (if ver =? 3 then decompress payload else Some payload) with
          | None => RErr ELzma
          | Some fd =>
            match unpack_words (length fd) wb fd with
            | UStruct => RErr EStruct
            | UFuel => RRaw RxFuel
            | UOk data =>
              match stage w ver table data with
              | MErr k => RErr k
              | MRaw e => RRaw e
              | MOk segs m z => ROk (mkimg w ver flags table (N.of_nat (length data)) segs m z)
              end
            end
          end
        end
      end
    end
  end.

(* the whole reader with the regenerated loading stage *)
Definition read_src : (bytes -> option bytes) -> bytes -> rres := read_with src_stage.

(* a C10 correspondence case (Model/Fjm.c10) on it: what check10 compares, computed through the regenerated stage *)
Definition check10_src (c : c10) : bool :=
  match read_src (lz_oracle c) (t_file c) with
  | ROk i => (t_class c =? 0) && (i_w i =? t_w c) && (i_ver i =? t_ver c) &&
             pairs_eqb (i_segs i) (t_segs c) && mem_eqb (i_mem i) (t_mem c) && pairs_eqb (i_zeros i) (t_zeros c)
  | RErr _ => t_class c =? 1
  | RRaw _ => false
  end.
