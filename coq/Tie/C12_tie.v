(* C12 source tie (T-gen).  Gen/Facts_C12.v is regenerated from the CURRENT source of
   flipjump/assembler/inner_classes/expr.py and flipjump/assembler/fj_parser.py by
   harness/fjverif/gen_facts_c12.py on every run of ./check C12; this file is recompiled against it.
   Each lemma says: what the source says now = what the specification documents / the model transcribes. *)
From FJ Require Import Lib.Base Model.Ast Spec.ExprSpec Model.Expr Gen.Facts_C12.

(* op_string_to_function: same keys, each bound to the same `operator` function / lambda / def *)
Lemma op_table_is_documented : gen_op_table = doc_op_table.
Proof. vm_compute. reflexivity. Qed.

(* hence the model's operator application IS the denotation of the current table *)
Lemma apply_op_is_current_table : forall o args, apply_op o args = apply_op_in gen_op_table o args.
Proof. intros. unfold apply_op. now rewrite op_table_is_documented. Qed.

(* FJParser.precedence: the 14 rows *)
Lemma prec_table_is_documented : gen_precedence = doc_precedence.
Proof. vm_compute. reflexivity. Qed.

(* the lexer's tokens (spelling of << >> ** && || <= >= == != and everything that could shadow them) *)
Lemma lexer_tokens_are_documented : gen_lexer_tokens = doc_lexer_tokens /\ gen_lexer_literals = doc_lexer_literals.
Proof. split; vm_compute; reflexivity. Qed.

(* char_escape_dict *)
Lemma char_escapes_are_documented : gen_char_escapes = doc_char_escapes.
Proof. vm_compute. reflexivity. Qed.

(* every operator production hands its operands to get_minimized_expr with the documented key, in order *)
Lemma grammar_rules_are_documented : gen_grammar_rules = doc_grammar_rules.
Proof. vm_compute. reflexivity. Qed.

(* the functions transcribed by hand in Model/Expr.v still read as they did when transcribed.  Expr.eval_new and
   Expr.exact_eval are excepted: they are tied semantically, whatever their text (Gen/Facts_Expr.v, Tie/Expr_tie.v,
   Properties/C12_source.v: the interpreter on their regenerated IR computes Expr.eval_new / Expr.exact_eval) *)
Definition source_tied (p : string * string) : bool :=
  String.eqb (fst p) "expr.Expr.eval_new" || String.eqb (fst p) "expr.Expr.exact_eval".
Lemma modelled_sources_unchanged :
  gen_other_expr_rules = modelled_other_expr_rules /\
  gen_model_sources = filter (fun p => negb (source_tied p)) modelled_sources.
Proof. split; vm_compute; reflexivity. Qed.
