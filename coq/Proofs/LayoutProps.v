From FJ Require Import Lib.Base.
(* C02: proofs about the layout model (Model/Layout.v) against the denotation (Spec/DenoteSpec.v). *)
From FJ Require Import Spec.MachineSpec Model.Ast Spec.DenoteSpec Model.DenoteCheck Model.Layout Proofs.DenoteProps.
From Coq Require Import DecimalString DecimalN DecimalPos DecimalFacts Permutation.
Local Open Scope Z_scope.

(* ================= expressions ================= *)

Section ExprInd.
Variable Q : expr -> Prop.
Hypothesis Hint : forall z, Q (EInt z).
Hypothesis Hlbl : forall s, Q (ELbl s).
Hypothesis Hop : forall o args, Forall Q args -> Q (EOp o args).
Fixpoint expr_ind' (e : expr) : Q e :=
  match e with
  | EInt z => Hint z
  | ELbl s => Hlbl s
  | EOp o args =>
    Hop o args ((fix go (l : list expr) : Forall Q l :=
                   match l with [] => Forall_nil Q | x :: l' => Forall_cons x (expr_ind' x) (go l') end) args)
  end.
End ExprInd.

(* the argument evaluators, named *)
Fixpoint evs (env : string -> option Z) (l : list expr) : option (list Z) :=
  match l with
  | [] => Some []
  | x :: l' => match eval_expr env x, evs env l' with Some v, Some vs => Some (v :: vs) | _, _ => None end
  end.
Lemma eval_expr_op env o args :
  eval_expr env (EOp o args) = match evs env args with Some vs => apply_op o vs | None => None end.
Proof.
  cbn [eval_expr]. fold (eval_expr env).
  replace ((fix evs (l : list expr) : option (list Z) :=
              match l with
              | [] => Some []
              | x :: l' => match eval_expr env x, evs l' with Some v, Some vs => Some (v :: vs) | _, _ => None end
              end) args) with (evs env args); [reflexivity|].
  induction args as [|x l IH]; cbn [evs]; [reflexivity|]. now rewrite IH.
Qed.

Fixpoint news (d : option Z) (l : list expr) : option (list expr) :=
  match l with
  | [] => Some []
  | x :: l' => match eval_new d x with
               | None => None
               | Some x' => match news d l' with None => None | Some r => Some (x' :: r) end
               end
  end.
Lemma eval_new_op d o args :
  eval_new d (EOp o args) =
  match news d args with
  | None => None
  | Some args' => match ints_of args' with
                  | Some vs => match apply_op o vs with Some v => Some (EInt v) | None => None end
                  | None => Some (EOp o args')
                  end
  end.
Proof.
  cbn [eval_new]. fold (eval_new d).
  replace ((fix go (l : list expr) : option (list expr) :=
              match l with
              | [] => Some []
              | x :: l' => match eval_new d x with
                           | None => None
                           | Some x' => match go l' with None => None | Some r => Some (x' :: r) end
                           end
              end) args) with (news d args); [reflexivity|].
  induction args as [|x l IH]; cbn [news]; [reflexivity|]. now rewrite IH.
Qed.

(* the environment eval_new substitutes into *)
Definition env_of (d : option Z) (l : labels) : string -> option Z :=
  match d with Some v => env_at l v | None => lookup l end.

Lemma ints_of_evs env l vs : ints_of l = Some vs -> evs env l = Some vs.
Proof.
  revert vs. induction l as [|x l IH]; cbn [ints_of evs]; intros vs H.
  - exact H.
  - destruct x as [z| |]; try discriminate.
    destruct (ints_of l) as [r|]; [|discriminate]. injection H as <-.
    cbn [eval_expr]. now rewrite (IH r eq_refl).
Qed.

(* eval_new substitutes `$` and folds; evaluating the result under the labels = evaluating the source with `$` bound *)
Lemma eval_new_correct d l e : forall e', eval_new d e = Some e' -> eval_expr (lookup l) e' = eval_expr (env_of d l) e.
Proof.
  induction e as [z|s|o args IH] using expr_ind'; intros e' H.
  - cbn in H. injection H as <-. reflexivity.
  - cbn [eval_new] in H. injection H as <-. destruct d as [v|]; cbn [env_of].
    + unfold env_at. cbn [eval_expr]. destruct (String.eqb s "$"); reflexivity.
    + reflexivity.
  - rewrite eval_new_op in H. rewrite eval_expr_op.
    destruct (news d args) as [args'|] eqn:En; [|discriminate].
    assert (Hevs : evs (lookup l) args' = evs (env_of d l) args).
    { clear H. revert args' En. induction IH as [|x r Hx _ IHr]; cbn [news evs]; intros args' En.
      - injection En as <-. reflexivity.
      - destruct (eval_new d x) as [x'|] eqn:Ex; [|discriminate].
        destruct (news d r) as [r'|] eqn:Er; [|discriminate]. injection En as <-.
        cbn [evs]. rewrite (Hx x' eq_refl), (IHr r' eq_refl). reflexivity. }
    destruct (ints_of args') as [vs|] eqn:Ei.
    + destruct (apply_op o vs) as [v|] eqn:Ea; [|discriminate]. injection H as <-.
      cbn [eval_expr]. rewrite <- Hevs, (ints_of_evs _ _ _ Ei). now rewrite Ea.
    + injection H as <-. rewrite eval_expr_op. now rewrite Hevs.
Qed.

(* later label tables only add names *)
Definition extends (l l' : labels) : Prop := forall k v, lookup l k = Some v -> lookup l' k = Some v.

Lemma extends_refl l : extends l l.
Proof. now intros k v H. Qed.
Lemma extends_trans a b c : extends a b -> extends b c -> extends a c.
Proof. intros H1 H2 k v H. now apply H2, H1. Qed.

Lemma eval_mono_env (f g : string -> option Z) e :
  (forall k v, f k = Some v -> g k = Some v) -> forall v, eval_expr f e = Some v -> eval_expr g e = Some v.
Proof.
  intros Hfg. induction e as [z|s|o args IH] using expr_ind'; intros v H.
  - exact H.
  - cbn in *. now apply Hfg.
  - rewrite eval_expr_op in *.
    destruct (evs f args) as [vs|] eqn:E; [|discriminate].
    assert (evs g args = Some vs) as ->; [|exact H].
    clear H. revert vs E. induction IH as [|x r Hx _ IHr]; cbn [evs]; intros vs E.
    + exact E.
    + destruct (eval_expr f x) as [vx|] eqn:Ex; [|discriminate].
      destruct (evs f r) as [vr|] eqn:Er; [|discriminate]. injection E as <-.
      now rewrite (Hx vx eq_refl), (IHr vr eq_refl).
Qed.

Lemma eval_mono l l' e v : extends l l' -> eval_expr (lookup l) e = Some v -> eval_expr (lookup l') e = Some v.
Proof. intros H. now apply eval_mono_env. Qed.

Lemma eval_mono_at l l' d e v :
  extends l l' -> eval_expr (env_at l d) e = Some v -> eval_expr (env_at l' d) e = Some v.
Proof.
  intros H. apply eval_mono_env. intros k x. unfold env_at. destruct (String.eqb k "$"); [auto|apply H].
Qed.

(* ================= dictionaries and generated names ================= *)

Lemma lookup_dict_set_same l k v : lookup (dict_set l k v) k = Some v.
Proof.
  induction l as [|[k' v'] l IH]; cbn [dict_set lookup].
  - now rewrite String.eqb_refl.
  - destruct (String.eqb k' k) eqn:E; cbn [lookup]; rewrite E; [reflexivity|exact IH].
Qed.

Lemma lookup_dict_set_other l k v k' : k <> k' -> lookup (dict_set l k v) k' = lookup l k'.
Proof.
  intros Hne. induction l as [|[k0 v0] l IH]; cbn [dict_set lookup].
  - destruct (String.eqb k k') eqn:E; [apply String.eqb_eq in E; contradiction|reflexivity].
  - destruct (String.eqb k0 k) eqn:E; cbn [lookup].
    + apply String.eqb_eq in E. subst k0.
      destruct (String.eqb k k') eqn:E'; [apply String.eqb_eq in E'; contradiction|reflexivity].
    + now rewrite IH.
Qed.

Lemma dict_mem_lookup l k : dict_mem l k = false -> lookup l k = None.
Proof.
  induction l as [|[k' v'] l IH]; cbn [dict_mem lookup]; [reflexivity|].
  destruct (String.eqb k' k); cbn; [discriminate|exact IH].
Qed.

Lemma lookup_dict_mem l k v : lookup l k = Some v -> dict_mem l k = true.
Proof.
  intros H. destruct (dict_mem l k) eqn:E; [reflexivity|]. rewrite (dict_mem_lookup _ _ E) in H. discriminate.
Qed.

Lemma extends_dict_set_new l k v : lookup l k = None -> extends l (dict_set l k v).
Proof.
  intros Hn k' v' H. destruct (String.eqb k k') eqn:E.
  - apply String.eqb_eq in E. subst k'. congruence.
  - rewrite lookup_dict_set_other; [exact H|]. intros ->. now rewrite String.eqb_refl in E.
Qed.

Lemma N_to_string_inj a b : N_to_string a = N_to_string b -> a = b.
Proof.
  unfold N_to_string. intros H.
  assert (Hn : forall n, N.to_uint n <> Decimal.Nil).
  { intros [|p]; cbn; [discriminate|]. apply DecimalPos.Unsigned.to_uint_nonnil. }
  apply (f_equal NilZero.uint_of_string) in H.
  rewrite !NilZero.usu in H by apply Hn. injection H as H.
  now apply DecimalN.Unsigned.to_uint_inj.
Qed.

Lemma append_inj_l (p a b : string) : (p ++ a = p ++ b)%string -> a = b.
Proof. induction p as [|c p IH]; cbn; intros H; [exact H|]. injection H as H. now apply IH. Qed.

Lemma wflip_start_label_inj a b : wflip_start_label a = wflip_start_label b -> a = b.
Proof. unfold wflip_start_label. intros H. apply append_inj_l in H. now apply N_to_string_inj in H. Qed.
Lemma wflip_label_inj a b : wflip_label a = wflip_label b -> a = b.
Proof. unfold wflip_label. intros H. apply append_inj_l in H. now apply N_to_string_inj in H. Qed.

Lemma prefix_append p x : String.prefix p (p ++ x) = true.
Proof.
  induction p as [|c p IH]; cbn; [now destruct x|].
  destruct (Ascii.ascii_dec c c) as [_|n]; [exact IH|now elim n].
Qed.

(* ================= preprocessor: addresses and labels ================= *)

(* label names the lexer can produce (identifiers over [a-zA-Z_0-9.]: fj_parser.py id_re / dot_id_re) contain no `:`, so
   they never look like the names `:wflips:<k>` that BinaryData._insert_wflip_label generates and assigns without a
   duplicate check.  (A source label spelled `_.wflip_area_start_<k>` is possible; since the fix of finding F17,
   commit 07c8d15, insert_segment rejects the collision, so no hypothesis about it is needed any more.) *)
Definition user_name (k : string) : bool := negb (String.prefix ":wflips:" k).
Definition lexical_stmt (s : stmt) : bool := match s with SLabel n _ => user_name n | _ => true end.
Definition lexical_labels (P : list stmt) : bool := forallb lexical_stmt P.

Lemma user_name_not_wflip k i : user_name k = true -> k <> wflip_label i.
Proof.
  unfold user_name, wflip_label. intros H ->. rewrite prefix_append in H. discriminate.
Qed.

Section Pre.
Variable ww : N.
Notation wd := (wd ww).
Notation dwd := (dwd ww).

Lemma wd_pos : 0 < wd.
Proof. apply wz_pos. Qed.
Lemma dwd_eq : dwd = 2 * wd.
Proof. reflexivity. Qed.

Definition keys_inv (st : pstate) : Prop :=
  forall k v, lookup (p_labels st) k = Some v ->
              user_name k = true \/ (exists i, (i < p_seg st)%N /\ k = wflip_start_label i) \/ k = main_start_label.

Lemma round_up_pad a n :
  0 < n -> a mod dwd = 0 -> round_up a (n * dwd) = a + ((- a) / dwd) mod n * dwd.
Proof.
  intros Hn Ha. pose proof wd_pos as Hw. rewrite dwd_eq in *.
  set (d := 2 * wd) in *. assert (Hd : 0 < d) by (unfold d; lia).
  apply Z.mod_divide in Ha; [|lia]. destruct Ha as [q ->].
  replace (- (q * d)) with ((- q) * d) by ring. rewrite Z.div_mul by lia.
  unfold round_up. pose proof (Z.mod_pos_bound (- q) n Hn) as Hr.
  pose proof (Z.div_mod (- q) n ltac:(lia)) as Hq.
  set (r := (- q) mod n) in *. set (m := (- q) / n) in *.
  assert (E : (q * d + n * d - 1) / (n * d) = - m).
  { symmetry. apply Z.div_unique with ((n - r) * d - 1); nia. }
  rewrite E. nia.
Qed.

(* what one statement appends to result_ops (most recent first) *)
Definition step_ops (st st1 : pstate) (s : stmt) : Prop :=
  match s with
  | SLabel _ _ => p_ops st1 = p_ops st
  | SFlipJump f j _ =>
    exists f' j', eval_new (Some (p_addr st1)) f = Some f' /\ eval_new (Some (p_addr st1)) j = Some j'
                  /\ p_ops st1 = LFlipJump f' j' :: p_ops st
  | SWordFlip a v r _ =>
    exists a' v' r', eval_new (Some (p_addr st1)) a = Some a' /\ eval_new (Some (p_addr st1)) v = Some v'
                     /\ eval_new (Some (p_addr st1)) r = Some r' /\ p_ops st1 = LWordFlip a' v' r' :: p_ops st
  | SPad _ _ => exists k, 0 <= k /\ p_addr st1 = p_addr st + k * dwd /\ p_ops st1 = LPadding k :: p_ops st
  | SSegment _ _ => p_addr st1 mod wd = 0
                    /\ p_ops st1 = LNewSeg (p_addr st1) WFLIP_NOT_INSERTED_YET :: patch_wflip (p_ops st) (p_addr st)
  | SReserve _ _ => p_addr st <= p_addr st1 /\ (p_addr st1 - p_addr st) mod wd = 0
                    /\ p_ops st1 = LReserve (p_addr st1) :: p_ops st
  | _ => False
  end.

Lemma insert_label_spec st name a st1 :
  insert_label st name a = Ok st1 -> keys_inv st -> (user_name name = true \/ name = main_start_label) ->
  keys_inv st1 /\ extends (p_labels st) (p_labels st1) /\ lookup (p_labels st1) name = Some a
  /\ p_addr st1 = p_addr st /\ p_ops st1 = p_ops st /\ p_seg st1 = p_seg st.
Proof.
  unfold insert_label. destruct (dict_mem (p_labels st) name) eqn:E; [discriminate|].
  intros H Hk Hu. injection H as <-. cbn [p_labels p_addr p_ops p_seg].
  apply dict_mem_lookup in E.
  split; [|split; [|split; [|repeat split]]].
  - intros k v H. cbn [p_labels p_seg] in *. destruct (String.eqb name k) eqn:Ek.
    + apply String.eqb_eq in Ek. subst k. destruct Hu; auto.
    + rewrite lookup_dict_set_other in H; [now apply Hk in H|]. intros ->. now rewrite String.eqb_refl in Ek.
  - now apply extends_dict_set_new.
  - apply lookup_dict_set_same.
Qed.

Lemma pre_step_spec st s st1 lf :
  pre_step ww st s = Ok st1 -> keys_inv st -> lexical_stmt s = true -> extends (p_labels st1) lf ->
  next_addr ww (lookup lf) s (p_addr st) = Some (p_addr st1)
  /\ keys_inv st1 /\ extends (p_labels st) (p_labels st1) /\ step_ops st st1 s
  /\ (p_seg st <= p_seg st1)%N
  /\ match s with SLabel name _ => lookup (p_labels st1) name = Some (p_addr st) | _ => True end.
Proof.
  intros H Hk Hlex Hext. pose proof wd_pos as Hw.
  destruct s as [f j ?|a v r ?|e ?|name ?|? ? ?|? ? ? ? ?|e ?|e ?]; cbn [pre_step] in H; try discriminate.
  - (* op *)
    destruct (eval_new _ f) as [f'|] eqn:Ef; [|discriminate].
    destruct (eval_new _ j) as [j'|] eqn:Ej; [|discriminate]. injection H as <-.
    cbn [p_addr p_labels p_ops p_seg step_ops next_addr]. repeat split; try assumption.
    + apply extends_refl.
    + exists f', j'. auto.
    + lia.
  - (* wflip *)
    destruct (eval_new _ a) as [a'|] eqn:Ea; [|discriminate].
    destruct (eval_new _ v) as [v'|] eqn:Ev; [|discriminate].
    destruct (eval_new _ r) as [r'|] eqn:Er; [|discriminate]. injection H as <-.
    cbn [p_addr p_labels p_ops p_seg step_ops next_addr]. repeat split; try assumption.
    + apply extends_refl.
    + exists a', v', r'. auto.
    + lia.
  - (* pad *)
    destruct (eval_new None e) as [e'|] eqn:Ee; [|discriminate].
    destruct (exact_eval (p_labels st) e') as [n|] eqn:En; [|discriminate].
    destruct (n <=? 0) eqn:Hn; [discriminate|]. apply Z.leb_gt in Hn.
    unfold align_current_address in H.
    destruct (negb (p_addr st mod dwd =? 0)) eqn:Ha; [discriminate|].
    apply negb_false_iff, Z.eqb_eq in Ha.
    destruct (_ >? _); [discriminate|]. injection H as <-.
    cbn [p_addr p_labels p_ops p_seg step_ops next_addr] in *.
    assert (Hev : eval_expr (lookup lf) e = Some n).
    { unfold exact_eval in En. rewrite (eval_new_correct None (p_labels st) e e' Ee) in En. cbn [env_of] in En.
      eapply eval_mono; eassumption. }
    rewrite Hev. assert ((0 <? n) = true) as -> by now apply Z.ltb_lt.
    change (dwz ww) with dwd. rewrite Ha, Z.eqb_refl. cbn [andb].
    rewrite round_up_pad by assumption. repeat split; try assumption.
    + apply extends_refl.
    + exists ((- p_addr st / dwd) mod n). repeat split. apply Z.mod_pos_bound. lia.
    + lia.
  - (* label *)
    cbn [lexical_stmt] in Hlex.
    destruct (insert_label_spec _ _ _ _ H Hk (or_introl Hlex)) as (K1 & K2 & K3 & K4 & K5 & K6).
    cbn [next_addr step_ops]. rewrite K4. repeat split; try assumption. rewrite K6. lia.
  - (* segment *)
    destruct (eval_new None e) as [e'|] eqn:Ee; [|discriminate].
    destruct (exact_eval (p_labels st) e') as [a|] eqn:En; [|discriminate].
    destruct (negb (a mod wd =? 0)) eqn:Ha; [discriminate|].
    apply negb_false_iff, Z.eqb_eq in Ha. unfold insert_segment in H.
    destruct (dict_mem (p_labels st) (wflip_start_label (p_seg st))) eqn:Edm; [discriminate|]. injection H as <-.
    cbn [p_addr p_labels p_ops p_seg step_ops next_addr] in *.
    assert (Hfresh : lookup (p_labels st) (wflip_start_label (p_seg st)) = None) by now apply dict_mem_lookup.
    assert (Hev : eval_expr (lookup lf) e = Some a).
    { unfold exact_eval in En. rewrite (eval_new_correct None (p_labels st) e e' Ee) in En. cbn [env_of] in En.
      eapply eval_mono; [|exact En]. eapply extends_trans; [|exact Hext]. now apply extends_dict_set_new. }
    repeat split; try assumption.
    + intros k v H. cbn [p_seg p_labels] in *. destruct (String.eqb (wflip_start_label (p_seg st)) k) eqn:Ek.
      * apply String.eqb_eq in Ek. right; left. exists (p_seg st). split; [lia|now symmetry].
      * rewrite lookup_dict_set_other in H by (intros E; rewrite E, String.eqb_refl in Ek; discriminate).
        apply Hk in H. destruct H as [Hu|[[i [Hi Hi']]|Hm]]; auto.
        right; left. exists i. split; [lia|assumption].
    + now apply extends_dict_set_new.
    + lia.
  - (* reserve *)
    destruct (eval_new None e) as [e'|] eqn:Ee; [|discriminate].
    destruct (exact_eval (p_labels st) e') as [r|] eqn:En; [|discriminate].
    destruct (r <? 0) eqn:Hneg; [discriminate|]. apply Z.ltb_ge in Hneg.
    destruct (negb (r mod wd =? 0)) eqn:Ha; [discriminate|].
    apply negb_false_iff, Z.eqb_eq in Ha. injection H as <-.
    unfold insert_reserve in *. cbn [p_addr p_labels p_ops p_seg step_ops next_addr] in *.
    assert (Hev : eval_expr (lookup lf) e = Some r).
    { unfold exact_eval in En. rewrite (eval_new_correct None (p_labels st) e e' Ee) in En. cbn [env_of] in En.
      eapply eval_mono; eassumption. }
    rewrite Hev. repeat split; try assumption.
    + apply extends_refl.
    + lia.
    + replace (p_addr st + r - p_addr st) with r by ring. exact Ha.
    + lia.
Qed.

(* the address where the code of the current segment ends (= the start of its wflip area) *)
Fixpoint code_end (a : Z) (L : list placed) : Z :=
  match L with
  | [] => a
  | p :: L' => if is_segment p then pl_addr p else code_end (pl_next p) L'
  end.

(* the last-phase op list that corresponds to a placed statement list *)
Fixpoint ops_rel (L : list placed) (ops : list lastop) : Prop :=
  match L with
  | [] => ops = []
  | p :: L' =>
    match pl_stmt p with
    | SLabel _ _ => pl_next p = pl_addr p /\ ops_rel L' ops
    | SFlipJump f j _ =>
      exists f' j' r, eval_new (Some (pl_next p)) f = Some f' /\ eval_new (Some (pl_next p)) j = Some j'
                      /\ pl_next p = pl_addr p + dwd /\ ops = LFlipJump f' j' :: r /\ ops_rel L' r
    | SWordFlip a v r0 _ =>
      exists a' v' r' r, eval_new (Some (pl_next p)) a = Some a' /\ eval_new (Some (pl_next p)) v = Some v'
                         /\ eval_new (Some (pl_next p)) r0 = Some r'
                         /\ pl_next p = pl_addr p + dwd /\ ops = LWordFlip a' v' r' :: r /\ ops_rel L' r
    | SPad _ _ => exists k r, 0 <= k /\ pl_next p = pl_addr p + k * dwd /\ ops = LPadding k :: r /\ ops_rel L' r
    | SSegment _ _ =>
      exists r, pl_next p mod wd = 0 /\ ops = LNewSeg (pl_next p) (code_end (pl_next p) L') :: r /\ ops_rel L' r
    | SReserve _ _ =>
      exists r, pl_addr p <= pl_next p /\ (pl_next p - pl_addr p) mod wd = 0
                /\ ops = LReserve (pl_next p) :: r /\ ops_rel L' r
    | _ => False
    end
  end.

Lemma last_cons {A} (x : A) l d : last (x :: l) d = last l x.
Proof.
  revert x d. induction l as [|y l IH]; intros x d; [reflexivity|].
  change (last (x :: y :: l) d) with (last (y :: l) d). rewrite (IH y d), (IH y x). reflexivity.
Qed.

Lemma patch_patch l x y : patch_wflip (patch_wflip l x) y = patch_wflip l y.
Proof.
  induction l as [|o l IH]; [reflexivity|].
  destruct o; cbn [patch_wflip]; try (now rewrite IH). reflexivity.
Qed.

Definition label_ok (l : labels) (p : placed) : Prop :=
  match pl_stmt p with SLabel n _ => lookup l n = Some (pl_addr p) | _ => True end.

Lemma label_ok_mono l l' p : extends l l' -> label_ok l p -> label_ok l' p.
Proof. unfold label_ok. intros H. destruct (pl_stmt p); auto. Qed.

Lemma pre_loop_spec P : forall st st' lf,
  pre_loop ww st P = Ok st' -> keys_inv st -> lexical_labels P = true -> extends (p_labels st') lf ->
  exists L new,
    place ww (lookup lf) P (p_addr st) = Some L
    /\ ops_rel L new
    /\ patch_wflip (p_ops st') (p_addr st') = rev new ++ patch_wflip (p_ops st) (code_end (p_addr st) L)
    /\ keys_inv st' /\ extends (p_labels st) (p_labels st')
    /\ p_addr st' = last (map pl_next L) (p_addr st)
    /\ Forall (label_ok (p_labels st')) L.
Proof.
  induction P as [|s P IH]; intros st st' lf H Hk Hlex Hext.
  - cbn in H. injection H as <-. exists [], []. cbn. repeat split; auto using extends_refl.
  - cbn [pre_loop bind] in H. destruct (pre_step ww st s) as [st1| |] eqn:Es; try discriminate.
    cbn [lexical_labels forallb] in Hlex. apply andb_true_iff in Hlex. destruct Hlex as [Hl1 Hl2].
    destruct (IH st1 st' lf H) as (L1 & new1 & Hpl & Hrel & Hpatch & Hk' & Hext1 & Haddr & Hlab); clear IH.
    + assert (X : extends (p_labels st1) (p_labels st1)) by apply extends_refl.
      now destruct (pre_step_spec st s st1 _ Es Hk Hl1 X) as (_ & K & _).
    + exact Hl2.
    + exact Hext.
    + assert (Hext' : extends (p_labels st1) lf) by (eapply extends_trans; eassumption).
      destruct (pre_step_spec st s st1 lf Es Hk Hl1 Hext') as (Hn & _ & Hext0 & Hops & _ & Hlbl).
      set (p := mkpl s (p_addr st) (p_addr st1)).
      assert (Hplace : place ww (lookup lf) (s :: P) (p_addr st) = Some (p :: L1)).
      { cbn [place]. rewrite Hn, Hpl. reflexivity. }
      assert (Hlast : p_addr st' = last (map pl_next (p :: L1)) (p_addr st)).
      { rewrite Haddr. cbn [map]. rewrite last_cons. reflexivity. }
      assert (Hlabs : Forall (label_ok (p_labels st')) (p :: L1)).
      { constructor; [|exact Hlab]. unfold label_ok, p. cbn [pl_stmt pl_addr].
        destruct s; auto; now apply Hext1. }
      assert (Hx : extends (p_labels st) (p_labels st')) by (eapply extends_trans; eassumption).
      destruct s as [f j ?|a v r ?|e ?|name ?|? ? ?|? ? ? ? ?|e ?|e ?]; cbn [step_ops] in Hops; try contradiction.
      * destruct Hops as (f' & j' & E1 & E2 & E3).
        exists (p :: L1), (LFlipJump f' j' :: new1). repeat split; try assumption.
        -- cbn [ops_rel pl_stmt p pl_next pl_addr]. exists f', j', new1. repeat split; try assumption.
           cbn [next_addr] in Hn. injection Hn as Hn. now rewrite <- Hn.
        -- rewrite Hpatch, E3. cbn [patch_wflip code_end is_segment pl_stmt p pl_next rev]. now rewrite <- app_assoc.
      * destruct Hops as (a' & v' & r' & E1 & E2 & E3 & E4).
        exists (p :: L1), (LWordFlip a' v' r' :: new1). repeat split; try assumption.
        -- cbn [ops_rel pl_stmt p pl_next pl_addr]. exists a', v', r', new1. repeat split; try assumption.
           cbn [next_addr] in Hn. injection Hn as Hn. now rewrite <- Hn.
        -- rewrite Hpatch, E4. cbn [patch_wflip code_end is_segment pl_stmt p pl_next rev]. now rewrite <- app_assoc.
      * destruct Hops as (k & K1 & K2 & K3).
        exists (p :: L1), (LPadding k :: new1). repeat split; try assumption.
        -- cbn [ops_rel pl_stmt p pl_next pl_addr]. exists k, new1. repeat split; assumption.
        -- rewrite Hpatch, K3. cbn [patch_wflip code_end is_segment pl_stmt p pl_next rev]. now rewrite <- app_assoc.
      * cbn [next_addr] in Hn. injection Hn as Hn.
        exists (p :: L1), new1.
        split; [assumption|]. split; [|split; [|repeat split; assumption]].
        -- cbn [ops_rel pl_stmt p pl_next pl_addr]. split; [now rewrite Hn|assumption].
        -- rewrite Hpatch, Hops. cbn [code_end is_segment pl_stmt p pl_next]. reflexivity.
      * destruct Hops as (K1 & K2).
        exists (p :: L1), (LNewSeg (p_addr st1) (code_end (p_addr st1) L1) :: new1). repeat split; try assumption.
        -- cbn [ops_rel pl_stmt p pl_next pl_addr]. exists new1. repeat split; assumption.
        -- rewrite Hpatch, K2. cbn [patch_wflip code_end is_segment pl_stmt p pl_addr rev]. now rewrite <- app_assoc.
      * destruct Hops as (K0 & K1 & K2).
        exists (p :: L1), (LReserve (p_addr st1) :: new1). repeat split; try assumption.
        -- cbn [ops_rel pl_stmt p pl_next pl_addr]. exists new1. repeat split; assumption.
        -- rewrite Hpatch, K2. cbn [patch_wflip code_end is_segment pl_stmt p pl_next rev]. now rewrite <- app_assoc.
Qed.

Lemma keys_not_wflip st : keys_inv st -> forall k v i, lookup (p_labels st) k = Some v -> k <> wflip_label i.
Proof.
  intros Hk k v i H. apply Hk in H. destruct H as [Hu | [[j [_ E]] | E]]; try subst k.
  - now apply user_name_not_wflip.
  - unfold wflip_start_label, wflip_label. cbn. discriminate.
  - unfold main_start_label, wflip_label. cbn. discriminate.
Qed.

Lemma resolve_macros_spec P ops l0 lf :
  resolve_macros ww P = Ok (ops, l0) -> lexical_labels P = true -> extends l0 lf ->
  exists L r,
    place ww (lookup lf) P 0 = Some L
    /\ ops = LNewSeg 0 (code_end 0 L) :: r /\ ops_rel L r
    /\ Forall (label_ok l0) L
    /\ (forall k v i, lookup l0 k = Some v -> k <> wflip_label i).
Proof.
  unfold resolve_macros. intros H Hlex Hext.
  destruct (pre_loop ww pre_init P) as [st| |] eqn:El; cbn [bind] in H; try discriminate.
  destruct (pre_finish st) as [st'| |] eqn:Ef; cbn [bind] in H; try discriminate.
  injection H as <- <-.
  assert (Hk0 : keys_inv pre_init) by (intros k v H; discriminate).
  assert (Hfin : keys_inv st' /\ extends (p_labels st) (p_labels st')
                 /\ p_ops st' = patch_wflip (p_ops st) (p_addr st)).
  { assert (X : extends (p_labels st) (p_labels st)) by apply extends_refl.
    destruct (pre_loop_spec P pre_init st _ El Hk0 Hlex X) as (_ & _ & _ & _ & _ & Hk & _).
    unfold pre_finish in Ef. cbn [p_used p_addr p_labels p_ops p_seg] in Ef.
    destruct (existsb (Z.eqb 0) (p_used st)).
    - injection Ef as <-. cbn. auto using extends_refl.
    - apply insert_label_spec in Ef; [|exact Hk|now right].
      destruct Ef as (K1 & K2 & _ & _ & K5 & _). cbn in K2, K5. auto. }
  destruct Hfin as (Hk' & Hext' & Hops').
  assert (Hx : extends (p_labels st) lf) by (eapply extends_trans; eassumption).
  destruct (pre_loop_spec P pre_init st lf El Hk0 Hlex Hx) as (L & new & Hpl & Hrel & Hpatch & _ & _ & _ & Hlab).
  exists L, new. repeat split.
  - exact Hpl.
  - rewrite Hops', Hpatch. cbn [pre_init p_ops p_addr patch_wflip]. rewrite rev_app_distr, rev_involutive. reflexivity.
  - exact Hrel.
  - eapply Forall_impl; [|exact Hlab]. intros p. now apply label_ok_mono.
  - intros k v i. now apply keys_not_wflip.
Qed.

End Pre.

(* ================= the writer: emitted words are final ================= *)
Section Writer.
Variable ww : N.
Variable ver : N.
Notation wd := (wd ww).
Notation dwd := (dwd ww).
Notation M := (2 ^ wd).
Notation rel := (relative_versions ver).

Definition seg := (Z * Z * Z * Z)%type.

(* what the reader returns for a raw value v submitted for word address a *)
Definition norm (a v : Z) : Z := if rel && Z.odd a then v mod M else v.

(* the word the reader reconstructs at offset i of a segment *)
Definition rb (wr : wstate) (sg : seg) (i : Z) : Z :=
  match sg with
  | (s, _, ds, _) =>
    let x := nth (Z.to_nat (ds + i)) (w_data wr) 0 in
    if rel && Z.odd i then (x + (s + i) * wd) mod M else x
  end.

Definition emitted (wr : wstate) (a v : Z) : Prop :=
  exists s l ds dl i, In (s, l, ds, dl) (w_segs wr) /\ 0 <= i < dl /\ a = s + i /\ rb wr (s, l, ds, dl) i = norm a v.

Definition seg_ok' (n : Z) (sg : seg) : Prop :=
  match sg with
  | (s, l, ds, dl) => 0 <= s /\ Z.even s = true /\ Z.even l = true /\ 0 < l /\ (s + l) * wd <= M
                      /\ 0 <= ds /\ 0 <= dl <= l /\ ds + dl <= n
  end.
Definition seg_disj (a b : seg) : Prop :=
  match a, b with (s1, l1, _, _), (s2, l2, _, _) => s1 + l1 <= s2 \/ s2 + l2 <= s1 end.
Fixpoint pairwise (l : list seg) : Prop :=
  match l with [] => True | x :: r => Forall (seg_disj x) r /\ pairwise r end.

Definition wr_inv (wr : wstate) : Prop :=
  Forall (seg_ok' (Z.of_nat (List.length (w_data wr)))) (w_segs wr) /\ pairwise (w_segs wr).

Lemma pairwise_app l x : pairwise (l ++ [x]) <-> pairwise l /\ Forall (fun y => seg_disj y x) l.
Proof.
  induction l as [|y l IH]; cbn [app pairwise].
  - split; intros; repeat split; auto.
  - rewrite IH, Forall_app. split.
    + intros [[H1 H2] [H3 H4]]. inversion H2; subst. repeat split; auto.
    + intros [[H1 H2] H3]. inversion H3; subst. repeat split; auto.
Qed.

Lemma relativize_length l k ds dl s : List.length (relativize ww l k ds dl s) = List.length l.
Proof. revert k. induction l as [|x l IH]; intros k; cbn; [reflexivity|]. now rewrite IH. Qed.

Lemma nth_relativize l : forall k n ds dl s, (n < List.length l)%nat ->
  nth n (relativize ww l k ds dl s) 0 =
  (let i := k + Z.of_nat n - ds in
   if (0 <=? i) && (i <? dl) && Z.odd i then (nth n l 0 - (s + i) * wd) mod M else nth n l 0).
Proof.
  induction l as [|x l IH]; intros k n ds dl s Hn; [cbn in Hn; lia|].
  destruct n as [|n]; cbn [relativize nth].
  - replace (k + Z.of_nat 0 - ds) with (k - ds) by lia. reflexivity.
  - rewrite IH by (cbn in Hn; lia). replace (k + 1 + Z.of_nat n - ds) with (k + Z.of_nat (S n) - ds) by lia. reflexivity.
Qed.

Lemma is_collision_false s1 e1 s2 e2 :
  s1 <= e1 -> s2 <= e2 -> is_collision s1 e1 s2 e2 = false -> e1 < s2 \/ e2 < s1.
Proof. unfold is_collision. intros H1 H2 H. lia. Qed.

Lemma mod_add_back x k : 0 < M -> ((x - k) mod M + k) mod M = x mod M.
Proof. intros HM. rewrite Zplus_mod_idemp_l. f_equal. ring. Qed.

Lemma M_pos : 0 < M.
Proof. apply Z.pow_pos_nonneg; [lia|]. pose proof (wz_pos ww). unfold Layout.wd. lia. Qed.

Lemma add_segment_inv wr first last fj wf wr' b :
  add_segment_to_fjm ww ver wr first last fj wf = Ok (wr', b) -> wr_inv wr -> wr_inv wr'.
Proof.
  unfold add_segment_to_fjm. pose proof (wz_pos ww) as Hw. pose proof M_pos as HM.
  change (wz ww) with wd in Hw.
  destruct (validate_addresses ww first last) as [k|] eqn:Ev; [discriminate|].
  unfold validate_addresses, in_memory in Ev.
  destruct (first mod wd =? 0) eqn:E1; cbn [negb orb] in Ev; [|discriminate].
  destruct (last mod wd =? 0) eqn:E2; cbn [negb orb] in Ev; [|discriminate].
  destruct ((0 <=? first) && (first <? M)) eqn:E3; cbn [negb] in Ev; [|discriminate].
  destruct ((0 <=? last - 1) && (last - 1 <? M)) eqn:E4; cbn [negb] in Ev; [|discriminate].
  apply Z.eqb_eq in E1, E2. apply andb_true_iff in E3, E4. destruct E3 as [E3 E3'], E4 as [E4 E4'].
  apply Z.leb_le in E3, E4. apply Z.ltb_lt in E3', E4'.
  intros H [Hok Hpw].
  destruct (first =? last) eqn:Efl.
  - injection H as <- <-. now split.
  - apply Z.eqb_neq in Efl.
    set (data := fj ++ wf) in *.
    set (ds := Z.of_nat (List.length (w_data wr))) in *.
    set (dl := Z.of_nat (List.length data)) in *.
    set (s := first / wd) in *. set (l := (last - first) / wd) in *.
    destruct (negb (forallb (in_memory ww) data)); [discriminate|].
    unfold writer_add_segment in H. cbn [w_segs w_data] in H.
    destruct (l <=? 0) eqn:L1; [discriminate|]. apply Z.leb_gt in L1.
    destruct (l <? dl) eqn:L2; [discriminate|]. apply Z.ltb_ge in L2.
    destruct ((s mod 2 =? 1) || (l mod 2 =? 1)) eqn:L3; [discriminate|].
    apply orb_false_iff in L3. destruct L3 as [L3 L3']. apply Z.eqb_neq in L3, L3'.
    destruct (existsb _ (w_segs wr)) eqn:L4; [discriminate|].
    match type of H with context [if ?c then None else Some _] => destruct c eqn:L5; [discriminate|] end.
    injection H as <- <-. cbn [w_segs w_data].
    assert (Hs : first = s * wd) by (unfold s; apply Z.mod_divide in E1; [destruct E1 as [q ->]; now rewrite Z.div_mul by lia|lia]).
    assert (Hl : last - first = l * wd).
    { unfold l. assert ((last - first) mod wd = 0) by (rewrite Zminus_mod, E1, E2; reflexivity).
      apply Z.mod_divide in H; [destruct H as [q ->]; now rewrite Z.div_mul by lia|lia]. }
    assert (Hse : Z.even s = true) by (pose proof (Zmod_even s) as X; pose proof (Z.mod_pos_bound s 2); destruct (Z.even s); [reflexivity|lia]).
    assert (Hle : Z.even l = true) by (pose proof (Zmod_even l) as X; pose proof (Z.mod_pos_bound l 2); destruct (Z.even l); [reflexivity|lia]).
    assert (Hs0 : 0 <= s) by nia.
    set (data' := if rel then relativize ww (w_data wr ++ data) 0 ds dl s else w_data wr ++ data).
    assert (Hlen' : Z.of_nat (List.length data') = ds + dl).
    { unfold data'. destruct rel; [rewrite relativize_length|]; rewrite app_length; unfold ds, dl; lia. }
    split; cbn [w_segs w_data].
    + apply Forall_app. split.
      * eapply Forall_impl; [|exact Hok]. intros [[[s0 l0] ds0] dl0]. cbn. fold data'. rewrite Hlen'. fold ds.
        intros; repeat split; try tauto; lia.
      * constructor; [|constructor]. cbn. fold data'. rewrite Hlen'. repeat split; auto; try lia; try nia.
    + apply pairwise_app. split; [exact Hpw|].
      apply Forall_forall. intros [[[s0 l0] ds0] dl0] Hin.
      rewrite Forall_forall in Hok. pose proof (Hok _ Hin) as O. cbn in O.
      assert (C : is_collision s0 (s0 + l0 - 1) s (s + l - 1) = false).
      { destruct (is_collision s0 (s0 + l0 - 1) s (s + l - 1)) eqn:C; [|reflexivity].
        rewrite <- L4. symmetry. apply existsb_exists. exists (s0, l0, ds0, dl0). split; [exact Hin|exact C]. }
      apply is_collision_false in C; cbn; lia.
Qed.

(* what a successful add_segment_to_fjm does to the words the reader will see *)
Lemma add_segment_words wr first last fj wf wr' b :
  add_segment_to_fjm ww ver wr first last fj wf = Ok (wr', b) -> wr_inv wr ->
  first mod wd = 0 /\ last mod wd = 0 /\ 0 <= first /\ last <= M
  /\ (forall sg i, In sg (w_segs wr) -> (match sg with (_, _, _, dl) => 0 <= i < dl end) -> rb wr' sg i = rb wr sg i)
  /\ (if b then
        let s := first / wd in
        let l := (last - first) / wd in
        let ds := Z.of_nat (List.length (w_data wr)) in
        let dl := Z.of_nat (List.length (fj ++ wf)) in
        w_segs wr' = w_segs wr ++ [(s, l, ds, dl)] /\ dl <= l /\ first < last /\ first = s * wd /\ last = (s + l) * wd
        /\ (forall i, 0 <= i < dl -> rb wr' (s, l, ds, dl) i = norm (s + i) (nth (Z.to_nat i) (fj ++ wf) 0))
      else first = last /\ wr' = wr).
Proof.
  unfold add_segment_to_fjm. pose proof (wz_pos ww) as Hw. pose proof M_pos as HM.
  change (wz ww) with wd in Hw.
  destruct (validate_addresses ww first last) as [k|] eqn:Ev; [discriminate|].
  unfold validate_addresses, in_memory in Ev.
  destruct (first mod wd =? 0) eqn:E1; cbn [negb orb] in Ev; [|discriminate].
  destruct (last mod wd =? 0) eqn:E2; cbn [negb orb] in Ev; [|discriminate].
  destruct ((0 <=? first) && (first <? M)) eqn:E3; cbn [negb] in Ev; [|discriminate].
  destruct ((0 <=? last - 1) && (last - 1 <? M)) eqn:E4; cbn [negb] in Ev; [|discriminate].
  apply Z.eqb_eq in E1, E2. apply andb_true_iff in E3, E4. destruct E3 as [E3 E3'], E4 as [E4 E4'].
  apply Z.leb_le in E3, E4. apply Z.ltb_lt in E3', E4'.
  intros H [Hok Hpw].
  split; [exact E1|]. split; [exact E2|]. split; [exact E3|]. split; [lia|].
  destruct (first =? last) eqn:Efl.
  - apply Z.eqb_eq in Efl. injection H as <- <-. split; [reflexivity|]. split; [exact Efl|reflexivity].
  - apply Z.eqb_neq in Efl.
    set (data := fj ++ wf) in *.
    set (ds := Z.of_nat (List.length (w_data wr))) in *.
    set (dl := Z.of_nat (List.length data)) in *.
    set (s := first / wd) in *. set (l := (last - first) / wd) in *.
    destruct (negb (forallb (in_memory ww) data)); [discriminate|].
    unfold writer_add_segment in H. cbn [w_segs w_data] in H.
    destruct (l <=? 0) eqn:L1; [discriminate|]. apply Z.leb_gt in L1.
    destruct (l <? dl) eqn:L2; [discriminate|]. apply Z.ltb_ge in L2.
    destruct ((s mod 2 =? 1) || (l mod 2 =? 1)) eqn:L3; [discriminate|].
    apply orb_false_iff in L3. destruct L3 as [L3 L3']. apply Z.eqb_neq in L3, L3'.
    destruct (existsb _ (w_segs wr)) eqn:L4; [discriminate|].
    match type of H with context [if ?c then None else Some _] => destruct c eqn:L5; [discriminate|] end.
    injection H as <- <-. cbn [w_segs w_data].
    assert (Hs : first = s * wd) by (unfold s; apply Z.mod_divide in E1; [destruct E1 as [q ->]; now rewrite Z.div_mul by lia|lia]).
    assert (Hl : last - first = l * wd).
    { unfold l. assert ((last - first) mod wd = 0) by (rewrite Zminus_mod, E1, E2; reflexivity).
      apply Z.mod_divide in H; [destruct H as [q ->]; now rewrite Z.div_mul by lia|lia]. }
    assert (Hse : Z.even s = true) by (pose proof (Zmod_even s) as X; pose proof (Z.mod_pos_bound s 2); destruct (Z.even s); [reflexivity|lia]).
    set (data' := if rel then relativize ww (w_data wr ++ data) 0 ds dl s else w_data wr ++ data).
    split.
    + (* old segments *)
      intros [[[s0 l0] ds0] dl0] i Hin Hi. unfold rb. cbn [w_data].
      rewrite Forall_forall in Hok. specialize (Hok _ Hin). cbn in Hok.
      destruct Hok as (_ & _ & _ & _ & _ & O6 & O7 & O8). fold ds in O8.
      assert (Hidx : (Z.to_nat (ds0 + i) < List.length (w_data wr))%nat) by (unfold ds in O8; lia).
      assert (nth (Z.to_nat (ds0 + i)) data' 0 = nth (Z.to_nat (ds0 + i)) (w_data wr) 0) as ->; [|reflexivity].
      unfold data'. destruct rel.
      * rewrite nth_relativize by (rewrite app_length; lia). cbn zeta.
        assert ((0 <=? 0 + Z.of_nat (Z.to_nat (ds0 + i)) - ds) = false) as -> by (apply Z.leb_gt; lia).
        cbn [andb]. now apply app_nth1.
      * now apply app_nth1.
    + split; [reflexivity|]. split; [exact L2|]. split; [nia|]. split; [exact Hs|]. split; [nia|].
      intros i Hi. unfold rb. cbn [w_data]. fold data'.
      assert (Hidx : Z.to_nat (ds + i) = (List.length (w_data wr) + Z.to_nat i)%nat) by (unfold ds; lia).
      assert (Hnth : nth (Z.to_nat (ds + i)) (w_data wr ++ data) 0 = nth (Z.to_nat i) data 0).
      { rewrite Hidx, app_nth2 by lia. f_equal. lia. }
      assert (Hodd : Z.odd (s + i) = Z.odd i).
      { rewrite Z.odd_add. rewrite <- Z.negb_even, Hse. cbn. now destruct (Z.odd i). }
      unfold norm. rewrite Hodd. unfold data'. destruct rel eqn:Er; cbn [andb].
      * rewrite nth_relativize by (rewrite app_length; unfold dl in Hi; lia). cbn zeta.
        replace (0 + Z.of_nat (Z.to_nat (ds + i)) - ds) with i by lia.
        assert ((0 <=? i) = true) as -> by (apply Z.leb_le; lia).
        assert ((i <? dl) = true) as -> by (apply Z.ltb_lt; lia). cbn [andb].
        rewrite Hnth. destruct (Z.odd i); [|reflexivity]. now apply mod_add_back.
      * exact Hnth.
Qed.

End Writer.

(* ================= the last phase: label table and writer invariants ================= *)
Section Last.
Variable ww : N.
Variable ver : N.
Variable strict : bool.

(* names `:wflips:i` with i >= wflips_so_far are unused *)
Definition linv (st : bstate) : Prop :=
  forall i, (b_wcount st <= i)%N -> lookup (b_labels st) (wflip_label i) = None.
Definition good (st : bstate) : Prop := wr_inv ww (b_wr st) /\ linv st.

Lemma set_ref_frame st r v :
  b_labels (set_ref st r v) = b_labels st /\ b_wcount (set_ref st r v) = b_wcount st /\ b_wr (set_ref st r v) = b_wr st.
Proof. unfold set_ref. destruct (fst r); cbn; auto. Qed.

Lemma spot_frame st :
  b_labels (fst (get_wflip_spot ww st)) = b_labels st /\ b_wcount (fst (get_wflip_spot ww st)) = b_wcount st
  /\ b_wr (fst (get_wflip_spot ww st)) = b_wr st.
Proof.
  unfold get_wflip_spot. destruct (pop_hole ww (b_first st) (b_pads st)) as [[[i a]|] rest]; [cbn; auto|].
  destruct (skip_input_op ww 2 (b_nextw st) (b_wf st)) as [nw wf]; cbn; auto.
Qed.

Lemma insert_wflip_label_good st a :
  good st -> good (insert_wflip_label st a) /\ extends (b_labels st) (b_labels (insert_wflip_label st a)).
Proof.
  intros [Hw Hl]. unfold insert_wflip_label, good, linv. cbn [b_labels b_wcount b_wr].
  assert (Hf : lookup (b_labels st) (wflip_label (b_wcount st)) = None) by (apply Hl; lia).
  split; [split; [exact Hw|]|].
  - intros i Hi. rewrite lookup_dict_set_other; [apply Hl; lia|].
    intros E. apply wflip_label_inj in E. lia.
  - now apply extends_dict_set_new.
Qed.

Lemma wflip_loop_good rest : forall st ret last,
  good st -> good (wflip_loop ww st ret rest last) /\ extends (b_labels st) (b_labels (wflip_loop ww st ret rest last)).
Proof.
  induction rest as [|x rest IH]; intros st ret last Hg; cbn [wflip_loop].
  - destruct (set_ref_frame st last ret) as (E1 & E2 & E3). unfold good, linv. rewrite E1, E2, E3.
    split; [exact Hg|apply extends_refl].
  - destruct (dict_find (b_dict st) ret (x :: rest)) as [e|].
    + destruct (set_ref_frame st last e) as (E1 & E2 & E3). unfold good, linv. rewrite E1, E2, E3.
      split; [exact Hg|apply extends_refl].
    + destruct (get_wflip_spot ww st) as [st1 [[wl idx] addr]] eqn:Es.
      pose proof (spot_frame st) as F. rewrite Es in F. cbn [fst] in F. destruct F as (F1 & F2 & F3).
      assert (G1 : good st1) by (unfold good, linv; rewrite F1, F2, F3; exact Hg).
      destruct (insert_wflip_label_good st1 addr G1) as [G2 X2].
      set (st2 := insert_wflip_label st1 addr) in *.
      set (st3 := set_ref st2 last addr).
      destruct (set_ref_frame st2 last addr) as (A1 & A2 & A3). fold st3 in A1, A2, A3.
      set (st4 := dict_add st3 ret (x :: rest) addr).
      assert (B : b_labels st4 = b_labels st3 /\ b_wcount st4 = b_wcount st3 /\ b_wr st4 = b_wr st3) by (cbn; auto).
      destruct B as (B1 & B2 & B3).
      set (st5 := set_ref st4 (wl, idx) x).
      destruct (set_ref_frame st4 (wl, idx) x) as (C1 & C2 & C3). fold st5 in C1, C2, C3.
      assert (G5 : good st5).
      { unfold good, linv. rewrite C1, C2, C3, B1, B2, B3, A1, A2, A3. exact G2. }
      destruct (IH st5 ret (wl, S idx) G5) as [G6 X6]. split; [exact G6|].
      eapply extends_trans; [|exact X6]. rewrite C1, B1, A1, <- F1. exact X2.
Qed.

Lemma close_good st st1 : close_and_add_segment ww ver st = Ok st1 -> good st -> good st1 /\ b_labels st1 = b_labels st.
Proof.
  unfold close_and_add_segment. destruct (b_nextw st =? b_first st).
  - intros H Hg. injection H as <-. split; [exact Hg|reflexivity].
  - destruct (add_segment_to_fjm ww ver (b_wr st) (b_first st) (b_nextw st) (b_fj st) (b_wf st)) as [[wr c]| |] eqn:E;
      cbn [bind]; try discriminate.
    intros H [Hw Hl]. injection H as <-. unfold good, linv. cbn [b_wr b_labels b_wcount].
    split; [split; [eapply add_segment_inv; eassumption|exact Hl]|reflexivity].
Qed.

Lemma resolve_step_good st op st1 :
  resolve_step ww ver strict st op = Ok st1 -> good st -> good st1 /\ extends (b_labels st) (b_labels st1).
Proof.
  intros H Hg. destruct op as [f j|a v r|n|s wsa|a]; cbn [resolve_step] in H.
  - destruct (exact_eval (b_labels st) f) as [vf|]; [|discriminate].
    destruct (exact_eval (b_labels st) j) as [vj|]; [|discriminate].
    destruct (strict && _); [discriminate|]. injection H as <-. split; [exact Hg|apply extends_refl].
  - destruct (exact_eval (b_labels st) a) as [A|]; [|discriminate].
    destruct (exact_eval (b_labels st) v) as [V|]; [|discriminate].
    destruct (exact_eval (b_labels st) r) as [R|]; [|discriminate].
    destruct (strict && _); [discriminate|].
    unfold insert_wflip_ops in H. destruct (V =? 0).
    + injection H as <-. split; [exact Hg|apply extends_refl].
    + destruct (negb (in_memory ww V)); [discriminate|].
      destruct (map _ _) as [|x rest]; injection H as <-; [split; [exact Hg|apply extends_refl]|].
      match goal with |- good (wflip_loop ww ?s0 ?r0 ?re ?la) /\ _ =>
        destruct (wflip_loop_good re s0 r0 la) as [G X]; [exact Hg|split; [exact G|exact X]] end.
  - injection H as <-. split; [exact Hg|apply extends_refl].
  - unfold insert_new_segment in H.
    destruct (close_and_add_segment ww ver st) as [st'| |] eqn:E; cbn [bind] in H; try discriminate.
    destruct (negb (in_memory ww _)); [discriminate|].
    injection H as <-. destruct (close_good _ _ E Hg) as [[G1 G2] G3].
    unfold good, linv in *. cbn [b_wr b_labels b_wcount]. rewrite G3 in *.
    split; [split; [exact G1|exact G2]|apply extends_refl].
  - unfold insert_reserve_bits in H.
    destruct (add_segment_to_fjm ww ver (b_wr st) (b_first st) a (b_fj st) []) as [[wr c]| |] eqn:E;
      cbn [bind] in H; try discriminate.
    injection H as <-. destruct Hg as [Hw Hl]. unfold good, linv in *. cbn [b_wr b_labels b_wcount].
    split; [split; [eapply add_segment_inv; eassumption|exact Hl]|apply extends_refl].
Qed.

Lemma resolve_loop_good ops : forall st st',
  resolve_loop ww ver strict st ops = Ok st' -> good st -> good st' /\ extends (b_labels st) (b_labels st').
Proof.
  induction ops as [|op ops IH]; intros st st' H Hg; cbn [resolve_loop] in H.
  - injection H as <-. split; [exact Hg|apply extends_refl].
  - destruct (resolve_step ww ver strict st op) as [st1| |] eqn:E; cbn [bind] in H; try discriminate.
    destruct (resolve_step_good _ _ _ E Hg) as [G1 X1]. destruct (IH _ _ H G1) as [G2 X2].
    split; [exact G2|]. eapply extends_trans; eassumption.
Qed.

End Last.

(* ================= theorems about assemble_model ================= *)

(* the address and label clauses of Denotes: the statement addresses computed from the statement sequence with the
   FINAL label table are defined, and every label's saved value is the address of the statement that follows it *)
Theorem assemble_labels_sound ww ver strict P segs words lbls :
  assemble_model ww ver strict P = Ok (segs, words, lbls) ->
  lexical_labels P = true ->
  exists L, place ww (lookup lbls) P 0 = Some L /\ Forall (label_ok lbls) L.
Proof.
  unfold assemble_model. intros H Hlex.
  destruct (resolve_macros ww P) as [[ops l0]| |] eqn:Er; cbn [bind] in H; try discriminate.
  destruct (labels_resolve ww ver strict ops l0) as [st| |] eqn:El; cbn [bind] in H; try discriminate.
  destruct (negb (first_op_assembled (b_wr st))); [discriminate|].
  destruct (negb (packable ww (b_wr st))); [discriminate|].
  injection H as <- <- <-.
  destruct (resolve_macros_spec ww P ops l0 l0 Er Hlex (extends_refl l0)) as (L0 & r0 & _ & Hops & _ & _ & Hkeys).
  subst ops. unfold labels_resolve in El.
  destruct (resolve_loop ww ver strict _ r0) as [st1| |] eqn:Eloop; cbn [bind] in El; try discriminate.
  assert (G0 : good ww (mkb 0 (code_end 0 L0) 0 [] [] [] [] l0 0%N (mkw [] []))).
  { split; [split; constructor|]. intros i _. cbn [b_labels].
    destruct (lookup l0 (wflip_label i)) as [v|] eqn:E; [|reflexivity]. now elim (Hkeys _ _ i E). }
  destruct (resolve_loop_good _ _ _ _ _ _ Eloop G0) as [G1 X1]. cbn [b_labels] in X1.
  destruct (close_good _ _ _ _ El G1) as [_ E2].
  assert (Hext : extends l0 (b_labels st)) by (rewrite E2; exact X1).
  destruct (resolve_macros_spec ww P _ l0 (b_labels st) Er Hlex Hext) as (L & r & Hpl & _ & _ & Hlab & _).
  exists L. split; [exact Hpl|].
  eapply Forall_impl; [|exact Hlab]. intros p. now apply label_ok_mono.
Qed.

(* the writer invariant of the final state: what was emitted is a set of well-formed, pairwise disjoint segments *)
Theorem assemble_segments_sound ww ver strict P segs words lbls :
  assemble_model ww ver strict P = Ok (segs, words, lbls) ->
  exists wr, wr_inv ww wr /\ segs = read_segments wr /\ words = read_words ww ver wr.
Proof.
  unfold assemble_model. intros H.
  destruct (resolve_macros ww P) as [[ops l0]| |] eqn:Er; cbn [bind] in H; try discriminate.
  destruct (labels_resolve ww ver strict ops l0) as [st| |] eqn:El; cbn [bind] in H; try discriminate.
  destruct (negb (first_op_assembled (b_wr st))); [discriminate|].
  destruct (negb (packable ww (b_wr st))); [discriminate|].
  injection H as <- <- <-. exists (b_wr st). split; [|split; reflexivity].
  unfold labels_resolve in El. destruct ops as [|[| | |s wsa|] ops']; try discriminate.
  destruct (resolve_loop ww ver strict _ ops') as [st1| |] eqn:Eloop; cbn [bind] in El; try discriminate.
  (* the label part of `good` is irrelevant here: use the trivial weakening *)
  assert (W : forall ops st st', resolve_loop ww ver strict st ops = Ok st' -> wr_inv ww (b_wr st) -> wr_inv ww (b_wr st')).
  { clear. induction ops as [|op ops IH]; intros st st' H Hw; cbn [resolve_loop] in H.
    - now injection H as <-.
    - destruct (resolve_step ww ver strict st op) as [st1| |] eqn:E; cbn [bind] in H; try discriminate.
      apply (IH _ _ H). clear IH H.
      destruct op as [f j|a v r|n|s wsa|a]; cbn [resolve_step] in E.
      + destruct (exact_eval (b_labels st) f); [|discriminate]. destruct (exact_eval (b_labels st) j); [|discriminate].
        destruct (strict && _); [discriminate|]. now injection E as <-.
      + destruct (exact_eval (b_labels st) a) as [A|]; [|discriminate].
        destruct (exact_eval (b_labels st) v) as [V|]; [|discriminate].
        destruct (exact_eval (b_labels st) r) as [R|]; [|discriminate].
        destruct (strict && _); [discriminate|].
        unfold insert_wflip_ops in E. destruct (V =? 0); [now injection E as <-|].
        destruct (negb (in_memory ww V)); [discriminate|].
        destruct (map _ _) as [|x rest]; injection E as <-; [exact Hw|].
        assert (F : forall rest st ret last, b_wr (wflip_loop ww st ret rest last) = b_wr st).
        { clear. induction rest as [|x rest IH]; intros st ret last; cbn [wflip_loop].
          - now destruct (set_ref_frame st last ret) as (_ & _ & ->).
          - destruct (dict_find (b_dict st) ret (x :: rest)) as [e|].
            + now destruct (set_ref_frame st last e) as (_ & _ & ->).
            + destruct (get_wflip_spot ww st) as [st1 [[wl idx] addr]] eqn:Es.
              pose proof (spot_frame ww st) as F. rewrite Es in F. cbn [fst] in F. destruct F as (_ & _ & F3).
              rewrite IH. destruct (set_ref_frame (dict_add (set_ref (insert_wflip_label st1 addr) last addr) ret (x :: rest) addr) (wl, idx) x) as (_ & _ & ->).
              cbn [dict_add b_wr]. destruct (set_ref_frame (insert_wflip_label st1 addr) last addr) as (_ & _ & ->).
              cbn [insert_wflip_label b_wr]. exact F3. }
        rewrite F. exact Hw.
      + now injection E as <-.
      + unfold insert_new_segment in E.
        destruct (close_and_add_segment ww ver st) as [stc| |] eqn:Ec; cbn [bind] in E; try discriminate.
        destruct (negb (in_memory ww _)); [discriminate|].
        injection E as <-. cbn [b_wr].
        unfold close_and_add_segment in Ec. destruct (b_nextw st =? b_first st); [now injection Ec as <-|].
        destruct (add_segment_to_fjm ww ver (b_wr st) (b_first st) (b_nextw st) (b_fj st) (b_wf st)) as [[wr c]| |] eqn:Ea;
          cbn [bind] in Ec; try discriminate.
        injection Ec as <-. cbn [b_wr]. eapply add_segment_inv; eassumption.
      + unfold insert_reserve_bits in E.
        destruct (add_segment_to_fjm ww ver (b_wr st) (b_first st) a (b_fj st) []) as [[wr c]| |] eqn:Ea;
          cbn [bind] in E; try discriminate.
        injection E as <-. cbn [b_wr]. eapply add_segment_inv; eassumption. }
  assert (W1 : wr_inv ww (b_wr st1)) by (apply (W _ _ _ Eloop); split; constructor).
  unfold close_and_add_segment in El. destruct (b_nextw st1 =? b_first st1); [now injection El as <-|].
  destruct (add_segment_to_fjm ww ver (b_wr st1) (b_first st1) (b_nextw st1) (b_fj st1) (b_wf st1)) as [[wr c]| |] eqn:Ea;
    cbn [bind] in El; try discriminate.
  injection El as <-. cbn [b_wr]. eapply add_segment_inv; eassumption.
Qed.

(* ================= the full statements (not yet proved in full: see Properties/C02.v) ================= *)

(* lexical_labels = a property of parser output (no label is spelled `:wflips:...`), not a defect guard; the last
   conjunct is about the code BEFORE the fix of F8 only (strict = false): it is true whenever strict = true.
   The former guards of F17 / F18 are gone: both are fixed in the code and in the model. *)
Definition C02_guards (ww ver : N) (strict : bool) (P : list stmt) (lbls : labels) : bool :=
  lexical_labels P && ((ver <? 2)%N || strict || values_in_range ww P lbls).

Definition C02_sound_statement : Prop :=
  forall ww ver strict P segs words lbls,
    assemble_model ww ver strict P = Ok (segs, words, lbls) ->
    C02_guards ww ver strict P lbls = true ->
    Denotes ww (image_of segs words) P lbls.

(* a program that denotes no image at all (overlap, misaligned or out-of-range addresses, pad on a non-op-aligned
   address, ...) is rejected *)
Definition C02_rejects_statement : Prop :=
  forall ww ver strict P,
    (forall img lbls, ~ Denotes ww img P lbls) ->
    forall segs words lbls, assemble_model ww ver strict P = Ok (segs, words, lbls) ->
                            C02_guards ww ver strict P lbls = false.

(* the second follows from the first *)
Lemma C02_rejects_from_sound : C02_sound_statement -> C02_rejects_statement.
Proof.
  intros Hs ww ver strict P Himp segs words lbls H.
  destruct (C02_guards ww ver strict P lbls) eqn:G; [|reflexivity].
  elim (Himp _ _ (Hs _ _ _ _ _ _ _ H G)).
Qed.

(* ================= the image the reader returns ================= *)

Lemma fold_mset_none l : forall m0 a, ~ In a (map fst l) ->
  mget (fold_left (fun m p => mset m (fst p) (snd p)) l m0) a = mget m0 a.
Proof.
  induction l as [|[k v] l IH]; intros m0 a Hn; cbn [fold_left]; [reflexivity|].
  cbn [map] in Hn. rewrite IH by (intros X; apply Hn; now right). cbn [fst snd]. apply mget_mset_other.
  intros ->. apply Hn. now left.
Qed.

Lemma fold_mset_some l : forall m0 a v, NoDup (map fst l) -> In (a, v) l ->
  mget (fold_left (fun m p => mset m (fst p) (snd p)) l m0) a = Some v.
Proof.
  induction l as [|[k x] l IH]; intros m0 a v Hnd Hin; [contradiction|].
  cbn [map fst] in Hnd. inversion Hnd as [|? ? Hk Hnd']; subst. cbn [fold_left fst snd].
  destruct Hin as [E|Hin].
  - injection E as -> ->. rewrite fold_mset_none by exact Hk. apply mget_mset_same.
  - now apply IH.
Qed.

Lemma mem_of_list_some l a v : NoDup (map fst l) -> In (a, v) l -> mget (mem_of_list l) a = Some v.
Proof. apply fold_mset_some. Qed.
Lemma mem_of_list_none l a : ~ In a (map fst l) -> mget (mem_of_list l) a = None.
Proof. intros H. unfold mem_of_list. rewrite fold_mset_none by exact H. apply mget_empty. Qed.

Lemma NoDup_app_intro {A} (a b : list A) :
  NoDup a -> NoDup b -> (forall x, In x a -> In x b -> False) -> NoDup (a ++ b).
Proof.
  induction a as [|x a IH]; intros Ha Hb Hd; [exact Hb|].
  inversion Ha as [|? ? Hx Ha']; subst. cbn. constructor.
  - rewrite in_app_iff. intros [H|H]; [contradiction|]. apply (Hd x); [now left|exact H].
  - apply IH; auto. intros y Y1 Y2. apply (Hd y); [now right|exact Y2].
Qed.

Section Image.
Variable ww : N.
Variable ver : N.
Notation wd := (wd ww).
Notation M := (2 ^ wd).
Notation rel := (relative_versions ver).

(* the value the reader computes for the k-th word of a data slice placed at offset i of a segment starting at s *)
Definition sw_val (data : list Z) (s i : Z) (k : nat) : Z :=
  let x := nth k data 0 in
  if rel && Z.odd (i + Z.of_nat k) then (x + (s + (i + Z.of_nat k)) * wd) mod M else x.

Lemma seg_words_spec : forall n data s i a v,
  In (a, v) (seg_words ww ver data s i n) <->
  exists k, (k < n)%nat /\ (k < List.length data)%nat /\ a = Z.to_N (s + (i + Z.of_nat k))
            /\ sw_val data s i k <> 0 /\ v = Z.to_N (sw_val data s i k).
Proof.
  induction n as [|n IH]; intros data s i a v.
  - split; [intros H; destruct data; cbn in H; contradiction|]. intros (k & Hk & _). lia.
  - destruct data as [|x data]; cbn [seg_words].
    + split; [intros H; cbn in H; contradiction|]. intros (k & _ & Hk & _). cbn in Hk. lia.
    + rewrite in_app_iff, IH. split.
      * intros [H|(k & K1 & K2 & K3 & K4 & K5)].
        -- exists 0%nat. unfold sw_val. cbn [nth]. rewrite Z.add_0_r.
           destruct (_ =? 0) eqn:E; [contradiction|]. apply Z.eqb_neq in E.
           destruct H as [H|[]]. injection H as <- <-. cbn [List.length]. repeat split; try lia; try exact E.
        -- exists (S k). unfold sw_val in *. cbn [nth List.length].
           replace (i + Z.of_nat (S k)) with (i + 1 + Z.of_nat k) by lia. repeat split; try lia; assumption.
      * intros (k & K1 & K2 & K3 & K4 & K5). destruct k as [|k].
        -- left. unfold sw_val in K4, K5. cbn [nth] in K4, K5. rewrite Z.add_0_r in *.
           destruct (_ =? 0) eqn:E; [apply Z.eqb_eq in E; contradiction|]. left. now subst.
        -- right. exists k. unfold sw_val in *. cbn [nth List.length] in *.
           replace (i + Z.of_nat (S k)) with (i + 1 + Z.of_nat k) in * by lia. repeat split; try lia; assumption.
Qed.

Lemma seg_words_keys_nodup : forall n data s i, 0 <= s + i -> NoDup (map fst (seg_words ww ver data s i n)).
Proof.
  induction n as [|n IH]; intros data s i H0; [destruct data; constructor|].
  destruct data as [|x data]; cbn [seg_words]; [constructor|].
  rewrite map_app. assert (Hrest : NoDup (map fst (seg_words ww ver data s (i + 1) n))) by (apply IH; lia).
  destruct (_ =? 0); cbn [map app fst]; [exact Hrest|].
  constructor; [|exact Hrest]. intros Hin. apply in_map_iff in Hin. destruct Hin as [[a v] [E Hin]]. cbn [fst] in E. subst a.
  apply seg_words_spec in Hin. destruct Hin as (k & _ & _ & K3 & _). lia.
Qed.

Definition seg_keys_in (wr : wstate) (sg : seg) (a : N) : Prop :=
  match sg with (s, _, _, dl) => Z.of_N a < s + dl /\ s <= Z.of_N a end.

Lemma read_words_in wr a v :
  In (a, v) (read_words ww ver wr) <->
  exists s l ds dl k, In (s, l, ds, dl) (w_segs wr) /\ (k < Z.to_nat dl)%nat
                      /\ (k < List.length (skipn (Z.to_nat ds) (w_data wr)))%nat /\ a = Z.to_N (s + Z.of_nat k)
                      /\ sw_val (skipn (Z.to_nat ds) (w_data wr)) s 0 k <> 0
                      /\ v = Z.to_N (sw_val (skipn (Z.to_nat ds) (w_data wr)) s 0 k).
Proof.
  unfold read_words. rewrite in_flat_map. split.
  - intros ([[[s l] ds] dl] & Hin & H). apply seg_words_spec in H. destruct H as (k & K). exists s, l, ds, dl, k.
    rewrite Z.add_0_l in K. tauto.
  - intros (s & l & ds & dl & k & Hin & K). exists (s, l, ds, dl). split; [exact Hin|].
    apply seg_words_spec. exists k. rewrite Z.add_0_l. tauto.
Qed.

Lemma read_words_nodup wr : wr_inv ww wr -> NoDup (map fst (read_words ww ver wr)).
Proof.
  intros [Hok Hpw]. unfold read_words. induction (w_segs wr) as [|[[[s l] ds] dl] r IH]; cbn [flat_map]; [constructor|].
  inversion Hok as [|? ? O Hok']; subst. cbn [pairwise] in Hpw. destruct Hpw as [Hd Hpw'].
  rewrite map_app. apply NoDup_app_intro.
  - apply seg_words_keys_nodup. cbn in O. lia.
  - now apply IH.
  - intros a H1 H2. apply in_map_iff in H1, H2.
    destruct H1 as [[a1 v1] [E1 H1]], H2 as [[a2 v2] [E2 H2]]. cbn [fst] in E1, E2. subst a1 a2.
    apply seg_words_spec in H1. destruct H1 as (k & K1 & _ & K3 & _).
    apply in_flat_map in H2. destruct H2 as ([[[s2 l2] ds2] dl2] & Hin2 & H2).
    apply seg_words_spec in H2. destruct H2 as (k2 & J1 & _ & J3 & _).
    rewrite Forall_forall in Hd, Hok'. specialize (Hd _ Hin2). specialize (Hok' _ Hin2). cbn in Hd, Hok', O. lia.
Qed.

Lemma nth_skipn_add {A} (d : A) : forall n l k, nth k (skipn n l) d = nth (n + k) l d.
Proof.
  induction n as [|n IH]; intros l k; [reflexivity|].
  destruct l as [|x l]; cbn [skipn]; [now destruct k|]. apply IH.
Qed.

Lemma pairwise_in (l : list seg) a b : pairwise l -> In a l -> In b l -> a = b \/ seg_disj a b.
Proof.
  induction l as [|x r IH]; intros Hp Ha Hb; [contradiction|].
  cbn [pairwise] in Hp. destruct Hp as [Hx Hr]. rewrite Forall_forall in Hx.
  destruct Ha as [Ea|Ha], Hb as [Eb|Hb].
  - left. congruence.
  - right. subst x. now apply Hx.
  - right. subst x. specialize (Hx _ Ha). destruct b as [[[? ?] ?] ?], a as [[[? ?] ?] ?]. cbn in *. lia.
  - now apply IH.
Qed.

Lemma sw_val_rb wr s l ds dl i :
  0 <= ds -> 0 <= i ->
  sw_val (skipn (Z.to_nat ds) (w_data wr)) s 0 (Z.to_nat i) = rb ww ver wr (s, l, ds, dl) i.
Proof.
  intros Hds Hi. unfold sw_val, rb. rewrite nth_skipn_add, Z.add_0_l, Z2Nat.id by lia.
  replace (Z.to_nat ds + Z.to_nat i)%nat with (Z.to_nat (ds + i)) by lia. reflexivity.
Qed.

Lemma key_absent wr a :
  wr_inv ww wr ->
  (forall s l ds dl k, In (s, l, ds, dl) (w_segs wr) -> 0 <= k < dl -> Z.of_N a = s + k ->
                       rb ww ver wr (s, l, ds, dl) k = 0) ->
  ~ In a (map fst (read_words ww ver wr)).
Proof.
  intros [Hok Hpw] Hz Hin. apply in_map_iff in Hin. destruct Hin as [[a' v] [E Hin]]. cbn [fst] in E. subst a'.
  apply read_words_in in Hin. destruct Hin as (s & l & ds & dl & k & Hs & K1 & K2 & K3 & K4 & _).
  rewrite Forall_forall in Hok. pose proof (Hok _ Hs) as O. cbn in O.
  assert (E : rb ww ver wr (s, l, ds, dl) (Z.of_nat k) = 0).
  { apply Hz; [exact Hs|lia|]. subst a. rewrite Z2N.id; lia. }
  rewrite <- sw_val_rb in E by lia. rewrite Nat2Z.id in E. contradiction.
Qed.

Lemma final_word wr s l ds dl i :
  wr_inv ww wr -> In (s, l, ds, dl) (w_segs wr) -> 0 <= i < dl -> 0 <= rb ww ver wr (s, l, ds, dl) i ->
  mget0 (mem_of_list (read_words ww ver wr)) (Z.to_N (s + i)) = Z.to_N (rb ww ver wr (s, l, ds, dl) i).
Proof.
  intros Hinv Hs Hi Hpos. pose proof Hinv as [Hok Hpw].
  rewrite Forall_forall in Hok. pose proof (Hok _ Hs) as O. cbn in O.
  unfold mget0. destruct (Z.eq_dec (rb ww ver wr (s, l, ds, dl) i) 0) as [E0|Ene].
  - rewrite E0. rewrite mem_of_list_none; [reflexivity|].
    apply key_absent; [exact Hinv|]. intros s2 l2 ds2 dl2 k Hs2 Hk Ha. rewrite Z2N.id in Ha by lia.
    destruct (pairwise_in _ _ _ Hpw Hs Hs2) as [E|D].
    + injection E as <- <- <- <-. assert (k = i) by lia. now subst k.
    + pose proof (Hok _ Hs2) as O2. cbn in O2, D. lia.
  - erewrite mem_of_list_some; [reflexivity|now apply read_words_nodup|].
    apply read_words_in. exists s, l, ds, dl, (Z.to_nat i).
    rewrite (sw_val_rb wr s l ds dl i) by lia. rewrite Z2Nat.id by lia.
    repeat split; auto; try lia. rewrite skipn_length. lia.
Qed.

Lemma final_zero wr s l ds dl a :
  wr_inv ww wr -> In (s, l, ds, dl) (w_segs wr) -> s + dl <= a < s + l ->
  mget0 (mem_of_list (read_words ww ver wr)) (Z.to_N a) = 0%N.
Proof.
  intros Hinv Hs Ha. pose proof Hinv as [Hok Hpw].
  rewrite Forall_forall in Hok. pose proof (Hok _ Hs) as O. cbn in O.
  unfold mget0. rewrite mem_of_list_none; [reflexivity|].
  apply key_absent; [exact Hinv|]. intros s2 l2 ds2 dl2 k Hs2 Hk Hak. rewrite Z2N.id in Hak by lia.
  destruct (pairwise_in _ _ _ Hpw Hs Hs2) as [E|D].
  - injection E as <- <- <- <-. lia.
  - pose proof (Hok _ Hs2) as O2. cbn in O2, D. lia.
Qed.

Lemma final_valid wr s l ds dl a :
  wr_inv ww wr -> In (s, l, ds, dl) (w_segs wr) -> s <= a < s + l -> valid (read_segments wr) (Z.to_N a) = true.
Proof.
  intros [Hok _] Hs Ha. rewrite Forall_forall in Hok. pose proof (Hok _ Hs) as O. cbn in O.
  unfold valid, read_segments. apply existsb_exists. exists (Z.to_N s, Z.to_N l). split.
  - apply in_map_iff. exists (s, l, ds, dl). split; [reflexivity|exact Hs].
  - cbn [fst snd]. apply andb_true_iff. split; [apply N.leb_le|apply N.ltb_lt]; lia.
Qed.

Lemma even_to_N z : 0 <= z -> N.even (Z.to_N z) = Z.even z.
Proof. destruct z as [|p|p]; intros H; [reflexivity| |lia]. now destruct p. Qed.

Lemma wr_inv_loadable wr : wr_inv ww wr -> loadable_segs ww (read_segments wr) = true.
Proof.
  intros [Hok Hpw]. unfold loadable_segs, read_segments. apply andb_true_iff. split.
  - apply forallb_forall. intros [s l] Hin. apply in_map_iff in Hin. destruct Hin as [[[[s0 l0] ds0] dl0] [E Hin]].
    injection E as <- <-. rewrite Forall_forall in Hok. specialize (Hok _ Hin). cbn in Hok.
    destruct Hok as (O1 & O2 & O3 & O4 & O5 & _).
    unfold seg_ok. cbn [fst snd]. repeat (apply andb_true_iff; split).
    + rewrite even_to_N by lia. exact O2.
    + rewrite even_to_N by lia. exact O3.
    + apply N.ltb_lt. lia.
    + apply N.leb_le. rewrite N.shiftl_1_l.
      assert (Hlt : (ww < 2 ^ ww)%N) by (apply N.pow_gt_lin_r; lia).
      assert (Hww : (2 ^ ww * 2 ^ (w ww - ww) = 2 ^ w ww)%N).
      { rewrite <- N.pow_add_r. f_equal. unfold w. rewrite N.shiftl_1_l. lia. }
      assert (Hwd : wd = Z.of_N (2 ^ ww)) by (unfold Layout.wd, wz, w; now rewrite N.shiftl_1_l).
      assert (HM : M = Z.of_N (2 ^ w ww)) by (unfold Layout.wd, wz; rewrite N2Z.inj_pow; reflexivity).
      rewrite HM, Hwd, <- Hww in O5.
      assert (0 < 2 ^ ww)%N by (apply N.neq_0_lt_0, N.pow_nonzero; discriminate).
      nia.
  - induction (w_segs wr) as [|[[[s l] ds] dl] r IH]; cbn [map pairwise_disjoint]; [reflexivity|].
    cbn [pairwise] in Hpw. destruct Hpw as [H1 H2]. inversion Hok as [|? ? O Hok']; subst.
    apply andb_true_iff. split; [|now apply IH].
    clear IH H2. induction r as [|[[[s2 l2] ds2] dl2] r IH]; cbn [map disjoint_from]; [reflexivity|].
    inversion H1 as [|? ? D H1']; subst. inversion Hok' as [|? ? O2 Hok'']; subst.
    apply andb_true_iff. split; [|apply IH; auto].
    cbn [fst snd]. cbn in D, O, O2. apply orb_true_iff.
    destruct D as [D|D]; [left|right]; apply N.leb_le; lia.
Qed.

End Image.

(* ================= static soundness: op words and reserved ranges ================= *)
Section Static.
Variable ww : N.
Variable ver : N.
Notation wd := (wd ww).
Notation dwd := (dwd ww).
Notation M := (2 ^ wd).

(* later writer states keep the segments and the words of earlier ones *)
Definition wr_le (wr wr' : wstate) : Prop :=
  (forall sg, In sg (w_segs wr) -> In sg (w_segs wr'))
  /\ (forall sg i, In sg (w_segs wr) -> (match sg with (_, _, _, dl) => 0 <= i < dl end) ->
                   rb ww ver wr' sg i = rb ww ver wr sg i).

Lemma wr_le_refl wr : wr_le wr wr.
Proof. split; auto. Qed.
Lemma wr_le_trans a b c : wr_le a b -> wr_le b c -> wr_le a c.
Proof.
  intros [A1 A2] [B1 B2]. split; [auto|]. intros sg i Hs Hi. rewrite B2 by auto. now apply A2.
Qed.

Lemma emitted_mono wr wr' a v : wr_le wr wr' -> emitted ww ver wr a v -> emitted ww ver wr' a v.
Proof.
  intros [L1 L2] (s & l & ds & dl & i & Hs & Hi & Ha & Hr). exists s, l, ds, dl, i.
  repeat split; auto; try lia. rewrite L2; auto.
Qed.

Lemma add_segment_le wr first last fj wf wr' b :
  add_segment_to_fjm ww ver wr first last fj wf = Ok (wr', b) -> wr_inv ww wr -> wr_le wr wr'.
Proof.
  intros H Hinv. destruct (add_segment_words _ _ _ _ _ _ _ _ _ H Hinv) as (_ & _ & _ & _ & Hold & Hb).
  split; [|exact Hold]. destruct b.
  - destruct Hb as (E & _). rewrite E. intros sg Hs. apply in_or_app. now left.
  - destruct Hb as (_ & ->). auto.
Qed.

(* ---- lists ---- *)
Lemma set_nth_length l : forall i v, List.length (set_nth l i v) = List.length l.
Proof. induction l as [|x l IH]; intros [|i] v; cbn; auto. Qed.
Lemma set_nth_other l : forall i j v, i <> j -> nth_error (set_nth l i v) j = nth_error l j.
Proof.
  induction l as [|x l IH]; intros [|i] [|j] v H; cbn; auto; try congruence.
Qed.

Definition hole_slot (pads : list nat) (i : nat) : Prop := exists h, In h pads /\ (i = h \/ i = S h).

Definition pend_ok (st : bstate) (iv : nat * Z) : Prop :=
  nth_error (b_fj st) (fst iv) = Some (snd iv) /\ ~ hole_slot (b_pads st) (fst iv).

(* the part of the state a wflip statement may not disturb *)
Record core (first cur : Z) (wr : wstate) (ws : Z) (nfj : nat) (pend : list (nat * Z)) (st : bstate) : Prop := {
  c_first : b_first st = first;
  c_cur : b_cur st = cur;
  c_wr : b_wr st = wr;
  c_nw : b_nextw st = ws + wd * Z.of_nat (List.length (b_wf st));
  c_len : List.length (b_fj st) = nfj;
  c_pads : Forall (fun h => S h < nfj)%nat (b_pads st);
  c_pend : Forall (pend_ok st) pend
}.

Definition slot_free (pend : list (nat * Z)) (r : wlist * nat) : Prop :=
  match fst r with FJ => forall v, ~ In (snd r, v) pend | WF => True end.

Lemma set_ref_core first cur wr ws nfj pend st r v :
  core first cur wr ws nfj pend st -> slot_free pend r -> core first cur wr ws nfj pend (set_ref st r v).
Proof.
  intros [C1 C2 C3 C4 C5 C6 C7] Hf. destruct r as [[|] j]; unfold set_ref; cbn [fst snd]; constructor;
    cbn [b_first b_cur b_wr b_nextw b_wf b_fj b_pads]; auto; try (now rewrite set_nth_length).
  rewrite Forall_forall in *. intros [i x] Hin. specialize (C7 _ Hin). destruct C7 as [P1 P2].
  split; [|exact P2]. cbn [fst snd b_fj] in *. rewrite set_nth_other; [exact P1|].
  intros ->. apply (Hf x). exact Hin.
Qed.

Lemma pop_hole_spec first pads : forall r rest,
  pop_hole ww first pads = (r, rest) ->
  (forall h, In h rest -> In h pads)
  /\ match r with Some (i, a) => In i pads /\ a = first + wd * Z.of_nat i | None => rest = [] end.
Proof.
  induction pads as [|i pads IH]; intros r rest H; cbn [pop_hole] in H.
  - injection H as <- <-. split; auto.
  - destruct (covers_input_bit ww (first + wd * Z.of_nat i)).
    + destruct (IH _ _ H) as [A B]. split; [intros h Hh; right; auto|].
      destruct r as [[j a]|]; [destruct B; split; [now right|assumption]|assumption].
    + injection H as <- <-. split; [intros h Hh; now right|]. split; [now left|reflexivity].
Qed.

Lemma skip_input_op_spec : forall fuel nextw wf nw wf',
  skip_input_op ww fuel nextw wf = (nw, wf') ->
  nw - wd * Z.of_nat (List.length wf') = nextw - wd * Z.of_nat (List.length wf).
Proof.
  induction fuel as [|k IH]; intros nextw wf nw wf' H; cbn [skip_input_op] in H.
  - now injection H as <- <-.
  - destruct (covers_input_bit ww nextw); [|now injection H as <- <-].
    apply IH in H. rewrite H, app_length. cbn [List.length]. unfold Layout.dwd. lia.
Qed.

Lemma hole_slot_incl pads pads' i : (forall h, In h pads' -> In h pads) -> hole_slot pads' i -> hole_slot pads i.
Proof. intros H (h & Hh & E). exists h. auto. Qed.

Lemma spot_core first cur wr ws nfj pend st st1 wl idx addr :
  get_wflip_spot ww st = (st1, (wl, idx, addr)) -> core first cur wr ws nfj pend st ->
  core first cur wr ws nfj pend st1 /\ slot_free pend (wl, idx) /\ slot_free pend (wl, S idx)
  /\ b_labels st1 = b_labels st /\ b_wcount st1 = b_wcount st /\ b_dict st1 = b_dict st.
Proof.
  unfold get_wflip_spot. intros H [C1 C2 C3 C4 C5 C6 C7].
  destruct (pop_hole ww (b_first st) (b_pads st)) as [[[i a]|] rest] eqn:Ep.
  - injection H as <- <- <- <-. destruct (pop_hole_spec _ _ _ _ Ep) as [Hincl [Hi Ha]].
    assert (Hfree : forall k v, (k = i \/ k = S i) -> ~ In (k, v) pend).
    { intros k v Hk Hin. rewrite Forall_forall in C7. destruct (C7 _ Hin) as [_ P2]. apply P2. exists i. auto. }
    split; [|split; [|split; [|auto]]].
    + constructor; cbn [b_first b_cur b_wr b_nextw b_wf b_fj b_pads]; auto.
      * rewrite Forall_forall in *. auto.
      * rewrite Forall_forall in *. intros iv Hin. destruct (C7 _ Hin) as [P1 P2]. split; [exact P1|].
        intros Hh. apply P2. eapply hole_slot_incl; eauto.
    + intros v. apply Hfree. now left.
    + intros v. apply Hfree. now right.
  - destruct (skip_input_op ww 2 (b_nextw st) (b_wf st)) as [nw wf] eqn:Es.
    injection H as <- <- <- <-. apply skip_input_op_spec in Es.
    split; [|cbn; auto].
    constructor; cbn [b_first b_cur b_wr b_nextw b_wf b_fj b_pads]; auto.
    + rewrite app_length. cbn [List.length]. unfold Layout.dwd. lia.
    + rewrite Forall_forall in *. intros iv Hin. destruct (C7 _ Hin) as [P1 P2]. split; [exact P1|].
      intros (h & [] & _).
Qed.

Lemma wflip_loop_core first cur wr ws nfj pend rest : forall st ret last,
  core first cur wr ws nfj pend st -> slot_free pend last ->
  core first cur wr ws nfj pend (wflip_loop ww st ret rest last).
Proof.
  induction rest as [|x rest IH]; intros st ret last Hc Hf; cbn [wflip_loop].
  - now apply set_ref_core.
  - destruct (dict_find (b_dict st) ret (x :: rest)) as [e|]; [now apply set_ref_core|].
    destruct (get_wflip_spot ww st) as [st1 [[wl idx] addr]] eqn:Es.
    destruct (spot_core _ _ _ _ _ _ _ _ _ _ _ Es Hc) as (C1 & F1 & F2 & _).
    apply IH; [|exact F2].
    apply set_ref_core; [|exact F1].
    assert (C2 : core first cur wr ws nfj pend (insert_wflip_label st1 addr)) by (destruct C1; constructor; auto).
    pose proof (set_ref_core _ _ _ _ _ _ _ last addr C2 Hf) as C3.
    destruct C3; constructor; auto.
Qed.


Lemma pend_lt st pend i v : Forall (pend_ok st) pend -> In (i, v) pend -> (i < List.length (b_fj st))%nat.
Proof.
  intros H Hin. rewrite Forall_forall in H. destruct (H _ Hin) as [P _]. cbn in P.
  apply nth_error_Some. congruence.
Qed.

Lemma insert_fj_core first cur wr ws n pend st f j :
  core first cur wr ws n pend st -> core first (cur + dwd) wr ws (n + 2) pend (insert_fj_op ww st f j).
Proof.
  intros [C1 C2 C3 C4 C5 C6 C7]. unfold insert_fj_op.
  constructor; cbn [b_first b_cur b_wr b_nextw b_wf b_fj b_pads]; auto.
  - now rewrite C2.
  - rewrite app_length, C5. cbn. lia.
  - eapply Forall_impl; [|exact C6]. cbn. lia.
  - rewrite Forall_forall in *. intros iv Hin. destruct (C7 _ Hin) as [P1 P2]. split; [|exact P2].
    cbn [b_fj]. rewrite nth_error_app1; [exact P1|]. apply nth_error_Some. congruence.
Qed.

Lemma bits_nonempty A V :
  V <> 0 -> in_memory ww V = true -> map (fun i => A + i) (filter (Z.testbit V) (bit_list ww)) <> [].
Proof.
  unfold in_memory. intros Hne Hm. apply andb_true_iff in Hm. destruct Hm as [H0 H1].
  apply Z.leb_le in H0. apply Z.ltb_lt in H1. assert (Hpos : 0 < V) by lia.
  assert (Hin : In (Z.log2 V) (filter (Z.testbit V) (bit_list ww))).
  { apply filter_In. split; [|now apply Z.bit_log2].
    unfold bit_list. apply in_map_iff. exists (Z.to_nat (Z.log2 V)).
    pose proof (Z.log2_nonneg V). split; [lia|]. apply in_seq.
    assert (Z.log2 V < wd) by (apply Z.log2_lt_pow2; assumption). lia. }
  destruct (filter (Z.testbit V) (bit_list ww)); [contradiction|discriminate].
Qed.

Lemma insert_wflip_core first cur wr ws pend st st' A V R :
  insert_wflip_ops ww st A V R = Ok st' -> core first cur wr ws (List.length (b_fj st)) pend st ->
  core first (cur + dwd) wr ws (List.length (b_fj st) + 2) pend st'.
Proof.
  unfold insert_wflip_ops. intros H Hc. destruct (V =? 0) eqn:EV.
  - injection H as <-. now apply insert_fj_core.
  - apply Z.eqb_neq in EV. destruct (negb (in_memory ww V)) eqn:Em; [discriminate|].
    apply negb_false_iff in Em. pose proof (bits_nonempty A V EV Em) as Hne.
    destruct (map _ _) as [|x rest]; [congruence|]. injection H as <-.
    pose proof (insert_fj_core _ _ _ _ _ _ _ x 0 Hc) as C1.
    apply wflip_loop_core; [exact C1|].
    unfold slot_free. cbn [fst snd]. intros v Hin.
    destruct Hc as [_ _ _ _ _ _ C7]. pose proof (pend_lt _ _ _ _ C7 Hin) as Hlt.
    unfold insert_fj_op in Hlt. cbn [b_fj] in Hlt. rewrite app_length in Hlt. cbn [List.length] in Hlt. lia.
Qed.

Lemma wflip_loop_wr rest : forall st ret last, b_wr (wflip_loop ww st ret rest last) = b_wr st.
Proof.
  induction rest as [|x rest IH]; intros st ret last; cbn [wflip_loop].
  - now destruct (set_ref_frame st last ret) as (_ & _ & ->).
  - destruct (dict_find (b_dict st) ret (x :: rest)) as [e|].
    + now destruct (set_ref_frame st last e) as (_ & _ & ->).
    + destruct (get_wflip_spot ww st) as [st1 [[wl idx] addr]] eqn:Es.
      pose proof (spot_frame ww st) as F. rewrite Es in F. cbn [fst] in F. destruct F as (_ & _ & F3).
      rewrite IH.
      destruct (set_ref_frame (dict_add (set_ref (insert_wflip_label st1 addr) last addr) ret (x :: rest) addr) (wl, idx) x)
        as (_ & _ & ->).
      cbn [dict_add b_wr]. destruct (set_ref_frame (insert_wflip_label st1 addr) last addr) as (_ & _ & ->).
      cbn [insert_wflip_label b_wr]. exact F3.
Qed.

(* every word of fj_words is emitted where it belongs when the piece is added *)
Lemma add_segment_emits wr first last fj wf wr' i v :
  add_segment_to_fjm ww ver wr first last fj wf = Ok (wr', true) -> wr_inv ww wr ->
  nth_error fj i = Some v -> emitted ww ver wr' (first / wd + Z.of_nat i) v.
Proof.
  intros H Hinv Hn. destruct (add_segment_words _ _ _ _ _ _ _ _ _ H Hinv) as (_ & _ & _ & _ & _ & Hb).
  cbn zeta in Hb. destruct Hb as (Eseg & Hdl & _ & _ & _ & Hrb).
  assert (Hi : (i < List.length fj)%nat) by (apply nth_error_Some; congruence).
  exists (first / wd), ((last - first) / wd), (Z.of_nat (List.length (w_data wr))), (Z.of_nat (List.length (fj ++ wf))),
    (Z.of_nat i).
  split; [rewrite Eseg; apply in_or_app; right; now left|].
  rewrite app_length. split; [lia|]. split; [reflexivity|].
  rewrite <- app_length. rewrite Hrb by (rewrite app_length; lia). rewrite Nat2Z.id.
  f_equal. rewrite app_nth1 by exact Hi. now apply nth_error_nth.
Qed.

Definition sinv (ws : Z) (pend : list (nat * Z)) (st : bstate) : Prop :=
  core (b_first st) (b_cur st) (b_wr st) ws (List.length (b_fj st)) pend st
  /\ wr_inv ww (b_wr st) /\ b_first st mod wd = 0
  /\ b_cur st = b_first st + wd * Z.of_nat (List.length (b_fj st)).

(* closing the current piece at the end of the segment's code *)
Lemma close_emits st st' ws pend :
  close_and_add_segment ww ver st = Ok st' -> sinv ws pend st -> ws = b_cur st ->
  Forall (fun iv => emitted ww ver (b_wr st') (b_first st / wd + Z.of_nat (fst iv)) (snd iv)) pend
  /\ wr_le (b_wr st) (b_wr st') /\ wr_inv ww (b_wr st')
  /\ b_fj st' = [] /\ b_wf st' = [] /\ b_labels st' = b_labels st /\ b_wcount st' = b_wcount st.
Proof.
  unfold close_and_add_segment. intros H (Hc & Hinv & Hal & Hcur) Hws. pose proof (wz_pos ww) as Hw.
  change (wz ww) with wd in Hw. destruct Hc as [_ _ _ C4 _ _ C7].
  destruct (b_nextw st =? b_first st) eqn:E.
  - apply Z.eqb_eq in E. injection H as <-.
    assert (Hz : List.length (b_fj st) = 0%nat /\ List.length (b_wf st) = 0%nat) by nia.
    destruct Hz as [Z1 Z2]. apply length_zero_iff_nil in Z1, Z2.
    split; [|split; [apply wr_le_refl|split; [exact Hinv|split; [exact Z1|split; [exact Z2|split; reflexivity]]]]].
    apply Forall_forall. intros [i v] Hin. pose proof (pend_lt _ _ _ _ C7 Hin) as Hlt. rewrite Z1 in Hlt. cbn in Hlt. lia.
  - apply Z.eqb_neq in E.
    destruct (add_segment_to_fjm ww ver (b_wr st) (b_first st) (b_nextw st) (b_fj st) (b_wf st)) as [[wr c]| |] eqn:Ea;
      cbn [bind] in H; try discriminate.
    injection H as <-. cbn [b_wr b_fj b_wf b_labels b_wcount].
    assert (c = true) as ->.
    { destruct c; [reflexivity|]. destruct (add_segment_words _ _ _ _ _ _ _ _ _ Ea Hinv) as (_ & _ & _ & _ & _ & Hb).
      destruct Hb as [Hb _]. congruence. }
    split; [|split; [eapply add_segment_le; eauto|split; [eapply add_segment_inv; eauto|repeat split; reflexivity]]].
    apply Forall_forall. intros [i v] Hin. rewrite Forall_forall in C7. destruct (C7 _ Hin) as [P1 _].
    eapply add_segment_emits; eauto.
Qed.


Lemma insert_padding_core first cur wr ws n pend st k :
  0 <= k -> core first cur wr ws n pend st -> List.length (b_fj st) = n ->
  core first (cur + k * dwd) wr ws (n + 2 * Z.to_nat k) pend (insert_padding ww st k).
Proof.
  intros Hk [C1 C2 C3 C4 C5 C6 C7] Hn. unfold insert_padding. clear Hn. subst n.
  constructor; cbn [b_first b_cur b_wr b_nextw b_wf b_fj b_pads]; auto.
  - now rewrite C2.
  - rewrite app_length, repeat_length. lia.
  - apply Forall_app. split.
    + apply Forall_forall. intros h Hh. rewrite <- in_rev in Hh. apply in_map_iff in Hh.
      destruct Hh as (i & <- & Hi). apply in_seq in Hi. lia.
    + eapply Forall_impl; [|exact C6]. cbn. lia.
  - rewrite Forall_forall in *. intros [i v] Hin. destruct (C7 _ Hin) as [P1 P2]. cbn [fst snd] in *.
    assert (Hlt : (i < List.length (b_fj st))%nat) by (apply nth_error_Some; congruence).
    split; [cbn [b_fj fst snd]; rewrite nth_error_app1; [exact P1|exact Hlt]|]. cbn [fst].
    intros (h & Hh & E). cbn [b_pads] in Hh. apply in_app_or in Hh. destruct Hh as [Hh|Hh].
    + rewrite <- in_rev in Hh. apply in_map_iff in Hh. destruct Hh as (j & <- & _). lia.
    + apply P2. exists h. auto.
Qed.

Fixpoint chain (a : Z) (L : list placed) : Prop :=
  match L with [] => True | p :: L' => pl_addr p = a /\ chain (pl_next p) L' end.

Lemma place_chain env : forall P a L, place ww env P a = Some L -> chain a L.
Proof.
  induction P as [|s P IH]; intros a L H; cbn [place] in H.
  - injection H as <-. exact I.
  - destruct (next_addr ww env s a) as [a'|]; [|discriminate].
    destruct (place ww env P a') as [L'|] eqn:E; [|discriminate]. injection H as <-.
    cbn. split; [reflexivity|]. now apply IH.
Qed.

Definition res_nonneg (p : placed) : Prop :=
  match pl_stmt p with SReserve _ _ => pl_addr p <= pl_next p | _ => True end.

(* since the fix of finding F18 (commit 825c6f7) the preprocessor rejects a negative reserve *)
Lemma ops_rel_res_nonneg L : forall ops, ops_rel ww L ops -> Forall res_nonneg L.
Proof.
  induction L as [|p L IH]; intros ops H; [constructor|]. cbn [ops_rel] in H. unfold res_nonneg at 1.
  destruct (pl_stmt p) eqn:E; try contradiction.
  - destruct H as (? & ? & r & _ & _ & _ & _ & H). constructor; [now rewrite E|eauto].
  - destruct H as (? & ? & ? & r & _ & _ & _ & _ & _ & H). constructor; [now rewrite E|eauto].
  - destruct H as (? & r & _ & _ & _ & H). constructor; [now rewrite E|eauto].
  - destruct H as (_ & H). constructor; [now rewrite E|eauto].
  - destruct H as (r & _ & _ & H). constructor; [now rewrite E|eauto].
  - destruct H as (r & Hle & _ & _ & H). constructor; [now rewrite E|eauto].
Qed.

Definition static_ok (wrF : wstate) (lF : labels) (p : placed) : Prop :=
  let a := pl_addr p in
  let a' := pl_next p in
  match pl_stmt p with
  | SFlipJump f j _ =>
    exists vf vj, eval_expr (env_at lF a') f = Some vf /\ eval_expr (env_at lF a') j = Some vj
                  /\ in_memory ww vf = true /\ in_memory ww vj = true /\ a mod wd = 0
                  /\ emitted ww ver wrF (a / wd) vf /\ emitted ww ver wrF (a / wd + 1) vj
  | SReserve _ _ =>
    0 <= a <= a' /\ a mod wd = 0 /\ a' mod wd = 0
    /\ (a < a' -> exists s l ds dl, In (s, l, ds, dl) (w_segs wrF) /\ s + dl = a / wd /\ s + l = a' / wd)
  | SSegment _ _ => a' mod wd = 0
  | _ => True
  end.

Lemma run_extends ops st st1 stF :
  resolve_loop ww ver true st ops = Ok st1 -> close_and_add_segment ww ver st1 = Ok stF -> good ww st ->
  extends (b_labels st) (b_labels stF).
Proof.
  intros H1 H2 Hg. destruct (resolve_loop_good _ _ _ _ _ _ H1 Hg) as [G X].
  destruct (close_good _ _ _ _ H2 G) as [_ E]. now rewrite E.
Qed.

Lemma div_first_add first n : first mod wd = 0 -> (first + wd * Z.of_nat n) / wd = first / wd + Z.of_nat n.
Proof.
  intros _. pose proof (wz_pos ww) as Hw. change (wz ww) with wd in Hw.
  rewrite (Z.mul_comm wd), Z.div_add by lia. reflexivity.
Qed.

Lemma mod_first_add first n : first mod wd = 0 -> (first + wd * Z.of_nat n) mod wd = 0.
Proof.
  intros H. pose proof (wz_pos ww) as Hw. change (wz ww) with wd in Hw.
  rewrite (Z.mul_comm wd), Z.mod_add by lia. exact H.
Qed.


Definition pend_emitted (wrF : wstate) (first : Z) (pend : list (nat * Z)) : Prop :=
  Forall (fun iv => emitted ww ver wrF (first / wd + Z.of_nat (fst iv)) (snd iv)) pend.

Lemma pend_emitted_mono wr wr' first pend : wr_le wr wr' -> pend_emitted wr first pend -> pend_emitted wr' first pend.
Proof. intros Hle H. eapply Forall_impl; [|exact H]. intros iv. now apply emitted_mono. Qed.

Lemma sinv_build st' first cur wr ws n pend :
  core first cur wr ws n pend st' -> wr_inv ww wr -> first mod wd = 0 -> cur = first + wd * Z.of_nat n ->
  sinv ws pend st'.
Proof.
  intros C Hinv Hal Hcur. pose proof C as [C1 C2 C3 C4 C5 C6 C7]. unfold sinv.
  rewrite C1, C2, C3, C5. auto.
Qed.

Lemma run_static L : forall ops st st1 stF ws pend,
  resolve_loop ww ver true st ops = Ok st1 -> close_and_add_segment ww ver st1 = Ok stF ->
  ops_rel ww L ops -> chain (b_cur st) L -> sinv ws pend st -> ws = code_end (b_cur st) L ->
  Forall res_nonneg L -> good ww st ->
  pend_emitted (b_wr stF) (b_first st) pend
  /\ Forall (static_ok (b_wr stF) (b_labels stF)) L
  /\ wr_le (b_wr st) (b_wr stF).
Proof.
  pose proof (wz_pos ww) as Hw. change (wz ww) with wd in Hw.
  induction L as [|p L IH]; intros ops st st1 stF ws pend Hrun Hclose Hrel Hch Hs Hws Hres Hg.
  - cbn in Hrel. subst ops. cbn in Hrun. injection Hrun as <-. cbn [code_end] in Hws.
    destruct (close_emits _ _ _ _ Hclose Hs Hws) as (E & Hle & _). split; [exact E|]. split; [constructor|exact Hle].
  - cbn [chain] in Hch. destruct Hch as [Ha Hch]. pose proof (Forall_inv Hres) as Hr. pose proof (Forall_inv_tail Hres) as Hres'.
    pose proof Hs as (Hc & Hinv & Hal & Hcur).
    cbn [ops_rel] in Hrel. cbn [code_end] in *. unfold is_segment, res_nonneg, static_ok in *.
    destruct (pl_stmt p) as [f j ?|ea ev er ?|e ?|name ?|? ? ?|? ? ? ? ?|e ?|e ?] eqn:Est; try contradiction.
    + (* op *)
      destruct Hrel as (f' & j' & r & Ef & Ej & Hn & -> & Hrel).
      pose proof (run_extends _ _ _ _ Hrun Hclose Hg) as Hext.
      cbn [resolve_loop bind resolve_step] in Hrun.
      destruct (exact_eval (b_labels st) f') as [vf|] eqn:Evf; [|discriminate].
      destruct (exact_eval (b_labels st) j') as [vj|] eqn:Evj; [|discriminate].
      destruct (in_memory ww vf && in_memory ww vj) eqn:Em; cbn [andb negb] in Hrun; [|discriminate].
      apply andb_true_iff in Em. destruct Em as [Em1 Em2].
      set (n := List.length (b_fj st)) in *.
      set (st' := insert_fj_op ww st vf vj) in *.
      pose proof (insert_fj_core _ _ _ _ _ _ _ vf vj Hc) as C'. fold st' in C'.
      assert (Cn : core (b_first st) (b_cur st + dwd) (b_wr st) ws (n + 2) (pend ++ [(n, vf); (S n, vj)]) st').
      { destruct C' as [C1 C2 C3 C4 C5 C6 C7]. constructor; auto. apply Forall_app. split; [exact C7|].
        assert (Hh : forall k, (n <= k)%nat -> ~ hole_slot (b_pads st') k).
        { intros k Hk (h & Hh & E). unfold st', insert_fj_op in Hh. cbn [b_pads] in Hh.
          destruct Hc as [_ _ _ _ _ D6 _]. rewrite Forall_forall in D6. specialize (D6 _ Hh). lia. }
        constructor; [|constructor; [|constructor]]; (split; [|apply Hh; cbn; lia]); cbn [fst snd];
          unfold st', insert_fj_op; cbn [b_fj]; rewrite nth_error_app2 by (fold n; lia); fold n.
        - now replace (n - n)%nat with 0%nat by lia.
        - now replace (S n - n)%nat with 1%nat by lia. }
      assert (S' : sinv ws (pend ++ [(n, vf); (S n, vj)]) st').
      { eapply sinv_build; [exact Cn|exact Hinv|exact Hal|]. rewrite Hcur. unfold Layout.dwd. lia. }
      assert (G' : good ww st') by exact Hg.
      assert (Hcur' : b_cur st' = pl_next p) by (unfold st', insert_fj_op; cbn [b_cur]; lia).
      destruct (IH _ _ _ _ _ _ Hrun Hclose Hrel ltac:(rewrite Hcur'; exact Hch) S'
                   ltac:(rewrite Hcur'; exact Hws) Hres' G') as (E & Hst & Hle).
      unfold pend_emitted in E. apply Forall_app in E. destruct E as [E1 E2].
      inversion E2 as [|? ? X1 E3]; subst. inversion E3 as [|? ? X2 _]; subst. cbn [fst snd] in X1, X2.
      split; [exact E1|]. split; [|exact Hle].
      constructor; [|exact Hst]. rewrite Est. exists vf, vj.
      assert (Hdiv : pl_addr p / wd = b_first st / wd + Z.of_nat n).
      { rewrite Ha, Hcur. now apply div_first_add. }
      repeat split; auto.
      * eapply eval_mono_at; [exact Hext|]. unfold exact_eval in Evf.
        now rewrite (eval_new_correct (Some (pl_next p)) (b_labels st) f f' Ef) in Evf.
      * eapply eval_mono_at; [exact Hext|]. unfold exact_eval in Evj.
        now rewrite (eval_new_correct (Some (pl_next p)) (b_labels st) j j' Ej) in Evj.
      * rewrite Ha, Hcur. now apply mod_first_add.
      * now rewrite Hdiv.
      * rewrite Hdiv. replace (b_first st / wd + Z.of_nat n + 1) with (b_first st / wd + Z.of_nat (S n)) by lia. exact X2.
    + (* wflip *)
      destruct Hrel as (a' & v' & r' & r & _ & _ & _ & Hn & -> & Hrel).
      cbn [resolve_loop bind] in Hrun.
      destruct (resolve_step ww ver true st (LWordFlip a' v' r')) as [st'| |] eqn:Estep; try discriminate.
      destruct (resolve_step_good _ _ _ _ _ _ Estep Hg) as [G' _].
      cbn [resolve_step] in Estep.
      destruct (exact_eval (b_labels st) a') as [A|]; [|discriminate].
      destruct (exact_eval (b_labels st) v') as [V|]; [|discriminate].
      destruct (exact_eval (b_labels st) r') as [R|]; [|discriminate].
      destruct (true && _); [discriminate|].
      pose proof (insert_wflip_core _ _ _ _ _ _ _ _ _ _ Estep Hc) as C'.
      assert (S' : sinv ws pend st').
      { eapply sinv_build; [exact C'|exact Hinv|exact Hal|]. rewrite Hcur. unfold Layout.dwd. lia. }
      assert (Hcur' : b_cur st' = pl_next p) by (destruct C' as [_ C2 _ _ _ _ _]; rewrite C2; lia).
      assert (Hf' : b_first st' = b_first st) by (now destruct C').
      assert (Hwr' : b_wr st' = b_wr st) by (now destruct C').
      destruct (IH _ _ _ _ _ _ Hrun Hclose Hrel ltac:(rewrite Hcur'; exact Hch) S'
                   ltac:(rewrite Hcur'; exact Hws) Hres' G') as (E & Hst & Hle).
      rewrite Hf' in E. rewrite Hwr' in Hle. split; [exact E|]. split; [|exact Hle].
      constructor; [now rewrite Est|exact Hst].
    + (* pad *)
      destruct Hrel as (k & r & Hk & Hn & -> & Hrel).
      cbn [resolve_loop bind resolve_step] in Hrun.
      set (st' := insert_padding ww st k) in *.
      pose proof (insert_padding_core _ _ _ _ _ _ _ k Hk Hc eq_refl) as C'. fold st' in C'.
      assert (S' : sinv ws pend st').
      { eapply sinv_build; [exact C'|exact Hinv|exact Hal|]. rewrite Hcur. unfold Layout.dwd. lia. }
      assert (Hcur' : b_cur st' = pl_next p) by (destruct C' as [_ C2 _ _ _ _ _]; rewrite C2; lia).
      assert (Hf' : b_first st' = b_first st) by (now destruct C').
      assert (Hwr' : b_wr st' = b_wr st) by (now destruct C').
      destruct (IH _ _ _ _ _ _ Hrun Hclose Hrel ltac:(rewrite Hcur'; exact Hch) S'
                   ltac:(rewrite Hcur'; exact Hws) Hres' Hg) as (E & Hst & Hle).
      rewrite Hf' in E. rewrite Hwr' in Hle. split; [exact E|]. split; [|exact Hle].
      constructor; [now rewrite Est|exact Hst].
    + (* label *)
      destruct Hrel as (Hn & Hrel).
      destruct (IH _ _ _ _ _ _ Hrun Hclose Hrel ltac:(rewrite Hn, Ha in Hch; exact Hch) Hs
                   ltac:(rewrite Hn, Ha in Hws; exact Hws) Hres' Hg) as (E & Hst & Hle).
      split; [exact E|]. split; [|exact Hle]. constructor; [now rewrite Est|exact Hst].
    + (* segment *)
      destruct Hrel as (r & Hn & -> & Hrel).
      cbn [resolve_loop bind] in Hrun.
      destruct (resolve_step ww ver true st (LNewSeg (pl_next p) (code_end (pl_next p) L))) as [st'| |] eqn:Estep;
        try discriminate.
      destruct (resolve_step_good _ _ _ _ _ _ Estep Hg) as [G' _].
      cbn [resolve_step] in Estep. unfold insert_new_segment in Estep.
      destruct (close_and_add_segment ww ver st) as [stc| |] eqn:Ec; cbn [bind] in Estep; try discriminate.
      destruct (negb (in_memory ww _)); [discriminate|].
      injection Estep as <-.
      destruct (close_emits _ _ _ _ Ec Hs ltac:(rewrite Hws; exact Ha)) as (E0 & Hle0 & Hinv0 & F1 & F2 & _).
      rewrite F1, F2 in *.
      set (st' := mkb _ _ _ _ _ _ _ _ _ _) in *.
      assert (S' : sinv (code_end (pl_next p) L) [] st').
      { apply sinv_build with (first := pl_next p) (cur := pl_next p) (wr := b_wr stc) (n := 0%nat);
          [|exact Hinv0|exact Hn|lia].
        constructor; unfold st'; cbn [b_first b_cur b_wr b_nextw b_wf b_fj b_pads List.length];
          try reflexivity; try lia; apply Forall_nil. }
      destruct (IH _ _ _ _ _ _ Hrun Hclose Hrel Hch S' eq_refl Hres' G') as (_ & Hst & Hle).
      cbn [st' b_wr] in Hle.
      split; [eapply pend_emitted_mono; [exact Hle|exact E0]|]. split; [|eapply wr_le_trans; eassumption].
      constructor; [now rewrite Est|exact Hst].
    + (* reserve *)
      destruct Hrel as (r & _ & Hn & -> & Hrel).
      cbn [resolve_loop bind] in Hrun.
      destruct (resolve_step ww ver true st (LReserve (pl_next p))) as [st'| |] eqn:Estep; try discriminate.
      destruct (resolve_step_good _ _ _ _ _ _ Estep Hg) as [G' _].
      cbn [resolve_step] in Estep. unfold insert_reserve_bits in Estep.
      destruct (add_segment_to_fjm ww ver (b_wr st) (b_first st) (pl_next p) (b_fj st) []) as [[wr c]| |] eqn:Ea;
        cbn [bind] in Estep; try discriminate.
      injection Estep as <-.
      destruct (add_segment_words _ _ _ _ _ _ _ _ _ Ea Hinv) as (W1 & W2 & W3 & W4 & _ & Wb).
      pose proof (add_segment_le _ _ _ _ _ _ _ Ea Hinv) as Hle0.
      pose proof (add_segment_inv _ _ _ _ _ _ _ _ _ Ea Hinv) as Hinv0.
      set (n := List.length (b_fj st)) in *.
      assert (Hfj : (if c then [] else b_fj st) = []).
      { destruct c; [reflexivity|]. destruct Wb as [Wb _]. apply length_zero_iff_nil. fold n. nia. }
      rewrite Hfj in *.
      set (st' := mkb _ _ _ _ _ _ _ _ _ _) in *.
      assert (S' : sinv ws [] st').
      { destruct Hc as [_ _ _ C4 _ _ _].
        apply sinv_build with (first := pl_next p) (cur := pl_next p) (wr := wr) (n := 0%nat);
          [|exact Hinv0|exact W2|lia].
        constructor; unfold st'; cbn [b_first b_cur b_wr b_nextw b_wf b_fj b_pads List.length];
          try reflexivity; try exact C4; apply Forall_nil. }
      destruct (IH _ _ _ _ _ _ Hrun Hclose Hrel Hch S' Hws Hres' G') as (_ & Hst & Hle).
      cbn [st' b_wr] in Hle.
      assert (Hdiv : pl_addr p / wd = b_first st / wd + Z.of_nat n) by (rewrite Ha, Hcur; now apply div_first_add).
      assert (Hmod : pl_addr p mod wd = 0) by (rewrite Ha, Hcur; now apply mod_first_add).
      split; [|split; [|eapply wr_le_trans; eassumption]].
      * (* pending words *)
        destruct c.
        -- eapply pend_emitted_mono; [exact Hle|]. apply Forall_forall. intros [i v] Hin.
           destruct Hc as [_ _ _ _ _ _ C7]. rewrite Forall_forall in C7. destruct (C7 _ Hin) as [P1 _].
           eapply add_segment_emits; eauto.
        -- apply Forall_forall. intros [i v] Hin. destruct Hc as [_ _ _ _ _ _ C7].
           pose proof (pend_lt _ _ _ _ C7 Hin) as Hlt. destruct Wb as [Wb _]. fold n in Hlt. nia.
      * constructor; [|exact Hst]. rewrite Est.
        split; [rewrite Ha, Hcur; nia|]. split; [exact Hmod|]. split; [exact W2|].
        intros Hlt. destruct c; [|destruct Wb as [Wb _]; rewrite Ha, Hcur in Hlt; nia].
        cbn zeta in Wb. destruct Wb as (Eseg & _ & _ & Es & El & _).
        exists (b_first st / wd), ((pl_next p - b_first st) / wd), (Z.of_nat (List.length (w_data (b_wr st)))),
          (Z.of_nat (List.length (b_fj st ++ []))).
        split; [apply Hle; rewrite Eseg; apply in_or_app; right; now left|].
        rewrite List.app_nil_r. fold n. split; [now rewrite Hdiv|].
        rewrite El at 2. rewrite Z.div_mul by lia. reflexivity.
Qed.

End Static.

Lemma place_next ww env : forall P a L, place ww env P a = Some L ->
  Forall (fun p => next_addr ww env (pl_stmt p) (pl_addr p) = Some (pl_next p)) L.
Proof.
  induction P as [|s P IH]; intros a L H; cbn [place] in H.
  - injection H as <-. constructor.
  - destruct (next_addr ww env s a) as [a'|] eqn:En; [|discriminate].
    destruct (place ww env P a') as [L'|] eqn:E; [|discriminate]. injection H as <-.
    constructor; [exact En|]. now apply (IH a').
Qed.

(* the clauses of Denotes other than the wflip clause *)
Definition stmt_ok_static (ww : N) (img : image) (L : list placed) (lbls : labels) (p : placed) : Prop :=
  match pl_stmt p with SWordFlip _ _ _ _ => True | _ => stmt_ok ww img L lbls p end.

Theorem assemble_static_sound ww ver P segs words lbls :
  assemble_model ww ver true P = Ok (segs, words, lbls) ->
  lexical_labels P = true ->
  exists L, place ww (lookup lbls) P 0 = Some L
            /\ loadable_segs ww segs = true
            /\ Forall (stmt_ok_static ww (image_of segs words) L lbls) L.
Proof.
  unfold assemble_model. intros H Hlex.
  pose proof (wz_pos ww) as Hw. pose proof (M_pos ww) as HM.
  destruct (resolve_macros ww P) as [[ops l0]| |] eqn:Er; cbn [bind] in H; try discriminate.
  destruct (labels_resolve ww ver true ops l0) as [stF| |] eqn:El; cbn [bind] in H; try discriminate.
  destruct (negb (first_op_assembled (b_wr stF))); [discriminate|].
  destruct (negb (packable ww (b_wr stF))); [discriminate|].
  injection H as <- <- <-.
  destruct (resolve_macros_spec ww P ops l0 l0 Er Hlex (extends_refl l0)) as (L0 & r0 & _ & Hops & _ & _ & Hkeys).
  subst ops. unfold labels_resolve in El.
  destruct (resolve_loop ww ver true _ r0) as [st1| |] eqn:Eloop; cbn [bind] in El; try discriminate.
  set (st0 := mkb 0 (code_end 0 L0) 0 [] [] [] [] l0 0%N (mkw [] [])) in *.
  assert (G0 : good ww st0).
  { split; [split; constructor|]. intros i _. cbn [b_labels st0].
    destruct (lookup l0 (wflip_label i)) as [v|] eqn:E; [|reflexivity]. now elim (Hkeys _ _ i E). }
  destruct (resolve_loop_good _ _ _ _ _ _ Eloop G0) as [G1 X1]. cbn [b_labels st0] in X1.
  destruct (close_good _ _ _ _ El G1) as [[HinvF _] E2].
  assert (Hext : extends l0 (b_labels stF)) by (rewrite E2; exact X1).
  destruct (resolve_macros_spec ww P _ l0 (b_labels stF) Er Hlex Hext) as (L & r & Hpl & Hops & Hrel & Hlab & _).
  injection Hops as Hce Hr0. subst r.
  exists L. split; [exact Hpl|]. split; [now apply wr_inv_loadable|].
  assert (S0 : sinv ww (code_end 0 L0) [] st0).
  { apply sinv_build with (first := 0) (cur := 0) (wr := mkw [] []) (n := 0%nat).
    - constructor; unfold st0; cbn [b_first b_cur b_wr b_nextw b_wf b_fj b_pads List.length];
        try reflexivity; try lia; apply Forall_nil.
    - split; constructor.
    - apply Z.mod_0_l. pose proof (wz_pos ww). unfold Layout.wd. lia.
    - lia. }
  pose proof (ops_rel_res_nonneg ww L r0 Hrel) as Hresn.
  destruct (run_static ww ver L r0 st0 st1 stF (code_end 0 L0) [] Eloop El Hrel
              (place_chain ww _ _ _ _ Hpl) S0 Hce Hresn G0) as (_ & Hst & _).
  pose proof (place_next ww _ _ _ _ Hpl) as Hnext.
  apply Forall_forall. intros p Hp.
  rewrite Forall_forall in Hst, Hlab, Hnext. specialize (Hst _ Hp). specialize (Hlab _ Hp). specialize (Hnext _ Hp).
  unfold stmt_ok_static, stmt_ok, static_ok, label_ok in *.
  assert (Hword : forall a v, in_memory ww v = true -> emitted ww ver (b_wr stF) a v ->
                              word_is ww (image_of (read_segments (b_wr stF)) (read_words ww ver (b_wr stF))) a v).
  { intros a v Hm (s & l & ds & dl & i & Hs & Hi & Ha & Hrb).
    unfold in_memory in Hm. apply andb_true_iff in Hm. destruct Hm as [M1 M2]. apply Z.leb_le in M1. apply Z.ltb_lt in M2.
    assert (Hn : norm ww ver a v = v).
    { unfold norm. destruct (_ && _); [|reflexivity]. apply Z.mod_small. unfold Layout.wd in *. lia. }
    rewrite Hn in Hrb. pose proof HinvF as [Hok _]. rewrite Forall_forall in Hok. pose proof (Hok _ Hs) as O. cbn in O.
    unfold word_is, image_of, segs, mem0. cbn [i_segs i_mem]. subst a.
    split; [lia|]. split; [eapply final_valid; eauto; lia|]. split; [unfold Layout.wd in *; lia|].
    rewrite <- Hrb. eapply final_word; eauto. lia. }
  destruct (pl_stmt p) as [f j ?|ea ev er ?|e ?|name ?|? ? ?|? ? ? ? ?|e ?|e ?] eqn:Est; auto.
  - (* op *)
    destruct Hst as (vf & vj & E1 & E2' & M1 & M2 & Hmod & X1' & X2).
    exists vf, vj. change (wz ww) with (wd ww).
    pose proof (Hword _ _ M1 X1') as W1. pose proof (Hword _ _ M2 X2) as W2.
    repeat split; auto; try apply W1; try apply W2.
    destruct W1 as [W0 _]. pose proof (Z.div_mod (pl_addr p) (wd ww) ltac:(unfold Layout.wd; lia)) as Hd.
    rewrite Hmod in Hd. unfold Layout.wd in *. nia.
  - (* macro call *) cbn in Hnext. discriminate.
  - cbn in Hnext. discriminate.
  - (* reserve *)
    destruct Hst as (R1 & R2 & R3 & R4). change (wz ww) with (wd ww).
    split; [exact R1|]. split; [exact R2|]. split; [exact R3|]. split.
    + intros Hlt. destruct (R4 Hlt) as (s & l & ds & dl & Hs & Hsd & Hsl).
      pose proof HinvF as [Hok _]. rewrite Forall_forall in Hok. pose proof (Hok _ Hs) as O. cbn in O.
      exists (Z.to_N s, Z.to_N l). unfold image_of, segs. cbn [i_segs fst snd]. split.
      * unfold read_segments. apply in_map_iff. exists (s, l, ds, dl). split; [reflexivity|exact Hs].
      * lia.
    + intros wa Hwa. unfold image_of, mem0. cbn [i_mem].
      assert (Hlt : pl_addr p < pl_next p).
      { destruct (Z_lt_le_dec (pl_addr p) (pl_next p)) as [|Hge]; [assumption|].
        assert (pl_addr p = pl_next p) by lia. rewrite H in Hwa. lia. }
      destruct (R4 Hlt) as (s & l & ds & dl & Hs & Hsd & Hsl).
      eapply final_zero; eauto. lia.
Qed.

(* ================= C02_sound, modulo the wflip chains ================= *)
(* The non-wflip clauses are proved (assemble_static_sound); the execution of a stored chain is proved
   (wflip_exec).  What is left is the existence of the stored chain for every wflip statement of the model's output
   (wflip_chain_ok: sharing-table invariant + auxiliary placement). *)
Theorem assemble_sound_modulo_chains ww ver P segs words lbls :
  assemble_model ww ver true P = Ok (segs, words, lbls) ->
  lexical_labels P = true ->
  (forall L, place ww (lookup lbls) P 0 = Some L -> Forall (wflip_chain_ok ww (image_of segs words) L lbls) L) ->
  Denotes ww (image_of segs words) P lbls.
Proof.
  intros H Hlex Hchains.
  destruct (assemble_static_sound _ _ _ _ _ _ H Hlex) as (L & Hpl & Hload & Hst).
  exists L. split; [exact Hpl|]. split; [exact Hload|].
  specialize (Hchains L Hpl). apply Forall_forall. intros p Hp.
  rewrite Forall_forall in Hst, Hchains. specialize (Hst p Hp). specialize (Hchains p Hp).
  unfold stmt_ok_static, wflip_chain_ok, stmt_ok in *.
  destruct (pl_stmt p) as [f j ?|ea ev er ?|e ?|name ?|? ? ?|? ? ? ? ?|e ?|e ?]; auto.
  destruct Hchains as (A & V & R & cs & E1 & E2 & E3 & (B1 & B2 & B3 & B4 & B5) & Hne & Hnx & Hch & Hfl & Haux).
  exists A, V, R. repeat split; auto; try lia.
  eapply wflip_exec; eauto. rewrite Hfl. apply flip_bits_nodup.
Qed.

(* ================= C02_aux_placement, first part: no chain op on the input-cell op (the fix of F16) ================= *)
Section AuxIO.
Variable ww : N.
Variable ver : N.
Notation wd := (wd ww).
Notation dwd := (dwd ww).

(* the model's test is the machine's test *)
Lemma covers_input_bit_eq a : 0 <= a -> covers_input ww (Z.to_N a) = covers_input_bit ww a.
Proof.
  intros Ha. unfold covers_input, covers_input_bit, in_addr, dw, Layout.dwd, Layout.wd, wz.
  set (wn := w ww).
  assert (E1 : (Z.to_N a <=? 3 * wn + ww + 1)%N = (a <=? 3 * Z.of_N wn + Z.of_N ww + 1)).
  { destruct (a <=? 3 * Z.of_N wn + Z.of_N ww + 1) eqn:E; [apply N.leb_le; apply Z.leb_le in E; lia|].
    apply N.leb_gt. apply Z.leb_gt in E. lia. }
  assert (E2 : (3 * wn + ww + 1 <? Z.to_N a + 2 * wn)%N = (3 * Z.of_N wn + Z.of_N ww + 1 <? a + 2 * Z.of_N wn)).
  { destruct (3 * Z.of_N wn + Z.of_N ww + 1 <? a + 2 * Z.of_N wn) eqn:E; [apply N.ltb_lt; apply Z.ltb_lt in E; lia|].
    apply N.ltb_ge. apply Z.ltb_ge in E. lia. }
  now rewrite E1, E2.
Qed.

Lemma covers_step a : covers_input_bit ww a = true -> covers_input_bit ww (a + dwd) = false.
Proof.
  unfold covers_input_bit. intros H. apply andb_true_iff in H. destruct H as [_ H]. apply Z.ltb_lt in H.
  apply andb_false_iff. left. apply Z.leb_gt. lia.
Qed.

Lemma skip_input_op_nc nextw wf nw wf' :
  skip_input_op ww 2 nextw wf = (nw, wf') -> covers_input_bit ww nw = false.
Proof.
  cbn [skip_input_op]. destruct (covers_input_bit ww nextw) eqn:E1.
  - rewrite (covers_step _ E1). intros H. injection H as <- _. now apply covers_step.
  - intros H. now injection H as <- _.
Qed.

Lemma pop_hole_nc first pads : forall i a rest,
  pop_hole ww first pads = (Some (i, a), rest) -> covers_input_bit ww a = false.
Proof.
  induction pads as [|h pads IH]; intros i a rest H; cbn [pop_hole] in H; [discriminate|].
  destruct (covers_input_bit ww (first + wd * Z.of_nat h)) eqn:E; [eauto|]. now injection H as <- <- <-.
Qed.

Lemma spot_nc st st1 wl idx addr :
  get_wflip_spot ww st = (st1, (wl, idx, addr)) -> covers_input_bit ww addr = false.
Proof.
  unfold get_wflip_spot. destruct (pop_hole ww (b_first st) (b_pads st)) as [[[i a]|] rest] eqn:Ep.
  - intros H. injection H as _ _ _ <-. eapply pop_hole_nc; eauto.
  - destruct (skip_input_op ww 2 (b_nextw st) (b_wf st)) as [nw wf] eqn:Es.
    intros H. injection H as _ _ _ <-. eapply skip_input_op_nc; eauto.
Qed.

(* every `:wflips:k` entry of the label table holds an address that does not cover the input bit *)
Definition lbl_nc (kv : string * Z) : Prop := prefix_wflips (fst kv) = true -> covers_input_bit ww (snd kv) = false.

Lemma Forall_dict_set l k v : Forall lbl_nc l -> lbl_nc (k, v) -> Forall lbl_nc (dict_set l k v).
Proof.
  intros Hl Hkv. induction l as [|[k' v'] l IH]; cbn [dict_set]; [now constructor|].
  inversion Hl as [|? ? H1 H2]; subst. destruct (String.eqb k' k) eqn:E.
  - apply String.eqb_eq in E. subst k'. constructor; assumption.
  - constructor; [assumption|now apply IH].
Qed.

Lemma wflip_loop_nc rest : forall st ret last,
  Forall lbl_nc (b_labels st) -> Forall lbl_nc (b_labels (wflip_loop ww st ret rest last)).
Proof.
  induction rest as [|x rest IH]; intros st ret last H; cbn [wflip_loop].
  - now destruct (set_ref_frame st last ret) as (-> & _).
  - destruct (dict_find (b_dict st) ret (x :: rest)) as [e|].
    + now destruct (set_ref_frame st last e) as (-> & _).
    + destruct (get_wflip_spot ww st) as [st1 [[wl idx] addr]] eqn:Es.
      pose proof (spot_frame ww st) as F. rewrite Es in F. cbn [fst] in F. destruct F as (F1 & _ & _).
      apply IH.
      destruct (set_ref_frame (dict_add (set_ref (insert_wflip_label st1 addr) last addr) ret (x :: rest) addr) (wl, idx) x)
        as (-> & _).
      cbn [dict_add b_labels]. destruct (set_ref_frame (insert_wflip_label st1 addr) last addr) as (-> & _).
      cbn [insert_wflip_label b_labels]. apply Forall_dict_set; [now rewrite F1|].
      intros _. cbn [snd]. eapply spot_nc; eauto.
Qed.

Lemma resolve_loop_nc strict ops : forall st st',
  resolve_loop ww ver strict st ops = Ok st' -> Forall lbl_nc (b_labels st) -> Forall lbl_nc (b_labels st').
Proof.
  induction ops as [|op ops IH]; intros st st' H Hl; cbn [resolve_loop] in H.
  - now injection H as <-.
  - destruct (resolve_step ww ver strict st op) as [st1| |] eqn:E; cbn [bind] in H; try discriminate.
    apply (IH _ _ H). clear IH H.
    destruct op as [f j|a v r|n|s wsa|a]; cbn [resolve_step] in E.
    + destruct (exact_eval (b_labels st) f); [|discriminate]. destruct (exact_eval (b_labels st) j); [|discriminate].
      destruct (strict && _); [discriminate|]. now injection E as <-.
    + destruct (exact_eval (b_labels st) a) as [A|]; [|discriminate].
      destruct (exact_eval (b_labels st) v) as [V|]; [|discriminate].
      destruct (exact_eval (b_labels st) r) as [R|]; [|discriminate].
      destruct (strict && _); [discriminate|].
      unfold insert_wflip_ops in E. destruct (V =? 0); [now injection E as <-|].
      destruct (negb (in_memory ww V)); [discriminate|].
      destruct (map _ _) as [|x rest]; injection E as <-; [exact Hl|]. now apply wflip_loop_nc.
    + now injection E as <-.
    + unfold insert_new_segment in E.
      destruct (close_and_add_segment ww ver st) as [stc| |] eqn:Ec; cbn [bind] in E; try discriminate.
      destruct (negb (in_memory ww _)); [discriminate|].
      injection E as <-. cbn [b_labels].
      unfold close_and_add_segment in Ec. destruct (b_nextw st =? b_first st); [now injection Ec as <-|].
      destruct (add_segment_to_fjm ww ver (b_wr st) (b_first st) (b_nextw st) (b_fj st) (b_wf st)) as [[wr c]| |];
        cbn [bind] in Ec; try discriminate. now injection Ec as <-.
    + unfold insert_reserve_bits in E.
      destruct (add_segment_to_fjm ww ver (b_wr st) (b_first st) a (b_fj st) []) as [[wr c]| |];
        cbn [bind] in E; try discriminate. now injection E as <-.
Qed.

Lemma in_lookup (l : labels) k v : In (k, v) l -> exists v', lookup l k = Some v'.
Proof.
  induction l as [|[k' x] l IH]; intros H; [contradiction|]. cbn [lookup].
  destruct (String.eqb k' k) eqn:E; [eauto|]. destruct H as [H|H]; [|auto].
  injection H as -> _. now rewrite String.eqb_refl in E.
Qed.

Lemma keys_no_prefix st : keys_inv st -> forall k v, lookup (p_labels st) k = Some v -> prefix_wflips k = false.
Proof.
  intros Hk k v H. apply Hk in H. destruct H as [Hu | [[j [_ E]] | E]]; try subst k.
  - unfold user_name in Hu. now apply negb_true_iff in Hu.
  - reflexivity.
  - reflexivity.
Qed.

(* for every program the model assembles, no auxiliary wflip op (label `:wflips:k`) is on the input-cell op *)
Theorem assemble_aux_not_on_io strict P segs words lbls :
  assemble_model ww ver strict P = Ok (segs, words, lbls) -> lexical_labels P = true -> aux_on_io ww lbls = false.
Proof.
  unfold assemble_model. intros H Hlex.
  destruct (resolve_macros ww P) as [[ops l0]| |] eqn:Er; cbn [bind] in H; try discriminate.
  destruct (labels_resolve ww ver strict ops l0) as [st| |] eqn:El; cbn [bind] in H; try discriminate.
  destruct (negb (first_op_assembled (b_wr st))); [discriminate|].
  destruct (negb (packable ww (b_wr st))); [discriminate|].
  injection H as _ _ <-.
  (* the preprocessor's table has no `:wflips:` name *)
  assert (H0 : Forall lbl_nc l0).
  { unfold resolve_macros in Er.
    destruct (pre_loop ww pre_init P) as [st0| |] eqn:Epl; cbn [bind] in Er; try discriminate.
    destruct (pre_finish st0) as [st0'| |] eqn:Ef; cbn [bind] in Er; try discriminate.
    injection Er as _ <-.
    assert (Hk0 : keys_inv pre_init) by (intros k v X; discriminate).
    destruct (pre_loop_spec ww P pre_init st0 _ Epl Hk0 Hlex (extends_refl _)) as (_ & _ & _ & _ & _ & Hk & _).
    assert (Hk' : keys_inv st0').
    { unfold pre_finish in Ef. cbn [p_used p_addr p_labels p_ops p_seg] in Ef.
      destruct (existsb (Z.eqb 0) (p_used st0)).
      - now injection Ef as <-.
      - apply insert_label_spec in Ef; [|exact Hk|now right]. now destruct Ef. }
    apply Forall_forall. intros [k v] Hin Hp. cbn [fst] in Hp.
    destruct (in_lookup _ _ _ Hin) as [v' Hv']. rewrite (keys_no_prefix _ Hk' _ _ Hv') in Hp. discriminate. }
  unfold labels_resolve in El. destruct ops as [|[| | |s wsa|] ops']; try discriminate.
  destruct (resolve_loop ww ver strict _ ops') as [st1| |] eqn:Eloop; cbn [bind] in El; try discriminate.
  pose proof (resolve_loop_nc _ _ _ _ Eloop H0) as H1.
  assert (E : b_labels st = b_labels st1).
  { unfold close_and_add_segment in El. destruct (b_nextw st1 =? b_first st1); [now injection El as <-|].
    destruct (add_segment_to_fjm ww ver (b_wr st1) (b_first st1) (b_nextw st1) (b_fj st1) (b_wf st1)) as [[wr c]| |];
      cbn [bind] in El; try discriminate. now injection El as <-. }
  rewrite E. unfold aux_on_io.
  destruct (existsb _ (b_labels st1)) eqn:Ex; [|reflexivity].
  apply existsb_exists in Ex. destruct Ex as ([k v] & Hin & Hc). cbn [fst snd] in Hc.
  apply andb_true_iff in Hc. destruct Hc as [Hc C3]. apply andb_true_iff in Hc. destruct Hc as [C1 C2].
  rewrite Forall_forall in H1. specialize (H1 _ Hin C1). cbn [snd] in H1.
  apply Z.leb_le in C2. rewrite covers_input_bit_eq in C3 by exact C2. congruence.
Qed.

End AuxIO.

(* the flip addresses insert_wflip_ops walks through are the spec's flip_bits *)
Lemma model_flips_eq ww A V :
  0 <= A -> 0 < V ->
  map Z.to_N (map (fun i => A + i) (filter (Z.testbit V) (bit_list ww))) = flip_bits ww (Z.to_N A) (Z.to_N V).
Proof.
  intros HA HV. unfold flip_bits, bit_list, bit_indices.
  assert ((Z.to_N V =? 0)%N = false) as -> by (apply N.eqb_neq; lia).
  assert (N.to_nat (DenoteSpec.wN ww) = Z.to_nat (wd ww)) as -> by (unfold DenoteSpec.wN, Layout.wd, wz; lia).
  induction (seq 0 (Z.to_nat (wd ww))) as [|i l IH]; [reflexivity|].
  cbn [map filter].
  assert (Ht : Z.testbit V (Z.of_nat i) = N.testbit (Z.to_N V) (N.of_nat i)).
  { rewrite <- (Z2N.id V) at 1 by lia. rewrite <- nat_N_Z. apply N2Z.inj_testbit. }
  rewrite Ht. destruct (N.testbit (Z.to_N V) (N.of_nat i)); cbn [map]; rewrite IH; [|reflexivity].
  f_equal. lia.
Qed.
