From FJ Require Import Lib.Base.
(* C02: proofs about the layout model (Model/Layout.v) against the denotation (Spec/DenoteSpec.v). *)
From FJ Require Import Spec.MachineSpec Model.Ast Spec.DenoteSpec Model.DenoteCheck Model.Layout Proofs.DenoteProps.
From Coq Require Import DecimalString DecimalN DecimalPos DecimalFacts Permutation.
Local Open Scope Z_scope.

(* ================= expressions ================= *)

Section ExprInd.
Variable Q : expr -> Prop.
Hypothesis Hint : forall z, Q (EInt z).
Hypothesis Hlbl : forall s, Q (ELbl s).
Hypothesis Hop : forall o args, Forall Q args -> Q (EOp o args).
Fixpoint expr_ind' (e : expr) : Q e :=
  match e with
  | EInt z => Hint z
  | ELbl s => Hlbl s
  | EOp o args =>
    Hop o args ((fix go (l : list expr) : Forall Q l :=
                   match l with [] => Forall_nil Q | x :: l' => Forall_cons x (expr_ind' x) (go l') end) args)
  end.
End ExprInd.

(* the argument evaluators, named *)
Fixpoint evs (env : string -> option Z) (l : list expr) : option (list Z) :=
  match l with
  | [] => Some []
  | x :: l' => match eval_expr env x, evs env l' with Some v, Some vs => Some (v :: vs) | _, _ => None end
  end.
Lemma eval_expr_op env o args :
  eval_expr env (EOp o args) = match evs env args with Some vs => apply_op o vs | None => None end.
Proof.
  cbn [eval_expr]. fold (eval_expr env).
  replace ((fix evs (l : list expr) : option (list Z) :=
              match l with
              | [] => Some []
              | x :: l' => match eval_expr env x, evs l' with Some v, Some vs => Some (v :: vs) | _, _ => None end
              end) args) with (evs env args); [reflexivity|].
  induction args as [|x l IH]; cbn [evs]; [reflexivity|]. now rewrite IH.
Qed.

Fixpoint news (d : option Z) (l : list expr) : option (list expr) :=
  match l with
  | [] => Some []
  | x :: l' => match eval_new d x with
               | None => None
               | Some x' => match news d l' with None => None | Some r => Some (x' :: r) end
               end
  end.
Lemma eval_new_op d o args :
  eval_new d (EOp o args) =
  match news d args with
  | None => None
  | Some args' => match ints_of args' with
                  | Some vs => match apply_op o vs with Some v => Some (EInt v) | None => None end
                  | None => Some (EOp o args')
                  end
  end.
Proof.
  cbn [eval_new]. fold (eval_new d).
  replace ((fix go (l : list expr) : option (list expr) :=
              match l with
              | [] => Some []
              | x :: l' => match eval_new d x with
                           | None => None
                           | Some x' => match go l' with None => None | Some r => Some (x' :: r) end
                           end
              end) args) with (news d args); [reflexivity|].
  induction args as [|x l IH]; cbn [news]; [reflexivity|]. now rewrite IH.
Qed.

(* the environment eval_new substitutes into *)
Definition env_of (d : option Z) (l : labels) : string -> option Z :=
  match d with Some v => env_at l v | None => lookup l end.

Lemma ints_of_evs env l vs : ints_of l = Some vs -> evs env l = Some vs.
Proof.
  revert vs. induction l as [|x l IH]; cbn [ints_of evs]; intros vs H.
  - exact H.
  - destruct x as [z| |]; try discriminate.
    destruct (ints_of l) as [r|]; [|discriminate]. injection H as <-.
    cbn [eval_expr]. now rewrite (IH r eq_refl).
Qed.

(* eval_new substitutes `$` and folds; evaluating the result under the labels = evaluating the source with `$` bound *)
Lemma eval_new_correct d l e : forall e', eval_new d e = Some e' -> eval_expr (lookup l) e' = eval_expr (env_of d l) e.
Proof.
  induction e as [z|s|o args IH] using expr_ind'; intros e' H.
  - cbn in H. injection H as <-. reflexivity.
  - cbn [eval_new] in H. injection H as <-. destruct d as [v|]; cbn [env_of].
    + unfold env_at. cbn [eval_expr]. destruct (String.eqb s "$"); reflexivity.
    + reflexivity.
  - rewrite eval_new_op in H. rewrite eval_expr_op.
    destruct (news d args) as [args'|] eqn:En; [|discriminate].
    assert (Hevs : evs (lookup l) args' = evs (env_of d l) args).
    { clear H. revert args' En. induction IH as [|x r Hx _ IHr]; cbn [news evs]; intros args' En.
      - injection En as <-. reflexivity.
      - destruct (eval_new d x) as [x'|] eqn:Ex; [|discriminate].
        destruct (news d r) as [r'|] eqn:Er; [|discriminate]. injection En as <-.
        cbn [evs]. rewrite (Hx x' eq_refl), (IHr r' eq_refl). reflexivity. }
    destruct (ints_of args') as [vs|] eqn:Ei.
    + destruct (apply_op o vs) as [v|] eqn:Ea; [|discriminate]. injection H as <-.
      cbn [eval_expr]. rewrite <- Hevs, (ints_of_evs _ _ _ Ei). now rewrite Ea.
    + injection H as <-. rewrite eval_expr_op. now rewrite Hevs.
Qed.

(* later label tables only add names *)
Definition extends (l l' : labels) : Prop := forall k v, lookup l k = Some v -> lookup l' k = Some v.

Lemma extends_refl l : extends l l.
Proof. now intros k v H. Qed.
Lemma extends_trans a b c : extends a b -> extends b c -> extends a c.
Proof. intros H1 H2 k v H. now apply H2, H1. Qed.

Lemma eval_mono_env (f g : string -> option Z) e :
  (forall k v, f k = Some v -> g k = Some v) -> forall v, eval_expr f e = Some v -> eval_expr g e = Some v.
Proof.
  intros Hfg. induction e as [z|s|o args IH] using expr_ind'; intros v H.
  - exact H.
  - cbn in *. now apply Hfg.
  - rewrite eval_expr_op in *.
    destruct (evs f args) as [vs|] eqn:E; [|discriminate].
    assert (evs g args = Some vs) as ->; [|exact H].
    clear H. revert vs E. induction IH as [|x r Hx _ IHr]; cbn [evs]; intros vs E.
    + exact E.
    + destruct (eval_expr f x) as [vx|] eqn:Ex; [|discriminate].
      destruct (evs f r) as [vr|] eqn:Er; [|discriminate]. injection E as <-.
      now rewrite (Hx vx eq_refl), (IHr vr eq_refl).
Qed.

Lemma eval_mono l l' e v : extends l l' -> eval_expr (lookup l) e = Some v -> eval_expr (lookup l') e = Some v.
Proof. intros H. now apply eval_mono_env. Qed.

Lemma eval_mono_at l l' d e v :
  extends l l' -> eval_expr (env_at l d) e = Some v -> eval_expr (env_at l' d) e = Some v.
Proof.
  intros H. apply eval_mono_env. intros k x. unfold env_at. destruct (String.eqb k "$"); [auto|apply H].
Qed.

(* ================= dictionaries and generated names ================= *)

Lemma lookup_dict_set_same l k v : lookup (dict_set l k v) k = Some v.
Proof.
  induction l as [|[k' v'] l IH]; cbn [dict_set lookup].
  - now rewrite String.eqb_refl.
  - destruct (String.eqb k' k) eqn:E; cbn [lookup]; rewrite E; [reflexivity|exact IH].
Qed.

Lemma lookup_dict_set_other l k v k' : k <> k' -> lookup (dict_set l k v) k' = lookup l k'.
Proof.
  intros Hne. induction l as [|[k0 v0] l IH]; cbn [dict_set lookup].
  - destruct (String.eqb k k') eqn:E; [apply String.eqb_eq in E; contradiction|reflexivity].
  - destruct (String.eqb k0 k) eqn:E; cbn [lookup].
    + apply String.eqb_eq in E. subst k0.
      destruct (String.eqb k k') eqn:E'; [apply String.eqb_eq in E'; contradiction|reflexivity].
    + now rewrite IH.
Qed.

Lemma dict_mem_lookup l k : dict_mem l k = false -> lookup l k = None.
Proof.
  induction l as [|[k' v'] l IH]; cbn [dict_mem lookup]; [reflexivity|].
  destruct (String.eqb k' k); cbn; [discriminate|exact IH].
Qed.

Lemma lookup_dict_mem l k v : lookup l k = Some v -> dict_mem l k = true.
Proof.
  intros H. destruct (dict_mem l k) eqn:E; [reflexivity|]. rewrite (dict_mem_lookup _ _ E) in H. discriminate.
Qed.

Lemma extends_dict_set_new l k v : lookup l k = None -> extends l (dict_set l k v).
Proof.
  intros Hn k' v' H. destruct (String.eqb k k') eqn:E.
  - apply String.eqb_eq in E. subst k'. congruence.
  - rewrite lookup_dict_set_other; [exact H|]. intros ->. now rewrite String.eqb_refl in E.
Qed.

Lemma N_to_string_inj a b : N_to_string a = N_to_string b -> a = b.
Proof.
  unfold N_to_string. intros H.
  assert (Hn : forall n, N.to_uint n <> Decimal.Nil).
  { intros [|p]; cbn; [discriminate|]. apply DecimalPos.Unsigned.to_uint_nonnil. }
  apply (f_equal NilZero.uint_of_string) in H.
  rewrite !NilZero.usu in H by apply Hn. injection H as H.
  now apply DecimalN.Unsigned.to_uint_inj.
Qed.

Lemma append_inj_l (p a b : string) : (p ++ a = p ++ b)%string -> a = b.
Proof. induction p as [|c p IH]; cbn; intros H; [exact H|]. injection H as H. now apply IH. Qed.

Lemma wflip_start_label_inj a b : wflip_start_label a = wflip_start_label b -> a = b.
Proof. unfold wflip_start_label. intros H. apply append_inj_l in H. now apply N_to_string_inj in H. Qed.
Lemma wflip_label_inj a b : wflip_label a = wflip_label b -> a = b.
Proof. unfold wflip_label. intros H. apply append_inj_l in H. now apply N_to_string_inj in H. Qed.

Lemma prefix_append p x : String.prefix p (p ++ x) = true.
Proof.
  induction p as [|c p IH]; cbn; [now destruct x|].
  destruct (Ascii.ascii_dec c c) as [_|n]; [exact IH|now elim n].
Qed.

(* ================= preprocessor: addresses and labels ================= *)

(* label names the lexer can produce never look like the assembler's generated names (finding F17 otherwise) *)
Definition user_name (k : string) : bool :=
  negb (String.prefix "_.wflip_area_start_" k) && negb (String.prefix ":wflips:" k).
Definition lexical_stmt (s : stmt) : bool := match s with SLabel n _ => user_name n | _ => true end.
Definition lexical_labels (P : list stmt) : bool := forallb lexical_stmt P.

Lemma user_name_not_start k i : user_name k = true -> k <> wflip_start_label i.
Proof.
  unfold user_name, wflip_start_label. intros H ->. rewrite prefix_append in H. discriminate.
Qed.
Lemma user_name_not_wflip k i : user_name k = true -> k <> wflip_label i.
Proof.
  unfold user_name, wflip_label. intros H ->. rewrite prefix_append, andb_false_r in H. discriminate.
Qed.

Section Pre.
Variable ww : N.
Notation wd := (wd ww).
Notation dwd := (dwd ww).

Lemma wd_pos : 0 < wd.
Proof. apply wz_pos. Qed.
Lemma dwd_eq : dwd = 2 * wd.
Proof. reflexivity. Qed.

Definition keys_inv (st : pstate) : Prop :=
  forall k v, lookup (p_labels st) k = Some v ->
              user_name k = true \/ (exists i, (i < p_seg st)%N /\ k = wflip_start_label i) \/ k = main_start_label.

Lemma round_up_pad a n :
  0 < n -> a mod dwd = 0 -> round_up a (n * dwd) = a + ((- a) / dwd) mod n * dwd.
Proof.
  intros Hn Ha. pose proof wd_pos as Hw. rewrite dwd_eq in *.
  set (d := 2 * wd) in *. assert (Hd : 0 < d) by (unfold d; lia).
  apply Z.mod_divide in Ha; [|lia]. destruct Ha as [q ->].
  replace (- (q * d)) with ((- q) * d) by ring. rewrite Z.div_mul by lia.
  unfold round_up. pose proof (Z.mod_pos_bound (- q) n Hn) as Hr.
  pose proof (Z.div_mod (- q) n ltac:(lia)) as Hq.
  set (r := (- q) mod n) in *. set (m := (- q) / n) in *.
  assert (E : (q * d + n * d - 1) / (n * d) = - m).
  { symmetry. apply Z.div_unique with ((n - r) * d - 1); nia. }
  rewrite E. nia.
Qed.

(* what one statement appends to result_ops (most recent first) *)
Definition step_ops (st st1 : pstate) (s : stmt) : Prop :=
  match s with
  | SLabel _ _ => p_ops st1 = p_ops st
  | SFlipJump f j _ =>
    exists f' j', eval_new (Some (p_addr st1)) f = Some f' /\ eval_new (Some (p_addr st1)) j = Some j'
                  /\ p_ops st1 = LFlipJump f' j' :: p_ops st
  | SWordFlip a v r _ =>
    exists a' v' r', eval_new (Some (p_addr st1)) a = Some a' /\ eval_new (Some (p_addr st1)) v = Some v'
                     /\ eval_new (Some (p_addr st1)) r = Some r' /\ p_ops st1 = LWordFlip a' v' r' :: p_ops st
  | SPad _ _ => exists k, 0 <= k /\ p_addr st1 = p_addr st + k * dwd /\ p_ops st1 = LPadding k :: p_ops st
  | SSegment _ _ => p_addr st1 mod wd = 0
                    /\ p_ops st1 = LNewSeg (p_addr st1) WFLIP_NOT_INSERTED_YET :: patch_wflip (p_ops st) (p_addr st)
  | SReserve _ _ => (p_addr st1 - p_addr st) mod wd = 0 /\ p_ops st1 = LReserve (p_addr st1) :: p_ops st
  | _ => False
  end.

Lemma insert_label_spec st name a st1 :
  insert_label st name a = Ok st1 -> keys_inv st -> (user_name name = true \/ name = main_start_label) ->
  keys_inv st1 /\ extends (p_labels st) (p_labels st1) /\ lookup (p_labels st1) name = Some a
  /\ p_addr st1 = p_addr st /\ p_ops st1 = p_ops st /\ p_seg st1 = p_seg st.
Proof.
  unfold insert_label. destruct (dict_mem (p_labels st) name) eqn:E; [discriminate|].
  intros H Hk Hu. injection H as <-. cbn [p_labels p_addr p_ops p_seg].
  apply dict_mem_lookup in E.
  split; [|split; [|split; [|repeat split]]].
  - intros k v H. cbn [p_labels p_seg] in *. destruct (String.eqb name k) eqn:Ek.
    + apply String.eqb_eq in Ek. subst k. destruct Hu; auto.
    + rewrite lookup_dict_set_other in H; [now apply Hk in H|]. intros ->. now rewrite String.eqb_refl in Ek.
  - now apply extends_dict_set_new.
  - apply lookup_dict_set_same.
Qed.

Lemma pre_step_spec st s st1 lf :
  pre_step ww st s = Ok st1 -> keys_inv st -> lexical_stmt s = true -> extends (p_labels st1) lf ->
  next_addr ww (lookup lf) s (p_addr st) = Some (p_addr st1)
  /\ keys_inv st1 /\ extends (p_labels st) (p_labels st1) /\ step_ops st st1 s
  /\ (p_seg st <= p_seg st1)%N
  /\ match s with SLabel name _ => lookup (p_labels st1) name = Some (p_addr st) | _ => True end.
Proof.
  intros H Hk Hlex Hext. pose proof wd_pos as Hw.
  destruct s as [f j ?|a v r ?|e ?|name ?|? ? ?|? ? ? ? ?|e ?|e ?]; cbn [pre_step] in H; try discriminate.
  - (* op *)
    destruct (eval_new _ f) as [f'|] eqn:Ef; [|discriminate].
    destruct (eval_new _ j) as [j'|] eqn:Ej; [|discriminate]. injection H as <-.
    cbn [p_addr p_labels p_ops p_seg step_ops next_addr]. repeat split; try assumption.
    + apply extends_refl.
    + exists f', j'. auto.
    + lia.
  - (* wflip *)
    destruct (eval_new _ a) as [a'|] eqn:Ea; [|discriminate].
    destruct (eval_new _ v) as [v'|] eqn:Ev; [|discriminate].
    destruct (eval_new _ r) as [r'|] eqn:Er; [|discriminate]. injection H as <-.
    cbn [p_addr p_labels p_ops p_seg step_ops next_addr]. repeat split; try assumption.
    + apply extends_refl.
    + exists a', v', r'. auto.
    + lia.
  - (* pad *)
    destruct (eval_new None e) as [e'|] eqn:Ee; [|discriminate].
    destruct (exact_eval (p_labels st) e') as [n|] eqn:En; [|discriminate].
    destruct (n <=? 0) eqn:Hn; [discriminate|]. apply Z.leb_gt in Hn.
    unfold align_current_address in H.
    destruct (negb (p_addr st mod dwd =? 0)) eqn:Ha; [discriminate|].
    apply negb_false_iff, Z.eqb_eq in Ha.
    destruct (_ >? _); [discriminate|]. injection H as <-.
    cbn [p_addr p_labels p_ops p_seg step_ops next_addr] in *.
    assert (Hev : eval_expr (lookup lf) e = Some n).
    { unfold exact_eval in En. rewrite (eval_new_correct None (p_labels st) e e' Ee) in En. cbn [env_of] in En.
      eapply eval_mono; eassumption. }
    rewrite Hev. assert ((0 <? n) = true) as -> by now apply Z.ltb_lt.
    change (dwz ww) with dwd. rewrite Ha, Z.eqb_refl. cbn [andb].
    rewrite round_up_pad by assumption. repeat split; try assumption.
    + apply extends_refl.
    + exists ((- p_addr st / dwd) mod n). repeat split. apply Z.mod_pos_bound. lia.
    + lia.
  - (* label *)
    cbn [lexical_stmt] in Hlex.
    destruct (insert_label_spec _ _ _ _ H Hk (or_introl Hlex)) as (K1 & K2 & K3 & K4 & K5 & K6).
    cbn [next_addr step_ops]. rewrite K4. repeat split; try assumption. rewrite K6. lia.
  - (* segment *)
    destruct (eval_new None e) as [e'|] eqn:Ee; [|discriminate].
    destruct (exact_eval (p_labels st) e') as [a|] eqn:En; [|discriminate].
    destruct (negb (a mod wd =? 0)) eqn:Ha; [discriminate|].
    apply negb_false_iff, Z.eqb_eq in Ha. injection H as <-.
    unfold insert_segment in *. cbn [p_addr p_labels p_ops p_seg step_ops next_addr] in *.
    assert (Hfresh : lookup (p_labels st) (wflip_start_label (p_seg st)) = None).
    { destruct (lookup (p_labels st) (wflip_start_label (p_seg st))) as [x|] eqn:El; [|reflexivity].
      apply Hk in El. destruct El as [Hu|[[i [Hi Hi']]|Hm]].
      - now apply user_name_not_start with (i := p_seg st) in Hu.
      - apply wflip_start_label_inj in Hi'. lia.
      - discriminate. }
    assert (Hev : eval_expr (lookup lf) e = Some a).
    { unfold exact_eval in En. rewrite (eval_new_correct None (p_labels st) e e' Ee) in En. cbn [env_of] in En.
      eapply eval_mono; [|exact En]. eapply extends_trans; [|exact Hext]. now apply extends_dict_set_new. }
    repeat split; try assumption.
    + intros k v H. cbn [p_seg p_labels] in *. destruct (String.eqb (wflip_start_label (p_seg st)) k) eqn:Ek.
      * apply String.eqb_eq in Ek. right; left. exists (p_seg st). split; [lia|now symmetry].
      * rewrite lookup_dict_set_other in H by (intros E; rewrite E, String.eqb_refl in Ek; discriminate).
        apply Hk in H. destruct H as [Hu|[[i [Hi Hi']]|Hm]]; auto.
        right; left. exists i. split; [lia|assumption].
    + now apply extends_dict_set_new.
    + lia.
  - (* reserve *)
    destruct (eval_new None e) as [e'|] eqn:Ee; [|discriminate].
    destruct (exact_eval (p_labels st) e') as [r|] eqn:En; [|discriminate].
    destruct (negb (r mod wd =? 0)) eqn:Ha; [discriminate|].
    apply negb_false_iff, Z.eqb_eq in Ha. injection H as <-.
    unfold insert_reserve in *. cbn [p_addr p_labels p_ops p_seg step_ops next_addr] in *.
    assert (Hev : eval_expr (lookup lf) e = Some r).
    { unfold exact_eval in En. rewrite (eval_new_correct None (p_labels st) e e' Ee) in En. cbn [env_of] in En.
      eapply eval_mono; eassumption. }
    rewrite Hev. repeat split; try assumption.
    + apply extends_refl.
    + replace (p_addr st + r - p_addr st) with r by ring. exact Ha.
    + lia.
Qed.

(* the address where the code of the current segment ends (= the start of its wflip area) *)
Fixpoint code_end (a : Z) (L : list placed) : Z :=
  match L with
  | [] => a
  | p :: L' => if is_segment p then pl_addr p else code_end (pl_next p) L'
  end.

(* the last-phase op list that corresponds to a placed statement list *)
Fixpoint ops_rel (L : list placed) (ops : list lastop) : Prop :=
  match L with
  | [] => ops = []
  | p :: L' =>
    match pl_stmt p with
    | SLabel _ _ => pl_next p = pl_addr p /\ ops_rel L' ops
    | SFlipJump f j _ =>
      exists f' j' r, eval_new (Some (pl_next p)) f = Some f' /\ eval_new (Some (pl_next p)) j = Some j'
                      /\ pl_next p = pl_addr p + dwd /\ ops = LFlipJump f' j' :: r /\ ops_rel L' r
    | SWordFlip a v r0 _ =>
      exists a' v' r' r, eval_new (Some (pl_next p)) a = Some a' /\ eval_new (Some (pl_next p)) v = Some v'
                         /\ eval_new (Some (pl_next p)) r0 = Some r'
                         /\ pl_next p = pl_addr p + dwd /\ ops = LWordFlip a' v' r' :: r /\ ops_rel L' r
    | SPad _ _ => exists k r, 0 <= k /\ pl_next p = pl_addr p + k * dwd /\ ops = LPadding k :: r /\ ops_rel L' r
    | SSegment _ _ =>
      exists r, pl_next p mod wd = 0 /\ ops = LNewSeg (pl_next p) (code_end (pl_next p) L') :: r /\ ops_rel L' r
    | SReserve _ _ =>
      exists r, (pl_next p - pl_addr p) mod wd = 0 /\ ops = LReserve (pl_next p) :: r /\ ops_rel L' r
    | _ => False
    end
  end.

Lemma last_cons {A} (x : A) l d : last (x :: l) d = last l x.
Proof.
  revert x d. induction l as [|y l IH]; intros x d; [reflexivity|].
  change (last (x :: y :: l) d) with (last (y :: l) d). rewrite (IH y d), (IH y x). reflexivity.
Qed.

Lemma patch_patch l x y : patch_wflip (patch_wflip l x) y = patch_wflip l y.
Proof.
  induction l as [|o l IH]; [reflexivity|].
  destruct o; cbn [patch_wflip]; try (now rewrite IH). reflexivity.
Qed.

Definition label_ok (l : labels) (p : placed) : Prop :=
  match pl_stmt p with SLabel n _ => lookup l n = Some (pl_addr p) | _ => True end.

Lemma label_ok_mono l l' p : extends l l' -> label_ok l p -> label_ok l' p.
Proof. unfold label_ok. intros H. destruct (pl_stmt p); auto. Qed.

Lemma pre_loop_spec P : forall st st' lf,
  pre_loop ww st P = Ok st' -> keys_inv st -> lexical_labels P = true -> extends (p_labels st') lf ->
  exists L new,
    place ww (lookup lf) P (p_addr st) = Some L
    /\ ops_rel L new
    /\ patch_wflip (p_ops st') (p_addr st') = rev new ++ patch_wflip (p_ops st) (code_end (p_addr st) L)
    /\ keys_inv st' /\ extends (p_labels st) (p_labels st')
    /\ p_addr st' = last (map pl_next L) (p_addr st)
    /\ Forall (label_ok (p_labels st')) L.
Proof.
  induction P as [|s P IH]; intros st st' lf H Hk Hlex Hext.
  - cbn in H. injection H as <-. exists [], []. cbn. repeat split; auto using extends_refl.
  - cbn [pre_loop bind] in H. destruct (pre_step ww st s) as [st1| |] eqn:Es; try discriminate.
    cbn [lexical_labels forallb] in Hlex. apply andb_true_iff in Hlex. destruct Hlex as [Hl1 Hl2].
    destruct (IH st1 st' lf H) as (L1 & new1 & Hpl & Hrel & Hpatch & Hk' & Hext1 & Haddr & Hlab); clear IH.
    + assert (X : extends (p_labels st1) (p_labels st1)) by apply extends_refl.
      now destruct (pre_step_spec st s st1 _ Es Hk Hl1 X) as (_ & K & _).
    + exact Hl2.
    + exact Hext.
    + assert (Hext' : extends (p_labels st1) lf) by (eapply extends_trans; eassumption).
      destruct (pre_step_spec st s st1 lf Es Hk Hl1 Hext') as (Hn & _ & Hext0 & Hops & _ & Hlbl).
      set (p := mkpl s (p_addr st) (p_addr st1)).
      assert (Hplace : place ww (lookup lf) (s :: P) (p_addr st) = Some (p :: L1)).
      { cbn [place]. rewrite Hn, Hpl. reflexivity. }
      assert (Hlast : p_addr st' = last (map pl_next (p :: L1)) (p_addr st)).
      { rewrite Haddr. cbn [map]. rewrite last_cons. reflexivity. }
      assert (Hlabs : Forall (label_ok (p_labels st')) (p :: L1)).
      { constructor; [|exact Hlab]. unfold label_ok, p. cbn [pl_stmt pl_addr].
        destruct s; auto; now apply Hext1. }
      assert (Hx : extends (p_labels st) (p_labels st')) by (eapply extends_trans; eassumption).
      destruct s as [f j ?|a v r ?|e ?|name ?|? ? ?|? ? ? ? ?|e ?|e ?]; cbn [step_ops] in Hops; try contradiction.
      * destruct Hops as (f' & j' & E1 & E2 & E3).
        exists (p :: L1), (LFlipJump f' j' :: new1). repeat split; try assumption.
        -- cbn [ops_rel pl_stmt p pl_next pl_addr]. exists f', j', new1. repeat split; try assumption.
           cbn [next_addr] in Hn. injection Hn as Hn. now rewrite <- Hn.
        -- rewrite Hpatch, E3. cbn [patch_wflip code_end is_segment pl_stmt p pl_next rev]. now rewrite <- app_assoc.
      * destruct Hops as (a' & v' & r' & E1 & E2 & E3 & E4).
        exists (p :: L1), (LWordFlip a' v' r' :: new1). repeat split; try assumption.
        -- cbn [ops_rel pl_stmt p pl_next pl_addr]. exists a', v', r', new1. repeat split; try assumption.
           cbn [next_addr] in Hn. injection Hn as Hn. now rewrite <- Hn.
        -- rewrite Hpatch, E4. cbn [patch_wflip code_end is_segment pl_stmt p pl_next rev]. now rewrite <- app_assoc.
      * destruct Hops as (k & K1 & K2 & K3).
        exists (p :: L1), (LPadding k :: new1). repeat split; try assumption.
        -- cbn [ops_rel pl_stmt p pl_next pl_addr]. exists k, new1. repeat split; assumption.
        -- rewrite Hpatch, K3. cbn [patch_wflip code_end is_segment pl_stmt p pl_next rev]. now rewrite <- app_assoc.
      * cbn [next_addr] in Hn. injection Hn as Hn.
        exists (p :: L1), new1.
        split; [assumption|]. split; [|split; [|repeat split; assumption]].
        -- cbn [ops_rel pl_stmt p pl_next pl_addr]. split; [now rewrite Hn|assumption].
        -- rewrite Hpatch, Hops. cbn [code_end is_segment pl_stmt p pl_next]. reflexivity.
      * destruct Hops as (K1 & K2).
        exists (p :: L1), (LNewSeg (p_addr st1) (code_end (p_addr st1) L1) :: new1). repeat split; try assumption.
        -- cbn [ops_rel pl_stmt p pl_next pl_addr]. exists new1. repeat split; assumption.
        -- rewrite Hpatch, K2. cbn [patch_wflip code_end is_segment pl_stmt p pl_addr rev]. now rewrite <- app_assoc.
      * destruct Hops as (K1 & K2).
        exists (p :: L1), (LReserve (p_addr st1) :: new1). repeat split; try assumption.
        -- cbn [ops_rel pl_stmt p pl_next pl_addr]. exists new1. repeat split; assumption.
        -- rewrite Hpatch, K2. cbn [patch_wflip code_end is_segment pl_stmt p pl_next rev]. now rewrite <- app_assoc.
Qed.

Lemma keys_not_wflip st : keys_inv st -> forall k v i, lookup (p_labels st) k = Some v -> k <> wflip_label i.
Proof.
  intros Hk k v i H. apply Hk in H. destruct H as [Hu | [[j [_ E]] | E]]; try subst k.
  - now apply user_name_not_wflip.
  - unfold wflip_start_label, wflip_label. cbn. discriminate.
  - unfold main_start_label, wflip_label. cbn. discriminate.
Qed.

Lemma resolve_macros_spec P ops l0 lf :
  resolve_macros ww P = Ok (ops, l0) -> lexical_labels P = true -> extends l0 lf ->
  exists L r,
    place ww (lookup lf) P 0 = Some L
    /\ ops = LNewSeg 0 (code_end 0 L) :: r /\ ops_rel L r
    /\ Forall (label_ok l0) L
    /\ (forall k v i, lookup l0 k = Some v -> k <> wflip_label i).
Proof.
  unfold resolve_macros. intros H Hlex Hext.
  destruct (pre_loop ww pre_init P) as [st| |] eqn:El; cbn [bind] in H; try discriminate.
  destruct (pre_finish st) as [st'| |] eqn:Ef; cbn [bind] in H; try discriminate.
  injection H as <- <-.
  assert (Hk0 : keys_inv pre_init) by (intros k v H; discriminate).
  assert (Hfin : keys_inv st' /\ extends (p_labels st) (p_labels st')
                 /\ p_ops st' = patch_wflip (p_ops st) (p_addr st)).
  { assert (X : extends (p_labels st) (p_labels st)) by apply extends_refl.
    destruct (pre_loop_spec P pre_init st _ El Hk0 Hlex X) as (_ & _ & _ & _ & _ & Hk & _).
    unfold pre_finish in Ef. cbn [p_used p_addr p_labels p_ops p_seg] in Ef.
    destruct (existsb (Z.eqb 0) (p_used st)).
    - injection Ef as <-. cbn. auto using extends_refl.
    - apply insert_label_spec in Ef; [|exact Hk|now right].
      destruct Ef as (K1 & K2 & _ & _ & K5 & _). cbn in K2, K5. auto. }
  destruct Hfin as (Hk' & Hext' & Hops').
  assert (Hx : extends (p_labels st) lf) by (eapply extends_trans; eassumption).
  destruct (pre_loop_spec P pre_init st lf El Hk0 Hlex Hx) as (L & new & Hpl & Hrel & Hpatch & _ & _ & _ & Hlab).
  exists L, new. repeat split.
  - exact Hpl.
  - rewrite Hops', Hpatch. cbn [pre_init p_ops p_addr patch_wflip]. rewrite rev_app_distr, rev_involutive. reflexivity.
  - exact Hrel.
  - eapply Forall_impl; [|exact Hlab]. intros p. now apply label_ok_mono.
  - intros k v i. now apply keys_not_wflip.
Qed.

End Pre.

(* ================= the writer: emitted words are final ================= *)
Section Writer.
Variable ww : N.
Variable ver : N.
Notation wd := (wd ww).
Notation dwd := (dwd ww).
Notation M := (2 ^ wd).
Notation rel := (relative_versions ver).

Definition seg := (Z * Z * Z * Z)%type.

(* what the reader returns for a raw value v submitted for word address a *)
Definition norm (a v : Z) : Z := if rel && Z.odd a then v mod M else v.

(* the word the reader reconstructs at offset i of a segment *)
Definition rb (wr : wstate) (sg : seg) (i : Z) : Z :=
  match sg with
  | (s, _, ds, _) =>
    let x := nth (Z.to_nat (ds + i)) (w_data wr) 0 in
    if rel && Z.odd i then (x + (s + i) * wd) mod M else x
  end.

Definition emitted (wr : wstate) (a v : Z) : Prop :=
  exists s l ds dl i, In (s, l, ds, dl) (w_segs wr) /\ 0 <= i < dl /\ a = s + i /\ rb wr (s, l, ds, dl) i = norm a v.

Definition seg_ok' (n : Z) (sg : seg) : Prop :=
  match sg with
  | (s, l, ds, dl) => 0 <= s /\ Z.even s = true /\ Z.even l = true /\ 0 < l /\ (s + l) * wd <= M
                      /\ 0 <= ds /\ 0 <= dl <= l /\ ds + dl <= n
  end.
Definition seg_disj (a b : seg) : Prop :=
  match a, b with (s1, l1, _, _), (s2, l2, _, _) => s1 + l1 <= s2 \/ s2 + l2 <= s1 end.
Fixpoint pairwise (l : list seg) : Prop :=
  match l with [] => True | x :: r => Forall (seg_disj x) r /\ pairwise r end.

Definition wr_inv (wr : wstate) : Prop :=
  Forall (seg_ok' (Z.of_nat (List.length (w_data wr)))) (w_segs wr) /\ pairwise (w_segs wr).

Lemma pairwise_app l x : pairwise (l ++ [x]) <-> pairwise l /\ Forall (fun y => seg_disj y x) l.
Proof.
  induction l as [|y l IH]; cbn [app pairwise].
  - split; intros; repeat split; auto.
  - rewrite IH, Forall_app. split.
    + intros [[H1 H2] [H3 H4]]. inversion H2; subst. repeat split; auto.
    + intros [[H1 H2] H3]. inversion H3; subst. repeat split; auto.
Qed.

Lemma relativize_length l k ds dl s : List.length (relativize ww l k ds dl s) = List.length l.
Proof. revert k. induction l as [|x l IH]; intros k; cbn; [reflexivity|]. now rewrite IH. Qed.

Lemma nth_relativize l : forall k n ds dl s, (n < List.length l)%nat ->
  nth n (relativize ww l k ds dl s) 0 =
  (let i := k + Z.of_nat n - ds in
   if (0 <=? i) && (i <? dl) && Z.odd i then (nth n l 0 - (s + i) * wd) mod M else nth n l 0).
Proof.
  induction l as [|x l IH]; intros k n ds dl s Hn; [cbn in Hn; lia|].
  destruct n as [|n]; cbn [relativize nth].
  - replace (k + Z.of_nat 0 - ds) with (k - ds) by lia. reflexivity.
  - rewrite IH by (cbn in Hn; lia). replace (k + 1 + Z.of_nat n - ds) with (k + Z.of_nat (S n) - ds) by lia. reflexivity.
Qed.

Lemma is_collision_false s1 e1 s2 e2 :
  s1 <= e1 -> s2 <= e2 -> is_collision s1 e1 s2 e2 = false -> e1 < s2 \/ e2 < s1.
Proof. unfold is_collision. intros H1 H2 H. lia. Qed.

Lemma mod_add_back x k : 0 < M -> ((x - k) mod M + k) mod M = x mod M.
Proof. intros HM. rewrite Zplus_mod_idemp_l. f_equal. ring. Qed.

Lemma M_pos : 0 < M.
Proof. apply Z.pow_pos_nonneg; [lia|]. pose proof (wz_pos ww). unfold Layout.wd. lia. Qed.

Lemma add_segment_inv wr first last fj wf wr' b :
  add_segment_to_fjm ww ver wr first last fj wf = Ok (wr', b) -> wr_inv wr -> wr_inv wr'.
Proof.
  unfold add_segment_to_fjm. pose proof (wz_pos ww) as Hw. pose proof M_pos as HM.
  change (wz ww) with wd in Hw.
  destruct (validate_addresses ww first last) as [k|] eqn:Ev; [discriminate|].
  unfold validate_addresses, in_memory in Ev.
  destruct (first mod wd =? 0) eqn:E1; cbn [negb orb] in Ev; [|discriminate].
  destruct (last mod wd =? 0) eqn:E2; cbn [negb orb] in Ev; [|discriminate].
  destruct ((0 <=? first) && (first <? M)) eqn:E3; cbn [negb] in Ev; [|discriminate].
  destruct ((0 <=? last - 1) && (last - 1 <? M)) eqn:E4; cbn [negb] in Ev; [|discriminate].
  apply Z.eqb_eq in E1, E2. apply andb_true_iff in E3, E4. destruct E3 as [E3 E3'], E4 as [E4 E4'].
  apply Z.leb_le in E3, E4. apply Z.ltb_lt in E3', E4'.
  intros H [Hok Hpw].
  destruct (first =? last) eqn:Efl.
  - injection H as <- <-. now split.
  - apply Z.eqb_neq in Efl.
    set (data := fj ++ wf) in *.
    set (ds := Z.of_nat (List.length (w_data wr))) in *.
    set (dl := Z.of_nat (List.length data)) in *.
    set (s := first / wd) in *. set (l := (last - first) / wd) in *.
    unfold writer_add_segment in H. cbn [w_segs w_data] in H.
    destruct (l <=? 0) eqn:L1; [discriminate|]. apply Z.leb_gt in L1.
    destruct (l <? dl) eqn:L2; [discriminate|]. apply Z.ltb_ge in L2.
    destruct ((s mod 2 =? 1) || (l mod 2 =? 1)) eqn:L3; [discriminate|].
    apply orb_false_iff in L3. destruct L3 as [L3 L3']. apply Z.eqb_neq in L3, L3'.
    destruct (existsb _ (w_segs wr)) eqn:L4; [discriminate|].
    match type of H with context [if ?c then None else Some _] => destruct c eqn:L5; [discriminate|] end.
    injection H as <- <-. cbn [w_segs w_data].
    assert (Hs : first = s * wd) by (unfold s; apply Z.mod_divide in E1; [destruct E1 as [q ->]; now rewrite Z.div_mul by lia|lia]).
    assert (Hl : last - first = l * wd).
    { unfold l. assert ((last - first) mod wd = 0) by (rewrite Zminus_mod, E1, E2; reflexivity).
      apply Z.mod_divide in H; [destruct H as [q ->]; now rewrite Z.div_mul by lia|lia]. }
    assert (Hse : Z.even s = true) by (pose proof (Zmod_even s) as X; pose proof (Z.mod_pos_bound s 2); destruct (Z.even s); [reflexivity|lia]).
    assert (Hle : Z.even l = true) by (pose proof (Zmod_even l) as X; pose proof (Z.mod_pos_bound l 2); destruct (Z.even l); [reflexivity|lia]).
    assert (Hs0 : 0 <= s) by nia.
    set (data' := if rel then relativize ww (w_data wr ++ data) 0 ds dl s else w_data wr ++ data).
    assert (Hlen' : Z.of_nat (List.length data') = ds + dl).
    { unfold data'. destruct rel; [rewrite relativize_length|]; rewrite app_length; unfold ds, dl; lia. }
    split; cbn [w_segs w_data].
    + apply Forall_app. split.
      * eapply Forall_impl; [|exact Hok]. intros [[[s0 l0] ds0] dl0]. cbn. fold data'. rewrite Hlen'. fold ds.
        intros; repeat split; try tauto; lia.
      * constructor; [|constructor]. cbn. fold data'. rewrite Hlen'. repeat split; auto; try lia; try nia.
    + apply pairwise_app. split; [exact Hpw|].
      apply Forall_forall. intros [[[s0 l0] ds0] dl0] Hin.
      rewrite Forall_forall in Hok. pose proof (Hok _ Hin) as O. cbn in O.
      assert (C : is_collision s0 (s0 + l0 - 1) s (s + l - 1) = false).
      { destruct (is_collision s0 (s0 + l0 - 1) s (s + l - 1)) eqn:C; [|reflexivity].
        rewrite <- L4. symmetry. apply existsb_exists. exists (s0, l0, ds0, dl0). split; [exact Hin|exact C]. }
      apply is_collision_false in C; cbn; lia.
Qed.

End Writer.

(* ================= the last phase: label table and writer invariants ================= *)
Section Last.
Variable ww : N.
Variable ver : N.
Variable strict : bool.

(* names `:wflips:i` with i >= wflips_so_far are unused *)
Definition linv (st : bstate) : Prop :=
  forall i, (b_wcount st <= i)%N -> lookup (b_labels st) (wflip_label i) = None.
Definition good (st : bstate) : Prop := wr_inv ww (b_wr st) /\ linv st.

Lemma set_ref_frame st r v :
  b_labels (set_ref st r v) = b_labels st /\ b_wcount (set_ref st r v) = b_wcount st /\ b_wr (set_ref st r v) = b_wr st.
Proof. unfold set_ref. destruct (fst r); cbn; auto. Qed.

Lemma spot_frame st :
  b_labels (fst (get_wflip_spot ww st)) = b_labels st /\ b_wcount (fst (get_wflip_spot ww st)) = b_wcount st
  /\ b_wr (fst (get_wflip_spot ww st)) = b_wr st.
Proof. unfold get_wflip_spot. destruct (b_pads st); cbn; auto. Qed.

Lemma insert_wflip_label_good st a :
  good st -> good (insert_wflip_label st a) /\ extends (b_labels st) (b_labels (insert_wflip_label st a)).
Proof.
  intros [Hw Hl]. unfold insert_wflip_label, good, linv. cbn [b_labels b_wcount b_wr].
  assert (Hf : lookup (b_labels st) (wflip_label (b_wcount st)) = None) by (apply Hl; lia).
  split; [split; [exact Hw|]|].
  - intros i Hi. rewrite lookup_dict_set_other; [apply Hl; lia|].
    intros E. apply wflip_label_inj in E. lia.
  - now apply extends_dict_set_new.
Qed.

Lemma wflip_loop_good rest : forall st ret last,
  good st -> good (wflip_loop ww st ret rest last) /\ extends (b_labels st) (b_labels (wflip_loop ww st ret rest last)).
Proof.
  induction rest as [|x rest IH]; intros st ret last Hg; cbn [wflip_loop].
  - destruct (set_ref_frame st last ret) as (E1 & E2 & E3). unfold good, linv. rewrite E1, E2, E3.
    split; [exact Hg|apply extends_refl].
  - destruct (dict_find (b_dict st) ret (x :: rest)) as [e|].
    + destruct (set_ref_frame st last e) as (E1 & E2 & E3). unfold good, linv. rewrite E1, E2, E3.
      split; [exact Hg|apply extends_refl].
    + destruct (get_wflip_spot ww st) as [st1 [[wl idx] addr]] eqn:Es.
      pose proof (spot_frame st) as F. rewrite Es in F. cbn [fst] in F. destruct F as (F1 & F2 & F3).
      assert (G1 : good st1) by (unfold good, linv; rewrite F1, F2, F3; exact Hg).
      destruct (insert_wflip_label_good st1 addr G1) as [G2 X2].
      set (st2 := insert_wflip_label st1 addr) in *.
      set (st3 := set_ref st2 last addr).
      destruct (set_ref_frame st2 last addr) as (A1 & A2 & A3). fold st3 in A1, A2, A3.
      set (st4 := dict_add st3 ret (x :: rest) addr).
      assert (B : b_labels st4 = b_labels st3 /\ b_wcount st4 = b_wcount st3 /\ b_wr st4 = b_wr st3) by (cbn; auto).
      destruct B as (B1 & B2 & B3).
      set (st5 := set_ref st4 (wl, idx) x).
      destruct (set_ref_frame st4 (wl, idx) x) as (C1 & C2 & C3). fold st5 in C1, C2, C3.
      assert (G5 : good st5).
      { unfold good, linv. rewrite C1, C2, C3, B1, B2, B3, A1, A2, A3. exact G2. }
      destruct (IH st5 ret (wl, S idx) G5) as [G6 X6]. split; [exact G6|].
      eapply extends_trans; [|exact X6]. rewrite C1, B1, A1, <- F1. exact X2.
Qed.

Lemma close_good st st1 : close_and_add_segment ww ver st = Ok st1 -> good st -> good st1 /\ b_labels st1 = b_labels st.
Proof.
  unfold close_and_add_segment. destruct (b_nextw st =? b_first st).
  - intros H Hg. injection H as <-. split; [exact Hg|reflexivity].
  - destruct (add_segment_to_fjm ww ver (b_wr st) (b_first st) (b_nextw st) (b_fj st) (b_wf st)) as [[wr c]| |] eqn:E;
      cbn [bind]; try discriminate.
    intros H [Hw Hl]. injection H as <-. unfold good, linv. cbn [b_wr b_labels b_wcount].
    split; [split; [eapply add_segment_inv; eassumption|exact Hl]|reflexivity].
Qed.

Lemma resolve_step_good st op st1 :
  resolve_step ww ver strict st op = Ok st1 -> good st -> good st1 /\ extends (b_labels st) (b_labels st1).
Proof.
  intros H Hg. destruct op as [f j|a v r|n|s wsa|a]; cbn [resolve_step] in H.
  - destruct (exact_eval (b_labels st) f) as [vf|]; [|discriminate].
    destruct (exact_eval (b_labels st) j) as [vj|]; [|discriminate].
    destruct (strict && _); [discriminate|]. injection H as <-. split; [exact Hg|apply extends_refl].
  - destruct (exact_eval (b_labels st) a) as [A|]; [|discriminate].
    destruct (exact_eval (b_labels st) v) as [V|]; [|discriminate].
    destruct (exact_eval (b_labels st) r) as [R|]; [|discriminate].
    destruct (strict && _); [discriminate|].
    unfold insert_wflip_ops in H. destruct (V =? 0).
    + injection H as <-. split; [exact Hg|apply extends_refl].
    + destruct (negb (in_memory ww V)); [discriminate|].
      destruct (map _ _) as [|x rest]; injection H as <-; [split; [exact Hg|apply extends_refl]|].
      match goal with |- good (wflip_loop ww ?s0 ?r0 ?re ?la) /\ _ =>
        destruct (wflip_loop_good re s0 r0 la) as [G X]; [exact Hg|split; [exact G|exact X]] end.
  - injection H as <-. split; [exact Hg|apply extends_refl].
  - unfold insert_new_segment in H.
    destruct (close_and_add_segment ww ver st) as [st'| |] eqn:E; cbn [bind] in H; try discriminate.
    injection H as <-. destruct (close_good _ _ E Hg) as [[G1 G2] G3].
    unfold good, linv in *. cbn [b_wr b_labels b_wcount]. rewrite G3 in *.
    split; [split; [exact G1|exact G2]|apply extends_refl].
  - unfold insert_reserve_bits in H.
    destruct (add_segment_to_fjm ww ver (b_wr st) (b_first st) a (b_fj st) []) as [[wr c]| |] eqn:E;
      cbn [bind] in H; try discriminate.
    injection H as <-. destruct Hg as [Hw Hl]. unfold good, linv in *. cbn [b_wr b_labels b_wcount].
    split; [split; [eapply add_segment_inv; eassumption|exact Hl]|apply extends_refl].
Qed.

Lemma resolve_loop_good ops : forall st st',
  resolve_loop ww ver strict st ops = Ok st' -> good st -> good st' /\ extends (b_labels st) (b_labels st').
Proof.
  induction ops as [|op ops IH]; intros st st' H Hg; cbn [resolve_loop] in H.
  - injection H as <-. split; [exact Hg|apply extends_refl].
  - destruct (resolve_step ww ver strict st op) as [st1| |] eqn:E; cbn [bind] in H; try discriminate.
    destruct (resolve_step_good _ _ _ E Hg) as [G1 X1]. destruct (IH _ _ H G1) as [G2 X2].
    split; [exact G2|]. eapply extends_trans; eassumption.
Qed.

End Last.

(* ================= theorems about assemble_model ================= *)

(* the address and label clauses of Denotes: the statement addresses computed from the statement sequence with the
   FINAL label table are defined, and every label's saved value is the address of the statement that follows it *)
Theorem assemble_labels_sound ww ver strict P segs words lbls :
  assemble_model ww ver strict P = Ok (segs, words, lbls) ->
  lexical_labels P = true ->
  exists L, place ww (lookup lbls) P 0 = Some L /\ Forall (label_ok lbls) L.
Proof.
  unfold assemble_model. intros H Hlex.
  destruct (resolve_macros ww P) as [[ops l0]| |] eqn:Er; cbn [bind] in H; try discriminate.
  destruct (labels_resolve ww ver strict ops l0) as [st| |] eqn:El; cbn [bind] in H; try discriminate.
  destruct (negb (first_op_assembled (b_wr st))); [discriminate|].
  destruct (negb (packable ww (b_wr st))); [discriminate|].
  injection H as <- <- <-.
  destruct (resolve_macros_spec ww P ops l0 l0 Er Hlex (extends_refl l0)) as (L0 & r0 & _ & Hops & _ & _ & Hkeys).
  subst ops. unfold labels_resolve in El.
  destruct (resolve_loop ww ver strict _ r0) as [st1| |] eqn:Eloop; cbn [bind] in El; try discriminate.
  assert (G0 : good ww (mkb 0 (code_end 0 L0) 0 [] [] [] [] l0 0%N (mkw [] []))).
  { split; [split; constructor|]. intros i _. cbn [b_labels].
    destruct (lookup l0 (wflip_label i)) as [v|] eqn:E; [|reflexivity]. now elim (Hkeys _ _ i E). }
  destruct (resolve_loop_good _ _ _ _ _ _ Eloop G0) as [G1 X1]. cbn [b_labels] in X1.
  destruct (close_good _ _ _ _ El G1) as [_ E2].
  assert (Hext : extends l0 (b_labels st)) by (rewrite E2; exact X1).
  destruct (resolve_macros_spec ww P _ l0 (b_labels st) Er Hlex Hext) as (L & r & Hpl & _ & _ & Hlab & _).
  exists L. split; [exact Hpl|].
  eapply Forall_impl; [|exact Hlab]. intros p. now apply label_ok_mono.
Qed.

(* the writer invariant of the final state: what was emitted is a set of well-formed, pairwise disjoint segments *)
Theorem assemble_segments_sound ww ver strict P segs words lbls :
  assemble_model ww ver strict P = Ok (segs, words, lbls) ->
  exists wr, wr_inv ww wr /\ segs = read_segments wr /\ words = read_words ww ver wr.
Proof.
  unfold assemble_model. intros H.
  destruct (resolve_macros ww P) as [[ops l0]| |] eqn:Er; cbn [bind] in H; try discriminate.
  destruct (labels_resolve ww ver strict ops l0) as [st| |] eqn:El; cbn [bind] in H; try discriminate.
  destruct (negb (first_op_assembled (b_wr st))); [discriminate|].
  destruct (negb (packable ww (b_wr st))); [discriminate|].
  injection H as <- <- <-. exists (b_wr st). split; [|split; reflexivity].
  unfold labels_resolve in El. destruct ops as [|[| | |s wsa|] ops']; try discriminate.
  destruct (resolve_loop ww ver strict _ ops') as [st1| |] eqn:Eloop; cbn [bind] in El; try discriminate.
  (* the label part of `good` is irrelevant here: use the trivial weakening *)
  assert (W : forall ops st st', resolve_loop ww ver strict st ops = Ok st' -> wr_inv ww (b_wr st) -> wr_inv ww (b_wr st')).
  { clear. induction ops as [|op ops IH]; intros st st' H Hw; cbn [resolve_loop] in H.
    - now injection H as <-.
    - destruct (resolve_step ww ver strict st op) as [st1| |] eqn:E; cbn [bind] in H; try discriminate.
      apply (IH _ _ H). clear IH H.
      destruct op as [f j|a v r|n|s wsa|a]; cbn [resolve_step] in E.
      + destruct (exact_eval (b_labels st) f); [|discriminate]. destruct (exact_eval (b_labels st) j); [|discriminate].
        destruct (strict && _); [discriminate|]. now injection E as <-.
      + destruct (exact_eval (b_labels st) a) as [A|]; [|discriminate].
        destruct (exact_eval (b_labels st) v) as [V|]; [|discriminate].
        destruct (exact_eval (b_labels st) r) as [R|]; [|discriminate].
        destruct (strict && _); [discriminate|].
        unfold insert_wflip_ops in E. destruct (V =? 0); [now injection E as <-|].
        destruct (negb (in_memory ww V)); [discriminate|].
        destruct (map _ _) as [|x rest]; injection E as <-; [exact Hw|].
        assert (F : forall rest st ret last, b_wr (wflip_loop ww st ret rest last) = b_wr st).
        { clear. induction rest as [|x rest IH]; intros st ret last; cbn [wflip_loop].
          - now destruct (set_ref_frame st last ret) as (_ & _ & ->).
          - destruct (dict_find (b_dict st) ret (x :: rest)) as [e|].
            + now destruct (set_ref_frame st last e) as (_ & _ & ->).
            + destruct (get_wflip_spot ww st) as [st1 [[wl idx] addr]] eqn:Es.
              pose proof (spot_frame ww st) as F. rewrite Es in F. cbn [fst] in F. destruct F as (_ & _ & F3).
              rewrite IH. destruct (set_ref_frame (dict_add (set_ref (insert_wflip_label st1 addr) last addr) ret (x :: rest) addr) (wl, idx) x) as (_ & _ & ->).
              cbn [dict_add b_wr]. destruct (set_ref_frame (insert_wflip_label st1 addr) last addr) as (_ & _ & ->).
              cbn [insert_wflip_label b_wr]. exact F3. }
        rewrite F. exact Hw.
      + now injection E as <-.
      + unfold insert_new_segment in E.
        destruct (close_and_add_segment ww ver st) as [stc| |] eqn:Ec; cbn [bind] in E; try discriminate.
        injection E as <-. cbn [b_wr].
        unfold close_and_add_segment in Ec. destruct (b_nextw st =? b_first st); [now injection Ec as <-|].
        destruct (add_segment_to_fjm ww ver (b_wr st) (b_first st) (b_nextw st) (b_fj st) (b_wf st)) as [[wr c]| |] eqn:Ea;
          cbn [bind] in Ec; try discriminate.
        injection Ec as <-. cbn [b_wr]. eapply add_segment_inv; eassumption.
      + unfold insert_reserve_bits in E.
        destruct (add_segment_to_fjm ww ver (b_wr st) (b_first st) a (b_fj st) []) as [[wr c]| |] eqn:Ea;
          cbn [bind] in E; try discriminate.
        injection E as <-. cbn [b_wr]. eapply add_segment_inv; eassumption. }
  assert (W1 : wr_inv ww (b_wr st1)) by (apply (W _ _ _ Eloop); split; constructor).
  unfold close_and_add_segment in El. destruct (b_nextw st1 =? b_first st1); [now injection El as <-|].
  destruct (add_segment_to_fjm ww ver (b_wr st1) (b_first st1) (b_nextw st1) (b_fj st1) (b_wf st1)) as [[wr c]| |] eqn:Ea;
    cbn [bind] in El; try discriminate.
  injection El as <-. cbn [b_wr]. eapply add_segment_inv; eassumption.
Qed.

(* ================= the full statements (not yet proved in full: see Properties/C02.v) ================= *)

(* guards = the recorded defects of the tree: F17 (lexical_labels), F16 (aux_on_io), F18 (reserves_nonneg); the last
   conjunct is about the code BEFORE the fix of F8 only (strict = false): it is true whenever strict = true *)
Definition C02_guards (ww ver : N) (strict : bool) (P : list stmt) (lbls : labels) : bool :=
  lexical_labels P && negb (aux_on_io ww lbls) && reserves_nonneg ww P lbls
  && ((ver <? 2)%N || strict || values_in_range ww P lbls).

Definition C02_sound_statement : Prop :=
  forall ww ver strict P segs words lbls,
    assemble_model ww ver strict P = Ok (segs, words, lbls) ->
    C02_guards ww ver strict P lbls = true ->
    Denotes ww (image_of segs words) P lbls.

(* a program that denotes no image at all (overlap, misaligned or out-of-range addresses, pad on a non-op-aligned
   address, ...) is rejected *)
Definition C02_rejects_statement : Prop :=
  forall ww ver strict P,
    (forall img lbls, ~ Denotes ww img P lbls) ->
    forall segs words lbls, assemble_model ww ver strict P = Ok (segs, words, lbls) ->
                            C02_guards ww ver strict P lbls = false.

(* the second follows from the first *)
Lemma C02_rejects_from_sound : C02_sound_statement -> C02_rejects_statement.
Proof.
  intros Hs ww ver strict P Himp segs words lbls H.
  destruct (C02_guards ww ver strict P lbls) eqn:G; [|reflexivity].
  elim (Himp _ _ (Hs _ _ _ _ _ _ _ H G)).
Qed.
