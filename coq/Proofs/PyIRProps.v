(* Generic facts about the interpreter of Model/PyIR.v, used by the source ties (Tie/EngPy_tie.v, Tie/Devices_tie.v,
   Tie/Loader_tie.v): unfolding of one call, of a sequence, the first-hit form of the zeros_boundaries scan. *)
From FJ Require Import Lib.Base Model.PyIR.
Local Open Scope N_scope.

Lemma for_pairs_first_hit (I : env -> Prop) step wd (test : N * N -> bool) v wd_hit :
  (forall en p, I en -> exists en', I en' /\
     step p en wd = if test p then SOk (CReturn v) en' wd_hit else SOk CNormal en' wd) ->
  forall l en, I en -> exists en', I en' /\
     for_pairs step l en wd = if existsb test l then SOk (CReturn v) en' wd_hit else SOk CNormal en' wd.
Proof.
  intros Hstep. induction l as [|p l IH]; intros en Hen; cbn [for_pairs existsb].
  - exists en. auto.
  - destruct (Hstep en p Hen) as (en1 & H1 & ->). destruct (test p); cbn [orb].
    + exists en1. auto.
    + apply IH. exact H1.
Qed.

Lemma call_at_S cfg prog d f args w :
  call_at cfg prog (S d) f args w =
  match prim f args w with
  | Some r => r
  | None =>
    match prog f with
    | None => EUnsup
    | Some (params, body) =>
      match bind_params params args [] with
      | None => EUnsup
      | Some en =>
        match exec cfg (call_at cfg prog d) body en w with
        | SOk CNormal _ w1 => EOk VNone w1
        | SOk (CReturn v) _ w1 => EOk v w1
        | SOk (CRaise x) _ w1 => EExn x w1
        | SUnsup => EUnsup
        end
      end
    end
  end.
Proof. reflexivity. Qed.

Lemma exec_seq cfg call a b en w :
  exec cfg call (SSeq a b) en w =
  match exec cfg call a en w with SOk CNormal en1 w1 => exec cfg call b en1 w1 | other => other end.
Proof. reflexivity. Qed.

(* both branches of a test end normally in the same environment and differ only in the output: one state *)
Lemma merge_out_s (c : bool) en m i o1 o2 h k d :
  (if c then SOk CNormal en (mkworld m i o1 h k d) else SOk CNormal en (mkworld m i o2 h k d)) =
  SOk CNormal en (mkworld m i (if c then o1 else o2) h k d).
Proof. now destruct c. Qed.
Lemma merge_out_e (c : bool) v m i o1 o2 h k d :
  (if c then EOk v (mkworld m i o1 h k d) else EOk v (mkworld m i o2 h k d)) =
  EOk v (mkworld m i (if c then o1 else o2) h k d).
Proof. now destruct c. Qed.

(* environments that agree with en0 except on the two loop variables *)
Definition agree_off (x y : ident) (en0 en : env) : Prop :=
  forall z, z <> x -> z <> y -> lookup en z = lookup en0 z.

Lemma agree_off_refl x y en0 : agree_off x y en0 en0.
Proof. intros z _ _. reflexivity. Qed.

Lemma agree_off_bind x y en0 en a b : agree_off x y en0 en -> agree_off x y en0 (bind (bind en x a) y b).
Proof.
  intros H z Hx Hy. cbn [lookup bind].
  destruct (Pos.eqb_spec z y); [contradiction|]. destruct (Pos.eqb_spec z x); [contradiction|]. now apply H.
Qed.

