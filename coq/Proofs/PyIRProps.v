(* Generic facts about the interpreter of Model/PyIR.v, used by the source ties (Tie/EngPy_tie.v, Tie/Devices_tie.v,
   Tie/Loader_tie.v): unfolding of one call, of a sequence, the first-hit form of the zeros_boundaries scan. *)
From FJ Require Import Lib.Base Model.PyIR.
Local Open Scope N_scope.

Lemma for_pairs_first_hit (I : env -> Prop) step wd (test : N * N -> bool) v wd_hit :
  (forall en p, I en -> exists en', I en' /\
     step p en wd = if test p then SOk (CReturn v) en' wd_hit else SOk CNormal en' wd) ->
  forall l en, I en -> exists en', I en' /\
     for_pairs step l en wd = if existsb test l then SOk (CReturn v) en' wd_hit else SOk CNormal en' wd.
Proof.
  intros Hstep. induction l as [|p l IH]; intros en Hen; cbn [for_pairs existsb].
  - exists en. auto.
  - destruct (Hstep en p Hen) as (en1 & H1 & ->). destruct (test p); cbn [orb].
    + exists en1. auto.
    + apply IH. exact H1.
Qed.

Lemma call_at_S cfg prog d f args w :
  call_at cfg prog (S d) f args w =
  match prim cfg f args w with
  | Some r => r
  | None =>
    match prog f with
    | None => EUnsup
    | Some (params, body) =>
      match bind_params params args [] with
      | None => EUnsup
      | Some en =>
        match exec cfg (call_at cfg prog d) body en w with
        | SOk CNormal _ w1 => EOk VNone w1
        | SOk (CReturn v) _ w1 => EOk v w1
        | SOk (CRaise x) _ w1 => EExn x w1
        | SOk CContinue _ _ => EUnsup
        | SUnsup => EUnsup
        end
      end
    end
  end.
Proof. reflexivity. Qed.

Lemma exec_seq cfg call a b en w :
  exec cfg call (SSeq a b) en w =
  match exec cfg call a en w with SOk CNormal en1 w1 => exec cfg call b en1 w1 | other => other end.
Proof. reflexivity. Qed.

(* both branches of a test end normally in the same environment and differ only in the output: one state *)
Lemma merge_out_s (c : bool) en m i o1 o2 h k d :
  (if c then SOk CNormal en (mkworld m i o1 h k d) else SOk CNormal en (mkworld m i o2 h k d)) =
  SOk CNormal en (mkworld m i (if c then o1 else o2) h k d).
Proof. now destruct c. Qed.
Lemma merge_out_e (c : bool) v m i o1 o2 h k d :
  (if c then EOk v (mkworld m i o1 h k d) else EOk v (mkworld m i o2 h k d)) =
  EOk v (mkworld m i (if c then o1 else o2) h k d).
Proof. now destruct c. Qed.

(* environments that agree with en0 except on the two loop variables *)
Definition agree_off (x y : ident) (en0 en : env) : Prop :=
  forall z, z <> x -> z <> y -> lookup en z = lookup en0 z.

Lemma agree_off_refl x y en0 : agree_off x y en0 en0.
Proof. intros z _ _. reflexivity. Qed.

Lemma agree_off_bind x y en0 en a b : agree_off x y en0 en -> agree_off x y en0 (bind (bind en x a) y b).
Proof.
  intros H z Hx Hy. cbn [lookup bind].
  destruct (Pos.eqb_spec z y); [contradiction|]. destruct (Pos.eqb_spec z x); [contradiction|]. now apply H.
Qed.


(* a `for` whose body either raises x (when test holds of the element) or continues, without touching the world *)
Lemma for_each_first_raise {A} (conv : A -> value) (I : env -> Prop) step (w : world) (test : A -> bool) x :
  (forall en a, I en -> exists en', I en' /\
     step (conv a) en w = if test a then SOk (CRaise x) en' w else SOk CNormal en' w) ->
  forall l en, I en -> exists en', I en' /\
     for_each step (map conv l) en w = if existsb test l then SOk (CRaise x) en' w else SOk CNormal en' w.
Proof.
  intros Hstep. induction l as [|a l IH]; intros en Hen; cbn [map for_each existsb].
  - exists en. auto.
  - destruct (Hstep en a Hen) as (en1 & H1 & ->). destruct (test a); cbn [orb].
    + exists en1. auto.
    + apply IH. exact H1.
Qed.

(* a comprehension whose element expression is a pure function of the element *)
Lemma comp_loop_map {A} (conv : A -> value) (g : A -> value) f (w : world) :
  (forall a, f (conv a) w = EOk (g a) w) ->
  forall l, comp_loop f (map conv l) w = EOk (VList (map g l)) w.
Proof.
  intros H. induction l as [|a l IH]; cbn [map comp_loop]; [reflexivity|].
  rewrite H. cbn [andthen]. rewrite IH. reflexivity.
Qed.

(* a `for` statement over a list, with its step function kept folded *)
Definition is_for (s : stmt) : Prop := match s with SFor _ _ _ => True | _ => False end.
Definition for_pat (s : stmt) : pattern := match s with SFor p _ _ => p | _ => PTuple [] end.
Definition for_iter (s : stmt) : expr := match s with SFor _ i _ => i | _ => ENil end.
Definition for_body (s : stmt) : stmt := match s with SFor _ _ b => b | _ => SPass end.
Definition for_step cfg cl (s : stmt) (v : value) (en : env) (w : world) : sres :=
  match bind_pat (for_pat s) v en with Some en2 => exec cfg cl (for_body s) en2 w | None => SUnsup end.

Lemma exec_for_list cfg cl s en w l w1 : is_for s -> eval cfg cl en (for_iter s) w = EOk (VList l) w1 ->
  exec cfg cl s en w = for_each (for_step cfg cl s) l en w1.
Proof. destruct s; try contradiction. intros _ H. cbn [exec for_iter] in *. rewrite H. reflexivity. Qed.
(* (the iterable is a list value: [as_list (VList l)] is l by computation) *)

Definition head_of (s : stmt) : stmt := match s with SSeq a _ => a | other => other end.
Definition tail_of (s : stmt) : stmt := match s with SSeq _ b => b | _ => SPass end.
Definition is_seq (s : stmt) : Prop := match s with SSeq _ _ => True | _ => False end.
Lemma exec_seq_parts cfg cl s en w : is_seq s ->
  exec cfg cl s en w =
  match exec cfg cl (head_of s) en w with SOk CNormal en1 w1 => exec cfg cl (tail_of s) en1 w1 | other => other end.
Proof. destruct s; try contradiction. reflexivity. Qed.

Lemma int_pairs_map {A} (f : A -> N * N) l :
  int_pairs (map (fun a => VPair (VInt (fst (f a))) (VInt (snd (f a)))) l) = Some (map f l).
Proof. induction l as [|a l IH]; cbn [map int_pairs]; [reflexivity|]. rewrite IH. cbn [option_map]. now destruct (f a). Qed.

(* environments that agree with en0 except on one (loop) variable *)
Definition agree_but (i : ident) (en0 en : env) : Prop := forall x, x <> i -> lookup en x = lookup en0 x.
Lemma agree_but_refl i en0 : agree_but i en0 en0.
Proof. intros x _. reflexivity. Qed.
Lemma agree_but_bind i en0 en v : agree_but i en0 en -> agree_but i en0 (bind en i v).
Proof. intros H x Hx. cbn [lookup bind]. destruct (Pos.eqb_spec x i); [contradiction|]. now apply H. Qed.

Definition then_of (s : stmt) : stmt := match s with SIf _ a _ => a | _ => SPass end.
Definition else_of (s : stmt) : stmt := match s with SIf _ _ b => b | _ => SPass end.

Lemma range_from_S n lo st : range_from (S n) lo st = VInt lo :: range_from n (lo + st) st.
Proof. reflexivity. Qed.

Definition cond_of (s : stmt) : expr := match s with SIf c _ _ => c | _ => EUnsupported end.
Definition is_if (s : stmt) : Prop := match s with SIf _ _ _ => True | _ => False end.
Lemma exec_if_parts cfg cl s en w : is_if s ->
  exec cfg cl s en w =
  on_value en (eval cfg cl en (cond_of s) w) (fun v w1 =>
    match truth v with
    | None => SUnsup
    | Some true => exec cfg cl (then_of s) en w1
    | Some false => exec cfg cl (else_of s) en w1
    end).
Proof. destruct s; try contradiction. reflexivity. Qed.

Lemma one_le_shiftl n : (1 <=? N.shiftl 1 n) = true.
Proof. apply N.leb_le. rewrite N.shiftl_1_l. pose proof (N.pow_nonzero 2 n). lia. Qed.
Lemma shiftl_sub1 n : N.shiftl 1 n - 1 = N.ones n.
Proof. unfold N.ones. now rewrite N.sub_1_r. Qed.

(* ---- ints: the computation in N on non-negative ints is the computation in Z ----------------------------------------- *)
Lemma of_Z_of_N n : of_Z (Z.of_N n) = VInt n.
Proof. destruct n; reflexivity. Qed.
Lemma int_Z_of_Z z : int_Z (of_Z z) = Some z.
Proof. destruct z; reflexivity. Qed.
Lemma num_Z_of_Z z : num_Z (of_Z z) = Some z.
Proof. destruct z; reflexivity. Qed.

Lemma int_bin_is_z_bin o x y : int_bin o x y = z_bin o (Z.of_N x) (Z.of_N y).
Proof.
  destruct o; cbn [int_bin z_bin].
  - now rewrite <- N2Z.inj_add, of_Z_of_N.
  - destruct (N.leb_spec y x) as [H|H]; [|reflexivity]. now rewrite <- N2Z.inj_sub, of_Z_of_N.
  - now rewrite <- N2Z.inj_mul, of_Z_of_N.
  - f_equal. rewrite <- of_Z_of_N. f_equal. destruct x, y; reflexivity.
  - f_equal. rewrite <- of_Z_of_N. f_equal. destruct x, y; reflexivity.
  - f_equal. rewrite <- of_Z_of_N. f_equal. destruct x, y; reflexivity.
  - replace (Z.of_N y <? 0)%Z with false by (symmetry; apply Z.ltb_ge; lia).
    f_equal. rewrite <- of_Z_of_N. f_equal.
    rewrite N.shiftl_mul_pow2, Z.shiftl_mul_pow2 by lia. now rewrite N2Z.inj_mul, N2Z.inj_pow.
  - replace (Z.of_N y <? 0)%Z with false by (symmetry; apply Z.ltb_ge; lia).
    f_equal. rewrite <- of_Z_of_N. f_equal.
    rewrite N.shiftr_div_pow2, Z.shiftr_div_pow2 by lia. now rewrite N2Z.inj_div, N2Z.inj_pow.
  - replace (Z.of_N y =? 0)%Z with (y =? 0) by (destruct y; reflexivity).
    destruct (y =? 0); [reflexivity|]. now rewrite <- N2Z.inj_mod, of_Z_of_N.
Qed.

Lemma bin_of_Z o a b : bin o (of_Z a) (of_Z b) = z_bin o a b.
Proof.
  destruct a as [|p|p], b as [|q|q]; cbn [of_Z bin num_Z int_Z]; try reflexivity;
    rewrite int_bin_is_z_bin; cbn [Z.to_N]; rewrite ?Z2N.id by lia; reflexivity.
Qed.

Lemma cmp_of_Z o a b : cmp o (of_Z a) (of_Z b) = Some (z_cmp o a b).
Proof. destruct a as [|p|p], b as [|q|q], o; reflexivity. Qed.

Lemma truth_of_Z a : truth (of_Z a) = Some (negb (a =? 0)%Z).
Proof. destruct a; reflexivity. Qed.

Lemma VInt_of_Z n : VInt n = of_Z (Z.of_N n).
Proof. now rewrite of_Z_of_N. Qed.

(* arithmetic on ints given as Z *)
Lemma z_bin_shl x y : (0 <= y)%Z -> z_bin Shl x y = Some (of_Z (Z.shiftl x y)).
Proof. intros H. cbn [z_bin]. destruct (Z.ltb_spec y 0); [lia|reflexivity]. Qed.
Lemma z_bin_mod2 x : z_bin Mod x 2 = Some (of_Z (x mod 2)%Z).
Proof. reflexivity. Qed.
Lemma if_ok_bool (b c : bool) w : (if b then EOk (VBool c) w else EOk (VBool false) w) = EOk (VBool (b && c)) w.
Proof. now destruct b. Qed.
Lemma if_ok_bool_or (b c : bool) w : (if b then EOk (VBool true) w else EOk (VBool c) w) = EOk (VBool (b || c)) w.
Proof. now destruct b. Qed.
Lemma VInt_of_nat n : VInt (N.of_nat n) = of_Z (Z.of_nat n).
Proof. rewrite <- nat_N_Z. now rewrite of_Z_of_N. Qed.

(* a `for .. in enumerate(..)` whose body raises x when test holds of the element, and otherwise goes on (possibly by
   `continue`), without touching the world *)
Lemma for_each_enum_first_raise {A} (conv : A -> value) (I : env -> Prop) step (w : world) (test : A -> bool) x :
  (forall en k a, I en -> exists en' c, I en' /\ (c = CNormal \/ c = CContinue) /\
     step (VPair (VInt k) (conv a)) en w = if test a then SOk (CRaise x) en' w else SOk c en' w) ->
  forall l k en, I en -> exists en', I en' /\
     for_each step (enumerate_from k (map conv l)) en w =
     if existsb test l then SOk (CRaise x) en' w else SOk CNormal en' w.
Proof.
  intros Hstep. induction l as [|a l IH]; intros k en Hen; cbn [map enumerate_from for_each existsb].
  - exists en. auto.
  - destruct (Hstep en k a Hen) as (en1 & c & H1 & Hc & ->). destruct (test a); cbn [orb].
    + exists en1. auto.
    + destruct Hc as [-> | ->]; apply IH; exact H1.
Qed.
Lemma if_ok_bool_or' (b c : bool) w : (if b then EOk (VBool b) w else EOk (VBool c) w) = EOk (VBool (b || c)) w.
Proof. now destruct b. Qed.

Lemma of_Z_nonneg z : (0 <= z)%Z -> of_Z z = VInt (Z.to_N z).
Proof. destruct z; try reflexivity. lia. Qed.
Lemma set_item_map {A} (f : A -> value) (setn : list A -> nat -> A -> list A) :
  (forall l n v, setn l n v = match l, n with [], _ => [] | _ :: r, O => v :: r | x :: r, S k => x :: setn r k v end) ->
  forall l n v, (n < length l)%nat -> set_item (map f l) n (f v) = Some (map f (setn l n v)).
Proof.
  intros Hs. induction l as [|x r IH]; intros n v Hn; [cbn in Hn; lia|].
  rewrite Hs. destruct n; cbn [map set_item]; [reflexivity|]. rewrite IH by (cbn in Hn; lia). reflexivity.
Qed.

(* a `for` whose body always ends normally: a fold over the elements, with an invariant tying the abstract state to the
   environment and the world *)
Lemma for_each_fold {A S} (conv : A -> value) (I : S -> env -> world -> Prop) step (f : S -> A -> S) :
  (forall s en w a, I s en w -> exists en' w', I (f s a) en' w' /\ step (conv a) en w = SOk CNormal en' w') ->
  forall l s en w, I s en w -> exists en' w', I (fold_left f l s) en' w' /\ for_each step (map conv l) en w = SOk CNormal en' w'.
Proof.
  intros Hstep. induction l as [|a l IH]; intros s en w HI; cbn [map for_each fold_left].
  - exists en, w. auto.
  - destruct (Hstep s en w a HI) as (en1 & w1 & H1 & ->). apply IH. exact H1.
Qed.

(* dicts and data strings *)
Lemma key_eqb_ints a b : key_eqb (of_Z a) (of_Z b) = Some (a =? b)%Z.
Proof. destruct a, b; reflexivity. Qed.
Lemma key_eqb_texts a b : key_eqb (VText a) (VText b) = Some (text_eqb a b).
Proof. reflexivity. Qed.

Lemma for_each_fold_in {A S} (conv : A -> value) (I : S -> env -> world -> Prop) step (f : S -> A -> S) (P : A -> Prop) :
  (forall s en w a, P a -> I s en w -> exists en' w', I (f s a) en' w' /\ step (conv a) en w = SOk CNormal en' w') ->
  forall l s en w, Forall P l -> I s en w ->
  exists en' w', I (fold_left f l s) en' w' /\ for_each step (map conv l) en w = SOk CNormal en' w'.
Proof.
  intros Hstep. induction l as [|a l IH]; intros s en w HP HI; cbn [map for_each fold_left].
  - exists en, w. auto.
  - inversion HP; subst. destruct (Hstep s en w a H1 HI) as (en1 & w1 & HI1 & ->). apply IH; assumption.
Qed.
