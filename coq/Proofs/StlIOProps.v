(* Soundness of the IO block checker (C09): a `true` of Model.StlIORun.check_block_io is the frame equation with
   input and output, Spec.StlIOSpec.block_correct_io; a `forallb` over an enumerated (operand values x input
   strings over an alphabet) domain is the universally quantified statement over that domain. *)
From FJ Require Import Lib.Base Spec.MachineSpec Spec.StlSpec Spec.StlIOSpec Model.StlRun Model.StlIORun
     Proofs.MachineProps Proofs.StlProps.
Local Open Scope N_scope.

Lemma bools_eqb_eq a : forall b, bools_eqb a b = true -> a = b.
Proof.
  induction a as [|x a IH]; intros [|y b] H; cbn in H; try discriminate; [reflexivity|].
  apply andb_prop in H. destruct H as [H1 H2]. apply Bool.eqb_prop in H1. subst. f_equal. auto.
Qed.

(* ---- the checker decides the frame equation with IO ---- *)

Theorem check_block_io_sound ww sg img b S vs inb :
  check_block_io ww sg img b S vs inb = true -> block_correct_io ww sg img b S vs inb.
Proof.
  unfold check_block_io, block_correct_io.
  destruct (S vs inb) as [[vs' x out used clob|out]|]; [| |trivial].
  - destruct (nth_error (b_exits b) (N.to_nat x)) as [[xa marker]|]; [|discriminate].
    destruct (run_pow ww sg (b_depth b) (init (start_mem ww img b vs) (bytes_bits inb)) []) as [s wl|c s wl] eqn:R;
      [discriminate|].
    destruct c; try discriminate.
    intros H.
    apply andb_prop in H. destruct H as [H Hv].
    apply andb_prop in H. destruct H as [H Hw].
    apply andb_prop in H. destruct H as [H _].
    apply andb_prop in H. destruct H as [H Hin].
    apply andb_prop in H. destruct H as [Hip Hout].
    apply run_pow_halt in R. destruct R as [[k Rk] F].
    exists xa, marker, k, s. repeat split; auto.
    + now apply N.eqb_eq.
    + now apply out_is_eq.
    + now apply bools_eqb_eq.
    + intros a. rewrite forallb_forall in Hw, Hv.
      destruct (in_dec N.eq_dec a (0 :: 1 :: vars_words (b_vars b))) as [J|NJ]; [exact (Hv a J)|].
      assert (NJ' : ~ In a (1 :: vars_words (b_vars b))) by (intros X; apply NJ; right; exact X).
      destruct (in_dec N.eq_dec a wl) as [I|NI].
      { specialize (Hw a I). destruct a; [exfalso; apply NJ; left; reflexivity|exact Hw]. }
      unfold mget0. rewrite (F a NI). cbn [m init].
      rewrite (start_mem_frame ww img b vs vs' a NJ'). apply eq_mod_refl.
  - destruct (run_pow ww sg (b_depth b) (init (start_mem ww img b vs) (bytes_bits inb)) []) as [s wl|c s wl] eqn:R;
      [discriminate|].
    destruct c; try discriminate.
    intros H. apply run_pow_halt in R. destruct R as [[k Rk] _].
    exists k, s. split; [exact Rk|now apply out_is_eq].
Qed.

(* ---- enumeration of (operand values ++ symbol positions) ---- *)

Theorem io_by_enumeration ww sg img b S nv alpha rs :
  forallb (check_io_enc ww sg img b S nv alpha) (enum_dom rs) = true ->
  forall ops, in_dom rs ops -> block_correct_io ww sg img b S (firstn nv ops) (decode alpha (skipn nv ops)).
Proof.
  intros H ops D. apply check_block_io_sound.
  exact (dom_forallb (check_io_enc ww sg img b S nv alpha) rs H ops D).
Qed.

(* ---- every string over the alphabet is the decoding of a list of positions in range ---- *)

Fixpoint index_of (c : N) (alpha : list N) : N :=
  match alpha with [] => 0 | a :: r => if a =? c then 0 else 1 + index_of c r end.

Lemma index_of_lt c alpha : In c alpha -> index_of c alpha < len alpha.
Proof.
  unfold len. induction alpha as [|a r IH]; intros H; [destruct H|].
  cbn [index_of length]. destruct (a =? c) eqn:E; [lia|].
  destruct H as [H|H]; [subst; rewrite N.eqb_refl in E; discriminate|].
  specialize (IH H). lia.
Qed.

Lemma nth_index_of c alpha : In c alpha -> nth (N.to_nat (index_of c alpha)) alpha 0 = c.
Proof.
  induction alpha as [|a r IH]; intros H; [destruct H|].
  cbn [index_of]. destruct (a =? c) eqn:E.
  - apply N.eqb_eq in E. subst. reflexivity.
  - destruct H as [H|H]; [subst; rewrite N.eqb_refl in E; discriminate|].
    replace (N.to_nat (1 + index_of c r)) with (S (N.to_nat (index_of c r))) by lia.
    cbn [nth]. auto.
Qed.

Definition indices (alpha inb : list N) : list N := map (fun c => index_of c alpha) inb.

Lemma decode_indices alpha inb : in_alpha alpha inb -> decode alpha (indices alpha inb) = inb.
Proof.
  unfold in_alpha, decode, indices. induction 1 as [|c r Hc Hr IH]; [reflexivity|].
  cbn [map]. rewrite nth_index_of by assumption. f_equal. exact IH.
Qed.

Lemma indices_in_dom alpha inb :
  in_alpha alpha inb -> in_dom (repeat (0, len alpha) (length inb)) (indices alpha inb).
Proof.
  unfold in_alpha, in_dom, indices. induction 1 as [|c r Hc Hr IH]; cbn [map length repeat]; constructor.
  - cbn [fst snd]. pose proof (index_of_lt c alpha Hc). lia.
  - exact IH.
Qed.

Lemma in_dom_length rs vs : in_dom rs vs -> length vs = length rs.
Proof. unfold in_dom. induction 1; cbn; auto. Qed.

Lemma firstn_app_exact {A} (a b : list A) : firstn (length a) (a ++ b) = a.
Proof. induction a; cbn; [now destruct b|f_equal; auto]. Qed.
Lemma skipn_app_exact {A} (a b : list A) : skipn (length a) (a ++ b) = b.
Proof. induction a; cbn; auto. Qed.

(* the statement over strings of one length follows from the statement over encoded operand lists *)
Theorem io_strings_by_indices (P : list N -> list N -> Prop) rs alpha l :
  (forall ops, in_dom (rs ++ repeat (0, len alpha) l) ops ->
               P (firstn (length rs) ops) (decode alpha (skipn (length rs) ops))) ->
  forall vs inb, in_dom rs vs -> length inb = l -> in_alpha alpha inb -> P vs inb.
Proof.
  intros H vs inb D L A. subst l.
  specialize (H (vs ++ indices alpha inb)).
  rewrite <- (in_dom_length rs vs D) in H.
  rewrite firstn_app_exact, skipn_app_exact, decode_indices in H by assumption.
  apply H. unfold in_dom. apply Forall2_app; [exact D|]. now apply indices_in_dom.
Qed.

(* ... and the statement for all strings up to a length from the statements for each length *)
Theorem io_strings_upto (P : list N -> list N -> Prop) rs alpha L :
  (forall l, (l <= L)%nat ->
     forall ops, in_dom (rs ++ repeat (0, len alpha) l) ops ->
                 P (firstn (length rs) ops) (decode alpha (skipn (length rs) ops))) ->
  forall vs inb, in_dom rs vs -> (length inb <= L)%nat -> in_alpha alpha inb -> P vs inb.
Proof.
  intros H vs inb D HL A.
  exact (io_strings_by_indices P rs alpha (length inb) (H (length inb) HL) vs inb D eq_refl A).
Qed.

(* the alphabet of all byte values *)
Lemma all_bytes_In c : c < 256 -> In c all_bytes.
Proof.
  intros H. unfold all_bytes. apply in_map_iff. exists (N.to_nat c). split; [lia|]. apply in_seq. lia.
Qed.
Lemma in_alpha_all_bytes inb : Forall (fun c => c < 256) inb -> in_alpha all_bytes inb.
Proof. unfold in_alpha. intros H. eapply Forall_impl; [|exact H]. intros a. apply all_bytes_In. Qed.
