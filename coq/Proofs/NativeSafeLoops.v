From FJ Require Import Lib.Base Lib.Bits Model.NativeSafe Proofs.NativeSafeTbl Proofs.NativeSafeProps.
(* C11 - device access through get_word/set_word, callbacks, and one op of each of the three run loops. *)
Local Open Scope N_scope.

(* ---------------------------------------------------------------- get_word / set_word *)

Lemma api_get_word_ok al ov wa0 s n fo c :
  I n fo c s -> post (api_get_word al ov wa0 s) (fun v s' => I n fo c s' /\ v < U64) (I n fo c).
Proof.
  intros H. unfold api_get_word. assert (Hwa : wa0 mod U64 < U64) by (apply N.mod_lt; lia). set (wa := wa0 mod U64) in *.
  eapply post_bind; [apply (flat_has_ok wa s n fo c H)|]. intros h s' [-> Hh].
  eapply (post_bind _ _ _ (fun inseg s' => s' = s /\ (inseg = true -> h = true))).
  { destruct h; [|apply post_ret; split; [reflexivity|discriminate]].
    eapply post_weaken; [apply (flat_seg_contains_ok wa s n fo c H)|cbv beta; intros; split; [assumption|reflexivity]|auto]. }
  intros inseg s' [-> Hin]. destruct inseg.
  - destruct (Hh (Hin eq_refl)) as (fc & -> & Hlt).
    eapply post_weaken; [apply (flat_read_ok wa s n fc c H Hlt)|cbv beta; intros v s' [-> Hv]; split; assumption|auto].
  - eapply post_bind; [apply (mem_get_page_ok al ov wa s n fo c H Hwa)|]. intros p s' H'.
    eapply post_weaken; [apply (page_read_ok p (N.land wa PAGE_MASK) s' _ fo c H'); [lia|apply land_page_mask_lt]| |].
    + cbv beta. intros v s2 [-> Hv]. split; [eapply I_weaken; [exact H'|lia]|assumption].
    + intros s2 H2. eapply I_weaken; [exact H2|lia].
Qed.

Lemma api_set_word_ok al ov wa0 v0 s n fo c :
  I n fo c s -> post (api_set_word al ov wa0 v0 s) (fun _ s' => I n fo c s') (I n fo c).
Proof.
  intros H. unfold api_set_word. assert (Hwa : wa0 mod U64 < U64) by (apply N.mod_lt; lia). set (wa := wa0 mod U64) in *.
  rewrite bind_gets.
  eapply post_bind; [apply (flat_has_ok wa s n fo c H)|]. intros h s' [-> Hh].
  eapply (post_bind _ _ _ (fun inseg s' => s' = s /\ (inseg = true -> h = true))).
  { destruct h; [|apply post_ret; split; [reflexivity|discriminate]].
    eapply post_weaken; [apply (flat_seg_contains_ok wa s n fo c H)|cbv beta; intros; split; [assumption|reflexivity]|auto]. }
  intros inseg s' [-> Hin]. destruct inseg.
  - destruct (Hh (Hin eq_refl)) as (fc & -> & Hlt). now apply flat_write_ok.
  - eapply post_bind; [apply (mem_get_page_ok al ov wa s n fo c H Hwa)|]. intros p s' H'.
    eapply post_weaken; [apply (page_write_ok p (N.land wa PAGE_MASK) _ s' _ fo c H'); [lia|apply land_page_mask_lt]| |].
    + cbv beta. intros [] s2 H2. eapply I_weaken; [exact H2|lia].
    + intros s2 H2. eapply I_weaken; [exact H2|lia].
Qed.

(* ---------------------------------------------------------------- callbacks *)

Lemma post_catch {A} (c : M A) s (Q : A -> st -> Prop) (R : st -> Prop) (R' : st -> Prop) :
  post (c s) Q R -> post (catch c s) (fun r s' => match r with inl a => Q a s' | inr _ => R s' end) R'.
Proof. unfold post, catch. destruct (c s) as [[[a|e] s']| |]; auto. Qed.

Lemma dev_ops_ok al ov catches l s n fo c :
  I n fo c s -> post (dev_ops al ov catches l s) (fun _ s' => I n fo c s') (I n fo c).
Proof.
  revert s. induction l as [|o l IH]; intros s H; cbn [dev_ops]; [apply post_ret; assumption|].
  eapply post_bind.
  - apply (post_catch _ s (fun _ s' => I n fo c s') (I n fo c)).
    destruct o as [a|a v].
    + eapply post_bind; [apply (api_get_word_ok al ov a s n fo c H)|]. intros v s' [H' _]. apply post_ret. exact H'.
    + apply (api_set_word_ok al ov a v s n fo c H).
  - intros [[]|e] s' H'; [now apply IH|]. destruct catches; [now apply IH|apply post_ret; assumption].
Qed.

Lemma do_callback_ok al ov cbk s n fo c :
  I n fo c s -> post (do_callback al ov cbk s) (fun _ s' => I n fo c s') (I n fo c).
Proof.
  intros H. unfold do_callback. eapply post_bind; [apply (dev_ops_ok al ov _ _ s n fo c H)|].
  intros okd s' H'. apply post_ret. exact H'.
Qed.

(* ---------------------------------------------------------------- loop locals *)

Definition wf_loc (l : locals) : Prop :=
  l_ip l < U64
  /\ match l_ring l with Some r => alen r = l_rlen l /\ 0 < l_rlen l | None => True end
  /\ wf_tbl (fun _ : N => True) (l_shadow l).

Definition wf_stepres (r : stepres locals) : Prop := match r with Cont l | Term _ l | PyError _ l => wf_loc l end.

Lemma wf_loc_bump_out l : wf_loc l -> wf_loc (bump_out l). Proof. intros H; exact H. Qed.
Lemma wf_loc_bump_in l : wf_loc l -> wf_loc (bump_in l). Proof. intros H; exact H. Qed.
Lemma wf_loc_set_inner k l : wf_loc l -> wf_loc (set_inner k l). Proof. intros H; exact H. Qed.
Lemma wf_loc_next_op ov ip l : wf_loc l -> ip < U64 -> wf_loc (next_op ov ip l).
Proof. intros (_ & H2 & H3) Hip. split; [exact Hip|split; assumption]. Qed.

Lemma finish_op_wf ov c l f j : wf_loc l -> j < U64 -> wf_stepres (finish_op ov c l f j).
Proof.
  intros H Hj. pose proof H as (Hip & _). unfold finish_op.
  destruct ((j =? l_ip l) && negb ((l_ip l <=? f) && (usub f (l_ip l) <? 2 * c_w c))); [now apply wf_loc_next_op|].
  destruct (j <? 2 * c_w c); now apply wf_loc_next_op.
Qed.

Lemma memory_error_exit_ok l s n fo c :
  I n fo c s -> wf_loc l -> post (memory_error_exit l s) (fun r s' => I n fo c s' /\ wf_stepres r) (I n fo c).
Proof. intros H Hl. unfold memory_error_exit. rewrite bind_modify. apply post_ret. split; [now apply I_set_err|exact Hl]. Qed.

Lemma signal_check_wf wd l : wf_loc l -> match signal_check wd l with inl l' => wf_loc l' | inr r => wf_stepres r end.
Proof. intros H. unfold signal_check. destruct (l_inner l =? 0); [destruct (w_sig wd (l_ops l))|]; exact H. Qed.

Lemma in_addr_lt c : wf_cfg c -> 3 * c_w c + c_ww c + 1 < U64.
Proof. intros [[[-> ->]|[[-> ->]|[[-> ->]|[-> ->]]]] _]; lia. Qed.

Lemma io_output_ok al ov wd l s n fo c :
  I n fo c s -> post (io_output al ov wd l s) (fun o s' => I n fo c s' /\ snd o = bump_out l) (I n fo c).
Proof.
  intros H. unfold io_output. eapply post_bind; [apply (do_callback_ok al ov _ s n fo c H)|].
  intros r s' H'. apply post_ret. split; [exact H'|reflexivity].
Qed.

Lemma io_input_ok al ov wd l s n fo c :
  I n fo c s -> post (io_input al ov wd l s) (fun o s' => I n fo c s' /\ snd o = bump_in l) (I n fo c).
Proof.
  intros H. unfold io_input. eapply post_bind; [apply (do_callback_ok al ov _ s n fo c H)|].
  intros r s' H'. apply post_ret. split; [exact H'|reflexivity].
Qed.

Definition same_frame (l' l : locals) : Prop :=
  l_ip l' = l_ip l /\ l_ring l' = l_ring l /\ l_rlen l' = l_rlen l /\ l_rw l' = l_rw l /\ l_shadow l' = l_shadow l.

Lemma io_phase_ok al ov wd l f s n fo c :
  I n fo c s -> wf_loc l ->
  post (io_phase al ov wd l f s)
       (fun r s' => I n fo c s' /\ match r with inl l' => wf_loc l' /\ same_frame l' l | inr x => wf_stepres x end)
       (I n fo c).
Proof.
  intros H Hl. pose proof (I_cfg _ _ _ _ H) as Wc. pose proof H as (_ & _ & _ & Ec).
  unfold io_phase. rewrite bind_gets, Ec. unfold io_consts.
  eapply (post_bind _ _ _ (fun o s' => I n fo c s' /\ wf_loc (snd o) /\ same_frame (snd o) l)).
  { destruct (usub f (2 * c_w c) <=? 1); [|apply post_ret; unfold same_frame; auto 10].
    eapply post_weaken; [apply (io_output_ok al ov wd l s n fo c H)| |auto].
    cbv beta. intros o s' [H' ->]. unfold same_frame. auto 10. }
  intros [okb l1] s1 (H1 & Hl1 & Hf1). cbn [fst snd] in *.
  destruct okb; cbn [negb]; [|apply post_ret; split; [assumption|exact Hl1]].
  destruct (usub (usub (l_ip l1) (3 * c_w c + c_ww c + 1 - 2 * c_w c)) 1 <? 2 * c_w c); [|apply post_ret; auto].
  eapply post_bind; [apply (io_input_ok al ov wd l1 s1 n fo c H1)|].
  intros [ir l2] s2 [H2 E2]. cbn [fst snd] in *. subst l2.
  destruct ir as [b| |].
  - eapply post_bind; [apply (mem_write_bit_ok al ov _ b s2 n fo c H2); now apply in_addr_lt|].
    intros okw s3 H3. destruct okw.
    + apply post_ret. split; [assumption|]. split; [exact Hl1|exact Hf1].
    + eapply post_bind; [apply (memory_error_exit_ok (bump_in l1) s3 n fo c H3 Hl1)|].
      intros r s4 [H4 Hr]. apply post_ret. split; assumption.
  - apply post_ret. split; [assumption|exact Hl1].
  - apply post_ret. split; [assumption|exact Hl1].
Qed.

(* ---------------------------------------------------------------- run_flat_loop_impl *)

Lemma wrapv_ip_lt ov x v : wrapv ov x v < U64. Proof. apply wrapv_lt. Qed.

Lemma flat_op_ok al ov wd fc l s n c :
  I n (Some fc) c s -> wf_loc l ->
  post (flat_op al ov wd fc l s) (fun r s' => I n (Some fc) c s' /\ wf_stepres r) (I n (Some fc) c).
Proof.
  intros H Hl0. pose proof (I_cfg _ _ _ _ H) as Wc. pose proof H as (_ & _ & _ & Ec).
  unfold flat_op. pose proof (signal_check_wf wd l Hl0) as Hsc.
  destruct (signal_check wd l) as [l1|r]; [|apply post_ret; split; assumption].
  rename Hsc into Hl. rewrite bind_gets, Ec. pose proof Hl as (Hip & _).
  pose proof (shiftr_ww_lt c (l_ip l1) Wc Hip) as Hwa.
  (* read flip word *)
  eapply (post_bind _ _ _ (fun fw s' => Ival n (Some fc) c (fst fw) s' /\ snd fw + 1 < U64)).
  { destruct (negb (N.land (l_ip l1) (usub (c_w c) 1) =? 0)).
    - eapply post_bind; [apply (mem_get_word_unaligned_ok al ov _ s n _ c H Hip)|].
      intros r s' Hr. apply post_ret. split; [exact Hr|cbn; lia].
    - unfold nowrap. destruct (N.ltb_spec (N.shiftr (l_ip l1) (c_ww c) + 1) U64); [|lia]. rewrite bind_lift_ok.
      destruct (N.leb_spec fc (N.shiftr (l_ip l1) (c_ww c) + 1)).
      + eapply post_bind; [apply (mem_read_word_ok al ov _ s n _ c H); lia|].
        intros r s' Hr. apply post_ret. split; [exact Hr|cbn; lia].
      + eapply post_bind; [apply (flat_value_ok ov _ s n fc c H); lia|].
        intros r s' Hr. apply post_ret. split; [exact Hr|cbn; lia]. }
  intros [[f|] wa] s1 [[H1 Hf] Hwa1]; cbn [fst snd] in *; [|now apply memory_error_exit_ok].
  specialize (Hf f eq_refl).
  eapply post_bind; [apply (io_phase_ok al ov wd l1 f s1 n _ c H1 Hl)|].
  intros [l2|r] s2 [H2 Hr]; [|apply post_ret; split; assumption]. destruct Hr as [Hl2 (Eip & _)].
  (* FLIP *)
  pose proof (shiftr_ww_lt c f Wc Hf) as Hfwa.
  eapply (post_bind _ _ _ (fun _ s' => I n (Some fc) c s')).
  { destruct (N.leb_spec fc (N.shiftr f (c_ww c))); [now apply mem_flip_bit_ok|].
    eapply post_bind; [apply (flat_value_ok ov _ s2 n fc c H2); lia|].
    intros [fv|] s3 [H3 _]; [|apply post_ret; assumption].
    destruct (shl1_ok c f Wc) as [bit ->]. rewrite bind_lift_ok.
    eapply post_bind; [apply (flat_write_ok _ _ s3 n fc c H3); lia|]. intros [] s4 H4. apply post_ret. assumption. }
  intros okf s3 H3. destruct okf; cbn [negb]; [|now apply memory_error_exit_ok].
  (* read jump word *)
  unfold nowrap. destruct (N.ltb_spec (wa + 1) U64); [|lia]. rewrite bind_lift_ok.
  eapply (post_bind _ _ _ (Ival n (Some fc) c)).
  { destruct (N.leb_spec fc (wa + 1)); [apply mem_get_word_unaligned_ok; [assumption|apply wrapv_lt]|].
    apply flat_value_ok; [assumption|lia]. }
  intros [j|] s4 [H4 Hj]; [|now apply memory_error_exit_ok].
  apply post_ret. split; [assumption|]. apply finish_op_wf; [assumption|now apply Hj].
Qed.

(* ---------------------------------------------------------------- run_paged_loop_impl *)

Definition lane_ok (n : N) (fo : option N) (fc : N) (lane : oplane) : Prop :=
  match lane with
  | HotLane p off ve => p < n /\ off < ve /\ ve <= PAGE_WORDS
  | FlatLane ja => fo = Some fc /\ ja < fc
  | SlowLane => True
  end.

Lemma lane_ok_mono n n' fo fc lane : n <= n' -> lane_ok n fo fc lane -> lane_ok n' fo fc lane.
Proof. destruct lane; cbn; intuition lia. Qed.

Lemma cache_slot_facts s n fo c k :
  I n fo c s -> k < 16 ->
  alen (c_key (m_cache s)) = 16 /\ alen (c_vs (m_cache s)) = 16 /\ alen (c_ve (m_cache s)) = 16 /\ alen (c_words (m_cache s)) = 16
  /\ (adat (c_ve (m_cache s)) k <> 0 -> exists p, adat (c_words (m_cache s)) k = Some p /\ p < npages s /\ adat (c_ve (m_cache s)) k <= PAGE_WORDS).
Proof.
  intros H Hk. inv_I H. inv_wf Hwf. destruct Wca as (L1 & L2 & L3 & L4 & L5 & Hv). repeat split; try assumption.
  intros Hne. destruct (proj2 (Hv k Hk) Hne) as [[p [Hp Hlt]] Hle]. eauto.
Qed.

Lemma paged_op_body_ok al ov wd fc l2 s n fo c :
  I n fo c s -> wf_loc l2 -> (forall x, fo = Some x -> fc = x) ->
  post (paged_op_body al ov wd fc l2 s) (fun r s' => I n fo c s' /\ wf_stepres r) (I n fo c).
Proof.
  intros H Hl Hfc. pose proof (I_cfg _ _ _ _ H) as Wc. pose proof H as (_ & _ & _ & Ec).
  unfold paged_op_body. rewrite bind_gets, Ec. pose proof Hl as (Hip & _). rewrite bind_gets.
  pose proof (shiftr_ww_lt c (l_ip l2) Wc Hip) as Hwa.
  set (with_ring := match l_ring l2 with Some _ => true | None => false end).
  (* read flip word *)
  eapply (post_bind _ _ _ (fun fw s' => exists n', n <= n' /\ Ival n' fo c (fst fw) s' /\ lane_ok n' fo fc (snd fw))).
  { destruct (negb (N.land (l_ip l2) (usub (c_w c) 1) =? 0)).
    { eapply post_bind; [apply (mem_get_word_unaligned_ok al ov _ s n _ c H Hip)|].
      intros r s' Hr. apply post_ret. exists n. split; [lia|]. split; [exact Hr|exact Logic.I]. }
    destruct (with_ring && match f_arr (m_fl s) with Some _ => true | None => false end) eqn:Euf.
    { (* the flat lane *)
      apply andb_true_iff in Euf. destruct Euf as [_ Efl].
      assert (Efo : fo = Some fc).
      { destruct H as (_ & _ & Hfs & _). unfold fshape in Hfs. destruct (f_arr (m_fl s)); [|discriminate].
        rewrite <- Hfs. f_equal. symmetry. apply Hfc. now rewrite <- Hfs. }
      subst fo.
      unfold nowrap. destruct (N.ltb_spec (N.shiftr (l_ip l2) (c_ww c) + 1) U64); [|lia]. rewrite bind_lift_ok.
      destruct (N.leb_spec fc (N.shiftr (l_ip l2) (c_ww c) + 1)).
      - eapply post_bind; [apply (mem_read_word_ok al ov _ s n _ c H); lia|].
        intros r s' Hr. apply post_ret. exists n. split; [lia|]. split; [exact Hr|exact Logic.I].
      - eapply post_bind; [apply (flat_value_ok ov _ s n fc c H); lia|].
        intros r s' Hr. apply post_ret. exists n. split; [lia|]. split; [exact Hr|]. cbn. split; [reflexivity|assumption]. }
    (* the paged lanes *)
    set (wa := N.shiftr (l_ip l2) (c_ww c)) in *.
    destruct (N.land wa PAGE_MASK =? PAGE_MASK).
    { eapply post_bind; [apply (mem_read_word_ok al ov _ s n _ c H); lia|].
      intros r s' Hr. apply post_ret. exists n. split; [lia|]. split; [exact Hr|exact Logic.I]. }
    pose proof (land_15_lt (N.shiftr wa PAGE_BITS)) as Hslot. set (slot := N.land (N.shiftr wa PAGE_BITS) 15) in *.
    rewrite bind_gets. destruct (cache_slot_facts s n fo c slot H Hslot) as (L1 & L4 & L5 & L3 & _).
    rewrite aget_ok by lia. rewrite bind_lift_ok.
    eapply (post_bind _ _ _ (fun _ s' => I n fo c s')).
    { destruct (uadd (N.shiftr wa PAGE_BITS) 1 =? adat (c_key (m_cache s)) slot); [apply post_ret; assumption|].
      eapply post_bind_w; [apply (mem_get_page_ok al ov wa s n fo c H); lia|auto|].
      intros p s' H'. apply post_ret. eapply I_weaken; [exact H'|lia]. }
    intros [] s1 H1. rewrite bind_gets.
    destruct (cache_slot_facts s1 n fo c slot H1 Hslot) as (M1 & M4 & M5 & M3 & Mv).
    rewrite !aget_ok by lia. rewrite !bind_lift_ok.
    set (off := N.land wa PAGE_MASK) in *. set (vs := adat (c_vs (m_cache s1)) slot). set (ve := adat (c_ve (m_cache s1)) slot) in *.
    destruct (N.ltb_spec off vs); cbn [orb].
    { eapply post_bind; [apply (mem_read_word_ok al ov _ s1 n _ c H1); lia|].
      intros r s' Hr. apply post_ret. exists n. split; [lia|]. split; [exact Hr|exact Logic.I]. }
    destruct (N.leb_spec ve off).
    { eapply post_bind; [apply (mem_read_word_ok al ov _ s1 n _ c H1); lia|].
      intros r s' Hr. apply post_ret. exists n. split; [lia|]. split; [exact Hr|exact Logic.I]. }
    rewrite bind_lift_ok.
    destruct (Mv ltac:(lia)) as (p & -> & Hp & Hve). rewrite bind_lift_ok.
    pose proof (I_ghost n p fo c s1 H1 Hp) as Hg.
    eapply post_bind_w; [apply (page_read_ok p off s1 _ fo c Hg); lia|intros sx Hx; eapply I_weaken; [exact Hx|lia]|].
    intros f s2 [-> Hf]. apply post_ret. exists (N.max n (p + 1)). split; [lia|]. split; [split; [assumption|intros x [= <-]; assumption]|].
    cbn. split; [lia|split; assumption]. }
  intros [[f|] lane] s1 (n' & Hn' & [H1 Hf] & Hlane); cbn [fst snd] in *.
  2:{ eapply post_weaken; [apply (memory_error_exit_ok l2 s1 n' fo c H1 Hl)| |].
      - cbv beta. intros r s2 [H2 Hr]. split; [eapply I_weaken; eassumption|assumption].
      - intros s2 H2. eapply I_weaken; eassumption. }
  specialize (Hf f eq_refl).
  (* from here on everything runs under the ghost n' and is weakened to n at the end *)
  apply (post_weaken _ (fun r s' => I n' fo c s' /\ wf_stepres r) _ (I n' fo c));
    [|intros r s2 [H2 Hr]; split; [eapply I_weaken; eassumption|assumption]|intros s2 H2; eapply I_weaken; eassumption].
  eapply post_bind; [apply (io_phase_ok al ov wd l2 f s1 n' _ c H1 Hl)|].
  intros [l3|r] s2 [H2 Hr]; [|apply post_ret; split; assumption]. destruct Hr as [Hl3 (Eip3 & Er3 & _)].
  (* FLIP *)
  pose proof (shiftr_ww_lt c f Wc Hf) as Hfwa.
  eapply (post_bind _ _ _ (fun _ s' => I n' fo c s')).
  { destruct with_ring; [now apply mem_flip_bit_ok|].
    set (fwa := N.shiftr f (c_ww c)) in *.
    pose proof (land_15_lt (N.shiftr fwa PAGE_BITS)) as Hslot. set (fslot := N.land (N.shiftr fwa PAGE_BITS) 15) in *.
    rewrite bind_gets. destruct (cache_slot_facts s2 n' fo c fslot H2 Hslot) as (M1 & M4 & M5 & M3 & Mv).
    rewrite aget_ok by lia. rewrite bind_lift_ok.
    destruct (negb (uadd (N.shiftr fwa PAGE_BITS) 1 =? adat (c_key (m_cache s2)) fslot)); [now apply mem_flip_bit_ok|].
    rewrite !aget_ok by lia. rewrite !bind_lift_ok.
    set (foff := N.land fwa PAGE_MASK). set (vs := adat (c_vs (m_cache s2)) fslot). set (ve := adat (c_ve (m_cache s2)) fslot) in *.
    destruct (N.ltb_spec foff vs); cbn [orb]; [now apply mem_flip_bit_ok|].
    destruct (N.leb_spec ve foff); [now apply mem_flip_bit_ok|].
    rewrite bind_lift_ok.
    destruct (Mv ltac:(lia)) as (p & -> & Hp & Hve). rewrite bind_lift_ok.
    destruct (shl1_ok c f Wc) as [bit ->]. rewrite bind_lift_ok.
    pose proof (I_ghost n' p fo c s2 H2 Hp) as Hg.
    eapply post_bind_w; [apply (page_read_ok p foff s2 _ fo c Hg); lia|intros sx Hx; eapply I_weaken; [exact Hx|lia]|].
    intros v s3 [-> Hv].
    eapply post_bind_w; [apply (page_write_ok p foff (N.lxor v bit) s2 _ fo c Hg); lia|intros sx Hx; eapply I_weaken; [exact Hx|lia]|].
    intros [] sy Hy. apply post_ret. eapply I_weaken; [exact Hy|lia]. }
  intros okf s3 H3. destruct okf; cbn [negb]; [|now apply memory_error_exit_ok].
  (* read jump word *)
  eapply (post_bind _ _ _ (Ival n' fo c)).
  { destruct lane as [p off ve|ja|]; cbn in Hlane.
    - destruct Hlane as (Hp & Hoff & Hve). destruct (N.leb_spec ve (off + 1)).
      + unfold nowrap. destruct (N.ltb_spec (N.shiftr (l_ip l2) (c_ww c) + 1) U64); [|lia]. rewrite bind_lift_ok.
        apply mem_read_word_ok; [assumption|lia].
      + eapply post_bind; [apply (page_read_ok p (off + 1) s3 n' fo c H3 Hp); lia|].
        intros v s4 [-> Hv]. apply post_ret. split; [assumption|intros x [= <-]; assumption].
    - destruct Hlane as [-> Hja]. now apply flat_value_ok.
    - destruct (negb (N.land (l_ip l2) (usub (c_w c) 1) =? 0)); [apply mem_get_word_unaligned_ok; [assumption|apply wrapv_lt]|].
      unfold nowrap. destruct (N.ltb_spec (N.shiftr (l_ip l2) (c_ww c) + 1) U64); [|lia]. rewrite bind_lift_ok.
      apply mem_read_word_ok; [assumption|lia]. }
  intros [j|] s4 [H4 Hj]; [|now apply memory_error_exit_ok].
  apply post_ret. split; [assumption|]. apply finish_op_wf; [assumption|now apply Hj].
Qed.

Lemma paged_op_ok al ov wd fc l s n fo c :
  I n fo c s -> wf_loc l -> (forall x, fo = Some x -> fc = x) ->
  post (paged_op al ov wd fc l s) (fun r s' => I n fo c s' /\ wf_stepres r) (I n fo c).
Proof.
  intros H Hl0 Hfc.
  unfold paged_op. pose proof (signal_check_wf wd l Hl0) as Hsc.
  destruct (signal_check wd l) as [l1|r]; [|apply post_ret; split; assumption].
  rename Hsc into Hl1.
  (* the ring write *)
  eapply (post_bind _ _ _ (fun lr s' => s' = s /\ wf_loc lr /\ l_ip lr = l_ip l1)).
  { pose proof Hl1 as (Hip1 & Hring & Hsh). destruct (l_ring l1) as [ring|] eqn:Er; [|apply post_ret; auto].
    destruct Hring as [Hrl Hpos]. unfold umod. destruct (N.eqb_spec (l_rlen l1) 0); [lia|]. rewrite bind_lift_ok.
    assert (l_rw l1 mod l_rlen l1 < l_rlen l1) by (apply N.mod_lt; lia).
    rewrite aset_ok by lia. rewrite bind_lift_ok. apply post_ret. split; [reflexivity|]. split; [|reflexivity].
    split; [exact Hip1|]. split; [cbn [l_ring l_rlen set_ring]; split; [exact Hrl|exact Hpos]|exact Hsh]. }
  intros l2 s' (-> & Hl & Eip).
  eapply post_bind; [eapply post_catch; apply (paged_op_body_ok al ov wd fc l2 s n fo c H Hl Hfc)|].
  intros [r|e] s1 Hx; apply post_ret; [exact Hx|split; [exact Hx|exact Hl]].
Qed.

(* ---------------------------------------------------------------- run_measured_loop *)

Lemma spec_record_ok al ov l ip j s n fo c :
  I n fo c s -> wf_loc l ->
  post (spec_record al ov l ip j s) (fun l' s' => I n fo c s' /\ wf_loc l' /\ l_ip l' = l_ip l) (I n fo c).
Proof.
  intros H Hl. pose proof Hl as (Hip & Hring & Wsh). unfold spec_record.
  destruct (tbl_needs_grow_ok _ _ Wsh) as (g & -> & Hg1 & Hg0). rewrite bind_lift_ok.
  eapply (post_bind _ _ _ (fun t s' => I n fo c s' /\ wf_tbl (fun _ : N => True) t /\ t_used t * 2 < t_count t /\ exists a, t_slots t = Some a)).
  { destruct g.
    - destruct (tbl_new_count_ok _ 65536 _ Wsh) as [nc Hnc]. rewrite Hnc, bind_lift_ok.
      eapply post_bind; [apply (try_alloc_ok al (nc * 16) s n fo c H)|].
      intros ok s' (-> & H' & Hok). destruct ok; [|apply post_raise; assumption].
      destruct (tbl_grow_ok 0 (fun _ : N => True) ov 65536 (l_shadow l) nc Wsh pow2_65536 ltac:(lia) Hnc (Hok eq_refl) (Hg1 eq_refl))
        as (t' & Hr & Hwt & Hld & _ & Hsome).
      rewrite Hr. apply post_lift_ok. auto.
    - apply post_ret. destruct (Hg0 eq_refl). auto. }
  intros t s1 (H1 & Wt & Hld & [a Ha]).
  pose proof Wt as Wt'. unfold wf_tbl in Wt'. rewrite Ha in Wt'. destruct Wt' as [Wsl Hle].
  assert (Hlt1 : t_used t < t_count t) by lia.
  destruct (tbl_probe_ok 0 (fun _ : N => True) ov t (wrapv ov V_ip_plus1 (ip + 1)) a Ha Wsl Hlt1) as [r [Hr Hres]].
  rewrite Hr, bind_lift_ok. destruct r as [h jw|h].
  - destruct Hres as (Hh & Hat & Hkey).
    destruct (jw =? j).
    + rewrite bind_lift_ok. apply post_ret. split; [assumption|]. split; [|reflexivity]. split; [exact Hip|split; [exact Hring|exact Wt]].
    + destruct (tbl_set_val_ok 0 (fun _ : N => True) t a h _ j jw Ha Wsl Hle Hh Hat Hkey Logic.I) as (t' & -> & Wt2).
      rewrite bind_lift_ok. apply post_ret. split; [assumption|]. split; [|reflexivity]. split; [exact Hip|split; [exact Hring|exact Wt2]].
  - destruct Hres as (Hh & Hz).
    destruct (tbl_insert_ok 0 (fun _ : N => True) t a h (wrapv ov V_ip_plus1 (ip + 1)) j Ha Wsl Hld Hh Hz Logic.I) as (t' & -> & Wt2 & _).
    rewrite bind_lift_ok. apply post_ret. split; [assumption|]. split; [|reflexivity]. split; [exact Hip|split; [exact Hring|exact Wt2]].
Qed.

Lemma measured_op_ok al ov wd l s n fo c :
  I n fo c s -> wf_loc l ->
  post (measured_op al ov wd l s) (fun r s' => I n fo c s' /\ wf_stepres r) (I n fo c).
Proof.
  intros H Hl. pose proof (I_cfg _ _ _ _ H) as Wc. pose proof H as (_ & _ & _ & Ec). pose proof Hl as (Hip & _).
  unfold measured_op.
  destruct ((N.land (l_ops l) (SIGNAL_CHECK_PERIOD - 1) =? SIGNAL_CHECK_PERIOD - 1) && w_sig wd (l_ops l)); [apply post_ret; split; assumption|].
  rewrite bind_gets, Ec.
  eapply post_bind; [apply (mem_get_word_unaligned_ok al ov _ s n fo c H Hip)|].
  intros [f|] s1 [H1 Hf]; [|now apply memory_error_exit_ok]. specialize (Hf f eq_refl).
  eapply post_bind; [apply (io_phase_ok al ov wd l f s1 n _ c H1 Hl)|].
  intros [l1|r] s2 [H2 Hr]; [|apply post_ret; split; assumption]. destruct Hr as [Hl1 (Eip & _)].
  eapply post_bind; [apply (mem_flip_bit_ok al ov f s2 n fo c H2 Hf)|].
  intros okf s3 H3. destruct okf; cbn [negb]; [|now apply memory_error_exit_ok].
  eapply post_bind; [apply (mem_get_word_unaligned_ok al ov _ s3 n fo c H3); apply wrapv_lt|].
  intros [j|] s4 [H4 Hj]; [|now apply memory_error_exit_ok].
  eapply post_bind; [apply (spec_record_ok al ov l1 (l_ip l) j s4 n fo c H4 Hl1)|].
  intros l2 s5 (H5 & Hl2 & _). apply post_ret. split; [assumption|]. apply finish_op_wf; [assumption|now apply Hj].
Qed.

(* ---------------------------------------------------------------- any number of ops of any of the three loops *)

Definition wf_runres (r : runres) : Prop := match r with Finished _ l | Failed _ l | Running l => wf_loc l end.

(* the loops a dispatcher can select: the flat loop only on flat storage, with the cached flat_count *)
Definition loop_pre (k : loopkind) (fo : option N) (fc : N) : Prop :=
  match k with LFlat => fo = Some fc | LPaged => forall x, fo = Some x -> fc = x | LMeasured => True end.

Lemma loop_op_ok k al ov wd fc l s n fo c :
  I n fo c s -> wf_loc l -> loop_pre k fo fc ->
  post (loop_op k al ov wd fc l s) (fun r s' => I n fo c s' /\ wf_stepres r) (I n fo c).
Proof.
  intros H Hl Hp. destruct k; cbn in Hp |- *.
  - subst fo. now apply flat_op_ok.
  - now apply paged_op_ok.
  - now apply measured_op_ok.
Qed.

Lemma loop_n_ok k al ov wd fc steps : forall l s n fo c,
  I n fo c s -> wf_loc l -> loop_pre k fo fc ->
  post (loop_n steps k al ov wd fc l s) (fun r s' => I n fo c s' /\ wf_runres r) (I n fo c).
Proof.
  induction steps as [|steps IH]; intros l s n fo c H Hl Hp; cbn [loop_n]; [apply post_ret; split; assumption|].
  eapply post_bind; [apply (loop_op_ok k al ov wd fc l s n fo c H Hl Hp)|].
  intros [l'|cz l'|e l'] s' [H' Hr]; cbn in Hr; [now apply IH|apply post_ret; split; assumption..].
Qed.

(* ---------------------------------------------------------------- the last-ops ring (build_run_result) *)

Lemma ring_go_ok ring start len : alen ring = len -> 0 < len -> forall k i, exists r, ring_go k i ring start len = Ok r.
Proof.
  intros Hl Hpos. induction k as [|k IH]; intros i; cbn [ring_go]; [eauto|].
  unfold umod. destruct (N.eqb_spec len 0); [lia|]. cbn [rbind].
  assert (uadd start i mod len < len) by (apply N.mod_lt; lia).
  rewrite aget_ok by lia. cbn [rbind]. destruct (IH (i + 1)) as [r ->]. cbn. eauto.
Qed.

Lemma ring_readout_ok l : wf_loc l -> exists r, ring_readout l = Ok r.
Proof.
  intros (_ & Hring & _). unfold ring_readout. destruct (l_ring l) as [ring|]; [|eauto]. destruct Hring as [Hl Hpos].
  unfold umod. destruct (N.eqb_spec (l_rlen l) 0); [lia|]. cbn [rbind]. now apply ring_go_ok.
Qed.
