(* C15 - proofs about Model/Debug.v against Spec/DebugSpec.v and Spec/MachineSpec.v *)
From FJ Require Import Lib.Base Spec.MachineSpec Spec.DebugSpec Model.Debug Proofs.MachineProps.
Local Open Scope N_scope.

(* ---------- the prompt loop ---------- *)
Section Query.
Variable ww : N.
Variable sg : list (N * N).
Variable tbl : list (line * Z).

Lemma pauses_app a b : pauses (a ++ b) = pauses a ++ pauses b.
Proof. induction a as [|e a IH]; simpl; auto. destruct e; simpl; rewrite ?IH; auto. Qed.

Ltac break_matches :=
  repeat match goal with
  | |- context [match ?x with _ => _ end] => destruct x
  | |- context [if ?x then _ else _] => destruct x
  end.

Lemma show_addr_np mm pre a evs : pauses (show_addr ww sg mm pre a :: evs) = pauses evs.
Proof. unfold show_addr. break_matches; reflexivity. Qed.

Lemma read_event_np mm t evs : pauses (read_event ww sg mm tbl t :: evs) = pauses evs.
Proof. unfold read_event. destruct (parse_target t). break_matches; apply show_addr_np || reflexivity. Qed.

Lemma actions_of_cons l sc :
  actions_of (l :: sc) = (match parse_line l with CAct a => [a] | _ => [] end) ++ actions_of sc.
Proof. reflexivity. Qed.

(* the action chosen by the prompt and the lines it leaves depend on the script only (not on memory);
   what is left yields the remaining actions *)
Lemma query_actions mm : forall script a eof evs rest,
  query ww sg mm tbl script = (a, eof, evs, rest) ->
  actions_of script = (if eof then [] else a :: actions_of rest) /\ (eof = true -> a = AExit /\ rest = []) /\ pauses evs = [].
Proof.
  induction script as [|l sc IH]; intros a eof evs rest H.
  - simpl in H. inversion H; subst. simpl. auto.
  - simpl in H. rewrite actions_of_cons.
    destruct (query ww sg mm tbl sc) as [[[a1 eof1] evs1] rest1] eqn:Q.
    specialize (IH _ _ _ _ eq_refl). destruct IH as (IA & IE & IP).
    destruct (parse_line l) eqn:P; inversion H; subst; cbn [app];
      rewrite ?read_event_np; repeat split; auto; try discriminate; try (intros; now apply IE).
Qed.

Lemma query_no_quit mm : forall script a eof evs rest,
  query ww sg mm tbl script = (a, eof, evs, rest) -> no_quit script = true ->
  no_quit rest = true /\ (a = AExit -> eof = true).
Proof.
  induction script as [|l sc IH]; intros a eof evs rest H NQ.
  - simpl in H. inversion H; subst. auto.
  - simpl in H. simpl in NQ. apply andb_true_iff in NQ. destruct NQ as [N1 N2].
    destruct (query ww sg mm tbl sc) as [[[a1 eof1] evs1] rest1] eqn:Q.
    specialize (IH _ _ _ _ eq_refl N2).
    destruct (parse_line l) eqn:P; inversion H; subst; auto.
    split; auto. intros ->. discriminate.
Qed.

End Query.

(* ---------- the loop ---------- *)
Section Run.
Variable ww : N.
Variable sg : list (N * N).
Variable bps : list N.
Variable tbl : list (line * Z).

Local Arguments prepend : simpl never.
Notation drun := (drun ww sg bps tbl).
Notation pre_op := (pre_op ww sg bps tbl).

Lemma prepend_cause e r : d_cause (prepend e r) = d_cause r. Proof. reflexivity. Qed.
Lemma prepend_st e r : d_st (prepend e r) = d_st r. Proof. reflexivity. Qed.
Lemma prepend_events e r : d_events (prepend e r) = e ++ d_events r. Proof. reflexivity. Qed.

(* A run that ends with a machine cause IS the undebugged run: same cause and the same final state
   (memory, input left, output, op count, last-ops history). *)
Lemma drun_transparent : forall k s h script c,
  d_cause (drun k s h script) = DM c -> run ww sg k s = (c, d_st (drun k s h script)).
Proof.
  induction k as [|k IH]; intros s h script c H.
  - simpl in *. inversion H; subst. reflexivity.
  - simpl in *. destruct (pre_op s h script) as [d evs rest | h' rest evs] eqn:P.
    + simpl in H. unfold Debug.pre_op in P.
      destruct h as [|nb]; [discriminate|].
      destruct (should_break bps nb (ip s) (ops s)); [|discriminate].
      destruct (banner ww sg (m s) (ip s)) as [f j].
      destruct (query ww sg (m s) tbl script) as [[[act eof] evs0] rest0].
      destruct (apply_action act (ops s)); [discriminate|].
      inversion P; subst. destruct eof; discriminate.
    + destruct (step ww sg s) as [s'|[c' s']].
      * rewrite prepend_cause in H. rewrite prepend_st. now apply IH.
      * simpl in *. inversion H; subst. reflexivity.
Qed.

(* KeyboardInterrupt by a quit command needs a quit command *)
Lemma drun_no_quit : forall k s h script,
  no_quit script = true -> d_cause (drun k s h script) <> DQuit.
Proof.
  induction k as [|k IH]; intros s h script NQ.
  - simpl. discriminate.
  - simpl. destruct (pre_op s h script) as [d evs rest | h' rest evs] eqn:P.
    + simpl. unfold Debug.pre_op in P.
      destruct h as [|nb]; [discriminate|].
      destruct (should_break bps nb (ip s) (ops s)); [|discriminate].
      destruct (banner ww sg (m s) (ip s)) as [f j].
      destruct (query ww sg (m s) tbl script) as [[[act eof] evs0] rest0] eqn:Q.
      destruct (query_no_quit _ _ _ _ _ _ _ _ _ Q NQ) as [_ E].
      destruct act; simpl in P; try discriminate.
      inversion P; subst. rewrite (E eq_refl). discriminate.
    + assert (NR : no_quit rest = true).
      { unfold Debug.pre_op in P. destruct h as [|nb]; [inversion P; subst; auto|].
        destruct (should_break bps nb (ip s) (ops s)); [|inversion P; subst; auto].
        destruct (banner ww sg (m s) (ip s)) as [f j].
        destruct (query ww sg (m s) tbl script) as [[[act eof] evs0] rest0] eqn:Q.
        destruct (query_no_quit _ _ _ _ _ _ _ _ _ Q NQ) as [R _].
        destruct (apply_action act (ops s)); inversion P; subst; auto. }
      destruct (step ww sg s) as [s'|[c' s']].
      * rewrite prepend_cause. now apply IH.
      * simpl. discriminate.
Qed.

Lemma dcause_cases (d : dcause) : (exists c, d = DM c) \/ d = DQuit \/ d = DEof.
Proof. destruct d; eauto. Qed.

Theorem transparent fuel m0 input script :
  let r := debug_run ww sg bps tbl fuel m0 input script in
  no_quit script = true -> ran_dry r = false ->
  dobs r = Some (mobs (run ww sg fuel (init m0 input))) /\ d_st r = snd (run ww sg fuel (init m0 input)).
Proof.
  intros r NQ ND. unfold debug_run in r.
  destruct (dcause_cases (d_cause r)) as [[c E]|[E|E]].
  - pose proof (drun_transparent _ _ _ _ _ E) as T. fold r in T. rewrite T.
    unfold dobs, mobs. rewrite E. simpl. auto.
  - exfalso. exact (drun_no_quit _ _ _ _ NQ E).
  - unfold ran_dry in ND. rewrite E in ND. discriminate.
Qed.

(* ---------- pauses ---------- *)
Definition expected (h : hstate) (tr : list (N * N)) (acts : list action) : list (N * N) :=
  match h with HGone => [] | HAlive nb => expected_pauses bps tr nb acts end.

Lemma pauses_exact : forall k s h script,
  pauses (d_events (drun k s h script)) = expected h (trace ww sg k s) (actions_of script).
Proof.
  induction k as [|k IH]; intros s h script.
  - simpl. destruct h; reflexivity.
  - simpl in *. unfold Debug.pre_op.
    destruct h as [|nb].
    + (* handler gone *)
      destruct (step ww sg s) as [s'|[c' s']]; simpl; [|reflexivity].
      rewrite ?prepend_events. simpl. idtac.
      apply (IH s' HGone script).
    + simpl. unfold should_break in *.
      destruct ((match nb with Some x => x =? ops s | None => false end) || existsb (N.eqb (ip s)) bps) eqn:SB.
      * destruct (banner ww sg (m s) (ip s)) as [f j].
        destruct (query ww sg (m s) tbl script) as [[[act eof] evs0] rest0] eqn:Q.
        destruct (query_actions _ _ _ _ _ _ _ _ _ Q) as (QA & QE & QP).
        rewrite QA.
        destruct act; simpl in *.
        -- (* step *)
           destruct eof; [destruct (QE eq_refl); discriminate|].
           destruct (step ww sg s) as [s'|[c' s']]; simpl.
           ++ rewrite !pauses_app, QP. simpl. f_equal.
              idtac.
              apply (IH s' (HAlive (Some (ops s + 1))) rest0).
           ++ rewrite !pauses_app, QP. simpl. reflexivity.
        -- destruct eof; [destruct (QE eq_refl); discriminate|].
           destruct (step ww sg s) as [s'|[c' s']]; simpl.
           ++ rewrite !pauses_app, QP. simpl. f_equal.
              idtac.
              apply (IH s' (HAlive (Some (ops s + n))) rest0).
           ++ rewrite !pauses_app, QP. simpl. reflexivity.
        -- destruct eof; [destruct (QE eq_refl); discriminate|].
           destruct (step ww sg s) as [s'|[c' s']]; simpl.
           ++ rewrite !pauses_app, QP. simpl. f_equal.
              idtac.
              apply (IH s' (HAlive None) rest0).
           ++ rewrite !pauses_app, QP. simpl. reflexivity.
        -- destruct eof; [destruct (QE eq_refl); discriminate|].
           destruct (step ww sg s) as [s'|[c' s']]; simpl.
           ++ rewrite !pauses_app, QP. simpl. f_equal.
              idtac.
              apply (IH s' HGone rest0).
           ++ rewrite !pauses_app, QP. simpl. reflexivity.
        -- (* exit *)
           rewrite !pauses_app, QP. simpl. destruct eof; reflexivity.
      * destruct (step ww sg s) as [s'|[c' s']]; simpl; [|reflexivity].
        idtac.
        apply (IH s' (HAlive nb) script).
Qed.

(* ---------- quit / end of input ---------- *)
Lemma drun_interrupt : forall k s h script,
  (d_cause (drun k s h script) = DQuit \/ d_cause (drun k s h script) = DEof) ->
  exists n s', (n < k)%nat /\ nsteps ww sg n s = Some s' /\ d_st (drun k s h script) = touch s' /\
               ops s' = ops s + N.of_nat n /\
               exists evs, d_events (drun k s h script) = evs ++ [EvAct AExit].
Proof.
  induction k as [|k IH]; intros s h script H.
  - simpl in H. destruct H; discriminate.
  - simpl in *. destruct (pre_op s h script) as [d evs rest | h' rest evs] eqn:P.
    + simpl in *. exists 0%nat, s. split; [lia|]. split; [reflexivity|]. split; [reflexivity|].
      split; [lia|].
      unfold Debug.pre_op in P. destruct h as [|nb]; [discriminate|].
      destruct (should_break bps nb (ip s) (ops s)); [|discriminate].
      destruct (banner ww sg (m s) (ip s)) as [f j].
      destruct (query ww sg (m s) tbl script) as [[[act eof] evs0] rest0].
      destruct act; simpl in P; try discriminate. inversion P; subst.
      exists (EvPause (existsb (N.eqb (ip s)) bps) (ip s) (ops s) f j :: evs0). reflexivity.
    + destruct (step ww sg s) as [s1|[c' s1]] eqn:ST.
      * rewrite prepend_cause in H. destruct (IH s1 h' rest H) as (n & s' & LT & NS & DS & OP & evs1 & EV).
        exists (S n), s'. split; [lia|]. simpl. rewrite ST. split; [exact NS|].
        rewrite ?prepend_st. split; [exact DS|]. split.
        { rewrite OP. rewrite (step_ops ww sg s s1 ST). lia. }
        exists (evs ++ evs1). rewrite ?prepend_events; simpl; rewrite EV. now rewrite app_assoc.
      * simpl in H. destruct H; discriminate.
Qed.

(* ---------- everything that is not a resuming action is inert ---------- *)
Lemma actions_inj_query mm1 mm2 sc1 sc2 a1 e1 v1 r1 a2 e2 v2 r2 :
  query ww sg mm1 tbl sc1 = (a1, e1, v1, r1) -> query ww sg mm2 tbl sc2 = (a2, e2, v2, r2) ->
  actions_of sc1 = actions_of sc2 -> a1 = a2 /\ e1 = e2 /\ actions_of r1 = actions_of r2.
Proof.
  intros Q1 Q2 E.
  destruct (query_actions _ _ _ _ _ _ _ _ _ Q1) as (A1 & X1 & _).
  destruct (query_actions _ _ _ _ _ _ _ _ _ Q2) as (A2 & X2 & _).
  rewrite A1, A2 in E. destruct e1, e2; try discriminate.
  - destruct (X1 eq_refl) as [-> ->]. destruct (X2 eq_refl) as [-> ->]. auto.
  - inversion E; subst. auto.
Qed.

Lemma drun_inert : forall k s h sc1 sc2,
  actions_of sc1 = actions_of sc2 ->
  d_cause (drun k s h sc1) = d_cause (drun k s h sc2) /\ d_st (drun k s h sc1) = d_st (drun k s h sc2) /\
  pauses (d_events (drun k s h sc1)) = pauses (d_events (drun k s h sc2)).
Proof.
  induction k as [|k IH]; intros s h sc1 sc2 E.
  - simpl. auto.
  - simpl. unfold Debug.pre_op. destruct h as [|nb].
    + destruct (step ww sg s) as [s'|[c' s']]; simpl; auto;
        rewrite ?prepend_cause, ?prepend_st, ?prepend_events; simpl; apply (IH s' HGone sc1 sc2 E).
    + destruct (should_break bps nb (ip s) (ops s)).
      * destruct (banner ww sg (m s) (ip s)) as [f j].
        destruct (query ww sg (m s) tbl sc1) as [[[a1 e1] v1] r1] eqn:Q1.
        destruct (query ww sg (m s) tbl sc2) as [[[a2 e2] v2] r2] eqn:Q2.
        destruct (actions_inj_query _ _ _ _ _ _ _ _ _ _ _ _ Q1 Q2 E) as (-> & -> & ER).
        destruct (query_actions _ _ _ _ _ _ _ _ _ Q1) as (_ & _ & P1).
        destruct (query_actions _ _ _ _ _ _ _ _ _ Q2) as (_ & _ & P2).
        destruct (apply_action a2 (ops s)) as [h'|].
        -- destruct (step ww sg s) as [s'|[c' s']]; simpl.
           ++ rewrite ?prepend_cause, ?prepend_st, ?prepend_events.
              simpl. rewrite !pauses_app, P1, P2. simpl.
              destruct (IH s' h' r1 r2 ER) as (I1 & I2 & I3).
              rewrite I1, I2, I3. auto.
           ++ rewrite !pauses_app, P1, P2. auto.
        -- simpl. rewrite !pauses_app, P1, P2. auto.
      * destruct (step ww sg s) as [s'|[c' s']]; simpl; auto;
          rewrite ?prepend_cause, ?prepend_st, ?prepend_events; simpl; apply (IH s' (HAlive nb) sc1 sc2 E).
Qed.

End Run.

(* ---------- the statements for a whole debugged run (Properties/C15.v) ---------- *)
Lemma pauses_debug_run ww sg bps tbl fuel m0 input script :
  let r := debug_run ww sg bps tbl fuel m0 input script in
  pauses (d_events r) = expected_pauses bps (trace ww sg fuel (init m0 input)) None (actions_of script).
Proof. exact (pauses_exact ww sg bps tbl fuel _ (HAlive None) script). Qed.

Lemma quit_prefix ww sg bps tbl fuel m0 input script :
  let r := debug_run ww sg bps tbl fuel m0 input script in
  (d_cause r = DQuit \/ d_cause r = DEof) ->
  exists n s', (n < fuel)%nat /\ nsteps ww sg n (init m0 input) = Some s' /\ d_st r = touch s' /\
               ops s' = N.of_nat n /\ exists evs, d_events r = evs ++ [EvAct AExit].
Proof.
  intros r H.
  destruct (drun_interrupt ww sg bps tbl fuel _ (HAlive None) script H) as (n & s' & A & B & C & D & E).
  exists n, s'. repeat split; auto.
Qed.

Lemma quit_needs_command ww sg bps tbl fuel m0 input script :
  no_quit script = true -> d_cause (debug_run ww sg bps tbl fuel m0 input script) <> DQuit.
Proof. intros. now apply drun_no_quit. Qed.

Lemma reads_inert ww sg bps tbl fuel m0 input sc1 sc2 :
  actions_of sc1 = actions_of sc2 ->
  let r1 := debug_run ww sg bps tbl fuel m0 input sc1 in
  let r2 := debug_run ww sg bps tbl fuel m0 input sc2 in
  d_cause r1 = d_cause r2 /\ d_st r1 = d_st r2 /\ pauses (d_events r1) = pauses (d_events r2).
Proof. intros E. exact (drun_inert ww sg bps tbl fuel _ _ sc1 sc2 E). Qed.

(* ---------- reads report the true current value ---------- *)
Section Reads.
Variable ww : N.
Variable sg : list (N * N).
Notation w := (w ww).
Notation wmask := (wmask ww).

Lemma w_pow : w = 2 ^ ww.
Proof. unfold MachineSpec.w. now rewrite N.shiftl_1_l. Qed.

Lemma w_pos : 0 < w.
Proof. rewrite w_pow. apply N.neq_0_lt_0. apply N.pow_nonzero. discriminate. Qed.

Lemma land_wm1 x : N.land x (w - 1) = x mod w.
Proof.
  rewrite w_pow. rewrite <- N.land_ones. f_equal. unfold N.ones. rewrite N.shiftl_1_l. now rewrite N.sub_1_r.
Qed.

Lemma land_wmask_small x : x <= wmask -> N.land x wmask = x.
Proof.
  unfold MachineSpec.wmask. intros H. rewrite N.land_ones. apply N.mod_small.
  unfold N.ones in H. rewrite N.shiftl_1_l in H.
  assert (0 < 2 ^ w) by (apply N.neq_0_lt_0, N.pow_nonzero; discriminate). lia.
Qed.

(* below the wrap of the Reader's word addresses, Reader.get_word is the machine's get_word *)
Lemma rd_get_word_small mm ba : N.shiftr ba ww < wmask -> rd_get_word ww sg mm ba = get_word ww sg mm ba.
Proof.
  intros H. unfold rd_get_word, get_word.
  rewrite (land_wmask_small (N.shiftr ba ww)) by lia.
  rewrite (land_wmask_small (N.shiftr ba ww + 1)) by lia.
  destruct (N.land ba (w - 1) =? 0) eqn:A.
  - destruct (rdw sg mm (N.shiftr ba ww)); reflexivity.
  - destruct (N.shiftr ba ww =? wmask) eqn:B; [apply N.eqb_eq in B; lia|].
    destruct (rdw sg mm (N.shiftr ba ww)); reflexivity.
Qed.

Lemma shiftr_mono a b : a <= b -> N.shiftr a ww <= N.shiftr b ww.
Proof.
  intros H. rewrite !N.shiftr_div_pow2. apply N.div_le_mono; [apply N.pow_nonzero; discriminate | exact H].
Qed.

(* an in-range address stays below the wrap (real widths have ww >= 3) *)
Lemma in_range_small a : 0 < ww -> a < N.shiftl 1 w -> N.shiftr a ww < wmask.
Proof.
  intros Hw H. unfold MachineSpec.wmask, N.ones. rewrite N.shiftl_1_l in *.
  rewrite N.shiftr_div_pow2.
  assert (P : 2 <= 2 ^ ww).
  { replace 2 with (2 ^ 1) at 1 by reflexivity. apply N.pow_le_mono_r; [discriminate | lia]. }
  assert (Q : a / 2 ^ ww <= a / 2) by (apply N.div_le_compat_l; lia).
  assert (W : 2 <= 2 ^ w).
  { replace 2 with (2 ^ 1) at 1 by reflexivity. apply N.pow_le_mono_r; [discriminate | pose proof w_pos; lia]. }
  assert (a / 2 < 2 ^ w - 1); [|lia].
  apply N.div_lt_upper_bound; lia.
Qed.

(* a plain word read: the printed value is the machine word at the printed address *)
Theorem read_word_true mm a a' v :
  0 < ww -> show_addr ww sg mm None a = EvReadWord a' v ->
  a' = a /\ (0 <= a)%Z /\ get_word ww sg mm (Z.to_N a) = inr v.
Proof.
  intros Hw H. unfold show_addr in H.
  destruct (negb ((a mod Z.of_N w) =? 0)%Z || (a <? 0)%Z || (Z.of_N (N.shiftl 1 w) <=? a)%Z) eqn:G; [discriminate|].
  apply orb_false_iff in G. destruct G as [G G3]. apply orb_false_iff in G. destruct G as [G1 G2].
  destruct (rd_get_word ww sg mm (Z.to_N a)) as [f|v0] eqn:R; [discriminate|].
  inversion H; subst. split; [reflexivity|]. split; [lia|].
  rewrite <- R. symmetry. apply rd_get_word_small. apply in_range_small; [exact Hw|]. lia.
Qed.

(* decode = little-endian sum of fields *)
Fixpoint dec (bpw : N) (ws : list N) : N :=
  match ws with
  | [] => 0
  | x :: r => N.lor (N.shiftl (dec bpw r) bpw) (N.land (N.shiftr x (ww + 1)) (N.ones bpw))
  end.

Lemma decode_dec bpw ws : decode ww bpw ws = dec bpw ws.
Proof.
  unfold decode. rewrite <- fold_left_rev_right. rewrite rev_involutive.
  induction ws as [|x r IH]; simpl; [reflexivity|]. now rewrite IH.
Qed.

Lemma lor_shiftl_small a y n : N.lor (N.shiftl a n) (N.land y (N.ones n)) = N.land y (N.ones n) + N.shiftl a n.
Proof.
  assert (Z0 : N.land (N.shiftl a n) (N.land y (N.ones n)) = 0).
  { apply N.bits_inj. intros i. rewrite N.bits_0, !N.land_spec.
    destruct (N.lt_ge_cases i n) as [L|G].
    - rewrite N.shiftl_spec_low by exact L. reflexivity.
    - rewrite (N.ones_spec_high n i) by exact G. now rewrite !andb_false_r. }
  rewrite <- N.lxor_lor by exact Z0. rewrite N.add_comm. symmetry. now apply N.add_nocarry_lxor.
Qed.

Lemma read_words_value mm bpw base : forall n i0 ws,
  (forall i, i < i0 + N.of_nat n -> N.shiftr (base + (2 * i + 1) * w) ww < wmask) ->
  read_words ww sg mm (base + (2 * i0 + 1) * w) n = inr ws ->
  dec bpw ws = var_value ww sg mm bpw base i0 n.
Proof.
  induction n as [|n IH]; intros i0 ws SM H.
  - simpl in H. inversion H; subst. reflexivity.
  - simpl in H.
    destruct (rd_get_word ww sg mm (base + (2 * i0 + 1) * w)) as [f|v] eqn:R; [discriminate|].
    replace (base + (2 * i0 + 1) * w + dw ww) with (base + (2 * (i0 + 1) + 1) * w) in H by (unfold dw; lia).
    destruct (read_words ww sg mm (base + (2 * (i0 + 1) + 1) * w) n) as [f|l] eqn:RW; [discriminate|].
    inversion H; subst. simpl.
    rewrite (IH (i0 + 1) l); [| intros i Hi; apply SM; lia | exact RW].
    rewrite lor_shiftl_small. unfold field.
    rewrite <- rd_get_word_small by (apply SM; lia). now rewrite R.
Qed.

(* a bit / hex / byte vector read: the printed value is the little-endian number made of the `len` fields *)
Theorem read_var_true mm ty len idx a f l v :
  negb ((ty =? 102) || (ty =? 106)) = true ->
  show_addr ww sg mm (Some (ty, len, idx)) a = EvReadVar f l v ->
  N.shiftr (Z.to_N l) ww < wmask ->
  (0 <= a)%Z /\ f = (a + Z.of_N (2 * len * idx * w))%Z /\ l = (f + Z.of_N (2 * w * len))%Z /\
  v = var_value ww sg mm (bits_per_word ty) (Z.to_N f) 0 (N.to_nat len).
Proof.
  intros T H SM. unfold show_addr in H.
  destruct (negb ((a mod Z.of_N w) =? 0)%Z || (a <? 0)%Z || (Z.of_N (N.shiftl 1 w) <=? a)%Z) eqn:G; [discriminate|].
  apply orb_false_iff in G. destruct G as [G G3]. apply orb_false_iff in G. destruct G as [G1 G2].
  apply negb_true_iff in T. rewrite T in H.
  destruct (read_words ww sg mm (Z.to_N a + 2 * len * idx * w + w) (N.to_nat len)) as [e|ws] eqn:RW; [discriminate|].
  inversion H; subst. clear H.
  split; [lia|]. split; [lia|]. split; [lia|].
  rewrite decode_dec. rewrite N2Z.id in *.
  apply read_words_value.
  - intros i Hi. rewrite N2Nat.id in Hi.
    eapply N.le_lt_trans; [|exact SM]. apply shiftr_mono. nia.
  - rewrite <- RW. f_equal; lia.
Qed.

End Reads.
