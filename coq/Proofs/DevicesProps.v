(* C17 - proofs about Model/Devices.v against Spec/IOSpec.v.  All by list induction; no bound on any length. *)
From FJ Require Import Lib.Base Spec.MachineSpec Spec.IOSpec Model.Devices.
From Coq Require Import Permutation Sorted.
Local Open Scope N_scope.

(* ================================================================================================ *)
(* 1. bits of a number                                                                              *)
(* ================================================================================================ *)

Definition bits_of (v : N) (n : nat) : list bool := map (fun i => N.testbit v (N.of_nat i)) (seq 0 n).

Lemma byte_bits_bits_of b : byte_bits b = bits_of b 8.
Proof. reflexivity. Qed.

Lemma nibble_bits_of v : nibble v = bits_of v 4.
Proof. reflexivity. Qed.

Lemma bits_of_length v n : length (bits_of v n) = n.
Proof. unfold bits_of. now rewrite map_length, seq_length. Qed.

Lemma bits_of_S v n : bits_of v (S n) = N.testbit v 0 :: bits_of (N.shiftr v 1) n.
Proof.
  unfold bits_of. simpl seq. simpl map. f_equal.
  rewrite <- seq_shift, map_map. apply map_ext. intros i.
  rewrite N.shiftr_spec by apply N.le_0_l. f_equal. lia.
Qed.

Lemma bits_of_snoc v n : bits_of v (S n) = bits_of v n ++ [N.testbit v (N.of_nat n)].
Proof. unfold bits_of. rewrite seq_S, map_app. reflexivity. Qed.

Lemma bits_of_ext v v' n :
  (forall i, (i < n)%nat -> N.testbit v (N.of_nat i) = N.testbit v' (N.of_nat i)) -> bits_of v n = bits_of v' n.
Proof.
  intros H. unfold bits_of. apply map_ext_in. intros i Hi. apply in_seq in Hi. apply H. lia.
Qed.

Lemma bits_val_bits_of v n : bits_val (bits_of v n) = v mod 2 ^ N.of_nat n.
Proof.
  revert v. induction n as [|n IH]; intros v.
  - simpl. now rewrite N.mod_1_r.
  - rewrite bits_of_S. simpl bits_val. rewrite IH, N.bit0_mod.
    replace (N.of_nat (S n)) with (N.succ (N.of_nat n)) by lia.
    rewrite N.pow_succ_r by apply N.le_0_l.
    rewrite N.shiftr_div_pow2. change (2 ^ 1) with 2.
    assert (2 ^ N.of_nat n <> 0) by (apply N.pow_nonzero; discriminate).
    rewrite N.mod_mul_r by (auto; discriminate). reflexivity.
Qed.

Lemma bits_val_byte_bits b : b < 256 -> bits_val (byte_bits b) = b.
Proof.
  intros H. rewrite byte_bits_bits_of, bits_val_bits_of. change (2 ^ N.of_nat 8) with 256. now apply N.mod_small.
Qed.

Lemma byte_bits_length b : length (byte_bits b) = 8%nat.
Proof. reflexivity. Qed.

Lemma bytes_bits_cons b l : bytes_bits (b :: l) = byte_bits b ++ bytes_bits l.
Proof. reflexivity. Qed.

Lemma bytes_bits_length l : length (bytes_bits l) = (8 * length l)%nat.
Proof.
  induction l as [|b l IH]; [reflexivity|].
  rewrite bytes_bits_cons, app_length, IH, byte_bits_length. simpl length. lia.
Qed.

Lemma bytes_bits_app a b : bytes_bits (a ++ b) = bytes_bits a ++ bytes_bits b.
Proof. unfold bytes_bits. apply flat_map_app. Qed.

(* all bits from position n on are zero -> the number is below 2^n *)
Lemma bits_above_lt a n : (forall i, n <= i -> N.testbit a i = false) -> a < 2 ^ n.
Proof.
  intros H. destruct (N.lt_ge_cases a (2 ^ n)) as [L|G]; [exact L|].
  assert (Hp : 0 < 2 ^ n) by (apply N.neq_0_lt_0, N.pow_nonzero; discriminate).
  assert (Ha : a <> 0) by lia.
  assert (Hl : n <= N.log2 a) by (apply N.log2_le_pow2; lia).
  pose proof (N.bit_log2 a Ha) as Hb. rewrite (H _ Hl) in Hb. discriminate.
Qed.

(* ================================================================================================ *)
(* 2. pack / unpack                                                                                 *)
(* ================================================================================================ *)

Lemma app_inj_length {A} (a b x y : list A) : length a = length b -> a ++ x = b ++ y -> a = b /\ x = y.
Proof.
  revert b. induction a as [|h a IH]; intros [|k b] L E; simpl in *; try discriminate.
  - now split.
  - injection E as -> E. injection L as L. destruct (IH _ L E) as [-> ->]. now split.
Qed.

Lemma pack_bytes_short fuel pend : (length pend < 8)%nat -> pack_bytes fuel pend = ([], pend).
Proof.
  intros H. destruct fuel; [reflexivity|].
  do 8 (destruct pend as [|? pend]; [reflexivity|]). simpl in H. lia.
Qed.

Lemma pack_bytes_unpack bytes pend fuel :
  (length pend < 8)%nat -> Forall (fun b => b < 256) bytes -> (length bytes <= fuel)%nat ->
  pack_bytes fuel (bytes_bits bytes ++ pend) = (bytes, pend).
Proof.
  intros Hp. revert fuel. induction bytes as [|b bytes IH]; intros fuel Hb Hf.
  - simpl. now apply pack_bytes_short.
  - destruct fuel as [|fuel]; [simpl in Hf; lia|].
    inversion Hb as [|? ? Hb1 Hb2]; subst.
    rewrite bytes_bits_cons, <- app_assoc. unfold byte_bits at 1. simpl map. simpl app.
    cbn [pack_bytes]. rewrite IH by (auto; simpl in Hf; lia).
    f_equal. f_equal. apply (bits_val_byte_bits b Hb1).
Qed.

Lemma pack_unpack_gen bytes pend :
  (length pend < 8)%nat -> Forall (fun b => b < 256) bytes -> pack (bytes_bits bytes ++ pend) = (bytes, pend).
Proof.
  intros Hp Hb. unfold pack. apply pack_bytes_unpack; auto.
  rewrite app_length, bytes_bits_length. lia.
Qed.

Lemma byte_bits_of_bits b0 b1 b2 b3 b4 b5 b6 b7 :
  byte_bits (bits_val [b0; b1; b2; b3; b4; b5; b6; b7]) = [b0; b1; b2; b3; b4; b5; b6; b7] /\
  bits_val [b0; b1; b2; b3; b4; b5; b6; b7] < 256.
Proof. destruct b0, b1, b2, b3, b4, b5, b6, b7; split; reflexivity. Qed.

Lemma pack_bytes_packs fuel bs :
  (length bs <= fuel)%nat -> packs bs (fst (pack_bytes fuel bs)) (snd (pack_bytes fuel bs)).
Proof.
  revert bs. induction fuel as [|fuel IH]; intros bs Hf.
  - destruct bs; [|simpl in Hf; lia]. simpl. repeat split; auto. simpl; lia.
  - destruct bs as [|b0 [|b1 [|b2 [|b3 [|b4 [|b5 [|b6 [|b7 r]]]]]]]];
      try (simpl; repeat split; auto; simpl; lia).
    cbn [pack_bytes]. specialize (IH r). destruct (pack_bytes fuel r) as [bytes pend] eqn:E.
    destruct (byte_bits_of_bits b0 b1 b2 b3 b4 b5 b6 b7) as [Hbb Hlt].
    set (v := bits_val [b0; b1; b2; b3; b4; b5; b6; b7]) in *.
    simpl fst in *. simpl snd in *.
    destruct IH as (E1 & E2 & E3); [simpl in Hf; lia|].
    repeat split; auto.
    rewrite bytes_bits_cons, Hbb, <- app_assoc, <- E1. reflexivity.
Qed.

Lemma pack_packs bs : packs bs (fst (pack bs)) (snd (pack bs)).
Proof. unfold pack. apply pack_bytes_packs. lia. Qed.

(* the function is the relation *)
Lemma pack_characterised bs bytes pend : pack bs = (bytes, pend) <-> packs bs bytes pend.
Proof.
  split.
  - intros E. pose proof (pack_packs bs) as H. now rewrite E in H.
  - intros (E & Hp & Hb). subst bs. now apply pack_unpack_gen.
Qed.

Lemma pack_unpack bytes : Forall (fun b => b < 256) bytes -> pack (bytes_bits bytes) = (bytes, []).
Proof.
  intros H. rewrite <- (app_nil_r (bytes_bits bytes)). apply pack_unpack_gen; auto. simpl; lia.
Qed.

Lemma unpack_pack bs : bytes_bits (fst (pack bs)) ++ snd (pack bs) = bs.
Proof. destruct (pack_packs bs) as (E & _). now symmetry. Qed.

Lemma pack_pending_count bs : length (snd (pack bs)) = (length bs mod 8)%nat /\ length (fst (pack bs)) = (length bs / 8)%nat.
Proof.
  destruct (pack_packs bs) as (E & Hp & _).
  apply (f_equal (@length bool)) in E. rewrite app_length, bytes_bits_length in E.
  set (a := length (fst (pack bs))) in *. set (p := length (snd (pack bs))) in *.
  rewrite E. split.
  - rewrite Nat.add_comm, Nat.mul_comm, Nat.mod_add by lia. symmetry. now apply Nat.mod_small.
  - rewrite Nat.add_comm, Nat.mul_comm, Nat.div_add by lia. rewrite Nat.div_small by lia. reflexivity.
Qed.

Lemma out_bytes_rev bs : out_bytes (rev bs) = pack bs.
Proof. unfold out_bytes, pack. now rewrite rev_involutive, rev_length. Qed.

(* ================================================================================================ *)
(* 3. the output side (wbuf): written bits are packed lsb first, never an OverflowError             *)
(* ================================================================================================ *)

Definition wb_pending (s : wbuf) : list bool := bits_of (w_cur s) (N.to_nat (w_n s)).
Definition wb_bits (s : wbuf) : list bool := bytes_bits (w_out s) ++ wb_pending s.
Definition wb_inv (s : wbuf) : Prop :=
  w_n s < 8 /\ (forall i, w_n s <= i -> N.testbit (w_cur s) i = false) /\ Forall (fun b => b < 256) (w_out s).

Lemma wb_inv_init : wb_inv wb_init.
Proof. unfold wb_inv; simpl. split; [reflexivity|]. split; [intros; apply N.bits_0 | constructor]. Qed.


Lemma land1 a : (N.land a 1 =? 1) = N.testbit a 0.
Proof.
  change 1 with (N.ones 1) at 1. rewrite N.land_ones. change (2 ^ 1) with 2.
  rewrite <- N.bit0_mod. destruct (N.testbit a 0); reflexivity.
Qed.

Lemma testbit_b2n_pos bit i : 0 < i -> N.testbit (N.b2n bit) i = false.
Proof. intros H. destruct bit; simpl; [|apply N.bits_0]. apply N.bits_above_log2. exact H. Qed.

Lemma lor_bit_spec cur n bit i :
  (forall j, n <= j -> N.testbit cur j = false) ->
  N.testbit (N.lor cur (N.shiftl (N.b2n bit) n)) i =
  if i <? n then N.testbit cur i else if i =? n then bit else false.
Proof.
  intros H. rewrite N.lor_spec.
  destruct (i <? n) eqn:L.
  - apply N.ltb_lt in L. rewrite N.shiftl_spec_low by exact L. apply orb_false_r.
  - apply N.ltb_ge in L. rewrite (H i L). simpl orb.
    rewrite N.shiftl_spec_high' by exact L.
    destruct (i =? n) eqn:Q.
    + apply N.eqb_eq in Q. subst i. rewrite N.sub_diag. apply N.b2n_bit0.
    + apply N.eqb_neq in Q. apply testbit_b2n_pos. lia.
Qed.

(* one write_bit: no exception, the invariant is kept, the written bit is appended to the abstract bit string *)
Lemma wb_write_spec s bit :
  wb_inv s -> exists s', wb_write s bit = (None, s') /\ wb_inv s' /\ wb_bits s' = wb_bits s ++ [bit].
Proof.
  intros (Hn & Hc & Ho). unfold wb_write.
  set (cur := N.lor (w_cur s) (N.shiftl (N.b2n bit) (w_n s))).
  assert (Hbits : bits_of cur (S (N.to_nat (w_n s))) = bits_of (w_cur s) (N.to_nat (w_n s)) ++ [bit]).
  { rewrite bits_of_snoc. f_equal.
    - apply bits_of_ext. intros i Hi. unfold cur. rewrite (lor_bit_spec _ _ _ _ Hc).
      replace (N.of_nat i <? w_n s) with true by (symmetry; apply N.ltb_lt; lia). reflexivity.
    - unfold cur. rewrite (lor_bit_spec _ _ _ _ Hc). rewrite N2Nat.id, N.ltb_irrefl, N.eqb_refl. reflexivity. }
  assert (Hhigh : forall i, w_n s + 1 <= i -> N.testbit cur i = false).
  { intros i Hi. unfold cur. rewrite (lor_bit_spec _ _ _ _ Hc).
    replace (i <? w_n s) with false by (symmetry; apply N.ltb_ge; lia).
    replace (i =? w_n s) with false by (symmetry; apply N.eqb_neq; lia). reflexivity. }
  destruct (w_n s + 1 =? 8) eqn:E8.
  - apply N.eqb_eq in E8.
    assert (Hlt : cur < 256) by (change 256 with (2 ^ 8); apply bits_above_lt; intros i Hi; apply Hhigh; lia).
    replace (cur <? 256) with true by (symmetry; now apply N.ltb_lt).
    eexists. split; [reflexivity|]. split.
    + unfold wb_inv; simpl. split; [reflexivity|]. split; [intros; apply N.bits_0|].
      apply Forall_app. split; [exact Ho|]. constructor; [exact Hlt|constructor].
    + unfold wb_bits, wb_pending; simpl. rewrite app_nil_r, bytes_bits_app, <- app_assoc. f_equal.
      rewrite <- Hbits. replace (S (N.to_nat (w_n s))) with 8%nat by lia.
      reflexivity.
  - apply N.eqb_neq in E8.
    eexists. split; [reflexivity|]. split.
    + unfold wb_inv; simpl. split; [lia|]. split; [exact Hhigh|exact Ho].
    + unfold wb_bits, wb_pending; simpl. rewrite <- app_assoc. f_equal.
      rewrite <- Hbits. f_equal. lia.
Qed.

Lemma wb_get_spec s allow : wb_inv s -> wb_get s allow = get_answer (wb_bits s) allow.
Proof.
  intros (Hn & Hc & Ho). unfold get_answer, wb_bits.
  rewrite pack_unpack_gen; [|unfold wb_pending; rewrite bits_of_length; lia|exact Ho].
  unfold wb_get, wb_pending. rewrite bits_of_length.
  destruct allow; simpl; [reflexivity|].
  destruct (w_n s =? 0) eqn:E.
  - apply N.eqb_eq in E. rewrite E. reflexivity.
  - apply N.eqb_neq in E. simpl. replace (N.to_nat (w_n s) =? 0)%nat with false; [reflexivity|].
    symmetry. apply Nat.eqb_neq. lia.
Qed.

(* ================================================================================================ *)
(* 4. histories                                                                                     *)
(* ================================================================================================ *)

Lemma written_app h1 h2 : written (h1 ++ h2) = written h1 ++ written h2.
Proof. unfold written. apply flat_map_app. Qed.

Lemma reads_done_app h1 h2 : reads_done (h1 ++ h2) = (reads_done h1 + reads_done h2)%nat.
Proof. unfold reads_done. now rewrite filter_app, app_length. Qed.

Lemma written_writes bs : written (map OpWrite bs) = bs.
Proof. induction bs as [|b bs IH]; [reflexivity|]. simpl. now f_equal. Qed.

Lemma reads_done_writes bs : reads_done (map OpWrite bs) = 0%nat.
Proof. induction bs as [|b bs IH]; [reflexivity|]. exact IH. Qed.

Lemma answers_app ins h a b : answers ins h (a ++ b) = answers ins h a ++ answers ins (h ++ a) b.
Proof.
  revert h. induction a as [|o a IH]; intros h.
  - simpl. now rewrite app_nil_r.
  - simpl. rewrite IH, <- app_assoc. reflexivity.
Qed.

Lemma answers_writes ins h bs : answers ins h (map OpWrite bs) = map (fun _ => ODone) bs.
Proof. revert h. induction bs as [|b bs IH]; intros h; [reflexivity|]. simpl. now rewrite IH. Qed.

Lemma skipn_cons_nth {A} (l : list A) k b t : skipn k l = b :: t -> nth_error l k = Some b /\ skipn (S k) l = t.
Proof.
  revert l. induction k as [|k IH]; intros l E.
  - destruct l; simpl in E; [discriminate|]. injection E as -> ->. now split.
  - destruct l; simpl in E; [discriminate|]. apply IH in E. exact E.
Qed.

Lemma skipn_nil_nth {A} (l : list A) k : skipn k l = [] -> nth_error l k = None /\ skipn (S k) l = [].
Proof.
  intros E. assert (L : (length l <= k)%nat).
  { apply (f_equal (@length A)) in E. rewrite skipn_length in E. simpl in E. lia. }
  split; [now apply nth_error_None|]. apply skipn_all2. lia.
Qed.

(* ================================================================================================ *)
(* 5. FixedIO                                                                                       *)
(* ================================================================================================ *)

(* the input bits a FixedIO state still holds *)
Definition fx_in (s : fio) : list bool := bits_of (f_cin s) (N.to_nat (f_nin s)) ++ bytes_bits (f_rem s).

Lemma fx_read_some s b l :
  fx_in s = b :: l -> exists s', fx_read_bit s = (RBit b, s') /\ fx_in s' = l /\ f_w s' = f_w s.
Proof.
  unfold fx_in, fx_read_bit. intros E.
  destruct (f_nin s =? 0) eqn:Z.
  - apply N.eqb_eq in Z. rewrite Z in E. simpl in E.
    destruct (f_rem s) as [|x r]; [discriminate|].
    rewrite bytes_bits_cons, byte_bits_bits_of, bits_of_S in E. simpl in E. injection E as Eb El.
    eexists. split; [simpl; rewrite land1, Eb; reflexivity|]. split; [|reflexivity].
    simpl. change (N.to_nat (8 - 1)) with 7%nat. exact El.
  - apply N.eqb_neq in Z.
    destruct (N.to_nat (f_nin s)) as [|m] eqn:M; [lia|].
    rewrite bits_of_S in E. simpl in E. injection E as Eb El.
    eexists. split; [simpl; rewrite land1, Eb; reflexivity|]. split; [|reflexivity].
    simpl. replace (N.to_nat (f_nin s - 1)) with m by lia. exact El.
Qed.

Lemma fx_read_none s : fx_in s = [] -> fx_read_bit s = (REof, s).
Proof.
  unfold fx_in, fx_read_bit. intros E. apply app_eq_nil in E. destruct E as [E1 E2].
  apply (f_equal (@length bool)) in E1. rewrite bits_of_length in E1. simpl in E1.
  replace (f_nin s =? 0) with true by (symmetry; apply N.eqb_eq; lia).
  destruct (f_rem s) as [|x r]; [reflexivity|]. discriminate.
Qed.

Definition fx_rel (input : list N) (s : fio) (h : list op) : Prop :=
  fx_in s = skipn (reads_done h) (bytes_bits input) /\ wb_inv (f_w s) /\ wb_bits (f_w s) = written h.

Lemma fx_rel_init input : fx_rel input (fx_init input) [].
Proof. unfold fx_rel. simpl. split; [reflexivity|]. split; [apply wb_inv_init|reflexivity]. Qed.

(* one operation: the answer is the specified one and the relation is kept *)
Lemma fx_step_spec input s h o :
  fx_rel input s h ->
  fst (fx_step s o) = answer (fixed_input input) h o /\ fx_rel input (snd (fx_step s o)) (h ++ [o]).
Proof.
  intros (Hin & Hinv & Hw). unfold fx_rel. rewrite reads_done_app, written_app.
  destruct o as [|b|a]; simpl fx_step; simpl answer.
  - (* read *) unfold fixed_input.
    replace (reads_done h + reads_done [OpRead])%nat with (S (reads_done h)) by (unfold reads_done; simpl; lia).
    simpl written. rewrite app_nil_r.
    destruct (skipn (reads_done h) (bytes_bits input)) as [|b l] eqn:K.
    + destruct (skipn_nil_nth _ _ K) as [N1 N2]. rewrite (fx_read_none _ Hin), N1, N2. simpl. auto.
    + destruct (skipn_cons_nth _ _ _ _ K) as [N1 N2]. destruct (fx_read_some _ _ _ Hin) as (s' & R & I & W).
      rewrite R, N1, N2. simpl. rewrite W. auto.
  - (* write *) unfold fx_write_bit. destruct (wb_write_spec _ b Hinv) as (w' & R & I & W).
    rewrite R. simpl. rewrite Nat.add_0_r, W, Hw. auto.
  - (* get_output *) unfold fx_get_output. simpl. rewrite Nat.add_0_r, app_nil_r, (wb_get_spec _ _ Hinv), Hw. auto.
Qed.

Lemma fx_run_answers input ops : forall s h,
  fx_rel input s h -> fx_run s ops = answers (fixed_input input) h ops.
Proof.
  induction ops as [|o ops IH]; intros s h R; [reflexivity|].
  simpl. destruct (fx_step_spec input s h o R) as [A R']. destruct (fx_step s o) as [ob s'].
  simpl in A, R'. rewrite A, (IH _ _ R'). reflexivity.
Qed.

(* FixedIO answers every sequence of operations as specified *)
Theorem fixed_trace input ops : fx_run (fx_init input) ops = device_trace (fixed_input input) ops.
Proof. apply fx_run_answers, fx_rel_init. Qed.

(* --- consequences: reads --- *)

Lemma nth_error_skipn_cons {A} (l : list A) k b : nth_error l k = Some b -> skipn k l = b :: skipn (S k) l.
Proof.
  revert l. induction k as [|k IH]; intros [|x l] E; simpl in E; try discriminate.
  - now injection E as ->.
  - apply IH in E. exact E.
Qed.

Lemma answers_reads ins k n :
  forall h, reads_done h = k ->
  answers ins h (repeat OpRead n) = map (fun i => match ins i with Some b => OBit b | None => OEof end) (seq k n).
Proof.
  revert k. induction n as [|n IH]; intros k h Hk; [reflexivity|].
  simpl. rewrite Hk. f_equal. apply IH. rewrite reads_done_app, Hk. unfold reads_done; simpl; lia.
Qed.

Lemma read_answers_list (l : list bool) n : forall k,
  map (fun i => match nth_error l i with Some b => OBit b | None => OEof end) (seq k n) =
  map OBit (firstn n (skipn k l)) ++ repeat OEof (n - (length l - k)).
Proof.
  induction n as [|n IH]; intros k; [reflexivity|].
  simpl seq. simpl map. rewrite IH.
  destruct (nth_error l k) as [b|] eqn:E.
  - assert (k < length l)%nat by (apply nth_error_Some; congruence).
    rewrite (nth_error_skipn_cons _ _ _ E). cbn [firstn map app]. f_equal. f_equal. f_equal. lia.
  - apply nth_error_None in E.
    rewrite !skipn_all2 by lia. rewrite !firstn_nil. cbn [map app].
    replace (length l - k)%nat with 0%nat by lia. replace (length l - S k)%nat with 0%nat by lia.
    rewrite !Nat.sub_0_r. reflexivity.
Qed.

(* n successive reads: the first 8*|input| return the input bits lsb first, all later ones raise IOReadOnEOF *)
Theorem fixed_reads input n :
  fx_run (fx_init input) (repeat OpRead n) =
  map OBit (firstn n (bytes_bits input)) ++ repeat OEof (n - 8 * length input).
Proof.
  rewrite fixed_trace. unfold device_trace. rewrite (answers_reads _ 0 n [] eq_refl).
  unfold fixed_input. rewrite read_answers_list. simpl skipn. rewrite bytes_bits_length, Nat.sub_0_r. reflexivity.
Qed.

(* bit k of the stream is bit (k mod 8) of byte (k / 8): least significant first; the stream ends after 8*|input| bits *)
Lemma byte_bits_nth b k : (k < 8)%nat -> nth_error (byte_bits b) k = Some (N.testbit b (N.of_nat k)).
Proof. intros H. do 8 (destruct k as [|k]; [reflexivity|]). lia. Qed.

Theorem fixed_input_bit input k :
  fixed_input input k = option_map (fun byte => N.testbit byte (N.of_nat (k mod 8))) (nth_error input (k / 8)).
Proof.
  unfold fixed_input. revert k. induction input as [|b input IH]; intros k.
  - change (bytes_bits []) with (@nil bool). now replace (nth_error [] k) with (@None bool) by (now destruct k); destruct (k / 8)%nat.
  - rewrite bytes_bits_cons. destruct (Nat.lt_ge_cases k 8) as [L|G].
    + rewrite nth_error_app1 by (rewrite byte_bits_length; exact L).
      rewrite Nat.div_small, Nat.mod_small by exact L. simpl. now apply byte_bits_nth.
    + replace k with ((k - 8) + 1 * 8)%nat by lia. generalize (k - 8)%nat as j. intros j.
      rewrite nth_error_app2 by (rewrite byte_bits_length; lia). rewrite byte_bits_length.
      replace (j + 1 * 8 - 8)%nat with j by lia. rewrite IH.
      rewrite Nat.div_add, Nat.mod_add by lia. rewrite Nat.add_1_r. reflexivity.
Qed.

Theorem fixed_input_eof input k : fixed_input input k = None <-> (8 * length input <= k)%nat.
Proof. unfold fixed_input. rewrite nth_error_None, bytes_bits_length. reflexivity. Qed.

(* --- consequences: output --- *)

(* writing bs and asking for the output, with and without allow_incomplete_output *)
Theorem fixed_writes input bs :
  fx_run (fx_init input) (map OpWrite bs ++ [OpGet false; OpGet true]) =
  map (fun _ => ODone) bs ++ [get_answer bs false; get_answer bs true].
Proof.
  rewrite fixed_trace. unfold device_trace. rewrite answers_app, answers_writes. simpl.
  rewrite !written_app, written_writes. simpl. rewrite !app_nil_r. reflexivity.
Qed.

Lemma get_answer_true bs : get_answer bs true = OBytes (fst (pack bs)).
Proof. unfold get_answer. destruct (pack bs). reflexivity. Qed.

Lemma get_answer_false bs :
  get_answer bs false = if (length bs mod 8 =? 0)%nat then OBytes (fst (pack bs)) else OIncomplete.
Proof.
  unfold get_answer. destruct (pack_pending_count bs) as [H _]. destruct (pack bs) as [bytes pend].
  simpl in *. now rewrite H.
Qed.

(* link with the machine definition (C01): the bytes collected by the device are MachineSpec.out_bytes of the
   machine's output (most recent bit first) *)
Theorem fixed_output_is_out_bytes input outp :
  fx_run (fx_init input) (map OpWrite (rev outp) ++ [OpGet true]) =
  map (fun _ => ODone) (rev outp) ++ [OBytes (fst (out_bytes outp))].
Proof.
  rewrite fixed_trace. unfold device_trace. rewrite answers_app, answers_writes. simpl.
  rewrite written_writes, get_answer_true. rewrite <- out_bytes_rev, rev_involutive. reflexivity.
Qed.

(* echoing the whole input of one device into any device reproduces the input bytes *)
Theorem echo_roundtrip bytes a : Forall (fun b => b < 256) bytes -> get_answer (bytes_bits bytes) a = OBytes bytes.
Proof. intros H. unfold get_answer. rewrite (pack_unpack _ H). simpl. now rewrite orb_true_r. Qed.

(* ================================================================================================ *)
(* 6. StandardIO: the same answers as FixedIO over the stdin bytes; stdout echoes the output bytes   *)
(* ================================================================================================ *)

Definition so_proj (s : sio) : fio := mkfio (s_stdin s) (s_cin s) (s_nin s) (s_w s).
Definition so_echo_inv (s : sio) : Prop := s_stdout s = if s_verbose s then w_out (s_w s) else [].

Lemma so_step_sim s o :
  fx_step (so_proj s) o = (fst (so_step s o), so_proj (snd (so_step s o))) /\
  s_verbose (snd (so_step s o)) = s_verbose s /\
  (so_echo_inv s -> so_echo_inv (snd (so_step s o))).
Proof.
  destruct s as [v stdin stdout cin nin [out cur n]]. destruct o as [|b|a]; simpl.
  - unfold fx_read_bit, so_read_bit, so_proj, so_echo_inv. simpl.
    destruct (nin =? 0); [destruct stdin|]; simpl; auto.
  - unfold fx_write_bit, so_write_bit, wb_write, so_proj, so_echo_inv. simpl.
    destruct (n + 1 =? 8); [destruct (N.lor _ _ <? 256)|]; simpl; auto.
    split; [reflexivity|]. split; [reflexivity|]. intros ->. destruct v; reflexivity.
  - unfold so_proj, so_echo_inv. simpl. auto.
Qed.

Lemma so_run_sim ops : forall s,
  fst (so_run s ops) = fx_run (so_proj s) ops /\
  s_verbose (snd (so_run s ops)) = s_verbose s /\
  (so_echo_inv s -> so_echo_inv (snd (so_run s ops))).
Proof.
  induction ops as [|o ops IH]; intros s; [simpl; auto|].
  simpl. destruct (so_step_sim s o) as (E & V & I). rewrite E.
  destruct (so_step s o) as [ob s1]. simpl in *.
  destruct (IH s1) as (E1 & V1 & I1). destruct (so_run s1 ops) as [l s2]. simpl in *.
  rewrite E1. split; [reflexivity|]. split; [congruence|]. auto.
Qed.

(* final state of a FixedIO run, to name the collected output *)
Fixpoint fx_exec (s : fio) (ops : list op) : fio :=
  match ops with [] => s | o :: r => fx_exec (snd (fx_step s o)) r end.

Lemma fx_exec_rel input ops : forall s h, fx_rel input s h -> fx_rel input (fx_exec s ops) (h ++ ops).
Proof.
  induction ops as [|o ops IH]; intros s h R; simpl.
  - now rewrite app_nil_r.
  - destruct (fx_step_spec input s h o R) as [_ R'].
    replace (h ++ o :: ops) with ((h ++ [o]) ++ ops) by (now rewrite <- app_assoc). now apply IH.
Qed.

Lemma so_run_exec ops : forall s, so_proj (snd (so_run s ops)) = fx_exec (so_proj s) ops.
Proof.
  induction ops as [|o ops IH]; intros s; [reflexivity|].
  simpl. destruct (so_step_sim s o) as (E & _). rewrite E. simpl.
  destruct (so_step s o) as [ob s1]. simpl. specialize (IH s1). destruct (so_run s1 ops). exact IH.
Qed.

Theorem standard_trace verbose stdin ops :
  fst (so_run (so_init verbose stdin) ops) = device_trace (fixed_input stdin) ops /\
  s_stdout (snd (so_run (so_init verbose stdin) ops)) = if verbose then fst (pack (written ops)) else [].
Proof.
  destruct (so_run_sim ops (so_init verbose stdin)) as (E & V & I).
  split; [rewrite E; apply (fixed_trace stdin ops)|].
  assert (I0 : so_echo_inv (so_init verbose stdin)) by (unfold so_echo_inv; simpl; now destruct verbose).
  specialize (I I0). unfold so_echo_inv in I. rewrite I, V. simpl.
  pose proof (so_run_exec ops (so_init verbose stdin)) as P.
  pose proof (fx_exec_rel stdin ops _ _ (fx_rel_init stdin)) as (_ & Hinv & Hw).
  change (so_proj (so_init verbose stdin)) with (fx_init stdin) in P.
  rewrite <- P in Hinv, Hw. simpl in Hinv, Hw.
  destruct Hinv as (Hn & Hc & Ho). unfold wb_bits in Hw. rewrite <- Hw.
  rewrite pack_unpack_gen; [reflexivity| |exact Ho].
  unfold wb_pending. rewrite bits_of_length. lia.
Qed.

(* ================================================================================================ *)
(* 7. BrokenIO                                                                                      *)
(* ================================================================================================ *)

Theorem broken_always_raises ops : br_run ops = broken_trace ops.
Proof. unfold br_run, broken_trace. apply map_ext. now intros []. Qed.

(* ================================================================================================ *)
(* 8. KeyboardIO: delivery order                                                                    *)
(* ================================================================================================ *)

Definition dec (k : nat) (evs : list kev) : list (nat * kev) := combine (seq k (length evs)) evs.
Definition isort (l : list (nat * kev)) : list (nat * kev) := fold_right key_insert [] l.

Lemma key_ltb_lt a b : key_ltb a b = true <-> key_lt a b.
Proof. unfold key_ltb, key_lt. rewrite orb_true_iff, andb_true_iff, Z.ltb_lt, Z.eqb_eq, Nat.ltb_lt. reflexivity. Qed.

Lemma key_lt_trans a b c : key_lt a b -> key_lt b c -> key_lt a c.
Proof. unfold key_lt. lia. Qed.

Lemma key_lt_irrefl a : ~ key_lt a a.
Proof. unfold key_lt. lia. Qed.

Lemma key_insert_perm x l : Permutation (key_insert x l) (x :: l).
Proof.
  induction l as [|y r IH]; simpl; [reflexivity|].
  destruct (key_ltb x y); [reflexivity|]. rewrite IH. apply perm_swap.
Qed.

Lemma isort_perm l : Permutation (isort l) l.
Proof. induction l as [|x l IH]; simpl; [reflexivity|]. rewrite key_insert_perm. now constructor. Qed.

Lemma key_insert_sorted i e l :
  StronglySorted key_lt l -> Forall (fun p => (i < fst p)%nat) l -> StronglySorted key_lt (key_insert (i, e) l).
Proof.
  induction l as [|y r IH]; intros S F; simpl.
  - constructor; constructor.
  - inversion S as [|? ? S' Fy]; subst. inversion F as [|? ? Fi F']; subst.
    destruct (key_ltb (i, e) y) eqn:L.
    + apply key_ltb_lt in L. constructor; [exact S|]. constructor; [exact L|].
      eapply Forall_impl; [|exact Fy]. intros z Hz. eapply key_lt_trans; eassumption.
    + constructor; [now apply IH|].
      eapply Permutation_Forall; [symmetry; apply key_insert_perm|]. constructor; [|exact Fy].
      assert (N : ~ key_lt (i, e) y) by (intros K; apply key_ltb_lt in K; congruence).
      unfold key_lt in *. simpl in *. lia.
Qed.

Lemma dec_cons k e evs : dec k (e :: evs) = (k, e) :: dec (S k) evs.
Proof. reflexivity. Qed.

Lemma dec_fst k evs : Forall (fun p => (k <= fst p)%nat) (dec k evs).
Proof.
  revert k. induction evs as [|e evs IH]; intros k; [constructor|].
  rewrite dec_cons. constructor; [simpl; lia|]. eapply Forall_impl; [|apply IH]. simpl. intros; lia.
Qed.

Lemma isort_dec_fst k evs : Forall (fun p => (k <= fst p)%nat) (isort (dec k evs)).
Proof. eapply Permutation_Forall; [symmetry; apply isort_perm|apply dec_fst]. Qed.

Lemma isort_dec_sorted k evs : StronglySorted key_lt (isort (dec k evs)).
Proof.
  revert k. induction evs as [|e evs IH]; intros k; [constructor|].
  rewrite dec_cons. simpl. apply key_insert_sorted; [apply IH|].
  eapply Forall_impl; [|apply (isort_dec_fst (S k))]. simpl. intros; lia.
Qed.

(* inserting the earliest script position by (tic, position) = inserting stably by tic alone *)
Lemma key_insert_snd i x l :
  Forall (fun p => (i < fst p)%nat) l -> map snd (key_insert (i, x) l) = tic_insert x (map snd l).
Proof.
  induction l as [|y r IH]; intros F; [reflexivity|].
  inversion F as [|? ? Fi F']; subst. simpl.
  replace (key_ltb (i, x) y) with (k_tic x <=? k_tic (snd y))%Z.
  - destruct (k_tic x <=? k_tic (snd y))%Z; simpl; [reflexivity|]. now rewrite IH.
  - unfold key_ltb. simpl.
    destruct (Z.leb_spec (k_tic x) (k_tic (snd y))), (Z.ltb_spec (k_tic x) (k_tic (snd y))),
      (Z.eqb_spec (k_tic x) (k_tic (snd y))), (Nat.ltb_spec i (fst y)); simpl; try reflexivity; lia.
Qed.

(* Python's stable sort by tic (the model) is the specified delivery order *)
Lemma sort_events_deliver_gen k evs : map snd (isort (dec k evs)) = sort_events evs.
Proof.
  revert k. induction evs as [|e evs IH]; intros k; [reflexivity|].
  rewrite dec_cons. simpl. rewrite key_insert_snd, IH; [reflexivity|].
  eapply Forall_impl; [|apply (isort_dec_fst (S k))]. simpl. intros; lia.
Qed.

Theorem sort_events_deliver script : sort_events script = deliver script.
Proof. symmetry. apply (sort_events_deliver_gen 0). Qed.

Theorem deliver_is_order script : delivery_order script (deliver script).
Proof.
  exists (isort (dec 0 script)). split; [apply isort_perm|]. split; [apply isort_dec_sorted|reflexivity].
Qed.

Lemma sorted_perm_unique (l1 l2 : list (nat * kev)) :
  StronglySorted key_lt l1 -> StronglySorted key_lt l2 -> Permutation l1 l2 -> l1 = l2.
Proof.
  revert l2. induction l1 as [|a l1 IH]; intros l2 S1 S2 P.
  - apply Permutation_nil in P. now subst.
  - destruct l2 as [|b l2]; [apply Permutation_sym, Permutation_nil in P; discriminate|].
    inversion S1 as [|? ? S1' F1]; subst. inversion S2 as [|? ? S2' F2]; subst.
    assert (a = b).
    { assert (Ia : In a (b :: l2)) by (eapply Permutation_in; [exact P|now left]).
      assert (Ib : In b (a :: l1)) by (eapply Permutation_in; [symmetry; exact P|now left]).
      destruct Ia as [->|Ia]; [reflexivity|]. destruct Ib as [->|Ib]; [reflexivity|].
      rewrite Forall_forall in F1, F2. exfalso. apply (key_lt_irrefl a).
      eapply key_lt_trans; [apply (F1 _ Ib)|apply (F2 _ Ia)]. }
    subst b. f_equal. apply IH; auto. eapply Permutation_cons_inv; exact P.
Qed.

Theorem delivery_order_unique script d1 d2 : delivery_order script d1 -> delivery_order script d2 -> d1 = d2.
Proof.
  intros (x1 & P1 & S1 & ->) (x2 & P2 & S2 & ->). f_equal.
  apply sorted_perm_unique; auto. rewrite P1. now symmetry.
Qed.

(* ================================================================================================ *)
(* 9. KeyboardIO: the polling protocol                                                              *)
(* ================================================================================================ *)

Lemma zbit k i : (0 <= k)%Z -> (0 <= i)%Z -> (Z.land (Z.shiftr k i) 1 =? 1)%Z = N.testbit (Z.to_N k) (Z.to_N i).
Proof.
  intros Hk Hi. change 1%Z with (Z.ones 1) at 1. rewrite Z.land_ones by lia. change (2 ^ 1)%Z with 2%Z.
  rewrite <- Z.bit0_mod, Z.shiftr_spec by lia. rewrite Z.add_0_l.
  rewrite <- (Z2N.id k Hk) at 1. rewrite Z.testbit_of_N' by exact Hi.
  destruct (N.testbit (Z.to_N k) (Z.to_N i)); reflexivity.
Qed.

Lemma queue_input_byte_spec k : (0 <= k)%Z -> queue_input_byte k = byte_bits (Z.to_N k).
Proof.
  intros Hk. unfold queue_input_byte, queue_bits, byte_bits. simpl map.
  rewrite !zbit by lia. reflexivity.
Qed.

Lemma queue_input_hex_spec : queue_input_hex 0 = nibble 0 /\ queue_input_hex 8 = nibble 8 /\ queue_input_hex 9 = nibble 9.
Proof. repeat split; reflexivity. Qed.

(* the undelivered events of a device state *)
Definition kb_rest (s : kbd) : list kev := skipn (kb_next s) (kb_events s).

Lemma skipn_nth_error {A} (l : list A) n :
  skipn n l = match nth_error l n with Some e => e :: skipn (S n) l | None => [] end.
Proof.
  destruct (nth_error l n) as [e|] eqn:E.
  - now apply nth_error_skipn_cons.
  - apply skipn_all2. now apply nth_error_None.
Qed.

(* _poll is one step of the specified protocol *)
Lemma kb_poll_spec s :
  Forall (fun e => (0 <= k_code e)%Z) (kb_events s) ->
  let s' := kb_poll s in
  kb_pend s' = kb_pend s ++ fst (poll_one (kb_rest s) (kb_tic s)) /\
  kb_rest s' = snd (poll_one (kb_rest s) (kb_tic s)) /\
  kb_tic s' = (kb_tic s + 1)%Z /\ kb_events s' = kb_events s /\ kb_w s' = kb_w s.
Proof.
  intros Hc. unfold kb_poll, next_due_event, kb_rest. rewrite (skipn_nth_error (kb_events s) (kb_next s)).
  destruct (nth_error (kb_events s) (kb_next s)) as [e|] eqn:E.
  - assert (He : (0 <= k_code e)%Z) by (rewrite Forall_forall in Hc; apply Hc; eapply nth_error_In; exact E).
    unfold poll_one. destruct (k_tic e <=? kb_tic s)%Z; simpl.
    + rewrite queue_input_byte_spec by exact He. rewrite <- app_assoc.
      destruct (k_down e); repeat split; reflexivity.
    + rewrite (skipn_nth_error (kb_events s) (kb_next s)), E. repeat split; reflexivity.
  - simpl. rewrite (skipn_nth_error (kb_events s) (kb_next s)), E. repeat split; reflexivity.
Qed.

Fixpoint kb_after (d : list kev) (t : Z) (n : nat) : list kev :=
  match n with O => d | S n' => kb_after (snd (poll_one d t)) (t + 1) n' end.

Lemma kb_polls_unfold d t n : kb_polls d t (S n) = fst (poll_one d t) ++ kb_polls (snd (poll_one d t)) (t + 1) n.
Proof. simpl. now destruct (poll_one d t). Qed.

Lemma kb_snoc n : forall d t,
  kb_polls d t (S n) = kb_polls d t n ++ fst (poll_one (kb_after d t n) (t + Z.of_nat n)) /\
  kb_after d t (S n) = snd (poll_one (kb_after d t n) (t + Z.of_nat n)).
Proof.
  induction n as [|n IH]; intros d t.
  - rewrite kb_polls_unfold. simpl. rewrite Z.add_0_r, app_nil_r. auto.
  - destruct (IH (snd (poll_one d t)) (t + 1)%Z) as [IH1 IH2].
    replace (t + 1 + Z.of_nat n)%Z with (t + Z.of_nat (S n))%Z in IH1, IH2 by lia.
    split.
    + rewrite kb_polls_unfold, IH1, app_assoc, <- kb_polls_unfold. reflexivity.
    + exact IH2.
Qed.

Lemma poll_one_nonempty d t : exists b l, fst (poll_one d t) = b :: l.
Proof.
  unfold poll_one. destruct d as [|e d]; [now eexists; eexists|].
  destruct (k_tic e <=? t)%Z; simpl; now eexists; eexists.
Qed.

Lemma kb_polls_length n : forall d t, (n <= length (kb_polls d t n))%nat.
Proof.
  induction n as [|n IH]; intros d t; [simpl; lia|].
  rewrite kb_polls_unfold, app_length. destruct (poll_one_nonempty d t) as (b & l & E). rewrite E.
  specialize (IH (snd (poll_one d t)) (t + 1)%Z). simpl. lia.
Qed.

Lemma kb_polls_prefix n : forall d t m, (n <= m)%nat -> exists tail, kb_polls d t m = kb_polls d t n ++ tail.
Proof.
  induction n as [|n IH]; intros d t m H.
  - now exists (kb_polls d t m).
  - destruct m as [|m]; [lia|]. rewrite !kb_polls_unfold.
    destruct (IH (snd (poll_one d t)) (t + 1)%Z m) as [tail E]; [lia|].
    exists tail. rewrite E, app_assoc. reflexivity.
Qed.

(* bit k of the stream does not depend on how many polls (at least enough) are unrolled *)
Lemma kb_nth_stable d t n k :
  (k < length (kb_polls d t n))%nat -> nth_error (kb_polls d t (S k)) k = nth_error (kb_polls d t n) k.
Proof.
  intros H. destruct (Nat.le_ge_cases n (S k)) as [L|G].
  - destruct (kb_polls_prefix n d t (S k) L) as [tail E]. rewrite E. now apply nth_error_app1.
  - destruct (kb_polls_prefix (S k) d t n G) as [tail E]. rewrite E. symmetry. apply nth_error_app1.
    pose proof (kb_polls_length (S k) d t). lia.
Qed.

Definition kb_rel (d : list kev) (s : kbd) (h : list op) : Prop :=
  kb_events s = d /\
  (exists p consumed,
     kb_tic s = Z.of_nat p /\ kb_rest s = kb_after d 0 p /\
     kb_polls d 0 p = consumed ++ kb_pend s /\ length consumed = reads_done h) /\
  wb_inv (kb_w s) /\ wb_bits (kb_w s) = written h.

Lemma kb_read_spec d s h :
  Forall (fun e => (0 <= k_code e)%Z) d -> kb_rel d s h ->
  exists b s', kb_read_bit s = (RBit b, s') /\ nth_error (kb_polls d 0 (S (reads_done h))) (reads_done h) = Some b /\
               kb_rel d s' (h ++ [OpRead]).
Proof.
  intros Hc (Hev & (p & consumed & Ht & Hr & Hp & Hl) & Hinv & Hw).
  assert (RD : reads_done (h ++ [OpRead]) = S (length consumed))
    by (rewrite reads_done_app, Hl; unfold reads_done; simpl; lia).
  assert (WR : written (h ++ [OpRead]) = written h) by (rewrite written_app; simpl; apply app_nil_r).
  unfold kb_read_bit. destruct (kb_pend s) as [|b l] eqn:Ep.
  - (* poll first *)
    rewrite <- Hev in Hc. destruct (kb_poll_spec s Hc) as (P1 & P2 & P3 & P4 & P5).
    rewrite Ep in P1. simpl in P1. rewrite Hr, Ht in P1, P2.
    destruct (kb_snoc p d 0%Z) as [K1 K2]. rewrite Z.add_0_l in K1, K2.
    destruct (poll_one_nonempty (kb_after d 0 p) (Z.of_nat p)) as (b & l & Eb).
    rewrite Eb in P1, K1. rewrite P1.
    exists b. eexists. split; [reflexivity|]. rewrite app_nil_r in Hp.
    assert (Hn : nth_error (kb_polls d 0 (S p)) (reads_done h) = Some b).
    { rewrite K1, Hp, <- Hl, nth_error_app2, Nat.sub_diag by lia. reflexivity. }
    split.
    + rewrite <- Hn. apply kb_nth_stable. apply nth_error_Some. congruence.
    + unfold kb_rel, kb_rest in *. cbn [kb_events kb_next kb_tic kb_pend kb_w].
      split; [congruence|]. split; [|rewrite P5, WR; auto].
      exists (S p), (consumed ++ [b]). rewrite P3, Ht. split; [lia|].
      split; [rewrite P2, K2; reflexivity|].
      split; [rewrite K1, Hp, <- app_assoc; reflexivity|]. rewrite app_length, RD. simpl length. lia.
  - cbv iota. rewrite Ep. exists b. eexists. split; [reflexivity|].
    assert (Hn : nth_error (kb_polls d 0 p) (reads_done h) = Some b).
    { rewrite Hp, <- Hl, nth_error_app2, Nat.sub_diag by lia. reflexivity. }
    split.
    + rewrite <- Hn. apply kb_nth_stable. apply nth_error_Some. congruence.
    + unfold kb_rel, kb_rest in *. cbn [kb_events kb_next kb_tic kb_pend kb_w].
      split; [exact Hev|]. split; [|rewrite WR; auto].
      exists p, (consumed ++ [b]). split; [exact Ht|]. split; [exact Hr|].
      split; [rewrite Hp, <- app_assoc; reflexivity|]. rewrite app_length, RD. simpl length. lia.
Qed.

Lemma kb_step_spec script s h o :
  Forall (fun e => (0 <= k_code e)%Z) (deliver script) -> kb_rel (deliver script) s h ->
  fst (kb_step s o) = answer (kb_input script) h o /\ kb_rel (deliver script) (snd (kb_step s o)) (h ++ [o]).
Proof.
  intros Hc R. destruct o as [|b|a]; simpl kb_step; simpl answer.
  - destruct (kb_read_spec _ s h Hc R) as (b & s' & E & N1 & R'). rewrite E. unfold kb_input. rewrite N1. simpl. auto.
  - destruct R as (Hev & Hx & Hinv & Hw). unfold kb_write_bit.
    destruct (wb_write_spec _ b Hinv) as (w' & E & I & W). rewrite E. simpl. split; [reflexivity|].
    unfold kb_rel. simpl. rewrite reads_done_app, written_app, Nat.add_0_r, W, Hw. auto.
  - destruct R as (Hev & Hx & Hinv & Hw). unfold kb_get_output. simpl.
    rewrite (wb_get_spec _ _ Hinv), Hw. split; [reflexivity|].
    unfold kb_rel. rewrite reads_done_app, written_app, Nat.add_0_r. simpl. rewrite app_nil_r. auto.
Qed.

Lemma kb_run_answers script ops : forall s h,
  Forall (fun e => (0 <= k_code e)%Z) (deliver script) -> kb_rel (deliver script) s h ->
  kb_run s ops = answers (kb_input script) h ops.
Proof.
  induction ops as [|o ops IH]; intros s h Hc R; [reflexivity|].
  simpl. destruct (kb_step_spec script s h o Hc R) as [A R']. destruct (kb_step s o) as [ob s'].
  simpl in A, R'. rewrite A, (IH _ _ Hc R'). reflexivity.
Qed.

Lemma deliver_codes script (P : kev -> Prop) : Forall P script -> Forall P (deliver script).
Proof.
  intros H. unfold deliver. apply Forall_map.
  eapply Permutation_Forall; [symmetry; apply (isort_perm (dec 0 script))|].
  unfold dec. rewrite Forall_forall in *. intros [i e] Hin. apply in_combine_r in Hin. simpl. auto.
Qed.

(* KeyboardIO over a script answers every sequence of operations as specified: reads follow the polling protocol and
   never raise, writes are packed as for the other devices *)
Theorem keyboard_trace script ops :
  Forall (fun e => (0 <= k_code e)%Z) script ->
  kb_run (kb_init script) ops = device_trace (kb_input script) ops.
Proof.
  intros Hc. apply kb_run_answers; [now apply deliver_codes|].
  unfold kb_rel, kb_init. simpl. split; [apply sort_events_deliver|].
  split; [|split; [apply wb_inv_init|reflexivity]].
  exists 0%nat, []. unfold kb_rest. simpl. rewrite sort_events_deliver. auto.
Qed.

(* reading never ends and never fails *)
Theorem keyboard_never_eof script k : exists b, kb_input script k = Some b.
Proof.
  unfold kb_input. destruct (nth_error _ k) as [b|] eqn:E; [now exists b|].
  apply nth_error_None in E. pose proof (kb_polls_length (S k) (deliver script) 0%Z). lia.
Qed.

(* the head event is delivered at the first poll whose tic is not before the event's tic: max(t, tic e);
   the polls before it are idle (status 0), and the protocol continues with the next event at the following tic *)
Theorem keyboard_head_delivery e d t m :
  let idle := Z.to_nat (k_tic e - t) in
  kb_polls (e :: d) t (idle + S m) =
  concat (repeat (nibble 0) idle) ++
  (nibble (if k_down e then 9 else 8) ++ byte_bits (Z.to_N (k_code e))) ++ kb_polls d (Z.max t (k_tic e) + 1) m.
Proof.
  simpl. remember (Z.to_nat (k_tic e - t)) as idle eqn:E. revert t E.
  induction idle as [|n IH]; intros t E.
  - simpl plus. rewrite kb_polls_unfold. unfold poll_one.
    replace (k_tic e <=? t)%Z with true by (symmetry; apply Z.leb_le; lia). simpl fst. simpl snd.
    replace (Z.max t (k_tic e)) with t by lia. reflexivity.
  - simpl plus. rewrite kb_polls_unfold. unfold poll_one.
    replace (k_tic e <=? t)%Z with false by (symmetry; apply Z.leb_gt; lia). simpl fst. simpl snd.
    rewrite (IH (t + 1)%Z) by lia. replace (Z.max (t + 1) (k_tic e)) with (Z.max t (k_tic e)) by lia.
    cbn [repeat concat]. rewrite <- app_assoc. reflexivity.
Qed.

(* with no event left every poll is idle *)
Theorem keyboard_idle t n : kb_polls [] t n = concat (repeat (nibble 0) n).
Proof. revert t. induction n as [|n IH]; intros t; [reflexivity|]. rewrite kb_polls_unfold. simpl. now rewrite IH. Qed.

(* ================================================================================================ *)
(* 10. ScriptedKeyEventSource.from_text                                                             *)
(* ================================================================================================ *)

Definition line_events (l : list N) : list kev := match parse_line l with LEvent e => [e] | _ => [] end.
Definition line_ok (l : list N) : Prop := forall k, parse_line l <> LBad k.

Lemma parse_line_code l e : parse_line l = LEvent e -> (0 <= k_code e < 256)%Z.
Proof.
  unfold parse_line. intros H.
  repeat match type of H with
         | context [match ?x with _ => _ end] => destruct x eqn:?; try discriminate
         | context [if ?x then _ else _] => destruct x eqn:?; try discriminate
         end.
  all: injection H as <-; simpl;
    match goal with Hb : ((0 <=? _)%Z && (_ <=? 255)%Z) = true |- _ =>
      apply andb_true_iff in Hb; destruct Hb as [H1 H2]; apply Z.leb_le in H1; apply Z.leb_le in H2; lia end.
Qed.

(* the result is the first malformed line's error, otherwise the events of all lines in script order *)
Theorem parse_lines_ok ls : forall n acc evs,
  parse_lines ls n acc = POk evs <-> Forall line_ok ls /\ evs = acc ++ flat_map line_events ls.
Proof.
  induction ls as [|l ls IH]; intros n acc evs; simpl.
  - rewrite app_nil_r. split; [intros [= <-]; auto|intros [_ ->]; reflexivity].
  - unfold line_events at 1. unfold line_ok at 1. destruct (parse_line l) as [|e|k] eqn:E.
    + rewrite IH. simpl. split; intros [F ->]; split; auto; [constructor; auto; intros k; rewrite E; discriminate|now inversion F].
    + rewrite IH. rewrite <- app_assoc. simpl. split; intros [F ->]; split; auto; [constructor; auto; intros k; rewrite E; discriminate|now inversion F].
    + split; [discriminate|]. intros [F _]. inversion F as [|? ? Hl]; subst. exfalso. apply (Hl k). unfold line_ok. assumption.
Qed.

Theorem parse_lines_err ls : forall n acc k m,
  parse_lines ls n acc = PErr k m <->
  exists pre l post, ls = pre ++ l :: post /\ Forall line_ok pre /\ parse_line l = LBad k /\ m = n + N.of_nat (length pre).
Proof.
  induction ls as [|l ls IH]; intros n acc k m; simpl.
  - split; [discriminate|]. intros (pre & l & post & E & _). destruct pre; discriminate.
  - destruct (parse_line l) as [|e|k'] eqn:E.
    1,2: rewrite IH; split.
    1,3: intros (pre & l' & post & -> & F & B & ->); exists (l :: pre), l', post; repeat split; auto;
         [constructor; auto; intros k0; rewrite E; discriminate | simpl length; lia].
    1,2: intros (pre & l' & post & E' & F & B & ->); destruct pre as [|x pre]; simpl in E'; injection E' as -> ->;
         [rewrite E in B; discriminate | exists pre, l', post; inversion F; subst; repeat split; auto; simpl length; lia].
    split.
    + intros [= -> ->]. exists [], l, ls. repeat split; auto. simpl. lia.
    + intros (pre & l' & post & E' & F & B & ->). destruct pre as [|x pre]; simpl in E'; injection E' as -> ->.
      * rewrite E in B. injection B as ->. f_equal. simpl. lia.
      * inversion F as [|? ? Hl]; subst. exfalso. apply (Hl k'). exact E.
Qed.

Theorem parse_script_codes text evs : parse_script text = POk evs -> Forall (fun e => (0 <= k_code e < 256)%Z) evs.
Proof.
  unfold parse_script. destruct (_ || _); [discriminate|]. intros H.
  apply parse_lines_ok in H. destruct H as [_ ->]. simpl.
  apply Forall_forall. intros e He. apply in_flat_map in He. destruct He as (l & _ & Hl).
  unfold line_events in Hl. destruct (parse_line l) as [|e'|k] eqn:E; simpl in Hl; try contradiction.
  destruct Hl as [<-|[]]. now apply parse_line_code in E.
Qed.

(* from_text followed by KeyboardIO: a script that parses drives the device as specified *)
Theorem keyboard_script_trace text evs ops :
  parse_script text = POk evs -> kb_run (kb_init evs) ops = device_trace (kb_input evs) ops.
Proof.
  intros H. apply keyboard_trace. eapply Forall_impl; [|apply (parse_script_codes _ _ H)]. simpl. intros; lia.
Qed.
