(* General facts about the machine definition. *)
From FJ Require Import Lib.Base Spec.MachineSpec.
Local Open Scope N_scope.

Section W.
Variable ww : N.
Variable sg : list (N * N).

Lemma step_not_oof s c s' : step ww sg s = inr (c, s') -> c <> OutOfFuel.
Proof.
  unfold step. intros H.
  repeat match type of H with
  | context [match ?x with _ => _ end] => destruct x eqn:?
  | context [if ?x then _ else _] => destruct x eqn:?
  end; inversion H; subst; discriminate.
Qed.

(* a halting result does not depend on the fuel beyond the point of halting *)
Lemma run_more_fuel k : forall s c s', run ww sg k s = (c, s') -> c <> OutOfFuel ->
  forall k', run ww sg (k + k') s = (c, s').
Proof.
  induction k as [|k IH]; intros s c s' H Hc k'.
  - simpl in H. inversion H; subst. congruence.
  - simpl in *. destruct (step ww sg s) as [s1|r]; [now apply IH | exact H].
Qed.

Lemma run_fuel_unique k1 k2 s c1 s1 c2 s2 :
  run ww sg k1 s = (c1, s1) -> run ww sg k2 s = (c2, s2) -> c1 <> OutOfFuel -> c2 <> OutOfFuel ->
  c1 = c2 /\ s1 = s2.
Proof.
  intros H1 H2 N1 N2.
  pose proof (run_more_fuel k1 s c1 s1 H1 N1 k2) as A.
  pose proof (run_more_fuel k2 s c2 s2 H2 N2 k1) as B.
  rewrite Nat.add_comm in B. rewrite A in B. inversion B; auto.
Qed.

(* the op counter counts exactly the completed ops: it grows by one per continuing step *)
Lemma step_ops s s' : step ww sg s = inl s' -> ops s' = ops s + 1.
Proof.
  unfold step. intros H.
  repeat match type of H with
  | context [match ?x with _ => _ end] => destruct x eqn:?
  | context [if ?x then _ else _] => destruct x eqn:?
  end; inversion H; subst; reflexivity.
Qed.

Lemma step_hist s s' : step ww sg s = inl s' -> hist s' = ip s :: hist s.
Proof.
  unfold step. intros H.
  repeat match type of H with
  | context [match ?x with _ => _ end] => destruct x eqn:?
  | context [if ?x then _ else _] => destruct x eqn:?
  end; inversion H; subst; reflexivity.
Qed.

End W.
