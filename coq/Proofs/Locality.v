(* LOCALITY of the FlipJump machine (DESIGN 3.1), proved once for Spec/MachineSpec.v.

   run_fp (Model/StlDigit.v) is `run` instrumented with the list T of the words the executed ops read or write and
   the list W of the words they write.  If `run k s` touches only T and s' agrees with s on T (same ip, same input),
   then `run k s'` performs the same op sequence (same cause, same ips, same number of ops), produces the same
   output, its final memory agrees with the final memory of s on T and equals the memory of s' outside W.

   Also run_split: k1+k2 steps = k2 steps from the state reached after k1 steps.
   This is what lifts a finite computation on one concrete image to every memory that agrees with it on the
   footprint (Proofs/StlCompose.v). *)
From FJ Require Import Lib.Base Spec.MachineSpec Spec.StlSpec Model.StlRun Model.StlDigit Proofs.MachineProps Proofs.StlProps.
Local Open Scope N_scope.

Section W.
Variable ww : N.
Variable sg : list (N * N).

Notation step := (step ww sg).
Notation run := (run ww sg).
Notation run_fp := (run_fp ww sg).
Notation step_touch := (step_touch ww sg).
Notation step_writes := (step_writes ww sg).

(* ---- run_fp is run ---- *)

Lemma run_fp_run k : forall s T W, fst (fst (run_fp k s T W)) = run k s.
Proof.
  induction k as [|k IH]; intros s T W; cbn [StlDigit.run_fp MachineSpec.run]; [reflexivity|].
  destruct (step s) as [s'|[c s']]; [apply IH|reflexivity].
Qed.

Lemma run_fp_grows k : forall s T W c sf T' W',
  run_fp k s T W = (c, sf, T', W') -> (exists e, T' = e ++ T) /\ (exists e, W' = e ++ W).
Proof.
  induction k as [|k IH]; intros s T W c sf T' W' H; cbn [StlDigit.run_fp] in H.
  - inversion H; subst. split; exists []; reflexivity.
  - destruct (step s) as [s1|[c1 s1]].
    + apply IH in H. destruct H as [[e1 E1] [e2 E2]]. subst. split.
      * exists (e1 ++ step_touch s). now rewrite <- app_assoc.
      * exists (e2 ++ step_writes s). now rewrite <- app_assoc.
    + inversion H; subst. split; eexists; reflexivity.
Qed.

(* ---- one op depends only on the words in step_touch ---- *)

Lemma rdw_agree m1 m2 a : mget0 m1 a = mget0 m2 a -> rdw sg m1 a = rdw sg m2 a.
Proof. unfold rdw. intros ->. reflexivity. Qed.

Lemma get_word_agree m1 m2 ba :
  (forall a, In a (gw_touch ww ba) -> mget0 m1 a = mget0 m2 a) -> get_word ww sg m1 ba = get_word ww sg m2 ba.
Proof.
  unfold gw_touch, get_word. intros H.
  destruct (N.land ba (w ww - 1) =? 0) eqn:E.
  - rewrite (rdw_agree m1 m2 (N.shiftr ba ww)) by (apply H; left; reflexivity). reflexivity.
  - rewrite (rdw_agree m1 m2 (N.shiftr ba ww)) by (apply H; left; reflexivity).
    rewrite (rdw_agree m1 m2 (N.shiftr ba ww + 1)) by (apply H; right; left; reflexivity). reflexivity.
Qed.

Lemma mget0_mset m a v b : mget0 (mset m a v) b = if a =? b then v else mget0 m b.
Proof.
  destruct (N.eqb_spec a b) as [->|NE]; [apply mget0_mset_same|now apply mget0_mset_other].
Qed.

Lemma agree_mset (P : N -> Prop) m1 m2 x v :
  (forall a, P a -> mget0 m1 a = mget0 m2 a) -> forall a, P a -> mget0 (mset m1 x v) a = mget0 (mset m2 x v) a.
Proof. intros H a Pa. rewrite !mget0_mset. destruct (x =? a); auto. Qed.

(* what one op preserves between two states that agree on a set containing its footprint *)
Record sim1 (P : N -> Prop) (s s' a b : st) : Prop := mksim1 {
  s1_ip : ip b = ip a;
  s1_inp : inp b = inp a;
  s1_mem : forall x, P x -> mget0 (m b) x = mget0 (m a) x;
  s1_out : exists o, outp a = o ++ outp s /\ outp b = o ++ outp s';
  s1_hist : exists h, hist a = h ++ hist s /\ hist b = h ++ hist s';
  s1_ops : ops b + ops s = ops a + ops s'
}.

Lemma sim1_refl (P : N -> Prop) s s' :
  ip s' = ip s -> inp s' = inp s -> (forall x, P x -> mget0 (m s') x = mget0 (m s) x) -> sim1 P s s' s s'.
Proof. intros. constructor; auto; [exists []; auto|exists []; auto|lia]. Qed.

Lemma sim1_trans (P : N -> Prop) s s' a b c d : sim1 P s s' a b -> sim1 P a b c d -> sim1 P s s' c d.
Proof.
  intros [i1 n1 m1 [o1 [oa ob]] [h1 [ha hb]] p1] [i2 n2 m2 [o2 [oc od]] [h2 [hc hd]] p2].
  constructor; auto.
  - exists (o2 ++ o1). rewrite oc, od, oa, ob, !app_assoc. auto.
  - exists (h2 ++ h1). rewrite hc, hd, ha, hb, !app_assoc. auto.
  - lia.
Qed.

Definition step_rel (P : N -> Prop) (s s' : st) (r r' : st + (cause * st)) : Prop :=
  match r, r' with
  | inl a, inl b => sim1 P s s' a b
  | inr (c, a), inr (c', b) => c = c' /\ sim1 P s s' a b
  | _, _ => False
  end.

Lemma step_local (P : N -> Prop) s s' :
  ip s' = ip s -> inp s' = inp s ->
  (forall x, P x -> mget0 (m s') x = mget0 (m s) x) ->
  (forall x, In x (step_touch s) -> P x) ->
  step_rel P s s' (step s) (step s').
Proof.
  intros Hip Hinp Hm HT.
  assert (HG : get_word ww sg (m s') (ip s) = get_word ww sg (m s) (ip s)).
  { apply get_word_agree. intros a Ha. apply Hm, HT. unfold StlDigit.step_touch. apply in_or_app. now left. }
  unfold step_rel, MachineSpec.step. rewrite Hip, Hinp, HG.
  unfold StlDigit.step_touch in HT.
  destruct (get_word ww sg (m s) (ip s)) as [fa|f] eqn:EG.
  { split; [reflexivity|]. constructor; cbn; auto; [exists []; auto|exists [ip s]; auto|lia]. }
  assert (Pf : P (N.shiftr f ww)) by (apply HT; apply in_or_app; right; left; reflexivity).
  assert (Pj : forall a, In a (gw_touch ww (ip s + w ww)) -> P a).
  { intros a Ha. apply HT. apply in_or_app; right. right. apply in_or_app. now right. }
  set (out1 := if is_output ww f then (f =? dw ww + 1) :: outp s else outp s).
  set (out1' := if is_output ww f then (f =? dw ww + 1) :: outp s' else outp s').
  assert (Ho : exists o, out1 = o ++ outp s /\ out1' = o ++ outp s').
  { unfold out1, out1'. destruct (is_output ww f); [exists [f =? dw ww + 1]|exists []]; auto. }
  assert (Hh : exists h, ip s :: hist s = h ++ hist s /\ ip s :: hist s' = h ++ hist s') by (exists [ip s]; auto).
  (* the flip and the jump, on two memories that agree on P *)
  assert (FLIP : forall mm mm' inp',
            (forall x, P x -> mget0 mm' x = mget0 mm x) ->
            match
              match rdw sg mm (N.shiftr f ww) with
              | None => inr (MemErr (N.shiftl (N.shiftr f ww) ww), mkst (ip s) mm inp' out1 (ops s) (ip s :: hist s))
              | Some v =>
                match get_word ww sg (mset mm (N.shiftr f ww) (flip_bit ww v f)) (ip s + w ww) with
                | inl a => inr (MemErr a, mkst (ip s) (mset mm (N.shiftr f ww) (flip_bit ww v f)) inp' out1 (ops s) (ip s :: hist s))
                | inr j =>
                  if (j =? ip s) && negb ((ip s <=? f) && (f <? ip s + dw ww))
                  then inr (Looping, mkst j (mset mm (N.shiftr f ww) (flip_bit ww v f)) inp' out1 (ops s + 1) (ip s :: hist s))
                  else if j <? dw ww
                       then inr (NullIP, mkst j (mset mm (N.shiftr f ww) (flip_bit ww v f)) inp' out1 (ops s + 1) (ip s :: hist s))
                       else inl (mkst j (mset mm (N.shiftr f ww) (flip_bit ww v f)) inp' out1 (ops s + 1) (ip s :: hist s))
                end
              end,
              match rdw sg mm' (N.shiftr f ww) with
              | None => inr (MemErr (N.shiftl (N.shiftr f ww) ww), mkst (ip s) mm' inp' out1' (ops s') (ip s :: hist s'))
              | Some v =>
                match get_word ww sg (mset mm' (N.shiftr f ww) (flip_bit ww v f)) (ip s + w ww) with
                | inl a => inr (MemErr a, mkst (ip s) (mset mm' (N.shiftr f ww) (flip_bit ww v f)) inp' out1' (ops s') (ip s :: hist s'))
                | inr j =>
                  if (j =? ip s) && negb ((ip s <=? f) && (f <? ip s + dw ww))
                  then inr (Looping, mkst j (mset mm' (N.shiftr f ww) (flip_bit ww v f)) inp' out1' (ops s' + 1) (ip s :: hist s'))
                  else if j <? dw ww
                       then inr (NullIP, mkst j (mset mm' (N.shiftr f ww) (flip_bit ww v f)) inp' out1' (ops s' + 1) (ip s :: hist s'))
                       else inl (mkst j (mset mm' (N.shiftr f ww) (flip_bit ww v f)) inp' out1' (ops s' + 1) (ip s :: hist s'))
                end
              end
            with
            | inl a, inl b => sim1 P s s' a b
            | inr (c, a), inr (c', b) => c = c' /\ sim1 P s s' a b
            | _, _ => False
            end).
  { intros mm mm' inp' A.
    rewrite (rdw_agree mm' mm (N.shiftr f ww)) by (apply A, Pf).
    destruct (rdw sg mm (N.shiftr f ww)) as [v|].
    2:{ split; [reflexivity|]. constructor; cbn; auto. lia. }
    assert (A' : forall x, P x -> mget0 (mset mm' (N.shiftr f ww) (flip_bit ww v f)) x
                                = mget0 (mset mm (N.shiftr f ww) (flip_bit ww v f)) x).
    { intros x Px. now apply (agree_mset P mm' mm). }
    rewrite (get_word_agree (mset mm' (N.shiftr f ww) (flip_bit ww v f)) (mset mm (N.shiftr f ww) (flip_bit ww v f)))
      by (intros a Ha; apply A', Pj, Ha).
    destruct (get_word ww sg (mset mm (N.shiftr f ww) (flip_bit ww v f)) (ip s + w ww)) as [a|j].
    { split; [reflexivity|]. constructor; cbn; auto. lia. }
    destruct ((j =? ip s) && negb ((ip s <=? f) && (f <? ip s + dw ww))).
    { split; [reflexivity|]. constructor; cbn; auto. lia. }
    destruct (j <? dw ww).
    { split; [reflexivity|]. constructor; cbn; auto. lia. }
    constructor; cbn; auto. lia. }
  fold out1. fold out1'.
  destruct (covers_input ww (ip s)) eqn:EC.
  - destruct (inp s) as [|b rest].
    { split; [reflexivity|]. constructor; cbn; auto. lia. }
    assert (Pi : P (N.shiftr (in_addr ww) ww)).
    { apply HT. apply in_or_app; right. right. apply in_or_app. left. left. reflexivity. }
    rewrite (rdw_agree (m s') (m s) (N.shiftr (in_addr ww) ww)) by (apply Hm, Pi).
    destruct (rdw sg (m s) (N.shiftr (in_addr ww) ww)) as [v|].
    2:{ split; [reflexivity|]. constructor; cbn; auto. lia. }
    apply FLIP. intros x Px. now apply (agree_mset P (m s') (m s)).
  - apply FLIP. exact Hm.
Qed.

Lemma step_writes_agree s s' :
  ip s' = ip s -> get_word ww sg (m s') (ip s) = get_word ww sg (m s) (ip s) -> step_writes s' = step_writes s.
Proof. intros Hip HG. unfold StlRun.step_writes. now rewrite Hip, HG. Qed.

Lemma step_frame0 s a : ~ In a (step_writes s) -> mget0 (m (res_st (step s))) a = mget0 (m s) a.
Proof. intros H. unfold mget0. now rewrite (step_frame ww sg s a H). Qed.

(* ---- the locality theorem ---- *)

Theorem locality k : forall s c sf T W s',
  run_fp k s [] [] = (c, sf, T, W) ->
  ip s' = ip s -> inp s' = inp s ->
  (forall a, In a T -> mget0 (m s') a = mget0 (m s) a) ->
  exists sf',
    run k s' = (c, sf') /\
    ip sf' = ip sf /\ inp sf' = inp sf /\
    (exists o, outp sf = o ++ outp s /\ outp sf' = o ++ outp s') /\
    (exists h, hist sf = h ++ hist s /\ hist sf' = h ++ hist s') /\
    ops sf' + ops s = ops sf + ops s' /\
    (forall a, In a T -> mget0 (m sf') a = mget0 (m sf) a) /\
    (forall a, ~ In a W -> mget0 (m sf') a = mget0 (m s') a).
Proof.
  (* generalised over the accumulators and over the pair of states the relation is measured from *)
  assert (G : forall k s T0 W0 c sf T W s',
    run_fp k s T0 W0 = (c, sf, T, W) ->
    ip s' = ip s -> inp s' = inp s ->
    (forall a, In a T -> mget0 (m s') a = mget0 (m s) a) ->
    exists sf' e, run k s' = (c, sf') /\ sim1 (fun a => In a T) s s' sf sf' /\ W = e ++ W0 /\
                  (forall a, ~ In a e -> mget0 (m sf') a = mget0 (m s') a)).
  { clear k. induction k as [|k IH]; intros s T0 W0 c sf T W s' H Hip Hinp Hm; cbn [StlDigit.run_fp] in H.
    - inversion H; subst. exists s', []. cbn [MachineSpec.run].
      split; [reflexivity|]. split; [now apply sim1_refl|]. split; auto.
    - cbn [MachineSpec.run].
      assert (HT : forall x, In x (step_touch s) -> In x T).
      { intros x Hx. destruct (step s) as [s1|[c1 s1]].
        - apply run_fp_grows in H. destruct H as [[e ->] _]. apply in_or_app; right. apply in_or_app. now left.
        - inversion H; subst. apply in_or_app. now left. }
      pose proof (step_local (fun a => In a T) s s' Hip Hinp Hm HT) as SL.
      assert (HG : get_word ww sg (m s') (ip s) = get_word ww sg (m s) (ip s)).
      { apply get_word_agree. intros a Ha. apply Hm, HT. unfold StlDigit.step_touch. apply in_or_app. now left. }
      pose proof (step_writes_agree s s' Hip HG) as SW.
      pose proof (step_frame0 s') as SF. rewrite SW in SF.
      unfold step_rel in SL.
      destruct (step s) as [s1|[c1 s1]]; destruct (step s') as [s1'|[c1' s1']]; try contradiction.
      + cbn [res_st] in SF.
        destruct (IH s1 _ _ c sf T W s1' H (s1_ip _ _ _ _ _ SL) (s1_inp _ _ _ _ _ SL) (s1_mem _ _ _ _ _ SL))
          as [sf' [e [R [S2 [EW F]]]]].
        exists sf', (e ++ step_writes s).
        split; [exact R|]. split; [eapply sim1_trans; eauto|]. split; [rewrite EW; now rewrite <- app_assoc|].
        intros a Ha. rewrite F by (intros X; apply Ha; apply in_or_app; now left).
          apply SF. intros X; apply Ha; apply in_or_app; now right.
      + destruct SL as [-> S1]. inversion H; subst. cbn [res_st] in SF.
        exists s1', (step_writes s). split; [reflexivity|]. split; [exact S1|]. split; auto. }
  intros s c sf T W s' H Hip Hinp Hm.
  destruct (G k s [] [] c sf T W s' H Hip Hinp Hm) as [sf' [e [R [[i1 n1 m1 o1 h1 p1] [EW F]]]]].
  rewrite app_nil_r in EW. subst e.
  exists sf'. repeat split; auto.
Qed.

(* ---- k1 + k2 steps ---- *)

Theorem run_split k1 k2 : forall s,
  run (k1 + k2) s = match run k1 s with (OutOfFuel, s1) => run k2 s1 | r => r end.
Proof.
  induction k1 as [|k1 IH]; intros s; [reflexivity|].
  cbn [Nat.add MachineSpec.run].
  destruct (step s) as [s1|[c s1]] eqn:E; [apply IH|].
  destruct c; try reflexivity. exfalso. now apply (step_not_oof ww sg s _ _ E).
Qed.

Corollary run_split_cont k1 k2 s s1 : run k1 s = (OutOfFuel, s1) -> run (k1 + k2) s = run k2 s1.
Proof. intros H. now rewrite run_split, H. Qed.

(* run_to arrives: the segment is a run of some exact number of ops that ends, not halted, at the stop address *)
Lemma run_to_run_fp stop fuel : forall s T W sf T' W',
  run_to ww sg stop fuel s T W = Some (sf, T', W') ->
  exists k, run_fp k s T W = (OutOfFuel, sf, T', W') /\ ip sf = stop.
Proof.
  induction fuel as [|f IH]; intros s T W sf T' W' H; cbn [StlDigit.run_to] in H; [discriminate|].
  destruct (ip s =? stop) eqn:E.
  - inversion H; subst. exists 0%nat. split; [reflexivity|now apply N.eqb_eq].
  - destruct (step s) as [s1|[c s1]] eqn:ES; [|discriminate].
    apply IH in H. destruct H as [k [R I]]. exists (S k). cbn [StlDigit.run_fp]. now rewrite ES.
Qed.

Lemma run_tol_run_fp stops fuel : forall s T W sf T' W',
  run_tol ww sg stops fuel s T W = Some (sf, T', W') ->
  exists k, run_fp k s T W = (OutOfFuel, sf, T', W') /\ In (ip sf) stops.
Proof.
  induction fuel as [|f IH]; intros s T W sf T' W' H; cbn [StlDigit.run_tol] in H; [discriminate|].
  destruct (existsb (N.eqb (ip s)) stops) eqn:E.
  - inversion H; subst. exists 0%nat. split; [reflexivity|].
    apply existsb_exists in E. destruct E as [x [I E]]. apply N.eqb_eq in E. now subst.
  - destruct (step s) as [s1|[c s1]] eqn:ES; [|discriminate].
    apply IH in H. destruct H as [k [R I]]. exists (S k). cbn [StlDigit.run_fp]. now rewrite ES.
Qed.

End W.
