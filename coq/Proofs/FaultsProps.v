(* A device failure stops the machine at an op boundary: nothing of the failing op is visible except the
   device calls it already made. *)
From FJ Require Import Lib.Base Spec.MachineSpec Model.Faults.
Local Open Scope N_scope.

Section W.
Variable ww : N.
Variable sg : list (N * N).

Ltac drdw f := match goal with
  | |- context [rdw sg ?mm (N.shiftr f ww)] => destruct (rdw sg mm (N.shiftr f ww))
  | _ : context [rdw sg ?mm (N.shiftr f ww)] |- _ => destruct (rdw sg mm (N.shiftr f ww)) end.
Ltac dgw s := match goal with
  | |- context [get_word ww sg ?mm (ip s + w ww)] => destruct (get_word ww sg mm (ip s + w ww))
  | _ : context [get_word ww sg ?mm (ip s + w ww)] |- _ => destruct (get_word ww sg mm (ip s + w ww)) end.
Ltac dcond := match goal with
  | |- context [if (?j =? ?i) && ?c then _ else _] => destruct ((j =? i) && c)
  | _ : context [if (?j =? ?i) && ?c then _ else _] |- _ => destruct ((j =? i) && c) end.
Ltac dnull := match goal with
  | |- context [if ?j <? dw ww then _ else _] => destruct (j <? dw ww)
  | _ : context [if ?j <? dw ww then _ else _] |- _ => destruct (j <? dw ww) end.
Ltac dfails k := match goal with
  | |- context [fails k ?c] => destruct (fails k c) eqn:?
  | _ : context [fails k ?c] |- _ => destruct (fails k c) eqn:? end.
Ltac split_step H :=
  repeat match type of H with
  | context [match ?x with _ => _ end] => destruct x eqn:?
  | context [if ?x then _ else _] => destruct x eqn:?
  end.

(* with a device that never fails, fstep is the machine definition *)
Lemma fstep_none s calls :
  match fstep ww sg None s calls, step ww sg s with
  | inl (s1, _), inl s2 => s1 = s2
  | inr (Halt c1, s1, _), inr (c2, s2) => c1 = c2 /\ s1 = s2
  | _, _ => False
  end.
Proof.
  unfold fstep, step, fails. cbv beta iota.
  destruct (get_word ww sg (m s) (ip s)) as [a|f]; [auto|]. rewrite andb_false_r.
  destruct (covers_input ww (ip s)).
  - destruct (inp s) as [|b rest]; [auto|].
    destruct (rdw sg (m s) (N.shiftr (in_addr ww) ww)); [|auto].
    drdw f; [|auto].
    dgw s; [auto|].
    dcond; [auto|]. dnull; auto.
  - drdw f; [|auto].
    dgw s; [auto|].
    dcond; [auto|]. dnull; auto.
Qed.

(* a step that is not interrupted by the failure is exactly a machine step *)
Lemma fstep_cont k s calls s' calls' : fstep ww sg k s calls = inl (s', calls') -> step ww sg s = inl s'.
Proof.
  unfold fstep, step. intros H.
  destruct (get_word ww sg (m s) (ip s)) as [a|f]; [discriminate|].
  destruct (is_output ww f && fails k calls); [discriminate|].
  destruct (covers_input ww (ip s)).
  - dfails k; [discriminate|].
    destruct (inp s) as [|b rest]; [discriminate|].
    destruct (rdw sg (m s) (N.shiftr (in_addr ww) ww)); [|discriminate].
    drdw f; [|discriminate].
    dgw s; [discriminate|].
    dcond; [discriminate|]. dnull; [discriminate|].
    now inversion H.
  - drdw f; [|discriminate].
    dgw s; [discriminate|].
    dcond; [discriminate|]. dnull; [discriminate|].
    now inversion H.
Qed.

Lemma fstep_halt k s calls c s' calls' : fstep ww sg k s calls = inr (Halt c, s', calls') -> step ww sg s = inr (c, s').
Proof.
  unfold fstep, step. intros H.
  destruct (get_word ww sg (m s) (ip s)) as [a|f]; [now inversion H|].
  destruct (is_output ww f && fails k calls); [discriminate|].
  destruct (covers_input ww (ip s)).
  - dfails k; [discriminate|].
    destruct (inp s) as [|b rest]; [now inversion H|].
    destruct (rdw sg (m s) (N.shiftr (in_addr ww) ww)); [|now inversion H].
    drdw f; [|now inversion H].
    dgw s; [now inversion H|].
    dcond; [now inversion H|]. dnull; [now inversion H|discriminate].
  - drdw f; [|now inversion H].
    dgw s; [now inversion H|].
    dcond; [now inversion H|]. dnull; [now inversion H|discriminate].
Qed.

(* the state reported at a device failure: the op was started (its address is in the history) and made its
   output call if the failure is in the following read; memory, input, ip and op count are untouched *)
Definition stopped_at (rd : bool) (s s' : st) : Prop :=
  ip s' = ip s /\ m s' = m s /\ inp s' = inp s /\ ops s' = ops s /\ hist s' = ip s :: hist s /\
  (outp s' = outp s \/ (rd = true /\ exists b, outp s' = b :: outp s)).

Lemma fstep_fail k s calls rd s' calls' : fstep ww sg k s calls = inr (DevFail rd, s', calls') ->
  stopped_at rd s s' /\ k = Some calls'.
Proof.
  unfold fstep. intros H.
  destruct (get_word ww sg (m s) (ip s)) as [a|f]; [discriminate|].
  destruct (is_output ww f && fails k calls) eqn:E1.
  - inversion H; subst; clear H. apply andb_true_iff in E1 as [_ E1].
    unfold fails in E1. destruct k as [k|]; [|discriminate]. apply N.eqb_eq in E1. subst.
    split; [|reflexivity]. unfold stopped_at; simpl. tauto.
  - destruct (covers_input ww (ip s)).
    + match goal with _ : context [fails k ?c] |- _ => destruct (fails k c) eqn:E2 end.
      * inversion H; subst; clear H.
        unfold fails in E2. destruct k as [k|]; [|discriminate]. apply N.eqb_eq in E2. subst.
        split; [|reflexivity]. unfold stopped_at; simpl. repeat split; try reflexivity.
        destruct (is_output ww f); [right; split; [reflexivity|eexists; reflexivity]|left; reflexivity].
      * destruct (inp s) as [|b rest]; [discriminate|].
        destruct (rdw sg (m s) (N.shiftr (in_addr ww) ww)); [|discriminate].
        drdw f; [|discriminate].
        dgw s; [discriminate|].
        dcond; [discriminate|]. dnull; discriminate.
    + drdw f; [|discriminate].
      dgw s; [discriminate|].
      dcond; [discriminate|]. dnull; discriminate.
Qed.

(* C18, machine level: a run whose device raises at call k stops exactly at the state the failure-free
   machine reaches after n whole ops, for some n: same memory, input, op count (= initial + n) and ip;
   the history additionally names the op that was stopped. *)
Theorem frun_prefix k fuel : forall s calls rd s' calls',
  frun ww sg k fuel s calls = (DevFail rd, s', calls') ->
  exists n sn, steps ww sg n s = Some sn /\ stopped_at rd sn s' /\ ops sn = ops s + N.of_nat n /\ k = Some calls'.
Proof.
  induction fuel as [|fuel IH]; intros s calls rd s' calls' H; cbn [frun] in H; [discriminate|].
  destruct (fstep ww sg k s calls) as [[s1 c1]|[[fc s1] c1]] eqn:E.
  - destruct (IH _ _ _ _ _ H) as (n & sn & Hs & Hst & Hops & Hk).
    pose proof (fstep_cont _ _ _ _ _ E) as Hstep.
    exists (S n), sn. cbn [steps]. rewrite Hstep. split; [exact Hs|]. split; [exact Hst|]. split; [|exact Hk].
    rewrite Hops. unfold step in Hstep.
    assert (ops s1 = ops s + 1).
    { clear - Hstep. unfold step in Hstep. split_step Hstep; inversion Hstep; subst; reflexivity. }
    lia.
  - inversion H; subst; clear H.
    destruct (fstep_fail _ _ _ _ _ _ E) as [Hst Hk].
    exists O, s. cbn [steps]. split; [reflexivity|]. split; [exact Hst|]. split; [simpl; lia|exact Hk].
Qed.

(* a run that ends by itself although the device might fail later is a run of the machine definition *)
Theorem frun_halt k fuel : forall s calls c s' calls',
  frun ww sg k fuel s calls = (Halt c, s', calls') -> run ww sg fuel s = (c, s').
Proof.
  induction fuel as [|fuel IH]; intros s calls c s' calls' H; cbn [frun run] in *.
  - now inversion H.
  - destruct (fstep ww sg k s calls) as [[s1 c1]|[[fc s1] c1]] eqn:E.
    + rewrite (fstep_cont _ _ _ _ _ E). eapply IH; eassumption.
    + inversion H; subst. now rewrite (fstep_halt _ _ _ _ _ _ E).
Qed.

End W.

(* ---- asynchronous interrupt (Model/SignalCase.v): what the verdict 0 means -------------------------------------- *)
From FJ Require Import Model.RunCase Model.SignalCase.

Lemma check_signal_case_sound c :
  check_signal_case c = 0 ->
  exists s, run c.(c_ww) c.(c_segs) (N.to_nat c.(e_ops)) (init (mem_of_list c.(c_words)) (bytes_bits c.(c_input))) = (OutOfFuel, s)
            /\ s.(ops) = c.(e_ops) /\ out_is c s.(outp) = true /\ mem_is c s.(m) = true
            /\ (last_is c s.(hist) = true \/ last_is c (s.(ip) :: s.(hist)) = true).
Proof.
  unfold check_signal_case, sig_state. intros H.
  destruct (run _ _ _ _) as [cs s] eqn:E.
  destruct cs; try discriminate.
  exists s. split; [reflexivity|].
  destruct ((ops s =? e_ops c) && out_is c (outp s) && mem_is c (m s) &&
            (last_is c (hist s) || last_is c (ip s :: hist s))) eqn:B.
  - apply andb_true_iff in B. destruct B as [B Bl]. apply andb_true_iff in B. destruct B as [B Bm].
    apply andb_true_iff in B. destruct B as [Bo Bout]. apply N.eqb_eq in Bo.
    apply orb_true_iff in Bl. repeat split; assumption.
  - revert H. cbv zeta. match goal with |- (if ?b then _ else _) = _ -> _ => destruct b end; discriminate.
Qed.
