(* The Python run loops with a failing device (Model/EngPyFaults.v) refine the machine with a failing device
   (Model/Faults.v): one-step simulation under stR/memR (Proofs/EngPyProps.v), lifted to whole runs.

   Proof plan.  A fault step is the failure-free step preceded by two probes: "the op outputs and the device
   fails at this call" and "the op reads and the device fails at this call".  `fstep_decomp` (machine) and
   `featured_fstep_decomp` / `fast_fstep_decomp` (engines) put both sides into that shape; the probes only need the
   first memory read (get_word_spec), everything else is the failure-free simulation featured_sim / fast_sim. *)
From FJ Require Import Lib.Base Lib.Bits Spec.MachineSpec Model.EngPy Model.Faults Model.EngPyFaults
     Proofs.EngPyProps Proofs.FaultsProps.
Local Open Scope N_scope.

(* the failure-free results seen as results of a fault step that made `calls` device calls *)
Definition lift_m (r : st + (cause * st)) (calls : N) : (st * N) + (fcause * st * N) :=
  match r with inl s' => inl (s', calls) | inr (c, s') => inr (Halt c, s', calls) end.
Definition lift_p (r : pst + (cause * pst)) (calls : N) : pfres :=
  match r with inl s' => inl (s', calls) | inr (c, s') => inr (Halt c, s', calls) end.

(* ---- the machine's fault step = two probes + the machine step --------------------------------------------- *)
Lemma fstep_decomp ww sg k s calls :
  fstep ww sg k s calls =
  match get_word ww sg (m s) (ip s) with
  | inl _ => lift_m (step ww sg s) calls
  | inr f =>
    let h := ip s :: hist s in
    if is_output ww f && fails k calls
    then inr (DevFail false, mkst (ip s) (m s) (inp s) (outp s) (ops s) h, calls)
    else
      let out1 := if is_output ww f then (f =? dw ww + 1) :: outp s else outp s in
      let calls1 := if is_output ww f then calls + 1 else calls in
      if covers_input ww (ip s) && fails k calls1
      then inr (DevFail true, mkst (ip s) (m s) (inp s) out1 (ops s) h, calls1)
      else lift_m (step ww sg s) (if covers_input ww (ip s) then calls1 + 1 else calls1)
  end.
Proof.
  unfold fstep, step, lift_m. cbv zeta.
  destruct (get_word ww sg (m s) (ip s)) as [a|f]; [reflexivity|].
  destruct (is_output ww f && fails k calls); [reflexivity|].
  destruct (covers_input ww (ip s)); cbn [andb].
  - destruct (fails k (if is_output ww f then calls + 1 else calls)); [reflexivity|].
    destruct (inp s) as [|b rest]; [reflexivity|].
    destruct (rdw sg (m s) (N.shiftr (in_addr ww) ww)); [|reflexivity].
    match goal with |- context [rdw sg ?mm (N.shiftr f ww)] => destruct (rdw sg mm (N.shiftr f ww)) end; [|reflexivity].
    match goal with |- context [get_word ww sg ?mm (ip s + w ww)] => destruct (get_word ww sg mm (ip s + w ww)) end;
      [reflexivity|].
    match goal with |- context [if (?j =? ?i) && ?c then _ else _] => destruct ((j =? i) && c) end; [reflexivity|].
    match goal with |- context [if ?j <? dw ww then _ else _] => destruct (j <? dw ww) end; reflexivity.
  - match goal with |- context [rdw sg ?mm (N.shiftr f ww)] => destruct (rdw sg mm (N.shiftr f ww)) end; [|reflexivity].
    match goal with |- context [get_word ww sg ?mm (ip s + w ww)] => destruct (get_word ww sg mm (ip s + w ww)) end;
      [reflexivity|].
    match goal with |- context [if (?j =? ?i) && ?c then _ else _] => destruct ((j =? i) && c) end; [reflexivity|].
    match goal with |- context [if ?j <? dw ww then _ else _] => destruct (j <? dw ww) end; reflexivity.
Qed.

Section W.
Variable ww : N.
Hypothesis Hww : 3 <= ww.
Variable sg : list (N * N).
Variable zb : list (N * N).
Variable k : option N.          (* the device raises at this call; None = never *)

Local Notation w := (MachineSpec.w ww).
Local Notation dw := (MachineSpec.dw ww).
Local Notation in_addr := (MachineSpec.in_addr ww).
Local Notation W := (2 ^ w).
Local Notation memR := (EngPyProps.memR ww sg zb).
Local Notation stR := (EngPyProps.stR ww sg zb).
Local Notation sim := (EngPyProps.sim ww sg zb).

Ltac split_goal :=
  repeat match goal with
  | |- context [match ?x with _ => _ end] => destruct x
  end.

(* ---- the engines' fault steps = the same two probes + the failure-free loop iteration --------------------- *)
Lemma featured_fstep_decomp ps calls :
  featured_fstep ww zb k ps calls =
  match py_get_word ww zb (p_mem ps) (p_ip ps) with
  | (_, inl _) => lift_p (featured_step ww zb ps) calls
  | (pm1, inr f) =>
    let h := p_ip ps :: p_hist ps in
    if is_output ww f && fails k calls
    then inr (DevFail false, mkpst (p_ip ps) pm1 (p_inp ps) (p_out ps) (p_ops ps) h, calls)
    else
      let out1 := if is_output ww f then (f =? dw + 1) :: p_out ps else p_out ps in
      let calls1 := if is_output ww f then calls + 1 else calls in
      if covers_input ww (p_ip ps) && fails k calls1
      then inr (DevFail true, mkpst (p_ip ps) pm1 (p_inp ps) out1 (p_ops ps) h, calls1)
      else lift_p (featured_step ww zb ps) (if covers_input ww (p_ip ps) then calls1 + 1 else calls1)
  end.
Proof.
  unfold featured_fstep, featured_step, lift_p, is_output, covers_input, MachineSpec.dw. cbv zeta.
  destruct (py_get_word ww zb (p_mem ps) (p_ip ps)) as [pm1 [a|f]]; [reflexivity|].
  rewrite (N.eqb_sym (2 * w + 1) f).
  destruct ((2 * w <=? f) && (f <=? 2 * w + 1)); cbn [andb];
    [destruct (fails k calls); [reflexivity|]|];
    (destruct ((p_ip ps <=? in_addr) && (in_addr <? p_ip ps + 2 * w)); cbn [andb];
     [match goal with |- context [fails k ?c] => destruct (fails k c) end; [reflexivity|];
      destruct (p_inp ps) as [|b rest]; [reflexivity|];
      destruct (py_write_bit ww zb pm1 in_addr b) as [pm2 [a2|u2]]; [reflexivity|]|]);
    match goal with |- context [py_read_bit ww zb ?pm f] => destruct (py_read_bit ww zb pm f) as [pm3 [a3|bit]] end;
    try reflexivity;
    (destruct (py_write_bit ww zb pm3 f (negb bit)) as [pm4 [a4|u4]]; [reflexivity|]);
    (destruct (py_get_word ww zb pm4 (p_ip ps + w)) as [pm5 [a5|j]]; [reflexivity|]);
    (match goal with |- context [if (?j =? ?i) && ?c then _ else _] => destruct ((j =? i) && c) end; [reflexivity|]);
    (destruct (j <? 2 * w); reflexivity).
Qed.

Lemma fast_fstep_decomp ps calls :
  fast_fstep ww zb k ps calls =
  match (if negb (N.land (p_ip ps) (w - 1) =? 0) then py_get_word ww zb (p_mem ps) (p_ip ps)
         else fast_lookup ww zb (p_mem ps) (N.shiftr (p_ip ps) ww)) with
  | (_, inl _) => lift_p (fast_step ww zb ps) calls
  | (pm1, inr f) =>
    let h := p_ip ps :: p_hist ps in
    if is_output ww f && fails k calls
    then inr (DevFail false, mkpst (p_ip ps) pm1 (p_inp ps) (p_out ps) (p_ops ps) h, calls)
    else
      let out1 := if is_output ww f then (f =? dw + 1) :: p_out ps else p_out ps in
      let calls1 := if is_output ww f then calls + 1 else calls in
      if (p_ip ps <=? in_addr) && (in_addr - dw <? p_ip ps) && fails k calls1
      then inr (DevFail true, mkpst (p_ip ps) pm1 (p_inp ps) out1 (p_ops ps) h, calls1)
      else lift_p (fast_step ww zb ps)
                  (if (p_ip ps <=? in_addr) && (in_addr - dw <? p_ip ps) then calls1 + 1 else calls1)
  end.
Proof.
  unfold fast_fstep, fast_step, lift_p, is_output. cbv zeta.
  destruct (if negb (N.land (p_ip ps) (w - 1) =? 0) then py_get_word ww zb (p_mem ps) (p_ip ps)
            else fast_lookup ww zb (p_mem ps) (N.shiftr (p_ip ps) ww)) as [pm1 [a|f]]; [reflexivity|].
  rewrite (N.eqb_sym (dw + 1) f).
  destruct (f <=? dw + 1), (dw <=? f); cbn [andb];
    [destruct (fails k calls); [reflexivity|]| | |];
    (destruct ((p_ip ps <=? in_addr) && (in_addr - dw <? p_ip ps)); cbn [andb];
     [match goal with |- context [fails k ?c] => destruct (fails k c) end; [reflexivity|];
      destruct (p_inp ps) as [|b rest]; [reflexivity|];
      destruct (py_write_bit ww zb pm1 in_addr b) as [pm2 [a2|u2]]; [reflexivity|]|]);
    match goal with |- context [fast_lookup ww zb ?pm (N.shiftr f ww)] =>
      destruct (fast_lookup ww zb pm (N.shiftr f ww)) as [pm3 [a3|v]] end;
    try reflexivity;
    match goal with |- context [if negb ?c then py_get_word ww zb ?pm ?a else ?e] =>
      destruct (if negb c then py_get_word ww zb pm a else e) as [pm5 [a5|j]] end;
    try reflexivity;
    (match goal with |- context [if (?j =? ?i) && ?c then _ else _] => destruct ((j =? i) && c) end; [reflexivity|]);
    (destruct (j <? dw); reflexivity).
Qed.

(* ---- one-step simulation ------------------------------------------------------------------------------------ *)
Definition frel (a : (st * N) + (fcause * st * N)) (b : pfres) : Prop :=
  match a, b with
  | inl (s', c), inl (ps', c') => stR s' ps' /\ ip s' < W /\ c = c'
  | inr (fc, s', c), inr (fc', ps', c') => fc = fc' /\ stR s' ps' /\ c = c'
  | _, _ => False
  end.

Lemma sim_lift a b c : sim a b -> frel (lift_m a c) (lift_p b c).
Proof.
  unfold EngPyProps.sim, frel, lift_m, lift_p.
  destruct a as [s'|[cs s']], b as [ps'|[cs' ps']]; try contradiction.
  - intros [R H]. auto.
  - intros [-> R]. auto.
Qed.

Ltac prj := cbn [ip m inp outp ops hist p_ip p_mem p_inp p_out p_ops p_hist fst snd].

Theorem featured_fsim s ps calls : stR s ps -> ip s < W ->
  frel (fstep ww sg k s calls) (featured_fstep ww zb k ps calls).
Proof using Hww.
  intros ST Hip. pose proof (featured_sim ww Hww sg zb s ps ST Hip) as SIM.
  rewrite fstep_decomp, featured_fstep_decomp.
  destruct ST as (Eip & Einp & Eout & Eops & Ehist & R).
  pose proof (W_gt_4w ww Hww) as HW.
  destruct (py_get_word ww zb (p_mem ps) (p_ip ps)) as [pm1 r1] eqn:E1. rewrite <- Eip in E1.
  destruct (get_word_spec ww Hww sg zb _ _ (ip s) _ _ R ltac:(lia) E1) as [R1 ->].
  destruct (get_word ww sg (m s) (ip s)) as [a|f]; [now apply sim_lift|].
  cbv zeta. rewrite <- Eip, <- Einp, <- Eout, <- Eops, <- Ehist.
  destruct (is_output ww f && fails k calls).
  { unfold frel, EngPyProps.stR; prj. auto 10. }
  destruct (covers_input ww (ip s) && fails k (if is_output ww f then calls + 1 else calls)).
  { unfold frel, EngPyProps.stR; prj. auto 10. }
  now apply sim_lift.
Qed.

Theorem fast_fsim s ps calls : stR s ps -> ip s < W ->
  frel (fstep ww sg k s calls) (fast_fstep ww zb k ps calls).
Proof using Hww.
  intros ST Hip. pose proof (fast_sim ww Hww sg zb s ps ST Hip) as SIM.
  rewrite fstep_decomp, fast_fstep_decomp.
  destruct ST as (Eip & Einp & Eout & Eops & Ehist & R).
  pose proof (W_gt_4w ww Hww) as HW. pose proof (in_addr_lt ww Hww) as Hin. pose proof (w_ge8 ww Hww) as Hw8.
  pose proof (wa_small ww Hww (ip s) ltac:(lia)) as Hwa.
  rewrite <- Eip.
  (* the first read *)
  assert (RD1 : exists pm1, (if negb (N.land (ip s) (w - 1) =? 0) then py_get_word ww zb (p_mem ps) (ip s)
                             else fast_lookup ww zb (p_mem ps) (N.shiftr (ip s) ww)) = (pm1, get_word ww sg (m s) (ip s))
                            /\ memR pm1 (m s)).
  { destruct (N.land (ip s) (w - 1) =? 0) eqn:Eo; cbn [negb].
    - apply N.eqb_eq in Eo. destruct (fast_lookup ww zb (p_mem ps) (N.shiftr (ip s) ww)) as [pm1 r1] eqn:E1.
      destruct (fast_lookup_spec ww sg zb _ _ (N.shiftr (ip s) ww) _ _ R ltac:(lia) E1) as [R1 ->].
      exists pm1. rewrite (aligned_get_word ww sg) by exact Eo. auto.
    - destruct (py_get_word ww zb (p_mem ps) (ip s)) as [pm1 r1] eqn:E1.
      destruct (get_word_spec ww Hww sg zb _ _ (ip s) _ _ R ltac:(lia) E1) as [R1 ->]. exists pm1; auto. }
  destruct RD1 as (pm1 & -> & R1).
  destruct (get_word ww sg (m s) (ip s)) as [a|f]; [now apply sim_lift|].
  cbv zeta. rewrite <- Einp, <- Eout, <- Eops, <- Ehist.
  replace ((ip s <=? in_addr) && (in_addr - dw <? ip s)) with (covers_input ww (ip s)).
  2:{ unfold covers_input, MachineSpec.in_addr, MachineSpec.dw in *. f_equal.
      destruct (N.ltb_spec (3 * w + ww + 1) (ip s + 2 * w)), (N.ltb_spec (3 * w + ww + 1 - 2 * w) (ip s)); try reflexivity; lia. }
  destruct (is_output ww f && fails k calls).
  { unfold frel, EngPyProps.stR; prj. auto 10. }
  destruct (covers_input ww (ip s) && fails k (if is_output ww f then calls + 1 else calls)).
  { unfold frel, EngPyProps.stR; prj. auto 10. }
  now apply sim_lift.
Qed.

(* ---- whole runs ----------------------------------------------------------------------------------------------- *)
Definition frunR (a : fcause * st * N) (b : fcause * pst * N) : Prop :=
  fst (fst a) = fst (fst b) /\ stR (snd (fst a)) (snd (fst b)) /\ snd a = snd b.

Lemma frun_sim stepf :
  (forall s ps calls, stR s ps -> ip s < W -> frel (fstep ww sg k s calls) (stepf ps calls)) ->
  forall fuel s ps calls, stR s ps -> ip s < W ->
    frunR (frun ww sg k fuel s calls) (frun_py stepf fuel ps calls).
Proof.
  intros Hsim. induction fuel as [|n IH]; intros s ps calls R Hip; cbn [frun frun_py].
  - unfold frunR; cbn. auto.
  - specialize (Hsim s ps calls R Hip). unfold frel in Hsim.
    destruct (fstep ww sg k s calls) as [[s' c']|[[fc s'] c']], (stepf ps calls) as [[ps' c2]|[[fc2 ps'] c2]];
      try contradiction.
    + destruct Hsim as (R' & Hip' & ->). now apply IH.
    + destruct Hsim as (-> & R' & ->). unfold frunR; cbn. auto.
Qed.

Theorem featured_frun_refines fuel s ps calls : stR s ps -> ip s < W ->
  frunR (frun ww sg k fuel s calls) (frun_py (featured_fstep ww zb k) fuel ps calls).
Proof using Hww. apply frun_sim. intros; now apply featured_fsim. Qed.

Theorem fast_frun_refines fuel s ps calls : stR s ps -> ip s < W ->
  frunR (frun ww sg k fuel s calls) (frun_py (fast_fstep ww zb k) fuel ps calls).
Proof using Hww. apply frun_sim. intros; now apply fast_fsim. Qed.

(* the engine stops at an op boundary of the failure-free MACHINE run (with Faults' frun_prefix) *)
Lemma py_stop_is_op_boundary stepf :
  (forall s ps calls, stR s ps -> ip s < W -> frel (fstep ww sg k s calls) (stepf ps calls)) ->
  forall fuel s ps calls rd ps' calls', stR s ps -> ip s < W ->
  frun_py stepf fuel ps calls = (DevFail rd, ps', calls') ->
  exists n sn s', steps ww sg n s = Some sn /\ stopped_at rd sn s' /\ stR s' ps' /\
                  ops sn = ops s + N.of_nat n /\ k = Some calls'.
Proof.
  intros Hsim fuel s ps calls rd ps' calls' R Hip H.
  pose proof (frun_sim stepf Hsim fuel s ps calls R Hip) as FR. rewrite H in FR.
  destruct (frun ww sg k fuel s calls) as [[fc s'] c'] eqn:E. unfold frunR in FR; cbn in FR.
  destruct FR as (-> & R' & ->).
  destruct (frun_prefix ww sg k fuel s calls rd s' calls' E) as (n & sn & H1 & H2 & H3 & H4).
  exists n, sn, s'. auto.
Qed.

(* a run of the engine that ends by itself is a run of the machine definition (with Faults' frun_halt) *)
Lemma py_halt_is_machine_run stepf :
  (forall s ps calls, stR s ps -> ip s < W -> frel (fstep ww sg k s calls) (stepf ps calls)) ->
  forall fuel s ps calls c ps' calls', stR s ps -> ip s < W ->
  frun_py stepf fuel ps calls = (Halt c, ps', calls') ->
  fst (run ww sg fuel s) = c /\ stR (snd (run ww sg fuel s)) ps'.
Proof.
  intros Hsim fuel s ps calls c ps' calls' R Hip H.
  pose proof (frun_sim stepf Hsim fuel s ps calls R Hip) as FR. rewrite H in FR.
  destruct (frun ww sg k fuel s calls) as [[fc s'] c'] eqn:E. unfold frunR in FR; cbn in FR.
  destruct FR as (-> & R' & ->).
  rewrite (frun_halt ww sg k fuel s calls c s' calls' E). auto.
Qed.

End W.

(* ---- the statements of Properties/C18_engines.v (closed forms) ---------------------------------------------- *)
Definition engine_fstep (ww : N) (zb : list (N * N)) (featured : bool) (k : option N) : pst -> N -> pfres :=
  if featured then featured_fstep ww zb k else fast_fstep ww zb k.

Theorem py_fault_refines ww (Hww : 3 <= ww) sg zb featured k fuel s ps calls :
  EngPyProps.stR ww sg zb s ps -> ip s < 2 ^ w ww ->
  let '(fc, s', c') := frun ww sg k fuel s calls in
  let '(pfc, ps', pc') := frun_py (engine_fstep ww zb featured k) fuel ps calls in
  pfc = fc /\ pc' = c' /\
  p_ops ps' = ops s' /\ p_out ps' = outp s' /\ p_inp ps' = inp s' /\ p_hist ps' = hist s' /\ p_ip ps' = ip s' /\
  EngPyProps.memR ww sg zb (p_mem ps') (m s').
Proof.
  intros R Hip.
  assert (FR : frunR ww sg zb (frun ww sg k fuel s calls) (frun_py (engine_fstep ww zb featured k) fuel ps calls)).
  { unfold engine_fstep. destruct featured; [now apply featured_frun_refines|now apply fast_frun_refines]. }
  destruct (frun ww sg k fuel s calls) as [[fc s'] c'].
  destruct (frun_py (engine_fstep ww zb featured k) fuel ps calls) as [[pfc ps'] pc'].
  unfold frunR, EngPyProps.stR in FR; cbn in FR.
  destruct FR as (E1 & (E2 & E3 & E4 & E5 & E6 & R') & E7). repeat split; try congruence; try (symmetry; assumption).
  - apply R'.
  - apply R'.
Qed.

(* from the start of a run: any Reader-style representation pm of the image m0 (memR: established for every state the
   Reader produces by Proofs/GlueLoad.v reader_memR / image_memR), any input *)
Theorem py_fault_refines_init ww (Hww : 3 <= ww) sg zb featured k fuel pm m0 input :
  EngPyProps.memR ww sg zb pm m0 ->
  let '(fc, s', c') := frun ww sg k fuel (init m0 input) 0 in
  let '(pfc, ps', pc') := frun_py (engine_fstep ww zb featured k) fuel (mkpst 0 pm input [] 0 []) 0 in
  pfc = fc /\ pc' = c' /\
  p_ops ps' = ops s' /\ p_out ps' = outp s' /\ p_inp ps' = inp s' /\ p_hist ps' = hist s' /\ p_ip ps' = ip s' /\
  EngPyProps.memR ww sg zb (p_mem ps') (m s').
Proof.
  intros R. apply py_fault_refines; [exact Hww| |].
  - unfold EngPyProps.stR, init. cbn. auto 10.
  - cbn. apply N.neq_0_lt_0. apply N.pow_nonzero. discriminate.
Qed.

Theorem py_fault_stop_boundary ww (Hww : 3 <= ww) sg zb featured k fuel s ps calls rd ps' calls' :
  EngPyProps.stR ww sg zb s ps -> ip s < 2 ^ w ww ->
  frun_py (engine_fstep ww zb featured k) fuel ps calls = (DevFail rd, ps', calls') ->
  exists n sn s', steps ww sg n s = Some sn /\ stopped_at rd sn s' /\ EngPyProps.stR ww sg zb s' ps' /\
                  ops sn = ops s + N.of_nat n /\ k = Some calls'.
Proof.
  intros R Hip. apply py_stop_is_op_boundary; try assumption.
  unfold engine_fstep. destruct featured; intros; [now apply featured_fsim|now apply fast_fsim].
Qed.

Theorem py_fault_halt_is_run ww (Hww : 3 <= ww) sg zb featured k fuel s ps calls c ps' calls' :
  EngPyProps.stR ww sg zb s ps -> ip s < 2 ^ w ww ->
  frun_py (engine_fstep ww zb featured k) fuel ps calls = (Halt c, ps', calls') ->
  fst (run ww sg fuel s) = c /\ EngPyProps.stR ww sg zb (snd (run ww sg fuel s)) ps'.
Proof.
  intros R Hip. apply py_halt_is_machine_run with (k := k); try assumption.
  unfold engine_fstep. destruct featured; intros; [now apply featured_fsim|now apply fast_fsim].
Qed.

(* fjm_run.run's outcome class is the ladder's, whatever the engine; the statistics / left-behind state are the
   machine's stop state *)
Theorem py_run_outcome ww (Hww : 3 <= ww) sg zb featured k x fuel s ps :
  EngPyProps.stR ww sg zb s ps -> ip s < 2 ^ w ww ->
  match frun ww sg k fuel s 0, py_run ww zb featured k x fuel ps with
  | (Halt c, s', _), PStats c' ps' => c' = c /\ EngPyProps.stR ww sg zb s' ps'
  | (DevFail _, s', _), PKbdStats ps' => run_ladder x = KbdStatistics /\ EngPyProps.stR ww sg zb s' ps'
  | (DevFail _, s', _), PReraised ps' => run_ladder x = Reraised /\ EngPyProps.stR ww sg zb s' ps'
  | (DevFail _, s', _), PWrapped ps' => run_ladder x = WrappedRuntimeError /\ EngPyProps.stR ww sg zb s' ps'
  | _, _ => False
  end.
Proof.
  intros R Hip. unfold py_run. fold (engine_fstep ww zb featured k).
  assert (FR : frunR ww sg zb (frun ww sg k fuel s 0) (frun_py (engine_fstep ww zb featured k) fuel ps 0)).
  { unfold engine_fstep. destruct featured; [now apply featured_frun_refines|now apply fast_frun_refines]. }
  destruct (frun ww sg k fuel s 0) as [[fc s'] c'].
  destruct (frun_py (engine_fstep ww zb featured k) fuel ps 0) as [[pfc ps'] pc'].
  unfold frunR in FR; cbn in FR. destruct FR as (<- & R' & _).
  destruct fc as [c|rd]; [auto|]. destruct (run_ladder x); auto.
Qed.
