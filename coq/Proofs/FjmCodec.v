From FJ Require Import Lib.Base Lib.Bytes Spec.ImageSpec Model.Fjm.
(* Byte-level lemmas: what the writer packs, the reader unpacks (header, extension, segment table, data pool). *)
Local Open Scope N_scope.

(* ---- fixed-layout chunks --------------------------------------------------------------------------- *)

Lemma hdr_fields a b c d :
  let h := le_enc 2 a ++ le_enc 2 b ++ le_enc 8 c ++ le_enc 8 d in
  u_at 0 2 h = le_dec (le_enc 2 a) /\ u_at 2 2 h = le_dec (le_enc 2 b) /\
  u_at 4 8 h = le_dec (le_enc 8 c) /\ u_at 12 8 h = le_dec (le_enc 8 d).
Proof. cbn [le_enc app u_at skipn firstn]. repeat split; reflexivity. Qed.

Lemma ext_fields a b :
  let h := le_enc 8 a ++ le_enc 4 b in
  u_at 0 8 h = le_dec (le_enc 8 a) /\ u_at 8 4 h = le_dec (le_enc 4 b).
Proof. cbn [le_enc app u_at skipn firstn]. repeat split; reflexivity. Qed.

Definition enc_tseg (t : tseg) : bytes :=
  let '(a, b, c, d) := t in le_enc 8 a ++ le_enc 8 b ++ le_enc 8 c ++ le_enc 8 d.

Definition tseg_u64 (t : tseg) : Prop :=
  let '(a, b, c, d) := t in a < 2 ^ 64 /\ b < 2 ^ 64 /\ c < 2 ^ 64 /\ d < 2 ^ 64.

Lemma enc_tseg_length t : length (enc_tseg t) = 32%nat.
Proof. destruct t as [[[a b] c] d]. unfold enc_tseg. now rewrite !app_length, !le_enc_length. Qed.

Lemma seg_of_bytes_enc t : tseg_u64 t -> seg_of_bytes (enc_tseg t) = t.
Proof.
  destruct t as [[[a b] c] d]. intros (Ha & Hb & Hc & Hd). unfold seg_of_bytes, enc_tseg.
  assert (E : forall v, v < 2 ^ 64 -> le_dec (le_enc 8 v) = v) by (intros; now apply le_dec_enc).
  replace (u_at 0 8 _) with (le_dec (le_enc 8 a)) by (cbn [le_enc app u_at skipn firstn]; reflexivity).
  replace (u_at 8 8 _) with (le_dec (le_enc 8 b)) by (cbn [le_enc app u_at skipn firstn]; reflexivity).
  replace (u_at 16 8 _) with (le_dec (le_enc 8 c)) by (cbn [le_enc app u_at skipn firstn]; reflexivity).
  replace (u_at 24 8 _) with (le_dec (le_enc 8 d)) by (cbn [le_enc app u_at skipn firstn]; reflexivity).
  now rewrite !E.
Qed.

Definition enc_table (T : list tseg) : bytes := concat (map enc_tseg T).

Lemma enc_table_length T : length (enc_table T) = (32 * length T)%nat.
Proof.
  unfold enc_table. induction T as [|t T IH]; [reflexivity|].
  cbn [map concat length]. rewrite app_length, enc_tseg_length, IH. lia.
Qed.

Lemma read_segs_enc T rest :
  Forall tseg_u64 T -> read_segs (length T) (enc_table T ++ rest) = Some (T, rest).
Proof.
  induction 1 as [|t T Ht _ IH]; [reflexivity|].
  unfold enc_table. cbn [map concat length read_segs]. rewrite <- app_assoc.
  unfold segment_size. rewrite (take_app 32 (enc_tseg t)) by apply enc_tseg_length.
  fold (enc_table T). rewrite IH. now rewrite seg_of_bytes_enc.
Qed.

(* ---- the writer's packing, on values already known to be in range ---------------------------------- *)

Definition tsegZ (t : tseg) : Z * Z * Z * Z :=
  let '(a, b, c, d) := t in (Z.of_N a, Z.of_N b, Z.of_N c, Z.of_N d).

Lemma pack_u_N n v : v < 256 ^ N.of_nat n -> pack_u n (Z.of_N v) = Some (le_enc n v).
Proof.
  intros H. unfold pack_u.
  assert (Z.of_N v < 256 ^ Z.of_nat n)%Z.
  { apply N2Z.inj_lt in H. rewrite N2Z.inj_pow in H. now rewrite nat_N_Z in H. }
  replace ((0 <=? Z.of_N v)%Z && (Z.of_N v <? 256 ^ Z.of_nat n)%Z) with true by (symmetry; lia).
  now rewrite N2Z.id.
Qed.

Lemma pack_u_Z n v : (0 <= v < 256 ^ Z.of_nat n)%Z -> pack_u n v = Some (le_enc n (Z.to_N v)).
Proof. intros H. unfold pack_u. now replace ((0 <=? v)%Z && (v <? 256 ^ Z.of_nat n)%Z) with true by (symmetry; lia). Qed.

Lemma pack_u_none n v : ~ (0 <= v < 256 ^ Z.of_nat n)%Z -> pack_u n v = None.
Proof. intros H. unfold pack_u. now replace ((0 <=? v)%Z && (v <? 256 ^ Z.of_nat n)%Z) with false by (symmetry; lia). Qed.

Lemma pack_seg_enc t : tseg_u64 t -> pack_seg (tsegZ t) = Some (enc_tseg t).
Proof.
  destruct t as [[[a b] c] d]. intros (Ha & Hb & Hc & Hd). unfold pack_seg, tsegZ, enc_tseg.
  now rewrite !pack_u_N by (rewrite word_bound_64; assumption).
Qed.

Lemma pack_segs_enc T : Forall tseg_u64 T -> pack_segs (map tsegZ T) = (enc_table T, true).
Proof.
  induction 1 as [|t T Ht _ IH]; [reflexivity|].
  cbn [map pack_segs]. rewrite pack_seg_enc by exact Ht. rewrite IH. reflexivity.
Qed.

Definition enc_words (wb : nat) (D : list Z) : bytes := concat (map (fun x => le_enc wb (Z.to_N x)) D).

Lemma pack_words_enc wb D :
  Forall (fun x => 0 <= x < 256 ^ Z.of_nat wb)%Z D -> pack_words wb D = Some (enc_words wb D).
Proof.
  induction 1 as [|x D Hx _ IH]; [reflexivity|].
  cbn [pack_words]. rewrite pack_u_Z by exact Hx. rewrite IH. reflexivity.
Qed.

Lemma enc_words_length wb D : length (enc_words wb D) = (wb * length D)%nat.
Proof.
  unfold enc_words. induction D as [|x D IH]; [cbn; lia|].
  cbn [map concat length]. rewrite app_length, le_enc_length, IH. lia.
Qed.

Lemma unpack_words_enc fuel wb D :
  (1 <= wb)%nat -> (length (enc_words wb D) <= fuel)%nat ->
  Forall (fun x => 0 <= x < 256 ^ Z.of_nat wb)%Z D ->
  unpack_words fuel wb (enc_words wb D) = UOk (map Z.to_N D).
Proof.
  intros Hwb. revert fuel. induction D as [|x D IH]; intros fuel Hf HD.
  - destruct fuel; reflexivity.
  - inversion HD as [|? ? Hx HD']; subst.
    unfold enc_words in *. cbn [map concat] in *.
    remember (le_enc wb (Z.to_N x)) as e eqn:Ee.
    assert (Le : length e = wb) by (subst e; apply le_enc_length).
    destruct e as [|e0 e']; [cbn in Le; lia|].
    cbn [app]. rewrite app_length in Hf. destruct fuel as [|fuel]; [cbn in Hf; lia|].
    cbn [unpack_words]. change (e0 :: e' ++ ?r) with ((e0 :: e') ++ r).
    rewrite take_app by exact Le.
    rewrite IH; [| cbn [length] in *; lia | exact HD'].
    cbn [map]. f_equal. f_equal. rewrite Ee. apply le_dec_enc.
    destruct Hx as [H0 H1]. apply N2Z.inj_lt. rewrite Z2N.id by exact H0.
    rewrite N2Z.inj_pow. now rewrite nat_N_Z.
Qed.

Lemma unpack_no_fuel fuel wb b :
  (1 <= wb)%nat -> (length b <= fuel)%nat -> unpack_words fuel wb b <> UFuel.
Proof.
  intros Hwb. revert b. induction fuel as [|f IH]; intros b Hb.
  - destruct b; [discriminate | cbn in Hb; lia].
  - destruct b as [|x r]; [discriminate|].
    cbn [unpack_words]. destruct (take wb (x :: r)) as [[c r']|] eqn:E; [|discriminate].
    apply take_some in E. destruct E as [E Lc].
    assert (length r' <= f)%nat.
    { apply (f_equal (@length N)) in E. rewrite app_length in E. cbn [length] in *. lia. }
    specialize (IH r' H). destruct (unpack_words f wb r'); congruence.
Qed.

(* ---- widths ---------------------------------------------------------------------------------------- *)

Lemma supported_width_cases w :
  supported_width w = true -> w = 8 \/ w = 16 \/ w = 32 \/ w = 64.
Proof.
  unfold supported_width. intros H.
  destruct (w =? 8) eqn:E1; [apply N.eqb_eq in E1; auto|].
  destruct (w =? 16) eqn:E2; [apply N.eqb_eq in E2; auto|].
  destruct (w =? 32) eqn:E3; [apply N.eqb_eq in E3; auto|].
  destruct (w =? 64) eqn:E4; [apply N.eqb_eq in E4; auto|]. discriminate.
Qed.

Lemma word_bytes_supported w :
  supported_width w = true ->
  exists wb, word_bytes w = Some wb /\ (1 <= wb)%nat /\ 256 ^ N.of_nat wb = 2 ^ w /\ N.of_nat wb * 8 = w.
Proof.
  intros H. apply supported_width_cases in H. destruct H as [-> | [-> | [-> | ->]]].
  - exists 1%nat. repeat split; reflexivity || lia.
  - exists 2%nat. repeat split; reflexivity || lia.
  - exists 4%nat. repeat split; reflexivity || lia.
  - exists 8%nat. repeat split; reflexivity || lia.
Qed.
