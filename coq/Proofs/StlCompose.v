(* From the finite digit lemmas to ALL operands (DESIGN 4, "S beyond enumeration, by composition").

   Model/StlDigit.v decides, by computation on the assembled image, facts about ONE segment of a harness block
   (prologue, digit step i, exit tail) started on `image overridden by a few digits and state cells`.
   Here:
     seg_eval_sound   LOCALITY lifts such a computation to every memory that agrees with it outside the words of the
                      other digit steps, which the segment is checked not to touch;
     chain_run        run_split + induction over the digit steps (with the early leaves): started on the image patched
                      with ANY operands the block reaches the `stl.loop` of the exit that the relation chain_rel of the
                      digit specification determines, and the final memory is described digit by digit;
     chain_block_correct   ... which is the frame equation block_correct of Spec/StlSpec.v once the arithmetic of the
                      digit specification is known:
     ripple_add_correct, compose_add          value (ripple ds ss c) = (value ds + value ss + c) mod B^n   (hex.add, bit.add)
     sub_rel, value_compl, compose_sub        a borrow chain is the carry chain of the complemented subtrahend  (hex.sub)
     compose_map2 + dg_lxor/dg_lor/dg_land    digit-wise xor / or / and                          (hex.xor/or/and, bit.xor)
     compose_not                              digit-wise complement                                   (hex.not, bit.not)
     value_inc, value_dec, compose_inc/dec    increment / decrement with the early exit                (hex.inc, hex.dec)
     cmp_lex_correct, compose_cmp             lexicographic comparison from the most significant digit (hex.cmp, bit.cmp)
     value_zero, compose_if                   zero test of a whole vector, leaves at the first non-zero digit (hex/bit.if, if0, if1)
     binc_rel, compose_binc                   increment whose carry is a cell; a step that finds it clear leaves       (bit.inc)
     compose_map22, compose_map1              digit-wise with two outputs / constant (hex/bit.xor_zero, bit.swap, hex/bit.zero)
   The only computations are the boolean checks in the hypotheses; their finite domains are stated there.
   The *_inst corollaries name every derived quantity so that a generated instance matches them syntactically. *)
From FJ Require Import Lib.Base Spec.MachineSpec Spec.StlSpec Model.StlRun Model.StlDigit
  Proofs.MachineProps Proofs.StlProps Proofs.Locality.
Local Open Scope N_scope.

(* ------------------------------------------------------------------------------------------- *)
(* lists, association lists                                                                     *)

Lemma memb_In a l : memb a l = true <-> In a l.
Proof.
  unfold memb. rewrite existsb_exists. split.
  - intros [x [I E]]. apply N.eqb_eq in E. now subst.
  - intros I. exists a. split; [assumption|apply N.eqb_refl].
Qed.

Lemma memb_false a l : memb a l = false -> ~ In a l.
Proof. intros H I. apply memb_In in I. congruence. Qed.

Lemma nodupb_NoDup l : nodupb l = true -> NoDup l.
Proof.
  induction l as [|a l IH]; cbn [nodupb]; intros H; constructor.
  - apply andb_prop in H. destruct H as [H _]. apply negb_true_iff in H. now apply memb_false.
  - apply andb_prop in H. destruct H as [_ H]. auto.
Qed.

Lemma pairs_eqb_eq a : forall b, pairs_eqb a b = true -> a = b.
Proof.
  induction a as [|[x1 x2] a IH]; intros [|[y1 y2] b] H; cbn in H; try discriminate; [reflexivity|].
  apply andb_prop in H. destruct H as [H H3]. apply andb_prop in H. destruct H as [H1 H2].
  apply N.eqb_eq in H1, H2. subst. f_equal. auto.
Qed.

Lemma forallb_cons_true {A} (f : A -> bool) a l : f a = true -> forallb f l = true -> forallb f (a :: l) = true.
Proof. intros H1 H2. cbn. now rewrite H1, H2. Qed.

Lemma NoDup_app_disj {A} (l1 l2 : list A) a : NoDup (l1 ++ l2) -> In a l1 -> ~ In a l2.
Proof.
  induction l1 as [|x l1 IH]; cbn; intros ND I; [contradiction|].
  inversion ND; subst. destruct I as [->|I].
  - intros I2. apply H1. apply in_or_app. now right.
  - now apply IH.
Qed.

Lemma NoDup_app_r {A} (l1 l2 : list A) : NoDup (l1 ++ l2) -> NoDup l2.
Proof. induction l1; cbn; intros H; [assumption|]. inversion H; auto. Qed.

Lemma map_eq_In {A B} (f g : A -> B) l a : map f l = map g l -> In a l -> f a = g a.
Proof.
  induction l as [|x l IH]; cbn; intros E I; [contradiction|].
  inversion E. destruct I as [->|I]; auto.
Qed.

Lemma mget0_upd mm l a : mget0 (upd mm l) a = over mm l a.
Proof.
  unfold over. induction l as [|p l IH]; cbn [upd lookup]; [reflexivity|].
  rewrite mget0_mset. destruct (fst p =? a); auto.
Qed.

Lemma lookup_app l1 l2 a :
  lookup (l1 ++ l2) a = match lookup l1 a with Some v => Some v | None => lookup l2 a end.
Proof. induction l1 as [|p l1 IH]; cbn [app lookup]; [reflexivity|]. destruct (fst p =? a); auto. Qed.

Lemma lookup_None l a : ~ In a (map fst l) -> lookup l a = None.
Proof.
  induction l as [|p l IH]; cbn [lookup map]; intros H; [reflexivity|].
  destruct (N.eqb_spec (fst p) a) as [E|NE]; [exfalso; apply H; now left|].
  apply IH. intros X. apply H. now right.
Qed.

Lemma lookup_Some_In l a v : lookup l a = Some v -> In a (map fst l).
Proof.
  induction l as [|p l IH]; cbn [lookup map]; [discriminate|].
  destruct (N.eqb_spec (fst p) a) as [E|NE]; [intros _; now left|intros H; right; auto].
Qed.

Lemma map_fst_combine_incl (l : list N) (vs : list N) a : In a (map fst (combine l vs)) -> In a l.
Proof.
  revert vs. induction l as [|x l IH]; intros [|v vs]; cbn; try contradiction.
  intros [->|I]; [now left|right; eauto].
Qed.

Lemma lookup_combine_fun (f : N -> N) l a : In a l -> lookup (combine l (map f l)) a = Some (f a).
Proof.
  induction l as [|x l IH]; cbn [combine map lookup fst snd]; intros I; [contradiction|].
  destruct (N.eqb_spec x a) as [->|NE]; [reflexivity|].
  destruct I as [E|I]; [contradiction|auto].
Qed.

(* reading back, at distinct addresses, what an override list put there *)
Lemma over_combine_nodup mm (g : N -> N) l : forall vs rest,
  NoDup l -> length vs = length l ->
  (forall a, In a l -> g a = over mm (combine l vs ++ rest) a) -> map g l = vs.
Proof.
  induction l as [|x l IH]; intros [|v vs] rest ND L H; cbn in L; try discriminate; [reflexivity|].
  inversion ND; subst. cbn [map]. f_equal.
  - rewrite (H x) by now left. unfold over. cbn [combine app lookup fst snd]. now rewrite N.eqb_refl.
  - apply (IH vs rest); auto. intros a I. rewrite (H a) by now right.
    unfold over. cbn [combine app lookup fst snd].
    destruct (N.eqb_spec x a) as [->|NE]; [contradiction|reflexivity].
Qed.

Lemma prod_lists_In (ls : list (list N)) : forall l, Forall2 (fun v l' => In v l') l ls -> In l (prod_lists ls).
Proof.
  induction ls as [|l0 ls IH]; intros l H; inversion H; subst; cbn [prod_lists]; [now left|].
  apply in_flat_map. exists x. split; [assumption|]. apply in_map. now apply IH.
Qed.

Lemma nth_error_app_mid {A} (l1 : list A) x y l2 k :
  k <> length l1 -> nth_error (l1 ++ x :: l2) k = nth_error (l1 ++ y :: l2) k.
Proof.
  revert k. induction l1 as [|a l1 IH]; intros [|k] H; cbn in *; try reflexivity; try congruence.
  apply IH. congruence.
Qed.

Lemma nth_error_app_at {A} (l1 : list A) x l2 : nth_error (l1 ++ x :: l2) (length l1) = Some x.
Proof. induction l1; cbn; auto. Qed.

Lemma nth_error_lt {A} (l : list A) k x : nth_error l k = Some x -> (k < length l)%nat.
Proof. intros H. apply nth_error_Some. congruence. Qed.

Lemma nth_error_map_seq {A} (f : nat -> A) n k r :
  nth_error (map f (seq 0 n)) k = Some r -> (k < n)%nat /\ r = f k.
Proof.
  intros H. assert (K : (k < n)%nat).
  { apply nth_error_lt in H. now rewrite map_length, seq_length in H. }
  split; [assumption|].
  rewrite nth_error_map in H. rewrite (nth_error_nth' _ 0%nat) in H by (now rewrite seq_length).
  rewrite seq_nth in H by assumption. cbn in H. congruence.
Qed.

Lemma nth_error_map_seq_lt {A} (f : nat -> A) n k : (k < n)%nat -> nth_error (map f (seq 0 n)) k = Some (f k).
Proof.
  intros K. rewrite nth_error_map, (nth_error_nth' _ 0%nat) by (now rewrite seq_length).
  now rewrite seq_nth.
Qed.

(* ------------------------------------------------------------------------------------------- *)
(* the chain relation: what a digit specification says about a whole run over the digit positions *)

Fixpoint chain_rel (cells : list (N * list N)) (fall : N) (D : dspec) (rows : list (list N)) (cv : list N)
                   (rows' : list (list N)) (cvE : list N) (e : N) : Prop :=
  match rows, rows' with
  | [], [] => cvE = cv /\ e = fall
  | r :: rs, r' :: rs' =>
      exists cv1 exp dn, D r (cv_idx cells cv) = Some (r', exp, dn) /\ prefixb exp (cv_idx cells cv1) = true /\
                         match dn with
                         | Some x => rs' = rs /\ cvE = cv1 /\ e = x
                         | None => chain_rel cells fall D rs cv1 rs' cvE e
                         end
  | _, _ => False
  end.

(* a specification that only ever leaves through the fall-through exit ends there *)
Lemma chain_rel_exit cells fall (D : dspec) :
  (forall r ci r' exp x, D r ci = Some (r', exp, Some x) -> x = fall) ->
  forall rows cv rows' cvE e, chain_rel cells fall D rows cv rows' cvE e -> e = fall.
Proof.
  intros HD. induction rows as [|r rows IH]; intros cv [|r' rows'] cvE e REL; cbn in REL; try contradiction.
  - now destruct REL.
  - destruct REL as [cv1 [exp [dn [E [_ REL]]]]]. destruct dn as [x|].
    + destruct REL as [_ [_ ->]]. eapply HD. exact E.
    + eapply IH. exact REL.
Qed.

(* splitting a row-wise memory description at the boundary operand digits / private temporaries *)
Lemma map_app_split {A B C} (f : A -> C) (g : B -> C) l1 l2 r :
  map f (l1 ++ l2) = map g r ->
  map f l1 = map g (firstn (length l1) r) /\ map f l2 = map g (skipn (length l1) r).
Proof.
  revert r. induction l1 as [|x l1 IH]; intros r H; simpl in *; [split; [reflexivity|exact H]|].
  destruct r as [|y r]; simpl in H; [discriminate|]. inversion H. simpl.
  destruct (IH r H2) as [E1 E2]. split; [congruence|exact E2].
Qed.

Lemma map_eq_In_ex {A B C} (f : A -> C) (g : B -> C) l r a :
  map f l = map g r -> In a l -> exists d, In d r /\ f a = g d.
Proof.
  revert r. induction l as [|x l IH]; intros [|y r] H I; cbn in *; try discriminate; [contradiction|].
  inversion H. destruct I as [->|I]; [exists y; auto|].
  destruct (IH r H2 I) as [d [Id E]]. exists d. auto.
Qed.

Lemma firstn_app_exact {A} (l1 l2 : list A) : firstn (length l1) (l1 ++ l2) = l1.
Proof. induction l1; cbn; [reflexivity|now f_equal]. Qed.

Lemma In_skipn {A} k (l : list A) x : In x (skipn k l) -> In x l.
Proof. revert l. induction k as [|k IH]; intros [|y l] I; cbn in *; auto. Qed.

(* ---- what patching the operand variables puts where ---- *)

Lemma digit_words_In k : forall a x, In x (digit_words a k) <-> exists j, (j < k)%nat /\ x = a + 2 * N.of_nat j.
Proof.
  induction k as [|k IH]; intros a x; cbn [digit_words].
  - split; [contradiction|]. intros [j [J _]]. lia.
  - split.
    + intros [<-|I]; [exists 0%nat; split; [lia|cbn; lia]|].
      apply IH in I. destruct I as [j [J ->]]. exists (S j). split; lia.
    + intros [[|j] [J ->]]; [left; cbn; lia|]. right. apply IH. exists j. split; lia.
Qed.

Lemma patch_digits_get ww bits k : forall mm a v j, (j < k)%nat ->
  mget0 (patch_digits ww bits mm a k v) (a + 2 * N.of_nat j)
  = N.shiftl (N.land (N.shiftr v (bits * N.of_nat j)) (N.ones bits)) (ww + 1).
Proof.
  induction k as [|k IH]; intros mm a v j J; [lia|]. cbn [patch_digits].
  destruct j as [|j].
  - replace (a + 2 * N.of_nat 0) with a by (cbn; lia).
    unfold mget0. rewrite patch_digits_frame.
    + rewrite mget_mset_same. now rewrite N.mul_0_r, N.shiftr_0_r.
    + intros I. apply digit_words_In in I. destruct I as [j [_ E]]. lia.
  - replace (a + 2 * N.of_nat (S j)) with (a + 2 + 2 * N.of_nat j) by lia.
    rewrite IH by lia. rewrite N.shiftr_shiftr.
    replace (bits + bits * N.of_nat j) with (bits * N.of_nat (S j)) by lia. reflexivity.
Qed.

Lemma patch_vars_get ww bits k j : (j < k)%nat -> forall xs vs mm,
  length vs = length xs -> NoDup (vars_words xs) ->
  (forall x, In x xs -> v_bits x = bits /\ N.to_nat (v_n x) = k) ->
  map (mget0 (patch_vars ww mm xs vs)) (map (fun x => v_jw x + 2 * N.of_nat j) xs)
  = map (fun v => N.shiftl (N.land (N.shiftr v (bits * N.of_nat j)) (N.ones bits)) (ww + 1)) vs.
Proof.
  intros J. induction xs as [|x xs IH]; intros [|v vs] mm L ND SZ; cbn in L; try discriminate; [reflexivity|].
  cbn [patch_vars map]. unfold vars_words in ND. cbn [flat_map] in ND.
  destruct (SZ x (or_introl eq_refl)) as [SB SN].
  f_equal.
  - unfold mget0 at 1. rewrite patch_vars_frame.
    + fold (mget0 (patch_var ww mm x v) (v_jw x + 2 * N.of_nat j)). unfold patch_var.
      rewrite SB, SN. now apply patch_digits_get.
    + apply (NoDup_app_disj _ _ _ ND). apply digit_words_In. exists j. split; [lia|reflexivity].
  - apply IH; [congruence|eapply NoDup_app_r; exact ND|intros y Iy; apply SZ; now right].
Qed.

Lemma vars_words_rows k xs a : (forall x, In x xs -> N.to_nat (v_n x) = k) -> In a (vars_words xs) ->
  exists j, (j < k)%nat /\ In a (map (fun x => v_jw x + 2 * N.of_nat j) xs).
Proof.
  induction xs as [|x xs IH]; intros SZ I; unfold vars_words in I; cbn [flat_map] in I; [contradiction|].
  apply in_app_or in I. destruct I as [I|I].
  - apply digit_words_In in I. destruct I as [j [J ->]]. rewrite (SZ x (or_introl eq_refl)) in J.
    exists j. split; [assumption|]. now left.
  - destruct IH as [j [J Ij]]; [intros y Iy; apply SZ; now right|exact I|].
    exists j. split; [assumption|]. now right.
Qed.

Section W.
Variable ww : N.
Variable sg : list (N * N).
Variable img : mem.

Notation run := (run ww sg).

(* ---- the footprint contains the written words ---- *)

Lemma step_writes_touch s a : In a (step_writes ww sg s) -> In a (step_touch ww sg s).
Proof.
  unfold StlRun.step_writes, StlDigit.step_touch. intros H. apply in_or_app. right.
  destruct (get_word ww sg (m s) (ip s)) as [|f]; [contradiction|].
  destruct H as [<-|H]; [now left|]. right. apply in_or_app. now left.
Qed.

Lemma run_fp_W_T k : forall s T W c sf T' W',
  run_fp ww sg k s T W = (c, sf, T', W') -> incl W T -> incl W' T'.
Proof.
  induction k as [|k IH]; intros s T W c sf T' W' H I; cbn [StlDigit.run_fp] in H.
  - inversion H; subst; assumption.
  - assert (I2 : incl (step_writes ww sg s ++ W) (step_touch ww sg s ++ T)).
    { intros a Ha. apply in_app_or in Ha. apply in_or_app. destruct Ha as [Ha|Ha]; [left; now apply step_writes_touch|right; auto]. }
    destruct (step ww sg s) as [s1|[c1 s1]]; [eapply IH; eauto|inversion H; subst; assumption].
Qed.

(* ---- LOCALITY applied to one checked segment ---- *)

Lemma seg_post_sound F l k A c sf T W l' :
  run_fp ww sg k (mkst A (upd img l) [] [] 0 []) [] [] = (c, sf, T, W) ->
  seg_post img F l sf T = Some l' ->
  map fst l' = map fst l /\
  forall m0 n0 h0, (forall a, F a = false -> mget0 m0 a = over img l a) ->
    exists sf', run k (mkst A m0 [] [] n0 h0) = (c, sf') /\ ip sf' = ip sf /\ inp sf' = [] /\ outp sf' = outp sf /\
      (forall a, F a = true -> mget0 (m sf') a = mget0 m0 a) /\
      (forall a, F a = false -> mget0 (m sf') a = over img l' a).
Proof.
  intros R P. unfold seg_post in P.
  set (lr := map (fun p => (fst p, mget0 (m sf) (fst p))) l) in *.
  destruct (inp sf) as [|? ?] eqn:EI; [|discriminate].
  cbn [andb] in P.
  destruct (forallb (fun a => negb (F a)) T) eqn:EF; [|discriminate].
  destruct (forallb (fun a => mget0 (m sf) a =? over img lr a) (T ++ map fst l)) eqn:EM; [|discriminate].
  cbn [andb] in P. inversion P; subst l'. clear P.
  assert (FST : map fst lr = map fst l).
  { unfold lr. rewrite map_map. cbn [fst]. reflexivity. }
  split; [exact FST|].
  rewrite forallb_forall in EF, EM.
  assert (TF : forall a, In a T -> F a = false).
  { intros a Ia. apply EF in Ia. now apply negb_true_iff in Ia. }
  assert (WT : incl W T) by (eapply run_fp_W_T; [exact R|intros ? []]).
  (* the computed run itself: outside W the memory is the initial one *)
  assert (SELF : forall a, ~ In a W -> mget0 (m sf) a = over img l a).
  { destruct (locality ww sg k _ c sf T W (mkst A (upd img l) [] [] 0 []) R eq_refl eq_refl (fun _ _ => eq_refl))
      as [sf2 [R2 [_ [_ [_ [_ [_ [_ F2]]]]]]]].
    pose proof (run_fp_run ww sg k (mkst A (upd img l) [] [] 0 []) [] []) as E. rewrite R in E. cbn [fst] in E.
    rewrite <- E in R2. inversion R2; subst sf2.
    intros a Na. rewrite (F2 a Na). cbn [m]. apply mget0_upd. }
  intros m0 n0 h0 PRE.
  destruct (locality ww sg k _ c sf T W (mkst A m0 [] [] n0 h0) R eq_refl eq_refl) as
      [sf' [R' [Hip [Hinp [[o [O1 O2]] [_ [_ [MT MW]]]]]]]].
  { intros a Ia. cbn [m]. rewrite (PRE a (TF a Ia)). symmetry. apply mget0_upd. }
  exists sf'. split; [exact R'|]. split; [exact Hip|]. split; [congruence|]. split.
  { cbn [outp] in O1, O2. rewrite app_nil_r in O1, O2. congruence. }
  cbn [m] in MW. split.
  - intros a Fa. apply MW. intros Ia. apply WT in Ia. apply TF in Ia. congruence.
  - intros a Fa. destruct (in_dec N.eq_dec a T) as [Ia|Na].
    + rewrite (MT a Ia). apply N.eqb_eq. apply EM. apply in_or_app. now left.
    + rewrite MW by (intros X; apply Na; now apply WT).
      rewrite (PRE a Fa).
      destruct (in_dec N.eq_dec a (map fst l)) as [Il|Nl].
      * rewrite <- (SELF a) by (intros X; apply Na; now apply WT).
        apply N.eqb_eq. apply EM. apply in_or_app. now right.
      * unfold over. rewrite (lookup_None l a Nl). rewrite (lookup_None lr a); [reflexivity|]. now rewrite FST.
Qed.

Variable ch : chain.

Notation n := (ch_n ch).
Notation blk := (ch_block ch).
Notation cells := (ch_cells ch).
Notation cvars := (StlDigit.cvars ch).
Notation var_addrs := (StlDigit.var_addrs ch).
Notation priv_addrs := (StlDigit.priv_addrs ch).
Notation row_addrs := (StlDigit.row_addrs ch).
Notation cell_addrs := (StlDigit.cell_addrs ch).
Notation foreign := (StlDigit.foreign ch).
Notation sig := (StlDigit.sig ww ch).
Notation sig_cells := (StlDigit.sig_cells ch).
Notation sh := (StlDigit.sh ww).
Notation mark := (StlDigit.mark ch).
Notation cv0 := (StlDigit.cv0 img ch).
Notation rows_of := (StlDigit.rows_of ch).
Notation frows_of := (StlDigit.frows_of ww img ch).
Notation priv0 := (StlDigit.priv0 ww img ch).
Notation vpart := (StlDigit.vpart ch).
Notation digit := (StlDigit.digit ch).
Notation row_ok := (StlDigit.row_ok ch).
Notation pos := (StlDigit.pos ch).
Notation outs' := (StlDigit.outs' ch).

Lemma seg_eval_sound F A stops l l' ipf :
  seg_eval ww sg img ch F A stops l = Some (l', ipf) ->
  map fst l' = map fst l /\ In ipf stops /\
  forall m0 n0 h0, (forall a, F a = false -> mget0 m0 a = over img l a) ->
    exists k sf, run k (mkst A m0 [] [] n0 h0) = (OutOfFuel, sf) /\ ip sf = ipf /\ inp sf = [] /\ outp sf = [] /\
      (forall a, F a = true -> mget0 (m sf) a = mget0 m0 a) /\
      (forall a, F a = false -> mget0 (m sf) a = over img l' a).
Proof.
  unfold seg_eval. intros H.
  destruct (run_tol ww sg stops (ch_fuel ch) (mkst A (upd img l) [] [] 0 []) [] []) as [[[sf T] W]|] eqn:R; [|discriminate].
  destruct (outp sf) eqn:EO; [|discriminate].
  destruct (seg_post img F l sf T) as [l2|] eqn:SP; [|discriminate]. inversion H; subst l2 ipf. clear H.
  apply run_tol_run_fp in R. destruct R as [k [R IPB]].
  destruct (seg_post_sound F l k A OutOfFuel sf T W l' R SP) as [FST S].
  split; [exact FST|]. split; [exact IPB|]. intros m0 n0 h0 PRE.
  destruct (S m0 n0 h0 PRE) as [sf' [R' [Hip [Hinp [Hout [M1 M2]]]]]].
  exists k, sf'. repeat split; auto; congruence.
Qed.

(* ---- the words of the other digit positions ---- *)

Lemma In_combine_seq {A} (d : A) (l : list A) : forall s m k x,
  In (k, x) (combine (seq s m) l) <-> (s <= k < s + m)%nat /\ (k - s < length l)%nat /\ x = nth (k - s) l d.
Proof.
  induction l as [|y l IH]; intros s m k x.
  - rewrite combine_nil. cbn. split; [contradiction|]. intros [_ [H _]]. lia.
  - destruct m as [|m]; cbn [seq combine].
    + split; [contradiction|]. intros [H _]. lia.
    + cbn [In]. rewrite IH. split.
      * intros [E|[K [L E]]].
        -- inversion E; subst. rewrite Nat.sub_diag. cbn. repeat split; lia.
        -- replace (k - s)%nat with (S (k - S s)) by lia. cbn [nth length]. repeat split; try lia. exact E.
      * intros [K [L E]]. destruct (Nat.eq_dec k s) as [->|NE].
        -- left. rewrite Nat.sub_diag in E. cbn in E. now subst.
        -- right. replace (k - s)%nat with (S (k - S s)) in * by lia. cbn [nth length] in *. repeat split; try lia. exact E.
Qed.

Lemma pos_lt k : (k < n)%nat -> (pos k < n)%nat.
Proof. unfold StlDigit.pos. destruct (ch_rev ch); lia. Qed.

Lemma pos_inv k : (k < n)%nat -> pos (pos k) = k.
Proof. unfold StlDigit.pos. destruct (ch_rev ch); lia. Qed.

Lemma foreign_true i a :
  foreign i a = true <-> exists k, (k < n)%nat /\ k <> i /\ In a (row_addrs k).
Proof.
  unfold StlDigit.foreign, StlDigit.row_addrs. rewrite orb_true_iff. split.
  - intros [H|H].
    + apply existsb_exists in H. destruct H as [x [I H]]. cbv zeta in H.
      destruct (v_jw x <=? a) eqn:H1; [|discriminate].
      destruct (N.even (a - v_jw x)) eqn:H2; [|discriminate].
      destruct (N.div2 (a - v_jw x) <? N.of_nat n) eqn:H3; [|discriminate]. rename H into H4.
      apply N.leb_le in H1. apply N.ltb_lt in H3. apply negb_true_iff in H4.
      assert (E : a - v_jw x = 2 * N.div2 (a - v_jw x)).
      { pose proof (N.div2_odd (a - v_jw x)) as D. rewrite <- N.negb_even, H2 in D. cbn in D. lia. }
      set (p := N.to_nat (N.div2 (a - v_jw x))) in *.
      assert (P : (p < n)%nat) by (unfold p; lia).
      exists (pos p). split; [now apply pos_lt|]. split.
      * intros EQ. apply andb_false_iff in H4. destruct H4 as [H4|H4].
        -- apply Nat.ltb_ge in H4. pose proof (pos_lt p P). lia.
        -- apply N.eqb_neq in H4. apply H4. rewrite <- EQ, (pos_inv p P). unfold p. now rewrite N2Nat.id.
      * apply in_or_app. left. apply in_map_iff. exists x. split; [|assumption].
        rewrite (pos_inv p P). unfold p. rewrite N2Nat.id. lia.
    + apply existsb_exists in H. destruct H as [[k l] [I H]]. cbn [fst snd] in H.
      apply (In_combine_seq []) in I. destruct I as [K [_ E]]. rewrite Nat.sub_0_r in E.
      apply andb_prop in H. destruct H as [H1 H2]. apply negb_true_iff, Nat.eqb_neq in H1. apply memb_In in H2.
      exists k. split; [lia|]. split; [assumption|]. apply in_or_app. right. unfold StlDigit.priv_addrs. now rewrite <- E.
  - intros [k [K [NE I]]]. apply in_app_or in I. destruct I as [I|I].
    + left. apply in_map_iff in I. destruct I as [x [E I]]. apply existsb_exists. exists x. split; [assumption|].
      cbv zeta. replace (a - v_jw x) with (2 * N.of_nat (pos k)) by lia.
      rewrite N.even_mul, N.div2_double. cbn [N.even orb].
      destruct (N.leb_spec (v_jw x) a); [|lia].
      pose proof (pos_lt k K) as PK.
      destruct (N.ltb_spec (N.of_nat (pos k)) (N.of_nat n)); [|lia].
      apply negb_true_iff, andb_false_iff.
      destruct (Nat.ltb_spec i n) as [Li|Gi]; [right|left; reflexivity].
      apply N.eqb_neq. intros EQ. apply NE. apply Nat2N.inj in EQ.
      rewrite <- (pos_inv k K), <- (pos_inv i Li). now f_equal.
    + right. unfold StlDigit.priv_addrs in I.
      assert (L : (k < length (ch_priv ch))%nat).
      { destruct (Nat.lt_ge_cases k (length (ch_priv ch))) as [L|G]; [assumption|].
        rewrite nth_overflow in I by assumption. contradiction. }
      apply existsb_exists. exists (k, nth k (ch_priv ch) []). split.
      * apply (In_combine_seq []). rewrite Nat.sub_0_r. repeat split; auto; lia.
      * cbn [fst snd]. apply andb_true_intro. split; [now apply negb_true_iff, Nat.eqb_neq|now apply memb_In].
Qed.

Lemma foreign_all i a : foreign i a = true -> foreign n a = true.
Proof. rewrite !foreign_true. intros [k [K [_ I]]]. exists k. repeat split; auto; lia. Qed.

Lemma foreign_row i k a : (k < n)%nat -> k <> i -> In a (row_addrs k) -> foreign i a = true.
Proof. intros. apply foreign_true. exists k. auto. Qed.

Lemma not_foreign_all a k : foreign n a = false -> (k < n)%nat -> ~ In a (row_addrs k).
Proof. intros H K I. rewrite (foreign_row n k a K) in H; [discriminate|lia|assumption]. Qed.

(* ---- the invariant between two segments: the image, the digit rows (with their private temporaries), the cells ---- *)

Definition Inv (rows : list (list N)) (cv : list N) (m0 : mem) : Prop :=
  (forall a, foreign n a = false -> mget0 m0 a = over img (sig_cells cv) a) /\
  (forall k r, nth_error rows k = Some r -> map (mget0 m0) (row_addrs k) = map sh r).

Fixpoint rows_okb (i : nat) (rows : list (list N)) : bool :=
  match rows with [] => true | r :: rs => row_ok i r && rows_okb (S i) rs end.

(* the static conditions, unpacked *)
Record static_ok : Prop := mkstatic {
  so_vars : forall x, In x cvars -> v_bits x = ch_bits ch /\ N.to_nat (v_n x) = n;
  so_marks : length (ch_marks ch) = S n;
  so_nodup : NoDup (vars_words cvars);
  so_one : In 1 cell_addrs;
  so_cells : forall a, In a cell_addrs -> foreign n a = false;
  so_rows : forall i, (i < n)%nat -> NoDup (row_addrs i) /\ forall a, In a (row_addrs i) -> foreign i a = false;
  so_cv0 : cv_ok cells cv0 = true;
  so_priv : forall i a, (i < n)%nat -> In a (priv_addrs i) ->
     ~ In a (1 :: vars_words cvars) /\
     mget0 img a = sh (N.shiftr (mget0 img a) (ww + 1)) /\ N.shiftr (mget0 img a) (ww + 1) < N.shiftl 1 (ch_bits ch) /\
     forall d, d < N.shiftl 1 (ch_bits ch) -> eq_mod (scratch_mask blk a) (sh d) (mget0 img a) = true
}.

Lemma chain_static_ok : chain_static ww img ch = true -> static_ok.
Proof.
  unfold chain_static. intros H.
  apply andb_prop in H. destruct H as [H C8].
  apply andb_prop in H. destruct H as [H C7]. apply andb_prop in H. destruct H as [H C6].
  apply andb_prop in H. destruct H as [H C5]. apply andb_prop in H. destruct H as [H C4].
  apply andb_prop in H. destruct H as [H C3]. apply andb_prop in H. destruct H as [C1 C2].
  constructor.
  - intros x I. rewrite forallb_forall in C1. specialize (C1 x I). apply andb_prop in C1. destruct C1 as [A B].
    apply N.eqb_eq in A. apply Nat.eqb_eq in B. auto.
  - now apply Nat.eqb_eq.
  - now apply nodupb_NoDup.
  - now apply memb_In.
  - intros a I. rewrite forallb_forall in C5. apply C5 in I. now apply negb_true_iff in I.
  - intros i K. rewrite forallb_forall in C6. assert (I : In i (seq 0 n)) by (apply in_seq; lia).
    apply C6 in I. apply andb_prop in I. destruct I as [A B]. split; [now apply nodupb_NoDup|].
    intros a Ia. rewrite forallb_forall in B. apply B in Ia. now apply negb_true_iff in Ia.
  - assumption.
  - intros i a K Ia. rewrite forallb_forall in C8. assert (I : In i (seq 0 n)) by (apply in_seq; lia).
    apply C8 in I. rewrite forallb_forall in I. apply I in Ia.
    apply andb_prop in Ia. destruct Ia as [Ia D4]. apply andb_prop in Ia. destruct Ia as [Ia D3].
    apply andb_prop in Ia. destruct Ia as [D1 D2].
    apply negb_true_iff in D1. apply N.eqb_eq in D2. apply N.ltb_lt in D3.
    split; [now apply memb_false|]. split; [exact D2|]. split; [exact D3|].
    intros d Hd. rewrite forallb_forall in D4. apply D4. apply range_In. lia.
Qed.

Lemma cv_ok_length cs : forall cv, cv_ok cs cv = true -> length cv = length cs.
Proof.
  induction cs as [|c cs IH]; intros [|v cv] H; cbn in H; try discriminate; [reflexivity|].
  apply andb_prop in H. destruct H as [_ H]. cbn. f_equal. auto.
Qed.

Lemma cv_ok_dom cs : forall cv, cv_ok cs cv = true -> Forall2 (fun v l' => In v l') cv (map snd cs).
Proof.
  induction cs as [|c cs IH]; intros [|v cv] H; cbn in H; try discriminate; [constructor|].
  apply andb_prop in H. destruct H as [H1 H2]. cbn [map]. constructor; [now apply memb_In|auto].
Qed.

Lemma row_ok_length i r : row_ok i r = true -> length r = length (row_addrs i).
Proof. unfold StlDigit.row_ok. intros H. apply andb_prop in H. destruct H as [H _]. now apply Nat.eqb_eq. Qed.

Lemma row_ok_lt i r d : row_ok i r = true -> In d r -> d < N.shiftl 1 (ch_bits ch).
Proof.
  unfold StlDigit.row_ok. intros H I. apply andb_prop in H. destruct H as [_ H].
  rewrite forallb_forall in H. apply N.ltb_lt. now apply H.
Qed.

Lemma row_ok_dom i r : row_ok i r = true ->
  Forall2 (fun v l' => In v l') r (map (fun _ : N => range 0 (N.shiftl 1 (ch_bits ch))) (row_addrs i)).
Proof.
  unfold StlDigit.row_ok. intros H. apply andb_prop in H. destruct H as [L B]. apply Nat.eqb_eq in L.
  rewrite forallb_forall in B. revert r L B. generalize (row_addrs i) as xs.
  induction xs as [|x xs IH]; intros [|d r] L B; cbn in L; try discriminate; [constructor|].
  cbn [map]. constructor.
  - apply range_In. specialize (B d (or_introl eq_refl)). apply N.ltb_lt in B. lia.
  - apply IH; [congruence|]. intros y Iy. apply B. now right.
Qed.

Lemma digit_dom_In i r cv : row_ok i r = true -> cv_ok cells cv = true -> In (r, cv) (digit_dom ch i).
Proof.
  intros R C. unfold digit_dom. apply in_flat_map. exists r. split.
  - apply prod_lists_In. now apply row_ok_dom.
  - apply in_map. apply prod_lists_In. now apply cv_ok_dom.
Qed.

Lemma cell_dom_In cv : cv_ok cells cv = true -> In cv (cell_dom ch).
Proof. intros C. unfold cell_dom. apply prod_lists_In. now apply cv_ok_dom. Qed.

Lemma over_sig_row i r cv a : ~ In a (row_addrs i) -> over img (sig i r cv) a = over img (sig_cells cv) a.
Proof.
  intros N. unfold over, StlDigit.sig. rewrite lookup_app.
  rewrite lookup_None; [reflexivity|]. intros X. apply N. eapply map_fst_combine_incl. exact X.
Qed.

(* ---- one digit step ---- *)

Lemma digit_step (D : dspec) (SO : static_ok) i :
  (i < n)%nat ->
  forallb (digit_check ww sg img ch D i) (digit_dom ch i) = true ->
  forall done r todo cv m0 n0 h0, length done = i -> (length done + S (length todo) = n)%nat ->
  row_ok i r = true -> cv_ok cells cv = true ->
  Inv (done ++ r :: todo) cv m0 ->
  exists r' cv' exp dn k sf, D (vpart r) (cv_idx cells cv) = Some (vpart r', exp, dn) /\
    prefixb exp (cv_idx cells cv') = true /\ row_ok i r' = true /\ cv_ok cells cv' = true /\
    run k (mkst (mark i) m0 [] [] n0 h0) = (OutOfFuel, sf) /\
    match dn with None => ip sf = mark (S i) | Some e => In (e, ip sf) outs' end /\
    inp sf = [] /\ outp sf = [] /\ Inv (done ++ r' :: todo) cv' (m sf).
Proof.
  intros K ALL done r todo cv m0 n0 h0 LD LT RO CO [I1 I2].
  rewrite forallb_forall in ALL. specialize (ALL (r, cv) (digit_dom_In i r cv RO CO)).
  unfold digit_check in ALL.
  destruct (digit_result ww sg img ch i r cv) as [[[r' cv'] dn']|] eqn:DR; [|discriminate].
  unfold digit_result in DR.
  destruct (seg_eval ww sg img ch (foreign i) (mark i) (mark (S i) :: map snd (ch_outs ch)) (sig i r cv))
    as [[l' ipf]|] eqn:SE; [|discriminate].
  destruct (decode ww ch i l') as [[rr cc]|] eqn:DC; [|discriminate].
  assert (DN : match dn' with None => ipf = mark (S i) | Some e => In (e, ipf) (ch_outs ch) end /\ rr = r' /\ cc = cv').
  { destruct (N.eqb_spec ipf (mark (S i))) as [EI|NI].
    - inversion DR; subst. auto.
    - destruct (find (fun p => snd p =? ipf) (ch_outs ch)) as [[e x]|] eqn:FD; [|discriminate].
      inversion DR; subst. apply find_some in FD. destruct FD as [FI FE]. cbn [snd fst] in *.
      apply N.eqb_eq in FE. subst x. auto. }
  destruct DN as [DN [Err Ecc]]. subst rr cc. clear DR.
  unfold decode in DC.
  remember (map (fun p : N * N => N.shiftr (snd p) (ww + 1)) (firstn (length (row_addrs i)) l')) as rr eqn:Hrr.
  remember (map snd (skipn (length (row_addrs i)) l')) as cc eqn:Hcc. clear Hrr Hcc.
  destruct (pairs_eqb l' (sig i rr cc) && row_ok i rr && cv_ok cells cc) eqn:EC; [|discriminate].
  assert (Err : rr = r') by congruence. assert (Ecc : cc = cv') by congruence. subst rr cc. clear DC.
  apply andb_prop in EC. destruct EC as [EC CO']. apply andb_prop in EC. destruct EC as [EL RO'].
  apply pairs_eqb_eq in EL. subst l'.
  destruct (D (vpart r) (cv_idx cells cv)) as [[[r2 exp] dn]|] eqn:ED; [|discriminate].
  apply andb_prop in ALL. destruct ALL as [ALL EDN]. apply andb_prop in ALL. destruct ALL as [ER EP].
  apply nlist_eqb_eq in ER. subst r2.
  destruct (seg_eval_sound _ _ _ _ _ _ SE) as [_ [IPF TR]].
  destruct (so_rows SO i K) as [ND NF].
  pose proof (row_ok_length i r RO) as LR. pose proof (row_ok_length i r' RO') as LR'.
  assert (PRE : forall a, foreign i a = false -> mget0 m0 a = over img (sig i r cv) a).
  { intros a Fa. destruct (in_dec N.eq_dec a (row_addrs i)) as [Ia|Na].
    - assert (E : map (mget0 m0) (row_addrs i) = map sh r).
      { apply I2. rewrite <- LD. apply nth_error_app_at. }
      unfold over, StlDigit.sig. rewrite lookup_app. rewrite <- E.
      now rewrite (lookup_combine_fun (mget0 m0) (row_addrs i) a Ia).
    - rewrite over_sig_row by assumption. apply I1.
      destruct (foreign n a) eqn:FN; [|reflexivity].
      apply foreign_true in FN. destruct FN as [k [Kk [_ Ik]]].
      destruct (Nat.eq_dec k i) as [->|NE]; [contradiction|].
      rewrite (foreign_row i k a Kk NE Ik) in Fa. discriminate. }
  destruct (TR m0 n0 h0 PRE) as [k [sf [R [IPB [HI [HO [M1 M2]]]]]]].
  exists r', cv', exp, dn, k, sf.
  split; [reflexivity|]. split; [exact EP|]. split; [exact RO'|]. split; [exact CO'|]. split; [exact R|]. split.
  { (* where the step ends *)
    rewrite IPB. unfold same_end in EDN. apply orb_prop in EDN. destruct EDN as [E|E].
    - destruct dn' as [x|], dn as [y|]; cbn in E; try discriminate.
      + apply N.eqb_eq in E. subst y. right. exact DN.
      + exact DN.
    - apply andb_prop in E. destruct E as [E E4]. apply andb_prop in E. destruct E as [E E3].
      apply andb_prop in E. destruct E as [E1 E2]. apply Nat.eqb_eq in E1.
      destruct dn' as [x|]; [discriminate|]. destruct dn as [y|]; [|discriminate]. cbn in E3. apply N.eqb_eq in E3. subst y.
      left. rewrite DN, E1. reflexivity. }
  split; [exact HI|]. split; [exact HO|]. split.
  - (* the image and the cells *)
    intros a Fa. assert (Fi : foreign i a = false).
    { destruct (foreign i a) eqn:E; [|reflexivity]. apply foreign_all in E. congruence. }
    rewrite (M2 a Fi). apply over_sig_row. now apply not_foreign_all.
  - (* the digit rows *)
    intros k0 r0 NE. destruct (Nat.eq_dec k0 i) as [->|NK].
    + rewrite <- LD, nth_error_app_at in NE. inversion NE; subst r0.
      apply (over_combine_nodup img (mget0 (m sf)) (row_addrs i) (map sh r') (sig_cells cv'));
        [exact ND|now rewrite map_length|intros a Ia; apply M2; now apply NF].
    + assert (Kk : (k0 < n)%nat).
      { apply nth_error_lt in NE. rewrite app_length in NE. cbn [length] in NE. lia. }
      rewrite (nth_error_app_mid done r' r todo k0) in NE by congruence.
      rewrite <- (I2 k0 r0 NE). apply map_ext_in. intros a Ia. apply M1.
      now apply (foreign_row i k0 a Kk NK).
Qed.

Lemma st_eta (s : st) : s = mkst (ip s) (m s) (inp s) (outp s) (ops s) (hist s).
Proof. destruct s; reflexivity. Qed.

(* ---- all digit steps, one after the other (run_split), until one leaves or all are done ---- *)

Lemma chain_digits (D : dspec) (SO : static_ok) :
  (forall i, (i < n)%nat -> forallb (digit_check ww sg img ch D i) (digit_dom ch i) = true) ->
  forall todo done cv m0 n0 h0, (length done + length todo = n)%nat ->
  rows_okb (length done) todo = true -> cv_ok cells cv = true ->
  Inv (done ++ todo) cv m0 ->
  exists todo' cvE e k sf, chain_rel cells (ch_fall ch) D (map vpart todo) cv (map vpart todo') cvE e /\
    cv_ok cells cvE = true /\
    rows_okb (length done) todo' = true /\ length todo' = length todo /\
    run k (mkst (mark (length done)) m0 [] [] n0 h0) = (OutOfFuel, sf) /\ In (e, ip sf) outs' /\
    inp sf = [] /\ outp sf = [] /\ Inv (done ++ todo') cvE (m sf).
Proof.
  intros ALL. induction todo as [|r todo IH]; intros done cv m0 n0 h0 L RO CO I.
  - exists [], cv, (ch_fall ch), 0%nat, (mkst (mark (length done)) m0 [] [] n0 h0).
    cbn [MachineSpec.run ip inp outp m chain_rel map].
    cbn [length] in L. rewrite Nat.add_0_r in L. rewrite L. rewrite app_nil_r in *.
    repeat split; auto; try apply I. left. reflexivity.
  - cbn [rows_okb] in RO. apply andb_prop in RO. destruct RO as [R1 R2]. cbn [length] in L.
    assert (K : (length done < n)%nat) by lia.
    destruct (digit_step D SO (length done) K (ALL _ K) done r todo cv m0 n0 h0 eq_refl L R1 CO I)
      as [r' [cv' [exp [dn [k1 [s1 [E1 [E2 [RO1 [CO1 [RUN1 [IP1 [IN1 [OU1 I1]]]]]]]]]]]]]].
    destruct dn as [x|].
    + (* the macro leaves through exit x: the remaining digit steps are skipped *)
      exists (r' :: todo), cv', x, k1, s1. split.
      { cbn [map chain_rel]. exists cv', exp, (Some x). auto. }
      split; [exact CO1|]. split; [cbn [rows_okb]; now rewrite RO1, R2|]. split; [reflexivity|].
      repeat split; auto; apply I1.
    + assert (L' : (length (done ++ [r']) + length todo = n)%nat) by (rewrite app_length; cbn [length]; lia).
      assert (I1' : Inv ((done ++ [r']) ++ todo) cv' (m s1)) by (rewrite <- app_assoc; exact I1).
      assert (R2' : rows_okb (length (done ++ [r'])) todo = true).
      { rewrite app_length. cbn [length]. now rewrite Nat.add_1_r. }
      destruct (IH (done ++ [r']) cv' (m s1) (ops s1) (hist s1) L' R2' CO1 I1')
        as [todo' [cvE [e [k2 [s2 [REL [COE [ROE [LE [RUN2 [IP2 [IN2 [OU2 I2]]]]]]]]]]]]].
      exists (r' :: todo'), cvE, e, (k1 + k2)%nat, s2. split.
      { cbn [map chain_rel]. exists cv', exp, None. auto. }
      split; [exact COE|]. split.
      { cbn [rows_okb]. rewrite RO1. rewrite app_length in ROE. cbn [length] in ROE. now rewrite Nat.add_1_r in ROE. }
      split; [cbn [length]; congruence|]. split.
      { rewrite (run_split_cont ww sg k1 k2 _ s1 RUN1). rewrite (st_eta s1), IP1, IN1, OU1.
        rewrite app_length in RUN2. cbn [length] in RUN2. rewrite Nat.add_1_r in RUN2. exact RUN2. }
      rewrite <- app_assoc in I2. cbn [app] in I2. repeat split; auto; apply I2.
Qed.

(* ---- the block entry state ---- *)

Lemma start_mem_other (SO : static_ok) vs a :
  ~ In a (1 :: vars_words cvars) -> mget0 (start_mem ww img blk vs) a = mget0 img a.
Proof.
  intros NI. unfold start_mem. rewrite mget0_mset_other by (intros E; apply NI; now left).
  unfold mget0. rewrite (patch_vars_frame ww (b_vars blk) img vs a); [reflexivity|].
  intros X. apply NI. now right.
Qed.

Lemma Inv_start (SO : static_ok) vs : length vs = length cvars -> Inv (frows_of vs) cv0 (start_mem ww img blk vs).
Proof.
  intros L.
  assert (ROW1 : forall k a, (k < n)%nat -> In a (row_addrs k) -> a <> 1).
  { intros k a K I ->. pose proof (so_cells SO 1 (so_one SO)) as F.
    rewrite (foreign_row n k 1 K) in F; [discriminate|lia|assumption]. }
  split.
  - intros a Fa. unfold start_mem. rewrite mget0_mset.
    assert (NV : ~ In a (vars_words cvars)).
    { intros I. destruct (vars_words_rows n cvars a) as [j [J Ij]]; [intros x Ix; apply (so_vars SO x Ix)|exact I|].
      rewrite (foreign_row n (pos j) a (pos_lt j J)) in Fa; [discriminate|pose proof (pos_lt j J); lia|].
      unfold StlDigit.row_addrs, StlDigit.var_addrs. apply in_or_app. left. now rewrite (pos_inv j J). }
    assert (E : mget0 (patch_vars ww img (b_vars blk) vs) a = mget0 img a).
    { unfold mget0. now rewrite (patch_vars_frame ww (b_vars blk) img vs a NV). }
    unfold over, StlDigit.sig_cells, StlDigit.cv0.
    destruct (in_dec N.eq_dec a cell_addrs) as [Ia|Na].
    + rewrite (lookup_combine_fun (fun a => if a =? 1 then b_entry blk else mget0 img a) cell_addrs a Ia).
      destruct (N.eqb_spec 1 a) as [<-|NE]; [reflexivity|].
      destruct (N.eqb_spec a 1) as [->|_]; [congruence|exact E].
    + rewrite lookup_None by (intros X; apply Na; eapply map_fst_combine_incl; exact X).
      destruct (N.eqb_spec 1 a) as [<-|NE]; [exfalso; apply Na; exact (so_one SO)|exact E].
  - intros k r NE. unfold StlDigit.frows_of in NE. apply nth_error_map_seq in NE. destruct NE as [K ->].
    unfold StlDigit.row_addrs. rewrite !map_app. f_equal.
    + unfold start_mem.
      rewrite (map_ext_in (mget0 (mset (patch_vars ww img (b_vars blk) vs) 1 (b_entry blk)))
                          (mget0 (patch_vars ww img (b_vars blk) vs))).
      2:{ intros a Ia. apply mget0_mset_other. intros E. apply (ROW1 k a K); [|congruence].
          unfold StlDigit.row_addrs. apply in_or_app. now left. }
      unfold StlDigit.var_addrs, StlDigit.cvars. rewrite (map_map (digit (pos k)) sh).
      apply (patch_vars_get ww (ch_bits ch) n (pos k) (pos_lt k K) (b_vars blk) vs img L (so_nodup SO)).
      intros x Ix. apply (so_vars SO x Ix).
    + unfold StlDigit.priv0. rewrite map_map. apply map_ext_in. intros a Ia.
      destruct (so_priv SO k a K Ia) as [NI [E _]].
      rewrite (start_mem_other SO vs a NI). exact E.
Qed.

(* ---- prologue: op 0 .. the first digit step ---- *)

Lemma chain_prologue (SO : static_ok) pexp :
  pro_check ww sg img ch pexp = true ->
  forall vs n0 h0, length vs = length cvars ->
  exists cvP k sf, prefixb pexp (cv_idx cells cvP) = true /\ cv_ok cells cvP = true /\
    run k (mkst 0 (start_mem ww img blk vs) [] [] n0 h0) = (OutOfFuel, sf) /\ ip sf = mark 0 /\
    inp sf = [] /\ outp sf = [] /\ Inv (frows_of vs) cvP (m sf).
Proof.
  unfold pro_check, pro_result. intros H vs n0 h0 L.
  destruct (seg_eval ww sg img ch (foreign n) 0 [mark 0] (sig_cells cv0)) as [[l' ipf]|] eqn:SE; [|discriminate].
  destruct (pairs_eqb l' (sig_cells (map snd l')) && cv_ok cells (map snd l')) eqn:EC; [|discriminate].
  apply andb_prop in EC. destruct EC as [EL CO]. apply pairs_eqb_eq in EL.
  destruct (seg_eval_sound _ _ _ _ _ _ SE) as [_ [IPF S]].
  destruct (Inv_start SO vs L) as [I1 I2].
  destruct (S (start_mem ww img blk vs) n0 h0 I1) as [k [sf [R [IPB [HI [HO [M1 M2]]]]]]].
  exists (map snd l'), k, sf. repeat split; auto.
  - destruct IPF as [IPF|[]]; congruence.
  - intros a Fa. rewrite (M2 a Fa). now rewrite <- EL.
  - intros k0 r NE. rewrite <- (I2 k0 r NE). apply map_ext_in. intros a Ia. apply M1.
    unfold StlDigit.frows_of in NE. apply nth_error_map_seq in NE. destruct NE as [K _].
    apply (foreign_row n k0 a K); [lia|exact Ia].
Qed.

(* ---- epilogue: after the last digit step .. the block's `stl.loop` ---- *)

Lemma chain_epilogue :
  epi_all ww sg img ch = true ->
  forall e A rows cv m0 n0 h0, In (e, A) outs' -> length rows = n -> cv_ok cells cv = true -> Inv rows cv m0 ->
  exists xa marker cvF k sf, nth_error (b_exits blk) (N.to_nat e) = Some (xa, marker) /\
    run k (mkst A m0 [] [] n0 h0) = (Looping, sf) /\ ip sf = xa /\ out_bytes (outp sf) = (marker, []) /\
    Inv rows cvF (m sf) /\
    (forall a, In a cell_addrs ->
       eq_mod (scratch_mask blk a) (over img (sig_cells cvF) a) (over img (sig_cells cv0) a) = true).
Proof.
  intros ALL e A rows cv m0 n0 h0 IO LR CO [I1 I2].
  unfold epi_all in ALL. rewrite forallb_forall in ALL. specialize (ALL (e, A) IO).
  rewrite forallb_forall in ALL. specialize (ALL cv (cell_dom_In cv CO)).
  unfold epi_check, epi_result in ALL. cbn [fst snd] in ALL.
  destruct (nth_error (b_exits blk) (N.to_nat e)) as [[xa marker]|]; [|discriminate].
  destruct (run_fp ww sg (ch_fuel ch) (mkst A (upd img (sig_cells cv)) [] [] 0 []) [] []) as [[[c sf] T] W] eqn:R.
  destruct c; try discriminate.
  destruct (seg_post img (foreign n) (sig_cells cv) sf T) as [l'|] eqn:SP; [|discriminate].
  match type of ALL with (match (if ?c then _ else _) with _ => _ end) = _ => destruct c eqn:EC; [|discriminate] end.
  apply andb_prop in EC. destruct EC as [EC ES]. apply andb_prop in EC. destruct EC as [EC EL].
  apply andb_prop in EC. destruct EC as [EI EO]. apply N.eqb_eq in EI. apply out_is_eq in EO. apply pairs_eqb_eq in EL.
  destruct (seg_post_sound _ _ _ _ _ _ _ _ _ R SP) as [_ S].
  destruct (S m0 n0 h0 I1) as [sf' [R' [Hip [Hinp [Hout [M1 M2]]]]]].
  exists xa, marker, (map snd l'), (ch_fuel ch), sf'. split; [reflexivity|]. split; [exact R'|].
  split; [congruence|]. split; [now rewrite Hout|]. split; [split|].
  - intros a Fa. rewrite (M2 a Fa). now rewrite <- EL.
  - intros k0 r NE. rewrite <- (I2 k0 r NE). apply map_ext_in. intros a Ia. apply M1.
    apply nth_error_lt in NE. rewrite LR in NE. apply (foreign_row n k0 a NE); [lia|exact Ia].
  - intros a Ia. rewrite forallb_forall in ES. rewrite <- EL. now apply ES.
Qed.

(* ---- the whole block, for ANY operand values ---- *)

Lemma rows_okb_map_seq (f : nat -> list N) m : forall i0,
  (forall k, (i0 <= k < i0 + m)%nat -> row_ok k (f k) = true) -> rows_okb i0 (map f (seq i0 m)) = true.
Proof.
  induction m as [|m IH]; intros i0 H; cbn [seq map rows_okb]; [reflexivity|].
  rewrite H by lia. cbn [andb]. apply IH. intros k K. apply H. lia.
Qed.

Lemma vpart_frows vs : length vs = length cvars -> map vpart (frows_of vs) = rows_of vs.
Proof.
  intros L. unfold StlDigit.frows_of, StlDigit.rows_of. rewrite map_map. apply map_ext. intros k.
  unfold StlDigit.vpart. rewrite <- L. rewrite <- (map_length (digit (pos k)) vs). apply firstn_app_exact.
Qed.

Theorem chain_run (D : dspec) pexp :
  chain_static ww img ch = true ->
  pro_check ww sg img ch pexp = true ->
  (forall i, (i < n)%nat -> forallb (digit_check ww sg img ch D i) (digit_dom ch i) = true) ->
  epi_all ww sg img ch = true ->
  forall vs, length vs = length cvars ->
  exists cvP rows' cvE e xa marker cvF k s,
    prefixb pexp (cv_idx cells cvP) = true /\
    chain_rel cells (ch_fall ch) D (rows_of vs) cvP (map vpart rows') cvE e /\
    rows_okb 0 rows' = true /\ length rows' = n /\
    nth_error (b_exits blk) (N.to_nat e) = Some (xa, marker) /\
    run k (init (start_mem ww img blk vs) []) = (Looping, s) /\ ip s = xa /\ out_bytes (outp s) = (marker, []) /\
    Inv rows' cvF (m s) /\
    (forall a, In a cell_addrs ->
       eq_mod (scratch_mask blk a) (over img (sig_cells cvF) a) (over img (sig_cells cv0) a) = true).
Proof.
  intros ST PRO ALL EPI vs L.
  pose proof (chain_static_ok ST) as SO.
  destruct (chain_prologue SO pexp PRO vs 0 [] L) as [cvP [k0 [s0 [PX [COP [R0 [IP0 [IN0 [OU0 I0]]]]]]]]].
  assert (RO : rows_okb 0 (frows_of vs) = true).
  { unfold StlDigit.frows_of. apply rows_okb_map_seq. intros k K.
    unfold StlDigit.row_ok. apply andb_true_intro. split.
    - apply Nat.eqb_eq. unfold StlDigit.row_addrs, StlDigit.priv0, StlDigit.var_addrs. rewrite !app_length, !map_length. lia.
    - apply forallb_forall. intros d Id. apply N.ltb_lt. apply in_app_or in Id. destruct Id as [Id|Id].
      + apply in_map_iff in Id. destruct Id as [v [<- _]].
        unfold StlDigit.digit. rewrite N.land_ones, N.shiftl_1_l. apply N.mod_upper_bound. apply N.pow_nonzero. lia.
      + unfold StlDigit.priv0 in Id. apply in_map_iff in Id. destruct Id as [a [<- Ia]].
        destruct (so_priv SO k a) as [_ [_ [B _]]]; [lia|exact Ia|exact B]. }
  assert (LN : (length (@nil (list N)) + length (frows_of vs) = n)%nat).
  { unfold StlDigit.frows_of. now rewrite map_length, seq_length. }
  destruct (chain_digits D SO ALL (frows_of vs) [] cvP (m s0) (ops s0) (hist s0) LN RO COP I0)
    as [rows' [cvE [e [k1 [s1 [REL [COE [ROE [LE [R1 [IP1 [IN1 [OU1 I1]]]]]]]]]]]]].
  cbn [app length] in R1, I1, ROE.
  assert (LR' : length rows' = n) by (cbn [length] in LN; lia).
  destruct (chain_epilogue EPI e (ip s1) rows' cvE (m s1) (ops s1) (hist s1) IP1 LR' COE I1)
    as [xa [marker [cvF [k2 [s2 [EX [R2 [IP2 [OUT2 [I2 SCR]]]]]]]]]].
  rewrite (vpart_frows vs L) in REL.
  exists cvP, rows', cvE, e, xa, marker, cvF, (k0 + (k1 + k2))%nat, s2.
  repeat split; auto; try apply I2.
  unfold init. rewrite (run_split_cont ww sg k0 (k1 + k2) _ s0 R0).
  rewrite (st_eta s0), IP0, IN0, OU0. rewrite (run_split_cont ww sg k1 k2 _ s1 R1).
  rewrite (st_eta s1), IN1, OU1. exact R2.
Qed.

Lemma rows_okb_nth rows : forall i0 j r, rows_okb i0 rows = true -> nth_error rows j = Some r -> row_ok (i0 + j) r = true.
Proof.
  induction rows as [|r0 rows IH]; intros i0 [|j] r H NE; cbn in NE; try discriminate;
    cbn [rows_okb] in H; apply andb_prop in H; destruct H as [H1 H2].
  - inversion NE; subst. now rewrite Nat.add_0_r.
  - rewrite <- Nat.add_succ_comm. now apply IH.
Qed.

(* ---- from the digit-wise description of the final memory to the frame equation ---- *)

Theorem chain_block_correct (D : dspec) pexp (S : bspec) :
  chain_static ww img ch = true ->
  pro_check ww sg img ch pexp = true ->
  (forall i, (i < n)%nat -> forallb (digit_check ww sg img ch D i) (digit_dom ch i) = true) ->
  epi_all ww sg img ch = true ->
  forall vs vs' ex, length vs = length cvars -> length vs' = length cvars -> S vs = Some (vs', ex) ->
  (forall cvP rows' cvE e, prefixb pexp (cv_idx cells cvP) = true ->
     chain_rel cells (ch_fall ch) D (rows_of vs) cvP rows' cvE e -> rows' = rows_of vs' /\ e = ex) ->
  block_correct ww sg img blk S vs.
Proof.
  intros ST PRO DIG EPI vs vs' ex L L' SV AR.
  destruct (chain_run D pexp ST PRO DIG EPI vs L)
    as [cvP [rows' [cvE [e [xa [marker [cvF [k [s [PX [REL [ROK [LRW [EX [R [IPX [OUT [[I1 I2] SCR]]]]]]]]]]]]]]]]]].
  pose proof (chain_static_ok ST) as SO.
  destruct (AR cvP _ cvE e PX REL) as [VR ->].
  destruct (Inv_start SO vs' L') as [J1 J2].
  unfold block_correct. rewrite SV.
  exists xa, marker, k, s. split; [exact EX|]. split; [exact R|]. split; [exact IPX|]. split; [exact OUT|].
  intros a. destruct (foreign n a) eqn:Fa.
  - apply foreign_true in Fa. destruct Fa as [j [J [_ Ij]]].
    destruct (nth_error rows' j) as [rj|] eqn:NR.
    2:{ apply nth_error_None in NR. lia. }
    pose proof (I2 j rj NR) as E1.
    pose proof (J2 j _ (nth_error_map_seq_lt (fun k => map (digit (pos k)) vs' ++ priv0 k) n j J)) as E2.
    unfold StlDigit.row_addrs in E1, E2, Ij.
    apply map_app_split in E1. destruct E1 as [E1v E1p].
    apply map_app_split in E2. destruct E2 as [E2v E2p].
    assert (LV : length (var_addrs j) = length cvars) by (unfold StlDigit.var_addrs; now rewrite map_length).
    apply in_app_or in Ij. destruct Ij as [Ij|Ij].
    + (* an operand digit: the same in both memories *)
      assert (VJ : firstn (length (var_addrs j)) rj = map (digit (pos j)) vs').
      { rewrite LV. change (firstn (length cvars) rj) with (vpart rj).
        assert (NV : nth_error (map vpart rows') j = Some (vpart rj)) by (now rewrite nth_error_map, NR).
        rewrite VR in NV. unfold StlDigit.rows_of in NV.
        rewrite (nth_error_map_seq_lt (fun k => map (digit (pos k)) vs') n j J) in NV. congruence. }
      rewrite VJ in E1v. rewrite LV, <- L', <- (map_length (digit (pos j)) vs'), firstn_app_exact in E2v.
      rewrite <- E2v in E1v. rewrite (map_eq_In _ _ _ a E1v Ij). apply eq_mod_refl.
    + (* a private temporary: digit-encoded, entirely scratch *)
      destruct (map_eq_In_ex _ _ _ _ a E1p Ij) as [d [Id ->]].
      destruct (so_priv SO j a J Ij) as [NI [_ [_ SC]]].
      rewrite (start_mem_other SO vs' a NI). apply SC.
      apply (row_ok_lt j rj d); [exact (rows_okb_nth rows' 0 j rj ROK NR)|].
      eapply (In_skipn _ _ _ Id).
  - rewrite (I1 a Fa), (J1 a Fa).
    destruct (in_dec N.eq_dec a cell_addrs) as [Ia|Na]; [now apply SCR|].
    unfold over. rewrite !lookup_None; [apply eq_mod_refl| |];
      intros X; apply Na; eapply map_fst_combine_incl; exact X.
Qed.

End W.

(* ------------------------------------------------------------------------------------------- *)
(* the arithmetic of digit lists (base B, least significant digit first)                        *)

Lemma ripple_length B ds : forall ss c, length ss = length ds -> length (ripple B ds ss c) = length ds.
Proof.
  induction ds as [|d ds IH]; intros [|s ss] c L; cbn in *; try discriminate; [reflexivity|].
  f_equal. apply IH. congruence.
Qed.

Lemma ripple_lt B ds : B <> 0 -> forall ss c x, In x (ripple B ds ss c) -> x < B.
Proof.
  intros NZ. induction ds as [|d ds IH]; intros [|s ss] c x I; cbn in I; try contradiction.
  destruct I as [<-|I]; [now apply N.mod_upper_bound|eauto].
Qed.

(* THE CARRY CHAIN IS ADDITION *)
Theorem ripple_add_correct B ds : B <> 0 -> forall ss c, length ss = length ds ->
  value B (ripple B ds ss c) = (value B ds + value B ss + c) mod B ^ N.of_nat (length ds).
Proof.
  intros NZ. induction ds as [|d ds IH]; intros [|s ss] c L; cbn [length] in L; try discriminate.
  - cbn [ripple value length]. change (N.of_nat 0) with 0. rewrite N.pow_0_r, N.mod_1_r. reflexivity.
  - cbn [ripple value length]. rewrite IH by congruence.
    rewrite Nat2N.inj_succ, N.pow_succ_r'.
    replace (d + B * value B ds + (s + B * value B ss) + c)
      with ((d + s + c) + (value B ds + value B ss) * B) by lia.
    rewrite N.mod_mul_r by (first [assumption | apply N.pow_nonzero; assumption]).
    rewrite N.mod_add, N.div_add by assumption.
    replace (value B ds + value B ss + (d + s + c) / B) with ((d + s + c) / B + (value B ds + value B ss)) by lia.
    reflexivity.
Qed.

(* digit k of a value, as in Model/StlDigit.v *)
Definition dg (bits : N) (k : nat) (v : N) : N := N.land (N.shiftr v (bits * N.of_nat k)) (N.ones bits).

Lemma dg_0 bits v : dg bits 0 v = v mod 2 ^ bits.
Proof. unfold dg. change (N.of_nat 0) with 0. now rewrite N.mul_0_r, N.shiftr_0_r, N.land_ones. Qed.

Lemma dg_S bits k v : dg bits (S k) v = dg bits k (v / 2 ^ bits).
Proof.
  unfold dg. f_equal. rewrite <- N.shiftr_div_pow2, N.shiftr_shiftr. f_equal. lia.
Qed.

Lemma value_digits bits k : forall v,
  value (2 ^ bits) (map (fun j => dg bits j v) (seq 0 k)) = v mod (2 ^ bits) ^ N.of_nat k.
Proof.
  assert (NZ : 2 ^ bits <> 0) by (apply N.pow_nonzero; lia).
  induction k as [|k IH]; intros v.
  - cbn [seq map value]. change (N.of_nat 0) with 0. now rewrite N.pow_0_r, N.mod_1_r.
  - cbn [seq map value]. rewrite <- seq_shift, map_map.
    rewrite (map_ext (fun j => dg bits (S j) v) (fun j => dg bits j (v / 2 ^ bits))) by (intros; apply dg_S).
    rewrite IH, dg_0. rewrite Nat2N.inj_succ, N.pow_succ_r'.
    rewrite N.mod_mul_r by (first [assumption | apply N.pow_nonzero; assumption]). reflexivity.
Qed.

Lemma digits_value bits l : (forall d, In d l -> d < 2 ^ bits) ->
  map (fun j => dg bits j (value (2 ^ bits) l)) (seq 0 (length l)) = l.
Proof.
  assert (NZ : 2 ^ bits <> 0) by (apply N.pow_nonzero; lia).
  induction l as [|d l IH]; intros H; [reflexivity|].
  cbn [length seq map value]. rewrite <- seq_shift, map_map.
  assert (Hd : d < 2 ^ bits) by (apply H; now left).
  f_equal.
  - rewrite dg_0. rewrite (N.mul_comm (2 ^ bits)), N.mod_add by assumption. now apply N.mod_small.
  - rewrite (map_ext (fun j => dg bits (S j) (d + 2 ^ bits * value (2 ^ bits) l))
                     (fun j => dg bits j (value (2 ^ bits) l))).
    + apply IH. intros x Ix. apply H. now right.
    + intros j. rewrite dg_S. f_equal. rewrite (N.mul_comm (2 ^ bits)), N.div_add by assumption.
      rewrite N.div_small by assumption. reflexivity.
Qed.

(* rows of a two-operand chain *)
Fixpoint zip2 (ds ss : list N) : list (list N) :=
  match ds, ss with d :: ds', s :: ss' => [d; s] :: zip2 ds' ss' | _, _ => [] end.

Lemma zip2_map {A} (f g : A -> N) l : zip2 (map f l) (map g l) = map (fun k => [f k; g k]) l.
Proof. induction l as [|x l IH]; cbn; [reflexivity|now rewrite IH]. Qed.

Lemma prefixb_one c l : prefixb [c] l = true -> exists rest, l = c :: rest.
Proof.
  destruct l as [|x l]; cbn; [discriminate|]. intros H. apply andb_prop in H. destruct H as [H _].
  apply N.eqb_eq in H. subst. eauto.
Qed.

(* a chain of dspec_add steps is the ripple-carry addition of the two digit columns *)
Lemma add_rel cells {fall e} B ds : forall ss c cv rows' cvE rest,
  length ss = length ds -> cv_idx cells cv = c :: rest ->
  chain_rel cells fall (dspec_add B) (zip2 ds ss) cv rows' cvE e ->
  rows' = zip2 (ripple B ds ss c) ss.
Proof.
  induction ds as [|d ds IH]; intros [|s ss] c cv rows' cvE rest L CI REL; cbn [length] in L; try discriminate.
  - cbn [zip2 chain_rel] in REL. destruct rows'; [reflexivity|contradiction].
  - cbn [zip2 chain_rel] in REL. destruct rows' as [|r' rows']; [contradiction|].
    destruct REL as [cv1 [exp [dn [E [P REL]]]]]. rewrite CI in E. cbn [dspec_add] in E. inversion E; subst r' exp dn. cbn iota in REL.
    apply prefixb_one in P. destruct P as [rest1 CI1].
    cbn [ripple zip2]. f_equal. eapply IH; [congruence|exact CI1|exact REL].
Qed.

(* the operand rows of a chain that works upwards from digit 0 *)
Lemma rows_of_fwd2 ch x y : ch_rev ch = false ->
  rows_of ch [x; y] = zip2 (map (fun j => dg (ch_bits ch) j x) (seq 0 (ch_n ch))) (map (fun j => dg (ch_bits ch) j y) (seq 0 (ch_n ch))).
Proof. intros HR. unfold rows_of, pos. rewrite HR, zip2_map. reflexivity. Qed.

Lemma rows_of_fwd1 ch x : ch_rev ch = false ->
  rows_of ch [x] = map (fun d => [d]) (map (fun j => dg (ch_bits ch) j x) (seq 0 (ch_n ch))).
Proof. intros HR. unfold rows_of, pos. rewrite HR, map_map. reflexivity. Qed.

(* ------------------------------------------------------------------------------------------- *)
(* hex.add n / bit.add n: dst[:n] += src[:n], for ALL operand values                            *)

Theorem compose_add ww sg img ch :
  ch_rev ch = false -> ch_fall ch = 0 ->
  chain_static ww img ch = true ->
  length (cvars ch) = 2%nat ->
  pro_check ww sg img ch [0] = true ->
  (forall i, (i < ch_n ch)%nat -> forallb (digit_check ww sg img ch (dspec_add (2 ^ ch_bits ch)) i) (digit_dom ch i) = true) ->
  epi_all ww sg img ch = true ->
  forall a b, a < 2 ^ (ch_bits ch * N.of_nat (ch_n ch)) -> b < 2 ^ (ch_bits ch * N.of_nat (ch_n ch)) ->
  block_correct ww sg img (ch_block ch) (v_add (ch_bits ch * N.of_nat (ch_n ch))) [a; b].
Proof.
  intros HR HF ST L2 PRO DIG EPI a b Ha Hb.
  pose proof (rows_of_fwd2 ch) as RW.
  set (bits := ch_bits ch) in *. set (k := ch_n ch) in *.
  assert (NZ : 2 ^ bits <> 0) by (apply N.pow_nonzero; lia).
  apply (chain_block_correct ww sg img ch (dspec_add (2 ^ bits)) [0] _ ST PRO DIG EPI
           [a; b] [(a + b) mod 2 ^ (bits * N.of_nat k); b] 0); auto.
  intros cvP rows' cvE e PX REL. split.
  2:{ rewrite <- HF. eapply chain_rel_exit; [|exact REL]. intros r ci r' exp x E.
      unfold dspec_add in E. destruct r as [|? [|? [|]]]; try discriminate. destruct ci; discriminate. }
  apply prefixb_one in PX. destruct PX as [rest CI].
  rewrite RW in REL by assumption. rewrite RW by assumption.
  set (da := map (fun j => dg bits j a) (seq 0 k)) in *. set (db := map (fun j => dg bits j b) (seq 0 k)) in *.
  assert (La : length da = k) by (unfold da; now rewrite map_length, seq_length).
  assert (Lb : length db = k) by (unfold db; now rewrite map_length, seq_length).
  rewrite (add_rel _ _ da db 0 cvP rows' cvE rest (eq_trans Lb (eq_sym La)) CI REL).
  f_equal.
  etransitivity; [symmetry; apply (digits_value bits); intros d Id; eapply ripple_lt; eauto|].
  rewrite ripple_length by congruence. rewrite La.
  rewrite ripple_add_correct by (first [assumption|congruence]).
  unfold da at 1, db at 1. rewrite !value_digits, La, <- N.pow_mul_r.
  rewrite (N.mod_small a), (N.mod_small b) by assumption. now rewrite N.add_0_r.
Qed.

Corollary compose_add_inst ww sg img ch blk B K kk nn S :
  blk = ch_block ch -> B = 2 ^ ch_bits ch -> kk = ch_bits ch * N.of_nat (ch_n ch) -> K = 2 ^ kk -> nn = ch_n ch ->
  S = v_add kk ->
  ch_rev ch = false -> ch_fall ch = 0 ->
  chain_static ww img ch = true ->
  length (cvars ch) = 2%nat ->
  pro_check ww sg img ch [0] = true ->
  (forall i, (i < nn)%nat -> forallb (digit_check ww sg img ch (dspec_add B) i) (digit_dom ch i) = true) ->
  epi_all ww sg img ch = true ->
  forall a b, a < K -> b < K -> block_correct ww sg img blk S [a; b].
Proof. intros -> -> -> -> -> ->. apply compose_add. Qed.

(* ------------------------------------------------------------------------------------------- *)
(* digit-wise macros without a carry: hex.xor / hex.or / hex.and / bit.xor ... (two operands)   *)

Lemma zipf_map {A} f (g1 g2 : A -> N) l : zipf f (map g1 l) (map g2 l) = map (fun k => f (g1 k) (g2 k)) l.
Proof. induction l as [|x l IH]; cbn; [reflexivity|now rewrite IH]. Qed.

Lemma map2_rel cells {fall e} f ds : forall ss cv rows' cvE,
  length ss = length ds -> chain_rel cells fall (dspec_map2 f) (zip2 ds ss) cv rows' cvE e -> rows' = zip2 (zipf f ds ss) ss.
Proof.
  induction ds as [|d ds IH]; intros [|s ss] cv rows' cvE L REL; cbn [length] in L; try discriminate.
  - cbn [zip2 chain_rel] in REL. destruct rows'; [reflexivity|contradiction].
  - cbn [zip2 chain_rel] in REL. destruct rows' as [|r' rows']; [contradiction|].
    destruct REL as [cv1 [exp [dn [E [_ REL]]]]]. cbn [dspec_map2] in E. inversion E; subst r' exp dn. cbn iota in REL.
    cbn [zipf zip2]. f_equal. eapply IH; [congruence|exact REL].
Qed.

Theorem compose_map2 ww sg img ch f F :
  (forall x y j, dg (ch_bits ch) j (F x y) = f (dg (ch_bits ch) j x) (dg (ch_bits ch) j y)) ->
  ch_rev ch = false -> ch_fall ch = 0 ->
  chain_static ww img ch = true ->
  length (cvars ch) = 2%nat ->
  pro_check ww sg img ch [] = true ->
  (forall i, (i < ch_n ch)%nat -> forallb (digit_check ww sg img ch (dspec_map2 f) i) (digit_dom ch i) = true) ->
  epi_all ww sg img ch = true ->
  forall a b, block_correct ww sg img (ch_block ch) (v_map2 F) [a; b].
Proof.
  intros HF HR HFL ST L2 PRO DIG EPI a b.
  pose proof (rows_of_fwd2 ch) as RW.
  set (bits := ch_bits ch) in *. set (k := ch_n ch) in *.
  apply (chain_block_correct ww sg img ch (dspec_map2 f) [] _ ST PRO DIG EPI [a; b] [F a b; b] 0); auto.
  intros cvP rows' cvE e _ REL. split.
  2:{ rewrite <- HFL. eapply chain_rel_exit; [|exact REL]. intros r ci r' exp x E.
      unfold dspec_map2 in E. destruct r as [|? [|? [|]]]; discriminate. }
  rewrite RW in REL by assumption. rewrite RW by assumption.
  rewrite (map2_rel _ _ _ _ _ _ _ (eq_trans (map_length _ _) (eq_sym (map_length _ _))) REL).
  f_equal. rewrite zipf_map. apply map_ext. intros j. symmetry. apply HF.
Qed.

Lemma dg_lxor bits x y j : dg bits j (N.lxor x y) = N.lxor (dg bits j x) (dg bits j y).
Proof.
  unfold dg. rewrite N.shiftr_lxor. apply N.bits_inj. intros t. rewrite !N.lxor_spec, !N.land_spec, !N.lxor_spec.
  destruct (N.testbit (N.shiftr x (bits * N.of_nat j)) t), (N.testbit (N.shiftr y (bits * N.of_nat j)) t),
    (N.testbit (N.ones bits) t); reflexivity.
Qed.

Lemma dg_lor bits x y j : dg bits j (N.lor x y) = N.lor (dg bits j x) (dg bits j y).
Proof. unfold dg. now rewrite N.shiftr_lor, N.land_lor_distr_l. Qed.

Lemma dg_land bits x y j : dg bits j (N.land x y) = N.land (dg bits j x) (dg bits j y).
Proof.
  unfold dg. rewrite N.shiftr_land. apply N.bits_inj. intros t. rewrite !N.land_spec.
  destruct (N.testbit (N.shiftr x (bits * N.of_nat j)) t), (N.testbit (N.shiftr y (bits * N.of_nat j)) t),
    (N.testbit (N.ones bits) t); reflexivity.
Qed.

(* instances that match a generated statement syntactically (see compose_add_inst) *)
Corollary compose_map2_inst ww sg img ch blk bits nn f F S :
  (forall x y j, dg bits j (F x y) = f (dg bits j x) (dg bits j y)) ->
  blk = ch_block ch -> bits = ch_bits ch -> nn = ch_n ch -> S = v_map2 F ->
  ch_rev ch = false -> ch_fall ch = 0 ->
  chain_static ww img ch = true ->
  length (cvars ch) = 2%nat ->
  pro_check ww sg img ch [] = true ->
  (forall i, (i < nn)%nat -> forallb (digit_check ww sg img ch (dspec_map2 f) i) (digit_dom ch i) = true) ->
  epi_all ww sg img ch = true ->
  forall a b, block_correct ww sg img blk S [a; b].
Proof. intros HF -> -> -> ->. now apply compose_map2. Qed.

Definition compose_xor_inst ww sg img ch blk bits nn S := compose_map2_inst ww sg img ch blk bits nn N.lxor N.lxor S (dg_lxor bits).
Definition compose_or_inst ww sg img ch blk bits nn S := compose_map2_inst ww sg img ch blk bits nn N.lor N.lor S (dg_lor bits).
Definition compose_and_inst ww sg img ch blk bits nn S := compose_map2_inst ww sg img ch blk bits nn N.land N.land S (dg_land bits).

(* ------------------------------------------------------------------------------------------- *)
(* complement of a digit list; hex.sub n (borrow chain) and hex.not n                           *)

Lemma value_compl B l : (forall d, In d l -> d < B) ->
  value B (map (fun d => B - 1 - d) l) + value B l + 1 = B ^ N.of_nat (length l).
Proof.
  induction l as [|d l IH]; intros H.
  - cbn. reflexivity.
  - cbn [map value length]. rewrite Nat2N.inj_succ, N.pow_succ_r'.
    assert (Hd : d < B) by (apply H; now left).
    specialize (IH (fun x Ix => H x (or_intror Ix))). nia.
Qed.

Lemma div_0_or_1 B X : B <> 0 -> (X < B -> X / B = 0) /\ (B <= X < 2 * B -> X / B = 1).
Proof.
  intros NZ. split; intros H; [now apply N.div_small|].
  symmetry. apply (N.div_unique X B 1 (X - B)); lia.
Qed.

(* a chain of dspec_sub steps with borrow c is the ripple-carry ADDITION of the complemented subtrahend with carry 1-c *)
Lemma sub_rel cells {fall e} B ds : B <> 0 -> forall ss c cv rows' cvE rest,
  length ss = length ds -> (forall d, In d ds -> d < B) -> (forall s, In s ss -> s < B) -> c <= 1 ->
  cv_idx cells cv = c :: rest ->
  chain_rel cells fall (dspec_sub B) (zip2 ds ss) cv rows' cvE e ->
  rows' = zip2 (ripple B ds (map (fun s => B - 1 - s) ss) (1 - c)) ss.
Proof.
  intros NZ. induction ds as [|d ds IH]; intros [|s ss] c cv rows' cvE rest L HD HS C1 CI REL; cbn [length] in L; try discriminate.
  - cbn [zip2 chain_rel] in REL. destruct rows'; [reflexivity|contradiction].
  - cbn [zip2 chain_rel] in REL. destruct rows' as [|r' rows']; [contradiction|].
    destruct REL as [cv1 [exp [dn [E [P REL]]]]]. rewrite CI in E. cbn [dspec_sub] in E. inversion E; subst r' exp dn. clear E. cbn iota in REL.
    apply prefixb_one in P. destruct P as [rest1 CI1].
    assert (Hs : s < B) by (apply HS; now left).
    assert (Hd : d < B) by (apply HD; now left).
    assert (EX : d + (B - 1 - s) + (1 - c) = d + B - s - c) by lia.
    cbn [map ripple zip2]. rewrite EX. f_equal.
    replace ((d + B - s - c) / B) with (1 - (if d <? s + c then 1 else 0)).
    2:{ destruct (div_0_or_1 B (d + B - s - c) NZ) as [D0 D1].
        destruct (N.ltb_spec d (s + c)); [rewrite D0|rewrite D1]; lia. }
    eapply (IH ss (if d <? s + c then 1 else 0));
      [congruence|intros x Ix; apply HD; now right|intros x Ix; apply HS; now right| |exact CI1|exact REL].
    destruct (d <? s + c); lia.
Qed.

Theorem compose_sub ww sg img ch :
  ch_rev ch = false -> ch_fall ch = 0 ->
  chain_static ww img ch = true ->
  length (cvars ch) = 2%nat ->
  pro_check ww sg img ch [0] = true ->
  (forall i, (i < ch_n ch)%nat -> forallb (digit_check ww sg img ch (dspec_sub (2 ^ ch_bits ch)) i) (digit_dom ch i) = true) ->
  epi_all ww sg img ch = true ->
  forall a b, a < 2 ^ (ch_bits ch * N.of_nat (ch_n ch)) -> b < 2 ^ (ch_bits ch * N.of_nat (ch_n ch)) ->
  block_correct ww sg img (ch_block ch) (v_sub (ch_bits ch * N.of_nat (ch_n ch))) [a; b].
Proof.
  intros HR HF ST L2 PRO DIG EPI a b Ha Hb.
  pose proof (rows_of_fwd2 ch) as RW.
  set (bits := ch_bits ch) in *. set (k := ch_n ch) in *.
  assert (NZ : 2 ^ bits <> 0) by (apply N.pow_nonzero; lia).
  apply (chain_block_correct ww sg img ch (dspec_sub (2 ^ bits)) [0] _ ST PRO DIG EPI
           [a; b] [(a + 2 ^ (bits * N.of_nat k) - b) mod 2 ^ (bits * N.of_nat k); b] 0); auto.
  intros cvP rows' cvE e PX REL. split.
  2:{ rewrite <- HF. eapply chain_rel_exit; [|exact REL]. intros r ci r' exp x E.
      unfold dspec_sub in E. destruct r as [|? [|? [|]]]; try discriminate. destruct ci; discriminate. }
  apply prefixb_one in PX. destruct PX as [rest CI].
  rewrite RW in REL by assumption. rewrite RW by assumption.
  set (da := map (fun j => dg bits j a) (seq 0 k)) in *. set (db := map (fun j => dg bits j b) (seq 0 k)) in *.
  assert (La : length da = k) by (unfold da; now rewrite map_length, seq_length).
  assert (Lb : length db = k) by (unfold db; now rewrite map_length, seq_length).
  assert (Bb : forall s, In s db -> s < 2 ^ bits).
  { intros s Is. unfold db in Is. apply in_map_iff in Is. destruct Is as [j [<- _]].
    unfold dg. rewrite N.land_ones. now apply N.mod_upper_bound. }
  assert (Ba : forall s, In s da -> s < 2 ^ bits).
  { intros s Is. unfold da in Is. apply in_map_iff in Is. destruct Is as [j [<- _]].
    unfold dg. rewrite N.land_ones. now apply N.mod_upper_bound. }
  rewrite (sub_rel _ _ da NZ db 0 cvP rows' cvE rest (eq_trans Lb (eq_sym La)) Ba Bb (N.le_0_1) CI REL).
  f_equal. change (1 - 0) with 1.
  set (dc := map (fun s => 2 ^ bits - 1 - s) db).
  assert (Lc : length dc = length da) by (unfold dc; rewrite map_length; congruence).
  etransitivity; [symmetry; apply (digits_value bits); intros d Id; eapply ripple_lt; eauto|].
  rewrite ripple_length by exact Lc. rewrite La.
  rewrite ripple_add_correct by assumption.
  pose proof (value_compl (2 ^ bits) db Bb) as VC. fold dc in VC. rewrite Lb in VC.
  unfold da at 1. rewrite value_digits, La. unfold db in VC. rewrite value_digits in VC.
  rewrite <- N.pow_mul_r in *. rewrite (N.mod_small a) by assumption. rewrite (N.mod_small b) in VC by assumption.
  replace (a + value (2 ^ bits) dc + 1) with (a + 2 ^ (bits * N.of_nat k) - b) by lia. reflexivity.
Qed.

Corollary compose_sub_inst ww sg img ch blk B K kk nn S :
  blk = ch_block ch -> B = 2 ^ ch_bits ch -> kk = ch_bits ch * N.of_nat (ch_n ch) -> K = 2 ^ kk -> nn = ch_n ch ->
  S = v_sub kk ->
  ch_rev ch = false -> ch_fall ch = 0 ->
  chain_static ww img ch = true ->
  length (cvars ch) = 2%nat ->
  pro_check ww sg img ch [0] = true ->
  (forall i, (i < nn)%nat -> forallb (digit_check ww sg img ch (dspec_sub B) i) (digit_dom ch i) = true) ->
  epi_all ww sg img ch = true ->
  forall a b, a < K -> b < K -> block_correct ww sg img blk S [a; b].
Proof. intros -> -> -> -> -> ->. apply compose_sub. Qed.

(* one operand, digit-wise: hex.not n / bit.not n *)
Lemma map1_rel cells {fall e} f ds : forall cv rows' cvE,
  chain_rel cells fall (dspec_map1 f) (map (fun d => [d]) ds) cv rows' cvE e -> rows' = map (fun d => [f d]) ds.
Proof.
  induction ds as [|d ds IH]; intros cv rows' cvE REL.
  - cbn [map chain_rel] in REL. destruct rows'; [reflexivity|contradiction].
  - cbn [map chain_rel] in REL. destruct rows' as [|r' rows']; [contradiction|].
    destruct REL as [cv1 [exp [dn [E [_ REL]]]]]. cbn [dspec_map1] in E. inversion E; subst r' exp dn. cbn iota in REL.
    cbn [map]. f_equal. eapply IH. exact REL.
Qed.

Theorem compose_not ww sg img ch :
  ch_rev ch = false -> ch_fall ch = 0 ->
  chain_static ww img ch = true ->
  length (cvars ch) = 1%nat ->
  pro_check ww sg img ch [] = true ->
  (forall i, (i < ch_n ch)%nat ->
     forallb (digit_check ww sg img ch (dspec_map1 (fun d => 2 ^ ch_bits ch - 1 - d)) i) (digit_dom ch i) = true) ->
  epi_all ww sg img ch = true ->
  forall a, a < 2 ^ (ch_bits ch * N.of_nat (ch_n ch)) ->
  block_correct ww sg img (ch_block ch) (v_not (ch_bits ch * N.of_nat (ch_n ch))) [a].
Proof.
  intros HR HF ST L1 PRO DIG EPI a Ha.
  pose proof (rows_of_fwd1 ch) as RW.
  set (bits := ch_bits ch) in *. set (k := ch_n ch) in *.
  assert (NZ : 2 ^ bits <> 0) by (apply N.pow_nonzero; lia).
  apply (chain_block_correct ww sg img ch (dspec_map1 (fun d => 2 ^ bits - 1 - d)) [] _ ST PRO DIG EPI
           [a] [2 ^ (bits * N.of_nat k) - 1 - a] 0); auto.
  intros cvP rows' cvE e _ REL. split.
  2:{ rewrite <- HF. eapply chain_rel_exit; [|exact REL]. intros r ci r' exp x E.
      unfold dspec_map1 in E. destruct r as [|? [|]]; discriminate. }
  rewrite RW in REL by assumption. rewrite RW by assumption.
  rewrite (map1_rel _ _ _ _ _ _ REL). rewrite <- (map_map (fun d => 2 ^ bits - 1 - d) (fun d => [d])). f_equal.
  set (da := map (fun j => dg bits j a) (seq 0 k)).
  assert (La : length da = k) by (unfold da; now rewrite map_length, seq_length).
  assert (Ba : forall s, In s da -> s < 2 ^ bits).
  { intros s Is. unfold da in Is. apply in_map_iff in Is. destruct Is as [j [<- _]].
    unfold dg. rewrite N.land_ones. now apply N.mod_upper_bound. }
  set (dc := map (fun d => 2 ^ bits - 1 - d) da).
  assert (Bc : forall s, In s dc -> s < 2 ^ bits).
  { intros s Is. unfold dc in Is. apply in_map_iff in Is. destruct Is as [d [<- Id]]. specialize (Ba d Id). lia. }
  etransitivity; [symmetry; apply (digits_value bits _ Bc)|].
  assert (Lc : length dc = k) by (unfold dc; now rewrite map_length).
  rewrite Lc.
  pose proof (value_compl (2 ^ bits) da Ba) as VC. fold dc in VC. rewrite La in VC.
  unfold da in VC. rewrite value_digits in VC. rewrite <- N.pow_mul_r in VC.
  rewrite (N.mod_small a) in VC by assumption.
  apply map_ext. intros j. f_equal. lia.
Qed.

Corollary compose_not_inst ww sg img ch blk B K kk nn S :
  blk = ch_block ch -> B = 2 ^ ch_bits ch -> kk = ch_bits ch * N.of_nat (ch_n ch) -> K = 2 ^ kk -> nn = ch_n ch ->
  S = v_not kk ->
  ch_rev ch = false -> ch_fall ch = 0 ->
  chain_static ww img ch = true ->
  length (cvars ch) = 1%nat ->
  pro_check ww sg img ch [] = true ->
  (forall i, (i < nn)%nat -> forallb (digit_check ww sg img ch (dspec_map1 (fun d => B - 1 - d)) i) (digit_dom ch i) = true) ->
  epi_all ww sg img ch = true ->
  forall a, a < K -> block_correct ww sg img blk S [a].
Proof. intros -> -> -> -> -> ->. apply compose_not. Qed.

(* ------------------------------------------------------------------------------------------- *)
(* hex.inc n / hex.dec n: one operand, early exit at the first digit that does not overflow     *)

Lemma value_lt B l : (forall d, In d l -> d < B) -> value B l < B ^ N.of_nat (length l).
Proof.
  induction l as [|d l IH]; intros H; cbn [value length]; [cbn; lia|].
  rewrite Nat2N.inj_succ, N.pow_succ_r'.
  assert (Hd : d < B) by (apply H; now left). specialize (IH (fun x Ix => H x (or_intror Ix))). nia.
Qed.

Lemma inc_digits_length B l : length (inc_digits B l) = length l.
Proof. induction l as [|d l IH]; cbn [inc_digits]; [reflexivity|]. destruct (d =? B - 1); cbn [length]; congruence. Qed.

Lemma dec_digits_length B l : length (dec_digits B l) = length l.
Proof. induction l as [|d l IH]; cbn [dec_digits]; [reflexivity|]. destruct (d =? 0); cbn [length]; congruence. Qed.

Lemma inc_digits_lt B l : (forall d, In d l -> d < B) -> forall x, In x (inc_digits B l) -> x < B.
Proof.
  induction l as [|d l IH]; intros H x I; cbn [inc_digits] in I; [contradiction|].
  assert (Hd : d < B) by (apply H; now left).
  destruct (N.eqb_spec d (B - 1)); destruct I as [<-|I]; try lia; try (apply H; now right).
  apply IH; [intros y Iy; apply H; now right|exact I].
Qed.

Lemma dec_digits_lt B l : (forall d, In d l -> d < B) -> forall x, In x (dec_digits B l) -> x < B.
Proof.
  induction l as [|d l IH]; intros H x I; cbn [dec_digits] in I; [contradiction|].
  assert (Hd : d < B) by (apply H; now left).
  destruct (N.eqb_spec d 0); destruct I as [<-|I]; try lia; try (apply H; now right).
  apply IH; [intros y Iy; apply H; now right|exact I].
Qed.

Lemma value_inc B l : (forall d, In d l -> d < B) ->
  value B (inc_digits B l) = (value B l + 1) mod B ^ N.of_nat (length l).
Proof.
  induction l as [|d l IH]; intros H.
  - cbn. reflexivity.
  - assert (Hd : d < B) by (apply H; now left). assert (NZ : B <> 0) by lia.
    pose proof (value_lt B l (fun x Ix => H x (or_intror Ix))) as VL.
    specialize (IH (fun x Ix => H x (or_intror Ix))).
    cbn [inc_digits length]. rewrite Nat2N.inj_succ, N.pow_succ_r'.
    destruct (N.eqb_spec d (B - 1)) as [E|NE]; cbn [value].
    + rewrite IH. replace (d + B * value B l + 1) with (B * (value B l + 1)) by lia.
      rewrite N.mul_mod_distr_l by (first [assumption|apply N.pow_nonzero; assumption]). lia.
    + rewrite N.mod_small; [lia|]. nia.
Qed.

Lemma value_dec B l : (forall d, In d l -> d < B) ->
  value B (dec_digits B l) = (value B l + B ^ N.of_nat (length l) - 1) mod B ^ N.of_nat (length l).
Proof.
  induction l as [|d l IH]; intros H.
  - cbn. reflexivity.
  - assert (Hd : d < B) by (apply H; now left). assert (NZ : B <> 0) by lia.
    pose proof (value_lt B l (fun x Ix => H x (or_intror Ix))) as VL.
    specialize (IH (fun x Ix => H x (or_intror Ix))).
    assert (MZ : B ^ N.of_nat (length l) <> 0) by (apply N.pow_nonzero; assumption).
    cbn [dec_digits length]. rewrite Nat2N.inj_succ, N.pow_succ_r'.
    set (M := B ^ N.of_nat (length l)) in *.
    destruct (N.eqb_spec d 0) as [E|NE]; cbn [value].
    + rewrite IH. subst d.
      replace (0 + B * value B l + B * M - 1) with ((B - 1) + (value B l + M - 1) * B) by nia.
      rewrite N.mod_mul_r by assumption. rewrite N.mod_add, N.div_add by assumption.
      rewrite (N.mod_small (B - 1)), (N.div_small (B - 1)) by lia. now rewrite N.add_0_l.
    + replace (d + B * value B l + B * M - 1) with ((d - 1 + B * value B l) + 1 * (B * M)) by nia.
      rewrite N.mod_add by nia. rewrite N.mod_small; [reflexivity|]. nia.
Qed.

Lemma inc_rel cells {fall e} B ds : (forall d, In d ds -> d < B) -> forall cv rows' cvE,
  chain_rel cells fall (dspec_inc B) (map (fun d => [d]) ds) cv rows' cvE e -> rows' = map (fun d => [d]) (inc_digits B ds).
Proof.
  induction ds as [|d ds IH]; intros H cv rows' cvE REL.
  - cbn [map chain_rel] in REL. destruct rows'; [reflexivity|contradiction].
  - cbn [map chain_rel] in REL. destruct rows' as [|r' rows']; [contradiction|].
    destruct REL as [cv1 [exp [dn [E [_ REL]]]]]. cbn [dspec_inc] in E. inversion E; subst r' exp dn. clear E.
    assert (Hd : d < B) by (apply H; now left).
    cbn [inc_digits]. destruct (N.eqb_spec d (B - 1)) as [Ed|NE]; cbn iota in REL; cbn [map].
    + f_equal; [f_equal; replace (d + 1) with B by lia; now apply N.mod_same; lia|].
      eapply IH; [intros x Ix; apply H; now right|exact REL].
    + destruct REL as [-> _]. f_equal. f_equal. apply N.mod_small. lia.
Qed.

Lemma dec_rel cells {fall e} B ds : (forall d, In d ds -> d < B) -> forall cv rows' cvE,
  chain_rel cells fall (dspec_dec B) (map (fun d => [d]) ds) cv rows' cvE e -> rows' = map (fun d => [d]) (dec_digits B ds).
Proof.
  induction ds as [|d ds IH]; intros H cv rows' cvE REL.
  - cbn [map chain_rel] in REL. destruct rows'; [reflexivity|contradiction].
  - cbn [map chain_rel] in REL. destruct rows' as [|r' rows']; [contradiction|].
    destruct REL as [cv1 [exp [dn [E [_ REL]]]]]. cbn [dspec_dec] in E. inversion E; subst r' exp dn. clear E.
    assert (Hd : d < B) by (apply H; now left).
    cbn [dec_digits]. destruct (N.eqb_spec d 0) as [Ed|NE]; cbn iota in REL; cbn [map].
    + f_equal; [f_equal; subst d; apply N.mod_small; lia|].
      eapply IH; [intros x Ix; apply H; now right|exact REL].
    + destruct REL as [-> _]. f_equal. f_equal.
      replace (d + B - 1) with ((d - 1) + 1 * B) by lia. rewrite N.mod_add by lia. apply N.mod_small. lia.
Qed.

(* the common part of the two one-operand early-exit theorems *)
Lemma compose_step1 ww sg img ch (D : dspec) (S : bspec) (g : N -> list N -> list N) (F : N -> N) :
  (forall B l, (forall d, In d l -> d < B) -> forall cv rows' cvE e,
     chain_rel (ch_cells ch) (ch_fall ch) D (map (fun d => [d]) l) cv rows' cvE e -> B = 2 ^ ch_bits ch ->
     rows' = map (fun d => [d]) (g B l)) ->
  (forall B l, (forall d, In d l -> d < B) -> forall x, In x (g B l) -> x < B) ->
  (forall B l, length (g B l) = length l) ->
  (forall l, (forall d, In d l -> d < 2 ^ ch_bits ch) -> length l = ch_n ch ->
     value (2 ^ ch_bits ch) (g (2 ^ ch_bits ch) l) = F (value (2 ^ ch_bits ch) l)) ->
  (forall a, S [a] = Some ([F a], 0)) ->
  (forall r ci r' exp x, D r ci = Some (r', exp, Some x) -> x = 0) ->
  ch_rev ch = false -> ch_fall ch = 0 ->
  chain_static ww img ch = true ->
  length (cvars ch) = 1%nat ->
  pro_check ww sg img ch [] = true ->
  (forall i, (i < ch_n ch)%nat -> forallb (digit_check ww sg img ch D i) (digit_dom ch i) = true) ->
  epi_all ww sg img ch = true ->
  forall a, a < 2 ^ (ch_bits ch * N.of_nat (ch_n ch)) -> block_correct ww sg img (ch_block ch) S [a].
Proof.
  intros GR GL GN GV HS HX HR HF ST L1 PRO DIG EPI a Ha.
  pose proof (rows_of_fwd1 ch) as RW.
  set (bits := ch_bits ch) in *. set (k := ch_n ch) in *.
  assert (NZ : 2 ^ bits <> 0) by (apply N.pow_nonzero; lia).
  apply (chain_block_correct ww sg img ch D [] _ ST PRO DIG EPI [a] [F a] 0); auto.
  intros cvP rows' cvE e _ REL. split.
  2:{ rewrite <- HF. eapply chain_rel_exit; [|exact REL]. intros r ci r' exp x E. rewrite HF. eapply HX. exact E. }
  rewrite RW in REL by assumption. rewrite RW by assumption.
  set (da := map (fun j => dg bits j a) (seq 0 k)) in *.
  assert (La : length da = k) by (unfold da; now rewrite map_length, seq_length).
  assert (Ba : forall s, In s da -> s < 2 ^ bits).
  { intros s Is. unfold da in Is. apply in_map_iff in Is. destruct Is as [j [<- _]].
    unfold dg. rewrite N.land_ones. now apply N.mod_upper_bound. }
  rewrite (GR (2 ^ bits) da Ba cvP rows' cvE e REL eq_refl). f_equal.
  etransitivity; [symmetry; apply (digits_value bits); now apply GL|].
  rewrite GN, La. rewrite (GV da Ba La).
  unfold da. rewrite value_digits. rewrite <- N.pow_mul_r. now rewrite (N.mod_small a) by assumption.
Qed.

Theorem compose_inc ww sg img ch :
  ch_rev ch = false -> ch_fall ch = 0 ->
  chain_static ww img ch = true ->
  length (cvars ch) = 1%nat ->
  pro_check ww sg img ch [] = true ->
  (forall i, (i < ch_n ch)%nat -> forallb (digit_check ww sg img ch (dspec_inc (2 ^ ch_bits ch)) i) (digit_dom ch i) = true) ->
  epi_all ww sg img ch = true ->
  forall a, a < 2 ^ (ch_bits ch * N.of_nat (ch_n ch)) ->
  block_correct ww sg img (ch_block ch) (v_inc (ch_bits ch * N.of_nat (ch_n ch))) [a].
Proof.
  apply (compose_step1 ww sg img ch (dspec_inc (2 ^ ch_bits ch)) (v_inc (ch_bits ch * N.of_nat (ch_n ch)))
           inc_digits (fun x => (x + 1) mod 2 ^ (ch_bits ch * N.of_nat (ch_n ch)))).
  - intros B l H cv rows' cvE e REL ->. exact (inc_rel (ch_cells ch) _ l H cv rows' cvE REL).
  - intros B l H. now apply inc_digits_lt.
  - intros. apply inc_digits_length.
  - intros l H L. rewrite value_inc by assumption. now rewrite L, <- N.pow_mul_r.
  - reflexivity.
  - intros r ci r' exp x E. unfold dspec_inc in E. destruct r as [|d [|]]; try discriminate.
    destruct (d =? 2 ^ ch_bits ch - 1); inversion E; reflexivity.
Qed.

Theorem compose_dec ww sg img ch :
  ch_rev ch = false -> ch_fall ch = 0 ->
  chain_static ww img ch = true ->
  length (cvars ch) = 1%nat ->
  pro_check ww sg img ch [] = true ->
  (forall i, (i < ch_n ch)%nat -> forallb (digit_check ww sg img ch (dspec_dec (2 ^ ch_bits ch)) i) (digit_dom ch i) = true) ->
  epi_all ww sg img ch = true ->
  forall a, a < 2 ^ (ch_bits ch * N.of_nat (ch_n ch)) ->
  block_correct ww sg img (ch_block ch) (v_dec (ch_bits ch * N.of_nat (ch_n ch))) [a].
Proof.
  apply (compose_step1 ww sg img ch (dspec_dec (2 ^ ch_bits ch)) (v_dec (ch_bits ch * N.of_nat (ch_n ch)))
           dec_digits (fun x => (x + 2 ^ (ch_bits ch * N.of_nat (ch_n ch)) - 1) mod 2 ^ (ch_bits ch * N.of_nat (ch_n ch)))).
  - intros B l H cv rows' cvE e REL ->. exact (dec_rel (ch_cells ch) _ l H cv rows' cvE REL).
  - intros B l H. now apply dec_digits_lt.
  - intros. apply dec_digits_length.
  - intros l H L. rewrite value_dec by assumption. now rewrite L, <- N.pow_mul_r.
  - reflexivity.
  - intros r ci r' exp x E. unfold dspec_dec in E. destruct r as [|d [|]]; try discriminate.
    destruct (d =? 0); inversion E; reflexivity.
Qed.

Corollary compose_inc_inst ww sg img ch blk B K kk nn S :
  blk = ch_block ch -> B = 2 ^ ch_bits ch -> kk = ch_bits ch * N.of_nat (ch_n ch) -> K = 2 ^ kk -> nn = ch_n ch ->
  S = v_inc kk ->
  ch_rev ch = false -> ch_fall ch = 0 ->
  chain_static ww img ch = true ->
  length (cvars ch) = 1%nat ->
  pro_check ww sg img ch [] = true ->
  (forall i, (i < nn)%nat -> forallb (digit_check ww sg img ch (dspec_inc B) i) (digit_dom ch i) = true) ->
  epi_all ww sg img ch = true ->
  forall a, a < K -> block_correct ww sg img blk S [a].
Proof. intros -> -> -> -> -> ->. apply compose_inc. Qed.

Corollary compose_dec_inst ww sg img ch blk B K kk nn S :
  blk = ch_block ch -> B = 2 ^ ch_bits ch -> kk = ch_bits ch * N.of_nat (ch_n ch) -> K = 2 ^ kk -> nn = ch_n ch ->
  S = v_dec kk ->
  ch_rev ch = false -> ch_fall ch = 0 ->
  chain_static ww img ch = true ->
  length (cvars ch) = 1%nat ->
  pro_check ww sg img ch [] = true ->
  (forall i, (i < nn)%nat -> forallb (digit_check ww sg img ch (dspec_dec B) i) (digit_dom ch i) = true) ->
  epi_all ww sg img ch = true ->
  forall a, a < K -> block_correct ww sg img blk S [a].
Proof. intros -> -> -> -> -> ->. apply compose_dec. Qed.

(* ------------------------------------------------------------------------------------------- *)
(* hex.cmp n: steps from the most significant digit, leaves at the first differing digit        *)

(* value of a digit list written most significant digit first *)
Fixpoint valr (B : N) (l : list N) : N :=
  match l with [] => 0 | d :: r => d * B ^ N.of_nat (length r) + valr B r end.

Lemma valr_lt B l : (forall d, In d l -> d < B) -> valr B l < B ^ N.of_nat (length l).
Proof.
  induction l as [|d l IH]; intros H; cbn [valr length]; [cbn; lia|].
  rewrite Nat2N.inj_succ, N.pow_succ_r'.
  assert (Hd : d < B) by (apply H; now left). specialize (IH (fun x Ix => H x (or_intror Ix))). nia.
Qed.

(* lexicographic comparison of equally long digit lists (most significant first) is comparison of their values *)
Lemma cmp_lex_correct B ds : forall ss, length ss = length ds ->
  (forall d, In d ds -> d < B) -> (forall s, In s ss -> s < B) ->
  cmp_lex ds ss = if valr B ds <? valr B ss then 1 else if valr B ds =? valr B ss then 2 else 3.
Proof.
  induction ds as [|d ds IH]; intros [|s ss] L HD HS; cbn [length] in L; try discriminate; [reflexivity|].
  cbn [cmp_lex valr].
  pose proof (valr_lt B ds (fun x Ix => HD x (or_intror Ix))) as VD.
  pose proof (valr_lt B ss (fun x Ix => HS x (or_intror Ix))) as VS.
  assert (EL : length ss = length ds) by congruence. rewrite EL in *.
  set (M := B ^ N.of_nat (length ds)) in *.
  destruct (N.ltb_spec d s) as [L1|G1].
  - destruct (N.ltb_spec (d * M + valr B ds) (s * M + valr B ss)); [reflexivity|nia].
  - destruct (N.ltb_spec s d) as [L2|G2].
    + destruct (N.ltb_spec (d * M + valr B ds) (s * M + valr B ss)); [nia|].
      destruct (N.eqb_spec (d * M + valr B ds) (s * M + valr B ss)); [nia|reflexivity].
    + assert (d = s) by lia. subst s.
      rewrite (IH ss EL (fun x Ix => HD x (or_intror Ix)) (fun x Ix => HS x (or_intror Ix))).
      destruct (N.ltb_spec (valr B ds) (valr B ss)), (N.ltb_spec (d * M + valr B ds) (d * M + valr B ss)); try lia; try reflexivity.
      destruct (N.eqb_spec (valr B ds) (valr B ss)), (N.eqb_spec (d * M + valr B ds) (d * M + valr B ss)); try lia; reflexivity.
Qed.

Lemma dg_div bits k : forall v, dg bits k v = (v / (2 ^ bits) ^ N.of_nat k) mod 2 ^ bits.
Proof.
  induction k as [|k IH]; intros v.
  - rewrite dg_0. change (N.of_nat 0) with 0. now rewrite N.pow_0_r, N.div_1_r.
  - rewrite dg_S, IH, Nat2N.inj_succ, N.pow_succ_r', N.div_div; [reflexivity| |];
      apply N.pow_nonzero; try apply N.pow_nonzero; lia.
Qed.

(* the digits of v, most significant first *)
Definition rdigits (bits : N) (k : nat) (v : N) : list N := map (fun j => dg bits (k - 1 - j) v) (seq 0 k).

Lemma valr_rdigits bits k : forall v, valr (2 ^ bits) (rdigits bits k v) = v mod (2 ^ bits) ^ N.of_nat k.
Proof.
  assert (NZ : 2 ^ bits <> 0) by (apply N.pow_nonzero; lia).
  induction k as [|k IH]; intros v; unfold rdigits.
  - cbn. change (N.of_nat 0) with 0. now rewrite N.pow_0_r, N.mod_1_r.
  - cbn [seq map valr]. rewrite <- seq_shift, map_map, map_length, seq_length.
    rewrite (map_ext (fun j => dg bits (S k - 1 - S j) v) (fun j => dg bits (k - 1 - j) v)) by (intros j; f_equal; lia).
    fold (rdigits bits k v). rewrite IH. replace (S k - 1 - 0)%nat with k by lia.
    rewrite dg_div, Nat2N.inj_succ, N.pow_succ_r', (N.mul_comm (2 ^ bits)).
    rewrite (N.mod_mul_r v) by (first [assumption|apply N.pow_nonzero; assumption]). lia.
Qed.

Lemma cmp_rel cells {fall} ds : fall = 2 -> forall ss cv rows' cvE e,
  chain_rel cells fall dspec_cmp (zip2 ds ss) cv rows' cvE e -> rows' = zip2 ds ss /\ e = cmp_lex ds ss.
Proof.
  intros HF. induction ds as [|d ds IH]; intros ss cv rows' cvE e REL.
  - cbn [zip2 chain_rel] in REL. destruct rows'; [|contradiction]. destruct REL as [_ ->]. cbn. auto.
  - destruct ss as [|s ss].
    + cbn [zip2 chain_rel] in REL. destruct rows'; [|contradiction]. destruct REL as [_ ->]. cbn. auto.
    + cbn [zip2 chain_rel] in REL. destruct rows' as [|r' rows']; [contradiction|].
      destruct REL as [cv1 [exp [dn [E [_ REL]]]]]. cbn [dspec_cmp] in E. inversion E; subst r' exp dn. clear E.
      cbn [zip2 cmp_lex].
      destruct (d <? s); [destruct REL as [-> [_ ->]]; auto|].
      destruct (s <? d); [destruct REL as [-> [_ ->]]; auto|].
      destruct (IH ss cv1 rows' cvE e REL) as [-> ->]. auto.
Qed.

Theorem compose_cmp ww sg img ch :
  ch_rev ch = true -> ch_fall ch = 2 ->
  chain_static ww img ch = true ->
  length (cvars ch) = 2%nat ->
  pro_check ww sg img ch [] = true ->
  (forall i, (i < ch_n ch)%nat -> forallb (digit_check ww sg img ch dspec_cmp i) (digit_dom ch i) = true) ->
  epi_all ww sg img ch = true ->
  forall a b, a < 2 ^ (ch_bits ch * N.of_nat (ch_n ch)) -> b < 2 ^ (ch_bits ch * N.of_nat (ch_n ch)) ->
  block_correct ww sg img (ch_block ch) (v_cmp (ch_bits ch * N.of_nat (ch_n ch))) [a; b].
Proof.
  intros HR HF ST L2 PRO DIG EPI a b Ha Hb.
  set (bits := ch_bits ch) in *. set (k := ch_n ch) in *.
  assert (NZ : 2 ^ bits <> 0) by (apply N.pow_nonzero; lia).
  assert (RW : forall x y, rows_of ch [x; y] = zip2 (rdigits bits k x) (rdigits bits k y)).
  { intros x y. unfold rows_of, pos, rdigits. rewrite HR, zip2_map. reflexivity. }
  apply (chain_block_correct ww sg img ch dspec_cmp [] _ ST PRO DIG EPI
           [a; b] [a; b] (if a <? b then 1 else if a =? b then 2 else 3)); auto.
  intros cvP rows' cvE e _ REL. rewrite RW in REL. rewrite RW.
  destruct (cmp_rel _ _ HF _ _ _ _ _ REL) as [-> ->]. split; [reflexivity|].
  assert (BD : forall x d, In d (rdigits bits k x) -> d < 2 ^ bits).
  { intros x d Id. unfold rdigits in Id. apply in_map_iff in Id. destruct Id as [j [<- _]].
    unfold dg. rewrite N.land_ones. now apply N.mod_upper_bound. }
  rewrite (cmp_lex_correct (2 ^ bits)); [|unfold rdigits; now rewrite !map_length|apply BD|apply BD].
  rewrite !valr_rdigits, <- N.pow_mul_r. now rewrite (N.mod_small a), (N.mod_small b) by assumption.
Qed.

Corollary compose_cmp_inst ww sg img ch blk K kk nn S :
  blk = ch_block ch -> kk = ch_bits ch * N.of_nat (ch_n ch) -> K = 2 ^ kk -> nn = ch_n ch ->
  S = v_cmp kk ->
  ch_rev ch = true -> ch_fall ch = 2 ->
  chain_static ww img ch = true ->
  length (cvars ch) = 2%nat ->
  pro_check ww sg img ch [] = true ->
  (forall i, (i < nn)%nat -> forallb (digit_check ww sg img ch dspec_cmp i) (digit_dom ch i) = true) ->
  epi_all ww sg img ch = true ->
  forall a b, a < K -> b < K -> block_correct ww sg img blk S [a; b].
Proof. intros -> -> -> -> ->. apply compose_cmp. Qed.

(* ------------------------------------------------------------------------------------------- *)
(* hex.if / bit.if n, if0, if1: the zero test of a whole vector                                 *)

Lemma value_zero B l : B <> 0 -> (value B l =? 0) = forallb (fun d => d =? 0) l.
Proof.
  intros NZ. induction l as [|d l IH]; [reflexivity|]. cbn [value forallb]. rewrite <- IH.
  destruct (N.eqb_spec d 0) as [->|ND]; cbn [andb].
  - destruct (N.eqb_spec (value B l) 0) as [->|NV]; [now rewrite N.mul_0_r|].
    apply N.eqb_neq. nia.
  - apply N.eqb_neq. lia.
Qed.

Lemma if_rel cells {fall e} x ds : forall cv rows' cvE,
  chain_rel cells fall (dspec_if x) (map (fun d => [d]) ds) cv rows' cvE e ->
  rows' = map (fun d => [d]) ds /\ e = if forallb (fun d => d =? 0) ds then fall else x.
Proof.
  induction ds as [|d ds IH]; intros cv rows' cvE REL.
  - cbn [map chain_rel] in REL. destruct rows'; [|contradiction]. destruct REL as [_ ->]. auto.
  - cbn [map chain_rel] in REL. destruct rows' as [|r' rows']; [contradiction|].
    destruct REL as [cv1 [exp [dn [E [_ REL]]]]]. cbn [dspec_if] in E. inversion E; subst r' exp dn. clear E.
    cbn [map forallb]. destruct (d =? 0); cbn iota in REL; cbn [andb].
    + destruct (IH cv1 rows' cvE REL) as [-> ->]. auto.
    + destruct REL as [-> [_ ->]]. auto.
Qed.

Theorem compose_if ww sg img ch xz xnz :
  ch_rev ch = false -> ch_fall ch = xz ->
  chain_static ww img ch = true ->
  length (cvars ch) = 1%nat ->
  pro_check ww sg img ch [] = true ->
  (forall i, (i < ch_n ch)%nat -> forallb (digit_check ww sg img ch (dspec_if xnz) i) (digit_dom ch i) = true) ->
  epi_all ww sg img ch = true ->
  forall a, a < 2 ^ (ch_bits ch * N.of_nat (ch_n ch)) ->
  block_correct ww sg img (ch_block ch) (v_if (ch_bits ch * N.of_nat (ch_n ch)) xz xnz) [a].
Proof.
  intros HR HF ST L1 PRO DIG EPI a Ha.
  pose proof (rows_of_fwd1 ch) as RW.
  set (bits := ch_bits ch) in *. set (k := ch_n ch) in *.
  assert (NZ : 2 ^ bits <> 0) by (apply N.pow_nonzero; lia).
  apply (chain_block_correct ww sg img ch (dspec_if xnz) [] _ ST PRO DIG EPI [a] [a] (if a =? 0 then xz else xnz)); auto.
  intros cvP rows' cvE e _ REL.
  rewrite RW in REL by assumption. rewrite RW by assumption.
  destruct (if_rel _ _ _ _ _ _ REL) as [-> ->]. split; [reflexivity|].
  rewrite <- (value_zero (2 ^ bits)) by assumption. rewrite value_digits.
  rewrite <- N.pow_mul_r. rewrite (N.mod_small a) by assumption. now rewrite HF.
Qed.

Corollary compose_if_inst ww sg img ch blk K kk nn xz xnz S :
  blk = ch_block ch -> kk = ch_bits ch * N.of_nat (ch_n ch) -> K = 2 ^ kk -> nn = ch_n ch ->
  S = v_if kk xz xnz ->
  ch_rev ch = false -> ch_fall ch = xz ->
  chain_static ww img ch = true ->
  length (cvars ch) = 1%nat ->
  pro_check ww sg img ch [] = true ->
  (forall i, (i < nn)%nat -> forallb (digit_check ww sg img ch (dspec_if xnz) i) (digit_dom ch i) = true) ->
  epi_all ww sg img ch = true ->
  forall a, a < K -> block_correct ww sg img blk S [a].
Proof. intros -> -> -> -> ->. apply compose_if. Qed.

(* ------------------------------------------------------------------------------------------- *)
(* bit.inc n: the carry is a cell; a step that finds it clear leaves the macro                   *)

Lemma binc_rel cells {fall e} ds : (forall d, In d ds -> d < 2) -> forall c cv rows' cvE rest,
  cv_idx cells cv = c :: rest ->
  chain_rel cells fall dspec_binc (map (fun d => [d]) ds) cv rows' cvE e ->
  rows' = map (fun d => [d]) (if c =? 0 then ds else inc_digits 2 ds).
Proof.
  induction ds as [|d ds IH]; intros H c cv rows' cvE rest CI REL.
  - cbn [map chain_rel] in REL. destruct rows'; [|contradiction]. now destruct (c =? 0).
  - cbn [map chain_rel] in REL. destruct rows' as [|r' rows']; [contradiction|].
    destruct REL as [cv1 [exp [dn [E [P REL]]]]]. rewrite CI in E. cbn [dspec_binc] in E.
    assert (Hd : d < 2) by (apply H; now left).
    destruct (c =? 0).
    + inversion E; subst r' exp dn. destruct REL as [-> _]. reflexivity.
    + inversion E; subst r' exp dn. clear E. cbn iota in REL.
      apply prefixb_one in P. destruct P as [rest1 CI1].
      rewrite (IH (fun x Ix => H x (or_intror Ix)) _ _ _ _ _ CI1 REL).
      cbn [inc_digits]. change (2 - 1) with 1.
      assert (D : d = 0 \/ d = 1) by lia. destruct D as [-> | ->]; reflexivity.
Qed.

Theorem compose_binc ww sg img ch :
  ch_bits ch = 1 ->
  ch_rev ch = false -> ch_fall ch = 0 ->
  chain_static ww img ch = true ->
  length (cvars ch) = 1%nat ->
  pro_check ww sg img ch [1] = true ->
  (forall i, (i < ch_n ch)%nat -> forallb (digit_check ww sg img ch dspec_binc i) (digit_dom ch i) = true) ->
  epi_all ww sg img ch = true ->
  forall a, a < 2 ^ (ch_bits ch * N.of_nat (ch_n ch)) ->
  block_correct ww sg img (ch_block ch) (v_inc (ch_bits ch * N.of_nat (ch_n ch))) [a].
Proof.
  intros HB HR HF ST L1 PRO DIG EPI a Ha.
  pose proof (rows_of_fwd1 ch) as RW. rewrite HB in *.
  set (k := ch_n ch) in *.
  apply (chain_block_correct ww sg img ch dspec_binc [1] _ ST PRO DIG EPI [a] [(a + 1) mod 2 ^ (1 * N.of_nat k)] 0); auto.
  intros cvP rows' cvE e PX REL. split.
  2:{ rewrite <- HF. eapply chain_rel_exit; [|exact REL]. intros r ci r' exp x E. rewrite HF.
      unfold dspec_binc in E. destruct r as [|d [|]]; try discriminate. destruct ci as [|c ci]; try discriminate.
      destruct (c =? 0); inversion E; reflexivity. }
  apply prefixb_one in PX. destruct PX as [rest CI].
  rewrite RW in REL by assumption. rewrite RW by assumption. try rewrite HB in *.
  set (da := map (fun j => dg 1 j a) (seq 0 k)) in *.
  assert (La : length da = k) by (unfold da; now rewrite map_length, seq_length).
  assert (Ba : forall s, In s da -> s < 2).
  { intros s Is. unfold da in Is. apply in_map_iff in Is. destruct Is as [j [<- _]].
    unfold dg. rewrite N.land_ones. now apply N.mod_upper_bound. }
  rewrite (binc_rel _ da Ba 1 cvP rows' cvE rest CI REL). cbn [N.eqb Pos.eqb]. f_equal.
  etransitivity; [symmetry; apply (digits_value 1); now apply inc_digits_lt|].
  rewrite (inc_digits_length 2 da). rewrite La. change (2 ^ 1) with 2. rewrite value_inc by assumption. rewrite La.
  unfold da. change 2 with (2 ^ 1) at 1. rewrite (value_digits 1). change (2 ^ 1) with 2.
  rewrite N.mul_1_l in *. now rewrite (N.mod_small a) by assumption.
Qed.

Corollary compose_binc_inst ww sg img ch blk K kk nn S :
  blk = ch_block ch -> kk = ch_bits ch * N.of_nat (ch_n ch) -> K = 2 ^ kk -> nn = ch_n ch ->
  S = v_inc kk ->
  ch_bits ch = 1 ->
  ch_rev ch = false -> ch_fall ch = 0 ->
  chain_static ww img ch = true ->
  length (cvars ch) = 1%nat ->
  pro_check ww sg img ch [1] = true ->
  (forall i, (i < nn)%nat -> forallb (digit_check ww sg img ch dspec_binc i) (digit_dom ch i) = true) ->
  epi_all ww sg img ch = true ->
  forall a, a < K -> block_correct ww sg img blk S [a].
Proof. intros -> -> -> -> ->. apply compose_binc. Qed.

(* ------------------------------------------------------------------------------------------- *)
(* digit-wise macros that change both operands (xor_zero, swap) or set one (zero)               *)

Lemma map22_rel cells {fall e} f g ds : forall ss cv rows' cvE,
  length ss = length ds -> chain_rel cells fall (dspec_map22 f g) (zip2 ds ss) cv rows' cvE e ->
  rows' = zip2 (zipf f ds ss) (zipf g ds ss).
Proof.
  induction ds as [|d ds IH]; intros [|s ss] cv rows' cvE L REL; cbn [length] in L; try discriminate.
  - cbn [zip2 chain_rel] in REL. destruct rows'; [reflexivity|contradiction].
  - cbn [zip2 chain_rel] in REL. destruct rows' as [|r' rows']; [contradiction|].
    destruct REL as [cv1 [exp [dn [E [_ REL]]]]]. cbn [dspec_map22] in E. inversion E; subst r' exp dn. cbn iota in REL.
    cbn [zipf zip2]. f_equal. eapply IH; [congruence|exact REL].
Qed.

Theorem compose_map22 ww sg img ch f g F G :
  (forall x y j, dg (ch_bits ch) j (F x y) = f (dg (ch_bits ch) j x) (dg (ch_bits ch) j y)) ->
  (forall x y j, dg (ch_bits ch) j (G x y) = g (dg (ch_bits ch) j x) (dg (ch_bits ch) j y)) ->
  ch_rev ch = false -> ch_fall ch = 0 ->
  chain_static ww img ch = true ->
  length (cvars ch) = 2%nat ->
  pro_check ww sg img ch [] = true ->
  (forall i, (i < ch_n ch)%nat -> forallb (digit_check ww sg img ch (dspec_map22 f g) i) (digit_dom ch i) = true) ->
  epi_all ww sg img ch = true ->
  forall a b, block_correct ww sg img (ch_block ch) (v_map22 F G) [a; b].
Proof.
  intros HF HG HR HFL ST L2 PRO DIG EPI a b.
  pose proof (rows_of_fwd2 ch) as RW.
  set (bits := ch_bits ch) in *. set (k := ch_n ch) in *.
  apply (chain_block_correct ww sg img ch (dspec_map22 f g) [] _ ST PRO DIG EPI [a; b] [F a b; G a b] 0); auto.
  intros cvP rows' cvE e _ REL. split.
  2:{ rewrite <- HFL. eapply chain_rel_exit; [|exact REL]. intros r ci r' exp x E.
      unfold dspec_map22 in E. destruct r as [|? [|? [|]]]; discriminate. }
  rewrite RW in REL by assumption. rewrite RW by assumption.
  rewrite (map22_rel _ _ _ _ _ _ _ _ (eq_trans (map_length _ _) (eq_sym (map_length _ _))) REL).
  rewrite !zipf_map. f_equal; apply map_ext; intros j; symmetry; [apply HF|apply HG].
Qed.

Corollary compose_map22_inst ww sg img ch blk bits nn f g F G S :
  (forall x y j, dg bits j (F x y) = f (dg bits j x) (dg bits j y)) ->
  (forall x y j, dg bits j (G x y) = g (dg bits j x) (dg bits j y)) ->
  blk = ch_block ch -> bits = ch_bits ch -> nn = ch_n ch -> S = v_map22 F G ->
  ch_rev ch = false -> ch_fall ch = 0 ->
  chain_static ww img ch = true ->
  length (cvars ch) = 2%nat ->
  pro_check ww sg img ch [] = true ->
  (forall i, (i < nn)%nat -> forallb (digit_check ww sg img ch (dspec_map22 f g) i) (digit_dom ch i) = true) ->
  epi_all ww sg img ch = true ->
  forall a b, block_correct ww sg img blk S [a; b].
Proof. intros HF HG -> -> -> ->. now apply compose_map22. Qed.

Lemma dg_zero bits j : dg bits j 0 = 0.
Proof. unfold dg. now rewrite N.shiftr_0_l, N.land_0_l. Qed.

(* dst ^= src ; src = 0 *)
Definition compose_xor_zero_inst ww sg img ch blk bits nn S :=
  compose_map22_inst ww sg img ch blk bits nn N.lxor (fun _ _ => 0) N.lxor (fun _ _ => 0) S
    (dg_lxor bits) (fun _ _ j => dg_zero bits j).
(* a, b = b, a *)
Definition compose_swap_inst ww sg img ch blk bits nn S :=
  compose_map22_inst ww sg img ch blk bits nn (fun _ s => s) (fun d _ => d) (fun _ s => s) (fun d _ => d) S
    (fun _ _ _ => eq_refl) (fun _ _ _ => eq_refl).

Theorem compose_map1 ww sg img ch f F :
  (forall x j, dg (ch_bits ch) j (F x) = f (dg (ch_bits ch) j x)) ->
  ch_rev ch = false -> ch_fall ch = 0 ->
  chain_static ww img ch = true ->
  length (cvars ch) = 1%nat ->
  pro_check ww sg img ch [] = true ->
  (forall i, (i < ch_n ch)%nat -> forallb (digit_check ww sg img ch (dspec_map1 f) i) (digit_dom ch i) = true) ->
  epi_all ww sg img ch = true ->
  forall a, block_correct ww sg img (ch_block ch) (v_map1 F) [a].
Proof.
  intros HF HR HFL ST L1 PRO DIG EPI a.
  pose proof (rows_of_fwd1 ch) as RW.
  set (bits := ch_bits ch) in *. set (k := ch_n ch) in *.
  apply (chain_block_correct ww sg img ch (dspec_map1 f) [] _ ST PRO DIG EPI [a] [F a] 0); auto.
  intros cvP rows' cvE e _ REL. split.
  2:{ rewrite <- HFL. eapply chain_rel_exit; [|exact REL]. intros r ci r' exp x E.
      unfold dspec_map1 in E. destruct r as [|? [|]]; discriminate. }
  rewrite RW in REL by assumption. rewrite RW by assumption.
  rewrite (map1_rel _ _ _ _ _ _ REL). rewrite !map_map. apply map_ext. intros j. now rewrite HF.
Qed.

Corollary compose_map1_inst ww sg img ch blk bits nn f F S :
  (forall x j, dg bits j (F x) = f (dg bits j x)) ->
  blk = ch_block ch -> bits = ch_bits ch -> nn = ch_n ch -> S = v_map1 F ->
  ch_rev ch = false -> ch_fall ch = 0 ->
  chain_static ww img ch = true ->
  length (cvars ch) = 1%nat ->
  pro_check ww sg img ch [] = true ->
  (forall i, (i < nn)%nat -> forallb (digit_check ww sg img ch (dspec_map1 f) i) (digit_dom ch i) = true) ->
  epi_all ww sg img ch = true ->
  forall a, block_correct ww sg img blk S [a].
Proof. intros HF -> -> -> ->. now apply compose_map1. Qed.

(* x[:n] = 0 *)
Definition compose_zero_inst ww sg img ch blk bits nn S :=
  compose_map1_inst ww sg img ch blk bits nn (fun _ => 0) (fun _ => 0) S (fun _ j => dg_zero bits j).
