(* Proofs about the device<->memory hook model (Model/DevMem.v). *)
From FJ Require Import Lib.Base Lib.Bits Spec.MachineSpec Model.DevMem.
Local Open Scope N_scope.

(* ---- the view: read after write -------------------------------------------------------------------------- *)

Lemma read_write_same ww ad d a v :
  read_word ww ad (write_word ww ad d a v) a = N.land v (wmask ww).
Proof. unfold read_word, write_word; simpl. apply mget0_mset_same. Qed.

Lemma read_write_other ww ad d a b v :
  norm ww ad a <> norm ww ad b ->
  read_word ww ad (write_word ww ad d a v) b = read_word ww ad d b.
Proof. intros H. unfold read_word, write_word; simpl. now apply mget0_mset_other. Qed.

Lemma write_inseg_sg ww ad d a v :
  valid (v_sg d) (norm ww ad a) = true -> v_sg (write_word ww ad d a v) = v_sg d.
Proof. intros H. unfold write_word; simpl. destruct ad; [now rewrite H|reflexivity]. Qed.

(* what the program's own word read (MachineSpec.rdw) returns after an in-segment device write *)
Lemma program_sees_write ww ad d a v :
  valid (v_sg d) (norm ww ad a) = true ->
  let d' := write_word ww ad d a v in
  rdw (v_sg d') (v_m d') (norm ww ad a) = Some (N.land v (wmask ww)) /\
  (forall b, b <> norm ww ad a -> rdw (v_sg d') (v_m d') b = rdw (v_sg d) (v_m d) b).
Proof.
  intros H d'. subst d'. rewrite (write_inseg_sg _ _ _ _ _ H). split.
  - unfold rdw. rewrite H. unfold write_word; simpl. now rewrite mget0_mset_same.
  - intros b Hb. unfold rdw. destruct (valid (v_sg d) b); [|reflexivity].
    unfold write_word; simpl. rewrite mget0_mset_other by congruence. reflexivity.
Qed.

Theorem view_consistent ww ad d a v :
  valid (v_sg d) (norm ww ad a) = true ->
  let d' := write_word ww ad d a v in
  read_word ww ad d' a = N.land v (wmask ww) /\
  (forall b, norm ww ad b <> norm ww ad a -> read_word ww ad d' b = read_word ww ad d b) /\
  rdw (v_sg d') (v_m d') (norm ww ad a) = Some (N.land v (wmask ww)) /\
  (forall b, b <> norm ww ad a -> rdw (v_sg d') (v_m d') b = rdw (v_sg d) (v_m d) b) /\
  (forall b, valid (v_sg d') b = valid (v_sg d) b).
Proof.
  intros H d'. subst d'. split; [apply read_write_same|]. split.
  { intros b Hb. apply read_write_other. congruence. }
  destruct (program_sees_write ww ad d a v H) as [P1 P2]. split; [exact P1|]. split; [exact P2|].
  intros b. now rewrite (write_inseg_sg _ _ _ _ _ H).
Qed.

(* an in-segment word that was never written reads 0 (the map has no entry) *)
Lemma read_unwritten ww ad d a : mget (v_m d) (norm ww ad a) = None -> read_word ww ad d a = 0.
Proof. intros H. unfold read_word, mget0. now rewrite H. Qed.

(* ---- the packed data byte --------------------------------------------------------------------------------- *)

Lemma pow2_ge_lin n : 4 <= n -> n + 9 <= 2 ^ n.
Proof.
  intros H. replace n with (4 + (n - 4)) by lia. generalize (n - 4). clear. intros k.
  rewrite N.pow_add_r. change (2 ^ 4) with 16.
  assert (k < 2 ^ k) by (apply N.pow_gt_lin_r; lia). lia.
Qed.

Lemma testbit_255 j : N.testbit 255 j = (j <? 8).
Proof. change 255 with (N.ones 8). apply ones_testbit. Qed.

Lemma shiftl_testbit a n i : N.testbit (N.shiftl a n) i = (n <=? i) && N.testbit a (i - n).
Proof.
  destruct (N.leb_spec n i).
  - now rewrite N.shiftl_spec_high' by assumption.
  - now rewrite N.shiftl_spec_low by assumption.
Qed.

(* the word stored by write_data_byte, bit by bit *)
Lemma data_byte_word_bits ww old v i :
  4 <= ww ->
  N.testbit (N.land (N.lor (N.ldiff old (N.shiftl 255 (dbit ww))) (N.shiftl (N.land v 255) (dbit ww))) (wmask ww)) i =
  if (dbit ww <=? i) && (i <? dbit ww + 8) then N.testbit v (i - dbit ww)
  else N.testbit (N.land old (wmask ww)) i.
Proof.
  intros Hw. pose proof (pow2_ge_lin ww Hw) as Hp.
  unfold wmask, MachineSpec.w, dbit in *. rewrite shiftl_1_pow2.
  rewrite !N.land_spec, N.lor_spec, N.ldiff_spec, !shiftl_testbit, N.land_spec, !testbit_255, ones_testbit.
  destruct (N.leb_spec (ww + 1) i) as [H1|H1]; simpl.
  - destruct (N.ltb_spec i (ww + 1 + 8)) as [H2|H2].
    + replace (i - (ww + 1) <? 8) with true by (symmetry; apply N.ltb_lt; lia).
      replace (i <? 2 ^ ww) with true by (symmetry; apply N.ltb_lt; lia).
      simpl. now rewrite andb_false_r, andb_true_r, andb_true_r.
    + replace (i - (ww + 1) <? 8) with false by (symmetry; apply N.ltb_ge; lia).
      simpl. now rewrite andb_false_r, andb_true_r, orb_false_r.
  - now rewrite andb_true_r, orb_false_r.
Qed.

Theorem data_byte ww ad d op v :
  4 <= ww ->
  let a := jump_word_address ww op in
  let d' := write_data_byte ww ad d op v in
  read_data_byte ww ad d' op = N.land v 255 /\
  (forall i, i < dbit ww \/ dbit ww + 8 <= i ->
     N.testbit (read_word ww ad d' a) i = N.testbit (N.land (read_word ww ad d a) (wmask ww)) i) /\
  (forall i, i < 8 -> N.testbit (read_word ww ad d' a) (dbit ww + i) = N.testbit v i) /\
  (forall b, norm ww ad b <> norm ww ad a -> read_word ww ad d' b = read_word ww ad d b).
Proof.
  intros Hw a d'. subst a d'. unfold write_data_byte. split; [|split; [|split]].
  - unfold read_data_byte, write_data_byte. rewrite read_write_same.
    apply N.bits_inj; intros i. rewrite !N.land_spec, N.shiftr_spec', testbit_255.
    rewrite data_byte_word_bits by exact Hw.
    destruct (N.ltb_spec i 8) as [Hi|Hi]; [|now rewrite !andb_false_r].
    rewrite !andb_true_r.
    replace ((dbit ww <=? i + dbit ww) && (i + dbit ww <? dbit ww + 8)) with true.
    + f_equal. lia.
    + symmetry. apply andb_true_iff. split; [apply N.leb_le|apply N.ltb_lt]; lia.
  - intros i Hi. rewrite read_write_same, data_byte_word_bits by exact Hw.
    replace ((dbit ww <=? i) && (i <? dbit ww + 8)) with false; [reflexivity|].
    symmetry. apply andb_false_iff. destruct Hi; [left; apply N.leb_gt|right; apply N.ltb_ge]; lia.
  - intros i Hi. rewrite read_write_same, data_byte_word_bits by exact Hw.
    replace ((dbit ww <=? dbit ww + i) && (dbit ww + i <? dbit ww + 8)) with true.
    + f_equal. lia.
    + symmetry. apply andb_true_iff. split; [apply N.leb_le|apply N.ltb_lt]; lia.
  - intros b Hb. apply read_write_other. congruence.
Qed.

(* the byte occupies bits #w .. #w+7, which lie inside the w-bit word when w >= 16 *)
Lemma data_byte_fits ww : 4 <= ww -> dbit ww + 8 <= MachineSpec.w ww.
Proof. intros H. unfold dbit, MachineSpec.w. rewrite shiftl_1_pow2. pose proof (pow2_ge_lin ww H). lia. Qed.

(* ---- an idle device does not perturb the machine ------------------------------------------------------------ *)

Definition lift_step (x : dx) (r : st + (cause * st)) : (st * dx) + (cause * st * dx) :=
  match r with inl s' => inl (s', x) | inr (c, s') => inr (c, s', x) end.

Lemma io_call_nil ww ad mm x : x_script x = [] -> io_call ww ad mm x = (mm, x).
Proof. intros H. unfold io_call. now rewrite H. Qed.

Lemma dstep_nil ww ad s x :
  x_script x = [] -> dstep ww ad s x = lift_step x (step ww (x_sg x) s).
Proof.
  intros H. unfold dstep, step.
  destruct (get_word ww (x_sg x) (m s) (ip s)) as [a|f]; [reflexivity|].
  replace (if is_output ww f then io_call ww ad (m s) x else (m s, x)) with (m s, x)
    by (destruct (is_output ww f); [now rewrite io_call_nil|reflexivity]).
  cbv zeta. destruct (covers_input ww (ip s)).
  - rewrite io_call_nil by exact H. destruct (inp s) as [|b rest]; [reflexivity|].
    destruct (rdw (x_sg x) (m s) (N.shiftr (in_addr ww) ww)) as [v|]; [|reflexivity].
    destruct (rdw (x_sg x) _ (N.shiftr f ww)) as [v2|]; [|reflexivity].
    destruct (get_word ww (x_sg x) _ (ip s + MachineSpec.w ww)) as [a|j]; [reflexivity|].
    destruct ((j =? ip s) && negb ((ip s <=? f) && (f <? ip s + dw ww))); [reflexivity|].
    destruct (j <? dw ww); reflexivity.
  - destruct (rdw (x_sg x) _ (N.shiftr f ww)) as [v2|]; [|reflexivity].
    destruct (get_word ww (x_sg x) _ (ip s + MachineSpec.w ww)) as [a|j]; [reflexivity|].
    destruct ((j =? ip s) && negb ((ip s <=? f) && (f <? ip s + dw ww))); [reflexivity|].
    destruct (j <? dw ww); reflexivity.
Qed.

Theorem no_device_no_change ww ad fuel s x :
  x_script x = [] ->
  drun ww ad fuel s x = (let '(c, s') := run ww (x_sg x) fuel s in (c, s', x)).
Proof.
  revert s. induction fuel as [|k IH]; intros s H; [reflexivity|].
  simpl. rewrite dstep_nil by exact H.
  destruct (step ww (x_sg x) s) as [s'|[c s']]; simpl; [now apply IH|reflexivity].
Qed.

(* ---- in-segment scripts: both adapters (hence every engine) behave identically ---------------------------------- *)

Lemma valid_bound ww sg a :
  segs_bounded ww sg = true -> valid sg a = true -> a < 2 ^ MachineSpec.w ww /\ a < 2 ^ 64.
Proof.
  unfold segs_bounded, valid. rewrite forallb_forall, existsb_exists.
  intros Hb [s [Hin Hs]]. specialize (Hb s Hin).
  apply andb_true_iff in Hb, Hs. destruct Hb as [B1 B2], Hs as [S1 S2].
  apply N.leb_le in B1, B2, S1. apply N.ltb_lt in S2. lia.
Qed.

Lemma norm_inseg ww ad sg a :
  segs_bounded ww sg = true -> valid sg a = true -> norm ww ad a = a.
Proof.
  intros Hb Hv. destruct (valid_bound ww sg a Hb Hv) as [H1 H2].
  unfold norm, wmask. destruct ad; now apply land_ones_small.
Qed.

Lemma read_word_indep ww sg d a :
  segs_bounded ww sg = true -> valid sg a = true ->
  read_word ww AdReader d a = read_word ww AdNative d a.
Proof. intros Hb Hv. unfold read_word. now rewrite !(norm_inseg ww _ sg a Hb Hv). Qed.

Lemma write_word_indep ww sg d a v :
  segs_bounded ww sg = true -> v_sg d = sg -> valid sg a = true ->
  write_word ww AdReader d a v = write_word ww AdNative d a v /\ v_sg (write_word ww AdNative d a v) = sg.
Proof.
  intros Hb Hd Hv. unfold write_word. rewrite !(norm_inseg ww _ sg a Hb Hv). simpl.
  rewrite Hd, Hv. now split.
Qed.

Lemma do_action_indep ww sg d lg act :
  segs_bounded ww sg = true -> v_sg d = sg -> action_inseg ww sg act = true ->
  do_action ww AdReader (d, lg) act = do_action ww AdNative (d, lg) act /\
  v_sg (fst (do_action ww AdNative (d, lg) act)) = sg.
Proof.
  intros Hb Hd Ha. unfold action_inseg in Ha. destruct act as [a|a v|op|op v]; simpl in *.
  - now rewrite (read_word_indep ww sg d a Hb Ha).
  - destruct (write_word_indep ww sg d a v Hb Hd Ha) as [E1 E2]. now rewrite E1.
  - destruct (byte_capable ww); simpl; [|now split].
    unfold read_data_byte. now rewrite (read_word_indep ww sg d _ Hb Ha).
  - destruct (byte_capable ww); simpl; [|now split].
    unfold write_data_byte. rewrite (read_word_indep ww sg d _ Hb Ha).
    destruct (write_word_indep ww sg d (jump_word_address ww op)
                (N.lor (N.ldiff (read_word ww AdNative d (jump_word_address ww op)) (N.shiftl 255 (dbit ww)))
                       (N.shiftl (N.land v 255) (dbit ww))) Hb Hd Ha) as [E1 E2].
    now rewrite E1.
Qed.

Lemma do_actions_cons ww ad act acts dl :
  do_actions ww ad (act :: acts) dl = do_actions ww ad acts (do_action ww ad dl act).
Proof. reflexivity. Qed.

Lemma do_actions_indep ww sg acts : forall d lg,
  segs_bounded ww sg = true -> v_sg d = sg -> forallb (action_inseg ww sg) acts = true ->
  do_actions ww AdReader acts (d, lg) = do_actions ww AdNative acts (d, lg) /\
  v_sg (fst (do_actions ww AdNative acts (d, lg))) = sg.
Proof.
  induction acts as [|act acts IH]; intros d lg Hb Hd Ha; [now split|].
  simpl in Ha. apply andb_true_iff in Ha. destruct Ha as [Ha1 Ha2].
  rewrite !do_actions_cons.
  destruct (do_action_indep ww sg d lg act Hb Hd Ha1) as [E1 E2]. rewrite E1.
  destruct (do_action ww AdNative (d, lg) act) as [d1 lg1]. simpl in E2.
  now apply IH.
Qed.

Definition good (ww : N) (sg : list (N * N)) (x : dx) : Prop :=
  x_sg x = sg /\ script_inseg ww sg (x_script x) = true.

Lemma io_call_indep ww sg mm x :
  segs_bounded ww sg = true -> good ww sg x ->
  io_call ww AdReader mm x = io_call ww AdNative mm x /\ good ww sg (snd (io_call ww AdNative mm x)).
Proof.
  intros Hb [G1 G2]. unfold io_call. destruct (x_script x) as [|acts rest] eqn:E.
  - split; [reflexivity|]. simpl. split; [exact G1|]. now rewrite E.
  - unfold script_inseg in G2. simpl in G2. apply andb_true_iff in G2. destruct G2 as [G2 G3].
    destruct (do_actions_indep ww sg acts (mkdv mm (x_sg x)) (x_log x) Hb G1 G2) as [E1 E2].
    rewrite E1. destruct (do_actions ww AdNative acts (mkdv mm (x_sg x), x_log x)) as [d lg].
    simpl in *. split; [reflexivity|]. split; [exact E2|exact G3].
Qed.

Lemma dstep_indep ww sg s x :
  segs_bounded ww sg = true -> good ww sg x ->
  dstep ww AdReader s x = dstep ww AdNative s x /\
  (forall s' x', dstep ww AdNative s x = inl (s', x') -> good ww sg x').
Proof.
  intros Hb G. unfold dstep.
  destruct (get_word ww (x_sg x) (m s) (ip s)) as [a|f]; [split; [reflexivity|discriminate]|].
  assert (P1 : (if is_output ww f then io_call ww AdReader (m s) x else (m s, x)) =
               (if is_output ww f then io_call ww AdNative (m s) x else (m s, x)) /\
               good ww sg (snd (if is_output ww f then io_call ww AdNative (m s) x else (m s, x)))).
  { destruct (is_output ww f); [now apply io_call_indep|now split]. }
  destruct P1 as [P1 G1]. rewrite P1.
  destruct (if is_output ww f then io_call ww AdNative (m s) x else (m s, x)) as [m1 x1]. simpl in G1.
  cbv zeta. destruct (covers_input ww (ip s)).
  - destruct (io_call_indep ww sg m1 x1 Hb G1) as [P2 G2]. rewrite P2.
    destruct (io_call ww AdNative m1 x1) as [m2 x2]. simpl in G2.
    split; [reflexivity|]. intros s' x'.
    destruct (inp s) as [|b rest]; [discriminate|].
    destruct (rdw (x_sg x2) m2 (N.shiftr (in_addr ww) ww)) as [v|]; [|discriminate].
    destruct (rdw (x_sg x2) _ (N.shiftr f ww)) as [v2|]; [|discriminate].
    destruct (get_word ww (x_sg x2) _ (ip s + MachineSpec.w ww)) as [a|j]; [discriminate|].
    destruct ((j =? ip s) && negb ((ip s <=? f) && (f <? ip s + dw ww))); [discriminate|].
    destruct (j <? dw ww); [discriminate|]. intros E; inversion E; subst. exact G2.
  - split; [reflexivity|]. intros s' x'.
    destruct (rdw (x_sg x1) _ (N.shiftr f ww)) as [v2|]; [|discriminate].
    destruct (get_word ww (x_sg x1) _ (ip s + MachineSpec.w ww)) as [a|j]; [discriminate|].
    destruct ((j =? ip s) && negb ((ip s <=? f) && (f <? ip s + dw ww))); [discriminate|].
    destruct (j <? dw ww); [discriminate|]. intros E; inversion E; subst. exact G1.
Qed.

Theorem adapter_independent ww sg fuel : forall s x,
  segs_bounded ww sg = true -> x_sg x = sg -> script_inseg ww sg (x_script x) = true ->
  drun ww AdReader fuel s x = drun ww AdNative fuel s x.
Proof.
  induction fuel as [|k IH]; intros s x Hb H1 H2; [reflexivity|].
  simpl. destruct (dstep_indep ww sg s x Hb (conj H1 H2)) as [E G]. rewrite E.
  destruct (dstep ww AdNative s x) as [[s' x']|r] eqn:D; [|reflexivity].
  destruct (G s' x' eq_refl) as [G1 G2]. now apply IH.
Qed.

(* the validity list is never changed by in-segment device traffic: the program keeps faulting exactly where the
   image says (no address becomes readable or unreadable) *)
Lemma run_keeps_segments ww sg fuel : forall s x c s' x',
  segs_bounded ww sg = true -> x_sg x = sg -> script_inseg ww sg (x_script x) = true ->
  drun ww AdNative fuel s x = (c, s', x') -> x_sg x' = sg.
Proof.
  intros s x c s' x' _ H _. revert s x H.
  assert (K : forall acts d lg, v_sg (fst (do_actions ww AdNative acts (d, lg))) = v_sg d).
  { induction acts as [|act acts IHa]; intros d lg; [reflexivity|].
    rewrite do_actions_cons.
    destruct (do_action ww AdNative (d, lg) act) as [d1 lg1] eqn:E. rewrite IHa.
    destruct act; simpl in E; try destruct (byte_capable ww); inversion E; reflexivity. }
  assert (Kio : forall mm x, x_sg (snd (io_call ww AdNative mm x)) = x_sg x).
  { intros mm x. unfold io_call. destruct (x_script x) as [|acts rest]; [reflexivity|].
    specialize (K acts (mkdv mm (x_sg x)) (x_log x)).
    destruct (do_actions ww AdNative acts (mkdv mm (x_sg x), x_log x)) as [d lg]. exact K. }
  induction fuel as [|k IH]; intros s x H E.
  - simpl in E. inversion E; subst. reflexivity.
  - simpl in E. unfold dstep in E.
    destruct (get_word ww (x_sg x) (m s) (ip s)) as [a|f]; [inversion E; subst; reflexivity|].
    assert (G1 : x_sg (snd (if is_output ww f then io_call ww AdNative (m s) x else (m s, x))) = sg).
    { destruct (is_output ww f); [now rewrite Kio|exact H]. }
    destruct (if is_output ww f then io_call ww AdNative (m s) x else (m s, x)) as [m1 x1]. simpl in G1.
    cbv zeta in E. destruct (covers_input ww (ip s)).
    + pose proof (Kio m1 x1) as G2. destruct (io_call ww AdNative m1 x1) as [m2 x2]. simpl in G2. rewrite G1 in G2.
      destruct (inp s) as [|b rest]; [inversion E; subst; exact G2|].
      destruct (rdw (x_sg x2) m2 (N.shiftr (in_addr ww) ww)) as [v|]; [|inversion E; subst; exact G2].
      destruct (rdw (x_sg x2) _ (N.shiftr f ww)) as [v2|]; [|inversion E; subst; exact G2].
      destruct (get_word ww (x_sg x2) _ (ip s + MachineSpec.w ww)) as [a|j]; [inversion E; subst; exact G2|].
      destruct ((j =? ip s) && negb ((ip s <=? f) && (f <? ip s + dw ww))); [inversion E; subst; exact G2|].
      destruct (j <? dw ww); [inversion E; subst; exact G2|]. eapply IH; [exact G2|exact E].
    + destruct (rdw (x_sg x1) _ (N.shiftr f ww)) as [v2|]; [|inversion E; subst; exact G1].
      destruct (get_word ww (x_sg x1) _ (ip s + MachineSpec.w ww)) as [a|j]; [inversion E; subst; exact G1|].
      destruct ((j =? ip s) && negb ((ip s <=? f) && (f <? ip s + dw ww))); [inversion E; subst; exact G1|].
      destruct (j <? dw ww); [inversion E; subst; exact G1|]. eapply IH; [exact G1|exact E].
Qed.
