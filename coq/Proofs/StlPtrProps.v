(* C08: soundness of the pointer-block checker (frame equation + pointer-cell consistency) and the lifting of
   an enumeration over explicit-list operand domains to the universally quantified statement. *)
From FJ Require Import Lib.Base Spec.MachineSpec Spec.StlSpec Spec.StlPtrSpec Model.StlRun Model.StlPtrRun
     Proofs.MachineProps Proofs.StlProps.
Local Open Scope N_scope.

(* ---- the consistency clause ---- *)

Lemma ptr_consistent_b_sound ww pcs mm : ptr_consistent_b ww pcs mm = true -> ptr_consistent ww pcs mm.
Proof.
  unfold ptr_consistent_b, ptr_consistent. rewrite forallb_forall, Forall_forall.
  intros H p I. apply N.eqb_eq. now apply H.
Qed.

Lemma ptr_consistent_b_complete ww pcs mm : ptr_consistent ww pcs mm -> ptr_consistent_b ww pcs mm = true.
Proof.
  unfold ptr_consistent_b, ptr_consistent. rewrite forallb_forall, Forall_forall.
  intros H p I. apply N.eqb_eq. now apply H.
Qed.

(* ---- the checker decides the statement ---- *)

Theorem check_ptr_block_sound ww sg img b pcs S vs :
  check_ptr_block ww sg img b pcs S vs = true -> ptr_block_correct ww sg img b pcs S vs.
Proof.
  unfold check_ptr_block, ptr_block_correct.
  destruct (S vs) as [[vs' x]|]; [|trivial].
  destruct (nth_error (b_exits b) (N.to_nat x)) as [[xa marker]|]; [|discriminate].
  destruct (run_pow ww sg (b_depth b) (init (start_mem ww img b vs) []) []) as [s wl|c s wl] eqn:R; [discriminate|].
  destruct c; try discriminate.
  intros H.
  apply andb_prop in H. destruct H as [H Hc].
  apply andb_prop in H. destruct H as [H Hv].
  apply andb_prop in H. destruct H as [H Hw].
  apply andb_prop in H. destruct H as [H _].
  apply andb_prop in H. destruct H as [Hip Hout].
  apply run_pow_halt in R. destruct R as [[k Rk] F].
  exists xa, marker, k, s. repeat split; auto.
  - now apply N.eqb_eq.
  - now apply out_is_eq.
  - intros a. rewrite forallb_forall in Hw, Hv.
    destruct (in_dec N.eq_dec a (0 :: 1 :: vars_words (b_vars b))) as [J|NJ]; [exact (Hv a J)|].
    assert (NJ' : ~ In a (1 :: vars_words (b_vars b))) by (intros X; apply NJ; right; exact X).
    destruct (in_dec N.eq_dec a wl) as [I|NI].
    { specialize (Hw a I). destruct a; [exfalso; apply NJ; left; reflexivity|exact Hw]. }
    unfold mget0. rewrite (F a NI). cbn [m init].
    rewrite (start_mem_frame ww img b vs vs' a NJ'). apply eq_mod_refl.
  - now apply ptr_consistent_b_sound.
Qed.

(* the C08 statement contains the C04/C05 frame equation *)
Theorem ptr_block_correct_frame ww sg img b pcs S vs :
  ptr_block_correct ww sg img b pcs S vs -> block_correct ww sg img b S vs.
Proof.
  unfold ptr_block_correct, block_correct. destruct (S vs) as [[vs' x]|]; [|trivial].
  intros [xa [marker [k [s [H1 [H2 [H3 [H4 [H5 _]]]]]]]]]. exists xa, marker, k, s. auto.
Qed.

(* and the consistency of the pointer cells in the final memory *)
Theorem ptr_block_correct_consistent ww sg img b pcs S vs vs' x :
  S vs = Some (vs', x) -> ptr_block_correct ww sg img b pcs S vs ->
  exists k s, run ww sg k (init (start_mem ww img b vs) []) = (Looping, s) /\ ptr_consistent ww pcs s.(m).
Proof.
  unfold ptr_block_correct. intros E. rewrite E.
  intros [xa [marker [k [s [H1 [H2 [H3 [H4 [H5 H6]]]]]]]]]. exists k, s. auto.
Qed.

(* ---- explicit-list domains ---- *)

Lemma enum_ldom_In ls : forall vs, in_ldom ls vs -> In vs (enum_ldom ls).
Proof.
  induction ls as [|l ls IH]; intros vs H; inversion H; subst; cbn [enum_ldom].
  - left; reflexivity.
  - apply in_flat_map. exists x. split; [assumption|]. apply in_map. apply IH. assumption.
Qed.

Lemma enum_udom_In ds vs : in_udom ds vs -> In vs (enum_udom ds).
Proof.
  unfold in_udom, enum_udom. rewrite Exists_exists. intros [d [I H]].
  apply in_flat_map. exists d. split; [assumption|]. now apply enum_ldom_In.
Qed.

Lemma ldom_forallb (f : list N -> bool) ls :
  forallb f (enum_ldom ls) = true -> forall vs, in_ldom ls vs -> f vs = true.
Proof. intros H vs D. rewrite forallb_forall in H. apply H. now apply enum_ldom_In. Qed.

(* the lifting used by every generated C08 instance theorem *)
Theorem ptr_blocks_by_list_enumeration ww sg img b pcs S ls :
  forallb (check_ptr_block ww sg img b pcs S) (enum_ldom ls) = true ->
  forall vs, in_ldom ls vs -> ptr_block_correct ww sg img b pcs S vs.
Proof. intros H vs D. apply check_ptr_block_sound. now apply (ldom_forallb _ ls). Qed.

Theorem ptr_blocks_by_union_enumeration ww sg img b pcs S ds :
  forallb (check_ptr_block ww sg img b pcs S) (enum_udom ds) = true ->
  forall vs, in_udom ds vs -> ptr_block_correct ww sg img b pcs S vs.
Proof.
  intros H vs D. apply check_ptr_block_sound. rewrite forallb_forall in H. apply H. now apply enum_udom_In.
Qed.

(* a product cut in two along the value list of its first operand / of any operand *)
Lemma ldom_split (P : list N -> Prop) l1 l2 rs :
  (forall vs, in_ldom (l1 :: rs) vs -> P vs) -> (forall vs, in_ldom (l2 :: rs) vs -> P vs) ->
  forall vs, in_ldom ((l1 ++ l2) :: rs) vs -> P vs.
Proof.
  intros A B vs H. inversion H; subst.
  match goal with I : In _ (l1 ++ l2) |- _ => apply in_app_or in I; destruct I end.
  - apply A. constructor; assumption.
  - apply B. constructor; assumption.
Qed.

Lemma ldom_split_at pre : forall (P : list N -> Prop) l1 l2 rs,
  (forall vs, in_ldom (pre ++ l1 :: rs) vs -> P vs) -> (forall vs, in_ldom (pre ++ l2 :: rs) vs -> P vs) ->
  forall vs, in_ldom (pre ++ (l1 ++ l2) :: rs) vs -> P vs.
Proof.
  induction pre as [|r pre IH]; intros P l1 l2 rs A B vs H.
  - now apply (ldom_split P l1 l2 rs).
  - cbn [app] in *. inversion H; subst.
    apply (IH (fun t => P (x :: t)) l1 l2 rs); [| |assumption].
    + intros t Ht. apply A. constructor; assumption.
    + intros t Ht. apply B. constructor; assumption.
Qed.

(* the value list of one operand replaced by an equal list (the concatenation of its shards; the equality is a
   separate vm_compute lemma, so no large list is ever compared by the unifier) *)
Lemma ldom_recut pre (P : list N -> Prop) l l' rs :
  l = l' -> (forall vs, in_ldom (pre ++ l' :: rs) vs -> P vs) -> forall vs, in_ldom (pre ++ l :: rs) vs -> P vs.
Proof. intros E H. subst. exact H. Qed.

(* a union is proved product by product *)
Lemma udom_nil (P : list N -> Prop) : forall vs, in_udom [] vs -> P vs.
Proof. intros vs H. inversion H. Qed.

Lemma udom_cons (P : list N -> Prop) d ds :
  (forall vs, in_ldom d vs -> P vs) -> (forall vs, in_udom ds vs -> P vs) -> forall vs, in_udom (d :: ds) vs -> P vs.
Proof. intros A B vs H. inversion H; subst; [now apply A | now apply B]. Qed.

(* half-open ranges (C04/C05 domains) are explicit lists *)
Lemma in_dom_ldom rs : forall vs, in_dom rs vs -> in_ldom (map (fun r => range (fst r) (snd r)) rs) vs.
Proof.
  induction rs as [|r rs IH]; intros vs H; inversion H; subst; cbn [map]; constructor.
  - now apply range_In.
  - now apply IH.
Qed.

(* readable forms *)
Lemma in_ldom1 a A : In a A -> in_ldom [A] [a].
Proof. intros; repeat constructor; assumption. Qed.
Lemma in_ldom2 a b A B : In a A -> In b B -> in_ldom [A; B] [a; b].
Proof. intros; repeat constructor; assumption. Qed.
Lemma in_ldom3 a b c A B C : In a A -> In b B -> In c C -> in_ldom [A; B; C] [a; b; c].
Proof. intros; repeat constructor; assumption. Qed.
Lemma in_ldom4 a b c d A B C D : In a A -> In b B -> In c C -> In d D -> in_ldom [A; B; C; D] [a; b; c; d].
Proof. intros; repeat constructor; assumption. Qed.

Lemma from_In lo n v : lo <= v < lo + N.of_nat n -> In v (from lo n).
Proof.
  intros H. unfold from. apply in_map_iff. exists (N.to_nat (v - lo)). split; [lia|].
  apply in_seq. lia.
Qed.

Lemma addrs_In base step k i : (i < k)%nat -> In (base + step * N.of_nat i) (addrs base step k).
Proof. intros H. unfold addrs. apply in_map_iff. exists i. split; [reflexivity|]. apply in_seq. lia. Qed.

(* ---- the abstract stack is last-in-first-out ---- *)
(* pushing the operands at positions srcs (in that order) and popping into pairwise distinct positions dsts returns
   the pushed values in reverse order: the value pushed last comes out first *)
Lemma stack_run_push_pop1 k i j vs : stack_run [Push k i; Pop k j] [] vs = Some (upd_nth vs j (nth i vs 0)).
Proof.
  cbn [stack_run]. destruct k as [| |n]; cbn [skind_eqb]; try reflexivity. now rewrite N.eqb_refl.
Qed.
