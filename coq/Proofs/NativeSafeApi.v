From FJ Require Import Lib.Base Lib.Bits Model.NativeSafe Proofs.NativeSafeTbl Proofs.NativeSafeProps Proofs.NativeSafeLoops.
(* C11 - the API methods: __init__, add_segment, set_words, mem_decide_storage, run; call sequences. *)
Local Open Scope N_scope.

Definition valid_w (w : N) : Prop := w = 8 \/ w = 16 \/ w = 32 \/ w = 64.

Lemma wf_I s : wf s -> I 0 (fshape s) (m_cfg s) s.
Proof. intros H. unfold I. split; [exact H|]. split; [lia|]. split; reflexivity. Qed.

Lemma I_wf n fo c s : I n fo c s -> wf s.
Proof. intros H; apply H. Qed.

(* ---------------------------------------------------------------- __init__ *)

Lemma wf_fresh w g f k : valid_w w -> wf (fresh w g f k).
Proof.
  intros Hw. unfold wf, fresh. cbn [m_cfg m_tbl m_cache m_sg m_fl m_pages]. split; [|split; [|split; [|split; [|split]]]].
  - unfold wf_cfg. cbn [c_w c_ww c_mask]. destruct Hw as [ -> | [ -> | [ -> | -> ] ] ]; (split; [vm_compute; tauto|vm_compute; reflexivity]).
  - unfold wf_tbl. cbn. auto.
  - unfold wf_cache, fresh_cache. cbn. repeat split; try reflexivity; intros; congruence.
  - unfold wf_sg. cbn. repeat split; lia.
  - unfold wf_fl. cbn. reflexivity.
  - intros i Hi. cbn in Hi. lia.
Qed.

Lemma api_init_ok w g f s : wf s -> post (api_init w g f s) (fun _ s' => wf s') wf.
Proof.
  intros H. unfold api_init.
  destruct ((w =? 8) || (w =? 16) || (w =? 32) || (w =? 64)) eqn:E; [|apply post_raise; assumption].
  rewrite bind_gets. apply post_modify. apply wf_fresh.
  unfold valid_w. repeat (apply orb_true_iff in E; destruct E as [E|E]); apply N.eqb_eq in E; auto.
Qed.

(* ---------------------------------------------------------------- add_segment *)

Lemma uadd_no_overflow a b : a < U64 -> b < U64 -> (uadd a b <? a) = false -> a + b < U64 /\ uadd a b = a + b.
Proof.
  intros Ha Hb Hc. apply N.ltb_ge in Hc. unfold uadd in *.
  destruct (N.lt_ge_cases (a + b) U64) as [Hlt|Hge]; [split; [assumption|now apply N.mod_small]|].
  exfalso. replace (a + b) with (a + b - U64 + 1 * U64) in Hc by lia. rewrite N.mod_add in Hc by lia.
  rewrite N.mod_small in Hc by lia. lia.
Qed.

Lemma api_add_segment_ok al start0 len0 s n fo c :
  I n fo c s -> post (api_add_segment al start0 len0 s) (fun _ s' => I n fo c s') (I n fo c).
Proof.
  intros H. unfold api_add_segment. set (start := start0 mod U64). set (len := len0 mod U64).
  destruct (uadd start len <? start); [apply post_raise; assumption|]. rewrite bind_gets.
  (* capacity *)
  eapply (post_bind _ _ _ (fun _ s' => I n fo c s' /\ sg_count (m_sg s') < sg_cap (m_sg s') /\ m_tbl s' = m_tbl s)).
  { pose proof H as H0. inv_I H. inv_wf Hwf. destruct Wsg as (Ha & Hcnt & Hcap).
    destruct (N.eqb_spec (sg_count (m_sg s)) (sg_cap (m_sg s))) as [Hfull|Hfree]; [|apply post_ret; split; [assumption|split; [lia|reflexivity]]].
    set (ncap := if sg_cap (m_sg s) =? 0 then 8 else sg_cap (m_sg s) * 2).
    assert (Hncap : sg_cap (m_sg s) < ncap /\ ncap < 1152921504606846976).
    { unfold ncap. destruct (N.eqb_spec (sg_cap (m_sg s)) 0); lia. }
    unfold nowrap_ss. destruct (N.ltb_spec ncap SSIZE_LIM); [|lia]. rewrite bind_lift_ok.
    unfold nowrap. destruct (N.ltb_spec (ncap * 16) U64); [|lia]. rewrite bind_lift_ok.
    eapply post_bind; [apply (try_alloc_ok al (ncap * 16) s n fo c H0)|].
    intros ok s' (-> & H' & Hok). destruct ok; [|apply post_raise; assumption].
    apply post_modify. split; [|cbn; split; [lia|reflexivity]].
    apply I_set_sg; [assumption|]. unfold wf_sg. cbn. split; [reflexivity|]. split; [lia|]. apply Hok. reflexivity. }
  intros [] s1 (H1 & Hroom & Ft1). rewrite bind_gets.
  pose proof H1 as H1'. inv_I H1. inv_wf Hwf. destruct Wsg as (Ha & Hcnt & Hcap).
  assert (Hal : alen (oarr dseg (sg_arr (m_sg s1))) = sg_cap (m_sg s1)).
  { destruct (sg_arr (m_sg s1)); cbn; [assumption|]. destruct Ha. lia. }
  rewrite aset_ok by lia. rewrite bind_lift_ok.
  unfold nowrap_ss. destruct (N.ltb_spec (sg_count (m_sg s1) + 1) SSIZE_LIM); [|lia]. rewrite bind_lift_ok, bind_modify.
  match goal with |- post (bind _ _ ?s2) _ _ => set (s2' := s2) end.
  assert (H2 : I n fo c s2').
  { apply I_set_sg; [assumption|]. unfold wf_sg. cbn [sg_arr sg_count sg_cap sg_sorted]. split; [exact Hal|]. split; lia. }
  assert (Ft2 : m_tbl s2' = m_tbl s1) by reflexivity. clearbody s2'.
  rewrite bind_gets.
  destruct (t_slots (m_tbl s2')) as [sl|] eqn:Esl; [|apply post_ret; assumption].
  (* recompute the validity of every allocated page; the page heap keeps its size, the table is not touched *)
  pose proof (I_top _ _ _ _ H2) as Htop. set (np := npages s2') in *.
  apply (post_weaken _ (fun _ s' => I np fo c s') _ (I np fo c));
    [|intros a s3 H3; eapply I_weaken; [exact H3|apply H2]|intros s3 H3; eapply I_weaken; [exact H3|apply H2]].
  eapply post_bind.
  - apply (post_for (fun _ _ s3 => I np fo c s3 /\ m_tbl s3 = m_tbl s2' /\ npages s3 = np) (fun (_ : unit) _ => False)); [auto|].
    intros j [] s3 Hj (H3 & Ft3 & Hnp3). rewrite bind_gets, Ft3, Esl. cbn [oarr].
    pose proof (proj1 (proj2 (proj1 H2))) as Wt2. unfold wf_tbl in Wt2. rewrite Esl in Wt2.
    destruct Wt2 as [(Hsl & _ & _ & _ & _ & Hval) _].
    rewrite aget_ok by lia. rewrite bind_lift_ok.
    destruct (N.eqb_spec (fst (adat sl j)) 0) as [Hz|Hnz]; [apply post_ret; auto|].
    destruct (Hval j ltac:(lia) Hnz) as [p [Ep Hp]]. rewrite Ep, bind_lift_ok.
    eapply post_bind; [apply (page_compute_validity_ok _ s3 np fo c H3)|]. intros v s4 (H4 & Hve & Ft4 & Fp4).
    assert (Hp4 : p < np) by (unfold np; exact Hp).
    eapply post_bind; [apply (deref_page_ok p s4 np fo c H4 Hp4)|]. intros pg s5 (-> & _ & [Hpl _]).
    eapply post_bind; [apply (store_page_ok p _ s4 np fo c H4 Hp4); split; assumption|].
    intros [] s5 (H5 & Ft5 & Hnp5 & _). apply post_ret. split; [assumption|]. split; [congruence|].
    rewrite Hnp5. unfold npages. rewrite Fp4. exact Hnp3.
  - intros r s3 Hr. destruct r as [[]|[]]; [|contradiction]. apply post_ret. apply Hr.
Qed.

(* ---------------------------------------------------------------- set_words *)

Lemma api_set_words_ok al ov start0 values s n fo c :
  I n fo c s -> post (api_set_words al ov start0 values s) (fun _ s' => I n fo c s') (I n fo c).
Proof.
  intros H. unfold api_set_words. assert (Hst : start0 mod U64 < U64) by (apply N.mod_lt; lia). set (start := start0 mod U64) in *.
  set (count := N.of_nat (length values)).
  destruct (N.leb_spec SSIZE_LIM count) as [|Hcnt]; [apply post_raise; assumption|].
  destruct (uadd start count <? start) eqn:Eov; [apply post_raise; assumption|].
  destruct (uadd_no_overflow start count Hst ltac:(lia) Eov) as [Hsum Esum]. rewrite Esum.
  rewrite bind_gets.
  destruct (match f_arr (m_fl s) with Some _ => f_count (m_fl s) <? start + count | None => false end) eqn:Espan; [apply post_raise; assumption|].
  rewrite bind_gets.
  eapply post_bind.
  - apply (post_for (fun _ _ s1 => I n fo c s1) (fun (_ : unit) _ => False)); [assumption|].
    intros i [] s1 Hi H1. destruct (nth (N.to_nat i) values ItNotInt) as [v0| |]; [|apply post_raise; assumption..].
    rewrite bind_gets.
    assert (Hsi : uadd start i = start + i) by (apply uadd_small; lia).
    destruct (f_arr (m_fl s1)) as [a1|] eqn:Ea1.
    + (* flat: the span test made before the loop still covers every index *)
      assert (Hfo : exists fc, fo = Some fc /\ start + count <= fc).
      { pose proof H as Hs. pose proof H1 as Hs1. destruct Hs as (Wf & _ & Fs & _). destruct Hs1 as (_ & _ & Fs1 & _).
        unfold fshape in *. rewrite Ea1 in Fs1. destruct (f_arr (m_fl s)) as [a|] eqn:Ea; [|congruence].
        exists (alen a). split; [congruence|]. apply N.ltb_ge in Espan.
        destruct Wf as (_ & _ & _ & _ & Wfl & _). unfold wf_fl in Wfl. rewrite Ea in Wfl. destruct Wfl. lia. }
      destruct Hfo as (fc & -> & Hle).
      eapply post_bind; [apply (flat_write_ok _ _ s1 n fc c H1); lia|]. intros [] s2 H2. apply post_ret. assumption.
    + eapply post_bind; [apply (mem_get_page_ok al ov _ s1 n fo c H1); apply uadd_lt|]. intros p s2 H2.
      eapply post_bind_w; [apply (page_write_ok p _ _ s2 _ fo c H2); [lia|apply land_page_mask_lt]|intros sx Hx; eapply I_weaken; [exact Hx|lia]|].
      intros [] s3 H3. apply post_ret. eapply I_weaken; [exact H3|lia].
  - intros r s1 Hr. destruct r as [[]|[]]; [|contradiction]. apply post_ret. exact Hr.
Qed.

(* ---------------------------------------------------------------- mem_decide_storage *)

(* the state keeps its pages, table, segments and configuration; only the flat array appears *)
Definition I' (n : N) (c : cfg) (s : st) : Prop := I n (fshape s) c s.

Lemma I'_of n fo c s : I n fo c s -> I' n c s.
Proof. intros H. unfold I'. destruct H as (A & B & <- & D). unfold I. auto. Qed.

Lemma I_change_fl n fo c s f : I n fo c s -> wf_fl f -> I' n c (set_fl f s).
Proof. intros H Hf. unfold I', I, wf, npages, fshape in *. cbn in *. tauto. Qed.

Lemma mem_decide_storage_ok ev al s n c :
  I' n c s -> post (mem_decide_storage ev al s) (fun _ s' => I' n c s') (I' n c).
Proof.
  intros H. unfold I' in H. unfold mem_decide_storage. rewrite bind_gets.
  destruct (m_decided s); [apply post_ret; exact H|]. rewrite bind_modify.
  set (s0 := set_decided true s). assert (H0 : I n (fshape s0) c s0) by exact H. clearbody s0. clear H s.
  rewrite !bind_gets.
  destruct (sg_count (m_sg s0) =? 0); [apply post_raise; exact H0|].
  destruct (negb (c_gstop (m_cfg s0))); [apply post_ret; exact H0|].
  destruct (e_no_flat ev); [apply post_ret; exact H0|].
  set (limit := mem_flat_words_limit ev (m_cfg s0)).
  pose proof H0 as H0'. inv_I H0'. inv_wf Hwf. pose proof (oarr_seg_len _ Wsg) as Hslen.
  set (segs := oarr dseg (sg_arr (m_sg s0))) in *.
  (* the scan for max_end / low_max_end *)
  eapply post_bind.
  { apply (post_for (fun _ (_ : N * N) s1 => s1 = s0) (fun (_ : unit) _ => False)); [reflexivity|].
    intros j acc s1 Hj ->. rewrite aget_ok by lia. rewrite bind_lift_ok. apply post_ret. reflexivity. }
  intros r s1 Hr. assert (s1 = s0) by (destruct r; [exact Hr|contradiction]). subst s1. clear Hr.
  set (low := match r with inl a => snd a | inr _ => 0 end). set (maxe := match r with inl a => fst a | inr _ => 0 end).
  destruct (low =? 0); [apply post_raise; exact H0|].
  destruct (N.ltb_spec (SIZE_MAX / 8) low) as [|Hsz]; [apply post_ret; exact H0|].
  destruct (e_alloc_fail ev); [apply post_ret; exact H0|].
  change (SIZE_MAX / 8) with 2305843009213693951 in Hsz.
  unfold nowrap. destruct (N.ltb_spec (low * 8) U64); [|lia]. rewrite bind_lift_ok.
  eapply post_bind_w; [apply (try_alloc_ok al (low * 8) s0 n _ c H0)|intros sx Hx; eapply I'_of; exact Hx|].
  intros ok s1 (-> & H1 & Hok). destruct ok; cbn [negb]; [|apply post_ret; exact H1]. specialize (Hok eq_refl).
  set (s1 := set_nalloc (m_nalloc s0 + 1) s0) in *.
  (* the fill loop *)
  unfold afill at 1. cbn [alen anew]. rewrite N.add_0_l. destruct (N.leb_spec low low); [|lia]. rewrite bind_lift_ok.
  match goal with |- context [for_ _ 0 _ ?f] => set (f0 := f) end.
  assert (Hf0 : alen f0 = low) by reflexivity. clearbody f0.
  (* the memset loop *)
  eapply post_bind.
  { apply (post_for (fun _ (fa : arr N) s2 => s2 = s1 /\ alen fa = low) (fun (_ : unit) _ => False)); [split; [reflexivity|exact Hf0]|].
    intros j fa s2 Hj [-> Hfa]. rewrite aget_ok by (cbn [m_sg s1 set_nalloc]; lia). rewrite bind_lift_ok.
    set (se := adat segs j). set (ec := if snd se <? low then snd se else low).
    assert (Hec : ec <= low) by (unfold ec; destruct (N.ltb_spec (snd se) low); lia).
    destruct (N.ltb_spec (fst se) ec); [|apply post_ret; auto].
    unfold afill. destruct (N.leb_spec (fst se + (ec - fst se)) (alen fa)); [|lia]. rewrite bind_lift_ok.
    apply post_ret. split; [reflexivity|exact Hfa]. }
  intros r1 s2 Hr1.
  set (f1 := match r1 with inl a => a | inr _ => f0 end).
  assert (Hs2 : s2 = s1 /\ alen f1 = low) by (unfold f1; destruct r1; [exact Hr1|contradiction]). destruct Hs2 as [-> Hf1]. clear Hr1.
  rewrite bind_gets.
  (* the memcpy loops *)
  eapply (post_bind _ _ _ (fun r2 s3 => s3 = s1 /\ match r2 with inl fa => alen fa = low | inr _ => False end)).
  { change (m_tbl s1) with (m_tbl s0). destruct (t_slots (m_tbl s0)) as [sl|] eqn:Esl; [|apply post_ret; auto].
    unfold wf_tbl in Wtbl. rewrite Esl in Wtbl. destruct Wtbl as [(Hsl & _ & _ & _ & _ & Hval) _].
    eapply post_weaken;
      [apply (post_for (fun _ (fa : arr N) s3 => s3 = s1 /\ alen fa = low) (fun (_ : unit) _ => False)); [auto|]|
       cbv beta; intros [fa|[]] s3 Hx; [exact Hx|contradiction]|auto].
    intros i fa s3 Hi [-> Hfa]. rewrite aget_ok by lia. rewrite bind_lift_ok.
    destruct (N.eqb_spec (fst (adat sl i)) 0) as [Hz|Hnz]; [apply post_ret; auto|].
    destruct (Hval i ltac:(lia) Hnz) as [p [Ep Hp]]. rewrite Ep, bind_lift_ok.
    pose proof (ushl_lt (usub (fst (adat sl i)) 1) PAGE_BITS) as Hps. set (ps := ushl (usub (fst (adat sl i)) 1) PAGE_BITS) in *.
    eapply post_weaken;
      [apply (post_for (fun _ (fb : arr N) s4 => s4 = s1 /\ alen fb = low) (fun (_ : unit) _ => False)); [auto|]|
       cbv beta; intros [fb|[]] s4 Hx; exact Hx|intros s4 Hx; exact Hx].
    intros k fb s4 Hk [-> Hfb]. rewrite aget_ok by (cbn [m_sg s1 set_nalloc]; lia). rewrite bind_lift_ok.
    set (se := adat segs k).
    set (lo := if ps <? fst se then fst se else ps).
    set (hi0 := if snd se <? uadd ps PAGE_WORDS then snd se else uadd ps PAGE_WORDS).
    set (hi := if low <? hi0 then low else hi0).
    destruct (N.ltb_spec lo hi) as [Hlh|]; [|apply post_ret; auto].
    assert (Hlo : ps <= lo) by (unfold lo; destruct (N.ltb_spec ps (fst se)); lia).
    assert (Hhi : hi <= low /\ hi <= uadd ps PAGE_WORDS).
    { unfold hi. destruct (N.ltb_spec low hi0); [|unfold hi0; destruct (N.ltb_spec (snd se) (uadd ps PAGE_WORDS))]; unfold hi0 in *; try destruct (N.ltb_spec (snd se) (uadd ps PAGE_WORDS)); lia. }
    assert (Hpe : uadd ps PAGE_WORDS = ps + PAGE_WORDS).
    { unfold uadd in *. destruct (N.lt_ge_cases (ps + PAGE_WORDS) U64) as [|Hge]; [now apply N.mod_small|].
      exfalso. destruct Hhi as [_ Hhi]. replace (ps + PAGE_WORDS) with (ps + PAGE_WORDS - U64 + 1 * U64) in Hhi by lia.
      rewrite N.mod_add in Hhi by lia. rewrite N.mod_small in Hhi by lia. lia. }
    rewrite Hpe in Hhi.
    pose proof (I_ghost n p _ c s1 H1 Hp) as Hg.
    eapply post_bind_w; [apply (deref_page_ok p s1 _ _ c Hg); lia|intros sx Hx; apply (I'_of n (fshape s0)); apply (I_weaken n (N.max n (p + 1))); [exact Hx|lia]|].
    intros pg s5 (-> & _ & [Hpl _]).
    unfold acopy. destruct (N.leb_spec (lo + (hi - lo)) (alen fb)); [|lia].
    destruct (N.leb_spec (lo - ps + (hi - lo)) (alen (p_words pg))); [|lia].
    rewrite bind_lift_ok. apply post_ret. split; [reflexivity|exact Hfb].
    all: auto. }
  intros r2 s3 [-> Hr2]. destruct r2 as [f2|[]]; [|contradiction].
  apply post_modify. eapply I_change_fl; [exact H1|]. unfold wf_fl. cbn. split; [exact Hr2|exact Hok].
Qed.

(* ---------------------------------------------------------------- run *)

Lemma flat_count_shape n fo c s : I n fo c s -> forall x, fo = Some x -> f_count (m_fl s) = x.
Proof.
  intros H x ->. destruct (flat_shape _ _ _ _ H) as (a & _ & _ & Hc). exact Hc.
Qed.

Lemma wf_init_locals ip ring rlen :
  ip < U64 -> match ring with Some r => alen r = rlen /\ 0 < rlen | None => True end -> wf_loc (init_locals ip ring rlen).
Proof. intros Hip Hr. split; [exact Hip|]. split; [exact Hr|]. cbn. auto. Qed.

Lemma api_run_ok ev al ov wd lol ip0 steps s n c :
  I' n c s -> post (api_run ev al ov wd lol ip0 steps s) (fun _ s' => I' n c s') (I' n c).
Proof.
  intros H. unfold api_run.
  destruct ((lol <? -9223372036854775808)%Z || (9223372036854775807 <? lol)%Z) eqn:Erange; [apply post_raise; exact H|].
  set (len := if (lol <? 0)%Z then 0 else Z.to_N lol).
  assert (Hip : ip0 mod U64 < U64) by (apply N.mod_lt; lia).
  eapply post_bind; [apply (mem_decide_storage_ok ev al s n c H)|]. intros [] s1 H1. rewrite bind_modify, bind_gets, bind_modify.
  unfold I' in H1. set (fo := fshape s1) in *.
  set (s2 := set_err false (m_err_addr (set_kept None s1)) (set_kept None s1)). assert (H2 : I n fo c s2) by exact H1.
  assert (Efl : m_fl s2 = m_fl s1) by reflexivity. clearbody s2.
  pose proof (flat_count_shape _ _ _ _ H1) as Hcnt.
  change (m_fl (set_kept None s1)) with (m_fl s1).
  (* the three dispatch targets *)
  eapply (post_bind_w _ _ _ (fun rr s' => I n fo c s' /\ wf_runres rr) (I n fo c)); [|intros sx Hx; eapply I'_of; exact Hx|].
  { destruct (e_measure ev && (len =? 0)).
    { eapply post_bind; [apply (loop_n_ok LMeasured al ov wd _ steps _ s2 n fo c H2); [apply wf_init_locals; [exact Hip|exact Logic.I]|exact Logic.I]|].
      intros r s3 Hr. apply post_ret. exact Hr. }
    destruct (match f_arr (m_fl s1) with Some _ => true | None => false end && (len =? 0)) eqn:Eflat.
    { apply andb_true_iff in Eflat. destruct Eflat as [Ehas _].
      apply loop_n_ok; [exact H2|apply wf_init_locals; [exact Hip|exact Logic.I]|].
      cbn. unfold fo, fshape. destruct (f_arr (m_fl s1)) as [a|] eqn:Ea; [|discriminate]. f_equal.
      symmetry. apply Hcnt. unfold fo, fshape. now rewrite Ea. }
    eapply (post_bind _ _ _ (fun ring s' => I n fo c s' /\ match ring with Some r => alen r = len /\ 0 < len | None => True end)).
    { destruct (N.ltb_spec 0 len); [|apply post_ret; auto].
      eapply post_bind; [apply (try_alloc_ok al (len * 8) s2 n fo c H2)|]. intros ok s3 (-> & H3 & _).
      destruct ok; [apply post_ret; cbn; auto|apply post_raise; exact H3]. }
    intros ring s3 [H3 Hring]. apply loop_n_ok; [exact H3|apply wf_init_locals; assumption|]. cbn. exact Hcnt. }
  intros rr s3 [H3 Hrr]. destruct rr as [cz l|e l|l].
  - destruct (ring_readout_ok l Hrr) as [lo ->]. rewrite bind_lift_ok, bind_gets. apply post_ret. eapply I'_of; exact H3.
  - eapply (post_bind _ _ _ (fun _ s' => I n fo c s')).
    + match goal with |- context [if ?g then _ else _] => destruct g end; [|apply post_ret; exact H3].
      destruct (ring_readout_ok l Hrr) as [lo ->]. rewrite bind_lift_ok. apply post_modify. exact H3.
    + intros [] s4 H4. apply post_raise. eapply I'_of; exact H4.
  - apply post_ret. eapply I'_of; exact H3.
Qed.

(* ---------------------------------------------------------------- call sequences *)

Lemma I'_wf s : wf s -> I' 0 (m_cfg s) s.
Proof. intros H. apply (wf_I s H). Qed.

Lemma do_call_ok al ov cl s : wf s -> post (do_call al ov cl s) (fun _ s' => wf s') wf.
Proof.
  intros H. pose proof (wf_I s H) as HI. destruct cl; cbn [do_call].
  - now apply api_init_ok.
  - eapply post_weaken; [apply (api_add_segment_ok al start len s _ _ _ HI)|cbv beta; intros a s' Hx; apply Hx|intros s' Hx; apply Hx].
  - eapply post_weaken; [apply (api_set_word_ok al ov wa v s _ _ _ HI)|cbv beta; intros a s' Hx; apply Hx|intros s' Hx; apply Hx].
  - eapply post_bind_w; [apply (api_get_word_ok al ov wa s _ _ _ HI)|intros s' Hx; apply Hx|].
    intros v s' [Hx _]. apply post_ret. apply Hx.
  - eapply post_weaken; [apply (api_set_words_ok al ov start values s _ _ _ HI)|cbv beta; intros a s' Hx; apply Hx|intros s' Hx; apply Hx].
  - eapply post_bind_w; [apply (api_run_ok ev al ov wd lol start_ip n s 0 (m_cfg s) (I'_wf s H))|intros s' Hx; apply Hx|].
    intros r s' Hx. apply post_ret. apply Hx.
Qed.

Lemma do_calls_ok al ov cs : forall s, wf s -> match do_calls al ov cs s with Ok (_, s') => wf s' | _ => False end.
Proof.
  induction cs as [|cl cs IH]; intros s H; cbn [do_calls]; [exact H|].
  pose proof (do_call_ok al ov cl s H) as Hc. unfold post in Hc.
  destruct (do_call al ov cl s) as [[[a|e] s']| |]; try contradiction;
    (specialize (IH s' Hc); destruct (do_calls al ov cs s') as [[os s'']| |]; [exact IH|contradiction..]).
Qed.
