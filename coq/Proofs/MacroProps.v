From FJ Require Import Lib.Base.
(* C03 - proofs about Model/Macro.v (the preprocessor) and Spec/InlineSpec.v (the textual inliner). *)
From FJ Require Import Model.Ast Model.Expr Model.Macro Spec.InlineSpec.
From Coq Require Import DecimalString DecimalN.
Local Open Scope string_scope.

(* ------------------------------------------------------------------------------------------ *)
(** * A. Expressions *)

Lemma expr_ind' (P : expr -> Prop) :
  (forall z, P (EInt z)) -> (forall s, P (ELbl s)) -> (forall o args, Forall P args -> P (EOp o args)) ->
  forall e, P e.
Proof.
  intros Hi Hl Ho. fix IH 1. intros [z|s|o args].
  - apply Hi. - apply Hl.
  - apply Ho. induction args as [|a t IHt]; constructor; [apply IH | exact IHt].
Qed.

(* the folding step of eval_new *)
Definition fold_op (o : opname) (args' : list expr) : outcome expr :=
  if forallb is_int args'
  then match apply_op o (int_values args') with
       | Ok z => Ok (EInt z)
       | LibError _ => LibError (ExprBadMath None)
       | RawExn x => LibError (ExprBadMath (Some x))
       end
  else Ok (EOp o args').

Lemma eval_new_op sg o args : eval_new sg (EOp o args) = bind (eval_list sg args) (fold_op o).
Proof.
  simpl. unfold fold_op.
  match goal with |- bind ?g _ = _ => assert (E : g = eval_list sg args) end.
  { induction args as [|a t IH]; simpl; [reflexivity|]. now rewrite IH. }
  now rewrite E.
Qed.

Fixpoint exact_list (L : string -> option Z) (l : list expr) : outcome (list Z) :=
  match l with
  | [] => Ok []
  | a :: t => bind (exact_eval L a) (fun v => bind (exact_list L t) (fun vs => Ok (v :: vs)))
  end.

Definition wrap_exact (r : outcome Z) : outcome Z :=
  match r with Ok z => Ok z | LibError k => LibError k | RawExn x => LibError (ExprBadMath (Some x)) end.

Lemma exact_eval_op L o args : exact_eval L (EOp o args) = wrap_exact (bind (exact_list L args) (apply_op o)).
Proof.
  simpl. unfold wrap_exact.
  match goal with |- match bind ?g _ with _ => _ end = _ => assert (E : g = exact_list L args) end.
  { induction args as [|a t IH]; simpl; [reflexivity|]. now rewrite IH. }
  now rewrite E.
Qed.

Global Opaque eval_new exact_eval.

Lemma eval_new_int sg z : eval_new sg (EInt z) = Ok (EInt z).
Proof. Transparent eval_new. reflexivity. Opaque eval_new. Qed.
Lemma eval_new_lbl sg s : eval_new sg (ELbl s) = match sg s with Some r => Ok r | None => Ok (ELbl s) end.
Proof. Transparent eval_new. reflexivity. Opaque eval_new. Qed.
Lemma exact_eval_int L z : exact_eval L (EInt z) = Ok z.
Proof. Transparent exact_eval. reflexivity. Opaque exact_eval. Qed.
Lemma exact_eval_lbl L s : exact_eval L (ELbl s) = match L s with Some v => Ok v | None => LibError (ExprCantEvaluateLabel s) end.
Proof. Transparent exact_eval. reflexivity. Opaque exact_eval. Qed.

Lemma bind_ok {A B} (r : outcome A) (f : A -> outcome B) b : bind r f = Ok b -> exists a, r = Ok a /\ f a = Ok b.
Proof. destruct r; simpl; intros H; try discriminate. eauto. Qed.

(* eval_list as a pointwise relation *)
Lemma eval_list_ok sg l l' : eval_list sg l = Ok l' <-> Forall2 (fun a a' => eval_new sg a = Ok a') l l'.
Proof.
  revert l'. induction l as [|a t IH]; intros l'; simpl.
  - split; intros H. injection H as <-. constructor. inversion H. reflexivity.
  - split; intros H.
    + apply bind_ok in H as (a' & Ha & H). apply bind_ok in H as (t' & Ht & H). injection H as <-.
      constructor; [exact Ha | now apply IH].
    + inversion H as [|? a' ? t' Ha Ht]; subst. rewrite Ha. simpl. apply IH in Ht. rewrite Ht. reflexivity.
Qed.

Lemma eval_list_ext sg1 sg2 l :
  Forall (fun a => eval_new sg1 a = eval_new sg2 a) l -> eval_list sg1 l = eval_list sg2 l.
Proof. induction 1 as [|a t Ha _ IH]; simpl; [reflexivity|]. now rewrite Ha, IH. Qed.

(* A1: eval_new only looks at the names that occur *)
Lemma eval_new_ext sg1 sg2 e :
  (forall s, In s (expr_labels e) -> sg1 s = sg2 s) -> eval_new sg1 e = eval_new sg2 e.
Proof.
  induction e as [z|s|o args IH] using expr_ind'; intros H.
  - now rewrite !eval_new_int.
  - rewrite !eval_new_lbl, (H s); [reflexivity | simpl; auto].
  - rewrite !eval_new_op. f_equal. apply eval_list_ext.
    rewrite Forall_forall in *. intros a Ha. apply IH; [exact Ha|].
    intros s Hs. apply H. simpl. apply in_flat_map. eauto.
Qed.

(* "sg then tau": what one pass with the composed substitution must be *)
Definition comp_ok (sg : string -> option expr) (tau stau : msubst) : Prop :=
  forall s, match sg s with
            | Some r => exists r', eval_new tau r = Ok r' /\ stau s = Some r'
            | None => stau s = tau s
            end.

(* A2: textual substitution followed by substitute-and-fold is one substitute-and-fold pass *)
Lemma subst_eval_new sg tau stau e : comp_ok sg tau stau -> eval_new tau (subst sg e) = eval_new stau e.
Proof.
  intros C. induction e as [z|s|o args IH] using expr_ind'.
  - reflexivity.
  - simpl. rewrite (eval_new_lbl stau). specialize (C s). destruct (sg s) as [r|].
    + destruct C as (r' & -> & ->). reflexivity.
    + rewrite eval_new_lbl, C. reflexivity.
  - simpl. rewrite !eval_new_op. f_equal.
    induction IH as [|a t Ha _ IHt]; simpl; [reflexivity|]. now rewrite Ha, IHt.
Qed.

Lemma forallb_is_int_inv l : forallb is_int l = true -> l = map EInt (int_values l).
Proof.
  induction l as [|a t IH]; simpl; [reflexivity|]. destruct a; simpl; try discriminate.
  intros H. unfold int_values in *. simpl. now rewrite <- IH.
Qed.

(* A3: two substitute-and-fold passes are one pass with the composed substitution *)
Lemma eval_new_fusion sg tau stau e e1 :
  comp_ok sg tau stau -> eval_new sg e = Ok e1 -> eval_new tau e1 = eval_new stau e.
Proof.
  intros C. revert e1. induction e as [z|s|o args IH] using expr_ind'; intros e1 H.
  - rewrite eval_new_int in H. injection H as <-. now rewrite !eval_new_int.
  - rewrite eval_new_lbl in H. rewrite (eval_new_lbl stau). specialize (C s). destruct (sg s) as [r|].
    + injection H as <-. destruct C as (r' & -> & ->). reflexivity.
    + injection H as <-. now rewrite eval_new_lbl, C.
  - rewrite eval_new_op in H. apply bind_ok in H as (args1 & Hl & Hf).
    assert (EL : eval_list tau args1 = eval_list stau args).
    { apply eval_list_ok in Hl. clear Hf. induction Hl as [|a a1 t t1 Ha _ IHt]; simpl; [reflexivity|].
      inversion IH as [|? ? IHa IHt']; subst. rewrite (IHa _ Ha), (IHt IHt'). reflexivity. }
    rewrite (eval_new_op stau). unfold fold_op in Hf. destruct (forallb is_int args1) eqn:Hint.
    + (* everything folded already in the first pass *)
      assert (e1v : exists z, e1 = EInt z) by (destruct (apply_op o (int_values args1)); try discriminate; injection Hf as <-; eauto).
      destruct e1v as (z & ->). rewrite eval_new_int.
      assert (Ht : eval_list tau args1 = Ok args1).
      { rewrite (forallb_is_int_inv _ Hint). generalize (int_values args1). intros l.
        induction l as [|v t IHl]; simpl; [reflexivity|]. rewrite eval_new_int. simpl. now rewrite IHl. }
      rewrite <- EL, Ht. simpl. unfold fold_op. rewrite Hint. exact (eq_sym Hf).
    + injection Hf as <-. rewrite eval_new_op, EL. reflexivity.
Qed.

(* normal forms: no operator whose operands are all literals *)
Fixpoint minimal (e : expr) : Prop :=
  match e with
  | EOp o args => forallb is_int args = false /\ (fix all (l : list expr) : Prop := match l with [] => True | a :: t => minimal a /\ all t end) args
  | _ => True
  end.

Lemma minimal_op o args : minimal (EOp o args) <-> forallb is_int args = false /\ Forall minimal args.
Proof.
  simpl.
  assert (E : (fix all (l : list expr) : Prop := match l with [] => True | a :: t => minimal a /\ all t end) args
              <-> Forall minimal args).
  { induction args as [|a t IH]; split; intros H.
    - constructor. - exact I.
    - destruct H. constructor; [assumption | now apply IH].
    - inversion H; subst. split; [assumption | now apply IH]. }
  rewrite E. reflexivity.
Qed.

(* A4: a normal form is not changed by a substitution that does not touch its names *)
Lemma eval_new_stable tau e :
  minimal e -> (forall s, In s (expr_labels e) -> tau s = None) -> eval_new tau e = Ok e.
Proof.
  induction e as [z|s|o args IH] using expr_ind'; intros M H.
  - apply eval_new_int.
  - rewrite eval_new_lbl, H; simpl; auto.
  - apply minimal_op in M as [Hint MA]. rewrite eval_new_op.
    assert (E : eval_list tau args = Ok args).
    { apply eval_list_ok. clear Hint. induction args as [|a t IHt]; constructor.
      - inversion IH; inversion MA; subst. apply H2; auto. intros s Hs. apply H. simpl. apply in_or_app. auto.
      - inversion IH; inversion MA; subst. apply IHt; auto. intros s Hs. apply H. simpl. apply in_or_app. auto. }
    rewrite E. simpl. unfold fold_op. now rewrite Hint.
Qed.

(* A5: the result of substitute-and-fold is a normal form when the replacements are *)
Lemma eval_new_minimal sg e e' :
  (forall s r, sg s = Some r -> minimal r) -> eval_new sg e = Ok e' -> minimal e'.
Proof.
  intros Hs. revert e'. induction e as [z|s|o args IH] using expr_ind'; intros e' H.
  - rewrite eval_new_int in H. now injection H as <-.
  - rewrite eval_new_lbl in H. destruct (sg s) eqn:E; injection H as <-; [eauto | exact I].
  - rewrite eval_new_op in H. apply bind_ok in H as (args1 & Hl & Hf). unfold fold_op in Hf.
    destruct (forallb is_int args1) eqn:Hint.
    + destruct (apply_op o (int_values args1)); try discriminate. now injection Hf as <-.
    + injection Hf as <-. apply minimal_op. split; [exact Hint|].
      apply eval_list_ok in Hl. clear Hint. induction Hl; constructor; inversion IH; subst; auto.
Qed.

(* A6: the names of the result are names of the expression or of a replacement *)
Lemma eval_new_labels (P : string -> Prop) sg e e' :
  (forall s r, sg s = Some r -> Forall P (expr_labels r)) -> Forall P (expr_labels e) ->
  eval_new sg e = Ok e' -> Forall P (expr_labels e').
Proof.
  intros Hs. revert e'. induction e as [z|s|o args IH] using expr_ind'; intros e' HP H.
  - rewrite eval_new_int in H. now injection H as <-.
  - rewrite eval_new_lbl in H. destruct (sg s) eqn:E; injection H as <-; eauto.
  - rewrite eval_new_op in H. apply bind_ok in H as (args1 & Hl & Hf). unfold fold_op in Hf.
    destruct (forallb is_int args1) eqn:Hint.
    + destruct (apply_op o (int_values args1)); try discriminate. injection Hf as <-. constructor.
    + injection Hf as <-. simpl in *. apply eval_list_ok in Hl. clear Hint.
      induction Hl as [|a a1 t t1 Ha _ IHt]; simpl; [constructor|].
      simpl in HP. apply Forall_app in HP as [HPa HPt]. inversion IH; subst.
      apply Forall_app. split; auto.
Qed.

Lemma subst_labels (P : string -> Prop) sg e :
  (forall s r, sg s = Some r -> Forall P (expr_labels r)) -> Forall P (expr_labels e) ->
  Forall P (expr_labels (subst sg e)).
Proof.
  intros Hs. induction e as [z|s|o args IH] using expr_ind'; intros HP; simpl.
  - constructor.
  - destruct (sg s) eqn:E; eauto.
  - simpl in HP. induction IH as [|a t Ha _ IHt]; simpl; [constructor|].
    simpl in HP. apply Forall_app in HP as [HPa HPt]. apply Forall_app. split; auto.
Qed.

(* ------------------------------------------------------------------------------------------ *)
(** * A'. Values: substitute-and-fold evaluates each parameter to the value of its argument in the CALLER's environment *)

Lemma exact_list_ok L l vs : exact_list L l = Ok vs <-> Forall2 (fun a v => exact_eval L a = Ok v) l vs.
Proof.
  revert vs. induction l as [|a t IH]; intros vs; simpl.
  - split; intros H. injection H as <-. constructor. inversion H. reflexivity.
  - split; intros H.
    + apply bind_ok in H as (v & Ha & H). apply bind_ok in H as (t' & Ht & H). injection H as <-.
      constructor; [exact Ha | now apply IH].
    + inversion H as [|? v ? t' Ha Ht]; subst. rewrite Ha. simpl. apply IH in Ht. rewrite Ht. reflexivity.
Qed.

Lemma wrap_exact_ok r v : wrap_exact r = Ok v <-> r = Ok v.
Proof. destruct r; simpl; split; intros H; try discriminate; auto. Qed.

Lemma int_values_map l : int_values (map EInt l) = l.
Proof. unfold int_values. induction l; simpl; congruence. Qed.

Lemma forallb_is_int_map l : forallb is_int (map EInt l) = true.
Proof. induction l; simpl; auto. Qed.

(* the environment in which e is evaluated after the substitution: a substituted name has the value of its replacement
   in L - the replacement is NOT looked up through sg again *)
Definition env_subst (L : string -> option Z) (sg : msubst) : string -> option Z :=
  fun s => match sg s with Some r => ok_value (exact_eval L r) | None => L s end.

Lemma ok_value_some r v : ok_value r = Some v <-> r = Ok v.
Proof. destruct r; simpl; split; intros H; try discriminate; congruence. Qed.

Lemma subst_once_sound sg e e' L v :
  eval_new sg e = Ok e' -> exact_eval L e' = Ok v -> exact_eval (env_subst L sg) e = Ok v.
Proof.
  revert e' v. induction e as [z|s|o args IH] using expr_ind'; intros e' v H Hv.
  - rewrite eval_new_int in H. injection H as <-. rewrite exact_eval_int in *. exact Hv.
  - rewrite eval_new_lbl in H. rewrite exact_eval_lbl. unfold env_subst. destruct (sg s) as [r|].
    + injection H as <-. now rewrite Hv.
    + injection H as <-. rewrite exact_eval_lbl in Hv. exact Hv.
  - rewrite eval_new_op in H. apply bind_ok in H as (args1 & Hl & Hf). apply eval_list_ok in Hl.
    rewrite exact_eval_op. apply (proj2 (wrap_exact_ok _ _)). unfold fold_op in Hf. destruct (forallb is_int args1) eqn:Hint.
    + destruct (apply_op o (int_values args1)) as [z| |] eqn:Ha; try discriminate. injection Hf as <-.
      rewrite exact_eval_int in Hv. injection Hv as <-.
      assert (E : exact_list (env_subst L sg) args = Ok (int_values args1)).
      { apply exact_list_ok. rewrite (forallb_is_int_inv _ Hint) in Hl. revert Hl. generalize (int_values args1).
        clear Hint Ha. induction IH as [|a t Ha _ IHt]; intros vs Hl; inversion Hl as [|? ? ? ? H1 H2 E1 E2]; subst.
        - destruct vs; [constructor | discriminate].
        - destruct vs as [|v vs]; [discriminate|]. simpl in E2. injection E2 as -> ->. constructor.
          + apply (Ha _ _ H1). apply exact_eval_int.
          + now apply IHt. }
      rewrite E. simpl. exact Ha.
    + injection Hf as <-. rewrite exact_eval_op in Hv. apply (proj1 (wrap_exact_ok _ _)) in Hv.
      apply bind_ok in Hv as (vs & Hvs & Ha). apply exact_list_ok in Hvs.
      assert (E : exact_list (env_subst L sg) args = Ok vs).
      { apply exact_list_ok. clear Hint Ha. revert vs Hvs.
        induction Hl as [|a a1 t t1 Ha1 _ IHt]; intros vs Hvs; inversion Hvs; subst; [constructor|].
        inversion IH; subst. constructor; eauto. }
      rewrite E. simpl. exact Ha.
Qed.

Lemma subst_once_complete sg e L v :
  exact_eval (env_subst L sg) e = Ok v -> exists e', eval_new sg e = Ok e' /\ exact_eval L e' = Ok v.
Proof.
  revert v. induction e as [z|s|o args IH] using expr_ind'; intros v Hv.
  - rewrite exact_eval_int in Hv. injection Hv as <-. exists (EInt z). now rewrite eval_new_int, exact_eval_int.
  - rewrite exact_eval_lbl in Hv. unfold env_subst in Hv. rewrite eval_new_lbl. destruct (sg s) as [r|].
    + exists r. split; [reflexivity|]. destruct (exact_eval L r); simpl in Hv; try discriminate. exact Hv.
    + exists (ELbl s). split; [reflexivity|]. now rewrite exact_eval_lbl.
  - rewrite exact_eval_op in Hv. apply (proj1 (wrap_exact_ok _ _)) in Hv. apply bind_ok in Hv as (vs & Hvs & Ha).
    apply exact_list_ok in Hvs.
    assert (E : exists args1, Forall2 (fun a a' => eval_new sg a = Ok a') args args1 /\
                              Forall2 (fun a v => exact_eval L a = Ok v) args1 vs).
    { clear Ha. induction Hvs as [|a v0 t vs0 Ha _ IHt].
      - exists []. split; constructor.
      - inversion IH as [|? ? IHa IHt']; subst. destruct (IHa _ Ha) as (a1 & E1 & E2).
        destruct (IHt IHt') as (t1 & F1 & F2). exists (a1 :: t1). split; constructor; auto. }
    destruct E as (args1 & F1 & F2). apply eval_list_ok in F1. rewrite eval_new_op, F1. simpl. unfold fold_op.
    destruct (forallb is_int args1) eqn:Hint.
    + assert (int_values args1 = vs).
      { rewrite (forallb_is_int_inv _ Hint) in F2. revert F2. generalize (int_values args1). clear.
        intros l. revert vs. induction l as [|x l IHl]; intros vs F; inversion F; subst; [reflexivity|].
        rewrite exact_eval_int in H1. injection H1 as ->. f_equal. auto. }
      subst vs. rewrite Ha. exists (EInt v). split; [reflexivity | apply exact_eval_int].
    + exists (EOp o args1). split; [reflexivity|]. rewrite exact_eval_op. apply (proj2 (wrap_exact_ok _ _)).
      apply exact_list_ok in F2. rewrite F2. exact Ha.
Qed.

(* a constant expression folds to its value *)
Lemma const_folds e n : exact_eval (fun _ => None) e = Ok n -> eval_new (fun _ => None) e = Ok (EInt n).
Proof.
  intros H. destruct (subst_once_complete (fun _ => None) e (fun _ => None) n) as (e' & He & Hv).
  { erewrite <- H. f_equal. }
  rewrite He. f_equal.
  assert (M : minimal e') by (eapply eval_new_minimal; [|exact He]; discriminate).
  clear He H. revert n Hv. induction e' as [z|s|o args IH] using expr_ind'; intros n Hv.
  - rewrite exact_eval_int in Hv. congruence.
  - rewrite exact_eval_lbl in Hv. discriminate.
  - exfalso. apply minimal_op in M as [Hint MA]. rewrite exact_eval_op in Hv. apply (proj1 (wrap_exact_ok _ _)) in Hv.
    apply bind_ok in Hv as (vs & Hvs & _). apply exact_list_ok in Hvs.
    assert (forallb is_int args = true); [|congruence].
    clear Hint. induction Hvs as [|a v0 t vs0 Ha _ IHt]; simpl; [reflexivity|].
    inversion IH as [|? ? IHa IHt']; inversion MA as [|? ? Ma Mt]; subst.
    rewrite (IHa Ma _ Ha). simpl. auto.
Qed.

(* ------------------------------------------------------------------------------------------ *)
(** * B. Names: what separates generated names from the names a program can spell *)

Lemma string_forall_app f a b : string_forall f (a ++ b) = string_forall f a && string_forall f b.
Proof. induction a as [|c a IH]; simpl; [reflexivity|]. now rewrite IH, andb_assoc. Qed.

(* the last character of s that is not an identifier character *)
Fixpoint last_sep (s : string) : option ascii :=
  match s with
  | EmptyString => None
  | String c r => match last_sep r with Some x => Some x | None => if ident_char c then None else Some c end
  end.

Lemma last_sep_app a b : last_sep (a ++ b) = match last_sep b with Some c => Some c | None => last_sep a end.
Proof. induction a as [|c a IH]; simpl; [now destruct (last_sep b)|]. rewrite IH. now destruct (last_sep b). Qed.

Lemma last_sep_ident s : is_ident s = true -> last_sep s = None.
Proof.
  unfold is_ident. induction s as [|c s IH]; simpl; [reflexivity|]. intros H. apply andb_prop in H as [Hc Hs].
  now rewrite (IH Hs), Hc.
Qed.

Lemma last_sep_in f s c : string_forall f s = true -> last_sep s = Some c -> f c = true.
Proof.
  induction s as [|x s IH]; simpl; [discriminate|]. intros H E. apply andb_prop in H as [Hx Hs].
  destruct (last_sep s) as [y|]; [injection E as ->; auto|]. destruct (ident_char x); [discriminate|]. now injection E as <-.
Qed.

(* names whose last separator is not ':' and that are not `$`: the user's dotted names and the local-label names *)
Definition niceb (s : string) : bool :=
  match last_sep s with None => true | Some c => Ascii.eqb c "." || Ascii.eqb c "-" end.

Lemma last_sep_not_ident s c : last_sep s = Some c -> ident_char c = false.
Proof.
  induction s as [|x s IH]; simpl; [discriminate|]. destruct (last_sep s) as [y|].
  - intros E. injection E as ->. auto.
  - destruct (ident_char x) eqn:Hx; [discriminate|]. intros E. now injection E as <-.
Qed.

Lemma dotted_nice s : dotted_ident s = true -> niceb s = true.
Proof.
  unfold dotted_ident, niceb. intros H. destruct (last_sep s) as [c|] eqn:E; [|reflexivity].
  pose proof (last_sep_in _ _ _ H E) as Hc. simpl in Hc. rewrite (last_sep_not_ident _ _ E) in Hc. simpl in Hc. now rewrite Hc.
Qed.

Lemma ident_dotted s : is_ident s = true -> dotted_ident s = true.
Proof.
  unfold is_ident, dotted_ident. induction s as [|c s IH]; simpl; [reflexivity|]. intros H. apply andb_prop in H as [Hc Hs].
  now rewrite Hc, IH.
Qed.

Lemma dollar_not_nice : niceb "$" = false.
Proof. reflexivity. Qed.

Lemma local_label_nice p l : is_ident l = true -> niceb (local_label p l) = true.
Proof.
  intros H. unfold niceb, local_label, MACRO_SEPARATOR_STRING. rewrite last_sep_app. simpl. rewrite (last_sep_ident _ H). reflexivity.
Qed.

Lemma with_prefix_last_sep p s c : last_sep s = Some c -> last_sep (with_prefix p s) = Some c.
Proof.
  intros H. unfold with_prefix. destruct (String.eqb p ""); [exact H|]. rewrite !last_sep_app, H. reflexivity.
Qed.

Lemma hyg_not_nice prefix pos it : is_ident it = true -> niceb (hygienic_iterator prefix pos it) = false.
Proof.
  intros H. unfold niceb, hygienic_iterator.
  rewrite (with_prefix_last_sep _ _ ":"); [reflexivity|].
  rewrite !last_sep_app. simpl. rewrite (last_sep_ident _ H). reflexivity.
Qed.

Lemma nice_neq a b : niceb a = true -> niceb b = false -> a <> b.
Proof. intros Ha Hb E. subst. congruence. Qed.

(* a generated local-label name is not a name a program can spell *)
Lemma user_name_no_dash a b : user_name (a ++ "-" ++ b) = false.
Proof.
  unfold user_name. rewrite string_forall_app. simpl. rewrite andb_false_r. simpl.
  destruct a as [|c a]; simpl; [reflexivity|]. destruct (Ascii.eqb c "$") eqn:E; [|reflexivity].
  destruct a; reflexivity.
Qed.

Lemma local_label_not_user p l : user_name (local_label p l) = false.
Proof. unfold local_label, MACRO_SEPARATOR_STRING. apply (user_name_no_dash p ("--" ++ l)). Qed.

(* ------------------------------------------------------------------------------------------ *)
(** * C. Dictionaries *)

Lemma dict_get_app {A} (d1 d2 : list (string * A)) s :
  dict_get (d1 ++ d2) s = match dict_get d1 s with Some v => Some v | None => dict_get d2 s end.
Proof. induction d1 as [|[k v] d IH]; simpl; [reflexivity|]. destruct (String.eqb k s); auto. Qed.

Lemma dict_set_fresh {A} (d : list (string * A)) k v : dict_get d k = None -> dict_set d k v = (d ++ [(k, v)])%list.
Proof.
  induction d as [|[k' v'] d IH]; simpl; [reflexivity|]. destruct (String.eqb k' k); [discriminate|].
  intros H. now rewrite IH.
Qed.

Lemma dict_get_none_iff {A} (d : list (string * A)) s : dict_get d s = None <-> ~ In s (map fst d).
Proof.
  induction d as [|[k v] d IH]; simpl; [tauto|]. destruct (String.eqb k s) eqn:E.
  - apply String.eqb_eq in E. split; [discriminate | intros H; exfalso; apply H; auto].
  - apply String.eqb_neq in E. rewrite IH. tauto.
Qed.

(* inserting bindings with pairwise different, new keys appends them *)
Lemma fold_dict_set_app {A X} (fk : X -> string) (fv : X -> A) xs : forall d,
  NoDup (map fk xs) -> (forall x, In x xs -> dict_get d (fk x) = None) ->
  fold_left (fun d x => dict_set d (fk x) (fv x)) xs d = (d ++ map (fun x => (fk x, fv x)) xs)%list.
Proof.
  induction xs as [|x xs IH]; intros d ND F; simpl; [now rewrite app_nil_r|].
  inversion ND as [|? ? Hx ND']; subst. rewrite dict_set_fresh by (apply F; simpl; auto).
  rewrite IH; [now rewrite <- app_assoc | exact ND' |].
  intros y Hy. rewrite dict_get_app, F by (simpl; auto). simpl.
  destruct (String.eqb (fk x) (fk y)) eqn:E; [|reflexivity]. apply String.eqb_eq in E.
  exfalso. apply Hx. rewrite E. now apply in_map.
Qed.

Lemma nodupb_NoDup l : nodupb l = true -> NoDup l.
Proof.
  induction l as [|x l IH]; simpl; [constructor|]. intros H. apply andb_prop in H as [Hx Hl]. constructor; auto.
  intros Hin. apply negb_true_iff in Hx. rewrite <- not_true_iff_false in Hx. apply Hx. apply existsb_exists.
  exists x. split; [exact Hin | apply String.eqb_refl].
Qed.

Lemma string_app_inj_l a b c : (a ++ b = a ++ c -> b = c)%string.
Proof. induction a as [|x a IH]; simpl; [auto|]. intros H. injection H as H. auto. Qed.

Lemma ident_no_dot s : is_ident s = true -> forall a b, s <> a ++ "." ++ b.
Proof.
  intros H a b E. subst. unfold is_ident in H. rewrite string_forall_app in H. simpl in H.
  rewrite andb_false_r in H. discriminate.
Qed.

(* ------------------------------------------------------------------------------------------ *)
(** * D. The preprocessor expands a program to what it expands the inlined program to *)

Definition empty_sub : msubst := fun _ => None.
(* the argument a_i the code passes is the folded form of the argument a_s the inliner passes *)
Definition nf_of (a_s a_i : expr) : Prop := eval_new empty_sub a_s = Ok a_i.
Definition R_sub (pd : pdict) (b : binding) : Prop :=
  Forall2 (fun x y => fst x = fst y /\ nf_of (snd y) (snd x)) pd b.
Definition nice_expr (e : expr) : Prop := Forall (fun s => niceb s = true) (expr_labels e).
Definition good_binding (b : binding) : Prop :=
  Forall (fun kv => dotted_ident (fst kv) = true /\ nice_expr (snd kv)) b.

Lemma subst_of_nil e : eval_new (subst_of []) e = eval_new empty_sub e.
Proof. apply eval_new_ext. reflexivity. Qed.

Lemma R_sub_get pd b s : R_sub pd b ->
  match lookup b s with
  | Some r => exists r', nf_of r r' /\ dict_get pd s = Some r'
  | None => dict_get pd s = None
  end.
Proof.
  induction 1 as [|[k v] [k' v'] pd b [Hk Hv] _ IH]; simpl; [reflexivity|]. simpl in Hk, Hv. subst k'.
  destruct (String.eqb k s); [eauto | exact IH].
Qed.

Lemma good_lookup b s r : good_binding b -> lookup b s = Some r -> dotted_ident s = true /\ nice_expr r.
Proof.
  induction 1 as [|[k v] b [Hk Hv] _ IH]; simpl; [discriminate|]. destruct (String.eqb k s) eqn:E.
  - apply String.eqb_eq in E. subst. intros H. injection H as <-. auto.
  - exact IH.
Qed.

Lemma nice_no_dollar e : nice_expr e -> ~ In "$" (expr_labels e).
Proof. unfold nice_expr. rewrite Forall_forall. intros H Hin. apply H in Hin. discriminate. Qed.

Lemma dotted_not_dollar s : dotted_ident s = true -> String.eqb s "$" = false.
Proof. intros H. apply String.eqb_neq. intros ->. discriminate. Qed.

Lemma comp_empty pd b : R_sub pd b -> comp_ok (lookup b) empty_sub (subst_of pd).
Proof.
  intros R s. pose proof (R_sub_get pd b s R) as G. destruct (lookup b s) as [r|]; [|exact G].
  destruct G as (r' & N & G). exists r'. auto.
Qed.

Lemma comp_nil pd b : R_sub pd b -> comp_ok (lookup b) (subst_of []) (subst_of pd).
Proof.
  intros R s. pose proof (comp_empty pd b R s) as C. destruct (lookup b s) as [r|]; [|exact C].
  destruct C as (r' & N & G). exists r'. split; [|exact G]. now rewrite subst_of_nil.
Qed.

Lemma comp_dollar pd b a : R_sub pd b -> good_binding b ->
  comp_ok (lookup b) (subst_dollar [] a) (subst_dollar pd a).
Proof.
  intros R G s. pose proof (R_sub_get pd b s R) as Gs. unfold subst_dollar. destruct (lookup b s) as [r|] eqn:E.
  - destruct Gs as (r' & N & Gs). destruct (good_lookup _ _ _ G E) as [Hk Hn]. exists r'. split.
    + rewrite <- N. apply eval_new_ext. intros x Hx. destruct (String.eqb x "$") eqn:Ex; [|reflexivity].
      apply String.eqb_eq in Ex. subst. exfalso. exact (nice_no_dollar _ Hn Hx).
    + now rewrite (dotted_not_dollar _ Hk).
  - simpl. now rewrite Gs.
Qed.

Lemma nf_lbl_inv r s : nf_of r (ELbl s) -> r = ELbl s.
Proof.
  unfold nf_of. destruct r as [z|x|o args].
  - rewrite eval_new_int. discriminate.
  - rewrite eval_new_lbl. simpl. congruence.
  - rewrite eval_new_op. intros H. apply bind_ok in H as (l & _ & H). unfold fold_op in H.
    destruct (forallb is_int l); [destruct (apply_op o (int_values l))|]; discriminate.
Qed.

Lemma nf_lbl s : nf_of (ELbl s) (ELbl s).
Proof. unfold nf_of. now rewrite eval_new_lbl. Qed.

Section Sim.
Variable w : Z.
Variable D : macro_dict.

Definition prim_ok (s : stmt) : bool :=
  stmt_primitive s && match s with SLabel n _ => niceb n | _ => true end.

Lemma prim_sim (exp : macro_name -> list expr -> path -> option (list stmt)) pd b op c c' P pi k :
  R_sub pd b -> good_binding b -> stmt_primitive op = true -> wf_stmt op = true ->
  step_core w pd op c = ROk c' ->
  inline_stmt exp (lookup b) pi k op = Some P ->
  exists op', P = [op'] /\ prim_ok op' = true /\ step_core w [] op' c = ROk c'.
Proof.
  intros R G Hp Hw Hs Hi. destruct op as [f j p|x v r p|e p|name p|? ? ?|? ? ? ? ?|e p|e p]; try discriminate; simpl in Hi.
  - injection Hi as <-. eexists. split; [reflexivity|]. split; [reflexivity|]. rewrite <- Hs. simpl.
    now rewrite !(subst_eval_new _ _ _ _ (comp_dollar pd b _ R G)).
  - injection Hi as <-. eexists. split; [reflexivity|]. split; [reflexivity|]. rewrite <- Hs. simpl.
    now rewrite !(subst_eval_new _ _ _ _ (comp_dollar pd b _ R G)).
  - injection Hi as <-. eexists. split; [reflexivity|]. split; [reflexivity|]. rewrite <- Hs. simpl.
    now rewrite (subst_eval_new _ _ _ _ (comp_nil pd b R)).
  - unfold rename_label in Hi. pose proof (R_sub_get pd b name R) as Gn. simpl in Hs. unfold eval_name in Hs.
    destruct (lookup b name) as [r|] eqn:El.
    + destruct Gn as (r' & N & Gn). rewrite Gn in Hs. destruct r as [z|s|o args]; try discriminate.
      injection Hi as <-. unfold nf_of in N. rewrite eval_new_lbl in N. simpl in N.
      injection N as <-. eexists. split; [reflexivity|]. split; [|exact Hs].
      destruct (good_lookup _ _ _ G El) as [_ Hn]. inversion Hn; subst. simpl. assumption.
    + rewrite Gn in Hs. injection Hi as <-. eexists. split; [reflexivity|]. split; [|exact Hs].
      simpl in Hw. simpl. now apply dotted_nice.
  - injection Hi as <-. eexists. split; [reflexivity|]. split; [reflexivity|]. rewrite <- Hs. simpl.
    now rewrite (subst_eval_new _ _ _ _ (comp_nil pd b R)).
  - injection Hi as <-. eexists. split; [reflexivity|]. split; [reflexivity|]. rewrite <- Hs. simpl.
    now rewrite (subst_eval_new _ _ _ _ (comp_nil pd b R)).
Qed.

Lemma rbind_ok {A B} (r : res A) (f : A -> res B) b : rbind r f = ROk b -> exists a, r = ROk a /\ f a = ROk b.
Proof. destruct r; simpl; intros H; [eauto | discriminate]. Qed.

Lemma of_eval_new_ok {A} (r : outcome A) a : of_eval_new r = ROk a -> r = Ok a.
Proof. destruct r; simpl; intros H; try discriminate. congruence. Qed.

Definition starts_ok (st : pstate) : Prop := Forall (fun e => is_start_label (snd e) = true) (ps_starts st).

(* the code run from st to st' (by a body, a call, a statement) is matched by the run of the macro-free program P *)
Definition prim_run (P : list stmt) (st st' : pstate) : Prop :=
  Forall (fun s => prim_ok s = true) P /\
  (forall D' rec' st2, ps_core st2 = ps_core st ->
    exists st2', run_ops w D' rec' [] "" P st2 = ROk st2' /\ ps_core st2' = ps_core st' /\ ps_starts st2' = ps_starts st2) /\
  (starts_ok st -> starts_ok st').

Lemma run_ops_app D' rec' pd prefix P1 P2 st :
  run_ops w D' rec' pd prefix (P1 ++ P2) st = rbind (run_ops w D' rec' pd prefix P1 st) (run_ops w D' rec' pd prefix P2).
Proof.
  revert st. induction P1 as [|op P1 IH]; intros st; simpl; [reflexivity|].
  destruct (step_op w D' rec' pd prefix op st); simpl; [apply IH | reflexivity].
Qed.

Lemma prim_run_nil st : prim_run [] st st.
Proof. split; [constructor|]. split; [|auto]. intros D' rec' st2 E. exists st2. simpl. auto. Qed.

Lemma prim_run_app P1 P2 st st1 st' : prim_run P1 st st1 -> prim_run P2 st1 st' -> prim_run (P1 ++ P2) st st'.
Proof.
  intros (F1 & H1 & S1) (F2 & H2 & S2). split; [now apply Forall_app|]. split; [|auto]. intros D' rec' st2 E.
  destruct (H1 D' rec' st2 E) as (sa & Ra & Ca & Sa). destruct (H2 D' rec' sa Ca) as (sb & Rb & Cb & Sb).
  exists sb. rewrite run_ops_app, Ra. simpl. rewrite Rb. split; [reflexivity|]. split; congruence.
Qed.

Lemma prim_run_from P a st st' :
  ps_core a = ps_core st -> (starts_ok a -> starts_ok st) -> prim_run P st st' -> prim_run P a st'.
Proof.
  intros Ea Sa (F & H & S). split; [exact F|]. split; [|auto]. intros D' rec' st2 E.
  destruct (H D' rec' st2 (eq_trans E Ea)) as (s' & R1 & R2 & R3). exists s'. repeat split; congruence.
Qed.

Lemma step_op_prim D' rec' pd prefix op st :
  stmt_primitive op = true -> step_op w D' rec' pd prefix op st = on_core st (step_core w pd op (ps_core st)).
Proof. destruct op; simpl; intros H; try discriminate; reflexivity. Qed.

Lemma sim_prim_step rec exp pd b prefix op st st1 P pi k :
  R_sub pd b -> good_binding b -> stmt_primitive op = true -> wf_stmt op = true ->
  step_op w D rec pd prefix op st = ROk st1 -> inline_stmt exp (lookup b) pi k op = Some P -> prim_run P st st1.
Proof.
  intros R G Hp Hw Hs Hi. rewrite step_op_prim in Hs by exact Hp. unfold on_core in Hs.
  apply rbind_ok in Hs as (c' & Hc & Hs). injection Hs as <-.
  destruct (prim_sim exp pd b op _ _ _ pi k R G Hp Hw Hc Hi) as (op' & -> & Hp' & Hc').
  split; [constructor; auto|]. split; [|auto]. intros D' rec' st2 E. simpl. rewrite step_op_prim.
  - rewrite E, Hc'. simpl. eexists. split; [reflexivity|]. simpl. auto.
  - unfold prim_ok in Hp'. now apply andb_prop in Hp' as [? _].
Qed.

(* the substitution of one repetition: the iterator bound to j, the parameters as before *)
Definition ov (pd : pdict) (it : string) (j : Z) : msubst :=
  fun s => if String.eqb s it then Some (EInt j) else dict_get pd s.

(* the three passes of the code over a rep argument (rename the iterator to a hygienic name, substitute the
   parameters, substitute the index for the hygienic name) are ONE simultaneous pass in which the iterator is the
   innermost binder *)
Lemma rep_arg_fusion pd it H j a a1 a2 :
  (forall k v, dict_get pd k = Some v -> minimal v /\ ~ In H (expr_labels v)) ->
  dict_get pd H = None -> ~ In H (expr_labels a) ->
  eval_new (subst_one it (ELbl H)) a = Ok a1 -> eval_new (subst_of pd) a1 = Ok a2 ->
  eval_new (subst_one H (EInt j)) a2 = eval_new (ov pd it j) a.
Proof.
  intros Hpd HH Ha E1 E2.
  set (s1 := fun s => if String.eqb s it then Some (ELbl H) else dict_get pd s).
  assert (C1 : comp_ok (subst_one it (ELbl H)) (subst_of pd) s1).
  { intros s. unfold subst_one, s1. destruct (String.eqb s it); [|reflexivity].
    exists (ELbl H). split; [|reflexivity]. rewrite eval_new_lbl. unfold subst_of. now rewrite HH. }
  rewrite (eval_new_fusion _ _ _ _ _ C1 E1) in E2.
  set (s2 := fun s => if String.eqb s it then Some (EInt j)
                      else match dict_get pd s with Some v => Some v | None => subst_one H (EInt j) s end).
  assert (C2 : comp_ok s1 (subst_one H (EInt j)) s2).
  { intros s. unfold s1, s2. destruct (String.eqb s it).
    - exists (EInt j). split; [|reflexivity]. rewrite eval_new_lbl. unfold subst_one. now rewrite String.eqb_refl.
    - destruct (dict_get pd s) as [v|] eqn:Ev; [|reflexivity]. exists v. split; [|reflexivity].
      destruct (Hpd _ _ Ev) as [Mv Nv]. apply eval_new_stable; [exact Mv|]. intros x Hx. unfold subst_one.
      destruct (String.eqb x H) eqn:Ex; [|reflexivity]. apply String.eqb_eq in Ex. subst. contradiction. }
  rewrite (eval_new_fusion _ _ _ _ _ C2 E2). apply eval_new_ext. intros s Hs. unfold s2, ov.
  destruct (String.eqb s it); [reflexivity|]. destruct (dict_get pd s); [reflexivity|]. unfold subst_one.
  destruct (String.eqb s H) eqn:Ex; [|reflexivity]. apply String.eqb_eq in Ex. subst. contradiction.
Qed.

Lemma comp_ov pd b it j : R_sub pd b -> comp_ok (override (lookup b) it (EInt j)) empty_sub (ov pd it j).
Proof.
  intros R s. unfold override, ov. destruct (String.eqb s it).
  - exists (EInt j). split; [apply eval_new_int | reflexivity].
  - apply (comp_empty pd b R s).
Qed.

Lemma nice_dotted_labels e : arg_ok e = true -> nice_expr e.
Proof.
  unfold arg_ok, nice_expr. rewrite forallb_forall, Forall_forall. intros H s Hs. apply dotted_nice. auto.
Qed.

Lemma subst_nice e sg :
  (forall s r, sg s = Some r -> nice_expr r) -> nice_expr e -> nice_expr (subst sg e).
Proof. intros. now apply subst_labels. Qed.

Lemma R_sub_values pd b k v : R_sub pd b -> good_binding b -> dict_get pd k = Some v ->
  minimal v /\ nice_expr v.
Proof.
  intros R G E. pose proof (R_sub_get pd b k R) as Gk. destruct (lookup b k) as [r|] eqn:El; [|congruence].
  destruct Gk as (r' & N & Gk). rewrite E in Gk. injection Gk as <-. destruct (good_lookup _ _ _ G El) as [_ Hn]. split.
  - eapply eval_new_minimal; [|exact N]. discriminate.
  - eapply (eval_new_labels (fun s => niceb s = true)); [| exact Hn | exact N]. discriminate.
Qed.

Lemma R_sub_no_key pd b s : R_sub pd b -> good_binding b -> niceb s = false -> dict_get pd s = None.
Proof.
  intros R G Hs. pose proof (R_sub_get pd b s R) as Gs. destruct (lookup b s) as [r|] eqn:El; [|exact Gs].
  destruct (good_lookup _ _ _ G El) as [Hk _]. apply dotted_nice in Hk. congruence.
Qed.

Lemma not_nice_not_in e s : nice_expr e -> niceb s = false -> ~ In s (expr_labels e).
Proof. unfold nice_expr. rewrite Forall_forall. intros H Hs Hin. apply H in Hin. congruence. Qed.


Lemma Forall2_map_left {A B C} (R : B -> C -> Prop) (f : A -> B) l l' :
  Forall2 (fun x y => R (f x) y) l l' -> Forall2 R (map f l) l'.
Proof. induction 1; simpl; constructor; auto. Qed.

Lemma Forall2_imp {A B} (P Q : A -> B -> Prop) l l' :
  (forall x y, P x y -> Q x y) -> Forall2 P l l' -> Forall2 Q l l'.
Proof. intros H. induction 1; constructor; auto. Qed.

Lemma Forall2_compose {A B C} (P : A -> B -> Prop) (Q : B -> C -> Prop) l1 l2 l3 :
  Forall2 P l1 l2 -> Forall2 Q l2 l3 -> Forall2 (fun x z => exists y, P x y /\ Q y z) l1 l3.
Proof.
  intros H. revert l3. induction H; intros l3 H3; inversion H3; subst; constructor; eauto.
Qed.

(* what a recursive call of the code does is what expanding the inlined callee does *)
Definition HRec (rec : option (macro_name -> list expr -> string -> pstate -> res pstate))
                (exp : macro_name -> list expr -> path -> option (list stmt)) : Prop :=
  forall f, rec = Some f ->
  forall mn args_i args_s pi st st' P,
    Forall2 nf_of args_s args_i -> Forall nice_expr args_s ->
    f mn args_i (render_path pi) st = ROk st' ->
    exp mn args_s pi = Some P ->
    prim_run P st st'.

Lemma render_path_snoc pi s : render_path (pi ++ [s])%list = step_path (render_path pi) s.
Proof. unfold render_path. now rewrite fold_left_app. Qed.

Lemma good_values_nice b : good_binding b -> forall s r, lookup b s = Some r -> nice_expr r.
Proof. intros G s r E. exact (proj2 (good_lookup _ _ _ G E)). Qed.

Lemma forallb_arg_ok_nice args : forallb arg_ok args = true -> Forall nice_expr args.
Proof. rewrite forallb_forall, Forall_forall. intros H a Ha. apply nice_dotted_labels. auto. Qed.

Lemma sim_call_step rec exp pd b pi k name args pos st st1 P :
  HRec rec exp -> R_sub pd b -> good_binding b -> forallb arg_ok args = true ->
  step_op w D rec pd (render_path pi) (SMacroCall name args pos) st = ROk st1 ->
  inline_stmt exp (lookup b) pi k (SMacroCall name args pos) = Some P -> prim_run P st st1.
Proof.
  intros HR R G Hargs Hs Hi. simpl in Hs, Hi.
  apply rbind_ok in Hs as (args' & Ha & Hs). apply of_eval_new_ok in Ha.
  apply rbind_ok in Hs as ([] & _ & Hs). unfold call in Hs. destruct rec as [f|] eqn:Er; [|discriminate].
  apply forallb_arg_ok_nice in Hargs.
  eapply (HR f eq_refl (call_name name args) args' (map (subst (lookup b)) args)
             (pi ++ [mkstep k (SMacroCall name args pos) None])%list).
  - apply Forall2_map_left. apply eval_list_ok in Ha. eapply Forall2_imp; [|exact Ha].
    intros a a' E. unfold nf_of. now rewrite (subst_eval_new _ _ _ _ (comp_empty pd b R)).
  - rewrite Forall_forall in *. intros x Hx. apply in_map_iff in Hx as (a & <- & Ha').
    apply subst_nice; [apply (good_values_nice _ G) | auto].
  - rewrite render_path_snoc. exact Hs.
  - exact Hi.
Qed.

Lemma sim_rep_loop rec exp pd b pi k times it name args pos args2 :
  HRec rec exp -> R_sub pd b -> good_binding b -> forallb arg_ok args = true -> is_ident it = true ->
  let s := SRepCall times it name args pos in
  let mn := call_name name args in
  let hyg := hygienic_iterator (render_path pi) pos it in
  Forall2 (fun a a2 => exists a1, eval_new (subst_one it (ELbl hyg)) a = Ok a1 /\ eval_new (subst_of pd) a1 = Ok a2) args args2 ->
  forall cnt i st st1 P,
    rep_loop rec mn hyg args2 (render_path pi) pos cnt i st = ROk st1 ->
    unroll exp mn (lookup b) it args pi k s cnt i = Some P ->
    prim_run P st st1.
Proof.
  intros HR R G Hargs Hit s mn hyg F. apply forallb_arg_ok_nice in Hargs.
  assert (Hh : niceb hyg = false) by (apply hyg_not_nice; exact Hit).
  induction cnt as [|n IH]; intros i st st1 P Hl Hu; simpl in Hl, Hu.
  - injection Hl as <-. injection Hu as <-. apply prim_run_nil.
  - destruct (eval_list (subst_one hyg (EInt i)) args2) as [args_i| |] eqn:Ei; try discriminate.
    apply rbind_ok in Hl as (sa & Hc & Hl). unfold call in Hc. destruct rec as [f|] eqn:Er; [|discriminate].
    unfold app2 in Hu.
    destruct (exp mn (map (subst (override (lookup b) it (EInt i))) args) (pi ++ [mkstep k s (Some i)])%list) as [Pa|] eqn:Ea;
      [|discriminate].
    destruct (unroll exp mn (lookup b) it args pi k s n (i + 1)%Z) as [Pb|] eqn:Eb; [|discriminate].
    injection Hu as <-. apply prim_run_app with sa; [|eapply IH; eauto].
    eapply (HR f eq_refl mn args_i _ _ st sa Pa); [| | |exact Ea].
    + apply Forall2_map_left. apply eval_list_ok in Ei.
      pose proof (Forall2_compose _ _ _ _ _ F Ei) as F3. clear F Ei.
      rewrite Forall_forall in Hargs.
      assert (F4 : Forall2 (fun x z => In x args /\ exists y, (exists a1, eval_new (subst_one it (ELbl hyg)) x = Ok a1 /\
                              eval_new (subst_of pd) a1 = Ok y) /\ eval_new (subst_one hyg (EInt i)) y = Ok z) args args_i).
      { clear - F3. induction F3; constructor; [split; [simpl; auto|exact H]|].
        eapply Forall2_imp; [|exact IHF3]. intros ? ? [? ?]. split; [simpl; auto | auto]. }
      eapply Forall2_imp; [|exact F4]. intros a z (Hin & a2 & (a1 & E1 & E2) & E3). unfold nf_of.
      rewrite (subst_eval_new _ _ _ _ (comp_ov pd b it i R)).
      rewrite <- (rep_arg_fusion pd it hyg i a a1 a2); auto.
      * intros k0 v Ev. destruct (R_sub_values pd b k0 v R G Ev) as [Mv Nv]. split; [exact Mv|].
        now apply not_nice_not_in.
      * now apply (R_sub_no_key pd b).
      * apply not_nice_not_in; auto.
    + rewrite Forall_forall in *. intros x Hx. apply in_map_iff in Hx as (a & <- & Ha').
      apply subst_nice; [|auto]. intros x r. unfold override. destruct (String.eqb x it).
      * intros E. injection E as <-. constructor.
      * apply (good_values_nice _ G).
    + rewrite render_path_snoc. exact Hc.
Qed.

Lemma sim_rep_step rec exp pd b pi k times it name args pos st st1 P :
  HRec rec exp -> R_sub pd b -> good_binding b -> forallb arg_ok args = true -> is_ident it = true ->
  step_op w D rec pd (render_path pi) (SRepCall times it name args pos) st = ROk st1 ->
  inline_stmt exp (lookup b) pi k (SRepCall times it name args pos) = Some P -> prim_run P st st1.
Proof.
  intros HR R G Hargs Hit Hs Hi. simpl in Hs, Hi.
  apply rbind_ok in Hs as (args1 & H1 & Hs). apply of_eval_new_ok in H1.
  apply rbind_ok in Hs as (times' & Ht & Hs). apply of_eval_new_ok in Ht.
  apply rbind_ok in Hs as (args2 & H2 & Hs). apply of_eval_new_ok in H2.
  apply rbind_ok in Hs as (n & Hn & Hs).
  unfold const_value in Hi. destruct (exact_eval (fun _ => None) (subst (lookup b) times)) as [ns| |] eqn:Ec; try discriminate.
  apply const_folds in Ec. fold empty_sub in Ec. rewrite (subst_eval_new _ _ _ _ (comp_empty pd b R)) in Ec.
  rewrite Ec in Ht. injection Ht as <-. unfold calc in Hn. rewrite exact_eval_int in Hn. injection Hn as <-.
  destruct (ns =? 0)%Z eqn:E0.
  - injection Hs as <-. apply Z.eqb_eq in E0. subst ns. simpl in Hi. injection Hi as <-. apply prim_run_nil.
  - apply rbind_ok in Hs as ([] & _ & Hs).
    eapply (sim_rep_loop rec exp pd b pi k times it name args pos args2); eauto.
    apply eval_list_ok in H1. apply eval_list_ok in H2. exact (Forall2_compose _ _ _ _ _ H1 H2).
Qed.

(* the statements of a body are well formed (what the parser guarantees) *)
Lemma sim_step rec exp pd b pi k op st st1 P :
  HRec rec exp -> R_sub pd b -> good_binding b -> wf_stmt op = true ->
  step_op w D rec pd (render_path pi) op st = ROk st1 ->
  inline_stmt exp (lookup b) pi k op = Some P -> prim_run P st st1.
Proof.
  intros HR R G Hw Hs Hi. destruct (stmt_primitive op) eqn:Hp.
  - eapply sim_prim_step; eauto.
  - destruct op; try discriminate; simpl in Hw.
    + apply andb_prop in Hw as [Hw _]. apply andb_prop in Hw as [_ Hw]. eapply sim_call_step; eauto.
    + apply andb_prop in Hw as [Hw _]. apply andb_prop in Hw as [Hw Ha]. apply andb_prop in Hw as [Hw _].
      apply andb_prop in Hw as [_ Hit]. eapply sim_rep_step; eauto.
Qed.

Lemma sim_ops rec exp : HRec rec exp ->
  forall ops k pd b pi st st' P,
    R_sub pd b -> good_binding b -> forallb wf_stmt ops = true ->
    run_ops w D rec pd (render_path pi) ops st = ROk st' ->
    inline_ops exp (lookup b) pi k ops = Some P -> prim_run P st st'.
Proof.
  intros HR. induction ops as [|op ops IH]; intros k pd b pi st st' P R G Hw Hr Hi; simpl in Hr, Hi.
  - injection Hr as <-. injection Hi as <-. apply prim_run_nil.
  - simpl in Hw. apply andb_prop in Hw as [Hw1 Hw2]. apply rbind_ok in Hr as (s1 & Hs & Hr).
    unfold app2 in Hi. destruct (inline_stmt exp (lookup b) pi k op) as [P1|] eqn:E1; [|discriminate].
    destruct (inline_ops exp (lookup b) pi (S k) ops) as [P2|] eqn:E2; [|discriminate]. injection Hi as <-.
    apply prim_run_app with s1; [eapply sim_step; eauto | eapply IH; eauto].
Qed.

End Sim.

(* ------------------------------------------------------------------------------------------ *)
(** * E. get_params_dictionary builds the bindings of the specification *)

Lemma map_pair_id {A B} (l : list (A * B)) : map (fun x => (fst x, snd x)) l = l.
Proof. induction l as [|[a b] l IH]; simpl; congruence. Qed.

Lemma in_combine_fst {A B} (l : list A) (l' : list B) x : In x (map fst (combine l l')) -> In x l.
Proof. intros H. apply in_map_iff in H as ([a b] & <- & H). simpl. eapply in_combine_l; eauto. Qed.

Lemma NoDup_combine_fst {A B} (l : list A) : forall (l' : list B), NoDup l -> NoDup (map fst (combine l l')).
Proof.
  induction l as [|x l IH]; intros l' H; simpl; [constructor|]. destruct l' as [|y l']; simpl; [constructor|].
  inversion H; subst. constructor; [|auto]. intros Hin. apply in_combine_fst in Hin. contradiction.
Qed.

Lemma NoDup_app_l {A} (l l' : list A) : NoDup (l ++ l') -> NoDup l.
Proof.
  induction l as [|x l IH]; simpl; intros H; [constructor|]. inversion H; subst. constructor; [|auto].
  intros Hin. apply H2. apply in_or_app. auto.
Qed.

Lemma NoDup_app_r {A} (l l' : list A) : NoDup (l ++ l') -> NoDup l'.
Proof. induction l as [|x l IH]; simpl; intros H; [exact H|]. inversion H; auto. Qed.

Lemma NoDup_app_disj {A} (l l' : list A) x : NoDup (l ++ l') -> In x l -> In x l' -> False.
Proof.
  induction l as [|y l IH]; simpl; intros H H1 H2; [contradiction|]. inversion H; subst.
  destruct H1 as [->|H1]; [apply H4; apply in_or_app; auto | eauto].
Qed.

Lemma NoDup_map_inj {A B} (f : A -> B) l : (forall x y, f x = f y -> x = y) -> NoDup l -> NoDup (map f l).
Proof.
  intros Hf. induction 1 as [|x l Hx _ IH]; simpl; constructor; [|exact IH].
  intros Hin. apply in_map_iff in Hin as (y & E & Hy). apply Hf in E. subst. contradiction.
Qed.

Lemma string_forall_dotted_qual ns k : dotted_ident ns = true -> is_ident k = true -> dotted_ident (ns ++ "." ++ k) = true.
Proof.
  intros Hn Hk. unfold dotted_ident in *. rewrite string_forall_app, Hn. simpl.
  apply ident_dotted in Hk. exact Hk.
Qed.

Lemma Forall2_combine_nf ps : forall args_s args_i, Forall2 nf_of args_s args_i ->
  Forall2 (fun x y : string * expr => fst x = fst y /\ nf_of (snd y) (snd x)) (combine ps args_i) (combine ps args_s).
Proof.
  induction ps as [|p ps IH]; intros args_s args_i F; simpl; [constructor|].
  inversion F; subst; simpl; constructor; auto.
Qed.

Lemma NoDup_base_keys {B} (ps ls : list string) : forall (args : list B),
  NoDup (ps ++ ls) -> NoDup (map fst (combine ps args) ++ ls).
Proof.
  induction ps as [|p ps IH]; intros args ND; simpl; [exact ND|]. destruct args as [|a args]; simpl.
  - eapply NoDup_app_r. exact ND.
  - simpl in ND. inversion ND; subst. constructor; [|auto]. intros Hin. apply H1.
    apply in_app_or in Hin as [Hin|Hin]; apply in_or_app; auto. left. eapply in_combine_fst; eauto.
Qed.

Lemma params_dict_shape m args prefix :
  wf_macro m = true ->
  let base := (combine (m_params m) args ++ map (fun l => (l, ELbl (local_label prefix l))) (m_locals m))%list in
  get_params_dictionary m args prefix =
    (base ++ (if String.eqb (m_ns m) "" then [] else map (fun kv => ((m_ns m ++ "." ++ fst kv)%string, snd kv)) base))%list
  /\ Forall (fun k => is_ident k = true) (map fst base).
Proof.
  intros Hw base. unfold wf_macro in Hw.
  apply andb_prop in Hw as [Hw _]. apply andb_prop in Hw as [Hw _]. apply andb_prop in Hw as [Hw Hns].
  apply andb_prop in Hw as [Hid Hnd]. apply nodupb_NoDup in Hnd. rewrite forallb_forall in Hid.
  assert (Hkeys : forall k, In k (map fst base) -> In k (m_params m ++ m_locals m)%list).
  { intros k Hk. unfold base in Hk. rewrite map_app in Hk. apply in_app_or in Hk as [Hk|Hk]; apply in_or_app.
    - left. eapply in_combine_fst; eauto.
    - right. rewrite map_map in Hk. simpl in Hk. now rewrite map_id in Hk. }
  assert (Hidk : Forall (fun k => is_ident k = true) (map fst base)).
  { apply Forall_forall. intros k Hk. auto. }
  split; [|exact Hidk].
  unfold get_params_dictionary.
  assert (E0 : fold_left (fun d kv => dict_set d (fst kv) (snd kv)) (combine (m_params m) args) [] = combine (m_params m) args).
  { rewrite (fold_dict_set_app fst snd); [simpl; apply map_pair_id | | reflexivity].
    apply NoDup_combine_fst. eapply NoDup_app_l; eauto. }
  rewrite E0.
  assert (E1 : fold_left (fun d l => dict_set d l (ELbl (local_label prefix l))) (m_locals m) (combine (m_params m) args) = base).
  { rewrite (fold_dict_set_app (fun l => l) (fun l => ELbl (local_label prefix l))); [reflexivity | |].
    - rewrite map_id. eapply NoDup_app_r; eauto.
    - intros l Hl. apply dict_get_none_iff. intros Hin. apply in_combine_fst in Hin.
      exact (NoDup_app_disj _ _ _ Hnd Hin Hl). }
  rewrite E1. destruct (String.eqb (m_ns m) "") eqn:En; [now rewrite app_nil_r|].
  rewrite (fold_dict_set_app (fun kv => m_ns m ++ "." ++ fst kv) snd); [reflexivity | |].
  - rewrite <- (map_map fst (fun k => m_ns m ++ "." ++ k)). apply NoDup_map_inj.
    + intros x y E. now apply string_app_inj_l in E as E'; apply (string_app_inj_l ".") in E'.
    + unfold base. rewrite map_app. rewrite map_map. simpl. rewrite map_id. now apply NoDup_base_keys.
  - intros kv Hkv. apply dict_get_none_iff. intros Hin. rewrite Forall_forall in Hidk. apply Hidk in Hin.
    exact (ident_no_dot _ Hin (m_ns m) (fst kv) eq_refl).
Qed.

Lemma params_dict_rel m args_i args_s pi :
  wf_macro m = true -> Forall2 nf_of args_s args_i -> Forall nice_expr args_s ->
  R_sub (get_params_dictionary m args_i (render_path pi)) (bind_macro impl_fresh m args_s pi) /\
  good_binding (bind_macro impl_fresh m args_s pi).
Proof.
  intros Hw F N. destruct (params_dict_shape m args_i (render_path pi) Hw) as [-> _].
  destruct (params_dict_shape m args_s (render_path pi) Hw) as [_ Hid].
  unfold wf_macro in Hw. apply andb_prop in Hw as [Hw _]. apply andb_prop in Hw as [Hw _]. apply andb_prop in Hw as [_ Hns].
  unfold bind_macro, qualify, impl_fresh.
  set (bi := (combine (m_params m) args_i ++ map (fun l => (l, ELbl (local_label (render_path pi) l))) (m_locals m))%list).
  set (bs := (combine (m_params m) args_s ++ map (fun l => (l, ELbl (local_label (render_path pi) l))) (m_locals m))%list) in *.
  assert (RB : Forall2 (fun x y : string * expr => fst x = fst y /\ nf_of (snd y) (snd x)) bi bs).
  { unfold bi, bs. apply Forall2_app; [now apply Forall2_combine_nf|].
    clear. generalize (m_locals m). intros ls. induction ls; simpl; constructor; auto. split; [reflexivity | apply nf_lbl]. }
  assert (GB : Forall (fun kv : string * expr => is_ident (fst kv) = true /\ nice_expr (snd kv)) bs).
  { apply Forall_forall. intros [k v] Hkv. simpl. split.
    - rewrite Forall_forall in Hid. apply Hid. apply in_map_iff. exists (k, v). auto.
    - unfold bs in Hkv. apply in_app_or in Hkv as [Hkv|Hkv].
      + apply in_combine_r in Hkv. rewrite Forall_forall in N. auto.
      + apply in_map_iff in Hkv as (l & E & Hl). injection E as <- <-. constructor; [|constructor].
        apply local_label_nice. rewrite Forall_forall in Hid. apply Hid. unfold bs. rewrite map_app. apply in_or_app. right.
        rewrite map_map. simpl. now rewrite map_id. }
  split.
  - unfold R_sub. apply Forall2_app; [exact RB|]. destruct (String.eqb (m_ns m) ""); [constructor|].
    clear - RB. induction RB; simpl; constructor; auto. destruct H. simpl. split; congruence.
  - unfold good_binding. apply Forall_app. split.
    + eapply Forall_impl; [|exact GB]. intros [k v] [H1 H2]. split; [now apply ident_dotted | exact H2].
    + destruct (String.eqb (m_ns m) ""); [constructor|]. apply Forall_forall. intros [k v] Hkv.
      apply in_map_iff in Hkv as ([k0 v0] & E & Hin). injection E as <- <-. rewrite Forall_forall in GB.
      destruct (GB _ Hin) as [H1 H2]. split; [now apply string_forall_dotted_qual | exact H2].
Qed.

(* ------------------------------------------------------------------------------------------ *)
(** * F. The whole program *)

Lemma string_app_assoc a b c : ((a ++ b) ++ c = a ++ (b ++ c))%string.
Proof. induction a as [|x a IH]; simpl; congruence. Qed.

Lemma ends_with_app suf a : ends_with suf (a ++ suf) = true.
Proof.
  induction a as [|c a IH].
  - simpl. destruct suf; cbn [ends_with]; now rewrite String.eqb_refl.
  - change ((String c a ++ suf)%string) with (String c (a ++ suf)). cbn [ends_with]. rewrite IH. apply orb_true_r.
Qed.

Lemma start_label_is_start prefix : is_start_label (start_label prefix) = true.
Proof.
  unfold is_start_label, start_label, local_label.
  rewrite <- (string_app_assoc prefix MACRO_SEPARATOR_STRING STARTING_LABEL_IN_MACROS_STRING). apply ends_with_app.
Qed.

Section Main.
Variable w : Z.
Variable D : macro_dict.
Hypothesis WF : wf_tree D = true.

Definition rec_of (n : nat) : option (macro_name -> list expr -> string -> pstate -> res pstate) :=
  match n with O => None | S f => Some (resolve_macro_aux w D f) end.

Lemma resolve_macro_aux_eq n mn args prefix st :
  resolve_macro_aux w D n mn args prefix st =
  match find_macro D mn with
  | None => RErr KeyErrorMacro
  | Some m => macro_body w D (rec_of n) m args prefix st
  end.
Proof. destruct n; reflexivity. Qed.

Lemma find_macro_in (d : macro_dict) mn m : find_macro d mn = Some m -> exists k, In (k, m) d /\ macro_name_eqb k mn = true.
Proof.
  induction d as [|[k m'] d IH]; simpl; [discriminate|]. destruct (macro_name_eqb k mn) eqn:E.
  - intros H. injection H as <-. exists k. auto.
  - intros H. destruct (IH H) as (k' & Hin & Hk). exists k'. auto.
Qed.

Lemma find_macro_wf mn m : find_macro D mn = Some m -> exists k, wf_entry (k, m) = true /\ macro_name_eqb k mn = true.
Proof.
  intros H. destruct (find_macro_in _ _ _ H) as (k & Hin & Hk). exists k. split; [|exact Hk].
  unfold wf_tree in WF. rewrite forallb_forall in WF. auto.
Qed.

Lemma wf_entry_macro k m : wf_entry (k, m) = true -> wf_macro m = true /\ forallb wf_stmt (m_ops m) = true.
Proof.
  unfold wf_entry. simpl. intros H. apply andb_prop in H as [H _]. apply andb_prop in H as [_ H]. split; [exact H|].
  unfold wf_macro in H. apply andb_prop in H as [H _]. now apply andb_prop in H as [_ H].
Qed.

Lemma sim_fuel n : HRec w (rec_of n) (inline_call impl_fresh D n).
Proof.
  induction n as [|n IH]; intros f E; [discriminate|]. injection E as <-.
  intros mn args_i args_s pi st st' P F N Hr He. rewrite resolve_macro_aux_eq in Hr. simpl in He.
  destruct (find_macro D mn) as [m|] eqn:Ef; [|discriminate].
  destruct (find_macro_wf _ _ Ef) as (k & Hk & _). destruct (wf_entry_macro _ _ Hk) as [Hm Hops].
  destruct (params_dict_rel m args_i args_s pi Hm F N) as [R G]. unfold macro_body in Hr.
  eapply prim_run_from; [| |eapply (sim_ops w D _ _ IH); eauto]; [reflexivity|].
  simpl. intros S. constructor; [apply start_label_is_start | exact S].
Qed.

Lemma main_macro_dict m k : wf_entry (k, m) = true -> macro_name_eqb k main_macro_name = true ->
  get_params_dictionary m [] "" = [].
Proof.
  unfold wf_entry. simpl. intros H Hk. rewrite Hk in H. apply andb_prop in H as [H Hl].
  apply andb_prop in H as [H _]. apply andb_prop in H as [_ Ha].
  unfold macro_name_eqb in Hk. apply andb_prop in Hk as [_ Hk]. simpl in Hk. apply N.eqb_eq in Hk. apply N.eqb_eq in Ha.
  rewrite Hk in Ha. destruct (m_params m) as [|p ps] eqn:Ep; [|discriminate]. destruct (m_locals m) eqn:El; [|discriminate].
  unfold get_params_dictionary. rewrite Ep, El. simpl. now destruct (String.eqb (m_ns m) "").
Qed.

(* the state when the main macro has been expanded: the code on the macro program / on the inlined program *)
Theorem inline_sim depth st P :
  resolve_main w D depth = ROk st -> inline impl_fresh D (N.to_nat depth) = Some P ->
  prim_run w P init_state st.
Proof.
  unfold resolve_main, inline, main_ops. intros Hr Hi. rewrite resolve_macro_aux_eq in Hr.
  destruct (find_macro D main_macro_name) as [m|] eqn:Ef; [|discriminate].
  destruct (find_macro_wf _ _ Ef) as (k & Hk & Hkn). destruct (wf_entry_macro _ _ Hk) as [Hm Hops].
  unfold macro_body in Hr. rewrite (main_macro_dict _ _ Hk Hkn) in Hr.
  eapply prim_run_from; [| |eapply (sim_ops w D _ _ (sim_fuel (N.to_nat depth)) (m_ops m) 0%nat [] [] []); eauto].
  - reflexivity.
  - simpl. intros S. constructor; [apply start_label_is_start | exact S].
  - constructor.
  - constructor.
Qed.

End Main.

(* ------------------------------------------------------------------------------------------ *)
(** * G. PreprocessorData.finish, and the final statement *)

Lemma uint_ident d : is_ident (NilEmpty.string_of_uint d) = true.
Proof. induction d; simpl; auto. Qed.

Lemma dec_ident n : is_ident (dec n) = true.
Proof. apply uint_ident. Qed.

Lemma is_ident_app a b : is_ident (a ++ b) = is_ident a && is_ident b.
Proof. apply string_forall_app. Qed.

Definition labels_nice (c : core) : Prop := Forall (fun kv => niceb (fst kv) = true) (c_labels c).

Lemma dict_set_forall {A} (Q : string * A -> Prop) d k v : Forall Q d -> Q (k, v) -> Forall Q (dict_set d k v).
Proof.
  induction d as [|[k' v'] d IH]; simpl; intros F H; [constructor; auto|]. inversion F; subst.
  destruct (String.eqb k' k); constructor; auto.
Qed.

Lemma dict_get_set_other {A} (d : list (string * A)) k v s : s <> k -> dict_get (dict_set d k v) s = dict_get d s.
Proof.
  intros N. induction d as [|[k' v'] d IH]; simpl.
  - destruct (String.eqb k s) eqn:E; [apply String.eqb_eq in E; congruence | reflexivity].
  - destruct (String.eqb k' k) eqn:E; simpl.
    + apply String.eqb_eq in E. subst k'. destruct (String.eqb k s) eqn:E2; [apply String.eqb_eq in E2; congruence | reflexivity].
    + now rewrite IH.
Qed.

Lemma wflip_label_nice n : niceb (wflip_start_label ++ dec n) = true.
Proof.
  apply dotted_nice. unfold dotted_ident. rewrite string_forall_app. simpl. apply (ident_dotted _ (dec_ident n)).
Qed.

Lemma step_core_nil_labels w op c c' :
  prim_ok op = true -> step_core w [] op c = ROk c' -> labels_nice c -> labels_nice c'.
Proof.
  unfold labels_nice. intros Hp Hs L. destruct op as [f j p|x v r p|e p|name p|? ? ?|? ? ? ? ?|e p|e p]; simpl in Hs; try discriminate.
  - apply rbind_ok in Hs as (? & _ & Hs). apply rbind_ok in Hs as (? & _ & Hs). now injection Hs as <-.
  - apply rbind_ok in Hs as (? & _ & Hs). apply rbind_ok in Hs as (? & _ & Hs). apply rbind_ok in Hs as (? & _ & Hs).
    now injection Hs as <-.
  - apply rbind_ok in Hs as (? & _ & Hs). apply rbind_ok in Hs as (n & _ & Hs). destruct (n <=? 0)%Z; [discriminate|].
    destruct (negb _); [discriminate|]. destruct (_ >? _)%Z; [discriminate|]. now injection Hs as <-.
  - unfold insert_label in Hs. destruct (dict_mem (c_labels c) name); [discriminate|]. injection Hs as <-. simpl.
    apply dict_set_forall; [exact L|]. unfold prim_ok in Hp. simpl in Hp. exact Hp.
  - apply rbind_ok in Hs as (? & _ & Hs). apply rbind_ok in Hs as (a & _ & Hs). destruct (negb _); [discriminate|].
    unfold insert_segment in Hs. destruct (dict_mem _ _); [discriminate|].
    injection Hs as <-. simpl. apply dict_set_forall; [exact L|]. apply wflip_label_nice.
  - apply rbind_ok in Hs as (? & _ & Hs). apply rbind_ok in Hs as (r & _ & Hs). destruct (r <? 0)%Z; [discriminate|].
    destruct (negb _); [discriminate|]. now injection Hs as <-.
Qed.

Lemma prim_labels_nice w D' rec' P : forall st st',
  Forall (fun s => prim_ok s = true) P -> run_ops w D' rec' [] "" P st = ROk st' ->
  labels_nice (ps_core st) -> labels_nice (ps_core st').
Proof.
  induction P as [|op P IH]; intros st st' F Hr L; simpl in Hr; [now injection Hr as <-|].
  inversion F as [|? ? Hop FP]; subst. apply rbind_ok in Hr as (s1 & Hs & Hr). eapply IH; [exact FP | exact Hr |].
  assert (Hp : stmt_primitive op = true) by (unfold prim_ok in Hop; now apply andb_prop in Hop as [? _]).
  rewrite step_op_prim in Hs by exact Hp. unfold on_core in Hs. apply rbind_ok in Hs as (c' & Hc & Hs). injection Hs as <-.
  simpl. eapply step_core_nil_labels; eauto.
Qed.

Lemma insert_start_labels_spec starts : forall c c',
  Forall (fun e : Z * string => is_start_label (snd e) = true) starts ->
  insert_start_labels starts c = ROk c' ->
  c_rops c' = c_rops c /\ forall s, is_start_label s = false -> dict_get (c_labels c') s = dict_get (c_labels c) s.
Proof.
  induction starts as [|[a l] starts IH]; intros c c' F H; simpl in H.
  - injection H as <-. auto.
  - inversion F as [|? ? Hl F']; subst. simpl in Hl. destruct (existsb (Z.eqb a) (c_lbladdrs c)); [eauto|].
    apply rbind_ok in H as (c1 & H1 & H). unfold insert_label in H1. destruct (dict_mem (c_labels c) l); [discriminate|].
    injection H1 as <-. destruct (IH _ _ F' H) as [E1 E2]. simpl in *. split; [exact E1|].
    intros s Hs. rewrite E2 by exact Hs. apply dict_get_set_other. intros ->. congruence.
Qed.

Lemma not_nice_not_label (c : core) s : labels_nice c -> niceb s = false -> dict_mem (c_labels c) s = false.
Proof.
  unfold labels_nice, dict_mem. intros L Hs. destruct (dict_get (c_labels c) s) eqn:E; [|reflexivity].
  exfalso. assert (In s (map fst (c_labels c))).
  { destruct (in_dec string_dec s (map fst (c_labels c))) as [i|n]; [exact i|]. apply dict_get_none_iff in n. congruence. }
  apply in_map_iff in H as ([k v] & <- & Hin). rewrite Forall_forall in L. apply L in Hin. simpl in *. congruence.
Qed.

(* C03_inline.  The macro program and the program obtained by inlining it (generated names as the code builds them)
   expand to the same op list, and to label tables that agree on every name that is not a macro-start label
   (`…---:start:`, debugging information that no expression can refer to).  The inlined program is macro free. *)
Theorem inline_correct w D depth ops lbls P :
  wf_tree D = true ->
  resolve_macros w D depth = ROk (ops, lbls) ->
  inline impl_fresh D (N.to_nat depth) = Some P ->
  Forall (fun s => stmt_primitive s = true) P /\
  exists lbls', resolve_macros w (prim_tree P) depth = ROk (ops, lbls') /\
                forall s, is_start_label s = false -> dict_get lbls' s = dict_get lbls s.
Proof.
  intros WF Hr Hi. unfold resolve_macros in Hr. apply rbind_ok in Hr as (st & Hm & Hr). apply rbind_ok in Hr as (cf & Hf & Hr).
  injection Hr as <- <-. destruct (inline_sim w D WF depth st P Hm Hi) as (F & H & S). split.
  { eapply Forall_impl; [|exact F]. intros a Ha. unfold prim_ok in Ha. now apply andb_prop in Ha as [? _]. }
  set (m0 := mkmacro [] [] P "" (mkpos "" "" 1%N)).
  set (st0 := mkps init_core [(0%Z, start_label "")]).
  destruct (H (prim_tree P) (rec_of w (prim_tree P) (N.to_nat depth)) st0 eq_refl) as (s2 & R2 & C2 & S2).
  assert (Em : resolve_main w (prim_tree P) depth = ROk s2).
  { unfold resolve_main. rewrite resolve_macro_aux_eq. exact R2. }
  assert (L2 : labels_nice (ps_core s2)) by (eapply prim_labels_nice; [exact F | exact R2 | constructor]).
  unfold finish in Hf. rewrite <- C2 in Hf.
  set (c1 := mkcore (c_addr (ps_core s2)) (patch_last_wflip (c_rops (ps_core s2)) (c_addr (ps_core s2)))
                    (c_labels (ps_core s2)) (c_lbladdrs (ps_core s2)) (c_segidx (ps_core s2))) in *.
  destruct (insert_start_labels_spec _ _ _ (S (Forall_nil _)) Hf) as [E1 E2].
  unfold resolve_macros. rewrite Em. simpl. unfold finish. rewrite S2. fold c1. simpl.
  destruct (existsb (Z.eqb 0) (c_lbladdrs (ps_core s2))).
  - simpl. eexists. split; [now rewrite E1|]. intros s Hs. now rewrite E2.
  - unfold insert_label. rewrite (not_nice_not_label c1 (start_label "")); [|exact L2|reflexivity]. simpl.
    eexists. split; [now rewrite E1|]. intros s Hs. rewrite E2 by exact Hs. apply dict_get_set_other. intros ->.
    rewrite start_label_is_start in Hs. discriminate.
Qed.

(* ------------------------------------------------------------------------------------------ *)
(** * H. rep *)

(* a parameter dictionary as the preprocessor builds them from a well-formed tree: replacements are folded, and neither
   they nor the keys contain a name with ':' (the hygienic iterator names) *)
Definition hygienic_dict (pd : pdict) : Prop :=
  (forall k v, dict_get pd k = Some v -> minimal v /\ nice_expr v) /\ (forall s, niceb s = false -> dict_get pd s = None).

Lemma R_sub_hygienic pd b : R_sub pd b -> good_binding b -> hygienic_dict pd.
Proof. intros R G. split; [intros k v; apply (R_sub_values pd b k v R G) | intros s; apply (R_sub_no_key pd b s R G)]. Qed.

(* m args[i := j] for j = i, i+1, ..., i+n-1, each with the iterator substituted simultaneously with the parameters *)
Fixpoint rep_calls (rec : option (macro_name -> list expr -> string -> pstate -> res pstate)) (mn : macro_name)
         (pd : pdict) (it : string) (args : list expr) (prefix : string) (pos : code_pos) (n : nat) (i : Z) (st : pstate)
  : res pstate :=
  match n with
  | O => ROk st
  | S n' =>
      match eval_list (ov pd it i) args with
      | Ok args_i => rbind (call rec mn args_i (rep_path prefix pos mn i) st) (rep_calls rec mn pd it args prefix pos n' (i + 1)%Z)
      | LibError k => RErr (ExprEvalNew k)
      | RawExn x => RErr (RawPy x)
      end
  end.

Lemma rep_loop_calls rec mn pd it args args2 prefix pos :
  hygienic_dict pd -> Forall nice_expr args -> is_ident it = true ->
  let hyg := hygienic_iterator prefix pos it in
  Forall2 (fun a a2 => exists a1, eval_new (subst_one it (ELbl hyg)) a = Ok a1 /\ eval_new (subst_of pd) a1 = Ok a2) args args2 ->
  forall n i st st1,
    rep_loop rec mn hyg args2 prefix pos n i st = ROk st1 -> rep_calls rec mn pd it args prefix pos n i st = ROk st1.
Proof.
  intros [Hv Hk] Na Hit hyg F. assert (Hh : niceb hyg = false) by (apply hyg_not_nice; exact Hit).
  induction n as [|n IH]; intros i st st1 Hl; simpl in *; [exact Hl|].
  destruct (eval_list (subst_one hyg (EInt i)) args2) as [args_i| |] eqn:Ei; try discriminate.
  assert (E : eval_list (ov pd it i) args = Ok args_i).
  { apply eval_list_ok. apply eval_list_ok in Ei. clear Hl IH. revert args_i Ei.
    induction F as [|a a2 t t2 (a1 & E1 & E2) _ IHF]; intros args_i Ei; inversion Ei; subst; constructor.
    - inversion Na; subst. rewrite <- (rep_arg_fusion pd it hyg i a a1 a2); auto.
      + intros k v Ev. destruct (Hv k v Ev). split; [assumption | now apply not_nice_not_in].
      + now apply not_nice_not_in.
    - inversion Na; subst. apply IHF; auto. }
  rewrite E. apply rbind_ok in Hl as (sa & Hc & Hl). rewrite Hc. simpl. auto.
Qed.

(* C03_rep: when the code expands `rep(times, it) name args`, the count evaluates to some n, and the result is that of
   the n calls  name args[it := 0]; ...; name args[it := n-1]  in sequence (nothing at all when n <= 0) *)
Theorem rep_unrolls w D rec pd prefix times it name args pos st st1 :
  hygienic_dict pd -> Forall nice_expr args -> is_ident it = true ->
  step_op w D rec pd prefix (SRepCall times it name args pos) st = ROk st1 ->
  exists t' n, eval_new (subst_of pd) times = Ok t' /\ exact_eval (labels_env (ps_core st)) t' = Ok n /\
               rep_calls rec (call_name name args) pd it args prefix pos (Z.to_nat n) 0 st = ROk st1.
Proof.
  intros Hpd Na Hit Hs. simpl in Hs.
  apply rbind_ok in Hs as (args1 & H1 & Hs). apply of_eval_new_ok in H1.
  apply rbind_ok in Hs as (t' & Ht & Hs). apply of_eval_new_ok in Ht.
  apply rbind_ok in Hs as (args2 & H2 & Hs). apply of_eval_new_ok in H2.
  apply rbind_ok in Hs as (n & Hn & Hs). exists t', n. split; [exact Ht|].
  unfold calc in Hn. destruct (exact_eval (labels_env (ps_core st)) t') as [z| |] eqn:Ez; try discriminate.
  injection Hn as ->. split; [reflexivity|]. destruct (n =? 0)%Z eqn:E0.
  - apply Z.eqb_eq in E0. subst. simpl. exact Hs.
  - apply rbind_ok in Hs as ([] & _ & Hs). eapply rep_loop_calls; eauto.
    apply eval_list_ok in H1. apply eval_list_ok in H2. exact (Forall2_compose _ _ _ _ _ H1 H2).
Qed.

Corollary rep_zero w D rec pd prefix times it name args pos st st1 t' :
  step_op w D rec pd prefix (SRepCall times it name args pos) st = ROk st1 ->
  eval_new (subst_of pd) times = Ok t' -> exact_eval (labels_env (ps_core st)) t' = Ok 0%Z -> st1 = st.
Proof.
  intros Hs Ht Hz. simpl in Hs.
  apply rbind_ok in Hs as (args1 & H1 & Hs). apply rbind_ok in Hs as (t2 & Ht2 & Hs). apply of_eval_new_ok in Ht2.
  rewrite Ht in Ht2. injection Ht2 as <-. apply rbind_ok in Hs as (args2 & H2 & Hs). apply rbind_ok in Hs as (n & Hn & Hs).
  unfold calc in Hn. rewrite Hz in Hn. injection Hn as <-. simpl in Hs. now injection Hs as <-.
Qed.

(* C03_subst_once, syntactic form: the dictionary pass of the code is the textual one-pass substitution, then folding *)
Theorem eval_new_is_subst_then_fold pd b e :
  R_sub pd b -> eval_new (subst_of pd) e = eval_new empty_sub (subst (lookup b) e).
Proof. intros R. symmetry. apply subst_eval_new. now apply comp_empty. Qed.

(* ------------------------------------------------------------------------------------------ *)
(** * I. Generated names: different expansions get different names *)

Definition nochar (c : ascii) (s : string) : bool := string_forall (fun x => negb (Ascii.eqb x c)) s.

Fixpoint split (c : ascii) (s : string) : list string :=
  match s with
  | EmptyString => [EmptyString]
  | String x r =>
      if Ascii.eqb x c then EmptyString :: split c r
      else match split c r with h :: t => String x h :: t | [] => [String x EmptyString] end
  end.

Lemma split_nochar c a : nochar c a = true -> split c a = [a].
Proof.
  unfold nochar. induction a as [|x a IH]; simpl; [reflexivity|]. intros H. apply andb_prop in H as [Hx Ha].
  apply negb_true_iff in Hx. now rewrite Hx, (IH Ha).
Qed.

Lemma split_app_sep c a b : nochar c a = true -> split c (a ++ String c b) = a :: split c b.
Proof.
  unfold nochar. induction a as [|x a IH]; simpl; [now rewrite Ascii.eqb_refl|]. intros H. apply andb_prop in H as [Hx Ha].
  apply negb_true_iff in Hx. now rewrite Hx, (IH Ha).
Qed.

Lemma nochar_app c a b : nochar c (a ++ b) = nochar c a && nochar c b.
Proof. apply string_forall_app. Qed.

Lemma forall_nochar (f : ascii -> bool) c s : f c = false -> string_forall f s = true -> nochar c s = true.
Proof.
  intros Hc. unfold nochar. induction s as [|x s IH]; simpl; [reflexivity|]. intros H. apply andb_prop in H as [Hx Hs].
  rewrite (IH Hs), andb_true_r. apply negb_true_iff. destruct (Ascii.eqb x c) eqn:E; [|reflexivity].
  apply Ascii.eqb_eq in E. subst. congruence.
Qed.

Lemma ident_nochar c s : ident_char c = false -> is_ident s = true -> nochar c s = true.
Proof. apply forall_nochar. Qed.

Lemma dotted_nochar c s : ident_char c = false -> c <> "."%char -> dotted_ident s = true -> nochar c s = true.
Proof.
  intros H1 H2. apply forall_nochar. rewrite H1. simpl. apply Ascii.eqb_neq. exact H2.
Qed.

(* frames joined by "---" *)
Fixpoint join (fs : list string) : string :=
  match fs with
  | [] => ""
  | [f] => f
  | f :: r => f ++ "---" ++ join r
  end.

Lemma join_snoc fs f : join (fs ++ [f]) = match fs with [] => f | _ => join fs ++ "---" ++ f end.
Proof.
  induction fs as [|g fs IH]; [reflexivity|]. destruct fs as [|h fs]; [reflexivity|].
  change (join ((g :: h :: fs) ++ [f])) with (g ++ "---" ++ join ((h :: fs) ++ [f])). rewrite IH.
  change (join (g :: h :: fs)) with (g ++ "---" ++ join (h :: fs)).
  now rewrite !string_app_assoc.
Qed.

Lemma join_nonempty fs : fs <> [] -> Forall (fun f => f <> "") fs -> join fs <> "".
Proof.
  destruct fs as [|f fs]; [congruence|]. intros _ F. inversion F; subst. destruct fs; simpl; [assumption|].
  destruct f; [congruence | discriminate].
Qed.

(* the "short:lN:name(k)" / "short:lN:repI:name(k)" part that one call adds to the path *)
Definition frame (s : step) : string :=
  match sp_call s, sp_rep s with
  | SMacroCall name args pos, _ => short_str pos ++ ":" ++ macro_name_str (call_name name args)
  | SRepCall _ _ name args pos, Some i => short_str pos ++ ":rep" ++ decZ i ++ ":" ++ macro_name_str (call_name name args)
  | SRepCall _ _ name args pos, None => short_str pos ++ ":" ++ macro_name_str (call_name name args)
  | _, _ => ""
  end.

Definition call_step (s : step) : bool :=
  match sp_call s with SMacroCall _ _ _ | SRepCall _ _ _ _ _ => true | _ => false end.

Lemma step_path_frame prefix s : call_step s = true -> step_path prefix s = with_prefix prefix (frame s).
Proof. unfold call_step, step_path, frame. destruct (sp_call s); try discriminate; intros _; [reflexivity|]. now destruct (sp_rep s). Qed.

Lemma render_path_join pi :
  Forall (fun s => call_step s = true /\ frame s <> "") pi -> render_path pi = join (map frame pi).
Proof.
  induction pi as [|s pi IH] using rev_ind; intros F; [reflexivity|].
  apply Forall_app in F as [F1 F2]. inversion F2 as [|? ? [Hc Hn] _]; subst.
  rewrite render_path_snoc, step_path_frame by exact Hc. rewrite map_app. simpl. rewrite join_snoc, (IH F1).
  unfold with_prefix. destruct (map frame pi) eqn:E.
  - reflexivity.
  - rewrite <- E. destruct (String.eqb (join (map frame pi)) "") eqn:Ej; [|reflexivity].
    apply String.eqb_eq in Ej. exfalso. revert Ej. apply join_nonempty; [rewrite E; discriminate|].
    apply Forall_forall. intros f Hf. apply in_map_iff in Hf as (x & <- & Hx). rewrite Forall_forall in F1. now apply F1.
Qed.

Definition dashes (fs : list string) (l : string) : list string := (flat_map (fun f => [f; ""; ""]) fs ++ [l])%list.

Lemma split_dashes fs l :
  Forall (fun f => nochar "-" f = true) fs -> nochar "-" l = true -> fs <> [] ->
  split "-" (join fs ++ "---" ++ l) = dashes fs l.
Proof.
  intros F Hl. induction fs as [|f fs IH]; [congruence|]. intros _. inversion F; subst. destruct fs as [|g fs].
  - simpl. rewrite (split_app_sep "-" f) by assumption. simpl. now rewrite (split_nochar _ _ Hl).
  - change (join (f :: g :: fs)) with (f ++ "---" ++ join (g :: fs)). rewrite !string_app_assoc.
    set (rest := join (g :: fs) ++ "---" ++ l) in *. simpl.
    rewrite (split_app_sep "-" f) by assumption. simpl. unfold dashes in *. simpl. do 3 f_equal. apply IH; [assumption|discriminate].
Qed.

Lemma dashes_inj fs1 fs2 l1 l2 :
  dashes fs1 l1 = dashes fs2 l2 -> fs1 = fs2 /\ l1 = l2.
Proof.
  unfold dashes. revert fs2. induction fs1 as [|f fs1 IH]; intros [|g fs2] H; simpl in H.
  - injection H as ->. auto.
  - injection H as _ H. destruct fs2; discriminate.
  - injection H as _ H. destruct fs1; discriminate.
  - injection H as -> H. destruct (IH _ H). subst. auto.
Qed.

Definition step_names_ok (s : step) : Prop :=
  call_step s = true /\ nochar "-" (frame s) = true /\ frame s <> "".

(* C03_fresh, part 1: the name of a local label determines the expansion path (as the list of its frames) and the label *)
Theorem impl_fresh_injective pi1 l1 pi2 l2 :
  Forall step_names_ok pi1 -> Forall step_names_ok pi2 -> is_ident l1 = true -> is_ident l2 = true ->
  impl_fresh pi1 l1 = impl_fresh pi2 l2 -> map frame pi1 = map frame pi2 /\ l1 = l2.
Proof.
  intros F1 F2 H1 H2 E. unfold impl_fresh, local_label, MACRO_SEPARATOR_STRING in E.
  assert (K : forall pi l, Forall step_names_ok pi -> is_ident l = true ->
              split "-" (render_path pi ++ "---" ++ l) = dashes (match pi with [] => [""] | _ => map frame pi end) l).
  { intros pi l F Hl. assert (Nl : nochar "-" l = true) by (apply ident_nochar; auto).
    rewrite render_path_join by (eapply Forall_impl; [|exact F]; intros ? (? & ? & ?); auto).
    destruct pi as [|s pi]; [simpl; now rewrite (split_nochar _ _ Nl)|].
    apply split_dashes; [|exact Nl|discriminate]. apply Forall_forall. intros f Hf. apply in_map_iff in Hf as (x & <- & Hx).
    rewrite Forall_forall in F. now destruct (F _ Hx) as (_ & ? & _). }
  apply (f_equal (split "-")) in E. rewrite (K _ _ F1 H1), (K _ _ F2 H2) in E. apply dashes_inj in E as [E ->]. split; [|reflexivity].
  destruct pi1 as [|s1 p1], pi2 as [|s2 p2]; auto.
  - simpl in E. injection E as E _. inversion F2 as [|? ? (_ & _ & N) _]; subst. congruence.
  - simpl in E. injection E as E _. inversion F1 as [|? ? (_ & _ & N) _]; subst. congruence.
Qed.

Lemma dec_inj n m : dec n = dec m -> n = m.
Proof.
  unfold dec. intros H. apply (f_equal NilEmpty.uint_of_string) in H. rewrite !NilEmpty.usu in H. injection H as H.
  now apply DecimalN.Unsigned.to_uint_inj.
Qed.

Lemma decZ_nonneg i : (0 <= i)%Z -> decZ i = dec (Z.to_N i).
Proof. destruct i; simpl; [reflexivity | reflexivity | lia]. Qed.

Lemma dec_nochar c n : ident_char c = false -> nochar c (dec n) = true.
Proof. intros H. apply ident_nochar; [exact H | apply dec_ident]. Qed.

(* MacroName.__str__ determines the name and the arity *)
Lemma macro_name_str_inj n1 n2 :
  dotted_ident (fst n1) = true -> dotted_ident (fst n2) = true -> macro_name_str n1 = macro_name_str n2 -> n1 = n2.
Proof.
  destruct n1 as [a1 k1], n2 as [a2 k2]. simpl. intros D1 D2 E. unfold macro_name_str in E. simpl in E.
  assert (P1 : nochar "(" a1 = true) by (apply dotted_nochar; [reflexivity | discriminate | exact D1]).
  assert (P2 : nochar "(" a2 = true) by (apply dotted_nochar; [reflexivity | discriminate | exact D2]).
  assert (Q : forall k, nochar "(" (dec k ++ ")") = true) by (intros k; rewrite nochar_app, dec_nochar; reflexivity).
  apply (f_equal (split "(")) in E.
  destruct (k1 =? 0)%N eqn:E1, (k2 =? 0)%N eqn:E2.
  - rewrite !split_nochar in E by assumption. apply N.eqb_eq in E1, E2. injection E as ->. congruence.
  - rewrite (split_nochar _ _ P1) in E. change (a2 ++ "(" ++ dec k2 ++ ")") with (a2 ++ String "(" (dec k2 ++ ")")) in E.
    rewrite (split_app_sep _ _ _ P2), (split_nochar _ _ (Q k2)) in E. discriminate.
  - rewrite (split_nochar _ _ P2) in E. change (a1 ++ "(" ++ dec k1 ++ ")") with (a1 ++ String "(" (dec k1 ++ ")")) in E.
    rewrite (split_app_sep _ _ _ P1), (split_nochar _ _ (Q k1)) in E. discriminate.
  - change (a1 ++ "(" ++ dec k1 ++ ")") with (a1 ++ String "(" (dec k1 ++ ")")) in E.
    change (a2 ++ "(" ++ dec k2 ++ ")") with (a2 ++ String "(" (dec k2 ++ ")")) in E.
    rewrite (split_app_sep _ _ _ P1), (split_app_sep _ _ _ P2), !split_nochar in E by apply Q.
    injection E as -> E. apply (f_equal (split ")")) in E.
    change (dec k1 ++ ")") with (dec k1 ++ String ")" "") in E. change (dec k2 ++ ")") with (dec k2 ++ String ")" "") in E.
    rewrite !split_app_sep in E by (apply dec_nochar; reflexivity). injection E as E. apply dec_inj in E. congruence.
Qed.

Lemma nochar_single c x : c <> x -> nochar c (String x "") = true.
Proof.
  intros H. unfold nochar. cbn [string_forall]. rewrite andb_true_r. apply negb_true_iff. apply Ascii.eqb_neq. congruence.
Qed.

Lemma macro_name_str_nochar c n :
  ident_char c = false -> c <> "."%char -> c <> "("%char -> c <> ")"%char -> dotted_ident (fst n) = true ->
  nochar c (macro_name_str n) = true.
Proof.
  intros H1 H2 H3 H4 Hd. unfold macro_name_str. destruct (snd n =? 0)%N; [now apply dotted_nochar|].
  rewrite !nochar_app, (dotted_nochar c _ H1 H2 Hd), (dec_nochar c _ H1), !nochar_single; auto.
Qed.

(* what identifies one call: file short name, line, repetition index, macro name and arity *)
Definition frame_data (s : step) : option (string * N * option Z * macro_name) :=
  match sp_call s, sp_rep s with
  | SMacroCall name args pos, _ => Some (cp_short pos, cp_line pos, None, call_name name args)
  | SRepCall _ _ name args pos, r => Some (cp_short pos, cp_line pos, r, call_name name args)
  | _, _ => None
  end.

(* a step as the preprocessor makes them on a well-formed tree *)
Definition step_wf (s : step) : Prop :=
  match sp_call s with
  | SMacroCall name _ pos => is_ident (cp_short pos) = true /\ dotted_ident name = true
  | SRepCall _ _ name _ pos => is_ident (cp_short pos) = true /\ dotted_ident name = true /\
                               match sp_rep s with Some i => (0 <= i)%Z | None => True end
  | _ => False
  end.

Lemma split_call_frame short line mstr :
  nochar ":" short = true -> nochar ":" mstr = true ->
  split ":" ((short ++ ":l" ++ dec line) ++ ":" ++ mstr) = [short; "l" ++ dec line; mstr].
Proof.
  intros H1 H2. rewrite !string_app_assoc. change (":l" ++ dec line ++ ":" ++ mstr) with (String ":" (("l" ++ dec line) ++ String ":" mstr)).
  rewrite (split_app_sep _ _ _ H1), split_app_sep, (split_nochar _ _ H2); [reflexivity|].
  rewrite nochar_app, dec_nochar; reflexivity.
Qed.

Lemma split_rep_frame short line i mstr :
  nochar ":" short = true -> nochar ":" mstr = true ->
  split ":" ((short ++ ":l" ++ dec line) ++ ":rep" ++ dec i ++ ":" ++ mstr) = [short; "l" ++ dec line; "rep" ++ dec i; mstr].
Proof.
  intros H1 H2. rewrite !string_app_assoc.
  change (":l" ++ dec line ++ ":rep" ++ dec i ++ ":" ++ mstr)
    with (String ":" (("l" ++ dec line) ++ String ":" (("rep" ++ dec i) ++ String ":" mstr))).
  rewrite (split_app_sep _ _ _ H1), split_app_sep, split_app_sep, (split_nochar _ _ H2); [reflexivity| |];
    rewrite nochar_app, dec_nochar; reflexivity.
Qed.

Lemma call_name_dotted name args : dotted_ident name = true -> dotted_ident (fst (call_name name args)) = true.
Proof. auto. Qed.

(* C03_fresh, part 2: the frame determines file, line, repetition index, macro name and arity *)
Theorem frame_injective s1 s2 : step_wf s1 -> step_wf s2 -> frame s1 = frame s2 -> frame_data s1 = frame_data s2.
Proof.
  unfold step_wf, frame, frame_data, short_str. intros W1 W2 E. apply (f_equal (split ":")) in E.
  assert (NC : forall name args, dotted_ident name = true -> nochar ":" (macro_name_str (call_name name args)) = true).
  { intros. apply macro_name_str_nochar; try discriminate; auto. }
  assert (NS : forall p, is_ident (cp_short p) = true -> nochar ":" (cp_short p) = true) by (intros; now apply ident_nochar).
  assert (DI : forall a b, "l" ++ dec a = "l" ++ dec b -> a = b) by (intros a b H; injection H as H; now apply dec_inj).
  assert (MI : forall n1 a1 n2 a2, dotted_ident n1 = true -> dotted_ident n2 = true ->
                 macro_name_str (call_name n1 a1) = macro_name_str (call_name n2 a2) -> call_name n1 a1 = call_name n2 a2).
  { intros. apply macro_name_str_inj; auto. }
  destruct (sp_call s1) as [| | | |n1 a1 p1|t1 it1 n1 a1 p1| |]; try contradiction;
  destruct (sp_call s2) as [| | | |n2 a2 p2|t2 it2 n2 a2 p2| |]; try contradiction.
  - destruct W1 as [S1 D1], W2 as [S2 D2]. rewrite !split_call_frame in E by auto.
    injection E as -> E1 E2. apply dec_inj in E1. apply MI in E2; auto. congruence.
  - destruct W1 as [S1 D1], W2 as (S2 & D2 & R2). destruct (sp_rep s2) as [i2|].
    + rewrite decZ_nonneg in E by exact R2. rewrite split_call_frame, split_rep_frame in E by auto. discriminate.
    + rewrite !split_call_frame in E by auto. injection E as -> E1 E2. apply dec_inj in E1. apply MI in E2; auto. congruence.
  - destruct W1 as (S1 & D1 & R1), W2 as [S2 D2]. destruct (sp_rep s1) as [i1|].
    + rewrite decZ_nonneg in E by exact R1. rewrite split_call_frame, split_rep_frame in E by auto. discriminate.
    + rewrite !split_call_frame in E by auto. injection E as -> E1 E2. apply dec_inj in E1. apply MI in E2; auto. congruence.
  - destruct W1 as (S1 & D1 & R1), W2 as (S2 & D2 & R2). destruct (sp_rep s1) as [i1|], (sp_rep s2) as [i2|].
    + rewrite !decZ_nonneg in E by assumption. rewrite !split_rep_frame in E by auto.
      injection E as -> E1 E3 E2. apply dec_inj in E1. apply MI in E2; auto. apply dec_inj in E3.
      assert (i1 = i2) by lia. congruence.
    + rewrite decZ_nonneg in E by assumption. rewrite split_call_frame, split_rep_frame in E by auto. discriminate.
    + rewrite decZ_nonneg in E by assumption. rewrite split_call_frame, split_rep_frame in E by auto. discriminate.
    + rewrite !split_call_frame in E by auto. injection E as -> E1 E2. apply dec_inj in E1. apply MI in E2; auto. congruence.
Qed.

Lemma step_wf_names_ok s : step_wf s -> step_names_ok s.
Proof.
  unfold step_wf, step_names_ok, call_step, frame, short_str. intros W.
  assert (ND : forall name args, dotted_ident name = true -> nochar "-" (macro_name_str (call_name name args)) = true).
  { intros. apply macro_name_str_nochar; try discriminate; auto. }
  assert (NE : forall a b, (a ++ ":l" ++ b) <> "") by (intros [|? ?] b; discriminate).
  destruct (sp_call s) as [| | | |n a p|t it n a p| |]; try contradiction.
  - destruct W as [S Dn]. split; [reflexivity|]. split.
    + rewrite !nochar_app, (ident_nochar "-" _ eq_refl S), dec_nochar, ND by auto. reflexivity.
    + intros E. destruct (cp_short p); discriminate.
  - destruct W as (S & Dn & R). split; [reflexivity|]. destruct (sp_rep s) as [i|]; split.
    + rewrite decZ_nonneg by exact R. rewrite !nochar_app, (ident_nochar "-" _ eq_refl S), !dec_nochar, ND by auto. reflexivity.
    + intros E. destruct (cp_short p); discriminate.
    + rewrite !nochar_app, (ident_nochar "-" _ eq_refl S), dec_nochar, ND by auto. reflexivity.
    + intros E. destruct (cp_short p); discriminate.
Qed.

(* C03_fresh: the names generated for local labels are not names a program can spell, and two of them are equal only
   for the same label of expansions reached through the same calls (same file, line, repetition index, macro) *)
Theorem fresh_names pi1 l1 pi2 l2 :
  Forall step_wf pi1 -> Forall step_wf pi2 -> is_ident l1 = true -> is_ident l2 = true ->
  user_name (impl_fresh pi1 l1) = false /\
  (impl_fresh pi1 l1 = impl_fresh pi2 l2 -> map frame_data pi1 = map frame_data pi2 /\ l1 = l2).
Proof.
  intros F1 F2 H1 H2. split; [apply local_label_not_user|]. intros E.
  destruct (impl_fresh_injective pi1 l1 pi2 l2) as [Ef El]; auto.
  - eapply Forall_impl; [|exact F1]. apply step_wf_names_ok.
  - eapply Forall_impl; [|exact F2]. apply step_wf_names_ok.
  - split; [|exact El]. clear E El. revert pi2 F2 Ef. induction F1 as [|s1 p1 W1 _ IH]; intros [|s2 p2] F2 Ef; try discriminate.
    + reflexivity.
    + simpl in Ef. injection Ef as E1 E2. inversion F2; subst. simpl. f_equal; [now apply frame_injective | auto].
Qed.

(* ------------------------------------------------------------------------------------------ *)
(** * J. Several files: the same tree at other code positions *)

(* Parsing the same statements from several files (or from one) gives the same tree except for the code positions
   (file, short name, line) of statements and macros: [tree_repos phi D] for the map phi of positions. *)
Definition stmt_repos (phi : code_pos -> code_pos) (s : stmt) : stmt :=
  match s with
  | SFlipJump f j p => SFlipJump f j (phi p)
  | SWordFlip a v r p => SWordFlip a v r (phi p)
  | SPad e p => SPad e (phi p)
  | SLabel n p => SLabel n (phi p)
  | SMacroCall n a p => SMacroCall n a (phi p)
  | SRepCall t i n a p => SRepCall t i n a (phi p)
  | SSegment e p => SSegment e (phi p)
  | SReserve e p => SReserve e (phi p)
  end.

Definition macro_repos phi (m : macro) : macro :=
  mkmacro (m_params m) (m_locals m) (map (stmt_repos phi) (m_ops m)) (m_ns m) (phi (m_pos m)).
Definition tree_repos phi (D : macro_dict) : macro_dict := map (fun nm => (fst nm, macro_repos phi (snd nm))) D.
Definition step_repos phi (s : step) : step := mkstep (sp_index s) (stmt_repos phi (sp_call s)) (sp_rep s).

Lemma find_macro_repos phi D mn : find_macro (tree_repos phi D) mn = option_map (macro_repos phi) (find_macro D mn).
Proof. induction D as [|[k m] D IH]; simpl; [reflexivity|]. destruct (macro_name_eqb k mn); [reflexivity | exact IH]. Qed.

Definition omap_repos phi (r : option (list stmt)) : option (list stmt) := option_map (map (stmt_repos phi)) r.

Lemma app2_repos phi a b : app2 (omap_repos phi a) (omap_repos phi b) = omap_repos phi (app2 a b).
Proof. destruct a, b; simpl; try reflexivity. now rewrite map_app. Qed.

Section Repos.
Variable phi : code_pos -> code_pos.
Variables exp exp' : macro_name -> list expr -> path -> option (list stmt).
Hypothesis Hexp : forall mn args pi, exp' mn args (map (step_repos phi) pi) = omap_repos phi (exp mn args pi).

Lemma unroll_repos mn sg it args pi k c n : forall i,
  unroll exp' mn sg it args (map (step_repos phi) pi) k (stmt_repos phi c) n i =
  omap_repos phi (unroll exp mn sg it args pi k c n i).
Proof.
  induction n as [|n IH]; intros i; simpl; [reflexivity|]. rewrite IH, <- app2_repos. f_equal.
  rewrite <- Hexp. f_equal. now rewrite map_app.
Qed.

Lemma inline_stmt_repos sg pi k s :
  inline_stmt exp' sg (map (step_repos phi) pi) k (stmt_repos phi s) = omap_repos phi (inline_stmt exp sg pi k s).
Proof.
  destruct s; simpl; try reflexivity.
  - now destruct (rename_label sg name).
  - rewrite <- Hexp. f_equal. now rewrite map_app.
  - destruct (const_value (subst sg times)); [|reflexivity].
    apply (unroll_repos (call_name name args) sg iter args pi k (SRepCall times iter name args pos)).
Qed.

Lemma inline_ops_repos sg pi ops : forall k,
  inline_ops exp' sg (map (step_repos phi) pi) k (map (stmt_repos phi) ops) = omap_repos phi (inline_ops exp sg pi k ops).
Proof. induction ops as [|s ops IH]; intros k; simpl; [reflexivity|]. now rewrite inline_stmt_repos, IH, app2_repos. Qed.
End Repos.

(* inlining the re-positioned tree = inlining the tree with the names that carry the new positions *)
Lemma inline_call_repos phi fresh D n : forall mn args pi,
  inline_call fresh (tree_repos phi D) n mn args (map (step_repos phi) pi) =
  omap_repos phi (inline_call (fun p => fresh (map (step_repos phi) p)) D n mn args pi).
Proof.
  induction n as [|n IH]; intros mn args pi; simpl; [reflexivity|]. rewrite find_macro_repos.
  destruct (find_macro D mn) as [m|]; simpl; [|reflexivity].
  exact (inline_ops_repos phi _ _ IH (lookup (bind_macro (fun p => fresh (map (step_repos phi) p)) m args pi)) pi (m_ops m) 0%nat).
Qed.

Lemma inline_repos phi fresh D n :
  inline fresh (tree_repos phi D) n = omap_repos phi (inline (fun p => fresh (map (step_repos phi) p)) D n).
Proof.
  unfold inline, main_ops. rewrite find_macro_repos. destruct (find_macro D main_macro_name) as [m|]; simpl; [|reflexivity].
  exact (inline_ops_repos phi _ _ (inline_call_repos phi fresh D n) (fun _ => None) [] (m_ops m) 0%nat).
Qed.

(* the code positions of primitive statements are never looked at *)
Lemma run_ops_repos phi w D' rec' pd prefix P : Forall (fun s => stmt_primitive s = true) P -> forall st,
  run_ops w D' rec' pd prefix (map (stmt_repos phi) P) st = run_ops w D' rec' pd prefix P st.
Proof.
  induction 1 as [|s P Hs _ IH]; intros st; simpl; [reflexivity|].
  assert (E : step_op w D' rec' pd prefix (stmt_repos phi s) st = step_op w D' rec' pd prefix s st) by (destruct s; try discriminate; reflexivity).
  rewrite E. destruct (step_op w D' rec' pd prefix s st); simpl; auto.
Qed.

Lemma run_ops_prim_indep w D1 D2 rec1 rec2 pd prefix P : Forall (fun s => stmt_primitive s = true) P -> forall st,
  run_ops w D1 rec1 pd prefix P st = run_ops w D2 rec2 pd prefix P st.
Proof.
  induction 1 as [|s P Hs _ IH]; intros st; simpl; [reflexivity|]. rewrite !(step_op_prim w) by exact Hs.
  destruct (on_core st (step_core w pd s (ps_core st))); simpl; auto.
Qed.

Lemma resolve_prim_repos phi w P depth : Forall (fun s => stmt_primitive s = true) P ->
  resolve_macros w (prim_tree (map (stmt_repos phi) P)) depth = resolve_macros w (prim_tree P) depth.
Proof.
  intros F. unfold resolve_macros, resolve_main. rewrite !resolve_macro_aux_eq. simpl. unfold macro_body. simpl.
  rewrite (run_ops_repos phi _ _ _ _ _ _ F). unfold get_params_dictionary. simpl.
  now rewrite (run_ops_prim_indep w _ (prim_tree P) _ (rec_of w (prim_tree P) (N.to_nat depth)) _ _ _ F).
Qed.

(* C03_split.  A program read from several files is the tree D of the one-file program at other code positions phi.
   It expands to the same op list (and the same labels but for the macro-start labels) as the macro-free program
   obtained by inlining D itself with the local-label names that carry the new positions: the file split changes
   nothing but the file:line components of the generated names. *)
Theorem split_correct phi w D depth ops lbls P :
  wf_tree (tree_repos phi D) = true ->
  resolve_macros w (tree_repos phi D) depth = ROk (ops, lbls) ->
  inline (fun p => impl_fresh (map (step_repos phi) p)) D (N.to_nat depth) = Some P ->
  Forall (fun s => stmt_primitive s = true) P /\
  exists lbls', resolve_macros w (prim_tree P) depth = ROk (ops, lbls') /\
                forall s, is_start_label s = false -> dict_get lbls' s = dict_get lbls s.
Proof.
  intros WF Hr Hi.
  assert (Hi' : inline impl_fresh (tree_repos phi D) (N.to_nat depth) = Some (map (stmt_repos phi) P))
    by (rewrite inline_repos, Hi; reflexivity).
  destruct (inline_correct w _ depth ops lbls _ WF Hr Hi') as [F (lbls' & R & A)].
  assert (FP : Forall (fun s => stmt_primitive s = true) P).
  { apply Forall_forall. intros s Hs. rewrite Forall_forall in F. specialize (F _ (in_map _ _ _ Hs)). now destruct s. }
  split; [exact FP|]. exists lbls'. split; [|exact A]. now rewrite <- (resolve_prim_repos phi w P depth FP).
Qed.

(* concatenating bodies: the statements of the second part are expanded in the state the first part leaves *)
Theorem run_ops_concat w D rec pd prefix ops1 ops2 st :
  run_ops w D rec pd prefix (ops1 ++ ops2) st = rbind (run_ops w D rec pd prefix ops1 st) (run_ops w D rec pd prefix ops2).
Proof. apply run_ops_app. Qed.

(* ------------------------------------------------------------------------------------------ *)
(** * K. Namespace resolution, and statements for Properties/C03.v *)

Lemma lstrip_iter k rest : lstrip_dots rest = (O, rest) -> lstrip_dots (Nat.iter k (String ".") rest) = (k, rest).
Proof. intros H. induction k as [|k IH]; simpl; [exact H|]. now rewrite IH. Qed.

(* FJParser.base_name_to_ns_full_name implements "k+1 leading dots strip k levels"; more dots than levels is the
   recorded syntax error *)
Theorem ns_resolve_correct curr k rest :
  lstrip_dots rest = (O, rest) ->
  match ns_resolve curr (S k) rest with
  | Some s => base_name_to_ns_full_name curr (String "." (Nat.iter k (String ".") rest)) = NsName s
  | None => exists r, base_name_to_ns_full_name curr (String "." (Nat.iter k (String ".") rest)) = NsTooManyDots r
  end.
Proof.
  intros H. unfold base_name_to_ns_full_name, ns_resolve. simpl lstrip_dots. rewrite (lstrip_iter k rest H).
  destruct (k <=? List.length curr)%nat eqn:E.
  - apply Nat.leb_le in E. assert (E2 : (List.length curr <? k)%nat = false) by (apply Nat.ltb_ge; exact E). rewrite E2.
    assert (E3 : (Z.of_nat (List.length curr) - Z.of_nat k <? 0)%Z = false) by (apply Z.ltb_ge; lia). rewrite E3.
    unfold ns_join. replace (Z.to_nat (Z.of_nat (List.length curr) - Z.of_nat k)) with (List.length curr - k)%nat by lia. reflexivity.
  - apply Nat.leb_gt in E. assert (E2 : (List.length curr <? k)%nat = true) by (apply Nat.ltb_lt; exact E). rewrite E2. eauto.
Qed.

Theorem subst_once_iff (sg : msubst) (e : expr) (L : string -> option Z) (v : Z) :
  (exists e', eval_new sg e = Ok e' /\ exact_eval L e' = Ok v) <-> exact_eval (env_subst L sg) e = Ok v.
Proof.
  split.
  - intros (e' & H1 & H2). exact (subst_once_sound sg e e' L v H1 H2).
  - exact (subst_once_complete sg e L v).
Qed.

Theorem iterator_name_fresh prefix pos it : is_ident it = true ->
  niceb (hygienic_iterator prefix pos it) = false /\
  (forall s, dotted_ident s = true -> s <> hygienic_iterator prefix pos it) /\
  (forall p l, is_ident l = true -> local_label p l <> hygienic_iterator prefix pos it).
Proof.
  intros H. pose proof (hyg_not_nice prefix pos it H) as N. split; [exact N|]. split.
  - intros s Hs. apply nice_neq; [now apply dotted_nice | exact N].
  - intros p l Hl. apply nice_neq; [now apply local_label_nice | exact N].
Qed.

Definition rename_expr (rho : string -> string) : expr -> expr :=
  fix go e := match e with EInt z => EInt z | ELbl s => ELbl (rho s) | EOp o args => EOp o (map go args) end.
Definition rename_lop (rho : string -> string) (o : lop) : lop :=
  match o with
  | LFlipJump f j => LFlipJump (rename_expr rho f) (rename_expr rho j)
  | LWordFlip a v r => LWordFlip (rename_expr rho a) (rename_expr rho v) (rename_expr rho r)
  | o => o
  end.

Lemma rename_id_ops ops : map (rename_lop (fun s => s)) ops = ops.
Proof.
  assert (E : forall e, rename_expr (fun s => s) e = e).
  { induction e as [z|s|o args IH] using expr_ind'; simpl; try reflexivity. f_equal.
    induction IH as [|a t Ha _ IHt]; simpl; [reflexivity|]. now rewrite Ha, IHt. }
  induction ops as [|o ops IHo]; simpl; [reflexivity|]. rewrite IHo. f_equal. destruct o; simpl; now rewrite ?E.
Qed.

(* the conclusion of "expansion = inlining up to an injective renaming rho of generated names" *)
Definition expands_alike (w : Z) (depth : N) (ops : list lop) (lbls : list (string * Z)) (P : list stmt) : Prop :=
  exists ops' lbls' (rho : string -> string),
    resolve_macros w (prim_tree P) depth = ROk (ops', lbls') /\
    ops' = map (rename_lop rho) ops /\
    (forall s t, dict_get lbls s <> None -> dict_get lbls t <> None -> rho s = rho t -> s = t) /\
    (forall s, user_name s = true -> rho s = s) /\
    (forall s, is_start_label s = false -> dict_get lbls' (rho s) = dict_get lbls s).

Theorem inline_correct_id_renaming w D depth ops lbls P :
  wf_tree D = true ->
  resolve_macros w D depth = ROk (ops, lbls) ->
  inline impl_fresh D (N.to_nat depth) = Some P ->
  expands_alike w depth ops lbls P.
Proof.
  intros WF Hr Hi. destruct (inline_correct w D depth ops lbls P WF Hr Hi) as [_ (l' & R & A)].
  exists ops, l', (fun s => s). rewrite rename_id_ops. auto.
Qed.

(* ------------------------------------------------------------------------------------------ *)
(** * L. On the expansion paths of a well-formed tree the code's naming is injective *)

Definition step_valid (body : list stmt) (s : step) : Prop :=
  nth_error body (sp_index s) = Some (sp_call s) /\
  match sp_call s with
  | SMacroCall _ _ _ => sp_rep s = None
  | SRepCall _ _ _ _ _ => exists i, sp_rep s = Some i /\ (0 <= i)%Z
  | _ => False
  end.

Definition callee (s : stmt) : macro_name :=
  match s with SMacroCall n a _ | SRepCall _ _ n a _ => call_name n a | _ => main_macro_name end.

(* the paths the inliner / the preprocessor can reach: each step is a call statement of the body reached so far *)
Fixpoint valid_from (D : macro_dict) (body : list stmt) (pi : path) : Prop :=
  match pi with
  | [] => True
  | s :: r => step_valid body s /\ exists m, find_macro D (callee (sp_call s)) = Some m /\ valid_from D (m_ops m) r
  end.
Definition valid_path (D : macro_dict) (pi : path) : Prop := valid_from D (main_ops D) pi.

Definition body_ok (body : list stmt) : Prop :=
  forallb wf_stmt body = true /\ NoDup (flat_map call_site body).

Lemma step_valid_wf body s : body_ok body -> step_valid body s -> step_wf s.
Proof.
  intros [Hw _] [Hn Hr]. apply nth_error_In in Hn. rewrite forallb_forall in Hw. apply Hw in Hn. unfold step_wf.
  destruct (sp_call s); try contradiction; simpl in Hn.
  - apply andb_prop in Hn as [Hn Hp]. apply andb_prop in Hn as [Hd _]. auto.
  - apply andb_prop in Hn as [Hn Hp]. apply andb_prop in Hn as [Hn _]. apply andb_prop in Hn as [_ Hd].
    destruct Hr as (i & -> & Hi). auto.
Qed.

Lemma call_site_unique body : NoDup (flat_map call_site body) -> forall k1 k2 c1 c2 x,
  nth_error body k1 = Some c1 -> nth_error body k2 = Some c2 -> call_site c1 = [x] -> call_site c2 = [x] -> k1 = k2.
Proof.
  induction body as [|c body IH]; intros ND k1 k2 c1 c2 x H1 H2 E1 E2; [destruct k1; discriminate|].
  simpl in ND. destruct k1 as [|k1], k2 as [|k2]; simpl in H1, H2.
  - reflexivity.
  - injection H1 as ->. exfalso. rewrite E1 in ND. inversion ND as [|? ? Hnin _]; subst. apply Hnin. apply in_flat_map.
    exists c2. split; [eapply nth_error_In; eauto | rewrite E2; simpl; auto].
  - injection H2 as ->. exfalso. rewrite E2 in ND. inversion ND as [|? ? Hnin _]; subst. apply Hnin. apply in_flat_map.
    exists c1. split; [eapply nth_error_In; eauto | rewrite E1; simpl; auto].
  - f_equal. eapply IH; eauto. eapply NoDup_app_r; eauto.
Qed.

Lemma same_site body s1 s2 :
  body_ok body -> step_valid body s1 -> step_valid body s2 -> frame_data s1 = frame_data s2 -> s1 = s2.
Proof.
  intros [_ ND] [N1 R1] [N2 R2] E. destruct s1 as [k1 c1 r1], s2 as [k2 c2 r2]. simpl in *. unfold frame_data in E. simpl in E.
  assert (K : k1 = k2).
  { destruct c1; try contradiction; destruct c2; try contradiction; injection E; intros;
      eapply (call_site_unique body ND k1 k2 _ _ _ N1 N2); simpl; try reflexivity; unfold short_str; congruence. }
  subst k2. rewrite N1 in N2. injection N2 as <-. f_equal.
  destruct c1; try contradiction.
  - congruence.
  - injection E; intros; assumption.
Qed.

Lemma find_macro_body_ok D mn m : wf_tree D = true -> find_macro D mn = Some m -> body_ok (m_ops m).
Proof.
  intros WF H. destruct (find_macro_wf D WF _ _ H) as (k & Hk & _). unfold wf_entry in Hk. simpl in Hk.
  apply andb_prop in Hk as [Hk _]. apply andb_prop in Hk as [_ Hk]. unfold wf_macro in Hk.
  apply andb_prop in Hk as [Hk Hn]. apply andb_prop in Hk as [_ Hs]. split; [exact Hs | now apply nodupb_NoDup].
Qed.

Lemma valid_paths_equal D : wf_tree D = true -> forall pi1 body pi2,
  body_ok body -> valid_from D body pi1 -> valid_from D body pi2 -> map frame_data pi1 = map frame_data pi2 -> pi1 = pi2.
Proof.
  intros WF. induction pi1 as [|s1 r1 IH]; intros body [|s2 r2] B V1 V2 E; try discriminate; [reflexivity|].
  simpl in E. injection E as E1 E2. destruct V1 as [S1 (m1 & F1 & V1)], V2 as [S2 (m2 & F2 & V2)].
  assert (s1 = s2) by (eapply same_site; eauto). subst s2. rewrite F1 in F2. injection F2 as <-. f_equal.
  apply (IH (m_ops m1) r2); [eapply find_macro_body_ok; eauto | exact V1 | exact V2 | exact E2].
Qed.

Lemma valid_steps_wf D : wf_tree D = true -> forall pi body, body_ok body -> valid_from D body pi -> Forall step_wf pi.
Proof.
  intros WF. induction pi as [|s r IH]; intros body B V; constructor.
  - destruct V as [S _]. eapply step_valid_wf; eauto.
  - destruct V as [_ (m & F & V)]. apply (IH (m_ops m)); [eapply find_macro_body_ok; eauto | exact V].
Qed.

Lemma main_body_ok D : wf_tree D = true -> body_ok (main_ops D).
Proof.
  intros WF. unfold main_ops. destruct (find_macro D main_macro_name) eqn:E.
  - eapply find_macro_body_ok; eauto.
  - split; [reflexivity | constructor].
Qed.

(* C03_fresh on the paths that occur: in a well-formed tree, two local labels get the same generated name only if they
   are the same label of the same expansion *)
Theorem fresh_on_valid_paths D pi1 l1 pi2 l2 :
  wf_tree D = true -> valid_path D pi1 -> valid_path D pi2 -> is_ident l1 = true -> is_ident l2 = true ->
  impl_fresh pi1 l1 = impl_fresh pi2 l2 -> pi1 = pi2 /\ l1 = l2.
Proof.
  intros WF V1 V2 H1 H2 E. pose proof (main_body_ok D WF) as B.
  destruct (fresh_names pi1 l1 pi2 l2) as [_ K]; auto; try (eapply valid_steps_wf; eauto).
  destruct (K E) as [Ef El]. split; [|exact El]. eapply valid_paths_equal; eauto.
Qed.

(* ------------------------------------------------------------------------------------------ *)
(** * M. Any admissible naming: expansion is invariant under a one-to-one change of generated names *)

Section Naming.
(* a correspondence between the names of two programs *)
Variable Ne : string -> string -> Prop.

Fixpoint erel (e1 e2 : expr) : Prop :=
  match e1, e2 with
  | EInt a, EInt b => a = b
  | ELbl s, ELbl t => Ne s t
  | EOp o a, EOp p b =>
      o = p /\ (fix go (l1 l2 : list expr) : Prop :=
                  match l1, l2 with
                  | [], [] => True
                  | x :: r1, y :: r2 => erel x y /\ go r1 r2
                  | _, _ => False
                  end) a b
  | _, _ => False
  end.

Lemma erel_op o a p b : erel (EOp o a) (EOp p b) <-> o = p /\ Forall2 erel a b.
Proof.
  change (erel (EOp o a) (EOp p b)) with
    (o = p /\ (fix go (l1 l2 : list expr) : Prop :=
                  match l1, l2 with
                  | [], [] => True
                  | x :: r1, y :: r2 => erel x y /\ go r1 r2
                  | _, _ => False
                  end) a b).
  apply and_iff_compat_l. generalize b. clear b. induction a as [|x a IH]; intros b; destruct b as [|y b].
  - split; intros _; [constructor | exact I].
  - split; intros H; [contradiction | inversion H].
  - split; intros H; [contradiction | inversion H].
  - split; intros H.
    + destruct H as [H1 H2]. constructor; [exact H1 | now apply IH].
    + inversion H; subst. split; [assumption | now apply IH].
Qed.

Lemma erel_is_int e1 e2 : erel e1 e2 -> is_int e1 = is_int e2.
Proof. destruct e1, e2; simpl; intros H; try contradiction; reflexivity. Qed.

Lemma erel_ints l1 l2 : Forall2 erel l1 l2 -> forallb is_int l1 = forallb is_int l2 /\ (forallb is_int l1 = true -> int_values l1 = int_values l2).
Proof.
  induction 1 as [|x y r1 r2 Hxy _ [IH1 IH2]]; simpl; [auto|]. rewrite (erel_is_int _ _ Hxy), IH1. split; [reflexivity|].
  intros H. apply andb_prop in H as [Hy Hr]. rewrite <- IH1 in Hr. specialize (IH2 Hr). unfold int_values in *. simpl.
  destruct x, y; simpl in *; try discriminate; try contradiction. now rewrite Hxy, IH2.
Qed.

(* substitutions that send related names to related expressions *)
Definition srel2 (t1 t2 : msubst) : Prop :=
  forall s1 s2, Ne s1 s2 -> match t1 s1, t2 s2 with
                            | Some a, Some b => erel a b
                            | None, None => True
                            | _, _ => False
                            end.

Lemma eval_new_rel t1 t2 : srel2 t1 t2 -> forall e1 e2 r1, erel e1 e2 -> eval_new t1 e1 = Ok r1 ->
  exists r2, eval_new t2 e2 = Ok r2 /\ erel r1 r2.
Proof.
  intros T. induction e1 as [z|s|o args IH] using expr_ind'; intros e2 r1 R H; destruct e2 as [z2|s2|o2 args2]; simpl in R; try contradiction.
  - subst. rewrite eval_new_int in *. injection H as <-. eexists. split; [reflexivity|]. reflexivity.
  - rewrite eval_new_lbl in *. specialize (T _ _ R). destruct (t1 s), (t2 s2); try contradiction; injection H as <-; eexists; split; try reflexivity; auto.
  - apply (proj1 (erel_op _ _ _ _)) in R as [<- F]. rewrite eval_new_op in *. apply bind_ok in H as (a1 & Hl & Hf).
    assert (E : exists a2, eval_list t2 args2 = Ok a2 /\ Forall2 erel a1 a2).
    { apply eval_list_ok in Hl. clear Hf. revert a1 Hl. induction F as [|x y r1' r2' Hxy _ IHF]; intros a1 Hl; inversion Hl; subst.
      - exists []. split; [reflexivity | constructor].
      - inversion IH as [|? ? IHx IHr]; subst. destruct (IHx _ _ Hxy H1) as (y' & E1 & E2).
        destruct (IHF IHr _ H3) as (r' & E3 & E4). exists (y' :: r'). simpl. rewrite E1, E3. split; [reflexivity | constructor; auto]. }
    destruct E as (a2 & E1 & E2). rewrite E1. simpl. unfold fold_op in *. destruct (erel_ints _ _ E2) as [I1 I2]. rewrite <- I1.
    destruct (forallb is_int a1) eqn:Hint.
    + rewrite <- (I2 eq_refl). destruct (apply_op o (int_values a1)); try discriminate. injection Hf as <-. eexists. split; reflexivity.
    + injection Hf as <-. eexists. split; [reflexivity|]. apply erel_op. auto.
Qed.

Lemma eval_list_rel t1 t2 : srel2 t1 t2 -> forall l1 l2, Forall2 erel l1 l2 -> forall r1, eval_list t1 l1 = Ok r1 ->
  exists r2, eval_list t2 l2 = Ok r2 /\ Forall2 erel r1 r2.
Proof.
  intros T. induction 1 as [|x y a b Hxy _ IH]; intros r1 H.
  - simpl in H. injection H as <-. exists []. split; [reflexivity|constructor].
  - simpl in H. apply bind_ok in H as (x' & Hx & H). apply bind_ok in H as (a' & Ha & H). injection H as <-.
    destruct (eval_new_rel _ _ T _ _ _ Hxy Hx) as (y' & E1 & E2). destruct (IH _ Ha) as (b' & E3 & E4).
    exists (y' :: b'). simpl. rewrite E1, E3. split; [reflexivity | constructor; auto].
Qed.

(* textual substitution of one tree expression under two related bindings *)
Definition brel (s1 s2 : string -> option expr) : Prop :=
  forall s, match s1 s, s2 s with Some a, Some b => erel a b | None, None => True | _, _ => False end.

Lemma subst_rel s1 s2 e : brel s1 s2 -> Forall (fun s => Ne s s) (expr_labels e) -> erel (subst s1 e) (subst s2 e).
Proof.
  intros B. induction e as [z|s|o args IH] using expr_ind'; intros F; simpl.
  - reflexivity.
  - specialize (B s). destruct (s1 s), (s2 s); try contradiction; auto. inversion F; auto.
  - apply erel_op. split; [reflexivity|]. simpl in F. induction IH as [|a t Ha _ IHt]; simpl; [constructor|].
    simpl in F. apply Forall_app in F as [Fa Ft]. constructor; auto.
Qed.

(* label tables with related keys and equal addresses *)
Definition trel (T1 T2 : list (string * Z)) : Prop := Forall2 (fun x y => Ne (fst x) (fst y) /\ snd x = snd y) T1 T2.
(* the correspondence is one to one *)
Definition biinj : Prop := forall k1 k2 s1 s2, Ne k1 k2 -> Ne s1 s2 -> (k1 = s1 <-> k2 = s2).

Lemma trel_get T1 T2 s1 s2 : biinj -> trel T1 T2 -> Ne s1 s2 -> dict_get T1 s1 = dict_get T2 s2.
Proof.
  intros B R N. induction R as [|[k1 v1] [k2 v2] T1 T2 [Hk Hv] _ IH]; simpl; [reflexivity|]. simpl in *. subst v2.
  destruct (String.eqb k1 s1) eqn:E1.
  - apply String.eqb_eq in E1. apply (B _ _ _ _ Hk N) in E1. apply String.eqb_eq in E1. now rewrite E1.
  - destruct (String.eqb k2 s2) eqn:E2; [|exact IH]. apply String.eqb_eq in E2. apply (B _ _ _ _ Hk N) in E2.
    apply String.eqb_neq in E1. contradiction.
Qed.

Lemma trel_set T1 T2 s1 s2 v : biinj -> trel T1 T2 -> Ne s1 s2 -> trel (dict_set T1 s1 v) (dict_set T2 s2 v).
Proof.
  intros B R N. induction R as [|[k1 v1] [k2 v2] T1 T2 [Hk Hv] RT IH]; simpl; [constructor; [split; auto|constructor]|].
  simpl in *. subst v2. destruct (String.eqb k1 s1) eqn:E1.
  - apply String.eqb_eq in E1. apply (B _ _ _ _ Hk N) in E1 as E2. apply String.eqb_eq in E2. rewrite E2. constructor; [split; auto|exact RT].
  - destruct (String.eqb k2 s2) eqn:E2.
    + apply String.eqb_eq in E2. apply (B _ _ _ _ Hk N) in E2. apply String.eqb_neq in E1. contradiction.
    + constructor; [split; auto | exact IH].
Qed.

Lemma exact_eval_rel T1 T2 : biinj -> trel T1 T2 -> forall e1 e2, erel e1 e2 ->
  forall v, exact_eval (dict_get T1) e1 = Ok v <-> exact_eval (dict_get T2) e2 = Ok v.
Proof.
  intros B R. induction e1 as [z|s|o args IH] using expr_ind'; intros e2 E v; destruct e2 as [z2|s2|o2 args2]; simpl in E; try contradiction.
  - subst. rewrite !exact_eval_int. reflexivity.
  - rewrite !exact_eval_lbl, (trel_get _ _ _ _ B R E). destruct (dict_get T2 s2); split; intros H; try discriminate; exact H.
  - apply (proj1 (erel_op _ _ _ _)) in E as [<- F]. rewrite !exact_eval_op.
    assert (L : forall vs, exact_list (dict_get T1) args = Ok vs <-> exact_list (dict_get T2) args2 = Ok vs).
    { intros vs. rewrite !exact_list_ok. revert vs. induction F as [|x y a b Hxy _ IHF]; intros vs.
      - split; intros H; inversion H; constructor.
      - inversion IH as [|? ? IHx IHr]; subst. split; intros H; inversion H; subst; constructor;
          try (apply (IHx _ Hxy); assumption); try (apply (IHF IHr); assumption). }
    split; intros H; apply (proj1 (wrap_exact_ok _ _)) in H; apply bind_ok in H as (vs & H1 & H2); apply (proj2 (wrap_exact_ok _ _));
      apply L in H1; rewrite H1; exact H2.
Qed.


(* ---- the expansion of two macro-free programs that differ by the correspondence ---- *)
Hypothesis B : biinj.
Hypothesis NDollar : Ne "$" "$".
Hypothesis NWflip : forall k, Ne (wflip_start_label ++ dec k) (wflip_start_label ++ dec k).

Definition lrel (o1 o2 : lop) : Prop :=
  match o1, o2 with
  | LFlipJump f j, LFlipJump f' j' => erel f f' /\ erel j j'
  | LWordFlip a v r, LWordFlip a' v' r' => erel a a' /\ erel v v' /\ erel r r'
  | LPadding n, LPadding n' => n = n'
  | LNewSegment s k, LNewSegment s' k' => s = s' /\ k = k'
  | LReserveBits a, LReserveBits a' => a = a'
  | _, _ => False
  end.

Definition crel (c1 c2 : core) : Prop :=
  c_addr c1 = c_addr c2 /\ Forall2 lrel (c_rops c1) (c_rops c2) /\ trel (c_labels c1) (c_labels c2) /\
  c_lbladdrs c1 = c_lbladdrs c2 /\ c_segidx c1 = c_segidx c2.

Definition strel (s1 s2 : stmt) : Prop :=
  match s1, s2 with
  | SFlipJump f j _, SFlipJump f' j' _ => erel f f' /\ erel j j'
  | SWordFlip a v r _, SWordFlip a' v' r' _ => erel a a' /\ erel v v' /\ erel r r'
  | SPad e _, SPad e' _ | SSegment e _, SSegment e' _ | SReserve e _, SReserve e' _ => erel e e'
  | SLabel n _, SLabel n' _ => Ne n n'
  | _, _ => False
  end.

Lemma dollar_srel a : srel2 (subst_dollar [] a) (subst_dollar [] a).
Proof.
  intros s1 s2 N. unfold subst_dollar. simpl.
  destruct (String.eqb s1 "$") eqn:E1, (String.eqb s2 "$") eqn:E2; simpl; auto.
  - apply String.eqb_eq in E1. apply String.eqb_neq in E2. apply E2. symmetry. apply (B _ _ _ _ NDollar N). now symmetry.
  - apply String.eqb_eq in E2. apply String.eqb_neq in E1. apply E1. symmetry. apply (B _ _ _ _ NDollar N). now symmetry.
Qed.

Lemma nil_srel : srel2 (subst_of []) (subst_of []).
Proof. intros s1 s2 _. exact I. Qed.

Lemma patch_rel r1 r2 a : Forall2 lrel r1 r2 -> Forall2 lrel (patch_last_wflip r1 a) (patch_last_wflip r2 a).
Proof.
  induction 1 as [|o1 o2 r1 r2 Ho Hr IH]; simpl; [constructor|].
  destruct o1, o2; simpl in Ho; try contradiction; constructor; auto. destruct Ho. simpl. auto.
Qed.

Lemma mem_rel T1 T2 s1 s2 : trel T1 T2 -> Ne s1 s2 -> dict_mem T1 s1 = dict_mem T2 s2.
Proof. intros R N. unfold dict_mem. now rewrite (trel_get _ _ _ _ B R N). Qed.

Lemma calc_rel c1 c2 e1 e2 err z : trel (c_labels c1) (c_labels c2) -> erel e1 e2 -> calc c1 e1 err = ROk z -> calc c2 e2 err = ROk z.
Proof.
  intros R E. unfold calc, labels_env. destruct (exact_eval (dict_get (c_labels c1)) e1) as [v| |] eqn:Ev; try discriminate.
  intros H. injection H as <-. apply (exact_eval_rel _ _ B R _ _ E) in Ev. now rewrite Ev.
Qed.

Lemma insert_label_rel c1 c2 n1 n2 a c1' : crel c1 c2 -> Ne n1 n2 -> insert_label c1 n1 a = ROk c1' ->
  exists c2', insert_label c2 n2 a = ROk c2' /\ crel c1' c2'.
Proof.
  intros (A & O & T & L & S) N. unfold insert_label. rewrite <- (mem_rel _ _ _ _ T N).
  destruct (dict_mem (c_labels c1) n1); [discriminate|]. intros H. injection H as <-. eexists. split; [reflexivity|].
  repeat split; simpl; auto. - now apply trel_set. - congruence.
Qed.

Lemma step_core_rel w s1 s2 c1 c2 c1' : strel s1 s2 -> crel c1 c2 -> step_core w [] s1 c1 = ROk c1' ->
  exists c2', step_core w [] s2 c2 = ROk c2' /\ crel c1' c2'.
Proof.
  intros S C H. pose proof C as (A & O & T & L & G).
  destruct s1 as [f j p|x v r p|e p|n p|? ? ?|? ? ? ? ?|e p|e p]; destruct s2 as [f' j' p'|x' v' r' p'|e' p'|n' p'|? ? ?|? ? ? ? ?|e' p'|e' p'];
    simpl in S; try contradiction; simpl in H |- *.
  - destruct S as [S1 S2]. apply rbind_ok in H as (a1 & H1 & H). apply of_eval_new_ok in H1. apply rbind_ok in H as (a2 & H2 & H).
    apply of_eval_new_ok in H2. injection H as <-. rewrite <- A.
    destruct (eval_new_rel _ _ (dollar_srel _) _ _ _ S1 H1) as (b1 & E1 & R1). destruct (eval_new_rel _ _ (dollar_srel _) _ _ _ S2 H2) as (b2 & E2 & R2).
    rewrite E1, E2. simpl. eexists. split; [reflexivity|]. repeat split; simpl; auto. constructor; simpl; auto.
  - destruct S as (S1 & S2 & S3). apply rbind_ok in H as (a1 & H1 & H). apply of_eval_new_ok in H1. apply rbind_ok in H as (a2 & H2 & H).
    apply of_eval_new_ok in H2. apply rbind_ok in H as (a3 & H3 & H). apply of_eval_new_ok in H3. injection H as <-. rewrite <- A.
    destruct (eval_new_rel _ _ (dollar_srel _) _ _ _ S1 H1) as (b1 & E1 & R1). destruct (eval_new_rel _ _ (dollar_srel _) _ _ _ S2 H2) as (b2 & E2 & R2).
    destruct (eval_new_rel _ _ (dollar_srel _) _ _ _ S3 H3) as (b3 & E3 & R3).
    rewrite E1, E2, E3. simpl. eexists. split; [reflexivity|]. repeat split; simpl; auto. constructor; simpl; auto.
  - apply rbind_ok in H as (a1 & H1 & H). apply of_eval_new_ok in H1. apply rbind_ok in H as (n & Hn & H).
    destruct (eval_new_rel _ _ nil_srel _ _ _ S H1) as (b1 & E1 & R1). rewrite E1. simpl. rewrite (calc_rel _ _ _ _ _ _ T R1 Hn). simpl.
    rewrite <- A. destruct (n <=? 0)%Z; [discriminate|]. destruct (negb _); [discriminate|]. destruct (_ >? _)%Z; [discriminate|].
    injection H as <-. eexists. split; [reflexivity|]. repeat split; simpl; auto. constructor; simpl; auto.
  - unfold eval_name in *. simpl in *. rewrite <- A. eapply insert_label_rel; eauto.
  - apply rbind_ok in H as (a1 & H1 & H). apply of_eval_new_ok in H1. apply rbind_ok in H as (a & Ha & H).
    destruct (eval_new_rel _ _ nil_srel _ _ _ S H1) as (b1 & E1 & R1). rewrite E1. simpl. rewrite (calc_rel _ _ _ _ _ _ T R1 Ha). simpl.
    destruct (negb _); [discriminate|]. unfold insert_segment in *. rewrite <- G, <- (mem_rel _ _ _ _ T (NWflip (c_segidx c1))).
    destruct (dict_mem _ _); [discriminate|]. injection H as <-. eexists. split; [reflexivity|]. rewrite <- A.
    unfold crel; simpl. split; [reflexivity | split; [constructor; [simpl; auto | now apply patch_rel] |
      split; [apply trel_set; [exact B | exact T | exact (NWflip (c_segidx c1))] | split; [assumption | congruence]]]].
  - apply rbind_ok in H as (a1 & H1 & H). apply of_eval_new_ok in H1. apply rbind_ok in H as (r & Hr & H).
    destruct (eval_new_rel _ _ nil_srel _ _ _ S H1) as (b1 & E1 & R1). rewrite E1. simpl. rewrite (calc_rel _ _ _ _ _ _ T R1 Hr). simpl.
    rewrite <- A. destruct (r <? 0)%Z; [discriminate|]. destruct (negb _); [discriminate|].
    injection H as <-. eexists. split; [reflexivity|]. repeat split; simpl; auto. constructor; simpl; auto.
Qed.

Lemma strel_prim s1 s2 : strel s1 s2 -> stmt_primitive s1 = true /\ stmt_primitive s2 = true.
Proof. destruct s1, s2; simpl; intros H; try contradiction; auto. Qed.

Lemma run_ops_rel w D1 D2 rec1 rec2 P1 P2 : Forall2 strel P1 P2 -> forall st1 st2 st1',
  crel (ps_core st1) (ps_core st2) -> ps_starts st1 = ps_starts st2 ->
  run_ops w D1 rec1 [] "" P1 st1 = ROk st1' ->
  exists st2', run_ops w D2 rec2 [] "" P2 st2 = ROk st2' /\ crel (ps_core st1') (ps_core st2') /\ ps_starts st1' = ps_starts st2'.
Proof.
  induction 1 as [|s1 s2 P1 P2 Hs _ IH]; intros st1 st2 st1' C S H; simpl in H |- *.
  - injection H as <-. eauto.
  - destruct (strel_prim _ _ Hs) as [Q1 Q2]. apply rbind_ok in H as (sa & Ha & H). rewrite (step_op_prim w) in Ha |- * by assumption.
    unfold on_core in *. apply rbind_ok in Ha as (ca & Hc & Ha). injection Ha as <-.
    destruct (step_core_rel _ _ _ _ _ _ Hs C Hc) as (cb & Eb & Rb). rewrite Eb. simpl. eapply IH; [| |exact H]; simpl; auto.
Qed.

End Naming.

(* ---- inlining one tree under two namings gives corresponding macro-free programs ---- *)

Definition stmt_names (s : stmt) : list string :=
  match s with
  | SFlipJump f j _ => expr_labels f ++ expr_labels j
  | SWordFlip a v r _ => expr_labels a ++ expr_labels v ++ expr_labels r
  | SPad e _ | SSegment e _ | SReserve e _ => expr_labels e
  | SLabel n _ => [n]
  | SMacroCall _ args _ => flat_map expr_labels args
  | SRepCall t _ _ args _ => expr_labels t ++ flat_map expr_labels args
  end%list.

(* every name written in the program: in an expression or as a declared label *)
Definition program_names (D : macro_dict) : list string :=
  flat_map (fun nm => flat_map stmt_names (m_ops (snd nm))) D.

(* the body that the expansion at path pi expands *)
Fixpoint ends (D : macro_dict) (b0 : list stmt) (pi : path) (body : list stmt) : Prop :=
  match pi with
  | [] => body = b0
  | s :: r => exists m, find_macro D (callee (sp_call s)) = Some m /\ ends D (m_ops m) r body
  end.

Lemma valid_snoc D : forall pi b0 body s m,
  valid_from D b0 pi -> ends D b0 pi body -> step_valid body s -> find_macro D (callee (sp_call s)) = Some m ->
  valid_from D b0 (pi ++ [s])%list /\ ends D b0 (pi ++ [s])%list (m_ops m).
Proof.
  induction pi as [|x pi IH]; intros b0 body s m V E S F; simpl in *.
  - subst body. split; [split; [exact S | exists m; split; [exact F | exact I]] | exists m; auto].
  - destruct V as [Sx (mx & Fx & Vx)]. destruct E as (mx' & Fx' & Ex). rewrite Fx in Fx'. injection Fx' as <-.
    destruct (IH _ _ _ _ Vx Ex S F) as [V' E']. split; [split; [exact Sx | exists mx; auto] | exists mx; auto].
Qed.

Lemma skipn_cons_nth {A} (l : list A) k x r : skipn k l = x :: r -> nth_error l k = Some x /\ skipn (S k) l = r.
Proof.
  revert l. induction k as [|k IH]; intros [|y l] H; simpl in *; try discriminate.
  - injection H as -> ->. auto.
  - apply IH in H. exact H.
Qed.

Section NamingInline.
Variable D : macro_dict.
Variables f1 f2 : path -> string -> string.
Variable Ne : string -> string -> Prop.
Hypothesis WF : wf_tree D = true.
Hypothesis B : biinj Ne.
Hypothesis HU : forall s, In s (program_names D) -> Ne s s.
Hypothesis HG : forall pi l, valid_path D pi -> is_ident l = true -> Ne (f1 pi l) (f2 pi l).

Definition orel (r1 r2 : option (list stmt)) : Prop :=
  match r1, r2 with
  | Some P1, Some P2 => Forall2 (strel Ne) P1 P2
  | None, None => True
  | _, _ => False
  end.

Lemma orel_app2 a1 a2 b1 b2 : orel a1 a2 -> orel b1 b2 -> orel (app2 a1 b1) (app2 a2 b2).
Proof. destruct a1, a2, b1, b2; simpl; try contradiction; auto. intros. now apply Forall2_app. Qed.

Lemma const_value_rel e1 e2 : erel Ne e1 e2 -> const_value e1 = const_value e2.
Proof.
  intros E. unfold const_value. pose proof (exact_eval_rel Ne [] [] B (Forall2_nil _) _ _ E) as H.
  change (dict_get (A:=Z) []) with (fun _ : string => @None Z) in H.
  destruct (exact_eval (fun _ => None) e1) as [v| |]; destruct (exact_eval (fun _ => None) e2) as [v2| |]; try reflexivity;
    try (pose proof (proj1 (H v) eq_refl); congruence); try (pose proof (proj2 (H v2) eq_refl); congruence).
Qed.

Definition HE (exp1 exp2 : macro_name -> list expr -> path -> option (list stmt)) : Prop :=
  forall mn a1 a2 pi', Forall2 (erel Ne) a1 a2 ->
    (forall m, find_macro D mn = Some m -> valid_path D pi' /\ ends D (main_ops D) pi' (m_ops m)) ->
    orel (exp1 mn a1 pi') (exp2 mn a2 pi').

Lemma names_forall (l : list string) : incl l (program_names D) -> Forall (fun s => Ne s s) l.
Proof. intros H. apply Forall_forall. intros s Hs. apply HU. auto. Qed.

Lemma map_subst_rel s1 s2 args : brel Ne s1 s2 -> incl (flat_map expr_labels args) (program_names D) ->
  Forall2 (erel Ne) (map (subst s1) args) (map (subst s2) args).
Proof.
  intros Bs. induction args as [|a args IH]; intros I; simpl; constructor.
  - apply subst_rel; [exact Bs|]. apply names_forall. intros x Hx. apply I. simpl. apply in_or_app. auto.
  - apply IH. intros x Hx. apply I. simpl. apply in_or_app. auto.
Qed.

Lemma override_brel s1 s2 it i : brel Ne s1 s2 -> brel Ne (override s1 it (EInt i)) (override s2 it (EInt i)).
Proof. intros Bs s. unfold override. destruct (String.eqb s it); [reflexivity | apply Bs]. Qed.

Section Ops.
Variables exp1 exp2 : macro_name -> list expr -> path -> option (list stmt).
Hypothesis Hexp : HE exp1 exp2.

Lemma inline_stmt_rel s1 s2 pi body k s rest :
  brel Ne s1 s2 -> valid_path D pi -> ends D (main_ops D) pi body -> skipn k body = s :: rest ->
  wf_stmt s = true -> incl (stmt_names s) (program_names D) ->
  orel (inline_stmt exp1 s1 pi k s) (inline_stmt exp2 s2 pi k s).
Proof.
  intros Bs V E Sk Hw I. destruct (skipn_cons_nth _ _ _ _ Sk) as [Hn _].
  assert (SR : forall e, incl (expr_labels e) (program_names D) -> erel Ne (subst s1 e) (subst s2 e)).
  { intros e He. apply subst_rel; [exact Bs | now apply names_forall]. }
  destruct s as [f j p|x v r p|e p|n p|name args p|times it name args p|e p|e p]; simpl in I |- *.
  - constructor; [|constructor]. simpl. split; apply SR; intros y Hy; apply I; apply in_or_app; auto.
  - constructor; [|constructor]. simpl. split; [|split]; apply SR; intros y Hy; apply I.
    + apply in_or_app; auto.
    + apply in_or_app; right; apply in_or_app; auto.
    + apply in_or_app; right; apply in_or_app; auto.
  - constructor; [|constructor]. simpl. now apply SR.
  - unfold rename_label. pose proof (Bs n) as Bn. destruct (s1 n) as [a|], (s2 n) as [b|]; try contradiction.
    + destruct a, b; simpl in Bn; try contradiction; simpl; auto; try (constructor; [exact Bn | constructor]).
    + simpl. constructor; [|constructor]. simpl. apply HU. apply I. simpl. auto.
  - apply Hexp; [now apply map_subst_rel|]. intros m Fm.
    apply (valid_snoc D pi (main_ops D) body (mkstep k (SMacroCall name args p) None) m V E); [|exact Fm].
    split; [exact Hn | reflexivity].
  - simpl in Hw. apply andb_prop in Hw as [Hw _]. apply andb_prop in Hw as [Hw Ha]. apply andb_prop in Hw as [Hw _].
    apply andb_prop in Hw as [_ Hit].
    assert (It : incl (expr_labels times) (program_names D)) by (intros y Hy; apply I; apply in_or_app; auto).
    assert (Ia : incl (flat_map expr_labels args) (program_names D)) by (intros y Hy; apply I; apply in_or_app; auto).
    rewrite (const_value_rel _ _ (SR _ It)). destruct (const_value (subst s2 times)) as [n|]; [|exact Logic.I].
    assert (U : forall cnt i, (0 <= i)%Z ->
              orel (unroll exp1 (call_name name args) s1 it args pi k (SRepCall times it name args p) cnt i)
                   (unroll exp2 (call_name name args) s2 it args pi k (SRepCall times it name args p) cnt i)).
    { induction cnt as [|cnt IHc]; intros i Hi; simpl; [constructor|]. apply orel_app2; [|apply IHc; lia].
      apply Hexp; [apply map_subst_rel; [now apply override_brel | exact Ia]|]. intros m Fm.
      apply (valid_snoc D pi (main_ops D) body (mkstep k (SRepCall times it name args p) (Some i)) m V E); [|exact Fm].
      split; [exact Hn | exists i; auto]. }
    apply U. lia.
  - constructor; [|constructor]. simpl. now apply SR.
  - constructor; [|constructor]. simpl. now apply SR.
Qed.

Lemma inline_ops_rel s1 s2 pi body : brel Ne s1 s2 -> valid_path D pi -> ends D (main_ops D) pi body ->
  forall ops k, skipn k body = ops -> forallb wf_stmt ops = true -> incl (flat_map stmt_names ops) (program_names D) ->
  orel (inline_ops exp1 s1 pi k ops) (inline_ops exp2 s2 pi k ops).
Proof.
  intros Bs V E. induction ops as [|s ops IH]; intros k Sk Hw I; simpl; [constructor|].
  simpl in Hw. apply andb_prop in Hw as [Hw1 Hw2]. apply orel_app2.
  - eapply inline_stmt_rel; eauto. intros y Hy. apply I. simpl. apply in_or_app. auto.
  - apply IH; [exact (proj2 (skipn_cons_nth _ _ _ _ Sk)) | exact Hw2 |]. intros y Hy. apply I. simpl. apply in_or_app. auto.
Qed.
End Ops.

Lemma body_names_incl mn m : find_macro D mn = Some m -> incl (flat_map stmt_names (m_ops m)) (program_names D).
Proof.
  intros F. destruct (find_macro_in _ _ _ F) as (k & Hin & _). intros y Hy. unfold program_names. apply in_flat_map.
  exists (k, m). auto.
Qed.

Lemma lookup_brel (b1 b2 : binding) :
  Forall2 (fun x y => fst x = fst y /\ erel Ne (snd x) (snd y)) b1 b2 -> brel Ne (lookup b1) (lookup b2).
Proof.
  induction 1 as [|[k1 v1] [k2 v2] b1 b2 [Hk Hv] _ IH]; intros s; simpl; [exact I|]. simpl in *. subst k2.
  destruct (String.eqb k1 s); [exact Hv | apply IH].
Qed.

Lemma bind_macro_rel m a1 a2 pi : wf_macro m = true -> valid_path D pi -> Forall2 (erel Ne) a1 a2 ->
  brel Ne (lookup (bind_macro f1 m a1 pi)) (lookup (bind_macro f2 m a2 pi)).
Proof.
  intros Hw V F. apply lookup_brel. unfold bind_macro, qualify.
  unfold wf_macro in Hw. apply andb_prop in Hw as [Hw _]. apply andb_prop in Hw as [Hw _]. apply andb_prop in Hw as [Hw _].
  apply andb_prop in Hw as [Hid _]. rewrite forallb_forall in Hid.
  assert (Rb : Forall2 (fun x y : string * expr => fst x = fst y /\ erel Ne (snd x) (snd y))
                 (combine (m_params m) a1 ++ map (fun l => (l, ELbl (f1 pi l))) (m_locals m))
                 (combine (m_params m) a2 ++ map (fun l => (l, ELbl (f2 pi l))) (m_locals m))).
  { apply Forall2_app.
    - clear Hid. revert a1 a2 F. induction (m_params m) as [|p ps IH]; intros a1 a2 F; simpl; [constructor|].
      inversion F; subst; simpl; constructor; auto.
    - assert (Hl : forall l, In l (m_locals m) -> is_ident l = true) by (intros l Hl; apply Hid; apply in_or_app; auto).
      clear Hid. induction (m_locals m) as [|l ls IH]; simpl; constructor.
      + simpl. split; [reflexivity|]. apply HG; [exact V | apply Hl; simpl; auto].
      + apply IH. intros x Hx. apply Hl. simpl. auto. }
  apply Forall2_app; [exact Rb|]. destruct (String.eqb (m_ns m) ""); [constructor|].
  clear - Rb. induction Rb as [|x y r1 r2 [H1 H2] _ IH]; simpl; constructor; auto. simpl. split; congruence.
Qed.

Lemma inline_call_rel n : HE (inline_call f1 D n) (inline_call f2 D n).
Proof.
  induction n as [|n IH]; intros mn a1 a2 pi' F Hv; simpl; [exact I|].
  destruct (find_macro D mn) as [m|] eqn:Fm; [|exact I]. destruct (Hv m eq_refl) as [V E].
  destruct (find_macro_wf D WF _ _ Fm) as (k & Hk & _). destruct (wf_entry_macro _ _ Hk) as [Hm Hops].
  eapply (inline_ops_rel _ _ IH); eauto.
  - now apply bind_macro_rel.
  - eapply body_names_incl; eauto.
Qed.

Theorem inline_rel n : orel (inline f1 D n) (inline f2 D n).
Proof.
  unfold inline. eapply (inline_ops_rel _ _ (inline_call_rel n) (fun _ => None) (fun _ => None) [] (main_ops D)).
  - intros s. exact I.
  - exact I.
  - reflexivity.
  - reflexivity.
  - destruct (main_body_ok D WF) as [H _]. exact H.
  - unfold main_ops. destruct (find_macro D main_macro_name) as [m|] eqn:Fm; [eapply body_names_incl; eauto | intros y []].
Qed.

End NamingInline.

(* ---- the correspondence between the code's names and the names of an admissible naming ---- *)

(* the names an inlined program must not generate: what the program itself writes, `$`, and the assembler's own labels *)
Definition reserved (D : macro_dict) (s : string) : Prop :=
  In s (program_names D) \/ s = "$" \/ (exists k, s = wflip_start_label ++ dec k) \/ s = start_label "".

(* a naming of the local labels of the expansions of D: different (expansion, label) pairs get different names, and no
   generated name is a reserved one *)
Definition admissible_for (D : macro_dict) (fresh : path -> string -> string) : Prop :=
  (forall pi1 l1 pi2 l2, valid_path D pi1 -> valid_path D pi2 -> is_ident l1 = true -> is_ident l2 = true ->
                         fresh pi1 l1 = fresh pi2 l2 -> pi1 = pi2 /\ l1 = l2) /\
  (forall pi l, valid_path D pi -> is_ident l = true -> ~ reserved D (fresh pi l)).

Definition Nrel (D : macro_dict) (f1 f2 : path -> string -> string) (s1 s2 : string) : Prop :=
  (s1 = s2 /\ (In s1 (program_names D) \/ s1 = "$" \/ exists k, s1 = wflip_start_label ++ dec k)) \/
  (exists pi l, valid_path D pi /\ is_ident l = true /\ s1 = f1 pi l /\ s2 = f2 pi l).
(* the same with the start label of the main macro, which finish() may add to both label tables *)
Definition Nt (D : macro_dict) (f1 f2 : path -> string -> string) (s1 s2 : string) : Prop :=
  Nrel D f1 f2 s1 s2 \/ (s1 = start_label "" /\ s2 = start_label "").

Lemma dotted_user s : dotted_ident s = true -> user_name s = true.
Proof. unfold dotted_ident, user_name. intros ->. reflexivity. Qed.

Lemma names_ok_user e s : names_ok e = true -> In s (expr_labels e) -> user_name s = true.
Proof. unfold names_ok. rewrite forallb_forall. auto. Qed.

Lemma arg_ok_user e s : arg_ok e = true -> In s (expr_labels e) -> user_name s = true.
Proof. unfold arg_ok. rewrite forallb_forall. intros H Hs. apply dotted_user. auto. Qed.

Lemma stmt_names_user st s : wf_stmt st = true -> In s (stmt_names st) -> user_name s = true.
Proof.
  destruct st as [f j p|x v r p|e p|n p|name args p|times it name args p|e p|e p]; simpl; intros Hw Hs.
  - apply andb_prop in Hw as [H1 H2]. apply in_app_or in Hs as [Hs|Hs]; [exact (names_ok_user _ _ H1 Hs) | exact (names_ok_user _ _ H2 Hs)].
  - apply andb_prop in Hw as [Hw H3]. apply andb_prop in Hw as [H1 H2].
    apply in_app_or in Hs as [Hs|Hs]; [exact (names_ok_user _ _ H1 Hs)|].
    apply in_app_or in Hs as [Hs|Hs]; [exact (names_ok_user _ _ H2 Hs) | exact (names_ok_user _ _ H3 Hs)].
  - exact (names_ok_user _ _ Hw Hs).
  - destruct Hs as [<-|[]]. now apply dotted_user.
  - apply andb_prop in Hw as [Hw _]. apply andb_prop in Hw as [_ Ha]. rewrite forallb_forall in Ha.
    apply in_flat_map in Hs as (a & Hin & Hs). exact (arg_ok_user _ _ (Ha _ Hin) Hs).
  - apply andb_prop in Hw as [Hw _]. apply andb_prop in Hw as [Hw Ha]. apply andb_prop in Hw as [Hw _]. apply andb_prop in Hw as [Ht _].
    rewrite forallb_forall in Ha. apply in_app_or in Hs as [Hs|Hs]; [exact (names_ok_user _ _ Ht Hs)|].
    apply in_flat_map in Hs as (a & Hin & Hs). exact (arg_ok_user _ _ (Ha _ Hin) Hs).
  - exact (names_ok_user _ _ Hw Hs).
  - exact (names_ok_user _ _ Hw Hs).
Qed.

Lemma program_names_user D s : wf_tree D = true -> In s (program_names D) -> user_name s = true.
Proof.
  intros WF H. unfold program_names in H. apply in_flat_map in H as ([k m] & Hin & H). simpl in H.
  apply in_flat_map in H as (st & Hst & H). unfold wf_tree in WF. rewrite forallb_forall in WF. specialize (WF _ Hin).
  destruct (wf_entry_macro _ _ WF) as [_ Hops]. rewrite forallb_forall in Hops. eapply stmt_names_user; eauto.
Qed.

Lemma wflip_label_user k : user_name (wflip_start_label ++ dec k) = true.
Proof.
  apply dotted_user. unfold dotted_ident. rewrite string_forall_app. simpl. apply (ident_dotted _ (dec_ident k)).
Qed.

Lemma ends_with_split suf s : ends_with suf s = true -> exists a, s = a ++ suf.
Proof.
  induction s as [|c s IH]; cbn [ends_with]; intros H.
  - rewrite orb_false_r in H. apply String.eqb_eq in H. exists "". now subst.
  - apply orb_prop in H as [H|H]; [apply String.eqb_eq in H; exists ""; now subst|]. destruct (IH H) as (a & ->). now exists (String c a).
Qed.

Lemma start_not_user s : is_start_label s = true -> user_name s = false.
Proof.
  intros H. apply ends_with_split in H as (a & ->). unfold user_name, STARTING_LABEL_IN_MACROS_STRING.
  rewrite string_forall_app. simpl. rewrite andb_false_r. simpl. destruct a as [|c a]; [reflexivity|]. simpl.
  destruct (Ascii.eqb c "$"); [|reflexivity]. destruct a; reflexivity.
Qed.

Lemma start_not_nice s : is_start_label s = true -> niceb s = false.
Proof.
  intros H. apply ends_with_split in H as (a & ->). unfold niceb. rewrite last_sep_app. reflexivity.
Qed.

Section Corr.
Variable D : macro_dict.
Variable fresh : path -> string -> string.
Hypothesis WF : wf_tree D = true.
Hypothesis ADM : admissible_for D fresh.

Lemma U_user s : In s (program_names D) \/ s = "$" \/ (exists k, s = wflip_start_label ++ dec k) -> user_name s = true.
Proof. intros [H|[->|(k & ->)]]; [exact (program_names_user D s WF H) | reflexivity | apply wflip_label_user]. Qed.

Lemma impl_not_U pi l : is_ident l = true ->
  ~ (In (impl_fresh pi l) (program_names D) \/ impl_fresh pi l = "$" \/ (exists k, impl_fresh pi l = wflip_start_label ++ dec k)) /\
  impl_fresh pi l <> start_label "".
Proof.
  intros Hl. split.
  - intros H. apply U_user in H. unfold impl_fresh in H. now rewrite local_label_not_user in H.
  - apply nice_neq; [now apply local_label_nice | reflexivity].
Qed.

Lemma Nt_biinj : biinj (Nt D impl_fresh fresh).
Proof.
  destruct ADM as [Inj Av].
  assert (G : forall k pi l, valid_path D pi -> is_ident l = true ->
            (In k (program_names D) \/ k = "$" \/ (exists n, k = wflip_start_label ++ dec n)) \/ k = start_label "" ->
            k <> impl_fresh pi l /\ k <> fresh pi l).
  { intros k pi l V Hl Hk. destruct (impl_not_U pi l Hl) as [A1 A2]. split.
    - intros ->. destruct Hk; auto.
    - intros ->. apply (Av pi l V Hl). unfold reserved. destruct Hk as [[H|[H|H]]|H]; auto. }
  assert (C : forall a b, Nt D impl_fresh fresh a b ->
            (a = b /\ ((In a (program_names D) \/ a = "$" \/ (exists n, a = wflip_start_label ++ dec n)) \/ a = start_label "")) \/
            (exists pi l, valid_path D pi /\ is_ident l = true /\ a = impl_fresh pi l /\ b = fresh pi l)).
  { intros a b [[[E H]|H]|[E1 E2]]; [left; auto | right; exact H | left; subst; auto]. }
  intros k1 k2 s1 s2 Hk Hs. destruct (C _ _ Hk) as [[-> Fk]|(pk & lk & Vk & Ik & -> & ->)];
    destruct (C _ _ Hs) as [[-> Fs]|(ps & ls & Vs & Is & -> & ->)].
  - reflexivity.
  - destruct (G k2 ps ls Vs Is Fk). split; intros E; exfalso; auto.
  - destruct (G s2 pk lk Vk Ik Fs). split; intros E; exfalso; auto.
  - split; intros E.
    + destruct (fresh_on_valid_paths D _ _ _ _ WF Vk Vs Ik Is E) as [-> ->]. reflexivity.
    + destruct (Inj _ _ _ _ Vk Vs Ik Is E) as [-> ->]. reflexivity.
Qed.

End Corr.

(* ---- what the last assembly phase reads of an expansion: the VALUES of the op words under the label table ---- *)

Definition ev (L : list (string * Z)) (e : expr) : option Z := ok_value (exact_eval (dict_get L) e).

Inductive elop :=
  | EFlipJump (flip jump : option Z)
  | EWordFlip (addr value ret : option Z)
  | EPadding (ops_count : Z)
  | ENewSegment (start wflip_start : Z)
  | EReserveBits (first_after : Z).

(* FlipJump.get_flip(labels) / get_jump(labels), WordFlip.get_…(labels): None = the expression has no value *)
Definition eval_lop (L : list (string * Z)) (o : lop) : elop :=
  match o with
  | LFlipJump f j => EFlipJump (ev L f) (ev L j)
  | LWordFlip a v r => EWordFlip (ev L a) (ev L v) (ev L r)
  | LPadding n => EPadding n
  | LNewSegment s k => ENewSegment s k
  | LReserveBits a => EReserveBits a
  end.

Lemma ev_rel Ne T1 T2 e1 e2 : biinj Ne -> trel Ne T1 T2 -> erel Ne e1 e2 -> ev T1 e1 = ev T2 e2.
Proof.
  intros B R E. unfold ev. pose proof (exact_eval_rel Ne T1 T2 B R _ _ E) as H.
  destruct (exact_eval (dict_get T1) e1) as [v| |]; destruct (exact_eval (dict_get T2) e2) as [v2| |]; try reflexivity;
    try (pose proof (proj1 (H v) eq_refl); congruence); try (pose proof (proj2 (H v2) eq_refl); congruence).
Qed.

Lemma eval_lops_rel Ne T1 T2 l1 l2 : biinj Ne -> trel Ne T1 T2 -> Forall2 (lrel Ne) l1 l2 ->
  map (eval_lop T1) l1 = map (eval_lop T2) l2.
Proof.
  intros B R. induction 1 as [|o1 o2 l1 l2 Ho _ IH]; simpl; [reflexivity|]. rewrite IH. f_equal.
  destruct o1, o2; simpl in Ho; try contradiction; simpl.
  - destruct Ho as [H1 H2]. now rewrite (ev_rel _ _ _ _ _ B R H1), (ev_rel _ _ _ _ _ B R H2).
  - destruct Ho as (H1 & H2 & H3). now rewrite (ev_rel _ _ _ _ _ B R H1), (ev_rel _ _ _ _ _ B R H2), (ev_rel _ _ _ _ _ B R H3).
  - congruence.
  - destruct Ho; congruence.
  - congruence.
Qed.

Lemma exact_eval_agree L1 L2 e : (forall s, In s (expr_labels e) -> L1 s = L2 s) -> exact_eval L1 e = exact_eval L2 e.
Proof.
  induction e as [z|s|o args IH] using expr_ind'; intros H.
  - now rewrite !exact_eval_int.
  - rewrite !exact_eval_lbl, (H s); [reflexivity | simpl; auto].
  - rewrite !exact_eval_op. do 2 f_equal. simpl in H. induction IH as [|a t Ha _ IHt]; simpl; [reflexivity|].
    rewrite Ha, IHt; [reflexivity | |]; intros s Hs; apply H; simpl; apply in_or_app; auto.
Qed.

Definition lop_labels (o : lop) : list string :=
  match o with
  | LFlipJump f j => expr_labels f ++ expr_labels j
  | LWordFlip a v r => expr_labels a ++ expr_labels v ++ expr_labels r
  | _ => []
  end%list.

Lemma eval_lop_agree T1 T2 o : (forall s, In s (lop_labels o) -> dict_get T1 s = dict_get T2 s) -> eval_lop T1 o = eval_lop T2 o.
Proof.
  intros H. destruct o; simpl in *; try reflexivity; unfold ev.
  - rewrite (exact_eval_agree (dict_get T1) (dict_get T2) flip), (exact_eval_agree (dict_get T1) (dict_get T2) jump); auto;
      intros s Hs; apply H; apply in_or_app; auto.
  - rewrite (exact_eval_agree (dict_get T1) (dict_get T2) addr), (exact_eval_agree (dict_get T1) (dict_get T2) value),
      (exact_eval_agree (dict_get T1) (dict_get T2) ret); auto; intros s Hs; apply H; apply in_or_app; auto; right; apply in_or_app; auto.
Qed.

Lemma erel_dom Ne e1 : forall e2, erel Ne e1 e2 -> Forall (fun s => exists t, Ne s t) (expr_labels e1).
Proof.
  induction e1 as [z|s|o args IH] using expr_ind'; intros e2 E; destruct e2 as [z2|s2|o2 args2]; simpl in E; try contradiction; simpl.
  - constructor.
  - constructor; [eauto | constructor].
  - apply (proj1 (erel_op _ _ _ _ _)) in E as [_ F]. induction F as [|x y a b Hxy _ IHF]; simpl; [constructor|].
    inversion IH; subst. apply Forall_app. split; eauto.
Qed.

Lemma lrel_dom Ne o1 o2 : lrel Ne o1 o2 -> Forall (fun s => exists t, Ne s t) (lop_labels o1).
Proof.
  destruct o1, o2; simpl; intros H; try contradiction; try constructor.
  - destruct H as [H1 H2]. apply Forall_app. split; eapply erel_dom; eauto.
  - destruct H as (H1 & H2 & H3). apply Forall_app. split; [eapply erel_dom; eauto|]. apply Forall_app. split; eapply erel_dom; eauto.
Qed.

(* monotonicity in the correspondence *)
Lemma erel_mono (N1 N2 : string -> string -> Prop) : (forall a b, N1 a b -> N2 a b) -> forall e1 e2, erel N1 e1 e2 -> erel N2 e1 e2.
Proof.
  intros S. induction e1 as [z|s|o args IH] using expr_ind'; intros e2 E; destruct e2 as [z2|s2|o2 args2]; simpl in E; try contradiction.
  - exact E. - simpl. auto.
  - apply (proj1 (erel_op _ _ _ _ _)) in E as [<- F]. apply erel_op. split; [reflexivity|].
    induction F as [|x y a b Hxy _ IHF]; constructor; inversion IH; subst; auto.
Qed.

Lemma lrel_mono (N1 N2 : string -> string -> Prop) : (forall a b, N1 a b -> N2 a b) -> forall o1 o2, lrel N1 o1 o2 -> lrel N2 o1 o2.
Proof.
  intros S o1 o2. destruct o1, o2; simpl; intros H; try contradiction; auto.
  - destruct H; split; eapply erel_mono; eauto.
  - destruct H as (H1 & H2 & H3); repeat split; eapply erel_mono; eauto.
Qed.

Lemma crel_mono (N1 N2 : string -> string -> Prop) : (forall a b, N1 a b -> N2 a b) -> forall c1 c2, crel N1 c1 c2 -> crel N2 c1 c2.
Proof.
  intros S c1 c2 (A & O & T & L & G). repeat split; auto.
  - eapply Forall2_imp; [|exact O]. apply lrel_mono; auto.
  - eapply Forall2_imp; [|exact T]. intros x y [H1 H2]. auto.
Qed.

Lemma Forall2_rev' {A B} (R : A -> B -> Prop) l1 l2 : Forall2 R l1 l2 -> Forall2 R (rev l1) (rev l2).
Proof. induction 1; simpl; [constructor|]. apply Forall2_app; [assumption | constructor; auto]. Qed.

Definition st0 : pstate := mkps init_core [(0%Z, start_label "")].

Lemma resolve_prim_eq w P depth :
  resolve_macros w (prim_tree P) depth =
  rbind (run_ops w (prim_tree P) (rec_of w (prim_tree P) (N.to_nat depth)) [] "" P st0)
        (fun st => rbind (finish st) (fun c => ROk (rev (c_rops c), c_labels c))).
Proof. unfold resolve_macros, resolve_main. rewrite resolve_macro_aux_eq. reflexivity. Qed.

Lemma run_ops_prim_starts w D' rec' P : Forall (fun s => stmt_primitive s = true) P -> forall st st',
  run_ops w D' rec' [] "" P st = ROk st' -> ps_starts st' = ps_starts st.
Proof.
  induction 1 as [|s P Hs _ IH]; intros st st' H; simpl in H; [now injection H as <-|].
  apply rbind_ok in H as (sa & Ha & H). rewrite (step_op_prim w) in Ha by exact Hs. unfold on_core in Ha.
  apply rbind_ok in Ha as (c & _ & Ha). injection Ha as <-. now rewrite (IH _ _ H).
Qed.

(* C03_inline_any_naming.  Whatever admissible naming the textual inliner uses for the local labels, the inlined
   program is macro free and expands to ops whose word VALUES under its own label table are exactly the values of the
   macro program's ops under the macro program's table: the last assembly phase (which reads the ops only through
   these values) builds the same image.  The two label tables differ by the one-to-one renaming of generated names. *)
Theorem inline_any_naming w D depth ops lbls fresh P :
  wf_tree D = true -> admissible_for D fresh ->
  resolve_macros w D depth = ROk (ops, lbls) ->
  inline fresh D (N.to_nat depth) = Some P ->
  Forall (fun s => stmt_primitive s = true) P /\
  exists ops' lbls', resolve_macros w (prim_tree P) depth = ROk (ops', lbls') /\
                     map (eval_lop lbls) ops = map (eval_lop lbls') ops'.
Proof.
  intros WF ADM Hr Hi.
  set (Ne := Nrel D impl_fresh fresh). set (NT := Nt D impl_fresh fresh).
  pose proof (Nt_biinj D fresh WF ADM) as Bt. fold NT in Bt.
  assert (Sub : forall a b, Ne a b -> NT a b) by (intros; left; assumption).
  assert (Bn : biinj Ne) by (intros k1 k2 s1 s2 H1 H2; apply Bt; auto).
  assert (HU : forall s, In s (program_names D) -> Ne s s) by (intros s Hs; left; auto).
  assert (HG : forall pi l, valid_path D pi -> is_ident l = true -> Ne (impl_fresh pi l) (fresh pi l))
    by (intros pi l V Hl; right; exists pi, l; auto).
  assert (ND : Ne "$" "$") by (left; auto).
  assert (NW : forall k, Ne (wflip_start_label ++ dec k) (wflip_start_label ++ dec k)) by (intros k; left; split; eauto).
  pose proof (inline_rel D impl_fresh fresh Ne WF Bn HU HG (N.to_nat depth)) as R1. rewrite Hi in R1.
  destruct (inline impl_fresh D (N.to_nat depth)) as [P0|] eqn:Hi0; [|contradiction]. simpl in R1.
  destruct (inline_correct w D depth ops lbls P0 WF Hr Hi0) as [F0 (lbls0 & R0 & A0)].
  assert (FP : Forall (fun s => stmt_primitive s = true) P).
  { clear - R1. induction R1 as [|a b P0 P Hab _ IH]; constructor; [exact (proj2 (strel_prim _ _ _ Hab)) | exact IH]. }
  split; [exact FP|].
  rewrite resolve_prim_eq in R0. apply rbind_ok in R0 as (s1 & M1 & R0). apply rbind_ok in R0 as (cf & Fin1 & R0). injection R0 as <- <-.
  assert (C0 : crel Ne (ps_core st0) (ps_core st0)).
  { repeat split; simpl; auto. constructor; [simpl; auto | constructor]. constructor. }
  destruct (run_ops_rel Ne Bn ND NW w (prim_tree P0) (prim_tree P) (rec_of w (prim_tree P0) (N.to_nat depth))
              (rec_of w (prim_tree P) (N.to_nat depth)) P0 P R1 st0 st0 s1 C0 eq_refl M1) as (s2 & M2 & C2 & S2).
  pose proof (run_ops_prim_starts _ _ _ _ F0 _ _ M1) as S1. simpl in S1.
  (* finish *)
  unfold finish in Fin1. rewrite S1 in Fin1.
  set (c1 := mkcore (c_addr (ps_core s1)) (patch_last_wflip (c_rops (ps_core s1)) (c_addr (ps_core s1)))
                    (c_labels (ps_core s1)) (c_lbladdrs (ps_core s1)) (c_segidx (ps_core s1))) in *.
  set (c2 := mkcore (c_addr (ps_core s2)) (patch_last_wflip (c_rops (ps_core s2)) (c_addr (ps_core s2)))
                    (c_labels (ps_core s2)) (c_lbladdrs (ps_core s2)) (c_segidx (ps_core s2))).
  assert (C12 : crel Ne c1 c2).
  { destruct C2 as (A & O & T & L & G). repeat split; simpl; auto. rewrite <- A. now apply patch_rel. }
  assert (Fin2 : exists cf2, finish s2 = ROk cf2 /\ Forall2 (lrel NT) (c_rops cf) (c_rops cf2) /\ trel NT (c_labels cf) (c_labels cf2)).
  { unfold finish. rewrite <- S2, S1. fold c2. unfold insert_start_labels in Fin1 |- *. pose proof (crel_mono _ _ Sub _ _ C12) as CT.
    destruct CT as (A & O & T & L & G). rewrite <- L. destruct (existsb (Z.eqb 0) (c_lbladdrs c1)).
    - injection Fin1 as <-. eexists. split; [reflexivity|]. auto.
    - apply rbind_ok in Fin1 as (cx & Ix & Fin1). injection Fin1 as <-.
      assert (NS : NT (start_label "") (start_label "")) by (right; auto).
      destruct (insert_label_rel NT Bt c1 c2 _ _ 0%Z cx (conj A (conj O (conj T (conj L G)))) NS Ix) as (cy & Iy & (_ & O' & T' & _)).
      rewrite Iy. simpl. eexists. split; [reflexivity|]. auto. }
  destruct Fin2 as (cf2 & Fin2 & OT & TT).
  exists (rev (c_rops cf2)), (c_labels cf2). split.
  - rewrite resolve_prim_eq, M2. simpl. rewrite Fin2. reflexivity.
  - rewrite <- (eval_lops_rel NT _ _ _ _ Bt TT (Forall2_rev' _ _ _ OT)).
    (* the macro program's table and the table of its own inlining agree on every name the ops mention *)
    assert (Erops : c_rops cf = c_rops c1).
    { unfold insert_start_labels in Fin1. destruct (existsb (Z.eqb 0) (c_lbladdrs c1)); [now injection Fin1 as <-|].
      apply rbind_ok in Fin1 as (cx & Ix & Fin1). injection Fin1 as <-. unfold insert_label in Ix.
      destruct (dict_mem (c_labels c1) (start_label "")); [discriminate|]. now injection Ix as <-. }
    assert (Dom : Forall (fun o => Forall (fun s => is_start_label s = false) (lop_labels o)) (c_rops cf)).
    { rewrite Erops. destruct C12 as (_ & O & _). clear - O WF. induction O as [|o1 o2 r1 r2 Ho _ IH]; constructor; [|exact IH].
      eapply Forall_impl; [|exact (lrel_dom _ _ _ Ho)]. intros s (t & [[_ Hu]|(pi & l & _ & Hl & -> & _)]).
      - destruct (is_start_label s) eqn:E; [|reflexivity]. apply start_not_user in E.
        assert (user_name s = true) by (destruct Hu as [H|[->|(k & ->)]]; [exact (program_names_user D s WF H) | reflexivity | apply wflip_label_user]).
        congruence.
      - destruct (is_start_label (impl_fresh pi l)) eqn:E; [|reflexivity]. apply start_not_nice in E.
        unfold impl_fresh in E. rewrite (local_label_nice _ _ Hl) in E. discriminate. }
    apply map_ext_in. intros o Ho. apply eval_lop_agree. intros s Hs. symmetry. apply A0.
    rewrite Forall_forall in Dom. apply in_rev in Ho. specialize (Dom _ Ho). rewrite Forall_forall in Dom. auto.
Qed.

(* the code's own naming is admissible, and so is e.g. the same name behind a tag that no program can write *)
Lemma impl_admissible D : wf_tree D = true -> admissible_for D impl_fresh.
Proof.
  intros WF. split.
  - intros. eapply fresh_on_valid_paths; eauto.
  - intros pi l V Hl [H|[H|[H|H]]]; destruct (impl_not_U D WF pi l Hl) as [A1 A2]; auto.
Qed.

Definition fresh_tagged (pi : path) (l : string) : string := "@" ++ impl_fresh pi l.

Lemma tagged_admissible D : wf_tree D = true -> admissible_for D fresh_tagged.
Proof.
  intros WF. split.
  - unfold fresh_tagged. intros pi1 l1 pi2 l2 V1 V2 H1 H2 E. injection E as E. eapply fresh_on_valid_paths; eauto.
  - intros pi l V Hl. unfold fresh_tagged.
    assert (NU : user_name ("@" ++ impl_fresh pi l) = false) by reflexivity.
    intros [H|[H|[(k & H)|H]]].
    + apply (program_names_user D _ WF) in H. congruence.
    + discriminate.
    + pose proof (wflip_label_user k) as X. rewrite <- H in X. congruence.
    + discriminate.
Qed.
