From FJ Require Import Lib.Base Lib.Bytes Spec.ImageSpec Model.Fjm Proofs.FjmCodec Proofs.FjmReader Proofs.FjmWriter Proofs.FjmProps.
(* C10, torn writes: every strict prefix of a written file is rejected, or loads the same image. *)
Local Open Scope N_scope.

(* ---- list facts ------------------------------------------------------------------------------------------ *)

Lemma firstn_app_ge (A : Type) (a b : list A) k :
  (length a <= k)%nat -> firstn k (a ++ b) = a ++ firstn (k - length a) b.
Proof. intros H. rewrite firstn_app. now rewrite firstn_all2 by exact H. Qed.

Lemma firstn_app_lt (A : Type) (a b : list A) k :
  (k <= length a)%nat -> firstn k (a ++ b) = firstn k a.
Proof. intros H. rewrite firstn_app. replace (k - length a)%nat with 0%nat by lia. cbn. apply app_nil_r. Qed.

Lemma slice_firstn (A : Type) (l : list A) q s n :
  (s + n <= q)%nat -> firstn n (skipn s (firstn q l)) = firstn n (skipn s l).
Proof.
  intros H. rewrite skipn_firstn_comm, firstn_firstn. f_equal. lia.
Qed.

(* ---- the data pool of a truncated payload ---------------------------------------------------------------- *)

Lemma enc_words_cons wb x D : enc_words wb (x :: D) = le_enc wb (Z.to_N x) ++ enc_words wb D.
Proof. reflexivity. Qed.

Lemma unpack_prefix wb (Hwb : (1 <= wb)%nat) : forall q D r fuel,
  (r < wb)%nat -> (wb * q + r <= length (enc_words wb D))%nat -> (wb * q + r <= fuel)%nat ->
  Forall (fun x => 0 <= x < 256 ^ Z.of_nat wb)%Z D ->
  unpack_words fuel wb (firstn (wb * q + r) (enc_words wb D)) =
  if (r =? 0)%nat then UOk (firstn q (map Z.to_N D)) else UStruct.
Proof.
  induction q as [|q IH]; intros D r fuel Hr Hlen Hfuel HD.
  - rewrite Nat.mul_0_r, Nat.add_0_l in *. destruct r as [|r].
    + cbn. destruct fuel; reflexivity.
    + destruct D as [|x D]; [cbn in Hlen; lia|].
      rewrite enc_words_cons.
      rewrite firstn_app_lt by (rewrite le_enc_length; lia).
      remember (firstn (S r) (le_enc wb (Z.to_N x))) as e eqn:Ee.
      assert (Le : length e = S r) by (subst e; rewrite firstn_length, le_enc_length; lia).
      destruct e as [|e0 e']; [discriminate|]. destruct fuel as [|fuel]; [lia|].
      cbn [unpack_words Nat.eqb]. rewrite take_short by (rewrite Le; lia). reflexivity.
  - destruct D as [|x D]; [cbn in Hlen; lia|].
    inversion HD as [|? ? Hx HD']; subst.
    rewrite enc_words_cons in *.
    rewrite app_length, le_enc_length in Hlen.
    replace (wb * S q + r)%nat with (length (le_enc wb (Z.to_N x)) + (wb * q + r))%nat
      by (rewrite le_enc_length; lia).
    rewrite firstn_app_2.
    remember (le_enc wb (Z.to_N x)) as e eqn:Ee.
    assert (Le : length e = wb) by (subst e; apply le_enc_length).
    destruct e as [|e0 e']; [cbn in Le; lia|]. destruct fuel as [|fuel]; [lia|].
    cbn [app unpack_words]. change (e0 :: e' ++ ?t) with ((e0 :: e') ++ t). rewrite take_app by exact Le.
    rewrite IH; [| exact Hr | lia | lia | exact HD'].
    destruct (r =? 0)%nat; [|reflexivity]. cbn [map firstn]. f_equal. f_equal.
    rewrite Ee. apply le_dec_enc. destruct Hx as [H0 H1]. apply N2Z.inj_lt. rewrite Z2N.id by exact H0.
    rewrite N2Z.inj_pow. now rewrite nat_N_Z.
Qed.

(* ---- _init_memory over a prefix of the pool: refuses, or builds the same memory ----------------------------- *)

Lemma init_memory_prefix thr w rel (DN : list N) q : (q <= length DN)%nat ->
  forall T m segs m' z,
  init_memory thr w rel DN (N.of_nat (length DN)) m T = MOk segs m' z ->
  (exists k, init_memory thr w rel (firstn q DN) (N.of_nat q) m T = MErr k) \/
  init_memory thr w rel (firstn q DN) (N.of_nat q) m T = MOk segs m' z.
Proof.
  intros Hq. induction T as [|t T IH]; intros m segs m' z H.
  - right. exact H.
  - cbn [init_memory] in *.
    destruct (init_segment thr w rel DN (N.of_nat (length DN)) m t) as [m1 z1| |] eqn:E1; try discriminate.
    destruct (init_memory thr w rel DN (N.of_nat (length DN)) m1 T) as [segs2 m2 z2| |] eqn:E2; try discriminate.
    injection H as <- <- <-.
    assert (E1' : (exists k, init_segment thr w rel (firstn q DN) (N.of_nat q) m t = SErr k) \/
                  init_segment thr w rel (firstn q DN) (N.of_nat q) m t = SOk m1 z1).
    { destruct t as [[[ss sl] ds] dl]. unfold init_segment in *.
      destruct (N.odd dl); [discriminate|].
      destruct (N.of_nat (length DN) <? ds + dl) eqn:Ep; [discriminate|].
      destruct (N.of_nat q <? ds + dl) eqn:Eq; [left; eexists; reflexivity|].
      right. rewrite slice_firstn by lia. exact E1. }
    destruct E1' as [[k ->] | ->]; [left; eexists; reflexivity|].
    destruct (IH _ _ _ _ E2) as [[k ->] | ->]; [left; eexists; reflexivity | right; reflexivity].
Qed.

(* ---- Reader.__init__ in stages ------------------------------------------------------------------------------ *)

Section Stages.
Variable thr : N.
Variable decompress : bytes -> option bytes.

Definition stage_payload (w ver flags : N) (table : list tseg) (payload : bytes) : rres :=
  match word_bytes w with
  | None => RRaw RxKey
  | Some wb =>
    match (if ver =? 3 then decompress payload else Some payload) with
    | None => RErr ELzma
    | Some fd =>
      match unpack_words (length fd) wb fd with
      | UStruct => RErr EStruct
      | UFuel => RRaw RxFuel
      | UOk data =>
        if validate_segments table then RErr ETable else
        let dlen := N.of_nat (length data) in
        match init_memory thr w ((ver =? 2) || (ver =? 3)) data dlen (PositiveMap.empty N) table with
        | MErr k => RErr k
        | MRaw e => RRaw e
        | MOk segs m z => ROk (mkimg w ver flags table dlen segs m z)
        end
      end
    end
  end.

Definition stage_table (w ver flags segnum : N) (r2 : bytes) : rres :=
  if N.of_nat (length r2) <? 32 * segnum then RErr EStruct else
  match read_segs (N.to_nat segnum) r2 with
  | None => RErr EStruct
  | Some (table, payload) => stage_payload w ver flags table payload
  end.

Definition stage_ext (magic w ver segnum : N) (r1 : bytes) : rres :=
  match (if ver =? 0 then Some (0, 0, r1)
         else match take header_extension_size r1 with
              | None => None
              | Some (e, r2) => Some (u_at 0 8 e, u_at 8 4 e, r2)
              end) with
  | None => RErr EStruct
  | Some (flags, reserved, r2) =>
    if negb (magic =? FJ_MAGIC) then RErr EMagic else
    if negb (supported_width w) then RErr EWidth else
    if negb (reserved =? 0) then RErr EReserved else
    stage_table w ver flags segnum r2
  end.

Lemma read_thr_stages b :
  read_thr thr decompress b =
  match take header_base_size b with
  | None => RErr EStruct
  | Some (h, r1) =>
    if max_version <? u_at 4 8 h then RErr EVersion
    else stage_ext (u_at 0 2 h) (u_at 2 2 h) (u_at 4 8 h) (u_at 12 8 h) r1
  end.
Proof. reflexivity. Qed.

Lemma stage_table_short w ver flags segnum r2 :
  N.of_nat (length r2) < 32 * segnum -> stage_table w ver flags segnum r2 = RErr EStruct.
Proof. intros H. unfold stage_table. now replace (N.of_nat (length r2) <? 32 * segnum) with true by (symmetry; lia). Qed.

Lemma stage_table_full w ver flags T pl :
  Forall tseg_u64 T ->
  stage_table w ver flags (N.of_nat (length T)) (enc_table T ++ pl) = stage_payload w ver flags T pl.
Proof.
  intros Hu. unfold stage_table.
  replace (N.of_nat (length (enc_table T ++ pl)) <? 32 * N.of_nat (length T)) with false
    by (symmetry; rewrite app_length, enc_table_length; lia).
  now rewrite Nat2N.id, read_segs_enc by exact Hu.
Qed.

Section Cfg.
Variable c : wcfg.
Hypothesis Hc : cfg_valid c = true.
Let wN := Z.to_N (c_w c).
Let verN := Z.to_N (c_ver c).
Let flagsN := Z.to_N (c_flags c).
Let flags' := if verN =? 0 then 0 else flagsN.

Lemma stage_header n r1 :
  N.of_nat n < 2 ^ 64 ->
  read_thr thr decompress (file_header c n ++ r1) = stage_ext FJ_MAGIC wN verN (N.of_nat n) r1.
Proof.
  intros Hn. destruct (cfg_facts c Hc) as (Hsw & Hw & Hver & Hfl).
  rewrite read_thr_stages. unfold file_header.
  rewrite (take_app header_base_size) by (rewrite !app_length, !le_enc_length; reflexivity).
  destruct (hdr_fields FJ_MAGIC (Z.to_N (c_w c)) (Z.to_N (c_ver c)) (N.of_nat n)) as (F1 & F2 & F3 & F4).
  cbv zeta in F1, F2, F3, F4. rewrite F1, F2, F3, F4.
  rewrite (le_dec_enc 2 FJ_MAGIC) by reflexivity.
  rewrite (le_dec_enc 2 (Z.to_N (c_w c))) by (change (256 ^ N.of_nat 2) with 65536; lia).
  rewrite (le_dec_enc 8 (Z.to_N (c_ver c))) by (rewrite word_bound_64; change (2 ^ 64) with 18446744073709551616; lia).
  rewrite (le_dec_enc 8 (N.of_nat n)) by (rewrite word_bound_64; exact Hn).
  replace (max_version <? Z.to_N (c_ver c)) with false by (symmetry; unfold max_version; lia).
  reflexivity.
Qed.

Lemma stage_ext_ok sn r2 :
  stage_ext FJ_MAGIC wN verN sn (file_ext c ++ r2) = stage_table wN verN flags' sn r2.
Proof.
  destruct (cfg_facts c Hc) as (Hsw & Hw & Hver & Hfl).
  unfold stage_ext, file_ext, flags'. replace (c_ver c =? 0)%Z with (verN =? 0) by (unfold verN; lia).
  destruct (verN =? 0) eqn:E0.
  - cbn [app]. rewrite N.eqb_refl. cbn [negb]. fold wN in Hsw. rewrite Hsw. reflexivity.
  - rewrite (take_app header_extension_size) by (rewrite app_length, !le_enc_length; reflexivity).
    destruct (ext_fields (Z.to_N (c_flags c)) 0) as (G1 & G2). cbv zeta in G1, G2. rewrite G1, G2.
    rewrite (le_dec_enc 8) by (rewrite word_bound_64; change (2 ^ 64) with 18446744073709551616;
                               change (2 ^ 64)%Z with 18446744073709551616%Z in Hfl; lia).
    rewrite (le_dec_enc 4 0) by reflexivity.
    rewrite N.eqb_refl. cbn [negb]. fold wN in Hsw. rewrite Hsw. reflexivity.
Qed.

Lemma stage_ext_short sn r1 :
  (length r1 < length (file_ext c))%nat -> stage_ext FJ_MAGIC wN verN sn r1 = RErr EStruct.
Proof.
  intros H. unfold stage_ext. unfold file_ext in H.
  replace (c_ver c =? 0)%Z with (verN =? 0) in H by (destruct (cfg_facts c Hc) as (_ & _ & Hver & _); unfold verN; lia).
  destruct (verN =? 0); [cbn in H; lia|].
  rewrite app_length, !le_enc_length in H.
  rewrite take_short by (unfold header_extension_size; lia). reflexivity.
Qed.

End Cfg.
End Stages.

(* ---- the theorem ------------------------------------------------------------------------------------------------ *)

Section Torn.
Variable compress : bytes -> option bytes.
Variable decompress : bytes -> option bytes.
(* a strict prefix of a raw LZMA2 stream does not decode (the end marker is missing) *)
Hypothesis lzma_prefix :
  forall x z k, compress x = Some z -> (k < length z)%nat -> decompress (firstn k z) = None.
Variable c : wcfg.
Hypothesis Hc : cfg_valid c = true.

Theorem torn thr ops res st file img k :
  exec c ops ws_empty = (res, Some st) -> fits_u64 st = true ->
  write compress c st = WOk file ->
  read_thr thr decompress file = ROk img ->
  (k < length file)%nat ->
  (exists e, read_thr thr decompress (firstn k file) = RErr e) \/
  (exists img', read_thr thr decompress (firstn k file) = ROk img' /\ same_loaded img' img).
Proof.
  intros E F W R Hk.
  destruct (exec_inv c Hc ops ws_empty [] [] res st (inv_empty c) E) as (T & P & I & _).
  cbn [app] in I.
  destruct (write_spec compress c Hc st T P I F) as (wb & Ewb & Hwb & Hpow & HW). rewrite W in HW.
  destruct HW as (payload & -> & Hpay).
  destruct (cfg_facts c Hc) as (Hsw & Hw & Hver & Hfl).
  pose proof (inv_u64 c st T P I F) as Hu.
  assert (HT64 : N.of_nat (length T) < 2 ^ 64).
  { destruct I. unfold fits_u64 in F. apply andb_prop in F. destruct F as [_ F2'].
    rewrite inv_segs, map_length in F2'. change (2 ^ 64) with 18446744073709551616.
    change (2 ^ 64)%Z with 18446744073709551616%Z in F2'. lia. }
  assert (HDr : Forall (fun x => 0 <= x < 256 ^ Z.of_nat wb)%Z (ws_data st)).
  { destruct I. eapply Forall_impl; [|exact inv_D]. intros x Hx. unfold word_in in Hx.
    replace (256 ^ Z.of_nat wb)%Z with (2 ^ c_w c)%Z; [exact Hx|].
    apply (f_equal Z.of_N) in Hpow. rewrite !N2Z.inj_pow, nat_N_Z in Hpow.
    rewrite Z2N.id in Hpow by lia. symmetry. exact Hpow. }
  assert (LH : length (file_header c (length T)) = 20%nat)
    by (unfold file_header; rewrite !app_length, !le_enc_length; reflexivity).
  (* the whole file, stage by stage *)
  rewrite (stage_header thr decompress c Hc) in R by exact HT64.
  rewrite (stage_ext_ok thr decompress c Hc) in R.
  rewrite stage_table_full in R by exact Hu.
  destruct (Nat.lt_ge_cases k 20) as [Hk1 | Hk1].
  { left. exists EStruct. rewrite read_thr_stages, take_short; [reflexivity|].
    rewrite firstn_length. unfold header_base_size. lia. }
  rewrite firstn_app_ge by lia. rewrite LH.
  rewrite (stage_header thr decompress c Hc) by exact HT64.
  destruct (Nat.lt_ge_cases (k - 20) (length (file_ext c))) as [Hk2 | Hk2].
  { left. exists EStruct. rewrite firstn_app_lt by lia. apply (stage_ext_short thr decompress c Hc).
    rewrite firstn_length. lia. }
  rewrite firstn_app_ge by lia.
  rewrite (stage_ext_ok thr decompress c Hc).
  set (k2 := (k - 20 - length (file_ext c))%nat).
  destruct (Nat.lt_ge_cases k2 (32 * length T)) as [Hk3 | Hk3].
  { left. exists EStruct. apply stage_table_short. rewrite firstn_length. lia. }
  rewrite firstn_app_ge by (rewrite enc_table_length; lia). rewrite enc_table_length.
  rewrite stage_table_full by exact Hu.
  set (k3 := (k2 - 32 * length T)%nat).
  assert (Hk4 : (k3 < length payload)%nat).
  { rewrite !app_length, LH, enc_table_length in Hk. unfold k3, k2. lia. }
  unfold stage_payload in *. rewrite Ewb in *.
  set (rel := (Z.to_N (c_ver c) =? 2) || (Z.to_N (c_ver c) =? 3)) in *.
  replace (Z.to_N (c_ver c) =? 3) with (c_ver c =? 3)%Z in * by lia.
  destruct (c_ver c =? 3)%Z eqn:E3.
  - (* compressed: a strict prefix of the stream does not decode *)
    left. exists ELzma. now rewrite (lzma_prefix _ _ k3 Hpay Hk4).
  - (* plain pool: a partial word is a struct error, a shorter pool is refused or holds everything referenced *)
    subst payload. set (D := ws_data st) in *.
    rewrite unpack_words_enc in R; [| exact Hwb | lia | exact HDr]. cbv zeta in R.
    destruct (validate_segments T) eqn:Eval; [discriminate|].
    destruct (init_memory thr (Z.to_N (c_w c)) rel (map Z.to_N D)
                          (N.of_nat (length (map Z.to_N D))) (PositiveMap.empty N) T) as [segs m z| |] eqn:EM; try discriminate.
    injection R as <-.
    pose proof (Nat.div_mod_eq k3 wb) as Hdm.
    assert (Hr : (k3 mod wb < wb)%nat) by (apply Nat.mod_upper_bound; lia).
    set (q := (k3 / wb)%nat) in *. set (r := (k3 mod wb)%nat) in *.
    rewrite enc_words_length in Hk4.
    assert (Hq : (q <= length (map Z.to_N D))%nat).
    { rewrite map_length. destruct (Nat.le_gt_cases q (length D)) as [?|Hgt]; [assumption|].
      assert (wb * S (length D) <= wb * q)%nat by (apply Nat.mul_le_mono_l; lia). lia. }
    replace (length (firstn k3 (enc_words wb D))) with k3 by (rewrite firstn_length, enc_words_length; lia).
    clearbody q r. clearbody k3. subst k3.
    rewrite (unpack_prefix wb Hwb q D r); [| exact Hr | rewrite enc_words_length; lia | lia | exact HDr].
    destruct (r =? 0)%nat.
    + cbv zeta. rewrite firstn_length. replace (Nat.min q (length (map Z.to_N D))) with q by lia.
      destruct (init_memory_prefix thr (Z.to_N (c_w c)) rel
                                   (map Z.to_N D) q Hq T _ _ _ _ EM) as [[e ->] | ->].
      * left. now exists e.
      * right. eexists. split; [reflexivity|]. repeat split.
    + left. now exists EStruct.
Qed.

End Torn.
