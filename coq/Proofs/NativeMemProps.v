(* The native engine's memory (Model/EngNative.v) represents the machine memory of Spec/MachineSpec.v:
   unsigned-compare lemmas, the representation relation memR, and one lemma per access function
   (mem_read_word / mem_flip_bit / mem_write_bit / mem_get_word_unaligned) stating that under memR it
   returns exactly what rdw / flip / set_bit / get_word give (value or fault address) and preserves memR. *)
From FJ Require Import Lib.Base Lib.Bits Spec.MachineSpec Model.EngNative.
Local Open Scope N_scope.

(* ---- uint64 arithmetic -------------------------------------------------------------------------- *)
Lemma u64_mod x : u64 x = x mod M64.
Proof. unfold u64. change MASK64 with (N.ones 64). rewrite N.land_ones. reflexivity. Qed.

Lemma u64_small x : x < M64 -> u64 x = x.
Proof. intros H. rewrite u64_mod. now apply N.mod_small. Qed.

Lemma u64_lt x : u64 x < M64.
Proof. rewrite u64_mod. apply N.mod_lt. discriminate. Qed.

Lemma add64_small a b : a + b < M64 -> add64 a b = a + b.
Proof. intros H. unfold add64. now apply u64_small. Qed.

Lemma sub64_le a b : b <= a -> a < M64 -> sub64 a b = a - b.
Proof. intros H Ha. unfold sub64. rewrite u64_mod. unfold M64 in *. lia. Qed.

Lemma sub64_gt a b : a < b -> b < M64 -> sub64 a b = a + M64 - b.
Proof. intros H Hb. unfold sub64. rewrite u64_mod. unfold M64 in *. lia. Qed.

Lemma mul64_small a b : a * b < M64 -> mul64 a b = a * b.
Proof. intros H. unfold mul64. now apply u64_small. Qed.

Lemma shl64_small a k : a * 2 ^ k < M64 -> shl64 a k = N.shiftl a k.
Proof. intros H. unfold shl64. rewrite N.shiftl_mul_pow2. now apply u64_small. Qed.

(* the unsigned single-compare range tests *)
(* `f - dw <= 1`  <->  dw <= f <= dw + 1 *)
Lemma out_test f d : f < M64 -> d + 1 < M64 -> (sub64 f d <=? 1) = ((d <=? f) && (f <=? d + 1)).
Proof.
  intros Hf Hd. unfold sub64. rewrite u64_mod. unfold M64 in *.
  destruct (N.leb_spec ((f + 18446744073709551616 - d) mod 18446744073709551616) 1),
           (N.leb_spec d f), (N.leb_spec f (d + 1)); cbn [andb]; try reflexivity; lia.
Qed.

(* `ip - in_lo_exclusive - 1 < dw`  <->  in_lo < ip <= in_lo + dw *)
Lemma in_test i lo d : i < M64 -> lo + d < M64 ->
  (sub64 (sub64 i lo) 1 <? d) = ((lo <? i) && (i <=? lo + d)).
Proof.
  intros Hi Hl. unfold sub64. rewrite !u64_mod. unfold M64 in *.
  destruct (N.ltb_spec (((i + 18446744073709551616 - lo) mod 18446744073709551616 + 18446744073709551616 - 1) mod 18446744073709551616) d),
           (N.ltb_spec lo i), (N.leb_spec i (lo + d)); cbn [andb]; try reflexivity; lia.
Qed.

(* `f >= ip && f - ip < dw`  <->  ip <= f < ip + dw *)
Lemma own_test f i d : f < M64 -> i < M64 ->
  ((i <=? f) && (sub64 f i <? d)) = ((i <=? f) && (f <? i + d)).
Proof.
  intros Hf Hi. destruct (N.leb_spec i f); cbn [andb]; [|reflexivity].
  rewrite sub64_le by assumption.
  destruct (N.ltb_spec (f - i) d), (N.ltb_spec f (i + d)); try reflexivity; lia.
Qed.

Lemma u64_testbit x i : i < 64 -> N.testbit (u64 x) i = N.testbit x i.
Proof. intros H. unfold u64. change MASK64 with (N.ones 64). rewrite N.land_spec, ones_testbit.
  destruct (N.ltb_spec i 64); [apply andb_true_r|lia]. Qed.

(* ---- segments: sort, binary search, page validity ------------------------------------------------ *)
Definition seg_has (l : list (N * N)) (a : N) : bool := existsb (fun s => (fst s <=? a) && (a <? snd s)) l.

Lemma seg_insert_in x s l : In x (seg_insert s l) <-> x = s \/ In x l.
Proof.
  induction l as [|t r IH]; cbn [seg_insert].
  - cbn [In]. intuition congruence.
  - destruct (fst t <=? fst s); cbn [In]; rewrite ?IH; cbn [In]; intuition congruence.
Qed.

Lemma seg_sort_in x l : In x (seg_sort l) <-> In x l.
Proof.
  unfold seg_sort. induction l as [|s r IH]; cbn [fold_right In]; [tauto|].
  rewrite seg_insert_in, IH. intuition congruence.
Qed.

Lemma seg_has_in l a : seg_has l a = true <-> exists s, In s l /\ fst s <= a < snd s.
Proof.
  unfold seg_has. rewrite existsb_exists. split; intros (s & Hi & H); exists s; split; try assumption.
  - apply andb_true_iff in H. destruct H as [H1 H2]. apply N.leb_le in H1. apply N.ltb_lt in H2. lia.
  - apply andb_true_iff. split; [apply N.leb_le|apply N.ltb_lt]; lia.
Qed.

Lemma seg_has_ext l l' a : (forall x, In x l <-> In x l') -> seg_has l a = seg_has l' a.
Proof.
  intros H. destruct (seg_has l a) eqn:E; symmetry.
  - apply seg_has_in. apply seg_has_in in E. destruct E as (s & Hi & Hs). exists s. split; [now apply H|assumption].
  - destruct (seg_has l' a) eqn:E'; [|reflexivity]. apply seg_has_in in E'. destruct E' as (s & Hi & Hs).
    assert (seg_has l a = true) by (apply seg_has_in; exists s; split; [now apply H|assumption]). congruence.
Qed.

(* chain: nonempty segments in increasing order, each ending before the next starts *)
Fixpoint chain (l : list (N * N)) : Prop :=
  match l with
  | [] => True
  | s :: r => fst s < snd s /\ (match r with [] => True | t :: _ => snd s <= fst t end) /\ chain r
  end.

Definition seg_disj (s t : N * N) : Prop := snd s <= fst t \/ snd t <= fst s.

Lemma chain_lb s l : chain (s :: l) -> forall t, In t l -> snd s <= fst t.
Proof.
  revert s. induction l as [|u r IH]; intros s H t Ht; [destruct Ht|].
  cbn [chain] in H. destruct H as (Hs & Hsu & Hc). destruct Ht as [->|Ht]; [assumption|].
  pose proof (IH u Hc t Ht). cbn [chain] in Hc. lia.
Qed.

Lemma chain_insert s l : fst s < snd s -> chain l -> (forall t, In t l -> seg_disj s t) -> chain (seg_insert s l).
Proof.
  intros Hs. induction l as [|t r IH]; intros Hc Hd; cbn [seg_insert].
  - cbn [chain]. auto.
  - pose proof (Hd t (or_introl eq_refl)) as Hst. unfold seg_disj in Hst.
    cbn [chain] in Hc. destruct Hc as (Ht & Htr & Hcr).
    destruct (N.leb_spec (fst t) (fst s)) as [Hle|Hgt].
    + assert (Hts : snd t <= fst s) by lia.
      assert (Hc' : chain (seg_insert s r)) by (apply IH; [assumption|intros u Hu; apply Hd; now right]).
      cbn [chain]. split; [assumption|]. split; [|assumption].
      destruct r as [|u r']; cbn [seg_insert]; [assumption|].
      destruct (fst u <=? fst s); assumption.
    + cbn [chain]. split; [assumption|]. split; [lia|]. cbn [chain]. auto.
Qed.

(* pairwise disjointness as a list property (order of the list = file order) *)
Fixpoint pw_disj (l : list (N * N)) : Prop :=
  match l with [] => True | s :: r => (forall t, In t r -> seg_disj s t) /\ pw_disj r end.

Lemma chain_sort l : (forall s, In s l -> fst s < snd s) -> pw_disj l -> chain (seg_sort l).
Proof.
  unfold seg_sort. induction l as [|s r IH]; intros Hne Hd; cbn [fold_right]; [exact I|].
  cbn [pw_disj] in Hd. destruct Hd as [Hs Hr].
  apply chain_insert.
  - apply Hne. now left.
  - apply IH; [intros t Ht; apply Hne; now right|assumption].
  - intros t Ht. apply Hs. apply (proj1 (seg_sort_in t r)). exact Ht.
Qed.

(* binary search on a chain *)
Lemma chain_nth_mono l : chain l -> forall i j, (i < j)%nat -> (j < length l)%nat ->
  snd (nth i l (0, 0)) <= fst (nth j l (0, 0)).
Proof.
  induction l as [|s r IH]; intros Hc i j Hij Hj; [cbn in Hj; lia|].
  destruct j as [|j]; [lia|]. cbn [length] in Hj.
  destruct i as [|i].
  - cbn [nth]. apply (chain_lb s r Hc). apply nth_In. lia.
  - cbn [nth]. cbn [chain] in Hc. apply IH; [tauto|lia|lia].
Qed.

Lemma chain_nth_ne l : chain l -> forall i, (i < length l)%nat -> fst (nth i l (0, 0)) < snd (nth i l (0, 0)).
Proof.
  induction l as [|s r IH]; intros Hc i Hi; [cbn in Hi; lia|].
  cbn [chain] in Hc. destruct i as [|i]; cbn [nth]; [tauto|]. apply IH; [tauto|cbn [length] in Hi; lia].
Qed.

Lemma bsearch_spec l a : chain l -> forall fuel lo hi,
  (0 <= lo)%Z -> (hi < Z.of_nat (length l))%Z -> (hi - lo + 1 < Z.of_nat fuel)%Z ->
  (forall i, (i < length l)%nat -> (Z.of_nat i < lo)%Z -> snd (nth i l (0, 0)) <= a) ->
  (forall i, (i < length l)%nat -> (hi < Z.of_nat i)%Z -> a < fst (nth i l (0, 0))) ->
  bsearch fuel l lo hi a = seg_has l a.
Proof.
  intros Hc.
  assert (EMPTY : forall lo hi, (hi < lo)%Z ->
    (forall i, (i < length l)%nat -> (Z.of_nat i < lo)%Z -> snd (nth i l (0, 0)) <= a) ->
    (forall i, (i < length l)%nat -> (hi < Z.of_nat i)%Z -> a < fst (nth i l (0, 0))) -> false = seg_has l a).
  { intros lo hi Hgt Hbelow Habove. destruct (seg_has l a) eqn:E; [|reflexivity]. exfalso.
    apply seg_has_in in E. destruct E as (s & Hi & Hs).
    destruct (In_nth l s (0, 0) Hi) as (i & Hil & Hn). subst s.
    destruct (Z.ltb_spec (Z.of_nat i) lo).
    + pose proof (Hbelow i Hil ltac:(assumption)). lia.
    + pose proof (Habove i Hil ltac:(lia)). lia. }
  induction fuel as [|k IH]; intros lo hi Hlo Hhi Hf Hbelow Habove.
  { cbn [bsearch]. apply (EMPTY lo hi); [lia|assumption|assumption]. }
  cbn [bsearch]. destruct (Z.leb_spec lo hi) as [Hle|Hgt].
  - set (mid := ((lo + hi) / 2)%Z).
    assert (Hmid : (lo <= mid <= hi)%Z) by (unfold mid; lia).
    assert (Hmn : (Z.to_nat mid < length l)%nat) by lia.
    destruct (N.ltb_spec a (fst (nth (Z.to_nat mid) l (0, 0)))) as [Ha|Ha].
    + apply IH; try lia; [assumption|].
      intros i Hi Hgi. destruct (Z.ltb_spec hi (Z.of_nat i)); [now apply Habove|].
      destruct (Nat.eq_dec i (Z.to_nat mid)) as [->|Hne]; [assumption|].
      assert (Hlt : (Z.to_nat mid < i)%nat) by lia.
      pose proof (chain_nth_mono l Hc _ _ Hlt Hi). pose proof (chain_nth_ne l Hc _ Hmn). lia.
    + destruct (N.leb_spec (snd (nth (Z.to_nat mid) l (0, 0))) a) as [Hb|Hb].
      * apply IH; try lia; [|assumption].
        intros i Hi Hli. destruct (Z.ltb_spec (Z.of_nat i) lo); [now apply Hbelow|].
        destruct (Nat.eq_dec i (Z.to_nat mid)) as [->|Hne]; [assumption|].
        assert (Hlt : (i < Z.to_nat mid)%nat) by lia.
        pose proof (chain_nth_mono l Hc _ _ Hlt Hmn). pose proof (chain_nth_ne l Hc _ Hi). lia.
      * symmetry. apply seg_has_in. exists (nth (Z.to_nat mid) l (0, 0)). split; [now apply nth_In|lia].
  - apply (EMPTY lo hi); assumption.
Qed.

Lemma bsearch_full l a : chain l ->
  bsearch (S (length l)) l 0%Z (Z.of_nat (length l) - 1)%Z a = seg_has l a.
Proof. intros Hc. apply bsearch_spec; try assumption; try lia; intros; lia. Qed.

(* ---- finite maps ------------------------------------------------------------------------------ *)
Lemma pmget_pmset_same {A} (mp : PositiveMap.t A) a v : pmget (pmset mp a v) a = Some v.
Proof. unfold pmget, pmset. apply PositiveMap.gss. Qed.

Lemma pmget_pmset_other {A} (mp : PositiveMap.t A) a b v : a <> b -> pmget (pmset mp a v) b = pmget mp b.
Proof. unfold pmget, pmset; intros H. apply PositiveMap.gso. intros E; apply H. symmetry. now apply key_inj. Qed.

(* ---- page address arithmetic -------------------------------------------------------------------- *)
Lemma page_split a : a = N.shiftr a PAGE_BITS * PAGE_WORDS + N.land a PAGE_MASK /\ N.land a PAGE_MASK < PAGE_WORDS.
Proof.
  unfold PAGE_BITS, PAGE_WORDS, PAGE_MASK. change 16383 with (N.ones 14). change 16384 with (2 ^ 14).
  rewrite N.shiftr_div_pow2, N.land_ones. split.
  - rewrite N.mul_comm. apply N.div_mod. discriminate.
  - apply N.mod_lt. discriminate.
Qed.

Lemma page_split_inj a b : N.shiftr a PAGE_BITS = N.shiftr b PAGE_BITS -> N.land a PAGE_MASK = N.land b PAGE_MASK -> a = b.
Proof. intros H1 H2. destruct (page_split a) as [Ea _], (page_split b) as [Eb _]. rewrite Ea, Eb, H1, H2. reflexivity. Qed.

Lemma page_of_sum idx off : off < PAGE_WORDS ->
  N.shiftr (idx * PAGE_WORDS + off) PAGE_BITS = idx /\ N.land (idx * PAGE_WORDS + off) PAGE_MASK = off.
Proof.
  intros H. unfold PAGE_BITS, PAGE_WORDS, PAGE_MASK in *. change 16383 with (N.ones 14). change 16384 with (2 ^ 14) in *.
  rewrite N.shiftr_div_pow2, N.land_ones. split.
  - rewrite N.add_comm, N.div_add by discriminate. rewrite N.div_small by assumption. reflexivity.
  - rewrite N.add_comm, N.mod_add by discriminate. now apply N.mod_small.
Qed.

(* page_compute_validity's scan returns a sub-range of one segment *)
Lemma pcv_scan_sound l ps : (forall s, In s l -> snd s < M64) -> ps + PAGE_WORDS < M64 -> forall vs ve,
  pcv_scan l ps (ps + PAGE_WORDS) = (vs, ve) ->
  ve <= PAGE_WORDS /\ forall off, vs <= off < ve -> seg_has l (ps + off) = true.
Proof.
  intros Hb Hps. induction l as [|[s e] r IH]; intros vs ve H; cbn [pcv_scan] in H.
  - inversion H; subst. split; [unfold PAGE_WORDS; lia|intros; lia].
  - assert (He : e < M64) by (apply (Hb (s, e)); now left).
    destruct ((e <=? ps) || (ps + PAGE_WORDS <=? s)) eqn:Eo.
    + destruct (IH (fun t Ht => Hb t (or_intror Ht)) vs ve H) as [H1 H2]. split; [assumption|].
      intros off Ho. unfold seg_has. cbn [existsb]. fold (seg_has r (ps + off)). rewrite (H2 off Ho). apply orb_true_r.
    + apply orb_false_iff in Eo. destruct Eo as [E1 E2]. apply N.leb_gt in E1, E2.
      assert (Hs : s < M64) by lia.
      inversion H; subst; clear H.
      assert (V1 : forall off, (if ps <? s then sub64 s ps else 0) <= off -> s <= ps + off).
      { intros off. destruct (N.ltb_spec ps s); [rewrite sub64_le by lia|]; lia. }
      assert (V2 : forall off, off < (if e <? ps + PAGE_WORDS then sub64 e ps else PAGE_WORDS) -> ps + off < e).
      { intros off. destruct (N.ltb_spec e (ps + PAGE_WORDS)); [rewrite sub64_le by lia|]; lia. }
      split.
      * destruct (N.ltb_spec e (ps + PAGE_WORDS)); [|lia]. rewrite sub64_le by lia. lia.
      * intros off Ho. unfold seg_has. cbn [existsb fst snd].
        replace ((s <=? ps + off) && (ps + off <? e)) with true; [reflexivity|].
        symmetry. apply andb_true_iff. split; [apply N.leb_le; apply V1|apply N.ltb_lt; apply V2]; lia.
Qed.

Lemma sentinel_clear v : v < GARBAGE_SENTINEL -> N.land v GARBAGE_SENTINEL = 0.
Proof.
  intros H. change GARBAGE_SENTINEL with (2 ^ 63) in *. apply N.bits_inj; intros i.
  rewrite N.land_spec, N.pow2_bits_eqb, N.bits_0.
  destruct (N.eqb_spec 63 i) as [<-|]; [|apply andb_false_r].
  rewrite (lt_pow2_testbit_high v 63 63 H) by lia. reflexivity.
Qed.

(* ================================================================================================== *)
Section W.
Variable ww : N.
Hypothesis Hww : 3 <= ww <= 6.
Variable sg : list (N * N).
Hypothesis Hload : loadable_segs ww sg = true.
Variable fc : option N.      (* the storage layout: None = paged, Some c = flat window of c words *)

Local Notation w := (MachineSpec.w ww).
Local Notation W := (2 ^ w).
Local Notation valid := (MachineSpec.valid sg).

Lemma ww_cases : ww = 3 \/ ww = 4 \/ ww = 5 \/ ww = 6.
Proof using Hww. clear Hload fc sg. lia. Qed.

Lemma nw_pow : w = 2 ^ ww.
Proof. unfold MachineSpec.w. apply shiftl_1_pow2. Qed.

Lemma w_bounds : 8 <= w <= 64.
Proof using Hww. clear Hload fc sg. destruct ww_cases as [E|[E|[E|E]]]; rewrite E; vm_compute; split; discriminate. Qed.

Lemma W_le_M64 : W <= M64.
Proof using Hww. clear Hload fc sg. destruct ww_cases as [E|[E|[E|E]]]; rewrite E; vm_compute; discriminate. Qed.

Lemma W_ge_256 : 256 <= W.
Proof using Hww. clear Hload fc sg. destruct ww_cases as [E|[E|[E|E]]]; rewrite E; vm_compute; discriminate. Qed.

Definition wlim : N := N.shiftl 1 (w - ww).

Lemma wlim_w : wlim * w = W.
Proof using Hww. clear Hload fc sg. unfold wlim. destruct ww_cases as [E|[E|[E|E]]]; rewrite E; vm_compute; reflexivity. Qed.

Lemma small_w : w <= 32 -> W <= 4294967296.
Proof using Hww. clear Hload fc sg. destruct ww_cases as [E|[E|[E|E]]]; rewrite E; vm_compute; intros H; try discriminate; now elim H. Qed.

Lemma shl_ww a : N.shiftl a ww = a * w.
Proof. rewrite N.shiftl_mul_pow2, nw_pow. reflexivity. Qed.

Lemma shr_ww a : N.shiftr a ww = a / w.
Proof. rewrite N.shiftr_div_pow2, nw_pow. reflexivity. Qed.

Lemma land_w1 a : N.land a (w - 1) = a mod w.
Proof using Hww. clear Hload fc sg.
  rewrite nw_pow. replace (2 ^ ww - 1) with (N.ones ww) by (rewrite N.ones_equiv; lia). apply N.land_ones.
Qed.

(* ---- the segment table ------------------------------------------------------------------------- *)
Definition base : list (N * N) := map (fun s => (fst s, fst s + snd s)) sg.

Lemma valid_map l a : MachineSpec.valid l a = seg_has (map (fun s => (fst s, fst s + snd s)) l) a.
Proof. unfold MachineSpec.valid, seg_has. induction l as [|s r IH]; [reflexivity|]. cbn [map existsb fst snd]. now rewrite IH. Qed.

Lemma valid_base a : valid a = seg_has base a.
Proof using All. apply valid_map. Qed.

Lemma base_bounds s : In s base -> fst s < snd s /\ snd s <= wlim.
Proof using All.
  unfold base. intros H. apply in_map_iff in H. destruct H as (t & <- & Ht).
  unfold loadable_segs in Hload. apply andb_true_iff in Hload. destruct Hload as [Hok _].
  rewrite forallb_forall in Hok. specialize (Hok t Ht). unfold seg_ok in Hok.
  repeat (apply andb_true_iff in Hok; destruct Hok as [Hok ?]).
  cbn [fst snd]. fold wlim in H. apply N.leb_le in H. apply N.ltb_lt in H0. lia.
Qed.

Lemma disjoint_from_spec s l : disjoint_from s l = true ->
  forall t, In t (map (fun s => (fst s, fst s + snd s)) l) -> seg_disj (fst s, fst s + snd s) t.
Proof.
  induction l as [|u r IH]; intros H t Ht; [destruct Ht|]. cbn [disjoint_from] in H.
  apply andb_true_iff in H. destruct H as [H1 H2]. cbn [map] in Ht. destruct Ht as [<-|Ht]; [|now apply IH].
  unfold seg_disj. cbn [fst snd]. apply orb_true_iff in H1. destruct H1 as [H1|H1]; apply N.leb_le in H1; lia.
Qed.

Lemma pd_pw l : pairwise_disjoint l = true -> pw_disj (map (fun s => (fst s, fst s + snd s)) l).
Proof.
  induction l as [|s r IH]; intros Hd; [exact I|]. cbn [pairwise_disjoint] in Hd.
  apply andb_true_iff in Hd. destruct Hd as [H1 H2]. cbn [map pw_disj]. split; [now apply disjoint_from_spec|now apply IH].
Qed.

Lemma base_disj : pw_disj base.
Proof using All.
  unfold loadable_segs in Hload. apply andb_true_iff in Hload. destruct Hload as [_ Hd]. now apply pd_pw.
Qed.

Lemma base_chain : chain (seg_sort base).
Proof using All. apply chain_sort; [intros s Hs; now apply base_bounds|apply base_disj]. Qed.

Lemma sorted_has a : seg_has (seg_sort base) a = valid a.
Proof using All. rewrite valid_base. apply seg_has_ext. intros x. apply seg_sort_in. Qed.

Lemma wlim_M64 : wlim * w <= M64.
Proof using Hww. clear Hload fc sg. rewrite wlim_w. apply W_le_M64. Qed.

Lemma valid_lt a : valid a = true -> a < wlim.
Proof using All.
  rewrite valid_base. intros H. apply seg_has_in in H. destruct H as (s & Hs & Ha).
  pose proof (base_bounds s Hs). lia.
Qed.

Definition segsR (nm : nmem) : Prop :=
  (n_sorted nm = false /\ n_segs nm = base) \/ (n_sorted nm = true /\ n_segs nm = seg_sort base).

Lemma contains_valid nm a : segsR nm -> flat_seg_contains nm a = valid a.
Proof using All.
  intros [[_ E]|[_ E]]; unfold flat_seg_contains; rewrite E; fold (seg_has base a); fold (seg_has (seg_sort base) a).
  - symmetry. apply valid_base.
  - apply sorted_has.
Qed.

(* ---- the representation relation ----------------------------------------------------------------- *)
Definition fill : N := if w <=? 32 then GARBAGE_SENTINEL else FLAT_GARBAGE_MAGIC.
Definition flat_shape (nm : nmem) : option N := match n_flat nm with Some _ => Some (n_flat_count nm) | None => None end.
Definition inflat (a : N) : bool := match fc with Some c => a <? c | None => false end.
Definition pgs_rd (pages : PositiveMap.t page) (pid off : N) : N :=
  match pmget pages pid with Some p => mget0 p.(pg_words) off | None => 0 end.
Definition page_sound (idx vs ve : N) : Prop :=
  ve <= PAGE_WORDS /\ forall off, vs <= off < ve -> valid (idx * PAGE_WORDS + off) = true.
Definition cslot_ok (pages : PositiveMap.t page) (c : cslot) : Prop :=
  cs_key c = 0 \/
  (cs_key c = cs_page c + 1 /\ cs_page c + 1 < M64 /\
   exists p, pmget pages (cs_page c) = Some p /\ cs_vs c = pg_vs p /\ cs_ve c = pg_ve p).

Record coreR (nm : nmem) (m : mem) : Prop := mkcoreR {
  R_w : n_w nm = w;
  R_ww : n_ww nm = ww;
  R_mask : n_mask nm = wmask ww;
  R_gstop : n_gstop nm = true;
  R_segs : segsR nm;
  R_shape : flat_shape nm = fc;
  R_words : forall a, mget0 m a < W;
  (* every word of the flat window: in-segment words hold the abstract value, gap words the fill value *)
  R_flat : forall fa, n_flat nm = Some fa ->
             n_flat_count nm <= wlim /\
             forall a, a < n_flat_count nm -> fa_get fa a = if valid a then mget0 m a else fill;
  (* every in-segment word outside the flat window is held by its page (a missing page reads 0) *)
  R_pages : forall a, valid a = true -> inflat a = false ->
              pgs_rd (n_pages nm) (N.shiftr a PAGE_BITS) (N.land a PAGE_MASK) = mget0 m a;
  (* the fast valid range of a page lies inside one segment *)
  R_sound : forall idx p, pmget (n_pages nm) idx = Some p -> page_sound idx (pg_vs p) (pg_ve p);
  (* allocated pages lie inside the 64-bit word-address space *)
  R_pidx : forall idx p, pmget (n_pages nm) idx = Some p -> idx * PAGE_WORDS + PAGE_WORDS < M64;
  (* a filled cache slot names an allocated page and carries copies of that page's validity fields *)
  R_cache : forall slot c, pmget (n_cache nm) slot = Some c -> cslot_ok (n_pages nm) c
}.

Definition memR (nm : nmem) (m : mem) : Prop := coreR nm m /\ n_err nm = false.
(* a helper reported failure: mem_error is set with the fault address; clearing it gives memR back *)
Definition errR (nm : nmem) (m : mem) (a : N) : Prop := coreR nm m /\ n_err nm = true /\ n_erra nm = a.

Ltac prj := cbn [n_w n_ww n_mask n_gstop n_pages n_cache n_segs n_sorted n_flat n_flat_count n_flat_max
                 n_decided n_covers n_err n_erra set_pages set_cache set_segs set_flat set_error clear_error] in *.

Lemma in_flat_shape nm a : flat_shape nm = fc -> in_flat nm a = inflat a.
Proof. unfold flat_shape, in_flat, inflat. intros <-. destruct (n_flat nm); reflexivity. Qed.

Lemma pg_rd_pgs nm pid off : pg_rd nm pid off = pgs_rd (n_pages nm) pid off.
Proof. reflexivity. Qed.

Lemma errR_clear nm m a : errR nm m a -> memR (clear_error nm) m.
Proof using All.
  intros [[] _]. split; [|reflexivity]. constructor; unfold segsR, flat_shape in *; prj; assumption.
Qed.

(* changing only the segment array / sorted flag to the sorted table *)
Lemma coreR_sorted nm m : coreR nm m -> coreR (set_segs nm (seg_sort base) true) m.
Proof using All. intros []. constructor; unfold segsR, flat_shape in *; prj; try assumption. right. auto. Qed.

Lemma ensure_sorted_spec nm m : coreR nm m ->
  let nm1 := mem_ensure_segments_sorted nm in
  coreR nm1 m /\ n_segs nm1 = seg_sort base /\ n_err nm1 = n_err nm /\ n_erra nm1 = n_erra nm /\
  n_pages nm1 = n_pages nm /\ n_cache nm1 = n_cache nm /\ n_ww nm1 = n_ww nm.
Proof using All.
  intros R. unfold mem_ensure_segments_sorted. destruct (n_sorted nm) eqn:Es; cbn zeta.
  - destruct (R_segs _ _ R) as [[E _]|[_ E]]; [congruence|]. split; [exact R|]. split; [exact E|]. repeat split; reflexivity.
  - destruct (R_segs _ _ R) as [[_ E]|[E _]]; [|congruence]. rewrite E.
    split; [now apply coreR_sorted|]. repeat split; reflexivity.
Qed.

Lemma word_is_valid_spec nm m a nm' b : coreR nm m -> word_is_valid nm a = (nm', b) ->
  b = valid a /\ coreR nm' m /\ n_err nm' = n_err nm /\ n_erra nm' = n_erra nm /\
  n_pages nm' = n_pages nm /\ n_cache nm' = n_cache nm /\ n_ww nm' = n_ww nm.
Proof using All.
  intros R H. unfold word_is_valid in H.
  destruct (ensure_sorted_spec nm m R) as (R1 & E & F). cbn zeta in *.
  rewrite E in H. rewrite (bsearch_full _ a base_chain), sorted_has in H. inversion H; subst.
  split; [reflexivity|]. split; [exact R1|exact F].
Qed.

(* ---- frame lemmas for coreR -------------------------------------------------------------------- *)
Lemma coreR_set_cache nm m c' : coreR nm m ->
  (forall slot c, pmget c' slot = Some c -> cslot_ok (n_pages nm) c) -> coreR (set_cache nm c') m.
Proof using All. intros [] H. constructor; unfold segsR, flat_shape in *; prj; assumption. Qed.

Lemma coreR_set_pages nm m pages' : coreR nm m ->
  (forall pid off, pgs_rd pages' pid off = pgs_rd (n_pages nm) pid off) ->
  (forall idx p, pmget pages' idx = Some p -> page_sound idx (pg_vs p) (pg_ve p)) ->
  (forall idx p, pmget pages' idx = Some p -> idx * PAGE_WORDS + PAGE_WORDS < M64) ->
  (forall slot c, pmget (n_cache nm) slot = Some c -> cslot_ok pages' c) ->
  coreR (set_pages nm pages') m.
Proof using All.
  intros [] H1 H2 H2' H3. constructor; unfold segsR, flat_shape in *; prj; try assumption.
  intros a Ha Hf. rewrite H1. now apply R_pages0.
Qed.

Lemma coreR_set_error nm m a : coreR nm m -> errR (set_error nm a) m a.
Proof using All.
  intros []. split; [|split; reflexivity]. constructor; unfold segsR, flat_shape in *; prj; assumption.
Qed.

Lemma inflat_count nm m fa a : coreR nm m -> n_flat nm = Some fa -> inflat a = (a <? n_flat_count nm).
Proof using All. intros R E. pose proof (R_shape _ _ R) as S. unfold flat_shape in S. rewrite E in S. unfold inflat. now rewrite <- S. Qed.

Lemma inflat_none nm m a : coreR nm m -> n_flat nm = None -> inflat a = false.
Proof using All. intros R E. pose proof (R_shape _ _ R) as S. unfold flat_shape in S. rewrite E in S. unfold inflat. now rewrite <- S. Qed.

(* a word write through the page table *)
Lemma coreR_pg_wr nm m a v' p : coreR nm m -> valid a = true -> inflat a = false -> v' < W ->
  pmget (n_pages nm) (N.shiftr a PAGE_BITS) = Some p ->
  coreR (pg_wr nm (N.shiftr a PAGE_BITS) (N.land a PAGE_MASK) v') (mset m a v').
Proof using All.
  intros R Hv Hf Hlt Hp. unfold pg_wr. rewrite Hp. destruct R.
  constructor; unfold segsR, flat_shape in *; prj; try assumption.
  - intros b. destruct (N.eq_dec a b) as [<-|Hn]; [now rewrite mget0_mset_same|rewrite mget0_mset_other by exact Hn; apply R_words0].
  - intros fa Efa. destruct (R_flat0 fa Efa) as [Hc Hall]. split; [assumption|]. intros b Hb.
    rewrite (Hall b Hb). destruct (N.eq_dec a b) as [<-|Hn]; [|now rewrite mget0_mset_other].
    exfalso. unfold inflat in Hf. rewrite <- R_shape0, Efa in Hf. apply N.ltb_ge in Hf. lia.
  - intros b Hb Hfb. unfold pgs_rd. destruct (N.eq_dec (N.shiftr a PAGE_BITS) (N.shiftr b PAGE_BITS)) as [Ep|Ep].
    + rewrite <- Ep, pmget_pmset_same. cbn [pg_words].
      destruct (N.eq_dec (N.land a PAGE_MASK) (N.land b PAGE_MASK)) as [Eo|Eo].
      * rewrite (page_split_inj a b Ep Eo). rewrite <- Eo. now rewrite !mget0_mset_same.
      * rewrite mget0_mset_other by exact Eo. rewrite mget0_mset_other by congruence.
        rewrite <- (R_pages0 b Hb Hfb). unfold pgs_rd. rewrite <- Ep, Hp. reflexivity.
    + rewrite pmget_pmset_other by exact Ep. rewrite mget0_mset_other by congruence. now apply R_pages0.
  - intros idx q Hq. destruct (N.eq_dec (N.shiftr a PAGE_BITS) idx) as [<-|Hn].
    + rewrite pmget_pmset_same in Hq. inversion Hq; subst. cbn [pg_vs pg_ve]. now apply R_sound0.
    + rewrite pmget_pmset_other in Hq by exact Hn. now apply R_sound0.
  - intros idx q Hq. destruct (N.eq_dec (N.shiftr a PAGE_BITS) idx) as [<-|Hn].
    + eapply R_pidx0; eassumption.
    + rewrite pmget_pmset_other in Hq by exact Hn. eapply R_pidx0; eassumption.
  - intros slot c Hc. destruct (R_cache0 slot c Hc) as [K|(K1 & K2 & q & Hq & Hvs & Hve)]; [now left|right].
    split; [assumption|]. split; [assumption|].
    destruct (N.eq_dec (N.shiftr a PAGE_BITS) (cs_page c)) as [E|Hn].
    + rewrite <- E in *. rewrite pmget_pmset_same. eexists. split; [reflexivity|]. cbn [pg_vs pg_ve].
      rewrite Hp in Hq. inversion Hq; subst. auto.
    + rewrite pmget_pmset_other by exact Hn. exists q. auto.
Qed.

(* a word write into the flat window *)
Lemma coreR_flat_wr nm m a v' fa : coreR nm m -> n_flat nm = Some fa -> a < n_flat_count nm -> valid a = true -> v' < W ->
  coreR (flat_wr nm a v') (mset m a v').
Proof using All.
  intros R Efa Ha Hv Hlt. unfold flat_wr. rewrite Efa. destruct R.
  constructor; unfold segsR, flat_shape in *; prj; try assumption.
  - now rewrite Efa in R_shape0.
  - intros b. destruct (N.eq_dec a b) as [<-|Hn]; [now rewrite mget0_mset_same|rewrite mget0_mset_other by exact Hn; apply R_words0].
  - intros fa' E'. inversion E'; subst fa'; clear E'. destruct (R_flat0 fa Efa) as [Hc Hall]. split; [assumption|].
    intros b Hb. unfold fa_get. cbn [fa_map fa_base]. destruct (N.eq_dec a b) as [<-|Hn].
    + now rewrite mget_mset_same, Hv, mget0_mset_same.
    + rewrite mget_mset_other by exact Hn. rewrite mget0_mset_other by exact Hn. apply (Hall b Hb).
  - intros b Hb Hfb. destruct (N.eq_dec a b) as [<-|Hn].
    + exfalso. unfold inflat in Hfb. rewrite <- R_shape0, Efa in Hfb. apply N.ltb_ge in Hfb. lia.
    + rewrite mget0_mset_other by exact Hn. now apply R_pages0.
Qed.

(* pages are never freed and their validity fields never change while a run lasts *)
Definition pages_le (nm nm' : nmem) : Prop :=
  forall idx p, pmget (n_pages nm) idx = Some p ->
    exists p', pmget (n_pages nm') idx = Some p' /\ pg_vs p' = pg_vs p /\ pg_ve p' = pg_ve p.

Lemma pages_le_refl nm : pages_le nm nm.
Proof. intros idx p H. exists p. auto. Qed.

Lemma pages_le_eq nm nm' : n_pages nm' = n_pages nm -> pages_le nm nm'.
Proof. intros E idx p H. exists p. rewrite E. auto. Qed.

Lemma pages_le_trans a b c : pages_le a b -> pages_le b c -> pages_le a c.
Proof.
  intros H1 H2 idx p H. destruct (H1 idx p H) as (p' & Hp' & E1 & E2).
  destruct (H2 idx p' Hp') as (p'' & Hp'' & E3 & E4). exists p''. repeat split; congruence.
Qed.

(* ---- mem_get_page -------------------------------------------------------------------------------- *)
Lemma get_page_spec nm m idx nm' pid : memR nm m -> idx * PAGE_WORDS + PAGE_WORDS < M64 ->
  mem_get_page nm idx = (nm', pid) ->
  pid = idx /\ memR nm' m /\ (exists p, pmget (n_pages nm') idx = Some p) /\ pages_le nm nm' /\
  cs_key (cache_get nm' (N.land idx 15)) = idx + 1.
Proof using All.
  intros [R Herr] Hidx H. unfold mem_get_page in H.
  assert (Hk : add64 idx 1 = idx + 1) by (apply add64_small; unfold PAGE_WORDS in *; lia).
  rewrite Hk in H.
  destruct (idx + 1 =? cs_key (cache_get nm (N.land idx 15))) eqn:Ek.
  - apply N.eqb_eq in Ek. injection H as <- <-. split; [|split; [split; assumption|]].
    + unfold cache_get in *.
      destruct (pmget (n_cache nm) (N.land idx 15)) as [c|] eqn:Ec; [|cbn [cs_key] in Ek; lia].
      destruct (R_cache _ _ R _ _ Ec) as [K0|(K1 & K2 & p & Hp & _)]; lia.
    + split; [|split; [apply pages_le_refl|now symmetry]]. unfold cache_get in *.
      destruct (pmget (n_cache nm) (N.land idx 15)) as [c|] eqn:Ec; [|cbn [cs_key] in Ek; lia].
      destruct (R_cache _ _ R _ _ Ec) as [K0|(K1 & K2 & p & Hp & _)]; [lia|].
      assert (Ei : cs_page c = idx) by lia. rewrite Ei in *. now exists p.
  - destruct (pmget (n_pages nm) idx) as [p|] eqn:Ep.
    + injection H as <- <-. split; [reflexivity|]. unfold page_cache_fill. split.
      * split; [|exact Herr]. apply coreR_set_cache; [assumption|]. intros slot c Hc.
        destruct (N.eq_dec (N.land idx 15) slot) as [<-|Hn].
        -- rewrite pmget_pmset_same in Hc. inversion Hc; subst. right. cbn [cs_key cs_page cs_vs cs_ve].
           split; [reflexivity|]. split; [unfold PAGE_WORDS in *; lia|]. exists p. auto.
        -- rewrite pmget_pmset_other in Hc by exact Hn. eapply R_cache; eassumption.
      * split; [exists p; prj; exact Ep|]. split; [apply pages_le_eq; reflexivity|].
        unfold cache_get. prj. rewrite pmget_pmset_same. reflexivity.
    + destruct (page_compute_validity nm idx) as [m1 [vs ve]] eqn:Epcv. unfold page_compute_validity in Epcv.
      destruct (ensure_sorted_spec nm m R) as (R1 & Es & Ee & Ea & Epg & Ech & _). cbn zeta in *.
      inversion Epcv as [[Em1 Escan]]; clear Epcv. rewrite Em1 in *. rewrite Es in Escan.
      assert (Hps : shl64 idx PAGE_BITS = idx * PAGE_WORDS).
      { rewrite shl64_small; unfold PAGE_BITS, PAGE_WORDS in *; [now rewrite N.shiftl_mul_pow2|change (2 ^ 14) with 16384; lia]. }
      rewrite Hps in Escan. rewrite add64_small in Escan by assumption.
      destruct (pcv_scan_sound (seg_sort base) (idx * PAGE_WORDS)) with (vs := vs) (ve := ve) as [Hve Hin]; try assumption.
      { intros s Hs. apply (proj1 (seg_sort_in s base)) in Hs. pose proof (base_bounds s Hs). pose proof wlim_M64. pose proof w_bounds.
        assert (wlim < M64) by (unfold M64 in *; nia). lia. }
      injection H as <- <-. split; [reflexivity|].
      set (p := mkpage (PositiveMap.empty N) vs ve).
      assert (R2 : coreR (set_pages m1 (pmset (n_pages m1) idx p)) m).
      { apply coreR_set_pages; [assumption| | | |].
        - intros pid off. unfold pgs_rd. destruct (N.eq_dec idx pid) as [<-|Hn].
          + rewrite pmget_pmset_same, Epg, Ep. unfold p. cbn [pg_words]. unfold mget0. now rewrite mget_empty.
          + now rewrite pmget_pmset_other.
        - intros i q Hq. destruct (N.eq_dec idx i) as [<-|Hn].
          + rewrite pmget_pmset_same in Hq. inversion Hq; subst q. unfold p. cbn [pg_vs pg_ve]. split; [assumption|].
            intros off Ho. rewrite <- sorted_has. now apply Hin.
          + rewrite pmget_pmset_other in Hq by exact Hn. eapply R_sound; eassumption.
        - intros i q Hq. destruct (N.eq_dec idx i) as [<-|Hn]; [assumption|].
          rewrite pmget_pmset_other in Hq by exact Hn. eapply R_pidx; eassumption.
        - intros slot c Hc. destruct (R_cache _ _ R1 slot c Hc) as [K|(K1 & K2 & q & Hq & Hvs & Hve')]; [now left|right].
          split; [assumption|]. split; [assumption|]. exists q. split; [|auto].
          rewrite pmget_pmset_other; [assumption|]. intros E. rewrite <- E, Epg, Ep in Hq. discriminate. }
      unfold page_cache_fill. split.
      * split; [|prj; congruence]. apply coreR_set_cache; [assumption|]. intros slot c Hc. prj.
        destruct (N.eq_dec (N.land idx 15) slot) as [<-|Hn].
        -- rewrite pmget_pmset_same in Hc. inversion Hc; subst. right. cbn [cs_key cs_page cs_vs cs_ve].
           split; [reflexivity|]. split; [unfold PAGE_WORDS in *; lia|]. exists p. rewrite pmget_pmset_same. auto.
        -- rewrite pmget_pmset_other in Hc by exact Hn. eapply (R_cache _ _ R2); prj; eassumption.
      * split; [exists p; prj; apply pmget_pmset_same|]. split.
        -- intros i q Hq. prj. exists q. rewrite pmget_pmset_other; [rewrite Epg; auto|].
           intros E. rewrite <- E, Ep in Hq. discriminate.
        -- unfold cache_get. prj. rewrite pmget_pmset_same. reflexivity.
Qed.

(* ---- access_check ---------------------------------------------------------------------------------- *)
Lemma shl64_ww a : a * w < M64 -> shl64 a ww = N.shiftl a ww.
Proof using All. intros H. apply shl64_small. now rewrite <- nw_pow. Qed.

Lemma page_idx_small a : a * w < M64 -> N.shiftr a PAGE_BITS * PAGE_WORDS + PAGE_WORDS < M64.
Proof using All.
  intros H. destruct (page_split a) as [E _]. pose proof w_bounds. unfold PAGE_WORDS, M64 in *. nia.
Qed.

Lemma access_check_spec nm m a p nm' ok : memR nm m -> a * w < M64 ->
  pmget (n_pages nm) (N.shiftr a PAGE_BITS) = Some p ->
  access_check nm (N.shiftr a PAGE_BITS) a = (nm', ok) ->
  ok = valid a /\ n_pages nm' = n_pages nm /\
  (if ok then memR nm' m else errR nm' m (N.shiftl a ww)).
Proof using All.
  intros [R Herr] Ha Hp H. unfold access_check, pg_vs_of, pg_ve_of in H. rewrite Hp in H.
  destruct ((pg_vs p <=? N.land a PAGE_MASK) && (N.land a PAGE_MASK <? pg_ve p)) eqn:Er.
  - injection H as <- <-. apply andb_true_iff in Er. destruct Er as [E1 E2]. apply N.leb_le in E1. apply N.ltb_lt in E2.
    destruct (R_sound _ _ R _ _ Hp) as [_ Hs]. specialize (Hs (N.land a PAGE_MASK) (conj E1 E2)).
    destruct (page_split a) as [Ea _]. rewrite <- Ea in Hs. rewrite Hs. split; [reflexivity|]. split; [reflexivity|]. split; assumption.
  - destruct (word_is_valid nm a) as [m1 v] eqn:Ev.
    destruct (word_is_valid_spec nm m a m1 v R Ev) as (-> & R1 & Ee & Ea & Epg & Ech & Eww).
    destruct (valid a) eqn:Eva.
    + injection H as <- <-. split; [reflexivity|]. split; [assumption|]. split; [assumption|congruence].
    + rewrite (R_gstop _ _ R1) in H. cbn [negb] in H. injection H as <- <-. split; [reflexivity|]. split; [prj; assumption|].
      rewrite (R_ww _ _ R1), shl64_ww by assumption. now apply coreR_set_error.
Qed.

(* ---- the flat window --------------------------------------------------------------------------------- *)
Lemma garbage_data nm m v : coreR nm m -> v < W -> w <= 32 -> flat_is_garbage nm v = false.
Proof using All.
  intros R Hv Hw. unfold flat_is_garbage. rewrite (R_w _ _ R). destruct (N.leb_spec w 32); [|lia].
  rewrite sentinel_clear; [reflexivity|]. pose proof (small_w Hw). unfold GARBAGE_SENTINEL. lia.
Qed.

Lemma garbage_fill nm m : coreR nm m -> flat_is_garbage nm fill = true.
Proof using All.
  intros R. unfold flat_is_garbage, fill. rewrite (R_w _ _ R). destruct (w <=? 32); reflexivity.
Qed.

Lemma flat_fetch_spec nm m fa a nm' r : memR nm m -> n_flat nm = Some fa -> a < n_flat_count nm ->
  flat_fetch nm a = (nm', r) ->
  match rdw sg m a with
  | Some v => r = Some v /\ nm' = nm
  | None => r = None /\ errR nm' m (N.shiftl a ww)
  end /\ n_pages nm' = n_pages nm.
Proof using All.
  intros [R Herr] Efa Ha H. destruct (R_flat _ _ R fa Efa) as [Hc Hall]. specialize (Hall a Ha).
  assert (Haw : a * w < M64) by (pose proof wlim_M64; pose proof w_bounds; nia).
  unfold flat_fetch, flat_rd in H. rewrite Efa, Hall in H. unfold rdw.
  destruct (valid a) eqn:Ev.
  - destruct (flat_is_garbage nm (mget0 m a)) eqn:Eg.
    + unfold flat_garbage_check in H. rewrite (contains_valid nm a (R_segs _ _ R)), Ev, (R_w _ _ R) in H.
      destruct (N.ltb_spec 32 w) as [Hw|Hw].
      * cbn [andb] in H. injection H as <- <-. auto.
      * rewrite (garbage_data nm m _ R (R_words _ _ R a) Hw) in Eg. discriminate.
    + injection H as <- <-. auto.
  - rewrite (garbage_fill nm m R) in H. unfold flat_garbage_check in H.
    rewrite (contains_valid nm a (R_segs _ _ R)), Ev, andb_false_r in H.
    unfold flat_garbage in H. rewrite (R_gstop _ _ R) in H. cbn [negb] in H. injection H as <- <-.
    split; [|reflexivity].
    split; [reflexivity|]. rewrite (R_ww _ _ R), shl64_ww by assumption. now apply coreR_set_error.
Qed.

(* ---- mem_read_word ------------------------------------------------------------------------------------ *)
Theorem read_word_spec nm m a nm' r : memR nm m -> a * w < M64 -> mem_read_word nm a = (nm', r) ->
  match rdw sg m a with
  | Some v => r = Some v /\ memR nm' m
  | None => r = None /\ errR nm' m (N.shiftl a ww)
  end /\ pages_le nm nm'.
Proof using All.
  intros MR Ha H. pose proof MR as [R Herr]. unfold mem_read_word in H.
  rewrite (in_flat_shape nm a (R_shape _ _ R)) in H. destruct (inflat a) eqn:Ef.
  - destruct (n_flat nm) as [fa|] eqn:Efa; [|rewrite (inflat_none nm m a R Efa) in Ef; discriminate].
    rewrite (inflat_count nm m fa a R Efa) in Ef. apply N.ltb_lt in Ef.
    destruct (flat_fetch_spec nm m fa a nm' r MR Efa Ef H) as [S Epg]. split; [|now apply pages_le_eq].
    destruct (rdw sg m a); destruct S as [-> S]; [subst nm'|]; auto.
  - destruct (mem_get_page nm (N.shiftr a PAGE_BITS)) as [m1 pid] eqn:Eg.
    destruct (get_page_spec nm m _ m1 pid MR (page_idx_small a Ha) Eg) as (-> & MR1 & (p & Hp) & Hle & _).
    destruct (access_check m1 (N.shiftr a PAGE_BITS) a) as [m2 ok] eqn:Eac.
    destruct (access_check_spec m1 m a p m2 ok MR1 Ha Hp Eac) as (-> & Epg & S).
    assert (Hle2 : pages_le nm m2) by (eapply pages_le_trans; [exact Hle|now apply pages_le_eq]).
    unfold rdw. destruct (valid a) eqn:Ev.
    + injection H as <- <-. split; [|assumption]. split; [|assumption]. rewrite pg_rd_pgs. f_equal. apply (R_pages _ _ (proj1 S)); assumption.
    + injection H as <- <-. auto.
Qed.

(* ---- bit operations ------------------------------------------------------------------------------------ *)
Lemma nw_sub1 nm m : coreR nm m -> sub64 (n_w nm) 1 = w - 1.
Proof using All. intros R. rewrite (R_w _ _ R). pose proof w_bounds. apply sub64_le; unfold M64; lia. Qed.

Lemma off_lt_w ba : N.land ba (w - 1) < w.
Proof using Hww. clear Hload fc sg. rewrite land_w1. apply N.mod_lt. pose proof w_bounds. lia. Qed.

Lemma wa_mul_le ba : N.shiftr ba ww * w <= ba.
Proof using Hww. clear Hload fc sg. rewrite shr_ww. pose proof w_bounds. rewrite N.mul_comm. apply N.mul_div_le. lia. Qed.

Lemma not64_clear v off : v < W -> off < w ->
  N.land v (not64 (N.shiftl 1 off)) = N.land v (N.lxor (wmask ww) (N.shiftl 1 off)).
Proof using Hww. clear Hload fc sg.
  intros Hv Ho. pose proof w_bounds. unfold not64, wmask. apply N.bits_inj; intros i.
  rewrite !N.land_spec, !N.lxor_spec, !ones_testbit, testbit_bit.
  destruct (N.ltb_spec i w) as [Hi|Hi].
  - destruct (N.ltb_spec i 64); [|lia]. now rewrite xorb_comm.
  - now rewrite (lt_pow2_testbit_high v w i Hv Hi).
Qed.

Lemma set_bit_lt v off b : v < W -> off < w -> set_bit ww v off b < W.
Proof using Hww. clear Hload fc sg.
  intros Hv Ho. unfold set_bit. destruct b; [now apply lor_bit_lt|now apply land_lt_l].
Qed.

Lemma native_set_bit v off (b : bool) : v < W -> off < w ->
  (if b then N.lor v (N.shiftl 1 off) else N.land v (not64 (N.shiftl 1 off))) = set_bit ww v off b.
Proof using Hww. clear Hload fc sg. intros Hv Ho. unfold set_bit. destruct b; [reflexivity|now apply not64_clear]. Qed.

Lemma pages_le_pg_wr nm pid off v : pages_le nm (pg_wr nm pid off v).
Proof.
  intros idx p H. unfold pg_wr. destruct (pmget (n_pages nm) pid) as [q|] eqn:Eq; [|exists p; auto]. prj.
  destruct (N.eq_dec pid idx) as [<-|Hn].
  - rewrite pmget_pmset_same. eexists. split; [reflexivity|]. cbn [pg_vs pg_ve]. rewrite Eq in H. inversion H; subst. auto.
  - rewrite pmget_pmset_other by exact Hn. exists p. auto.
Qed.

Lemma pages_flat_wr nm a v : n_pages (flat_wr nm a v) = n_pages nm.
Proof. unfold flat_wr. destruct (n_flat nm); reflexivity. Qed.

(* the shared shape of mem_flip_bit / mem_write_bit: read-modify-write of one word *)
Lemma rmw_spec nm m a (g : N -> N) nm' ok :
  memR nm m -> a * w < M64 -> (forall v, v < W -> g v < W) ->
  (if in_flat nm a then
     match flat_fetch nm a with
     | (m1, None) => (m1, false)
     | (m1, Some value) => (flat_wr m1 a (g value), true)
     end
   else
     let '(m1, pid) := mem_get_page nm (N.shiftr a PAGE_BITS) in
     let '(m2, ok) := access_check m1 pid a in
     if ok then (pg_wr m2 pid (N.land a PAGE_MASK) (g (pg_rd m2 pid (N.land a PAGE_MASK))), true)
     else (m2, false)) = (nm', ok) ->
  match rdw sg m a with
  | Some v => ok = true /\ memR nm' (mset m a (g v))
  | None => ok = false /\ errR nm' m (N.shiftl a ww)
  end /\ pages_le nm nm'.
Proof using All.
  intros MR Ha Hg H. pose proof MR as [R Herr].
  rewrite (in_flat_shape nm a (R_shape _ _ R)) in H. destruct (inflat a) eqn:Ef.
  - destruct (n_flat nm) as [fa|] eqn:Efa; [|rewrite (inflat_none nm m a R Efa) in Ef; discriminate].
    rewrite (inflat_count nm m fa a R Efa) in Ef. apply N.ltb_lt in Ef.
    destruct (flat_fetch nm a) as [m1 r] eqn:Eff.
    destruct (flat_fetch_spec nm m fa a m1 r MR Efa Ef Eff) as [S Epg]. unfold rdw in *.
    destruct (valid a) eqn:Ev; destruct S as [-> S].
    + subst m1. injection H as <- <-. split; [|apply pages_le_eq, pages_flat_wr]. split; [reflexivity|]. split.
      * eapply coreR_flat_wr; try eassumption. apply Hg. apply (R_words _ _ R).
      * unfold flat_wr. rewrite Efa. prj. exact Herr.
    + injection H as <- <-. split; [auto|now apply pages_le_eq].
  - destruct (mem_get_page nm (N.shiftr a PAGE_BITS)) as [m1 pid] eqn:Eg.
    destruct (get_page_spec nm m _ m1 pid MR (page_idx_small a Ha) Eg) as (-> & MR1 & (p & Hp) & Hle & _).
    destruct (access_check m1 (N.shiftr a PAGE_BITS) a) as [m2 ok2] eqn:Eac.
    destruct (access_check_spec m1 m a p m2 ok2 MR1 Ha Hp Eac) as (-> & Epg & S).
    assert (Hle2 : pages_le nm m2) by (eapply pages_le_trans; [exact Hle|now apply pages_le_eq]).
    unfold rdw. destruct (valid a) eqn:Ev.
    + injection H as <- <-. split; [|eapply pages_le_trans; [exact Hle2|apply pages_le_pg_wr]].
      split; [reflexivity|]. destruct S as [R2 Herr2].
      rewrite pg_rd_pgs, (R_pages _ _ R2 a Ev Ef). rewrite <- Epg in Hp. split.
      * eapply coreR_pg_wr; try eassumption. apply Hg. apply (R_words _ _ R).
      * unfold pg_wr. rewrite Hp. prj. exact Herr2.
    + injection H as <- <-. auto.
Qed.

Theorem flip_bit_spec nm m ba nm' ok : memR nm m -> ba < M64 -> mem_flip_bit nm ba = (nm', ok) ->
  match rdw sg m (N.shiftr ba ww) with
  | Some v => ok = true /\ memR nm' (mset m (N.shiftr ba ww) (flip_bit ww v ba))
  | None => ok = false /\ errR nm' m (N.shiftl (N.shiftr ba ww) ww)
  end /\ pages_le nm nm'.
Proof using All.
  intros MR Hba H. pose proof MR as [R _]. unfold mem_flip_bit in H.
  rewrite (R_ww _ _ R), (nw_sub1 nm m R) in H.
  apply (rmw_spec nm m (N.shiftr ba ww) (fun v => N.lxor v (N.shiftl 1 (N.land ba (w - 1))))); try assumption.
  - pose proof (wa_mul_le ba). lia.
  - intros v Hv. apply lxor_bit_lt; [assumption|apply off_lt_w].
Qed.

Theorem write_bit_spec nm m ba (b : bool) nm' ok : memR nm m -> ba < M64 -> mem_write_bit nm ba b = (nm', ok) ->
  match rdw sg m (N.shiftr ba ww) with
  | Some v => ok = true /\ memR nm' (mset m (N.shiftr ba ww) (set_bit ww v (N.land ba (w - 1)) b))
  | None => ok = false /\ errR nm' m (N.shiftl (N.shiftr ba ww) ww)
  end /\ pages_le nm nm'.
Proof using All.
  intros MR Hba H. pose proof MR as [R _]. unfold mem_write_bit in H.
  rewrite (R_ww _ _ R), (nw_sub1 nm m R) in H.
  pose proof (rmw_spec nm m (N.shiftr ba ww)
     (fun v => if b then N.lor v (N.shiftl 1 (N.land ba (w - 1))) else N.land v (not64 (N.shiftl 1 (N.land ba (w - 1)))))
     nm' ok MR) as S.
  cbv beta in S. specialize (S ltac:(pose proof (wa_mul_le ba); lia)).
  assert (Hg : forall v, v < W ->
     (if b then N.lor v (N.shiftl 1 (N.land ba (w - 1))) else N.land v (not64 (N.shiftl 1 (N.land ba (w - 1))))) < W).
  { intros v Hv. rewrite native_set_bit by (try assumption; apply off_lt_w). apply set_bit_lt; [assumption|apply off_lt_w]. }
  destruct (S Hg H) as [S' Hle]. split; [|assumption]. unfold rdw in *. destruct (valid (N.shiftr ba ww)); [|assumption].
  rewrite native_set_bit in S'; [assumption|apply (R_words _ _ R)|apply off_lt_w].
Qed.

(* ---- mem_get_word_unaligned ---------------------------------------------------------------------------- *)
(* the `word_address == word_mask` branch is unreachable for the bit addresses a run can produce
   (ip < 2^w, ip + w): the word address is far below 2^w - 1 *)
Lemma mask_branch_dead ba : ba < 2 * W -> (N.shiftr ba ww =? wmask ww) = false.
Proof using Hww. clear Hload fc sg.
  intros H. apply N.eqb_neq. unfold wmask. rewrite N.ones_equiv.
  pose proof (wa_mul_le ba). pose proof w_bounds. pose proof W_ge_256.
  assert (N.shiftr ba ww * 8 <= N.shiftr ba ww * w) by (apply N.mul_le_mono_l; lia).
  remember (N.shiftr ba ww) as q. remember (2 ^ w) as P. clear HeqP Heqq. lia.
Qed.

Lemma combine_u64 a b : N.land (N.lor a (u64 b)) (wmask ww) = N.land (N.lor a b) (wmask ww).
Proof using Hww. clear Hload fc sg.
  pose proof w_bounds. unfold wmask. apply N.bits_inj; intros i.
  rewrite !N.land_spec, !N.lor_spec, ones_testbit.
  destruct (N.ltb_spec i w); [|now rewrite !andb_false_r]. rewrite u64_testbit by lia. reflexivity.
Qed.

Theorem get_word_spec nm m ba nm' r : memR nm m -> ba < M64 -> ba < 2 * W ->
  (N.land ba (w - 1) <> 0 -> ba + w < M64) ->
  mem_get_word_unaligned nm ba = (nm', r) ->
  match get_word ww sg m ba with
  | inr v => r = Some v /\ memR nm' m
  | inl a => r = None /\ errR nm' m a
  end /\ pages_le nm nm'.
Proof using All.
  intros MR Hba Hba2 Htop H. pose proof MR as [R _]. unfold mem_get_word_unaligned in H.
  rewrite (R_ww _ _ R), (nw_sub1 nm m R), (R_mask _ _ R), (R_w _ _ R) in H.
  pose proof (wa_mul_le ba) as Hwa. unfold get_word.
  destruct (N.land ba (w - 1) =? 0) eqn:Eo.
  - destruct (read_word_spec nm m (N.shiftr ba ww) nm' r MR ltac:(lia) H) as [S Hle]. split; [|assumption].
    destruct (rdw sg m (N.shiftr ba ww)); destruct S; auto.
  - rewrite (mask_branch_dead ba Hba2) in H. apply N.eqb_neq in Eo. specialize (Htop Eo).
    destruct (mem_read_word nm (N.shiftr ba ww)) as [m1 r1] eqn:E1.
    destruct (read_word_spec nm m (N.shiftr ba ww) m1 r1 MR ltac:(lia) E1) as [S1 Hle1].
    destruct (rdw sg m (N.shiftr ba ww)) as [lo|]; destruct S1 as [-> S1]; [|injection H as <- <-; auto].
    rewrite add64_small in H by (pose proof w_bounds; unfold M64 in *; nia).
    destruct (mem_read_word m1 (N.shiftr ba ww + 1)) as [m2 r2] eqn:E2.
    destruct (read_word_spec m1 m (N.shiftr ba ww + 1) m2 r2 S1 ltac:(lia) E2) as [S2 Hle2].
    assert (Hle : pages_le nm m2) by (eapply pages_le_trans; eassumption).
    destruct (rdw sg m (N.shiftr ba ww + 1)) as [hi|]; destruct S2 as [-> S2]; injection H as <- <-; [|auto].
    split; [|assumption]. split; [|assumption]. unfold shl64. now rewrite combine_u64.
Qed.

End W.
