From FJ Require Import Lib.Base Model.NativeSafe Model.NativeSafeCase
  Proofs.NativeSafeTbl Proofs.NativeSafeProps Proofs.NativeSafeLoops Proofs.NativeSafeApi.
(* C11 - the theorems restated in Properties/C11.v, derived from the invariant lemmas. *)
Local Open Scope N_scope.

Lemma C11_no_oob_calls_proof : forall al ov w g f k cs, valid_w w ->
  exists outs s', do_calls al ov cs (fresh w g f k) = Ok (outs, s') /\ wf s'.
Proof.
  intros al ov w g f k cs Hw. pose proof (do_calls_ok al ov cs _ (wf_fresh w g f k Hw)) as H.
  destruct (do_calls al ov cs (fresh w g f k)) as [[outs s']| |]; try contradiction. eauto.
Qed.

Definition load_call (c : call) : Prop := match c with CRun _ _ _ _ _ => False | _ => True end.

Lemma C11_no_oob_load_proof : forall al ov w g f k cs, valid_w w -> Forall load_call cs ->
  exists outs s', do_calls al ov cs (fresh w g f k) = Ok (outs, s') /\ wf s'.
Proof. intros al ov w g f k cs Hw _. now apply C11_no_oob_calls_proof. Qed.

Lemma C11_wf_preserved_proof : forall al ov c s, wf s ->
  exists o s', do_call al ov c s = Ok (o, s') /\ wf s'.
Proof.
  intros al ov c s H. pose proof (do_call_ok al ov c s H) as Hc. unfold post in Hc.
  destruct (do_call al ov c s) as [[[a|e] s']| |]; try contradiction; eauto.
Qed.

Lemma C11_no_oob_decide_storage_proof : forall ev al s, wf s ->
  exists o s', mem_decide_storage ev al s = Ok (o, s') /\ wf s'.
Proof.
  intros ev al s H. pose proof (mem_decide_storage_ok ev al s 0 (m_cfg s) (I'_wf s H)) as Hc. unfold post in Hc.
  destruct (mem_decide_storage ev al s) as [[[a|e] s']| |]; try contradiction; exists (Val a) || exists (Raise e); exists s'; (split; [reflexivity|apply Hc]).
Qed.

Lemma C11_no_oob_run_proof : forall k al ov wd fc steps l s, wf s -> wf_loc l -> loop_pre k (fshape s) fc ->
  exists o s', loop_n steps k al ov wd fc l s = Ok (o, s') /\ wf s'
               /\ match o with Val r => wf_runres r | Raise _ => True end.
Proof.
  intros k al ov wd fc steps l s H Hl Hp.
  pose proof (loop_n_ok k al ov wd fc steps l s 0 _ _ (wf_I s H) Hl Hp) as Hc. unfold post in Hc.
  destruct (loop_n steps k al ov wd fc l s) as [[[a|e] s']| |]; try contradiction.
  - exists (Val a), s'. split; [reflexivity|]. split; [apply Hc|apply Hc].
  - exists (Raise e), s'. split; [reflexivity|]. split; [apply Hc|exact Logic.I].
Qed.

Lemma C11_no_oob_api_run_proof : forall ev al ov wd lol ip n s, wf s ->
  exists o s', api_run ev al ov wd lol ip n s = Ok (o, s') /\ wf s'.
Proof.
  intros ev al ov wd lol ip n s H. pose proof (api_run_ok ev al ov wd lol ip n s 0 (m_cfg s) (I'_wf s H)) as Hc. unfold post in Hc.
  destruct (api_run ev al ov wd lol ip n s) as [[[a|e] s']| |]; try contradiction; exists (Val a) || exists (Raise e); exists s'; (split; [reflexivity|apply Hc]).
Qed.

Lemma C11_probe_terminates_proof : forall (V : Type) (dflt : V) (valid : V -> Prop) ov (t : tbl V) key,
  wf_tbl valid t -> t_used t * 2 < t_count t ->
  exists r, tbl_probe dflt ov t key = Ok r /\ match r with Found h _ | Empty h => h < t_count t end.
Proof.
  intros V dflt valid ov t key Wt Hld. pose proof Wt as Wt'. unfold wf_tbl in Wt'.
  destruct (t_slots t) as [a|] eqn:Ea; [|destruct Wt'; lia]. destruct Wt' as [Wsl _].
  destruct (tbl_probe_ok dflt valid ov t key a Ea Wsl ltac:(lia)) as [r [Hr Hres]].
  exists r. split; [exact Hr|]. destruct r; apply Hres.
Qed.

Lemma C11_probe_terminates_growth_proof : forall (V : Type) (dflt : V) (valid : V -> Prop) ov init (t : tbl V) nc,
  wf_tbl valid t -> pow2 init -> 2 <= init -> tbl_new_count init t = Ok nc -> nc * 16 <= PTRDIFF_MAX ->
  t_count t <= t_used t * 2 ->
  exists t', tbl_rehash dflt ov t nc = Ok t' /\ wf_tbl valid t' /\ t_used t' * 2 < t_count t'.
Proof.
  intros V dflt valid ov init t nc Wt Hp Hi Hnc Hsz Hfull.
  destruct (tbl_grow_ok dflt valid ov init t nc Wt Hp Hi Hnc Hsz Hfull) as (t' & A & B & C & _). eauto.
Qed.

Lemma C11_get_page_total_proof : forall al ov wa s, wf s -> wa < U64 ->
  exists o s', mem_get_page al ov wa s = Ok (o, s') /\ wf s'.
Proof.
  intros al ov wa s H Hwa. pose proof (mem_get_page_ok al ov wa s 0 _ _ (wf_I s H) Hwa) as Hc. unfold post in Hc.
  destruct (mem_get_page al ov wa s) as [[[a|e] s']| |]; try contradiction; exists (Val a) || exists (Raise e); exists s'; (split; [reflexivity|apply Hc]).
Qed.

Lemma C11_ring_in_range_proof : forall l, wf_loc l -> exists out, ring_readout l = Ok out.
Proof. exact ring_readout_ok. Qed.

Lemma C11_ring_allocated_proof : forall ip len, ip < U64 -> 0 < len -> wf_loc (init_locals ip (Some (anew len 0)) len).
Proof. intros ip len Hip Hlen. apply wf_init_locals; [exact Hip|]. cbn. auto. Qed.

Lemma C11_no_wild_wrap_proof :
  (forall al start len s, U64 <= start mod U64 + len mod U64 -> api_add_segment al start len s = Ok (Raise ValueError, s))
  /\ (forall al ov start values s, N.of_nat (length values) < SSIZE_LIM -> U64 <= start mod U64 + N.of_nat (length values) ->
        api_set_words al ov start values s = Ok (Raise ValueError, s))
  /\ (forall (ov : wov) k al wd fc l s, wf s -> wf_loc l -> loop_pre k (fshape s) fc ->
        exists o s', loop_op k al ov wd fc l s = Ok (o, s') /\ wf s').
Proof.
  split; [|split].
  - intros al start len s Hov. unfold api_add_segment.
    assert (Hs : start mod U64 < U64) by (apply N.mod_lt; lia). assert (Hl : len mod U64 < U64) by (apply N.mod_lt; lia).
    set (a := start mod U64) in *. set (b := len mod U64) in *.
    destruct (uadd a b <? a) eqn:E; [reflexivity|].
    destruct (uadd_no_overflow _ _ Hs Hl E). lia.
  - intros al ov start values s Hcnt Hov. unfold api_set_words.
    assert (Hs : start mod U64 < U64) by (apply N.mod_lt; lia).
    destruct (N.leb_spec SSIZE_LIM (N.of_nat (length values))); [lia|].
    set (a := start mod U64) in *. set (b := N.of_nat (length values)) in *.
    destruct (uadd a b <? a) eqn:E; [reflexivity|].
    assert (Hb : b < U64) by lia.
    destruct (uadd_no_overflow _ _ Hs Hb E). lia.
  - intros ov k al wd fc l s H Hl Hp.
    pose proof (loop_op_ok k al ov wd fc l s 0 _ _ (wf_I s H) Hl Hp) as Hc. unfold post in Hc.
    destruct (loop_op k al ov wd fc l s) as [[[a|e] s']| |]; try contradiction; exists (Val a) || exists (Raise e); exists s'; (split; [reflexivity|apply Hc]).
Qed.


(* a ring length whose byte size does not fit is refused before any op runs: the run raises (MemoryError from the
   refused calloc, or an earlier ValueError/OverflowError) - for every allocator *)
Lemma C11_huge_ring_refused_proof : forall ev al ov wd lol ip n s, wf s -> (1152921504606846976 <= lol)%Z ->
  exists e s', api_run ev al ov wd lol ip n s = Ok (Raise e, s').
Proof.
  intros ev al ov wd lol ip n s H Hlol.
  assert (Hp : post (api_run ev al ov wd lol ip n s) (fun _ _ => False) (fun _ => True)).
  { unfold api_run.
    destruct ((lol <? -9223372036854775808)%Z || (9223372036854775807 <? lol)%Z); [exact Logic.I|].
    destruct (Z.ltb_spec lol 0); [lia|]. set (len := Z.to_N lol). assert (Hlen : 1152921504606846976 <= len) by (unfold len; lia).
    eapply post_bind_w; [apply (mem_decide_storage_ok ev al s 0 (m_cfg s) (I'_wf s H))|auto|].
    intros [] s1 _. rewrite bind_modify, bind_gets, bind_modify.
    destruct (N.eqb_spec len 0); [lia|]. rewrite !andb_false_r. cbn [negb andb].
    destruct (N.ltb_spec 0 len); [|lia].
    unfold bind at 1. unfold bind at 1. unfold bind at 1. unfold try_alloc.
    destruct (N.leb_spec (len * 8) PTRDIFF_MAX); [lia|]. cbn. exact Logic.I. }
  unfold post in Hp. destruct (api_run ev al ov wd lol ip n s) as [[[a|e] s']| |]; try contradiction. eauto.
Qed.

(* the failure branch of mem_get_page (a refused slot-table, Page or page-words allocation): the MemoryError leaves a
   well-formed object - in particular every occupied slot and every cache entry still points at a live page *)
Lemma C11_get_page_failure_wf_proof : forall al ov wa s e s', wf s -> wa < U64 ->
  mem_get_page al ov wa s = Ok (Raise e, s') -> wf s'.
Proof.
  intros al ov wa s e s' H Hwa E. pose proof (mem_get_page_ok al ov wa s 0 _ _ (wf_I s H) Hwa) as Hc.
  unfold post in Hc. rewrite E in Hc. apply Hc.
Qed.
