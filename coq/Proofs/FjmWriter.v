From FJ Require Import Lib.Base Lib.Bytes Spec.ImageSpec Model.Fjm Proofs.FjmCodec Proofs.FjmReader.
(* The writer: the invariant linking the Writer's state (segments, data pool - rewritten in place to
   relative jumps in versions 2/3) with the logical pool and the declared segments. *)
Local Open Scope Z_scope.

(* ---- lists ------------------------------------------------------------------------------------------- *)

Lemma set_nth_length l n v : length (set_nth l n v) = length l.
Proof. revert n; induction l as [|x l IH]; intros [|n]; cbn [set_nth length]; auto. Qed.

Lemma nth_set_nth l : forall n v k d,
  nth k (set_nth l n v) d = if (k =? n)%nat && (n <? length l)%nat then v else nth k l d.
Proof.
  induction l as [|x l IH]; intros n v k d.
  - cbn [set_nth length]. destruct n, k; cbn; try reflexivity; now rewrite andb_false_r.
  - destruct n as [|n], k as [|k]; cbn [set_nth nth length]; try reflexivity.
    rewrite IH. reflexivity.
Qed.

Lemma firstn_skipn_app (A : Type) (l l' : list A) s n :
  (s + n <= length l)%nat -> firstn n (skipn s (l ++ l')) = firstn n (skipn s l).
Proof.
  intros H. rewrite skipn_app, firstn_app, skipn_length.
  replace (n - (length l - s))%nat with 0%nat by lia.
  replace (s - length l)%nat with 0%nat by lia. cbn [skipn firstn]. now rewrite app_nil_r.
Qed.

Lemma N_odd_mod2 j : N.odd j = (j mod 2 =? 1)%N.
Proof.
  destruct (N.odd j) eqn:E.
  - apply N.odd_spec in E. destruct E as [k ->]. symmetry. apply N.eqb_eq.
    rewrite N.add_comm, N.mul_comm, N.mod_add by discriminate. reflexivity.
  - rewrite <- N.negb_even in E. apply negb_false_iff in E. apply N.even_spec in E. destruct E as [k ->].
    symmetry. apply N.eqb_neq. rewrite N.mul_comm, N.mod_mul by discriminate. discriminate.
Qed.

Lemma N_even_mod2 j : N.even j = (j mod 2 =? 0)%N.
Proof.
  rewrite <- (negb_involutive (N.even j)), N.negb_even, N_odd_mod2.
  pose proof (N.mod_upper_bound j 2). destruct (j mod 2 =? 1)%N eqn:E; cbn [negb]; lia.
Qed.

(* ---- the relative-jump rewrite ------------------------------------------------------------------------ *)

Definition rel_f (w s ds : Z) (k : nat) (v : Z) : Z := Z.land (v - (s + (Z.of_nat k - ds)) * w) (Z.ones w).
Definition rel_hit (ds i : Z) (n : nat) (k : nat) : bool :=
  (ds + i <=? Z.of_nat k) && (Z.of_nat k <? ds + i + 2 * Z.of_nat n) && ((Z.of_nat k - ds - i) mod 2 =? 0).

Lemma rel_loop_spec w s ds : forall n i data,
  0 <= ds -> 0 <= i -> (n = 0%nat \/ ds + i + 2 * Z.of_nat n - 2 < Z.of_nat (length data)) ->
  exists D', rel_loop n w s ds i data = Some D' /\ length D' = length data /\
             forall k, nth k D' 0 = if rel_hit ds i n k then rel_f w s ds k (nth k data 0) else nth k data 0.
Proof.
  induction n as [|n IH]; intros i data Hds Hi Hn.
  - exists data. split; [reflexivity|]. split; [reflexivity|]. intros k.
    replace (rel_hit ds i 0 k) with false by (symmetry; unfold rel_hit; lia). reflexivity.
  - destruct Hn as [Hn | Hn]; [discriminate|].
    cbn [rel_loop]. unfold py_index.
    replace ((0 <=? ds + i) && (ds + i <? Z.of_nat (length data))) with true by (symmetry; lia).
    set (k0 := Z.to_nat (ds + i)).
    set (d1 := set_nth data k0 (Z.land (nth k0 data 0 - (s + i) * w) (Z.ones w))).
    destruct (IH (i + 2) d1 Hds) as (D' & E & L & Hnth).
    { lia. }
    { unfold d1. rewrite set_nth_length. destruct n; [now left | right; lia]. }
    exists D'. split; [exact E|]. split; [unfold d1 in L; now rewrite set_nth_length in L|].
    intros k. rewrite Hnth. unfold d1. rewrite nth_set_nth.
    replace (k0 <? length data)%nat with true by (symmetry; apply Nat.ltb_lt; lia).
    rewrite andb_true_r.
    destruct (k =? k0)%nat eqn:Ek.
    + apply Nat.eqb_eq in Ek. subst k.
      replace (rel_hit ds (i + 2) n k0) with false by (symmetry; unfold rel_hit; lia).
      replace (rel_hit ds i (S n) k0) with true by (symmetry; unfold rel_hit; lia).
      unfold rel_f. replace (Z.of_nat k0 - ds) with i by lia. reflexivity.
    + apply Nat.eqb_neq in Ek.
      replace (rel_hit ds i (S n) k) with (rel_hit ds (i + 2) n k); [reflexivity|].
      unfold rel_hit.
      replace ((Z.of_nat k - ds - (i + 2)) mod 2 =? 0) with ((Z.of_nat k - ds - i) mod 2 =? 0) by lia.
      destruct ((Z.of_nat k - ds - i) mod 2 =? 0) eqn:Em; [|now rewrite !andb_false_r].
      rewrite !andb_true_r. lia.
Qed.

Lemma update_rel_spec w s ds dl data :
  0 <= ds -> 0 <= dl -> dl mod 2 = 0 -> ds + dl <= Z.of_nat (length data) ->
  exists D', update_to_relative_jumps w s ds dl data = Some D' /\ length D' = length data /\
             forall k, nth k D' 0 = if rel_hit ds 1 (Z.to_nat (dl / 2)) k then rel_f w s ds k (nth k data 0) else nth k data 0.
Proof.
  intros Hds Hdl Hev Hr. unfold update_to_relative_jumps.
  destruct (dl <? 2) eqn:E2.
  - exists data. split; [reflexivity|]. split; [reflexivity|]. intros k.
    assert (dl = 0) by lia. subst dl. change (Z.to_nat (0 / 2)) with 0%nat. replace (rel_hit ds 1 0 k) with false by (symmetry; unfold rel_hit; lia).
    reflexivity.
  - replace ((ds + 1 <? - Z.of_nat (length data)) || (Z.of_nat (length data) <=? ds + 2 * (dl / 2) - 1)) with false
      by (symmetry; lia).
    apply rel_loop_spec; [exact Hds | lia | right; lia].
Qed.

(* ---- overlap tests ------------------------------------------------------------------------------------- *)

Lemma pairwise_app_single (A : Type) (r : A -> A -> bool) l t :
  pairwise r (l ++ [t]) = pairwise r l && forallb (fun x => r x t) l.
Proof.
  induction l as [|x l IH]; [reflexivity|].
  cbn [app pairwise forallb]. rewrite IH, forallb_app. cbn [forallb].
  destruct (forallb (r x) l), (r x t), (pairwise r l), (forallb (fun x0 => r x0 t) l); reflexivity.
Qed.

Lemma addr_overlap_disj T s l a b :
  0 <= s -> 0 < l ->
  forallb (fun t : tseg => let '(_, sl, _, _) := t in (0 <? sl)%N) T = true ->
  addresses_overlap (map tsegZ T) s l = false ->
  forallb (fun x => tdisjoint x (Z.to_N s, Z.to_N l, a, b)) T = true.
Proof.
  intros Hs Hl. induction T as [|t T IH]; intros Hp H; [reflexivity|].
  unfold addresses_overlap in *. cbn [map existsb forallb] in *.
  apply andb_prop in Hp. destruct Hp as [Hp1 Hp2].
  apply orb_false_elim in H. destruct H as [H1 H2].
  rewrite (IH Hp2 H2), andb_true_r.
  destruct t as [[[ss sl] ds] dl]. unfold tsegZ, is_collision in H1. unfold tdisjoint. lia.
Qed.

Lemma data_overlap_disj T ds dl ss sl ds' dl' :
  0 <= ds -> 0 <= dl ->
  data_overlap (map tsegZ T) ds dl = false -> In (ss, sl, ds', dl') T ->
  dl = 0 \/ dl' = 0%N \/ Z.of_N ds' + Z.of_N dl' <= ds \/ ds + dl <= Z.of_N ds'.
Proof.
  intros Hds Hdl H Hin. unfold data_overlap in H.
  destruct (dl =? 0) eqn:E; [left; lia|].
  destruct (existsb _ (map tsegZ T)) eqn:Ex; [discriminate|].
  assert (F : forall x, In x (map tsegZ T) ->
              (let '(_, _, ds'0, dl'0) := x in
               if dl'0 =? 0 then false else is_collision ds'0 (ds'0 + dl'0 - 1) ds (ds + dl - 1)) = false).
  { intros x Hx. destruct (let '(_, _, ds'0, dl'0) := x in _) eqn:Ef; [|reflexivity].
    assert (existsb (fun seg : Z * Z * Z * Z => let '(_, _, ds'0, dl'0) := seg in
               if dl'0 =? 0 then false else is_collision ds'0 (ds'0 + dl'0 - 1) ds (ds + dl - 1)) (map tsegZ T) = true)
      by (apply existsb_exists; eauto).
    congruence. }
  specialize (F (tsegZ (ss, sl, ds', dl')) (in_map tsegZ _ _ Hin)). unfold tsegZ in F.
  destruct (Z.of_N dl' =? 0) eqn:E'; [right; left; lia|].
  unfold is_collision in F. right; right. lia.
Qed.

(* ---- the invariant --------------------------------------------------------------------------------------- *)

Section Inv.
Variable c : wcfg.
Hypothesis Hc : cfg_valid c = true.

Lemma cfg_w_cases : c_w c = 8 \/ c_w c = 16 \/ c_w c = 32 \/ c_w c = 64.
Proof.
  pose proof Hc as V. unfold cfg_valid in V. repeat (apply andb_prop in V; destruct V as [V ?]).
  apply supported_width_cases in H5. lia.
Qed.

Lemma cfg_w_nonneg : 0 <= c_w c.
Proof. pose proof cfg_w_cases. lia. Qed.

Definition word_in (x : Z) : Prop := 0 <= x < 2 ^ c_w c.

Definition enc (ss j : N) (v : Z) : Z :=
  if is_rel c && N.odd j then (v - Z.of_N (ss + j) * c_w c) mod 2 ^ c_w c else v.

Definition in_drange (k : nat) (t : tseg) : Prop :=
  let '(_, _, ds, dl) := t in (N.to_nat ds <= k < N.to_nat (ds + dl))%nat.

Record Inv (st : wstate) (T : list tseg) (P : list Z) : Prop := {
  inv_segs : ws_segs st = map tsegZ T;
  inv_len : length (ws_data st) = length P;
  inv_P : Forall word_in P;
  inv_D : Forall word_in (ws_data st);
  inv_entries : forallb (tentry_ok (N.of_nat (length P))) T = true;
  inv_end : Forall (fun t : tseg => let '(ss, sl, _, _) := t in (ss + sl < 2 ^ 64)%N) T;
  inv_disj : pairwise tdisjoint T = true;
  inv_data : forall ss sl ds dl j, In (ss, sl, ds, dl) T -> (j < dl)%N ->
             nth (N.to_nat (ds + j)) (ws_data st) 0 = enc ss j (nth (N.to_nat (ds + j)) P 0);
  inv_free : forall k, (forall t, In t T -> ~ in_drange k t) -> nth k (ws_data st) 0 = nth k P 0;
  inv_plain : is_rel c = false -> ws_data st = P
}.

Lemma inv_empty : Inv ws_empty [] [].
Proof.
  constructor; cbn; auto. intros ? ? ? ? ? [].
Qed.

Lemma word_ok_in l : forallb (word_ok (c_w c)) l = true -> Forall word_in l.
Proof.
  intros H. apply Forall_forall. intros x Hx. rewrite forallb_forall in H. specialize (H x Hx).
  unfold word_ok in H. unfold word_in. lia.
Qed.

Lemma tentry_ok_mono a b t : (a <= b)%N -> tentry_ok a t = true -> tentry_ok b t = true.
Proof.
  destruct t as [[[ss sl] ds] dl]. unfold tentry_ok. intros Hab H.
  repeat (apply andb_prop in H; destruct H as [H ?]).
  rewrite H, H4, H3, H2, H1. cbn [andb]. lia.
Qed.

Lemma entry_range T n ss sl ds dl :
  forallb (tentry_ok n) T = true -> In (ss, sl, ds, dl) T ->
  (0 < sl /\ dl <= sl /\ ds + dl <= n)%N /\ N.even ss = true /\ N.even sl = true /\ N.even dl = true.
Proof.
  intros H Hin. rewrite forallb_forall in H. specialize (H _ Hin). unfold tentry_ok in H.
  repeat (apply andb_prop in H; destruct H as [H ?]). repeat split; try assumption; lia.
Qed.

Lemma inv_add_data st T P l :
  Inv st T P -> forallb (word_ok (c_w c)) l = true ->
  Inv (mkws (ws_segs st) (ws_data st ++ l)) T (P ++ l).
Proof.
  intros I Hl. destruct I. pose proof (word_ok_in l Hl) as Hin.
  constructor; cbn [ws_segs ws_data].
  - assumption.
  - now rewrite !app_length, inv_len0.
  - apply Forall_app; split; assumption.
  - apply Forall_app; split; assumption.
  - rewrite forallb_forall in *. intros t Ht. apply (tentry_ok_mono (N.of_nat (length P))); [|auto].
    rewrite app_length. lia.
  - assumption.
  - assumption.
  - intros ss sl ds dl j Hin' Hj.
    destruct (entry_range _ _ _ _ _ _ inv_entries0 Hin') as [(_ & _ & Hr) _].
    rewrite !app_nth1 by lia. now apply (inv_data0 ss sl ds dl).
  - intros k Hk. destruct (Nat.lt_ge_cases k (length P)) as [Hlt | Hge].
    + rewrite !app_nth1 by lia. now apply inv_free0.
    + rewrite !app_nth2 by lia. now rewrite inv_len0.
  - intros Hr. now rewrite inv_plain0.
Qed.

Lemma land_ones_range x : 0 <= Z.land x (Z.ones (c_w c)) < 2 ^ c_w c.
Proof. rewrite Z.land_ones by apply cfg_w_nonneg. apply Z.mod_pos_bound. apply Z.pow_pos_nonneg; [lia | apply cfg_w_nonneg]. Qed.

Lemma add_segment_inv st T P s l ds dl st' r :
  Inv st T P -> add_segment c st s l ds dl = OpOk st' r ->
  0 <= s /\ 0 < l /\ 0 <= ds /\ 0 <= dl /\ ds + dl <= Z.of_nat (length P) /\
  Inv st' (T ++ [(Z.to_N s, Z.to_N l, Z.to_N ds, Z.to_N dl)]) P.
Proof.
  intros I. unfold add_segment.
  destruct (l <=? 0) eqn:E1; [discriminate|].
  destruct (l <? dl) eqn:E2; [discriminate|].
  destruct ((s mod 2 =? 1) || (l mod 2 =? 1)) eqn:E3; [discriminate|].
  destruct (dl mod 2 =? 1) eqn:E4; [discriminate|].
  destruct ((s <? 0) || (2 ^ 64 <=? s + l)) eqn:E5; [discriminate|].
  destruct ((ds <? 0) || (dl <? 0) || (Z.of_nat (length (ws_data st)) <? ds + dl)) eqn:E6; [discriminate|].
  destruct (addresses_overlap (ws_segs st) s l) eqn:E7; [discriminate|].
  destruct (is_rel c && data_overlap (ws_segs st) ds dl) eqn:E8; [discriminate|].
  destruct I. rewrite inv_segs0 in E7, E8.
  set (t := (Z.to_N s, Z.to_N l, Z.to_N ds, Z.to_N dl)).
  assert (Ht : tsegZ t = (s, l, ds, dl)) by (unfold t, tsegZ; rewrite !Z2N.id by lia; reflexivity).
  assert (Hpos : forallb (fun t0 : tseg => let '(_, sl, _, _) := t0 in (0 <? sl)%N) T = true).
  { apply forallb_forall. intros [[[ss sl] ds'] dl'] Hin.
    destruct (entry_range _ _ _ _ _ _ inv_entries0 Hin) as [(? & _) _]. lia. }
  assert (Hdisj : forallb (fun x => tdisjoint x t) T = true) by (apply addr_overlap_disj; [lia | lia | exact Hpos | exact E7]).
  assert (Hentry : tentry_ok (N.of_nat (length P)) t = true).
  { unfold t, tentry_ok. rewrite !N_even_mod2.
    replace (0 <? Z.to_N l)%N with true by (symmetry; lia).
    replace (Z.to_N s mod 2 =? 0)%N with true by (symmetry; lia).
    replace (Z.to_N l mod 2 =? 0)%N with true by (symmetry; lia).
    replace (Z.to_N dl <=? Z.to_N l)%N with true by (symmetry; lia).
    replace (Z.to_N dl mod 2 =? 0)%N with true by (symmetry; lia).
    cbn [andb]. lia. }
  assert (Common : forall D', length D' = length P -> Forall word_in D' ->
     (forall ss sl ds0 dl0 j, In (ss, sl, ds0, dl0) (T ++ [t]) -> (j < dl0)%N ->
        nth (N.to_nat (ds0 + j)) D' 0 = enc ss j (nth (N.to_nat (ds0 + j)) P 0)) ->
     (forall k, (forall t0, In t0 (T ++ [t]) -> ~ in_drange k t0) -> nth k D' 0 = nth k P 0) ->
     (is_rel c = false -> D' = P) ->
     Inv (mkws (map tsegZ T ++ [(s, l, ds, dl)]) D') (T ++ [t]) P).
  { intros D' L FD Hdata Hfree Hplain. constructor; cbn [ws_segs ws_data]; try assumption.
    - now rewrite map_app, <- Ht.
    - rewrite forallb_app. cbn [forallb]. now rewrite inv_entries0, Hentry.
    - apply Forall_app; split; [assumption|]. constructor; [|constructor]. unfold t. lia.
    - rewrite pairwise_app_single. apply andb_true_intro. split; [exact inv_disj0 | exact Hdisj]. }
  destruct (is_rel c) eqn:Erel.
  - (* versions 2, 3: the pool is rewritten in place *)
    cbn [andb] in E8.
    destruct (update_rel_spec (c_w c) s ds dl (ws_data st)) as (D' & EU & LU & HU); try lia.
    rewrite EU. intros Hst. injection Hst as <- _.
    repeat (split; [lia|]).
    rewrite inv_segs0.
    assert (Hhit_new : forall j, (j < Z.to_N dl)%N ->
              rel_hit ds 1 (Z.to_nat (dl / 2)) (N.to_nat (Z.to_N ds + j)) = N.odd j).
    { intros j Hj. rewrite N_odd_mod2. unfold rel_hit. lia. }
    apply Common.
    + lia.
    + apply Forall_nth. intros i d Hi. rewrite (nth_indep _ d 0 Hi). rewrite HU.
      destruct (rel_hit ds 1 (Z.to_nat (dl / 2)) i).
      * unfold rel_f. apply land_ones_range.
      * rewrite Forall_nth in inv_D0. apply inv_D0. lia.
    + intros ss sl ds0 dl0 j Hin Hj. rewrite HU. apply in_app_or in Hin. destruct Hin as [Hin | [Hin | []]].
      * (* an older segment: its data range is untouched *)
        destruct (data_overlap_disj T ds dl ss sl ds0 dl0) as [H | [H | H]]; try lia; try assumption.
        -- replace (rel_hit ds 1 (Z.to_nat (dl / 2)) (N.to_nat (ds0 + j))) with false
             by (symmetry; unfold rel_hit; lia).
           now apply (inv_data0 ss sl ds0 dl0).
        -- replace (rel_hit ds 1 (Z.to_nat (dl / 2)) (N.to_nat (ds0 + j))) with false
             by (symmetry; unfold rel_hit; lia).
           now apply (inv_data0 ss sl ds0 dl0).
      * (* the new segment *)
        unfold t in Hin. injection Hin as <- <- <- <-.
        rewrite Hhit_new by exact Hj.
        assert (Hfree : nth (N.to_nat (Z.to_N ds + j)) (ws_data st) 0 = nth (N.to_nat (Z.to_N ds + j)) P 0).
        { apply inv_free0. intros [[[ss' sl'] ds'] dl'] Hin' Hr. unfold in_drange in Hr.
          destruct (data_overlap_disj T ds dl ss' sl' ds' dl') as [H | [H | H]]; try lia; assumption. }
        unfold enc. rewrite Erel. cbn [andb]. destruct (N.odd j); [|exact Hfree].
        unfold rel_f. rewrite Z.land_ones by apply cfg_w_nonneg. rewrite Hfree.
        f_equal. f_equal. f_equal. lia.
    + intros k Hk. rewrite HU.
      replace (rel_hit ds 1 (Z.to_nat (dl / 2)) k) with false.
      * apply inv_free0. intros t0 Ht0. apply Hk. apply in_or_app. now left.
      * symmetry. destruct (rel_hit ds 1 (Z.to_nat (dl / 2)) k) eqn:Eh; [|reflexivity].
        exfalso. apply (Hk t); [apply in_or_app; right; now left|].
        unfold t, in_drange. unfold rel_hit in Eh. lia.
    + discriminate.
  - (* versions 0, 1: the pool is stored as it is *)
    intros Hst. injection Hst as <- _.
    repeat (split; [lia|]).
    rewrite inv_segs0. specialize (inv_plain0 eq_refl).
    apply Common.
    + now rewrite inv_plain0.
    + assumption.
    + intros ss sl ds0 dl0 j _ _. rewrite inv_plain0. unfold enc. rewrite Erel. reflexivity.
    + intros k _. now rewrite inv_plain0.
    + intros _. exact inv_plain0.
Qed.

(* no call on a Writer ends in anything but a normal return or the library's error *)
Lemma add_segment_no_raw st T P s l ds dl e :
  Inv st T P -> add_segment c st s l ds dl <> OpRaw e.
Proof.
  intros I. unfold add_segment.
  destruct (l <=? 0) eqn:E1; [discriminate|].
  destruct (l <? dl) eqn:E2; [discriminate|].
  destruct ((s mod 2 =? 1) || (l mod 2 =? 1)) eqn:E3; [discriminate|].
  destruct (dl mod 2 =? 1) eqn:E4; [discriminate|].
  destruct ((s <? 0) || (2 ^ 64 <=? s + l)) eqn:E5; [discriminate|].
  destruct ((ds <? 0) || (dl <? 0) || (Z.of_nat (length (ws_data st)) <? ds + dl)) eqn:E6; [discriminate|].
  destruct (addresses_overlap (ws_segs st) s l); [discriminate|].
  destruct (is_rel c && data_overlap (ws_segs st) ds dl); [discriminate|].
  destruct (is_rel c); [|discriminate].
  destruct (update_rel_spec (c_w c) s ds dl (ws_data st)) as (D' & EU & _); try lia.
  rewrite EU. discriminate.
Qed.

End Inv.
