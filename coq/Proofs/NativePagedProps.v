(* The measured loop, the paged loop (with and without the last-ops ring, incl. the ring's flat lane), the ring
   read-out and the storage decision of the native engine (Model/EngNative.v) against Spec/MachineSpec.v. *)
From FJ Require Import Lib.Base Lib.Bits Spec.MachineSpec Model.EngNative Proofs.NativeMemProps Proofs.NativeFlatProps.
Local Open Scope N_scope.

Section W.
Variable ww : N.
Hypothesis Hww : 3 <= ww <= 6.
Variable sg : list (N * N).
Hypothesis Hload : loadable_segs ww sg = true.
Variable fc : option N.

Local Notation w := (MachineSpec.w ww).
Local Notation dw := (MachineSpec.dw ww).
Local Notation in_addr := (MachineSpec.in_addr ww).
Local Notation W := (2 ^ w).
Local Notation memR := (NativeMemProps.memR ww sg fc).
Local Notation coreR := (NativeMemProps.coreR ww sg fc).
Local Notation errR := (NativeMemProps.errR ww sg fc).
Local Notation stR := (NativeFlatProps.stR ww sg fc).
Local Notation nsim := (NativeFlatProps.nsim ww sg fc).
Local Notation w_bounds := (NativeMemProps.w_bounds ww Hww).
Local Notation W_le_M64 := (NativeMemProps.W_le_M64 ww Hww).
Local Notation W_ge_256 := (NativeMemProps.W_ge_256 ww Hww).
Local Notation consts := (NativeFlatProps.consts ww Hww sg Hload fc).
Local Notation small_consts := (NativeFlatProps.small_consts ww Hww).
Local Notation get_word_spec := (NativeMemProps.get_word_spec ww Hww sg Hload fc).
Local Notation read_word_spec := (NativeMemProps.read_word_spec ww Hww sg Hload fc).
Local Notation flip_bit_spec := (NativeMemProps.flip_bit_spec ww Hww sg Hload fc).
Local Notation gen_sim := (NativeFlatProps.gen_sim ww Hww sg Hload fc).
Local Notation top_unaligned := (NativeFlatProps.top_unaligned ww Hww).
Local Notation run_sim := (NativeFlatProps.run_sim ww Hww sg Hload fc).
Local Notation top_guard := (NativeFlatProps.top_guard ww sg).
Local Notation off_lt_w := (NativeMemProps.off_lt_w ww Hww).
Local Notation wa_mul_le := (NativeMemProps.wa_mul_le ww Hww).
Local Notation get_page_spec := (NativeMemProps.get_page_spec ww Hww sg Hload fc).
Local Notation flat_fetch_spec := (NativeMemProps.flat_fetch_spec ww Hww sg Hload fc).
Local Notation page_idx_small := (NativeMemProps.page_idx_small ww Hww sg Hload fc).
Local Notation coreR_pg_wr := (NativeMemProps.coreR_pg_wr ww Hww sg Hload fc).
Local Notation R_cache := (NativeMemProps.R_cache ww sg fc).
Local Notation R_sound := (NativeMemProps.R_sound ww sg fc).
Local Notation R_pages := (NativeMemProps.R_pages ww sg fc).
Local Notation R_words := (NativeMemProps.R_words ww sg fc).
Local Notation R_shape := (NativeMemProps.R_shape ww sg fc).
Local Notation inflat := (NativeMemProps.inflat fc).
Local Notation aligned_next := (NativeFlatProps.aligned_next ww Hww).
Local Notation unaligned_next := (NativeFlatProps.unaligned_next ww Hww).
Local Notation wa_plus1_small := (NativeFlatProps.wa_plus1_small ww Hww).
Local Notation do_output_ok := (NativeFlatProps.do_output_ok ww Hww sg Hload fc).
Local Notation input_hit_ok := (NativeFlatProps.input_hit_ok ww Hww sg Hload fc).
Local Notation loop_tail_ok := (NativeFlatProps.loop_tail_ok ww Hww sg Hload fc).

(* ---- run_measured_loop ---------------------------------------------------------------------------------- *)
Definition lift_rd (g : nmem * option N) : nmem * option (N * unit) :=
  match g with (m1, None) => (m1, None) | (m1, Some f) => (m1, Some (f, tt)) end.

Lemma measured_step_eq ns :
  let m0 := s_m ns in let ip0 := s_ip ns in
  measured_step ns =
  gen_step ns (lift_rd (mem_get_word_unaligned m0 ip0))
    (fun _ f => if (f <=? add64 (c_dw m0) 1) && (c_dw m0 <=? f) then (f =? add64 (c_dw m0) 1) :: s_out ns else s_out ns)
    (fun _ => (ip0 <=? c_in_addr m0) && (c_in_lo m0 <? ip0))
    mem_flip_bit
    (fun _ m3 => mem_get_word_unaligned m3 (add64 ip0 (n_w m0)))
    (fun m4 inp' out1 f j =>
       let s' := mknst j m4 inp' out1 (add64 (s_ops ns) 1) (s_ring ns) (s_rw ns) in
       if (j =? ip0) && negb ((ip0 <=? f) && (sub64 f ip0 <? c_dw m0)) then inr (NC Looping, s')
       else if j <? c_dw m0 then inr (NC NullIP, s')
       else inl s').
Proof.
  cbn zeta. unfold measured_step, gen_step, lift_rd.
  destruct (mem_get_word_unaligned (s_m ns) (s_ip ns)) as [m1 [f|]]; reflexivity.
Qed.

Theorem measured_sim s ns : stR s ns -> ip s < W -> ip s + dw <= M64 -> nsim (step ww sg s) (measured_step ns).
Proof using All.
  intros ST Hip Htop. pose proof ST as (Eip & Einp & Eout & Eops & MR).
  pose proof (measured_step_eq ns) as E. cbn zeta in E. rewrite E; clear E.
  pose proof W_le_M64 as HW. pose proof w_bounds as Hw. pose proof W_ge_256 as HW2.
  pose proof (eq_refl : M64 = 18446744073709551616) as HM64.
  destruct small_consts as (Edw & Ein & _).
  destruct (consts _ _ (proj1 MR)) as (Cdw & Cin & Clo & _ & Cw & _).
  rewrite Cdw, Cin, Clo, Cw, <- Eip. rewrite (add64_small dw 1) by lia. rewrite (add64_small (ip s) w) by lia.
  apply gen_sim with (JX := fun (_ : unit) (_ : nmem) => True); try assumption.
  - destruct (mem_get_word_unaligned (s_m ns) (ip s)) as [m1 r] eqn:Eg.
    destruct (get_word_spec _ _ (ip s) m1 r MR ltac:(lia) ltac:(lia) ltac:(intros; lia) Eg) as [S _].
    unfold lift_rd. destruct (get_word ww sg (m s) (ip s)) as [a|f]; destruct S as [-> S].
    + exists m1. auto.
    + exists m1, tt. auto.
  - intros m1 mm f _ _. unfold is_output. rewrite Eout, andb_comm. reflexivity.
  - intros m1 mm _. unfold covers_input. f_equal.
    destruct (N.ltb_spec (in_addr - dw) (ip s)), (N.ltb_spec in_addr (ip s + dw)); try reflexivity; lia.
  - intros nm mm f nm' ok MRn Hf Hfl. apply (flip_bit_spec nm mm f nm' ok MRn ltac:(lia) Hfl).
  - intros m4 mm inp' out1 f j MR4 Hf Hj. destruct (consts _ _ (proj1 MR4)) as (Cdw4 & _).
    unfold loop_tail. rewrite Cdw4, <- Eip.
    destruct (j =? ip s); cbn [andb]; [|reflexivity].
    destruct ((ip s <=? f) && (sub64 f (ip s) <? dw)); reflexivity.
  - intros x m1 nm mm' nm' r _ _ MRn Hrj.
    destruct (get_word_spec nm mm' (ip s + w) nm' r MRn ltac:(lia) ltac:(lia)
                (fun H => top_unaligned (ip s) Htop H) Hrj) as [S _]. exact S.
Qed.

Theorem measured_run_correct fuel s ns : stR s ns -> ip s < W -> top_guard fuel s ->
  NC (fst (run ww sg fuel s)) = fst (run_n measured_step fuel ns) /\
  stR (snd (run ww sg fuel s)) (snd (run_n measured_step fuel ns)).
Proof using All. apply run_sim. intros; now apply measured_sim. Qed.


(* ---- run_paged_loop_impl ---------------------------------------------------------------------------------- *)
(* what a lane remembers about the op when the jump word is read (after the input write and the flip):
   - op_flat_jump (ring + flat storage): the op is aligned and the jump word's index lies in the flat window;
   - op_words (hot lane, paged storage): the op is aligned, does not straddle a page, its page is allocated and
     op_valid_end is THAT page's valid_end (finding F14 was a violation of exactly this clause: the value was
     re-read from a cache slot that the flip may have refilled with another page). *)
Definition lane_ok (ip0 : N) (l : lane) (m1 : nmem) : Prop :=
  match l_fj l with
  | None => True
  | Some i => N.land ip0 (w - 1) = 0 /\ i = N.shiftr ip0 ww + 1 /\ inflat i = true
  end /\
  match l_words l with
  | None => True
  | Some pid =>
    fc = None /\ l_fj l = None /\ N.land ip0 (w - 1) = 0 /\ pid = N.shiftr (N.shiftr ip0 ww) PAGE_BITS /\
    l_off l = N.land (N.shiftr ip0 ww) PAGE_MASK /\ l_off l + 1 < PAGE_WORDS /\
    exists p, pmget (n_pages m1) pid = Some p /\ l_vend l = pg_ve p /\ pg_vs p <= l_off l
  end.

Lemma slow_lane_ok ip0 f m1 : lane_ok ip0 (slow_lane f) m1.
Proof. split; exact I. Qed.

Lemma aligned_get_word mm ba : N.land ba (w - 1) = 0 ->
  get_word ww sg mm ba = match rdw sg mm (N.shiftr ba ww) with Some v => inr v | None => inl (N.shiftl (N.shiftr ba ww) ww) end.
Proof.
  intros H. unfold get_word. rewrite H. cbn [N.eqb]. destruct (rdw sg mm (N.shiftr ba ww)); reflexivity.
Qed.

(* a cache slot whose key matches names the page and carries its validity fields *)
Lemma cache_hit nm mm idx : memR nm mm -> idx + 1 < M64 -> cs_key (cache_get nm (N.land idx 15)) = idx + 1 ->
  let c := cache_get nm (N.land idx 15) in
  cs_page c = idx /\ exists p, pmget (n_pages nm) idx = Some p /\ cs_vs c = pg_vs p /\ cs_ve c = pg_ve p.
Proof using All.
  intros [R _] Hi Hk. cbn zeta. unfold cache_get in *.
  destruct (pmget (n_cache nm) (N.land idx 15)) as [c|] eqn:Ec; [|cbn [cs_key] in Hk; lia].
  destruct (R_cache _ _ R _ _ Ec) as [K0|(K1 & K2 & p & Hp & Hvs & Hve)]; [lia|].
  assert (Ei : cs_page c = idx) by lia. rewrite Ei in *. split; [reflexivity|]. exists p. auto.
Qed.

Lemma in_range_valid nm mm a p : memR nm mm -> pmget (n_pages nm) (N.shiftr a PAGE_BITS) = Some p ->
  pg_vs p <= N.land a PAGE_MASK < pg_ve p -> valid sg a = true.
Proof using All.
  intros [R _] Hp Hr. destruct (R_sound _ _ R _ _ Hp) as [_ Hs]. specialize (Hs _ Hr).
  destruct (page_split a) as [Ea _]. now rewrite <- Ea in Hs.
Qed.

Lemma paged_read_flip_spec nm mm ip0 nm' r : fc = None -> memR nm mm -> ip0 < W -> ip0 + dw <= M64 ->
  paged_read_flip nm ip0 = (nm', r) ->
  match get_word ww sg mm ip0 with
  | inr f => exists l, r = Some l /\ l_f l = f /\ memR nm' mm /\ lane_ok ip0 l nm'
  | inl a => r = None /\ errR nm' mm a
  end.
Proof using All.
  intros Efc MR Hip Htop H. pose proof W_le_M64 as HW. pose proof w_bounds as Hw. pose proof W_ge_256 as HW2.
  pose proof (eq_refl : M64 = 18446744073709551616) as HM64. destruct small_consts as (Edw & _).
  destruct (consts _ _ (proj1 MR)) as (_ & _ & _ & Cbm & Cw & Cww).
  unfold paged_read_flip in H. rewrite Cbm, Cww in H.
  destruct (N.land ip0 (w - 1) =? 0) eqn:Eo; cbn [negb] in H.
  2:{ destruct (mem_get_word_unaligned nm ip0) as [m1 r1] eqn:Eg.
      destruct (get_word_spec nm mm ip0 m1 r1 MR ltac:(lia) ltac:(lia) ltac:(intros; lia) Eg) as [S _].
      destruct (get_word ww sg mm ip0) as [a|f]; destruct S as [-> S]; injection H as <- <-; [auto|].
      eexists. split; [reflexivity|]. split; [reflexivity|]. split; [assumption|apply slow_lane_ok]. }
  apply N.eqb_eq in Eo. rewrite (aligned_get_word mm ip0 Eo).
  set (wa := N.shiftr ip0 ww) in *. pose proof (wa_mul_le ip0) as Hwa. fold wa in Hwa.
  assert (SLOW : forall m1, memR m1 mm ->
     match mem_read_word m1 wa with (m2, None) => (m2, None) | (m2, Some v) => (m2, Some (slow_lane v)) end = (nm', r) ->
     match match rdw sg mm wa with Some v => inr v | None => inl (N.shiftl wa ww) end with
     | inr f => exists l, r = Some l /\ l_f l = f /\ memR nm' mm /\ lane_ok ip0 l nm'
     | inl a => r = None /\ errR nm' mm a
     end).
  { intros m1 MR1 H1. destruct (mem_read_word m1 wa) as [m2 r2] eqn:Er.
    destruct (read_word_spec m1 mm wa m2 r2 MR1 ltac:(lia) Er) as [S _].
    destruct (rdw sg mm wa); destruct S as [-> S]; injection H1 as <- <-; [|auto].
    eexists. split; [reflexivity|]. split; [reflexivity|]. split; [assumption|apply slow_lane_ok]. }
  destruct (N.land wa PAGE_MASK =? PAGE_MASK) eqn:Est; [now apply (SLOW nm)|].
  apply N.eqb_neq in Est. set (idx := N.shiftr wa PAGE_BITS) in *.
  pose proof (page_idx_small wa ltac:(lia)) as Hidx. fold idx in Hidx.
  assert (Hk : add64 idx 1 = idx + 1) by (apply add64_small; unfold PAGE_WORDS in *; lia).
  rewrite Hk in H.
  set (m1 := if negb (idx + 1 =? cs_key (cache_get nm (N.land idx 15))) then fst (mem_get_page nm idx) else nm) in *.
  assert (M1 : memR m1 mm /\ cs_key (cache_get m1 (N.land idx 15)) = idx + 1).
  { unfold m1. destruct (idx + 1 =? cs_key (cache_get nm (N.land idx 15))) eqn:Ek; cbn [negb].
    - apply N.eqb_eq in Ek. auto.
    - destruct (mem_get_page nm idx) as [m1' pid] eqn:Eg. cbn [fst].
      destruct (get_page_spec nm mm idx m1' pid MR Hidx Eg) as (_ & MR1 & _ & _ & Hkey). auto. }
  destruct M1 as [MR1 Hkey]. clearbody m1.
  destruct (cache_hit m1 mm idx MR1 ltac:(unfold PAGE_WORDS in *; lia) Hkey) as (Epg & p & Hp & Hvs & Hve).
  cbn zeta in *. set (c := cache_get m1 (N.land idx 15)) in *.
  destruct ((N.land wa PAGE_MASK <? cs_vs c) || (cs_ve c <=? N.land wa PAGE_MASK)) eqn:Er; [now apply (SLOW m1)|].
  apply orb_false_iff in Er. destruct Er as [E1 E2]. apply N.ltb_ge in E1. apply N.leb_gt in E2.
  injection H as <- <-.
  assert (Hv : valid sg wa = true) by (eapply (in_range_valid m1 mm wa p); [assumption|exact Hp|lia]).
  unfold rdw. rewrite Hv. eexists. split; [reflexivity|]. cbn [l_f].
  split; [|split; [assumption|]].
  - rewrite Epg. rewrite pg_rd_pgs. apply (R_pages _ _ (proj1 MR1)); [assumption|]. unfold NativeMemProps.inflat. now rewrite Efc.
  - split; cbn [l_fj l_words l_off l_vend]; [exact I|]. rewrite Epg.
    destruct (page_split wa) as [_ Hlt]. unfold PAGE_WORDS, PAGE_MASK in *.
    repeat split; try reflexivity; try assumption; try lia. exists p. split; [assumption|]. split; [assumption|lia].
Qed.

Lemma ring_flat_read_flip_spec nm mm fa ip0 nm' r : n_flat nm = Some fa -> memR nm mm -> ip0 < W -> ip0 + dw <= M64 ->
  ring_flat_read_flip nm ip0 = (nm', r) ->
  match get_word ww sg mm ip0 with
  | inr f => exists l, r = Some l /\ l_f l = f /\ memR nm' mm /\ lane_ok ip0 l nm'
  | inl a => r = None /\ errR nm' mm a
  end.
Proof using All.
  intros Efa MR Hip Htop H. pose proof W_le_M64 as HW. pose proof w_bounds as Hw. pose proof W_ge_256 as HW2.
  pose proof (eq_refl : M64 = 18446744073709551616) as HM64. destruct small_consts as (Edw & _).
  destruct (consts _ _ (proj1 MR)) as (_ & _ & _ & Cbm & Cw & Cww).
  unfold ring_flat_read_flip in H. rewrite Cbm, Cww in H.
  destruct (N.land ip0 (w - 1) =? 0) eqn:Eo; cbn [negb] in H.
  2:{ destruct (mem_get_word_unaligned nm ip0) as [m1 r1] eqn:Eg.
      destruct (get_word_spec nm mm ip0 m1 r1 MR ltac:(lia) ltac:(lia) ltac:(intros; lia) Eg) as [S _].
      destruct (get_word ww sg mm ip0) as [a|f]; destruct S as [-> S]; injection H as <- <-; [auto|].
      eexists. split; [reflexivity|]. split; [reflexivity|]. split; [assumption|apply slow_lane_ok]. }
  apply N.eqb_eq in Eo. rewrite (aligned_get_word mm ip0 Eo).
  set (wa := N.shiftr ip0 ww) in *. pose proof (wa_mul_le ip0) as Hwa. fold wa in Hwa.
  pose proof (wa_plus1_small ip0 ltac:(lia)) as Hw1. fold wa in Hw1. rewrite add64_small in H by lia.
  destruct (N.leb_spec (n_flat_count nm) (wa + 1)) as [Hc|Hc].
  - destruct (mem_read_word nm wa) as [m2 r2] eqn:Er.
    destruct (read_word_spec nm mm wa m2 r2 MR ltac:(lia) Er) as [S _].
    destruct (rdw sg mm wa); destruct S as [-> S]; injection H as <- <-; [|auto].
    eexists. split; [reflexivity|]. split; [reflexivity|]. split; [assumption|apply slow_lane_ok].
  - destruct (flat_fetch nm wa) as [m2 r2] eqn:Er.
    destruct (flat_fetch_spec nm mm fa wa m2 r2 MR Efa ltac:(lia) Er) as [S _].
    destruct (rdw sg mm wa); destruct S as [-> S]; injection H as <- <-; [|auto]. subst m2.
    eexists. split; [reflexivity|]. split; [reflexivity|]. split; [assumption|].
    split; cbn [l_fj l_words]; [|exact I]. split; [assumption|]. split; [reflexivity|].
    rewrite (NativeMemProps.inflat_count ww Hww sg Hload fc nm mm fa _ (proj1 MR) Efa). now apply N.ltb_lt.
Qed.

Lemma paged_do_flip_ok with_ring : (with_ring = false -> fc = None) -> flip_ok ww sg fc (paged_do_flip with_ring).
Proof using All.
  intros Hfc nm mm f nm' ok MRn Hf H. pose proof W_le_M64 as HW. pose proof w_bounds as Hw.
  pose proof (eq_refl : M64 = 18446744073709551616) as HM64.
  unfold paged_do_flip in H. destruct with_ring; [apply (flip_bit_spec nm mm f nm' ok MRn ltac:(lia) H)|].
  specialize (Hfc eq_refl). destruct (consts _ _ (proj1 MRn)) as (_ & _ & _ & Cbm & Cw & Cww). rewrite Cbm, Cww in H.
  set (fwa := N.shiftr f ww) in *. pose proof (wa_mul_le f) as Hwa. fold fwa in Hwa.
  set (idx := N.shiftr fwa PAGE_BITS) in *.
  pose proof (page_idx_small fwa ltac:(lia)) as Hidx. fold idx in Hidx.
  assert (Hk : add64 idx 1 = idx + 1) by (apply add64_small; unfold PAGE_WORDS in *; lia).
  rewrite Hk in H.
  destruct (idx + 1 =? cs_key (cache_get nm (N.land idx 15))) eqn:Ek; cbn [negb] in H;
    [|apply (flip_bit_spec nm mm f nm' ok MRn ltac:(lia) H)].
  apply N.eqb_eq in Ek. symmetry in Ek.
  destruct (cache_hit nm mm idx MRn ltac:(unfold PAGE_WORDS in *; lia) Ek) as (Epg & p & Hp & Hvs & Hve).
  cbn zeta in *. set (c := cache_get nm (N.land idx 15)) in *.
  destruct ((N.land fwa PAGE_MASK <? cs_vs c) || (cs_ve c <=? N.land fwa PAGE_MASK)) eqn:Er;
    [apply (flip_bit_spec nm mm f nm' ok MRn ltac:(lia) H)|].
  apply orb_false_iff in Er. destruct Er as [E1 E2]. apply N.ltb_ge in E1. apply N.leb_gt in E2.
  assert (Hv : valid sg fwa = true) by (eapply (in_range_valid nm mm fwa p); [assumption|exact Hp|lia]).
  assert (Hnf : inflat fwa = false) by (unfold NativeMemProps.inflat; now rewrite Hfc).
  injection H as <- <-. rewrite Epg. subst idx. split; [|apply pages_le_pg_wr].
  unfold rdw. rewrite Hv. split; [reflexivity|].
  rewrite pg_rd_pgs, (R_pages _ _ (proj1 MRn) fwa Hv Hnf). fold (flip_bit ww (mget0 mm fwa) f).
  split.
  - apply (coreR_pg_wr nm mm fwa _ p (proj1 MRn) Hv Hnf); [|exact Hp].
    unfold flip_bit. apply lxor_bit_lt; [apply (R_words _ _ (proj1 MRn))|apply off_lt_w].
  - unfold pg_wr. rewrite Hp. cbn. exact (proj2 MRn).
Qed.

Lemma paged_read_jump_spec with_ring ip0 l m1 nm mm' nm' r : ip0 < W -> ip0 + dw <= M64 ->
  lane_ok ip0 l m1 -> pages_le m1 nm -> memR nm mm' -> paged_read_jump with_ring nm ip0 l = (nm', r) ->
  match get_word ww sg mm' (ip0 + w) with
  | inr v => r = Some v /\ memR nm' mm'
  | inl a => r = None /\ errR nm' mm' a
  end.
Proof using All.
  intros Hip Htop [Lfj Lw] Hle MRn H. pose proof W_le_M64 as HW. pose proof w_bounds as Hw. pose proof W_ge_256 as HW2.
  pose proof (eq_refl : M64 = 18446744073709551616) as HM64. destruct small_consts as (Edw & _).
  destruct (consts _ _ (proj1 MRn)) as (_ & _ & _ & Cbm & Cw & Cww).
  set (wa := N.shiftr ip0 ww) in *. pose proof (wa_mul_le ip0) as Hwa. fold wa in Hwa.
  pose proof (wa_plus1_small ip0 ltac:(lia)) as Hw1. fold wa in Hw1.
  (* the aligned slow read of word wa + 1 *)
  assert (SLOW : N.land ip0 (w - 1) = 0 -> mem_read_word nm (add64 wa 1) = (nm', r) ->
     match get_word ww sg mm' (ip0 + w) with
     | inr v => r = Some v /\ memR nm' mm'
     | inl a => r = None /\ errR nm' mm' a
     end).
  { intros Eo Hr. destruct (aligned_next ip0 Eo) as [En1 En2]. fold wa in En1.
    rewrite (aligned_get_word mm' (ip0 + w) En2), En1. rewrite add64_small in Hr by lia.
    destruct (read_word_spec nm mm' (wa + 1) nm' r MRn ltac:(lia) Hr) as [S _].
    destruct (rdw sg mm' (wa + 1)); destruct S; auto. }
  assert (UNAL : N.land ip0 (w - 1) <> 0 -> mem_get_word_unaligned nm (add64 ip0 (n_w nm)) = (nm', r) ->
     match get_word ww sg mm' (ip0 + w) with
     | inr v => r = Some v /\ memR nm' mm'
     | inl a => r = None /\ errR nm' mm' a
     end).
  { intros Eo Hr. rewrite Cw, add64_small in Hr by lia.
    destruct (get_word_spec nm mm' (ip0 + w) nm' r MRn ltac:(lia) ltac:(lia)
                (fun H => top_unaligned ip0 Htop H) Hr) as [S _]. exact S. }
  unfold paged_read_jump in H. rewrite Cbm, Cww in H. fold wa in H.
  destruct (if with_ring then l_fj l else None) as [i|] eqn:Efj.
  - (* ring + flat: the jump word through the flat array *)
    destruct with_ring; [|discriminate]. rewrite Efj in Lfj. destruct Lfj as (Eo & -> & Hin).
    destruct (aligned_next ip0 Eo) as [En1 En2]. fold wa in En1.
    rewrite (aligned_get_word mm' (ip0 + w) En2), En1.
    pose proof (R_shape _ _ (proj1 MRn)) as Sh. unfold NativeMemProps.inflat in Hin. rewrite <- Sh in Hin.
    unfold flat_shape in Hin. destruct (n_flat nm) as [fa|] eqn:Efa; [|discriminate]. apply N.ltb_lt in Hin.
    destruct (flat_fetch_spec nm mm' fa (wa + 1) nm' r MRn Efa ltac:(lia) H) as [S _].
    destruct (rdw sg mm' (wa + 1)); destruct S as [-> S]; [subst nm'|]; auto.
  - destruct (l_words l) as [pid|] eqn:Ew.
    + destruct Lw as (Efc & _ & Eo & -> & Eoff & Hoff & p & Hp & Evend & Hvs).
      destruct (Hle _ _ Hp) as (p' & Hp' & Evs' & Eve').
      rewrite (add64_small (l_off l) 1) in H by (unfold PAGE_WORDS in *; lia).
      destruct (N.leb_spec (l_vend l) (l_off l + 1)) as [Hc|Hc]; [now apply SLOW|].
      injection H as <- <-.
      destruct (aligned_next ip0 Eo) as [En1 En2]. fold wa in En1.
      rewrite (aligned_get_word mm' (ip0 + w) En2), En1.
      destruct (page_split wa) as [Ea _]. rewrite <- Eoff in Ea.
      destruct (page_of_sum (N.shiftr wa PAGE_BITS) (l_off l + 1) Hoff) as [Es El].
      replace (N.shiftr wa PAGE_BITS * PAGE_WORDS + (l_off l + 1)) with (wa + 1) in * by lia.
      assert (Hv : valid sg (wa + 1) = true).
      { eapply (in_range_valid nm mm' (wa + 1) p'); [assumption|now rewrite Es|]. rewrite El. lia. }
      unfold rdw. rewrite Hv. split; [|assumption]. f_equal. rewrite pg_rd_pgs.
      rewrite <- (R_pages _ _ (proj1 MRn) (wa + 1) Hv); [now rewrite Es, El|].
      unfold NativeMemProps.inflat. now rewrite Efc.
    + destruct (N.land ip0 (w - 1) =? 0) eqn:Eo; cbn [negb] in H.
      * apply N.eqb_eq in Eo. now apply SLOW.
      * apply N.eqb_neq in Eo. now apply UNAL.
Qed.

Definition lane_rd (g : nmem * option lane) : nmem * option (N * lane) :=
  match g with (m1, None) => (m1, None) | (m1, Some l) => (m1, Some (l_f l, l)) end.

Definition ring_write (with_ring : bool) (ring_len : N) (s0 : nst) : nst :=
  if with_ring
  then mknst (s_ip s0) (s_m s0) (s_inp s0) (s_out s0) (s_ops s0)
             (mset (s_ring s0) (s_rw s0 mod ring_len) (s_ip s0)) (add64 (s_rw s0) 1)
  else s0.

Lemma paged_step_eq with_ring k s0 :
  let ns := ring_write with_ring k s0 in
  paged_step with_ring k s0 =
  gen_step ns
    (lane_rd (if with_ring && (match n_flat (s_m ns) with Some _ => true | None => false end)
              then ring_flat_read_flip (s_m ns) (s_ip ns) else paged_read_flip (s_m ns) (s_ip ns)))
    (fun m1 f => do_output m1 (s_out ns) f) (fun m1 => input_hit m1 (s_ip ns))
    (paged_do_flip with_ring) (fun l m3 => paged_read_jump with_ring m3 (s_ip ns) l) (loop_tail ns).
Proof.
  cbn zeta. unfold paged_step, gen_step, lane_rd, ring_write.
  destruct with_ring; cbn [andb s_ip s_m s_inp s_out].
  - destruct (n_flat (s_m s0)).
    + destruct (ring_flat_read_flip (s_m s0) (s_ip s0)) as [m1 [l|]]; reflexivity.
    + destruct (paged_read_flip (s_m s0) (s_ip s0)) as [m1 [l|]]; reflexivity.
  - destruct (paged_read_flip (s_m s0) (s_ip s0)) as [m1 [l|]]; reflexivity.
Qed.

Lemma stR_ring_write with_ring k s s0 : stR s s0 -> stR s (ring_write with_ring k s0).
Proof. unfold ring_write. destruct with_ring; [|auto]. unfold NativeFlatProps.stR. cbn. auto. Qed.

(* the paged loop (with_ring = false: paged storage) and the last-ops clone (with_ring = true: any storage) *)
Theorem paged_sim with_ring k s s0 : (with_ring = false -> fc = None) ->
  stR s s0 -> ip s < W -> ip s + dw <= M64 -> nsim (step ww sg s) (paged_step with_ring k s0).
Proof using All.
  intros Hfc ST0 Hip Htop. pose proof (paged_step_eq with_ring k s0) as E. cbn zeta in E. rewrite E; clear E.
  pose proof (stR_ring_write with_ring k s s0 ST0) as ST. set (ns := ring_write with_ring k s0) in *.
  pose proof ST as (Eip & Einp & Eout & Eops & MR).
  apply gen_sim with (JX := lane_ok (ip s)); try assumption;
    [| now apply do_output_ok | now apply input_hit_ok | now apply paged_do_flip_ok | apply loop_tail_ok | ].
  - rewrite <- Eip.
    assert (RD : forall g, (forall nm' r, g = (nm', r) ->
        match get_word ww sg (m s) (ip s) with
        | inr f => exists l, r = Some l /\ l_f l = f /\ memR nm' (m s) /\ lane_ok (ip s) l nm'
        | inl a => r = None /\ errR nm' (m s) a
        end) ->
      match get_word ww sg (m s) (ip s) with
      | inr f => exists m1 x, lane_rd g = (m1, Some (f, x)) /\ memR m1 (m s) /\ lane_ok (ip s) x m1
      | inl a => exists m1, lane_rd g = (m1, None) /\ errR m1 (m s) a
      end).
    { intros [m1 r] Hg. specialize (Hg m1 r eq_refl). unfold lane_rd.
      destruct (get_word ww sg (m s) (ip s)) as [a|f].
      - destruct Hg as [-> Hg]. exists m1. auto.
      - destruct Hg as (l & -> & <- & MR1 & L). exists m1, l. auto. }
    apply RD. intros nm' r Hg.
    destruct (n_flat (s_m ns)) as [fa|] eqn:Efa.
    + destruct with_ring; cbn [andb] in Hg.
      * eapply ring_flat_read_flip_spec; eassumption.
      * eapply paged_read_flip_spec; try eassumption. now apply Hfc.
    + rewrite andb_false_r in Hg. eapply paged_read_flip_spec; try eassumption.
      pose proof (R_shape _ _ (proj1 MR)) as Sh. unfold flat_shape in Sh. now rewrite Efa in Sh.
  - intros x m1 nm mm' nm' r L Hle MRn Hrj. rewrite <- Eip in Hrj.
    eapply paged_read_jump_spec; eassumption.
Qed.


Theorem paged_run_correct with_ring k fuel s ns : (with_ring = false -> fc = None) ->
  stR s ns -> ip s < W -> top_guard fuel s ->
  NC (fst (run ww sg fuel s)) = fst (run_n (paged_step with_ring k) fuel ns) /\
  stR (snd (run ww sg fuel s)) (snd (run_n (paged_step with_ring k) fuel ns)).
Proof using All. intros Hfc. apply run_sim. intros; now apply paged_sim. Qed.

End W.

(* ---- the last-ops ring ------------------------------------------------------------------------------------- *)
Lemma mod_shift_ne a d k : 0 < d < k -> (a + d) mod k <> a mod k.
Proof.
  intros H. rewrite N.add_mod by lia. rewrite (N.mod_small d k) by lia.
  assert (Hr : a mod k < k) by (apply N.mod_lt; lia). remember (a mod k) as r. clear Heqr.
  destruct (N.lt_ge_cases (r + d) k).
  - rewrite N.mod_small by lia. lia.
  - replace (r + d) with ((r + d - k) + 1 * k) by lia. rewrite N.mod_add by lia. rewrite N.mod_small by lia. lia.
Qed.

Lemma firstn_S_nth (h : list N) n : (n < length h)%nat -> firstn (S n) h = firstn n h ++ [nth n h 0].
Proof.
  revert n. induction h as [|x r IH]; intros n Hn; [cbn in Hn; lia|].
  destruct n as [|n]; [reflexivity|]. cbn [firstn nth app]. f_equal. apply IH. cbn in Hn. lia.
Qed.

(* ring slot (len - 1 - i) mod k holds the i-th most recent started op, for the min(k, len) most recent ones *)
Definition ringR (k : N) (h : list N) (ring : mem) (rw : N) : Prop :=
  rw = N.of_nat (length h) /\
  forall i, (i < length h)%nat -> N.of_nat i < k ->
    mget0 ring ((N.of_nat (length h) - 1 - N.of_nat i) mod k) = nth i h 0.

Lemma ringR_init k : ringR k [] (PositiveMap.empty N) 0.
Proof. split; [reflexivity|]. intros i Hi. cbn in Hi. lia. Qed.

Lemma ringR_push k h ring rw a : 0 < k -> rw + 1 < M64 -> ringR k h ring rw ->
  ringR k (a :: h) (mset ring (rw mod k) a) (add64 rw 1).
Proof.
  intros Hk Hrw [-> Hall]. split.
  - rewrite add64_small by assumption. cbn [length]. lia.
  - intros i Hi Hik. cbn [length] in *. destruct i as [|i]; cbn [nth].
    + replace (N.of_nat (S (length h)) - 1 - N.of_nat 0) with (N.of_nat (length h)) by lia. apply mget0_mset_same.
    + replace (N.of_nat (S (length h)) - 1 - N.of_nat (S i)) with (N.of_nat (length h) - 1 - N.of_nat i) by lia.
      rewrite mget0_mset_other; [apply Hall; lia|].
      replace (N.of_nat (length h)) with ((N.of_nat (length h) - 1 - N.of_nat i) + (N.of_nat i + 1)) at 1 by lia.
      apply mod_shift_ne. lia.
Qed.

Lemma ring_emit_spec k h ring rw : 0 < k -> k + k <= M64 -> rw < M64 -> ringR k h ring rw ->
  let total := if rw <? k then rw else k in
  let start := sub64 (add64 (rw mod k) k) total mod k in
  forall n i, N.of_nat n + i = total -> ring_emit ring k start n i = rev (firstn n h).
Proof.
  intros Hk Hk2 Hrw [-> Hall]. cbn zeta.
  set (len := N.of_nat (length h)) in *.
  set (total := if len <? k then len else k).
  assert (Ht : total <= len /\ total <= k) by (unfold total; destruct (N.ltb_spec len k); lia).
  assert (Hrp : len mod k < k) by (apply N.mod_lt; lia).
  pose proof (eq_refl : M64 = 18446744073709551616) as HM64.
  rewrite add64_small by lia. rewrite sub64_le by lia.
  set (start := (len mod k + k - total) mod k).
  assert (Hst : start < k) by (apply N.mod_lt; lia).
  induction n as [|n IH]; intros i Hi; [reflexivity|].
  cbn [ring_emit]. rewrite (IH (i + 1)) by lia.
  assert (Hn : (n < length h)%nat) by lia.
  rewrite (firstn_S_nth h n Hn), rev_app_distr. cbn [rev app]. f_equal.
  rewrite add64_small by lia.
  rewrite <- (Hall n Hn ltac:(lia)). f_equal.
  unfold start. rewrite N.add_mod_idemp_l by lia.
  replace (len mod k + k - total + i) with (len mod k + (k - total + i)) by lia.
  rewrite N.add_mod_idemp_l by lia.
  replace (len + (k - total + i)) with ((len - 1 - N.of_nat n) + 1 * k) by lia.
  apply N.mod_add. lia.
Qed.

Lemma firstn_min (h : list N) n : firstn n h = firstn (Nat.min n (length h)) h.
Proof.
  destruct (Nat.le_ge_cases n (length h)) as [H|H].
  - now rewrite Nat.min_l.
  - rewrite Nat.min_r by assumption. rewrite !firstn_all2; auto.
Qed.

(* build_run_result emits exactly the last k started op addresses, oldest first *)
Theorem ring_readout_spec k h ring rw : 0 < k -> k + k <= M64 -> rw < M64 -> ringR k h ring rw ->
  ring_readout ring k rw = rev (firstn (N.to_nat k) h).
Proof.
  intros Hk Hk2 Hrw R. unfold ring_readout.
  pose proof (ring_emit_spec k h ring rw Hk Hk2 Hrw R) as E. cbn zeta in E.
  rewrite (E (N.to_nat (if rw <? k then rw else k)) 0) by lia.
  destruct R as [-> _]. rewrite (firstn_min h (N.to_nat k)). f_equal. f_equal.
  destruct (N.ltb_spec (N.of_nat (length h)) k); lia.
Qed.

(* ---- the ring along a run of the last-ops clone --------------------------------------------------------- *)
Section Ring.
Variable ww : N.
Hypothesis Hww : 3 <= ww <= 6.
Variable sg : list (N * N).
Hypothesis Hload : loadable_segs ww sg = true.
Variable fc : option N.

Local Notation w := (MachineSpec.w ww).
Local Notation dw := (MachineSpec.dw ww).
Local Notation W := (2 ^ w).
Local Notation stR := (NativeFlatProps.stR ww sg fc).
Local Notation top_guard := (NativeFlatProps.top_guard ww sg).

Lemma gen_step_frame {X} ns (rd : nmem * option (N * X)) outf hit fl rj :
  match gen_step ns rd outf hit fl rj (loop_tail ns) with
  | inl ns' => s_ring ns' = s_ring ns /\ s_rw ns' = s_rw ns
  | inr (_, ns') => s_ring ns' = s_ring ns /\ s_rw ns' = s_rw ns
  end.
Proof.
  remember (gen_step ns rd outf hit fl rj (loop_tail ns)) as r eqn:Hr.
  unfold gen_step, do_input, memory_error_exit, loop_tail in Hr.
  destruct rd as [m1 [[f x]|]]; cbv beta in Hr;
  repeat match type of Hr with
  | context [match ?x with _ => _ end] => destruct x eqn:?
  | context [if ?x then _ else _] => destruct x eqn:?
  end; subst r; cbn; auto.
Qed.

Definition ring_rel (k : N) (a : st + (cause * st)) (b : nst + (ncause * nst)) : Prop :=
  match a, b with
  | inl s', inl ns' => stR s' ns' /\ ip s' < W /\ ringR k (hist s') (s_ring ns') (s_rw ns')
  | inr (c, s'), inr (NC c', ns') => c = c' /\ stR s' ns' /\ ringR k (hist s') (s_ring ns') (s_rw ns')
  | _, _ => False
  end.

Theorem ring_sim k s s0 : 0 < k -> stR s s0 -> ringR k (hist s) (s_ring s0) (s_rw s0) -> s_rw s0 + 1 < M64 ->
  ip s < W -> ip s + dw <= M64 ->
  ring_rel k (step ww sg s) (paged_step true k s0) /\
  match paged_step true k s0 with inl ns' => s_rw ns' = s_rw s0 + 1 | inr (_, ns') => s_rw ns' = s_rw s0 + 1 end.
Proof using All.
  intros Hk ST RR Hrw Hip Htop.
  pose proof (paged_sim ww Hww sg Hload fc true k s s0 ltac:(discriminate) ST Hip Htop) as SIM.
  pose proof (NativeFlatProps.step_hist_all ww Hww sg Hload fc s) as HH.
  pose proof (paged_step_eq true k s0) as E. cbn zeta in E.
  pose proof (gen_step_frame (ring_write true k s0)
                (lane_rd (if true && (match n_flat (s_m (ring_write true k s0)) with Some _ => true | None => false end)
                          then ring_flat_read_flip (s_m (ring_write true k s0)) (s_ip (ring_write true k s0))
                          else paged_read_flip (s_m (ring_write true k s0)) (s_ip (ring_write true k s0))))
                (fun m1 f => do_output m1 (s_out (ring_write true k s0)) f)
                (fun m1 => input_hit m1 (s_ip (ring_write true k s0)))
                (paged_do_flip true) (fun l m3 => paged_read_jump true m3 (s_ip (ring_write true k s0)) l)) as FR.
  rewrite <- E in FR. clear E.
  destruct ST as (Eip & _).
  pose proof (ringR_push k (hist s) (s_ring s0) (s_rw s0) (ip s) Hk Hrw RR) as RP.
  unfold ring_write in FR. cbn [s_ring s_rw] in FR. rewrite <- Eip in FR.
  unfold ring_rel, NativeFlatProps.nsim in *.
  destruct (step ww sg s) as [s'|[c s']], (paged_step true k s0) as [ns'|[[c'| |] ns']]; try contradiction.
  - destruct SIM as [S1 S2], FR as [F1 F2]. rewrite HH, F1, F2. rewrite add64_small in * by assumption. auto.
  - destruct SIM as [S1 S2], FR as [F1 F2]. rewrite HH, F1, F2. rewrite add64_small in * by assumption. auto.
Qed.

Theorem ring_run_correct k : 0 < k -> forall fuel s ns,
  stR s ns -> ringR k (hist s) (s_ring ns) (s_rw ns) -> s_rw ns + N.of_nat fuel < M64 -> ip s < W -> top_guard fuel s ->
  NC (fst (run ww sg fuel s)) = fst (run_n (paged_step true k) fuel ns) /\
  stR (snd (run ww sg fuel s)) (snd (run_n (paged_step true k) fuel ns)) /\
  ringR k (hist (snd (run ww sg fuel s))) (s_ring (snd (run_n (paged_step true k) fuel ns)))
        (s_rw (snd (run_n (paged_step true k) fuel ns))) /\
  s_rw (snd (run_n (paged_step true k) fuel ns)) <= s_rw ns + N.of_nat fuel.
Proof using All.
  intros Hk. induction fuel as [|f IH]; intros s ns ST RR Hrw Hip G; cbn [run run_n].
  - cbn [fst snd]. split; [reflexivity|]. split; [assumption|]. split; [assumption|]. lia.
  - pose proof (NativeFlatProps.guard_head ww Hww sg Hload fc f s G Hip) as Htop.
    destruct (ring_sim k s ns Hk ST RR ltac:(lia) Hip Htop) as [SIM RW].
    pose proof (NativeFlatProps.guard_step ww Hww sg Hload fc f s) as GS.
    unfold ring_rel in SIM.
    destruct (step ww sg s) as [s'|[c s']], (paged_step true k ns) as [ns'|[[c'| |] ns']]; try contradiction.
    + destruct SIM as (S1 & S2 & S3).
      destruct (IH s' ns' S1 S3 ltac:(lia) S2 (GS s' G eq_refl)) as (A & B & C & D).
      split; [assumption|]. split; [assumption|]. split; [assumption|]. lia.
    + destruct SIM as (-> & S1 & S2). cbn [fst snd]. split; [reflexivity|]. split; [assumption|]. split; [assumption|]. lia.
Qed.

(* what fjm_run receives as last-ops list from the native engine = the last k started ops of the machine run *)
Theorem ring_run_readout k fuel s ns : 0 < k -> k + k <= M64 ->
  stR s ns -> hist s = [] -> s_ring ns = PositiveMap.empty N -> s_rw ns = 0 -> N.of_nat fuel < M64 -> ip s < W ->
  top_guard fuel s ->
  let nr := snd (run_n (paged_step true k) fuel ns) in
  ring_readout (s_ring nr) k (s_rw nr) = rev (firstn (N.to_nat k) (hist (snd (run ww sg fuel s)))).
Proof using All.
  intros Hk Hk2 ST Eh Er Ew Hf Hip G. cbn zeta.
  destruct (ring_run_correct k Hk fuel s ns ST) as (_ & _ & RR & Hle); try assumption.
  - rewrite Eh, Er, Ew. apply ringR_init.
  - lia.
  - apply ring_readout_spec; try assumption. lia.
Qed.

End Ring.

(* ---- storage-layout independence (C07) ------------------------------------------------------------------- *)
Section Layout.
Variable ww : N.
Hypothesis Hww : 3 <= ww <= 6.
Variable sg : list (N * N).
Hypothesis Hload : loadable_segs ww sg = true.

Local Notation W := (2 ^ MachineSpec.w ww).

(* a native loop over a storage layout fc (None = paged, Some c = flat window of c words) refines the machine *)
Definition loop_ok (fc : option N) (stepf : nst -> nst + (ncause * nst)) : Prop :=
  forall fuel s ns, NativeFlatProps.stR ww sg fc s ns -> ip s < W -> NativeFlatProps.top_guard ww sg fuel s ->
    NC (fst (run ww sg fuel s)) = fst (run_n stepf fuel ns) /\
    NativeFlatProps.stR ww sg fc (snd (run ww sg fuel s)) (snd (run_n stepf fuel ns)).

Lemma flat_loop_ok c : loop_ok (Some c) flat_step.
Proof using All. intros fuel s ns. now apply (flat_run_correct ww Hww sg Hload (Some c) c). Qed.

Lemma measured_loop_ok fc : loop_ok fc measured_step.
Proof using All. intros fuel s ns. apply measured_run_correct; assumption. Qed.

Lemma paged_loop_ok : loop_ok None (paged_step false 0).
Proof using All. intros fuel s ns. apply paged_run_correct; auto. Qed.

Lemma ring_loop_ok fc k : loop_ok fc (paged_step true k).
Proof using All. intros fuel s ns. apply paged_run_correct; auto. discriminate. Qed.

Theorem layout_independent fc1 fc2 f1 f2 fuel s ns1 ns2 : loop_ok fc1 f1 -> loop_ok fc2 f2 ->
  NativeFlatProps.stR ww sg fc1 s ns1 -> NativeFlatProps.stR ww sg fc2 s ns2 -> ip s < W ->
  NativeFlatProps.top_guard ww sg fuel s ->
  let r1 := run_n f1 fuel ns1 in let r2 := run_n f2 fuel ns2 in
  fst r1 = fst r2 /\ s_out (snd r1) = s_out (snd r2) /\ s_ops (snd r1) = s_ops (snd r2) /\
  s_inp (snd r1) = s_inp (snd r2) /\
  exists mm, NativeMemProps.memR ww sg fc1 (s_m (snd r1)) mm /\ NativeMemProps.memR ww sg fc2 (s_m (snd r2)) mm.
Proof.
  intros L1 L2 S1 S2 Hip G. cbn zeta.
  destruct (L1 fuel s ns1 S1 Hip G) as [C1 (_ & I1 & O1 & P1 & M1)].
  destruct (L2 fuel s ns2 S2 Hip G) as [C2 (_ & I2 & O2 & P2 & M2)].
  repeat split; try congruence. exists (m (snd (run ww sg fuel s))). auto.
Qed.

End Layout.

(* ---- mem_decide_storage ------------------------------------------------------------------------------------ *)
(* the flat window: the largest min(end, limit) over the segments that start below the limit *)
Definition window (limit : N) (L : list (N * N)) : N :=
  fold_left (fun acc s => if fst s <? limit then N.max acc (N.min (snd s) limit) else acc) L 0.

Lemma ds_scan_fold limit L : forall acc,
  fold_left (ds_scan limit) L acc =
  (fold_left (fun mx s => N.max mx (snd s)) L (fst acc),
   fold_left (fun a s => if fst s <? limit then N.max a (N.min (snd s) limit) else a) L (snd acc)).
Proof.
  induction L as [|[s e] r IH]; intros [mx lo]; [reflexivity|]. cbn [fold_left]. rewrite IH. unfold ds_scan. cbn [fst snd].
  f_equal; f_equal.
  - destruct (N.ltb_spec mx e); lia.
  - destruct (s <? limit); [|reflexivity]. destruct (N.ltb_spec e limit).
    + rewrite N.min_l by lia. destruct (N.ltb_spec lo e); lia.
    + rewrite N.min_r by lia. destruct (N.ltb_spec lo limit); lia.
Qed.

Lemma window_le limit L bound : (forall s, In s L -> snd s <= bound) -> forall acc, acc <= bound ->
  fold_left (fun a s => if fst s <? limit then N.max a (N.min (snd s) limit) else a) L acc <= bound.
Proof.
  induction L as [|s r IH]; intros Hb acc Ha; [exact Ha|]. cbn [fold_left]. apply IH.
  - intros t Ht. apply Hb. now right.
  - pose proof (Hb s (or_introl eq_refl)). destruct (fst s <? limit); lia.
Qed.

Lemma memset_fold lme L : forall b a, a < lme ->
  fold_left (ds_memset lme) L b a = if seg_has L a then 0 else b a.
Proof.
  induction L as [|[s e] r IH]; intros b a Ha; [reflexivity|]. cbn [fold_left]. rewrite IH by assumption.
  unfold seg_has. cbn [existsb fst snd]. fold (seg_has r a). destruct (seg_has r a); [now rewrite orb_true_r|].
  rewrite orb_false_r. unfold ds_memset.
  destruct (N.ltb_spec e lme).
  - destruct (N.ltb_spec s e); [reflexivity|].
    destruct (N.leb_spec s a), (N.ltb_spec a e); cbn [andb]; try reflexivity; lia.
  - destruct (N.ltb_spec s lme).
    + destruct (N.leb_spec s a), (N.ltb_spec a e), (N.ltb_spec a lme); cbn [andb]; try reflexivity; lia.
    + destruct (N.leb_spec s a), (N.ltb_spec a e); cbn [andb]; try reflexivity; lia.
Qed.

Lemma memcpy_fold lme ps words L : forall b a, a < lme -> a < M64 ->
  fold_left (ds_memcpy lme ps (ps + PAGE_WORDS) words) L b a =
  if seg_has L a && ((ps <=? a) && (a <? ps + PAGE_WORDS)) then mget0 words (a - ps) else b a.
Proof.
  induction L as [|[s e] r IH]; intros b a Ha Ha64; [reflexivity|]. cbn [fold_left]. rewrite IH by assumption.
  unfold seg_has. cbn [existsb fst snd]. fold (seg_has r a).
  destruct (seg_has r a && ((ps <=? a) && (a <? ps + PAGE_WORDS))) eqn:E1.
  - apply andb_true_iff in E1. destruct E1 as [-> ->]. now rewrite orb_true_r.
  - unfold ds_memcpy.
    set (lo := if ps <? s then s else ps).
    set (hi0 := if e <? ps + PAGE_WORDS then e else ps + PAGE_WORDS).
    set (hi := if lme <? hi0 then lme else hi0).
    assert (Hin : ((lo <=? a) && (a <? hi)) = ((s <=? a) && (a <? e)) && ((ps <=? a) && (a <? ps + PAGE_WORDS))).
    { unfold lo, hi, hi0.
      destruct (N.ltb_spec ps s), (N.ltb_spec e (ps + PAGE_WORDS));
      match goal with |- context [lme <? ?x] => destruct (N.ltb_spec lme x) end;
      destruct (N.leb_spec s a), (N.ltb_spec a e), (N.leb_spec ps a), (N.ltb_spec a (ps + PAGE_WORDS));
      cbn [andb]; try reflexivity;
      repeat match goal with |- context [?x <=? ?y] => destruct (N.leb_spec x y) | |- context [?x <? ?y] => destruct (N.ltb_spec x y) end;
      cbn [andb]; try reflexivity; lia. }
    destruct (seg_has r a) eqn:Er.
    + rewrite orb_true_r. cbn [andb] in E1 |- *. rewrite E1.
      destruct (lo <? hi); [|reflexivity]. rewrite Hin, E1, andb_false_r. reflexivity.
    + rewrite orb_false_r. clear E1.
      destruct (N.ltb_spec lo hi) as [Hlh|Hlh].
      * rewrite Hin. destruct ((s <=? a) && (a <? e) && ((ps <=? a) && (a <? ps + PAGE_WORDS))) eqn:E2; [|reflexivity].
        apply andb_true_iff in E2. destruct E2 as [_ E2]. apply andb_true_iff in E2. destruct E2 as [E2 _]. apply N.leb_le in E2.
        now rewrite sub64_le.
      * destruct ((s <=? a) && (a <? e) && ((ps <=? a) && (a <? ps + PAGE_WORDS))) eqn:E2; [|reflexivity].
        apply andb_true_iff in Hin. destruct Hin as [E3 E4]. apply N.leb_le in E3. apply N.ltb_lt in E4. lia.
Qed.

Lemma in_page_iff a idx : idx * PAGE_WORDS + PAGE_WORDS < M64 ->
  ((idx * PAGE_WORDS <=? a) && (a <? idx * PAGE_WORDS + PAGE_WORDS)) = (idx =? N.shiftr a PAGE_BITS).
Proof.
  intros Hi. destruct (page_split a) as [Ea Hlt].
  destruct (N.eqb_spec idx (N.shiftr a PAGE_BITS)) as [->|Hn].
  - apply andb_true_iff. split; [apply N.leb_le|apply N.ltb_lt]; lia.
  - apply andb_false_iff.
    destruct (N.lt_ge_cases a (idx * PAGE_WORDS)); [left; now apply N.leb_gt|].
    destruct (N.lt_ge_cases a (idx * PAGE_WORDS + PAGE_WORDS)); [|right; now apply N.ltb_ge].
    exfalso. apply Hn. destruct (page_of_sum idx (a - idx * PAGE_WORDS) ltac:(lia)) as [E _].
    replace (idx * PAGE_WORDS + (a - idx * PAGE_WORDS)) with a in E by lia. now symmetry.
Qed.

Lemma copy_fold lme L (pages : PositiveMap.t page) E :
  (forall kp, In kp E -> pmget pages (Pos.pred_N (fst kp)) = Some (snd kp) /\
                         Pos.pred_N (fst kp) * PAGE_WORDS + PAGE_WORDS < M64) ->
  forall b a, a < lme -> a < M64 ->
  fold_left (ds_copy_page lme L) E b a =
  if seg_has L a && existsb (fun kp => Pos.pred_N (fst kp) =? N.shiftr a PAGE_BITS) E
  then pgs_rd pages (N.shiftr a PAGE_BITS) (N.land a PAGE_MASK) else b a.
Proof.
  induction E as [|kp r IH]; intros HE b a Ha Ha64; [now rewrite andb_false_r|].
  cbn [fold_left existsb]. rewrite IH by (try assumption; intros x Hx; apply HE; now right).
  destruct (HE kp (or_introl eq_refl)) as [Hp Hidx]. set (idx := Pos.pred_N (fst kp)) in *.
  destruct (seg_has L a && existsb (fun kp0 => Pos.pred_N (fst kp0) =? N.shiftr a PAGE_BITS) r) eqn:E1.
  - apply andb_true_iff in E1. destruct E1 as [-> ->]. now rewrite orb_true_r.
  - unfold ds_copy_page. fold idx.
    assert (Hps : shl64 idx PAGE_BITS = idx * PAGE_WORDS).
    { rewrite shl64_small; unfold PAGE_BITS, PAGE_WORDS in *; [now rewrite N.shiftl_mul_pow2|change (2 ^ 14) with 16384; lia]. }
    rewrite Hps, add64_small by assumption. rewrite memcpy_fold by assumption. rewrite in_page_iff by assumption.
    destruct (seg_has L a); cbn [andb] in *; [|reflexivity]. rewrite E1, orb_false_r.
    destruct (N.eqb_spec idx (N.shiftr a PAGE_BITS)) as [Ei|Hn]; [|reflexivity].
    unfold pgs_rd. rewrite <- Ei, Hp. f_equal. destruct (page_split a) as [Ea _]. rewrite <- Ei in Ea. lia.
Qed.

Lemma key_pred k : key (Pos.pred_N k) = k.
Proof. unfold key. destruct k; cbn; [reflexivity|apply Pos.succ_pred_double|reflexivity]. Qed.

Section Decide.
Variable ww : N.
Hypothesis Hww : 3 <= ww <= 6.
Variable sg : list (N * N).
Hypothesis Hload : loadable_segs ww sg = true.

Local Notation memR := (NativeMemProps.memR ww sg).
Local Notation coreR := (NativeMemProps.coreR ww sg).

Lemma segs_has nm mm fc a : coreR fc nm mm -> seg_has (n_segs nm) a = valid sg a.
Proof using All. intros R. apply (contains_valid ww Hww sg Hload fc nm a (R_segs _ _ _ _ _ R)). Qed.

Lemma segs_bound nm mm fc s : coreR fc nm mm -> In s (n_segs nm) -> fst s < snd s /\ snd s <= wlim ww.
Proof using All.
  intros R Hs. destruct (R_segs _ _ _ _ _ R) as [[_ E]|[_ E]]; rewrite E in Hs.
  - now apply (base_bounds ww Hww sg Hload fc).
  - apply (base_bounds ww Hww sg Hload fc). now apply (proj1 (seg_sort_in s (base sg))).
Qed.

(* The storage decision keeps the image: from the loaded (paged, undecided) memory it builds either no flat array
   (forced paged) or a flat window of exactly `window limit segments` words that, together with the kept pages,
   represents the same machine memory. *)
Theorem decide_storage_ok nm mm no_flat env nm' : memR None nm mm -> n_decided nm = false ->
  mem_decide_storage nm no_flat env = DS_ok nm' ->
  exists fc', memR fc' nm' mm /\
    (fc' = None \/ (no_flat = false /\ fc' = Some (window (mem_flat_words_limit nm env) (n_segs nm)))).
Proof using All.
  intros [R Herr] Hd H. unfold mem_decide_storage in H. rewrite Hd in H.
  assert (R0 : coreR None (set_decided nm true) mm).
  { destruct R as [Rw Rww Rmask Rg Rsegs Rshape Rwords Rflat Rpages Rsound Rpidx Rcache]. constructor; unfold segsR, flat_shape in *; cbn; assumption. }
  assert (E0 : n_err (set_decided nm true) = false) by exact Herr.
  cbn [set_decided n_segs n_gstop n_w n_pages] in H.
  destruct (n_segs nm) as [|s0 L0] eqn:EL; [discriminate|]. rewrite <- EL in *.
  rewrite (R_gstop _ _ _ _ _ R) in H. cbn [negb] in H.
  destruct no_flat; [injection H as <-; exists None; split; [split; assumption|now left]|].
  change (mem_flat_words_limit (set_decided nm true) env) with (mem_flat_words_limit nm env) in H.
  set (limit := mem_flat_words_limit nm env) in *.
  rewrite ds_scan_fold in H. cbn [fst snd] in H. fold (window limit (n_segs nm)) in H.
  set (lme := window limit (n_segs nm)) in *.
  destruct (lme =? 0) eqn:Ez; [discriminate|].
  destruct (SIZE_MAX_DIV8 <? lme); [injection H as <-; exists None; split; [split; assumption|now left]|].
  injection H as <-. exists (Some lme). split; [|right; auto].
  assert (Hlme : lme <= wlim ww).
  { unfold lme, window. apply window_le; [|lia]. intros s Hs. now apply (segs_bound nm mm None s R). }
  pose proof (wlim_M64 ww Hww) as HL. pose proof (w_bounds ww Hww) as Hw.
  pose proof (eq_refl : M64 = 18446744073709551616) as HM64.
  split; [|exact Herr]. destruct R as [Rw Rww Rmask Rg Rsegs Rshape Rwords Rflat Rpages Rsound Rpidx Rcache].
  constructor; unfold segsR, flat_shape, set_flat_built in *; cbn [n_w n_ww n_mask n_gstop n_pages n_cache n_segs n_sorted n_flat n_flat_count set_decided]; try assumption; try reflexivity.
  - (* the flat window *)
    intros fa Efa. injection Efa as <-. split; [assumption|]. intros a Ha.
    unfold fa_get. cbn [fa_map fa_base]. rewrite mget_empty.
    assert (Ha64 : a < M64) by nia.
    rewrite (copy_fold lme (n_segs nm) (n_pages nm)); try assumption.
    2:{ intros [k p] Hk. cbn [fst snd]. apply PositiveMap.elements_complete in Hk.
        pose proof (key_pred k) as Ek.
        assert (Hp : pmget (n_pages nm) (Pos.pred_N k) = Some p) by (unfold pmget; now rewrite Ek).
        split; [assumption|]. eapply Rpidx; eassumption. }
    rewrite memset_fold by assumption.
    pose proof (segs_has (set_decided nm true) mm None a R0) as Esh. cbn [set_decided n_segs] in Esh. rewrite Esh.
    destruct (valid sg a) eqn:Ev; cbn [andb]; [|rewrite Rw; reflexivity].
    rewrite <- (Rpages a Ev eq_refl).
    destruct (existsb (fun kp => Pos.pred_N (fst kp) =? N.shiftr a PAGE_BITS) (PositiveMap.elements (n_pages nm))) eqn:Ee; [reflexivity|].
    unfold pgs_rd. destruct (pmget (n_pages nm) (N.shiftr a PAGE_BITS)) as [p|] eqn:Ep; [|reflexivity].
    exfalso. unfold pmget in Ep. apply PositiveMap.elements_correct in Ep.
    assert (existsb (fun kp => Pos.pred_N (fst kp) =? N.shiftr a PAGE_BITS) (PositiveMap.elements (n_pages nm)) = true).
    { apply existsb_exists. eexists. split; [exact Ep|]. cbn [fst]. unfold key. rewrite N.pos_pred_succ. apply N.eqb_refl. }
    congruence.
  - (* words above the window stay page-backed *)
    intros a Hv Hf. apply Rpages; [assumption|reflexivity].
Qed.

End Decide.

(* ---- Memory_run: storage decision + dispatch + loop + ring read-out ---------------------------------------- *)
Section MemoryRun.
Variable ww : N.
Hypothesis Hww : 3 <= ww <= 6.
Variable sg : list (N * N).
Hypothesis Hload : loadable_segs ww sg = true.

Local Notation memR := (NativeMemProps.memR ww sg).
Local Notation W := (2 ^ MachineSpec.w ww).

Lemma memR_clear fc nm mm : memR fc nm mm -> memR fc (clear_error nm) mm.
Proof using All.
  intros [R E]. split; [|reflexivity].
  destruct R as [Rw Rww Rmask Rg Rsegs Rshape Rwords Rflat Rpages Rsound Rpidx Rcache].
  constructor; unfold segsR, flat_shape in *; cbn; assumption.
Qed.

Lemma loop_step_ok k nm fc : NativeMemProps.flat_shape nm = fc -> loop_ok ww sg fc (loop_step k (dispatch k nm)).
Proof using All.
  intros Sh. unfold dispatch, loop_step.
  destruct (k_measure k && (k_last_ops k =? 0)); [apply measured_loop_ok; assumption|].
  unfold flat_shape in Sh. destruct (n_flat nm) as [fa|] eqn:Efa; cbn [andb].
  - destruct (k_last_ops k =? 0) eqn:Ek.
    + rewrite <- Sh. apply flat_loop_ok; assumption.
    + apply N.eqb_neq in Ek. destruct (N.ltb_spec 0 (k_last_ops k)); [apply ring_loop_ok; assumption|lia].
  - destruct (0 <? k_last_ops k); [apply ring_loop_ok; assumption|]. rewrite <- Sh. apply paged_loop_ok; assumption.
Qed.

(* Memory_run on a loaded image: whatever the knobs (flat window limit, forced paged, measurement loop, ring length),
   the result is the machine's: same cause incl. fault address, same output, op count mod 2^64, remaining input,
   a final memory that still represents the machine's final memory, and the ring read-out is the last k started ops *)
Theorem memory_run_correct k nm mm input fuel lk c ns last :
  memR None nm mm -> n_decided nm = false ->
  NativeFlatProps.top_guard ww sg fuel (init mm input) -> N.of_nat fuel < M64 -> k_last_ops k + k_last_ops k <= M64 ->
  Memory_run k nm input fuel = RunDone lk c ns last ->
  let r := run ww sg fuel (init mm input) in
  c = NC (fst r) /\ s_out ns = outp (snd r) /\ s_ops ns = u64 (ops (snd r)) /\ s_inp ns = inp (snd r) /\
  (exists fc', memR fc' (s_m ns) (m (snd r))) /\
  last = (if 0 <? k_last_ops k then rev (firstn (N.to_nat (k_last_ops k)) (hist (snd r))) else []).
Proof using All.
  intros MR Hd G Hf Hk H. cbn zeta. unfold Memory_run in H.
  destruct (mem_decide_storage nm (k_no_flat k) (k_env_limit k)) as [m1| |] eqn:Ed; try discriminate.
  destruct (decide_storage_ok ww Hww sg Hload nm mm _ _ m1 MR Hd Ed) as (fc' & MR1 & _).
  pose proof (memR_clear fc' m1 mm MR1) as MR2.
  set (s0 := mknst 0 (clear_error m1) input [] 0 (PositiveMap.empty N) 0) in *.
  assert (ST : NativeFlatProps.stR ww sg fc' (init mm input) s0).
  { unfold NativeFlatProps.stR, init, s0. cbn [ip inp outp ops m s_ip s_inp s_out s_ops s_m].
    split; [reflexivity|]. split; [reflexivity|]. split; [reflexivity|]. split; [reflexivity|exact MR2]. }
  assert (Hip : ip (init mm input) < W) by (cbn; apply N.neq_0_lt_0; now apply N.pow_nonzero).
  pose proof (loop_step_ok k m1 fc' (R_shape _ _ _ _ _ (proj1 MR1))) as LO.
  destruct (run_n (loop_step k (dispatch k m1)) fuel s0) as [c0 s1] eqn:Er.
  injection H as <- <- <- <-.
  destruct (LO fuel (init mm input) s0 ST Hip G) as [C (E1 & E2 & E3 & E4 & M)]. rewrite Er in *. cbn [fst snd] in *.
  split; [now symmetry|]. split; [now symmetry|]. split; [assumption|]. split; [now symmetry|]. split; [now exists fc'|].
  (* the ring *)
  unfold dispatch in *.
  destruct (k_measure k && (k_last_ops k =? 0)) eqn:Em.
  - apply andb_true_iff in Em. destruct Em as [_ Em]. apply N.eqb_eq in Em. rewrite Em. reflexivity.
  - destruct ((match n_flat m1 with Some _ => true | None => false end) && (k_last_ops k =? 0)) eqn:Ef.
    + apply andb_true_iff in Ef. destruct Ef as [_ Ef]. apply N.eqb_eq in Ef. rewrite Ef. reflexivity.
    + destruct (N.ltb_spec 0 (k_last_ops k)) as [Hpos|Hpos]; [|reflexivity].
      cbn [loop_step] in Er.
      pose proof (ring_run_readout ww Hww sg Hload fc' (k_last_ops k) fuel (init mm input) s0 Hpos Hk ST
                    eq_refl eq_refl eq_refl Hf Hip G) as RO. cbn zeta in RO. rewrite Er in RO. exact RO.
Qed.

End MemoryRun.

(* ---- loading: Memory(w), add_segment per segment, set_words per run (fjm_run._run_native) ------------------- *)
Section Load.
Variable ww : N.
Hypothesis Hww : 3 <= ww <= 6.
Variable sg : list (N * N).
Hypothesis Hload : loadable_segs ww sg = true.

Local Notation w := (MachineSpec.w ww).
Local Notation W := (2 ^ w).
Local Notation memR := (NativeMemProps.memR ww sg).
Local Notation coreR := (NativeMemProps.coreR ww sg).

Definition same_but_segs (a b : nmem) : Prop :=
  n_w b = n_w a /\ n_ww b = n_ww a /\ n_mask b = n_mask a /\ n_gstop b = n_gstop a /\ n_pages b = n_pages a /\
  n_cache b = n_cache a /\ n_flat b = n_flat a /\ n_flat_count b = n_flat_count a /\ n_decided b = n_decided a /\
  n_err b = n_err a.

Lemma add_segments_spec l : forall nm, n_pages nm = PositiveMap.empty page ->
  (forall s, In s l -> fst s + snd s < M64) ->
  exists nm', fold_left (fun om s => match om with Some m => Memory_add_segment m (fst s) (snd s) | None => None end)
                        l (Some nm) = Some nm' /\
    n_segs nm' = n_segs nm ++ map (fun s => (fst s, fst s + snd s)) l /\
    (l <> [] -> n_sorted nm' = false) /\ (l = [] -> n_sorted nm' = n_sorted nm) /\ same_but_segs nm nm'.
Proof.
  induction l as [|s r IH]; intros nm Hp Hb; cbn [fold_left].
  - exists nm. rewrite app_nil_r. unfold same_but_segs. repeat split; auto. congruence.
  - unfold Memory_add_segment at 2. pose proof (Hb s (or_introl eq_refl)) as Hs.
    rewrite (add64_small (fst s) (snd s)) by assumption.
    destruct (N.ltb_spec (fst s + snd s) (fst s)); [lia|].
    unfold recompute_validities. cbn [set_segs n_pages]. rewrite Hp. cbn [PositiveMap.elements PositiveMap.xelements PositiveMap.empty fold_left].
    change (PositiveMap.elements (PositiveMap.empty page)) with (@nil (positive * page)). cbn [fold_left].
    destruct (IH (set_segs nm (n_segs nm ++ [(fst s, fst s + snd s)]) false) Hp (fun t Ht => Hb t (or_intror Ht)))
      as (nm' & E & Es & Hs1 & Hs2 & S).
    exists nm'. split; [exact E|]. cbn [set_segs n_segs n_sorted] in *. split; [now rewrite Es, <- app_assoc|].
    split; [intros _; destruct r; [now apply Hs2|apply Hs1; discriminate]|]. split; [discriminate|].
    unfold same_but_segs in *. cbn in S. exact S.
Qed.

Definition init_nm (fmw : N) : nmem :=
  mknmem w ww (wmask ww) true (PositiveMap.empty page) (PositiveMap.empty cslot) [] true None 0 fmw false false false 0.

Lemma Memory_init_spec fmw : Memory_init w fmw = Some (init_nm fmw).
Proof using Hww. clear Hload sg.
  unfold init_nm. destruct (ww_cases ww Hww) as [E|[E|[E|E]]]; rewrite E; vm_compute; reflexivity.
Qed.

(* after the add_segment calls: no pages, the segment table in file order, nothing decided *)
Lemma segments_loaded nm : same_but_segs (init_nm (n_flat_max nm)) nm -> n_segs nm = base sg ->
  (sg <> [] -> n_sorted nm = false) -> (sg = [] -> n_sorted nm = true) ->
  memR None nm (PositiveMap.empty N).
Proof using All.
  intros (E1 & E2 & E3 & E4 & E5 & E6 & E7 & E8 & E9 & E10) Es H1 H2. cbn in *.
  split; [|assumption]. constructor; try assumption.
  - unfold segsR. destruct sg as [|s r] eqn:Esg.
    + right. split; [now apply H2|]. rewrite Es. reflexivity.
    + left. split; [apply H1; discriminate|]. now rewrite Es.
  - unfold flat_shape. now rewrite E7.
  - intros a. unfold mget0. rewrite mget_empty. apply N.neq_0_lt_0. now apply N.pow_nonzero.
  - intros fa Efa. rewrite E7 in Efa. discriminate.
  - intros a _ _. unfold pgs_rd. rewrite E5. unfold pmget. rewrite PositiveMap.gempty. unfold mget0. now rewrite mget_empty.
  - intros idx p Hp. rewrite E5 in Hp. unfold pmget in Hp. rewrite PositiveMap.gempty in Hp. discriminate.
  - intros idx p Hp. rewrite E5 in Hp. unfold pmget in Hp. rewrite PositiveMap.gempty in Hp. discriminate.
  - intros slot c Hc. rewrite E6 in Hc. unfold pmget in Hc. rewrite PositiveMap.gempty in Hc. discriminate.
Qed.

(* the abstract effect of set_words(start + i, values) *)
Fixpoint store_words (mm : mem) (a : N) (vals : list N) : mem :=
  match vals with [] => mm | v :: r => store_words (mset mm a (N.land v (wmask ww))) (a + 1) r end.

Lemma set_words_loop_spec vals : forall nm mm start i, memR None nm mm ->
  (start + i + N.of_nat (length vals)) * w <= M64 ->
  (forall j, (j < length vals)%nat -> valid sg (start + i + N.of_nat j) = true) ->
  memR None (set_words_loop nm start i vals) (store_words mm (start + i) vals) /\
  n_decided (set_words_loop nm start i vals) = n_decided nm.
Proof using All.
  induction vals as [|v r IH]; intros nm mm start i MR Hb Hv; cbn [set_words_loop store_words]; [auto|].
  pose proof MR as [R _]. pose proof (w_bounds ww Hww) as Hw. pose proof (eq_refl : M64 = 18446744073709551616) as HM64.
  cbn [length] in Hb.
  assert (Hsm : start + i < M64) by nia.
  rewrite (add64_small start i) by assumption. set (a := start + i) in *.
  assert (Hnf : n_flat nm = None).
  { pose proof (R_shape _ _ _ _ _ R) as S. unfold flat_shape in S. destruct (n_flat nm); [discriminate|reflexivity]. }
  rewrite Hnf.
  assert (Haw : a * w < M64) by nia.
  destruct (mem_get_page nm (N.shiftr a PAGE_BITS)) as [m1 pid] eqn:Eg.
  destruct (get_page_spec ww Hww sg Hload None nm mm _ m1 pid MR (page_idx_small ww Hww sg Hload None a Haw) Eg)
    as (-> & MR1 & (p & Hp) & _ & _).
  assert (Hva : valid sg a = true) by (specialize (Hv 0%nat ltac:(cbn; lia)); now rewrite N.add_0_r in Hv).
  assert (Hd1 : n_decided m1 = n_decided nm).
  { apply (f_equal fst) in Eg. cbn [fst] in Eg. rewrite <- Eg. unfold mem_get_page.
    destruct (add64 (N.shiftr a PAGE_BITS) 1 =? cs_key (cache_get nm (N.land (N.shiftr a PAGE_BITS) 15))); [reflexivity|].
    destruct (pmget (n_pages nm) (N.shiftr a PAGE_BITS)); [reflexivity|].
    unfold page_compute_validity, mem_ensure_segments_sorted.
    destruct (n_sorted nm); cbn [set_segs n_segs]; match goal with |- context [pcv_scan ?a ?b ?c] => destruct (pcv_scan a b c) end; reflexivity. }
  rewrite (R_mask _ _ _ _ _ R).
  assert (MR2 : memR None (pg_wr m1 (N.shiftr a PAGE_BITS) (N.land a PAGE_MASK) (N.land v (wmask ww)))
                     (mset mm a (N.land v (wmask ww)))).
  { split.
    - apply (coreR_pg_wr ww Hww sg Hload None m1 mm a _ p (proj1 MR1) Hva eq_refl); [|exact Hp]. unfold wmask. apply land_ones_lt.
    - unfold pg_wr. rewrite Hp. cbn. exact (proj2 MR1). }
  replace (a + 1) with (start + (i + 1)) by lia.
  destruct (IH _ _ start (i + 1) MR2) as [A B].
  - cbn [length] in *. lia.
  - intros j Hj. specialize (Hv (S j) ltac:(cbn [length]; lia)). replace (start + (i + 1) + N.of_nat j) with (a + N.of_nat (S j)) by lia. exact Hv.
  - split; [exact A|]. rewrite B. unfold pg_wr. rewrite Hp. cbn. exact Hd1.
Qed.

Theorem set_words_spec nm mm start vals nm' : memR None nm mm ->
  (start + N.of_nat (length vals)) * w <= M64 ->
  (forall j, (j < length vals)%nat -> valid sg (start + N.of_nat j) = true) ->
  Memory_set_words nm start vals = Some nm' ->
  memR None nm' (store_words mm start vals) /\ n_decided nm' = n_decided nm.
Proof using All.
  intros MR Hb Hv H. unfold Memory_set_words in H. pose proof (w_bounds ww Hww) as Hw.
  pose proof (eq_refl : M64 = 18446744073709551616) as HM64.
  destruct (add64 start (N.of_nat (length vals)) <? start); [discriminate|].
  assert (Hnf : n_flat nm = None).
  { pose proof (R_shape _ _ _ _ _ (proj1 MR)) as S. unfold flat_shape in S. destruct (n_flat nm); [discriminate|reflexivity]. }
  rewrite Hnf in H. cbn [andb] in H. injection H as <-.
  pose proof (set_words_loop_spec vals nm mm start 0 MR) as S. rewrite N.add_0_r in S. apply S; assumption.
Qed.


(* the whole loading sequence of fjm_run._run_native *)
Definition load_image (fmw : N) (runs : list (N * list N)) : option nmem :=
  match Memory_init w fmw with
  | None => None
  | Some m0 =>
    fold_left (fun om r => match om with Some m => Memory_set_words m (fst r) (snd r) | None => None end) runs
      (fold_left (fun om s => match om with Some m => Memory_add_segment m (fst s) (snd s) | None => None end) sg (Some m0))
  end.

Definition run_ok (r : N * list N) : Prop :=
  (fst r + N.of_nat (length (snd r))) * w <= M64 /\
  forall j, (j < length (snd r))%nat -> valid sg (fst r + N.of_nat j) = true.

Lemma set_runs_spec runs : forall nm0 mm nm, memR None nm0 mm -> n_decided nm0 = false -> Forall run_ok runs ->
  fold_left (fun om r => match om with Some m => Memory_set_words m (fst r) (snd r) | None => None end) runs (Some nm0) = Some nm ->
  memR None nm (fold_left (fun mm r => store_words mm (fst r) (snd r)) runs mm) /\ n_decided nm = false.
Proof using All.
  induction runs as [|r rs IH]; intros nm0 mm nm MR Hd HF H; cbn [fold_left] in *.
  - injection H as <-. auto.
  - inversion HF as [|? ? [Hb Hv] HF']; subst.
    destruct (Memory_set_words nm0 (fst r) (snd r)) as [nm1|] eqn:E1.
    + destruct (set_words_spec nm0 mm (fst r) (snd r) nm1 MR Hb Hv E1) as [MR1 Hd1].
      eapply IH; try eassumption. congruence.
    + exfalso. clear -H. induction rs as [|x xs IHx]; cbn [fold_left] in H; [discriminate|auto].
Qed.

Theorem load_ok fmw runs nm : Forall run_ok runs -> load_image fmw runs = Some nm ->
  memR None nm (fold_left (fun mm r => store_words mm (fst r) (snd r)) runs (PositiveMap.empty N)) /\
  n_decided nm = false.
Proof using All.
  intros HF H. unfold load_image in H. rewrite Memory_init_spec in H.
  destruct (add_segments_spec sg (init_nm fmw) eq_refl) as (nm0 & E & Es & H1 & H2 & S).
  { intros s Hs. pose proof (base_bounds ww Hww sg Hload None (fst s, fst s + snd s)) as B.
    cbn [fst snd] in B. destruct B as [_ B]; [unfold base; apply in_map_iff; now exists s|].
    pose proof (wlim_M64 ww Hww). pose proof (w_bounds ww Hww). pose proof (eq_refl : M64 = 18446744073709551616). nia. }
  rewrite E in H. cbn [init_nm n_segs app] in Es.
  assert (MR0 : memR None nm0 (PositiveMap.empty N)).
  { apply segments_loaded; [unfold same_but_segs in *; cbn in *; tauto|exact Es|exact H1|].
    intros E0. rewrite (H2 E0). reflexivity. }
  eapply set_runs_spec; try eassumption.
  unfold same_but_segs in S. cbn in S. tauto.
Qed.

End Load.

(* ---- load + run: the native engine as fjm_run uses it --------------------------------------------------- *)
Theorem native_end_to_end ww (Hww : 3 <= ww <= 6) sg (Hload : loadable_segs ww sg = true)
        fmw runs nm k input fuel lk c ns last :
  Forall (run_ok ww sg) runs -> load_image ww sg fmw runs = Some nm ->
  let mm := fold_left (fun mm r => store_words ww mm (fst r) (snd r)) runs (PositiveMap.empty N) in
  NativeFlatProps.top_guard ww sg fuel (init mm input) -> N.of_nat fuel < M64 -> k_last_ops k + k_last_ops k <= M64 ->
  Memory_run k nm input fuel = RunDone lk c ns last ->
  let r := run ww sg fuel (init mm input) in
  c = NC (fst r) /\ s_out ns = outp (snd r) /\ s_ops ns = u64 (ops (snd r)) /\ s_inp ns = inp (snd r) /\
  (exists fc', NativeMemProps.memR ww sg fc' (s_m ns) (m (snd r))) /\
  last = (if 0 <? k_last_ops k then rev (firstn (N.to_nat (k_last_ops k)) (hist (snd r))) else []).
Proof.
  intros HF HL mm G Hf Hk HR.
  destruct (load_ok ww Hww sg Hload fmw runs nm HF HL) as [MR Hd].
  exact (memory_run_correct ww Hww sg Hload k nm mm input fuel lk c ns last MR Hd G Hf Hk HR).
Qed.

(* ---- the device/API accessors (NativeDeviceMemory.read_word / write_word) on in-segment words ---------------- *)
Section Api.
Variable ww : N.
Hypothesis Hww : 3 <= ww <= 6.
Variable sg : list (N * N).
Hypothesis Hload : loadable_segs ww sg = true.
Variable fc : option N.

Local Notation memR := (NativeMemProps.memR ww sg fc).
Local Notation w := (MachineSpec.w ww).

Theorem api_get_word_spec nm mm a nm' v : memR nm mm -> valid sg a = true ->
  Memory_get_word nm a = (nm', v) -> v = mget0 mm a /\ memR nm' mm.
Proof using All.
  intros MR Hv H. pose proof MR as [R _]. unfold Memory_get_word in H.
  rewrite (in_flat_shape fc nm a (R_shape _ _ _ _ _ R)), (contains_valid ww Hww sg Hload fc nm a (R_segs _ _ _ _ _ R)), Hv, andb_true_r in H.
  assert (Haw : a * w < M64).
  { pose proof (valid_lt ww Hww sg Hload fc a Hv). pose proof (wlim_M64 ww Hww). pose proof (w_bounds ww Hww). nia. }
  destruct (inflat fc a) eqn:Ef.
  - injection H as <- <-. split; [|assumption]. unfold flat_rd.
    destruct (n_flat nm) as [fa|] eqn:Efa; [|rewrite (inflat_none ww Hww sg Hload fc nm mm a R Efa) in Ef; discriminate].
    rewrite (inflat_count ww Hww sg Hload fc nm mm fa a R Efa) in Ef. apply N.ltb_lt in Ef.
    destruct (R_flat _ _ _ _ _ R fa Efa) as [_ Hall]. now rewrite (Hall a Ef), Hv.
  - destruct (mem_get_page nm (N.shiftr a PAGE_BITS)) as [m1 pid] eqn:Eg.
    destruct (get_page_spec ww Hww sg Hload fc nm mm _ m1 pid MR (page_idx_small ww Hww sg Hload fc a Haw) Eg)
      as (-> & MR1 & _ & _ & _).
    injection H as <- <-. split; [|assumption]. rewrite pg_rd_pgs. apply (R_pages _ _ _ _ _ (proj1 MR1)); assumption.
Qed.

Theorem api_set_word_spec nm mm a v : memR nm mm -> valid sg a = true ->
  memR (Memory_set_word nm a v) (mset mm a (N.land v (wmask ww))).
Proof using All.
  intros MR Hv. pose proof MR as [R Herr]. unfold Memory_set_word.
  rewrite (in_flat_shape fc nm a (R_shape _ _ _ _ _ R)), (contains_valid ww Hww sg Hload fc nm a (R_segs _ _ _ _ _ R)), Hv, andb_true_r.
  rewrite (R_mask _ _ _ _ _ R).
  assert (Hlt : N.land v (wmask ww) < 2 ^ w) by (unfold wmask; apply land_ones_lt).
  assert (Haw : a * w < M64).
  { pose proof (valid_lt ww Hww sg Hload fc a Hv). pose proof (wlim_M64 ww Hww). pose proof (w_bounds ww Hww). nia. }
  destruct (inflat fc a) eqn:Ef.
  - destruct (n_flat nm) as [fa|] eqn:Efa; [|rewrite (inflat_none ww Hww sg Hload fc nm mm a R Efa) in Ef; discriminate].
    rewrite (inflat_count ww Hww sg Hload fc nm mm fa a R Efa) in Ef. apply N.ltb_lt in Ef.
    split; [eapply coreR_flat_wr; eassumption|]. unfold flat_wr. rewrite Efa. exact Herr.
  - destruct (mem_get_page nm (N.shiftr a PAGE_BITS)) as [m1 pid] eqn:Eg.
    destruct (get_page_spec ww Hww sg Hload fc nm mm _ m1 pid MR (page_idx_small ww Hww sg Hload fc a Haw) Eg)
      as (-> & MR1 & (p & Hp) & _ & _).
    split; [eapply coreR_pg_wr; try eassumption; apply MR1|]. unfold pg_wr. rewrite Hp. cbn. exact (proj2 MR1).
Qed.

End Api.
