(* The pure-Python run loops (Model/EngPy.v) refine the machine definition (Spec/MachineSpec.v). *)
From FJ Require Import Lib.Base Lib.Bits Spec.MachineSpec Model.EngPy.
Local Open Scope N_scope.

Section W.
Variable ww : N.
Hypothesis Hww : 3 <= ww.
Variable sg : list (N * N).
Variable zb : list (N * N).

Local Notation w := (MachineSpec.w ww).
Local Notation dw := (MachineSpec.dw ww).
Local Notation in_addr := (MachineSpec.in_addr ww).
Local Notation mask := (MachineSpec.wmask ww).
Local Notation W := (2 ^ w).

Lemma w_pow : w = 2 ^ ww.
Proof. unfold MachineSpec.w. apply shiftl_1_pow2. Qed.

Lemma w_ge8 : 8 <= w.
Proof. rewrite w_pow. change 8 with (2 ^ 3). apply N.pow_le_mono_r; lia. Qed.

Lemma pow_gt_lin2 k : 3 <= k -> 2 + k < 2 ^ k.
Proof.
  induction k using N.peano_ind; [lia|]. intros Hk.
  destruct (N.eq_dec k 2) as [->|]; [vm_compute; reflexivity|].
  rewrite N.pow_succ_r'. assert (H3 : 3 <= k) by lia. specialize (IHk H3). lia.
Qed.

Lemma ww_lt_w : ww + 2 < w.
Proof. rewrite w_pow. pose proof (pow_gt_lin2 ww Hww). lia. Qed.

Lemma W_big : 256 <= W.
Proof. change 256 with (2 ^ 8). apply N.pow_le_mono_r; [lia|apply w_ge8]. Qed.

Lemma W_gt_4w : 4 * w < W.
Proof.
  rewrite w_pow at 1. change 4 with (2 ^ 2). rewrite <- N.pow_add_r.
  apply N.pow_lt_mono_r; [lia|]. pose proof ww_lt_w. lia.
Qed.

Definition py_lookup (pm : mem) (a : N) : option N :=
  match mget pm a with Some v => Some v | None => if in_zb zb a then Some 0 else None end.

Definition memR (pm m : mem) : Prop :=
  (forall a, py_lookup pm a = rdw sg m a) /\ (forall a v, mget pm a = Some v -> v < W).

Lemma mask_small a : a < W -> N.land a mask = a.
Proof. intros H. unfold wmask. now apply land_ones_small. Qed.

Lemma rdw_lt pm m a v : memR pm m -> rdw sg m a = Some v -> v < W.
Proof.
  intros [R1 R2] H. rewrite <- R1 in H. unfold py_lookup in H.
  destruct (mget pm a) eqn:E.
  - inversion H; subst. eauto.
  - destruct (in_zb zb a); inversion H. apply N.neq_0_lt_0. now apply N.pow_nonzero.
Qed.

Definition rd_result (m : mem) (a : N) : N + N :=
  match rdw sg m a with Some v => inr v | None => inl (N.shiftl a ww) end.

Lemma gmw_spec pm m a pm' r : memR pm m -> a < W -> py_get_memory_word ww zb pm a = (pm', r) ->
  memR pm' m /\ r = rd_result m a.
Proof.
  intros R Ha H. unfold py_get_memory_word in H. rewrite (mask_small a Ha) in H.
  destruct R as [R1 R2]. unfold rd_result. rewrite <- R1. unfold py_lookup.
  destruct (mget pm a) eqn:E.
  - inversion H; subst. split; [split; assumption|reflexivity].
  - destruct (in_zb zb a) eqn:Z; inversion H; subst; clear H.
    + split; [|reflexivity]. split.
      * intros b. rewrite <- R1. unfold py_lookup.
        destruct (N.eq_dec a b) as [->|Hn].
        -- rewrite mget_mset_same, E, Z. reflexivity.
        -- rewrite mget_mset_other by exact Hn. reflexivity.
      * intros b v. destruct (N.eq_dec a b) as [->|Hn].
        -- rewrite mget_mset_same. intros Hv; inversion Hv. apply N.neq_0_lt_0. now apply N.pow_nonzero.
        -- rewrite mget_mset_other by exact Hn. apply R2.
    + split; [split; assumption|reflexivity].
Qed.

Lemma fast_lookup_spec pm m a pm' r : memR pm m -> a < W -> fast_lookup ww zb pm a = (pm', r) ->
  memR pm' m /\ r = rd_result m a.
Proof.
  intros R Ha H. unfold fast_lookup in H. destruct (mget pm a) eqn:E.
  - inversion H; subst. split; [assumption|]. unfold rd_result. destruct R as [R1 _].
    rewrite <- R1. unfold py_lookup. now rewrite E.
  - eapply gmw_spec; eassumption.
Qed.

(* bit addresses the loops use are below 2W; their word addresses are far below W - 1 *)
Lemma wa_small ba : ba < 2 * W -> N.shiftr ba ww + 1 < W - 1.
Proof.
  intros H. rewrite N.shiftr_div_pow2, <- w_pow.
  pose proof w_ge8. pose proof W_big.
  assert (ba / w <= ba / 8) by (apply N.div_le_compat_l; lia).
  assert (8 * (ba / 8) <= ba) by (apply N.mul_div_le; lia).
  lia.
Qed.

Lemma decompose_spec ba : ba < 2 * W ->
  py_decompose ww ba = (N.shiftr ba ww, N.land ba (w - 1)).
Proof.
  intros H. unfold py_decompose. f_equal. apply mask_small. pose proof (wa_small ba H). lia.
Qed.

Lemma get_word_spec pm m ba pm' r : memR pm m -> ba < 2 * W -> py_get_word ww zb pm ba = (pm', r) ->
  memR pm' m /\ r = get_word ww sg m ba.
Proof.
  intros R Hba H. unfold py_get_word in H. rewrite (decompose_spec ba Hba) in H.
  pose proof (wa_small ba Hba) as Hwa.
  unfold get_word. fold (rd_result m (N.shiftr ba ww)).
  destruct (N.land ba (w - 1) =? 0) eqn:Eo.
  - destruct (gmw_spec _ _ (N.shiftr ba ww) _ _ R ltac:(lia) H) as [R' ->]. split; [assumption|].
    unfold rd_result. destruct (rdw sg m (N.shiftr ba ww)); reflexivity.
  - assert (Em : (N.shiftr ba ww =? mask) = false).
    { apply N.eqb_neq. unfold wmask. rewrite N.ones_equiv. lia. }
    rewrite Em in H.
    destruct (py_get_memory_word ww zb pm (N.shiftr ba ww)) as [pm1 r1] eqn:E1.
    destruct (gmw_spec _ _ (N.shiftr ba ww) _ _ R ltac:(lia) E1) as [R1 ->].
    unfold rd_result in *. destruct (rdw sg m (N.shiftr ba ww)) as [lo|].
    + destruct (py_get_memory_word ww zb pm1 (N.shiftr ba ww + 1)) as [pm2 r2] eqn:E2.
      destruct (gmw_spec _ _ (N.shiftr ba ww + 1) _ _ R1 ltac:(lia) E2) as [R2 ->].
      unfold rd_result in *. destruct (rdw sg m (N.shiftr ba ww + 1)); inversion H; subst; auto.
    + inversion H; subst; auto.
Qed.

Lemma get_word_lt pm m ba v : memR pm m -> get_word ww sg m ba = inr v -> v < W.
Proof.
  intros R H. unfold get_word in H.
  destruct (rdw sg m (N.shiftr ba ww)) as [lo|] eqn:E1; [|discriminate].
  destruct (N.land ba (w - 1) =? 0).
  - inversion H; subst. eapply rdw_lt; eassumption.
  - destruct (rdw sg m (N.shiftr ba ww + 1)); inversion H. apply land_ones_lt.
Qed.

Lemma memR_mset pm m a v0 v' : memR pm m -> rdw sg m a = Some v0 -> v' < W ->
  memR (mset pm a v') (mset m a v').
Proof.
  intros [R1 R2] Hv Hlt. split.
  - intros b. unfold py_lookup, rdw. destruct (N.eq_dec a b) as [->|Hn].
    + rewrite mget_mset_same, mget0_mset_same. unfold rdw in Hv. destruct (valid sg b); [reflexivity|discriminate].
    + rewrite mget_mset_other, mget0_mset_other by exact Hn. apply R1.
  - intros b v. destruct (N.eq_dec a b) as [->|Hn].
    + rewrite mget_mset_same. intros E; inversion E; subst; assumption.
    + rewrite mget_mset_other by exact Hn. apply R2.
Qed.

Lemma off_lt ba : N.land ba (w - 1) < w.
Proof.
  rewrite w_pow. replace (2 ^ ww - 1) with (N.ones ww) by (rewrite N.ones_equiv; lia).
  rewrite N.land_ones. apply N.mod_lt. apply N.pow_nonzero; lia.
Qed.

Lemma set_bit_py v off (b : bool) : v < W -> off < w ->
  N.land (if b then N.lor v (N.shiftl 1 off) else N.land v (mask - N.shiftl 1 off)) mask = set_bit ww v off b
  /\ set_bit ww v off b < W.
Proof.
  intros Hv Ho. unfold set_bit, wmask. destruct b.
  - split; [apply land_ones_small|]; now apply lor_bit_lt.
  - rewrite ones_sub_bit by exact Ho.
    assert (E : N.lxor (N.ones w) (N.shiftl 1 off) = N.ldiff (N.ones w) (N.shiftl 1 off)).
    { apply N.bits_inj; intros i. rewrite N.lxor_spec, N.ldiff_spec, ones_testbit, testbit_bit.
      destruct (N.eqb_spec off i) as [->|].
      - destruct (N.ltb_spec i w); [reflexivity|lia].
      - now rewrite xorb_false_r, andb_true_r. }
    rewrite E. split; [apply land_ones_small|]; now apply land_lt_l.
Qed.

Lemma write_bit_spec pm m ba b pm' r : memR pm m -> ba < 2 * W -> py_write_bit ww zb pm ba b = (pm', r) ->
  match rdw sg m (N.shiftr ba ww) with
  | None => r = inl (N.shiftl (N.shiftr ba ww) ww) /\ memR pm' m
  | Some v => r = inr tt /\ memR pm' (mset m (N.shiftr ba ww) (set_bit ww v (N.land ba (w - 1)) b))
  end.
Proof.
  intros R Hba H. unfold py_write_bit in H. rewrite (decompose_spec ba Hba) in H.
  pose proof (wa_small ba Hba) as Hwa.
  destruct (py_get_memory_word ww zb pm (N.shiftr ba ww)) as [pm1 r1] eqn:E1.
  destruct (gmw_spec _ _ (N.shiftr ba ww) _ _ R ltac:(lia) E1) as [R1 ->]. unfold rd_result in H.
  destruct (rdw sg m (N.shiftr ba ww)) as [v|] eqn:Ev.
  - inversion H; subst; clear H. split; [reflexivity|].
    unfold py_set_memory_word. rewrite mask_small by lia.
    pose proof (rdw_lt _ _ _ _ R1 Ev) as Hv.
    destruct (set_bit_py v (N.land ba (w - 1)) b Hv (off_lt ba)) as [-> Hlt].
    eapply memR_mset; eassumption.
  - inversion H; subst. auto.
Qed.

Lemma read_bit_spec pm m ba pm' r : memR pm m -> ba < 2 * W -> py_read_bit ww zb pm ba = (pm', r) ->
  memR pm' m /\
  r = match rdw sg m (N.shiftr ba ww) with
      | None => inl (N.shiftl (N.shiftr ba ww) ww)
      | Some v => inr (N.testbit v (N.land ba (w - 1)))
      end.
Proof.
  intros R Hba H. unfold py_read_bit in H. rewrite (decompose_spec ba Hba) in H.
  pose proof (wa_small ba Hba) as Hwa.
  destruct (py_get_memory_word ww zb pm (N.shiftr ba ww)) as [pm1 r1] eqn:E1.
  destruct (gmw_spec _ _ (N.shiftr ba ww) _ _ R ltac:(lia) E1) as [R1 ->]. unfold rd_result in H.
  destruct (rdw sg m (N.shiftr ba ww)); inversion H; subst; split; auto.
  now rewrite testbit_as_shift.
Qed.

Lemma set_bit_flip v off : v < W -> off < w -> set_bit ww v off (negb (N.testbit v off)) = N.lxor v (N.shiftl 1 off).
Proof.
  intros Hv Ho. destruct (N.testbit v off) eqn:Eb; cbn [negb].
  - destruct (set_bit_py v off false Hv Ho) as [<- _]. unfold wmask. now apply flip_clear.
  - destruct (set_bit_py v off true Hv Ho) as [<- _]. unfold wmask. now apply flip_set.
Qed.

(* ---- state relation and the one-step simulations --------------------------------------------- *)
Definition stR (s : st) (ps : pst) : Prop :=
  ip s = p_ip ps /\ inp s = p_inp ps /\ outp s = p_out ps /\ ops s = p_ops ps /\ hist s = p_hist ps /\
  memR (p_mem ps) (m s).

Definition sim (a : st + (cause * st)) (b : pst + (cause * pst)) : Prop :=
  match a, b with
  | inl s', inl ps' => stR s' ps' /\ ip s' < W
  | inr (c, s'), inr (c', ps') => c = c' /\ stR s' ps'
  | _, _ => False
  end.

Lemma in_addr_lt : in_addr < 4 * w.
Proof. unfold MachineSpec.in_addr. pose proof ww_lt_w. lia. Qed.

Ltac prj := cbn [ip m inp outp ops hist p_ip p_mem p_inp p_out p_ops p_hist fst snd].
Ltac mkR := unfold sim, stR; prj; repeat match goal with |- _ /\ _ => split end; try reflexivity; try assumption.

Theorem featured_sim s ps : stR s ps -> ip s < W -> sim (step ww sg s) (featured_step ww zb ps).
Proof.
  intros (Eip & Einp & Eout & Eops & Ehist & R) Hip.
  destruct s as [sip sm sinp sout sops shist], ps as [pip pm pinp pout pops phist]; simpl in *. subst.
  pose proof W_gt_4w as HW. pose proof in_addr_lt as Hin. pose proof w_ge8 as Hw8.
  unfold step, featured_step; prj.
  destruct (py_get_word ww zb pm pip) as [pm1 r1] eqn:E1.
  destruct (get_word_spec _ _ pip _ _ R ltac:(lia) E1) as [R1 ->].
  destruct (get_word ww sg sm pip) as [a|f] eqn:Ef; [mkR|].
  pose proof (get_word_lt _ _ _ _ R Ef) as Hf.
  unfold is_output, covers_input, MachineSpec.dw.
  replace (2 * w + 1 =? f) with (f =? 2 * w + 1) by apply N.eqb_sym.
  set (out1 := if (2 * w <=? f) && (f <=? 2 * w + 1) then (f =? 2 * w + 1) :: pout else pout).
  (* common tail: flip, jump word, termination tests *)
  assert (TAIL : forall pmx mx inpx, memR pmx mx ->
    sim (match rdw sg mx (N.shiftr f ww) with
         | None => inr (MemErr (N.shiftl (N.shiftr f ww) ww), mkst pip mx inpx out1 pops (pip :: phist))
         | Some v =>
           match get_word ww sg (mset mx (N.shiftr f ww) (flip_bit ww v f)) (pip + w) with
           | inl a => inr (MemErr a, mkst pip (mset mx (N.shiftr f ww) (flip_bit ww v f)) inpx out1 pops (pip :: phist))
           | inr j =>
             if (j =? pip) && negb ((pip <=? f) && (f <? pip + 2 * w))
             then inr (Looping, mkst j (mset mx (N.shiftr f ww) (flip_bit ww v f)) inpx out1 (pops + 1) (pip :: phist))
             else if j <? 2 * w
             then inr (NullIP, mkst j (mset mx (N.shiftr f ww) (flip_bit ww v f)) inpx out1 (pops + 1) (pip :: phist))
             else inl (mkst j (mset mx (N.shiftr f ww) (flip_bit ww v f)) inpx out1 (pops + 1) (pip :: phist))
           end
         end)
        (match py_read_bit ww zb pmx f with
         | (pm3, inl a) => inr (MemErr a, mkpst pip pm3 inpx out1 pops (pip :: phist))
         | (pm3, inr bit) =>
           match py_write_bit ww zb pm3 f (negb bit) with
           | (pm4, inl a) => inr (MemErr a, mkpst pip pm4 inpx out1 pops (pip :: phist))
           | (pm4, inr _) =>
             match py_get_word ww zb pm4 (pip + w) with
             | (pm5, inl a) => inr (MemErr a, mkpst pip pm5 inpx out1 pops (pip :: phist))
             | (pm5, inr j) =>
               if (j =? pip) && negb ((pip <=? f) && (f <? pip + 2 * w))
               then inr (Looping, mkpst j pm5 inpx out1 (pops + 1) (pip :: phist))
               else if j <? 2 * w then inr (NullIP, mkpst j pm5 inpx out1 (pops + 1) (pip :: phist))
               else inl (mkpst j pm5 inpx out1 (pops + 1) (pip :: phist))
             end
           end
         end)).
  { intros pmx mx inpx Rx.
    destruct (py_read_bit ww zb pmx f) as [pm3 r3] eqn:E3.
    destruct (read_bit_spec _ _ f _ _ Rx ltac:(lia) E3) as [R3 ->].
    destruct (rdw sg mx (N.shiftr f ww)) as [v|] eqn:Ev; [|simpl; mkR].
    destruct (py_write_bit ww zb pm3 f (negb (N.testbit v (N.land f (w - 1))))) as [pm4 r4] eqn:E4.
    pose proof (write_bit_spec _ _ f _ _ _ R3 ltac:(lia) E4) as S4. rewrite Ev in S4. destruct S4 as [-> R4].
    pose proof (rdw_lt _ _ _ _ Rx Ev) as Hv.
    rewrite (set_bit_flip v _ Hv (off_lt f)) in R4. fold (flip_bit ww v f) in R4.
    destruct (py_get_word ww zb pm4 (pip + w)) as [pm5 r5] eqn:E5.
    destruct (get_word_spec _ _ (pip + w) _ _ R4 ltac:(lia) E5) as [R5 ->].
    destruct (get_word ww sg _ (pip + w)) as [a|j] eqn:Ej; [mkR|].
    pose proof (get_word_lt _ _ _ _ R4 Ej) as Hj.
    destruct ((j =? pip) && negb ((pip <=? f) && (f <? pip + 2 * w))); [mkR|].
    destruct (j <? 2 * w); mkR. }
  replace (pip + 2 * w) with (pip + 2 * w) in * by reflexivity.
  destruct ((pip <=? in_addr) && (in_addr <? pip + 2 * w)) eqn:Ecov.
  - destruct pinp as [|b rest]; [mkR|].
    destruct (py_write_bit ww zb pm1 in_addr b) as [pm2 r2] eqn:E2.
    pose proof (write_bit_spec _ _ in_addr _ _ _ R1 ltac:(lia) E2) as S2.
    destruct (rdw sg sm (N.shiftr in_addr ww)) as [v|] eqn:Ev.
    + destruct S2 as [-> R2]. apply TAIL. exact R2.
    + destruct S2 as [-> R2]. mkR.
  - apply TAIL. exact R1.
Qed.

(* ---- the fast loop ------------------------------------------------------------------------- *)
Lemma land_mod a : N.land a (w - 1) = a mod w.
Proof.
  rewrite w_pow. replace (2 ^ ww - 1) with (N.ones ww) by (rewrite N.ones_equiv; lia). apply N.land_ones.
Qed.

Lemma shiftr_div a : N.shiftr a ww = a / w.
Proof. rewrite w_pow. apply N.shiftr_div_pow2. Qed.

Lemma aligned_get_word mm ba : N.land ba (w - 1) = 0 -> get_word ww sg mm ba = rd_result mm (N.shiftr ba ww).
Proof.
  intros H. unfold get_word, rd_result. rewrite H. cbn [N.eqb].
  destruct (rdw sg mm (N.shiftr ba ww)); reflexivity.
Qed.

Lemma aligned_next ba : N.land ba (w - 1) = 0 ->
  N.shiftr (ba + w) ww = N.shiftr ba ww + 1 /\ N.land (ba + w) (w - 1) = 0.
Proof.
  rewrite !land_mod, !shiftr_div. intros H. pose proof w_ge8.
  replace (ba + w) with (ba + 1 * w) by lia.
  rewrite N.div_add, N.mod_add by lia. auto.
Qed.

Theorem fast_sim s ps : stR s ps -> ip s < W -> sim (step ww sg s) (fast_step ww zb ps).
Proof.
  intros (Eip & Einp & Eout & Eops & Ehist & R) Hip.
  destruct s as [sip sm sinp sout sops shist], ps as [pip pm pinp pout pops phist]; simpl in *. subst.
  pose proof W_gt_4w as HW. pose proof in_addr_lt as Hin. pose proof w_ge8 as Hw8.
  pose proof (wa_small pip ltac:(lia)) as Hwa.
  unfold step, fast_step; prj.
  (* first read *)
  assert (RD1 : exists pm1, (if negb (N.land pip (w - 1) =? 0) then py_get_word ww zb pm pip
                             else fast_lookup ww zb pm (N.shiftr pip ww)) = (pm1, get_word ww sg sm pip)
                            /\ memR pm1 sm).
  { destruct (N.land pip (w - 1) =? 0) eqn:Eo; cbn [negb].
    - apply N.eqb_eq in Eo. destruct (fast_lookup ww zb pm (N.shiftr pip ww)) as [pm1 r1] eqn:E1.
      destruct (fast_lookup_spec _ _ (N.shiftr pip ww) _ _ R ltac:(lia) E1) as [R1 ->].
      exists pm1. rewrite aligned_get_word by exact Eo. auto.
    - destruct (py_get_word ww zb pm pip) as [pm1 r1] eqn:E1.
      destruct (get_word_spec _ _ pip _ _ R ltac:(lia) E1) as [R1 ->]. exists pm1; auto. }
  destruct RD1 as (pm1 & -> & R1).
  destruct (get_word ww sg sm pip) as [a|f] eqn:Ef; [mkR|].
  pose proof (get_word_lt _ _ _ _ R Ef) as Hf.
  unfold is_output, covers_input.
  replace (if f <=? dw + 1 then if dw <=? f then (dw + 1 =? f) :: pout else pout else pout)
    with (if (dw <=? f) && (f <=? dw + 1) then (f =? dw + 1) :: pout else pout)
    by (rewrite (N.eqb_sym f); destruct (dw <=? f), (f <=? dw + 1); reflexivity).
  set (out1 := if (dw <=? f) && (f <=? dw + 1) then (f =? dw + 1) :: pout else pout).
  replace ((pip <=? in_addr) && (in_addr - dw <? pip)) with ((pip <=? in_addr) && (in_addr <? pip + dw)).
  2:{ unfold MachineSpec.in_addr, MachineSpec.dw in *. f_equal.
      destruct (N.ltb_spec (3 * w + ww + 1) (pip + 2 * w)), (N.ltb_spec (3 * w + ww + 1 - 2 * w) pip); try reflexivity; lia. }
  assert (TAIL : forall pmx mx inpx, memR pmx mx ->
    sim (match rdw sg mx (N.shiftr f ww) with
         | None => inr (MemErr (N.shiftl (N.shiftr f ww) ww), mkst pip mx inpx out1 pops (pip :: phist))
         | Some v =>
           match get_word ww sg (mset mx (N.shiftr f ww) (flip_bit ww v f)) (pip + w) with
           | inl a => inr (MemErr a, mkst pip (mset mx (N.shiftr f ww) (flip_bit ww v f)) inpx out1 pops (pip :: phist))
           | inr j =>
             if (j =? pip) && negb ((pip <=? f) && (f <? pip + dw))
             then inr (Looping, mkst j (mset mx (N.shiftr f ww) (flip_bit ww v f)) inpx out1 (pops + 1) (pip :: phist))
             else if j <? dw
             then inr (NullIP, mkst j (mset mx (N.shiftr f ww) (flip_bit ww v f)) inpx out1 (pops + 1) (pip :: phist))
             else inl (mkst j (mset mx (N.shiftr f ww) (flip_bit ww v f)) inpx out1 (pops + 1) (pip :: phist))
           end
         end)
        (match fast_lookup ww zb pmx (N.shiftr f ww) with
         | (pm3, inl a) => inr (MemErr a, mkpst pip pm3 inpx out1 pops (pip :: phist))
         | (pm3, inr v) =>
           match (if negb (N.land pip (w - 1) =? 0)
                  then py_get_word ww zb (mset pm3 (N.shiftr f ww) (N.lxor v (N.shiftl 1 (N.land f (w - 1))))) (pip + w)
                  else fast_lookup ww zb (mset pm3 (N.shiftr f ww) (N.lxor v (N.shiftl 1 (N.land f (w - 1))))) (N.shiftr pip ww + 1)) with
           | (pm5, inl a) => inr (MemErr a, mkpst pip pm5 inpx out1 pops (pip :: phist))
           | (pm5, inr j) =>
             if (j =? pip) && negb ((pip <=? f) && (f <? pip + dw))
             then inr (Looping, mkpst j pm5 inpx out1 (pops + 1) (pip :: phist))
             else if j <? dw then inr (NullIP, mkpst j pm5 inpx out1 (pops + 1) (pip :: phist))
             else inl (mkpst j pm5 inpx out1 (pops + 1) (pip :: phist))
           end
         end)).
  { intros pmx mx inpx Rx.
    pose proof (wa_small f ltac:(lia)) as Hfa.
    destruct (fast_lookup ww zb pmx (N.shiftr f ww)) as [pm3 r3] eqn:E3.
    destruct (fast_lookup_spec _ _ (N.shiftr f ww) _ _ Rx ltac:(lia) E3) as [R3 ->]. unfold rd_result.
    destruct (rdw sg mx (N.shiftr f ww)) as [v|] eqn:Ev; [|mkR].
    pose proof (rdw_lt _ _ _ _ Rx Ev) as Hv.
    assert (R4 : memR (mset pm3 (N.shiftr f ww) (N.lxor v (N.shiftl 1 (N.land f (w - 1)))))
                      (mset mx (N.shiftr f ww) (flip_bit ww v f))).
    { unfold flip_bit. eapply memR_mset; [exact R3|exact Ev|]. apply lxor_bit_lt; [exact Hv|apply off_lt]. }
    set (pm4 := mset pm3 _ _) in *. set (m4 := mset mx _ _) in *.
    assert (RD2 : exists pm5, (if negb (N.land pip (w - 1) =? 0) then py_get_word ww zb pm4 (pip + w)
                               else fast_lookup ww zb pm4 (N.shiftr pip ww + 1)) = (pm5, get_word ww sg m4 (pip + w))
                              /\ memR pm5 m4).
    { destruct (N.land pip (w - 1) =? 0) eqn:Eo; cbn [negb].
      - apply N.eqb_eq in Eo. destruct (aligned_next pip Eo) as [En1 En2].
        destruct (fast_lookup ww zb pm4 (N.shiftr pip ww + 1)) as [pm5 r5] eqn:E5.
        destruct (fast_lookup_spec _ _ (N.shiftr pip ww + 1) _ _ R4 ltac:(lia) E5) as [R5 ->].
        exists pm5. rewrite aligned_get_word by exact En2. rewrite En1. auto.
      - destruct (py_get_word ww zb pm4 (pip + w)) as [pm5 r5] eqn:E5.
        destruct (get_word_spec _ _ (pip + w) _ _ R4 ltac:(lia) E5) as [R5 ->]. exists pm5; auto. }
    destruct RD2 as (pm5 & -> & R5).
    destruct (get_word ww sg m4 (pip + w)) as [a|j] eqn:Ej; [mkR|].
    pose proof (get_word_lt _ _ _ _ R4 Ej) as Hj.
    destruct ((j =? pip) && negb ((pip <=? f) && (f <? pip + dw))); [mkR|].
    destruct (j <? dw); mkR. }
  destruct ((pip <=? in_addr) && (in_addr <? pip + dw)) eqn:Ecov.
  - destruct pinp as [|b rest]; [mkR|].
    destruct (py_write_bit ww zb pm1 in_addr b) as [pm2 r2] eqn:E2.
    pose proof (write_bit_spec _ _ in_addr _ _ _ R1 ltac:(lia) E2) as S2.
    destruct (rdw sg sm (N.shiftr in_addr ww)) as [v|] eqn:Ev.
    + destruct S2 as [-> R2]. apply TAIL. exact R2.
    + destruct S2 as [-> R2]. mkR.
  - apply TAIL. exact R1.
Qed.

(* ---- whole runs ------------------------------------------------------------------------------ *)
Definition obsR (a : cause * st) (b : cause * pst) : Prop := fst a = fst b /\ stR (snd a) (snd b).

Lemma run_sim stepf : (forall s ps, stR s ps -> ip s < W -> sim (step ww sg s) (stepf ps)) ->
  forall fuel s ps, stR s ps -> ip s < W -> obsR (run ww sg fuel s) (run_py stepf fuel ps).
Proof.
  intros Hsim. induction fuel as [|k IH]; intros s ps R Hip; cbn [run run_py].
  - split; [reflexivity|exact R].
  - specialize (Hsim s ps R Hip). unfold sim in Hsim.
    destruct (step ww sg s) as [s'|[c s']], (stepf ps) as [ps'|[c' ps']]; try contradiction.
    + destruct Hsim. now apply IH.
    + destruct Hsim as [-> R']. split; [reflexivity|exact R'].
Qed.

Theorem featured_run_correct fuel s ps : stR s ps -> ip s < W ->
  obsR (run ww sg fuel s) (run_py (featured_step ww zb) fuel ps).
Proof. apply run_sim. apply featured_sim. Qed.

Theorem fast_run_correct fuel s ps : stR s ps -> ip s < W ->
  obsR (run ww sg fuel s) (run_py (fast_step ww zb) fuel ps).
Proof. apply run_sim. apply fast_sim. Qed.

End W.
