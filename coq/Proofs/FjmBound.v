From FJ Require Import Lib.Base Lib.Bytes Spec.ImageSpec Model.Fjm Proofs.FjmCodec Proofs.FjmReader.
(* C10, allocation: what the reader builds is bounded by the bytes it was given, never by the VALUES in the table. *)
Local Open Scope N_scope.

(* ---- the segment-count field is checked against the bytes before any per-segment work -------------------------- *)

Lemma init_segments_loop_spec : forall fuel n b,
  (length b < fuel)%nat ->
  (32 * (fst (init_segments_loop fuel n b) - 1) <= length b)%nat /\
  snd (init_segments_loop fuel n b) =
    if N.of_nat (length b) <? 32 * n then None else read_segs (N.to_nat n) b.
Proof.
  induction fuel as [|f IH]; intros n b Hf; [lia|].
  cbn [init_segments_loop]. destruct (n =? 0) eqn:En.
  - apply N.eqb_eq in En. subst n. cbn [fst snd]. split; [lia|].
    replace (N.of_nat (length b) <? 32 * 0) with false by (symmetry; lia). reflexivity.
  - apply N.eqb_neq in En. destruct (take segment_size b) as [[c r]|] eqn:Et.
    + apply take_some in Et. destruct Et as [Eb Lc]. unfold segment_size in Lc.
      assert (Lr : length b = (32 + length r)%nat) by (rewrite Eb, app_length; lia).
      destruct (IH (n - 1) r) as [Hk Hres]; [lia|].
      destruct (init_segments_loop f (n - 1) r) as [k res]. cbn [fst snd] in *. split; [lia|].
      rewrite Hres.
      replace (N.of_nat (length b) <? 32 * n) with (N.of_nat (length r) <? 32 * (n - 1)) by lia.
      destruct (N.of_nat (length r) <? 32 * (n - 1)); [reflexivity|].
      replace (N.to_nat n) with (S (N.to_nat (n - 1))) by lia. cbn [read_segs].
      assert (Et' : take segment_size b = Some (c, r)).
      { rewrite Eb. apply take_app. exact Lc. }
      rewrite Et'. reflexivity.
    + cbn [fst snd]. split; [lia|].
      unfold take, segment_size in Et. destruct (length b <? 32)%nat eqn:E; [|discriminate].
      apply Nat.ltb_lt in E. now replace (N.of_nat (length b) <? 32 * n) with true by (symmetry; lia).
Qed.

Theorem segment_count_checked n b :
  let '(reads, res) := init_segments_loop (S (length b)) n b in
  (reads <= length b / 32 + 1)%nat /\
  res = (if N.of_nat (length b) <? 32 * n then None else read_segs (N.to_nat n) b) /\
  (N.of_nat (length b) < 32 * n -> res = None).
Proof.
  destruct (init_segments_loop_spec (S (length b)) n b) as [H1 H2]; [lia|].
  destruct (init_segments_loop (S (length b)) n b) as [k res]. cbn [fst snd] in *.
  split; [lia|]. split; [exact H2|]. intros H. rewrite H2.
  now replace (N.of_nat (length b) <? 32 * n) with true by (symmetry; lia).
Qed.

(* ---- dictionary entries ------------------------------------------------------------------------------------------ *)

Definition card (m : mem) : nat := PositiveMap.cardinal m.

Lemma card_add (A : Type) i (v : A) : forall m, (PositiveMap.cardinal (PositiveMap.add i v m) <= S (PositiveMap.cardinal m))%nat.
Proof.
  induction i as [i IH | i IH |]; intros [|l o r]; cbn [PositiveMap.add PositiveMap.cardinal].
  - specialize (IH (PositiveMap.Leaf A)). cbn [PositiveMap.cardinal] in IH. lia.
  - specialize (IH r). destruct o; cbv iota; lia.
  - specialize (IH (PositiveMap.Leaf A)). cbn [PositiveMap.cardinal] in IH. lia.
  - specialize (IH l). destruct o; cbv iota; lia.
  - lia.
  - destruct o; cbv iota; lia.
Qed.

Lemma card_mset m a v : (card (mset m a v) <= S (card m))%nat.
Proof. apply card_add. Qed.

Lemma card_store_plain ws : forall m a, (card (store_plain m a ws) <= card m + length ws)%nat.
Proof.
  induction ws as [|x r IH]; intros m a; cbn [store_plain length]; [lia|].
  specialize (IH (mset m a x) (a + 1)). pose proof (card_mset m a x). lia.
Qed.

Lemma card_store_rel w n : forall ws m a, (length ws <= n)%nat -> (card (store_rel w m a ws) <= card m + length ws)%nat.
Proof.
  induction n as [|n IH]; intros ws m a L.
  - destruct ws; [cbn [store_rel length]; lia | cbn [length] in L; lia].
  - destruct ws as [|x [|y r]]; cbn [store_rel length]; try lia.
    set (m1 := mset m a x). set (m2 := mset m1 (a + 1) (N.land (y + (a + 1) * w) (N.ones w))).
    specialize (IH r m2 (a + 2)). cbn [length] in L.
    pose proof (card_mset m a x). pose proof (card_mset m1 (a + 1) (N.land (y + (a + 1) * w) (N.ones w))).
    fold m1 in H. fold m2 in H0. lia.
Qed.

Lemma card_zero_fill n : forall m a, (card (zero_fill m a n) <= card m + n)%nat.
Proof.
  induction n as [|n IH]; intros m a; cbn [zero_fill]; [lia|].
  specialize (IH (mset m a 0) (a + 1)). pose proof (card_mset m a 0). lia.
Qed.

Lemma init_segment_bound thr w rel data m t m1 z1 :
  init_segment thr w rel data (N.of_nat (length data)) m t = SOk m1 z1 ->
  (card m1 <= card m + (length data + N.to_nat (thr - 1)))%nat /\ (length z1 <= 1)%nat.
Proof.
  destruct t as [[[ss sl] ds] dl]. unfold init_segment.
  destruct (N.odd dl); [discriminate|].
  destruct (N.of_nat (length data) <? ds + dl) eqn:Ep; [discriminate|].
  set (ws := firstn (N.to_nat dl) (skipn (N.to_nat ds) data)).
  destruct (N.of_nat (length ws) <? dl); [discriminate|].
  assert (Lws : (length ws <= length data)%nat).
  { unfold ws. rewrite firstn_length, skipn_length. lia. }
  set (mm := if rel then store_rel w m ss ws else store_plain m ss ws).
  assert (Hmm : (card mm <= card m + length ws)%nat).
  { unfold mm. destruct rel; [apply (card_store_rel w (length ws)); lia | apply card_store_plain]. }
  destruct (dl <? sl).
  - destruct (sl - dl <? thr) eqn:Et; intros H; injection H as <- <-; cbn [length].
    + pose proof (card_zero_fill (N.to_nat (sl - dl)) mm (ss + dl)). split; lia.
    + split; lia.
  - intros H; injection H as <- <-. cbn [length]. split; lia.
Qed.

Lemma init_memory_bound thr w rel data T : forall m segs m' z,
  init_memory thr w rel data (N.of_nat (length data)) m T = MOk segs m' z ->
  (card m' <= card m + length T * (length data + N.to_nat (thr - 1)))%nat /\
  (length z <= length T)%nat /\ length segs = length T.
Proof.
  induction T as [|t T IH]; intros m segs m' z H.
  - cbn in H. injection H as <- <- <-. cbn. repeat split; lia.
  - cbn [init_memory] in H.
    destruct (init_segment thr w rel data (N.of_nat (length data)) m t) as [m1 z1| |] eqn:E1; try discriminate.
    destruct (init_memory thr w rel data (N.of_nat (length data)) m1 T) as [segs2 m2 z2| |] eqn:E2; try discriminate.
    injection H as <- <- <-.
    destruct (init_segment_bound _ _ _ _ _ _ _ _ E1) as [B1 B2].
    destruct (IH _ _ _ _ E2) as (C1 & C2 & C3).
    cbn [length]. rewrite app_length. repeat split; lia.
Qed.

Lemma read_segs_length k : forall b T r, read_segs k b = Some (T, r) -> length T = k /\ length b = (32 * k + length r)%nat.
Proof.
  induction k as [|k IH]; intros b T r H.
  - cbn in H. injection H as <- <-. split; [reflexivity | lia].
  - cbn [read_segs] in H. destruct (take segment_size b) as [[c r1]|] eqn:Et; [|discriminate].
    destruct (read_segs k r1) as [[l r']|] eqn:Er; [|discriminate]. injection H as <- <-.
    apply take_some in Et. destruct Et as [Eb Lc]. unfold segment_size in Lc.
    destruct (IH _ _ _ Er) as [L1 L2]. cbn [length]. split; [lia|].
    rewrite Eb, app_length. lia.
Qed.

Lemma read_segs_split k : forall b T r,
  read_segs k b = Some (T, r) -> exists tb, b = tb ++ r /\ length tb = (32 * k)%nat.
Proof.
  induction k as [|k IH]; intros b T r H.
  - cbn in H. injection H as <- <-. exists []. split; reflexivity.
  - cbn [read_segs] in H. destruct (take segment_size b) as [[c r1]|] eqn:Et; [|discriminate].
    destruct (read_segs k r1) as [[l r']|] eqn:Er; [|discriminate]. injection H as <- <-.
    apply take_some in Et. destruct Et as [-> Lc]. unfold segment_size in Lc.
    destruct (IH _ _ _ Er) as (tb & -> & Ltb). exists (c ++ tb). split; [now rewrite app_assoc|].
    rewrite app_length. lia.
Qed.

Lemma unpack_words_length wb : forall fuel b data, unpack_words fuel wb b = UOk data -> (length data * wb = length b)%nat.
Proof.
  induction fuel as [|f IH]; intros b data H.
  - destruct b; cbn in H; [injection H as <-; reflexivity | discriminate].
  - destruct b as [|x r]; cbn [unpack_words] in H; [injection H as <-; reflexivity|].
    destruct (take wb (x :: r)) as [[c r']|] eqn:Et; [|discriminate].
    destruct (unpack_words f wb r') as [l| |] eqn:Eu; try discriminate. injection H as <-.
    apply take_some in Et. destruct Et as [Eb Lc]. specialize (IH _ _ Eu).
    rewrite Eb, app_length. cbn [length]. lia.
Qed.

(* the header (20 bytes, +12 when version > 0) *)
Definition header_size (ver : N) : nat := if ver =? 0 then 20%nat else 32%nat.

Theorem read_bounded thr decompress b img :
  read_thr thr decompress b = ROk img ->
  let n := length (i_table img) in
  N.of_nat n = u_at 12 8 (firstn header_base_size b) /\
  length (i_segs img) = n /\
  (header_size (i_ver img) + 32 * n <= length b)%nat /\
  (exists wb fd,
      word_bytes (i_w img) = Some wb /\
      (if i_ver img =? 3 then decompress (skipn (header_size (i_ver img) + 32 * n) b) = Some fd
       else fd = skipn (header_size (i_ver img) + 32 * n) b) /\
      (N.to_nat (i_pool_len img) * wb = length fd)%nat) /\
  (card (i_mem img) <= n * (N.to_nat (i_pool_len img) + N.to_nat (thr - 1)))%nat /\
  (length (i_zeros img) <= n)%nat.
Proof.
  unfold read_thr.
  destruct (take header_base_size b) as [[h r1]|] eqn:Eh; [|discriminate].
  apply take_some in Eh. destruct Eh as [Eb Lh]. unfold header_base_size in Lh.
  assert (Hh : firstn header_base_size b = h).
  { rewrite Eb. unfold header_base_size. rewrite firstn_app, <- Lh, firstn_all, Nat.sub_diag. cbn. apply app_nil_r. }
  destruct (max_version <? u_at 4 8 h); [discriminate|].
  destruct (u_at 4 8 h =? 0) eqn:E0.
  - destruct (negb (u_at 0 2 h =? FJ_MAGIC)); [discriminate|].
    destruct (negb (supported_width (u_at 2 2 h))); [discriminate|]. cbn [negb N.eqb].
    destruct (N.of_nat (length r1) <? 32 * u_at 12 8 h) eqn:El; [discriminate|].
    destruct (read_segs (N.to_nat (u_at 12 8 h)) r1) as [[table payload]|] eqn:Es; [|discriminate].
    destruct (word_bytes (u_at 2 2 h)) as [wb|] eqn:Ew; [|discriminate].
    apply N.eqb_eq in E0. rewrite E0. cbn [N.eqb orb].
    destruct (unpack_words (length payload) wb payload) as [data| |] eqn:Eu; try discriminate.
    destruct (validate_segments table); [discriminate|].
    destruct (init_memory thr (u_at 2 2 h) false data (N.of_nat (length data)) (PositiveMap.empty N) table)
      as [segs m z| |] eqn:Em; try discriminate.
    intros H. injection H as <-. cbn [i_table i_segs i_ver i_w i_pool_len i_mem i_zeros]. cbv zeta.
    destruct (read_segs_length _ _ _ _ Es) as [L1 L2].
    destruct (init_memory_bound _ _ _ _ _ _ _ _ _ Em) as (C1 & C2 & C3).
    assert (Esk : skipn (header_size 0 + 32 * length table) b = payload).
    { clear - Eb Lh Es L1 L2. unfold header_size. cbn [N.eqb].
      destruct (read_segs_split _ _ _ _ Es) as (tb & -> & Ltb). rewrite <- L1 in Ltb.
      rewrite Eb. replace (20 + 32 * length table)%nat with (length (h ++ tb)) by (rewrite app_length; lia).
      rewrite app_assoc, skipn_app, Nat.sub_diag, skipn_all. reflexivity. }
    rewrite Hh. repeat split.
    + lia.
    + rewrite C3. reflexivity.
    + unfold header_size. cbn [N.eqb]. rewrite Eb, app_length. lia.
    + exists wb, payload. split; [exact Ew|]. split; [symmetry; exact Esk|].
      rewrite Nat2N.id. apply (unpack_words_length wb _ _ _ Eu).
    + change (card (PositiveMap.empty N)) with 0%nat in C1. rewrite Nat2N.id. lia.
    + exact C2.
  - destruct (take header_extension_size r1) as [[e0 r2]|] eqn:Ee; [|discriminate].
    apply take_some in Ee. destruct Ee as [Er1 Le]. unfold header_extension_size in Le.
    destruct (negb (u_at 0 2 h =? FJ_MAGIC)); [discriminate|].
    destruct (negb (supported_width (u_at 2 2 h))); [discriminate|].
    destruct (negb (u_at 8 4 e0 =? 0)); [discriminate|].
    destruct (N.of_nat (length r2) <? 32 * u_at 12 8 h) eqn:El; [discriminate|].
    destruct (read_segs (N.to_nat (u_at 12 8 h)) r2) as [[table payload]|] eqn:Es; [|discriminate].
    destruct (word_bytes (u_at 2 2 h)) as [wb|] eqn:Ew; [|discriminate].
    destruct (if u_at 4 8 h =? 3 then decompress payload else Some payload) as [fd|] eqn:Efd; [|discriminate].
    destruct (unpack_words (length fd) wb fd) as [data| |] eqn:Eu; try discriminate.
    destruct (validate_segments table); [discriminate|].
    destruct (init_memory thr (u_at 2 2 h) ((u_at 4 8 h =? 2) || (u_at 4 8 h =? 3)) data (N.of_nat (length data))
                          (PositiveMap.empty N) table) as [segs m z| |] eqn:Em; try discriminate.
    intros H. injection H as <-. cbn [i_table i_segs i_ver i_w i_pool_len i_mem i_zeros]. cbv zeta.
    destruct (read_segs_length _ _ _ _ Es) as [L1 L2].
    destruct (init_memory_bound _ _ _ _ _ _ _ _ _ Em) as (C1 & C2 & C3).
    assert (Esk : skipn (header_size (u_at 4 8 h) + 32 * length table) b = payload).
    { clear - Eb Lh Er1 Le Es L1 L2 E0. unfold header_size. rewrite E0.
      destruct (read_segs_split _ _ _ _ Es) as (tb & -> & Ltb). rewrite <- L1 in Ltb.
      rewrite Eb, Er1. 
      replace (32 + 32 * length table)%nat with (length ((h ++ e0) ++ tb)) by (rewrite !app_length; lia).
      rewrite !app_assoc. rewrite skipn_app, Nat.sub_diag, skipn_all. reflexivity. }
    rewrite Hh. repeat split.
    + lia.
    + rewrite C3. reflexivity.
    + unfold header_size. rewrite E0. rewrite Eb, Er1, !app_length. lia.
    + exists wb, fd. split; [exact Ew|]. split.
      * rewrite Esk. destruct (u_at 4 8 h =? 3); [exact Efd | now injection Efd as <-].
      * rewrite Nat2N.id. apply (unpack_words_length wb _ _ _ Eu).
    + change (card (PositiveMap.empty N)) with 0%nat in C1. rewrite Nat2N.id. lia.
    + exact C2.
Qed.
