From FJ Require Import Lib.Base.
(* GLUE, running side: the engine theorems (C01: EngPyProps, Native*Props) composed with the file theorems (C06/C10:
   FjmProps) through Proofs/GlueLoad.v, so that the statements go from the FILE the user runs down to the machine
   definition Spec/MachineSpec.v.

   Contents
     1. `run_equiv`            two machine memories represented by the same Reader state run identically
     2. `image_run_python`     featured / fast loop from a Reader state showing L  =  MachineSpec.run on lmem L
     3. `dict_runs`            the loop of fjm_run._run_native that groups sorted(mem.memory) into contiguous runs;
        `reader_runs_correct`  it satisfies the loader precondition (run_ok) and loads exactly the dict's words
     4. `image_run_native`     load_image (dict_runs dict) + Memory_run, any knobs  =  MachineSpec.run on lmem L
     5. `file_run_python`, `file_run_native`, `file_run_all_engines_agree`: the same from the writer's call sequence
        (hypotheses of C06_roundtrip; LZMA is a Section variable pair with the round-trip hypothesis) *)
From FJ Require Import Lib.Bits Lib.Bytes Spec.MachineSpec Spec.ImageSpec Model.Fjm Model.EngPy Model.RunCase
     Model.EngNative Model.NativeCase
     Proofs.FjmCodec Proofs.FjmReader Proofs.FjmWriter Proofs.FjmProps Proofs.EngPyProps
     Proofs.NativeMemProps Proofs.NativeFlatProps Proofs.NativePagedProps Proofs.GlueLoad.
Local Open Scope N_scope.

(* ---- the observables, stated explicitly ----------------------------------------------------------------------- *)

(* the Reader-based start state of both Python loops: ip = 0, the Reader's dict, the input bits, nothing executed *)
Definition py_start (pm : mem) (input : list bool) : pst := mkpst 0 pm input [] 0 [].

Definition py_loop (featured : bool) (ww : N) (zeros : list (N * N)) : pst -> pst + (cause * pst) :=
  if featured then featured_step ww zeros else fast_step ww zeros.

(* a Python-loop result p shows the machine result r: same cause (a memory error carries its fault address), op count,
   output bits, remaining input, list of started op addresses, final ip; and the final Reader state answers every
   word address like the machine's final memory (Some v inside a segment, None outside) *)
Definition py_obs_eq (sg zeros : list (N * N)) (r : cause * st) (p : cause * pst) : Prop :=
  fst p = fst r /\ p_ops (snd p) = ops (snd r) /\ p_out (snd p) = outp (snd r) /\ p_inp (snd p) = inp (snd r) /\
  p_hist (snd p) = hist (snd r) /\ p_ip (snd p) = ip (snd r) /\
  forall a, py_lookup zeros (p_mem (snd p)) a = rdw sg (m (snd r)) a.

(* a native result (cause, final loop state, last-ops list) shows the machine result r: same cause incl. fault
   address, op count modulo 2^64 (a uint64_t), output, remaining input, the last-ops list is the last k started ops
   (oldest first), and every in-segment word read back through Memory.get_word is the machine's final word *)
Definition native_obs_eq (sg : list (N * N)) (k : knobs) (r : cause * st) (cs : ncause) (ns : nst) (last : list N) : Prop :=
  cs = NC (fst r) /\ s_ops ns = u64 (ops (snd r)) /\ s_out ns = outp (snd r) /\ s_inp ns = inp (snd r) /\
  last = (if 0 <? k_last_ops k then rev (firstn (N.to_nat (k_last_ops k)) (hist (snd r))) else []) /\
  forall a v, rdw sg (m (snd r)) a = Some v -> snd (Memory_get_word (s_m ns) a) = v.

(* ---- 1. machine runs do not distinguish memories that one Reader state represents ----------------------------- *)
Section MachineExt.
Variable ww : N.
Hypothesis Hww : 3 <= ww.
Variable sg : list (N * N).

Lemma W_pos : 0 < 2 ^ MachineSpec.w ww.
Proof. apply N.neq_0_lt_0. apply N.pow_nonzero. discriminate. Qed.

Lemma start_stR zeros pm m0 input : EngPyProps.memR ww sg zeros pm m0 ->
  EngPyProps.stR ww sg zeros (init m0 input) (py_start pm input).
Proof. intros R. unfold EngPyProps.stR, init, py_start. cbn. repeat split; try reflexivity; apply R. Qed.

Theorem py_run_obs zeros pm m0 featured input fuel : EngPyProps.memR ww sg zeros pm m0 ->
  py_obs_eq sg zeros (run ww sg fuel (init m0 input)) (run_py (py_loop featured ww zeros) fuel (py_start pm input)).
Proof.
  intros R. pose proof (start_stR zeros pm m0 input R) as S.
  assert (O : EngPyProps.obsR ww sg zeros (run ww sg fuel (init m0 input))
                              (run_py (py_loop featured ww zeros) fuel (py_start pm input))).
  { destruct featured; cbn [py_loop].
    - apply (featured_run_correct ww Hww sg zeros fuel _ _ S). apply W_pos.
    - apply (fast_run_correct ww Hww sg zeros fuel _ _ S). apply W_pos. }
  destruct O as [Oc (E1 & E2 & E3 & E4 & E5 & [M1 _])].
  unfold py_obs_eq. repeat split; try (symmetry; assumption); try exact M1.
Qed.

Theorem run_equiv zeros pm m1 m2 input fuel :
  EngPyProps.memR ww sg zeros pm m1 -> EngPyProps.memR ww sg zeros pm m2 ->
  let r1 := run ww sg fuel (init m1 input) in
  let r2 := run ww sg fuel (init m2 input) in
  fst r1 = fst r2 /\ ops (snd r1) = ops (snd r2) /\ outp (snd r1) = outp (snd r2) /\ inp (snd r1) = inp (snd r2) /\
  hist (snd r1) = hist (snd r2) /\ ip (snd r1) = ip (snd r2) /\
  forall a, rdw sg (m (snd r1)) a = rdw sg (m (snd r2)) a.
Proof.
  intros R1 R2 r1 r2.
  destruct (py_run_obs zeros pm m1 true input fuel R1) as (A0 & A1 & A2 & A3 & A4 & A5 & A6).
  destruct (py_run_obs zeros pm m2 true input fuel R2) as (B0 & B1 & B2 & B3 & B4 & B5 & B6).
  fold r1 in A0, A1, A2, A3, A4, A5, A6. fold r2 in B0, B1, B2, B3, B4, B5, B6.
  repeat split; try congruence. all: intros a; now rewrite <- A6, <- B6.
Qed.

End MachineExt.

(* ---- 2. the Python loops from a Reader state that shows the declared image L --------------------------------------- *)
Theorem image_run_python ww segs pm zeros L :
  3 <= ww -> same_image segs pm zeros L -> representable (MachineSpec.w ww) L = true ->
  forall featured input fuel,
    py_obs_eq (lsegs L) zeros (run ww (lsegs L) fuel (init (lmem L) input))
              (run_py (py_loop featured ww zeros) fuel (py_start pm input)).
Proof.
  intros Hww S R featured input fuel. apply (py_run_obs ww Hww). now apply (image_memR_lmem ww segs).
Qed.

(* ---- 3. fjm_run._run_native: sorted(mem.memory) grouped into contiguous runs, one core.set_words per run ----------- *)

(* sorted(...) of the dict's keys (any sort returns the same list; insertion sort here) *)
Fixpoint insert_key (x : N) (l : list N) : list N :=
  match l with [] => [x] | y :: r => if x <=? y then x :: l else y :: insert_key x r end.
Definition sort_keys (l : list N) : list N := fold_right insert_key [] l.
Definition dict_keys (pm : mem) : list N :=
  sort_keys (map (fun kv => Pos.pred_N (fst kv)) (PositiveMap.elements pm)).

(* the loop.  cur = (run_start, next_address, run_values) or None (run_start is None); `done` = the set_words calls
   made so far, in order:
       for address in sorted(mem.memory):
           if run_start is None or address != next_address:
               if run_start is not None: core.set_words(run_start, run_values)
               run_start, run_values = address, []
           run_values.append(mem.memory[address]); next_address = address + 1
       if run_start is not None: core.set_words(run_start, run_values)                                           *)
Fixpoint runs_loop (pm : mem) (keys : list N) (cur : option (N * N * list N)) (done : list (N * list N))
  : list (N * list N) :=
  match keys with
  | [] => match cur with Some (s, _, vals) => done ++ [(s, vals)] | None => done end
  | a :: r =>
    match cur with
    | Some (s, next, vals) =>
      if a =? next then runs_loop pm r (Some (s, a + 1, vals ++ [mget0 pm a])) done
      else runs_loop pm r (Some (a, a + 1, [mget0 pm a])) (done ++ [(s, vals)])
    | None => runs_loop pm r (Some (a, a + 1, [mget0 pm a])) done
    end
  end.

Definition dict_runs (pm : mem) : list (N * list N) := runs_loop pm (dict_keys pm) None [].

(* the machine memory the loader's set_words calls build (NativePagedProps.store_words per run, from empty) *)
Definition loaded_mem (ww : N) (runs : list (N * list N)) : mem :=
  fold_left (fun mm r => store_words ww mm (fst r) (snd r)) runs (PositiveMap.empty N).

Definition run_pairs (r : N * list N) : list (N * N) := vals_from (fst r) (snd r).

Lemma succ_pos_pred p : N.succ_pos (Pos.pred_N p) = p.
Proof. destruct p; cbn; try reflexivity. apply Pos.succ_pred_double. Qed.

Lemma insert_key_in x y l : In y (insert_key x l) <-> y = x \/ In y l.
Proof.
  induction l as [|z l IH]; cbn [insert_key In]; [intuition|].
  destruct (x <=? z); cbn [In]; [intuition|]. rewrite IH. intuition.
Qed.

Lemma sort_keys_in y l : In y (sort_keys l) <-> In y l.
Proof.
  induction l as [|z l IH]; [reflexivity|]. unfold sort_keys in *. cbn [fold_right In].
  rewrite insert_key_in, IH. intuition.
Qed.

Lemma dict_keys_spec pm a : In a (dict_keys pm) <-> exists v, mget pm a = Some v.
Proof.
  unfold dict_keys. rewrite sort_keys_in, in_map_iff. split.
  - intros ([i v] & <- & Hin). exists v. apply PositiveMap.elements_complete in Hin.
    unfold mget, key. cbn [fst]. now rewrite succ_pos_pred.
  - intros [v Hv]. exists (key a, v). split; [apply N.pos_pred_succ|].
    now apply PositiveMap.elements_correct.
Qed.

Lemma vals_from_app a vs x : vals_from a (vs ++ [x]) = vals_from a vs ++ [(a + N.of_nat (length vs), x)].
Proof.
  revert a. induction vs as [|v vs IH]; intros a; cbn [app vals_from length].
  - now rewrite N.add_0_r.
  - rewrite IH. cbn [app]. replace (a + N.of_nat (S (length vs))) with (a + 1 + N.of_nat (length vs)) by lia. reflexivity.
Qed.

Lemma vals_from_nth vs : forall a j, (j < length vs)%nat -> In (a + N.of_nat j, nth j vs 0) (vals_from a vs).
Proof.
  induction vs as [|v vs IH]; intros a j Hj; cbn [length] in Hj; [lia|]. cbn [vals_from].
  destruct j as [|j]; [left; cbn [nth]; f_equal; lia|]. right. cbn [nth].
  replace (a + N.of_nat (S j)) with (a + 1 + N.of_nat j) by lia. apply IH. lia.
Qed.

Definition cur_pairs (cur : option (N * N * list N)) : list (N * N) :=
  match cur with Some (s, _, vals) => vals_from s vals | None => [] end.
Definition cur_ok (cur : option (N * N * list N)) : Prop :=
  match cur with Some (s, next, vals) => next = s + N.of_nat (length vals) /\ vals <> [] | None => True end.

(* the set_words calls, flattened to (address, value) pairs, are exactly (key, dict[key]) over the sorted keys *)
Lemma runs_loop_pairs pm keys : forall cur done, cur_ok cur ->
  flat_map run_pairs (runs_loop pm keys cur done) =
  flat_map run_pairs done ++ cur_pairs cur ++ map (fun a => (a, mget0 pm a)) keys.
Proof.
  induction keys as [|a r IH]; intros cur done Hc; cbn [runs_loop map].
  - destruct cur as [[[s next] vals]|]; cbn [cur_pairs].
    + rewrite flat_map_app. cbn [flat_map run_pairs fst snd]. now rewrite !app_nil_r.
    + now rewrite !app_nil_r.
  - destruct cur as [[[s next] vals]|]; cbn [cur_pairs cur_ok] in *.
    + destruct Hc as [Hn Hne]. destruct (N.eqb_spec a next) as [->|Hneq].
      * rewrite IH by (cbn [cur_ok]; rewrite app_length; cbn [length]; split; [lia | now destruct vals]).
        cbn [cur_pairs]. rewrite vals_from_app, <- Hn, <- !app_assoc. reflexivity.
      * rewrite IH by (cbn [cur_ok length]; split; [lia | discriminate]).
        rewrite flat_map_app. cbn [flat_map run_pairs fst snd cur_pairs vals_from]. now rewrite app_nil_r, <- !app_assoc.
    + rewrite IH by (cbn [cur_ok length]; split; [lia | discriminate]). reflexivity.
Qed.

Lemma runs_loop_nonempty pm keys : forall cur done, cur_ok cur -> Forall (fun r => snd r <> []) done ->
  Forall (fun r => snd r <> []) (runs_loop pm keys cur done).
Proof.
  induction keys as [|a r IH]; intros cur done Hc Hd; cbn [runs_loop].
  - destruct cur as [[[s next] vals]|]; [|exact Hd]. apply Forall_app. split; [exact Hd|]. constructor; [|constructor].
    apply Hc.
  - destruct cur as [[[s next] vals]|]; cbn [cur_ok] in *.
    + destruct Hc as [Hn Hne]. destruct (N.eqb_spec a next) as [->|Hneq].
      * apply IH; [|exact Hd]. cbn [cur_ok]. rewrite app_length. cbn [length]. split; [lia | now destruct vals].
      * apply IH; [cbn [cur_ok length]; split; [lia | discriminate]|]. apply Forall_app. split; [exact Hd|]. now repeat constructor.
    + apply IH; [cbn [cur_ok length]; split; [lia | discriminate] | exact Hd].
Qed.

Lemma dict_runs_pairs pm : flat_map run_pairs (dict_runs pm) = map (fun a => (a, mget0 pm a)) (dict_keys pm).
Proof. unfold dict_runs. now rewrite runs_loop_pairs by exact I. Qed.

Lemma store_words_pairs ww vals : forall mm a,
  store_words ww mm a vals = fold_left (fun mx p => mset mx (fst p) (N.land (snd p) (wmask ww))) (vals_from a vals) mm.
Proof. induction vals as [|v r IH]; intros mm a; cbn [store_words vals_from fold_left fst snd]; [reflexivity | apply IH]. Qed.

Lemma fold_runs_pairs ww runs : forall mm,
  fold_left (fun mx r => store_words ww mx (fst r) (snd r)) runs mm =
  fold_left (fun mx p => mset mx (fst p) (N.land (snd p) (wmask ww))) (flat_map run_pairs runs) mm.
Proof.
  induction runs as [|r rs IH]; intros mm; cbn [fold_left flat_map]; [reflexivity|].
  now rewrite fold_left_app, IH, store_words_pairs.
Qed.

Lemma mget_fold_keys (f g : N -> N) keys : forall mm x,
  mget (fold_left (fun mx p => mset mx (fst p) (f (snd p))) (map (fun a => (a, g a)) keys) mm) x =
  if existsb (N.eqb x) keys then Some (f (g x)) else mget mm x.
Proof.
  induction keys as [|a r IH]; intros mm x; cbn [map fold_left existsb fst snd]; [reflexivity|].
  rewrite IH. destruct (existsb (N.eqb x) r); [now rewrite orb_true_r|]. rewrite orb_false_r.
  destruct (N.eqb_spec x a) as [->|Hn]; [apply mget_mset_same | apply mget_mset_other; congruence].
Qed.

Lemma existsb_eqb_in x l : existsb (N.eqb x) l = true <-> In x l.
Proof.
  rewrite existsb_exists. split; [intros (y & Hy & E); apply N.eqb_eq in E; now subst | intros H; exists x; now rewrite N.eqb_refl].
Qed.

Section ReaderRuns.
Variable ww : N.
Hypothesis Hww : 3 <= ww <= 6.
Variable sg : list (N * N).
Hypothesis Hload : loadable_segs ww sg = true.
Variable pm : mem.
Hypothesis Hkeys : forall a v, mget pm a = Some v -> valid sg a = true.       (* every dict key is inside a segment *)
Hypothesis Hwords : forall a v, mget pm a = Some v -> v < 2 ^ MachineSpec.w ww. (* every dict word is below 2^w *)

(* the set_words calls of _run_native store exactly the dict: same keys, same words *)
Theorem dict_runs_load_dict : forall a, mget (loaded_mem ww (dict_runs pm)) a = mget pm a.
Proof using Hwords.
  intros a. unfold loaded_mem. rewrite fold_runs_pairs, dict_runs_pairs.
  rewrite (mget_fold_keys (fun v => N.land v (wmask ww)) (mget0 pm)), mget_empty.
  destruct (existsb (N.eqb a) (dict_keys pm)) eqn:E.
  - apply existsb_eqb_in, dict_keys_spec in E. destruct E as [v Hv]. unfold mget0. rewrite Hv. f_equal.
    unfold wmask. apply land_ones_small. now apply (Hwords a).
  - destruct (mget pm a) as [v|] eqn:Hv; [|reflexivity].
    assert (In a (dict_keys pm)) by (apply dict_keys_spec; now exists v).
    apply existsb_eqb_in in H. congruence.
Qed.

(* ... and every call meets the precondition under which set_words is proved (NativePagedProps.run_ok): all its
   addresses are inside segments and its end is below 2^64 bits *)
Theorem dict_runs_ok : Forall (run_ok ww sg) (dict_runs pm).
Proof using All.
  assert (Hne : Forall (fun r => snd r <> []) (dict_runs pm)).
  { unfold dict_runs. apply runs_loop_nonempty; [exact I | constructor]. }
  rewrite Forall_forall in Hne. apply Forall_forall. intros r Hr.
  assert (Hv : forall j, (j < length (snd r))%nat -> valid sg (fst r + N.of_nat j) = true).
  { intros j Hj.
    assert (Hin : In (fst r + N.of_nat j, nth j (snd r) 0) (flat_map run_pairs (dict_runs pm))).
    { apply in_flat_map. exists r. split; [exact Hr|]. unfold run_pairs. now apply vals_from_nth. }
    rewrite dict_runs_pairs in Hin. apply in_map_iff in Hin. destruct Hin as (a & Ea & Ha).
    injection Ea as Ea _. rewrite <- Ea. apply dict_keys_spec in Ha. destruct Ha as [v Ha]. now apply (Hkeys a v). }
  split; [|exact Hv].
  specialize (Hne r Hr). destruct (snd r) as [|v0 vs] eqn:Es; [congruence|]. clear Hne.
  specialize (Hv (length vs) ltac:(cbn [length]; lia)).
  pose proof (NativeMemProps.valid_lt ww Hww sg Hload None _ Hv) as Hlt.
  pose proof (NativeMemProps.wlim_M64 ww Hww) as HM. pose proof (NativeMemProps.w_bounds ww Hww) as Hw.
  cbn [length]. nia.
Qed.

End ReaderRuns.

(* reader_runs_correct: for a Reader state (pm, zeros) on loadable segments sg that denotes some machine memory m0 -
   i.e. for every state produced by the Reader (GlueLoad.reader_denotes / image_memR) - the runs of _run_native meet
   the loader precondition, and the memory they load is the dict, word for word; hence it is represented by the same
   Reader state as m0 *)
Theorem reader_runs_correct ww sg zeros pm m0 :
  3 <= ww <= 6 -> loadable_segs ww sg = true -> EngPyProps.memR ww sg zeros pm m0 ->
  Forall (run_ok ww sg) (dict_runs pm) /\
  (forall a, mget (loaded_mem ww (dict_runs pm)) a = mget pm a) /\
  EngPyProps.memR ww sg zeros pm (loaded_mem ww (dict_runs pm)).
Proof.
  intros Hww Hload [R1 R2].
  assert (Hkeys : forall a v, mget pm a = Some v -> valid sg a = true).
  { intros a v Hv. specialize (R1 a). unfold py_lookup in R1. rewrite Hv in R1. unfold rdw in R1.
    destruct (valid sg a); [reflexivity | discriminate]. }
  pose proof (dict_runs_load_dict ww pm R2) as Hl.
  split; [exact (dict_runs_ok ww Hww sg Hload pm Hkeys R2)|]. split; [exact Hl|]. split; [|exact R2].
  intros a. specialize (R1 a). unfold rdw, mget0 in *. rewrite Hl. unfold py_lookup in *.
  destruct (mget pm a) as [v|] eqn:Hv.
  - now rewrite (Hkeys a v Hv).
  - destruct (valid sg a), (in_zb zeros a); congruence.
Qed.

(* ---- 3b. the campaign's derivation of the runs (NativeCase.reader_runs) ---------------------------------------------- *)
(* The C01/C07 campaigns feed the native model with NativeCase.reader_runs: the key ranges of the Reader's dict are
   recomputed from the segments and data lengths (reader_ranges), sorted, merged when adjacent, and filled from the
   case's word list.  Here: whenever those ranges cover exactly the dict's keys and the word list agrees with the dict
   (both hold for a case that describes an accepted file - see campaign_reader_runs below), these runs meet the same
   loader precondition and load the same memory as the real grouping `dict_runs`. *)

Fixpoint nrange (a : N) (n : nat) : list N := match n with O => [] | S k => a :: nrange (a + 1) k end.

Definition has (pm : mem) (x : N) : bool := match mget pm x with Some _ => true | None => false end.
Definition cover (l : list (N * N)) (x : N) : bool := existsb (in_range x) l.
Definition range_addrs (r : N * N) : list N := nrange (fst r) (N.to_nat (snd r - fst r)).

Lemma nrange_snoc n : forall a, nrange a (S n) = nrange a n ++ [a + N.of_nat n].
Proof.
  induction n as [|n IH]; intros a; [cbn; now rewrite N.add_0_r|].
  change (nrange a (S (S n))) with (a :: nrange (a + 1) (S n)). rewrite IH. cbn [nrange app].
  replace (a + 1 + N.of_nat n) with (a + N.of_nat (S n)) by lia. reflexivity.
Qed.

Lemma nrange_in n : forall a x, In x (nrange a n) <-> a <= x < a + N.of_nat n.
Proof.
  induction n as [|n IH]; intros a x; cbn [nrange In]; [lia|]. rewrite IH. lia.
Qed.

Lemma nrange_length n : forall a, length (nrange a n) = n.
Proof. induction n as [|n IH]; intros a; cbn [nrange length]; [reflexivity | now rewrite IH]. Qed.

Lemma vals_rev_range wm n : forall hi acc, N.of_nat n <= hi ->
  vals_rev wm hi n acc = map (mget0 wm) (nrange (hi - N.of_nat n) n) ++ acc.
Proof.
  induction n as [|n IH]; intros hi acc Hn; [reflexivity|].
  cbn [vals_rev]. rewrite IH by lia. rewrite nrange_snoc, map_app, <- app_assoc. cbn [map app].
  replace (hi - 1 - N.of_nat n) with (hi - N.of_nat (S n)) by lia.
  replace (hi - N.of_nat (S n) + N.of_nat n) with (hi - 1) by lia. reflexivity.
Qed.

Lemma vals_from_map (g : N -> N) n : forall a, vals_from a (map g (nrange a n)) = map (fun x => (x, g x)) (nrange a n).
Proof. induction n as [|n IH]; intros a; cbn [nrange map vals_from]; [reflexivity | now rewrite IH]. Qed.

Lemma map_flat_map (A B C : Type) (f : B -> C) (g : A -> list B) l :
  map f (flat_map g l) = flat_map (fun x => map f (g x)) l.
Proof. induction l as [|x l IH]; [reflexivity|]. cbn [flat_map]. now rewrite map_app, IH. Qed.

Lemma flat_map_map' (A B C : Type) (f : A -> B) (g : B -> list C) l :
  flat_map g (map f l) = flat_map (fun x => g (f x)) l.
Proof. induction l as [|x l IH]; [reflexivity|]. cbn [map flat_map]. now rewrite IH. Qed.

Lemma flat_map_ext_in (A B : Type) (f g : A -> list B) l : (forall x, In x l -> f x = g x) -> flat_map f l = flat_map g l.
Proof.
  induction l as [|x l IH]; intros H; [reflexivity|]. cbn [flat_map].
  rewrite (H x (or_introl eq_refl)), IH; [reflexivity | intros y Hy; apply H; now right].
Qed.

Lemma cover_addrs l x : existsb (N.eqb x) (flat_map range_addrs l) = cover l x.
Proof.
  apply eq_true_iff_eq. rewrite existsb_eqb_in, in_flat_map. unfold cover. rewrite existsb_exists.
  split; intros (r & Hr & Hx); exists r; (split; [exact Hr|]); unfold range_addrs, in_range in *.
  - apply nrange_in in Hx. lia.
  - apply nrange_in. lia.
Qed.

Definition nonempty (r : N * N) : Prop := fst r < snd r.

Lemma merge_runs_cover l : Forall nonempty l ->
  Forall nonempty (merge_runs l) /\ forall x, cover (merge_runs l) x = cover l x.
Proof.
  induction 1 as [|[a b] r Hab Hr [IH1 IH2]]; [split; [constructor | reflexivity]|].
  cbn [merge_runs]. unfold nonempty in Hab. cbn [fst snd] in Hab.
  destruct (merge_runs r) as [|[c d] r'] eqn:Em.
  - split; [now repeat constructor|]. intros x. specialize (IH2 x). unfold cover in *. cbn [existsb] in *. now rewrite <- IH2.
  - inversion IH1 as [|? ? Hcd Hr']; subst. unfold nonempty in Hcd. cbn [fst snd] in Hcd.
    destruct (N.eqb_spec b c) as [->|Hn].
    + split; [constructor; [unfold nonempty; cbn [fst snd]; lia | exact Hr']|].
      intros x. specialize (IH2 x). unfold cover in *. cbn [existsb] in *. rewrite <- IH2.
      rewrite orb_assoc. f_equal. unfold in_range. cbn [fst snd]. lia.
    + split; [constructor; [exact Hab | exact IH1]|].
      intros x. specialize (IH2 x). unfold cover in *. cbn [existsb] in *. now rewrite <- IH2.
Qed.

Lemma cover_sort l x : cover (seg_sort l) x = cover l x.
Proof.
  apply eq_true_iff_eq. unfold cover. rewrite !existsb_exists.
  split; intros (r & Hr & Hx); exists r; (split; [|exact Hx]).
  - exact (proj1 (NativeMemProps.seg_sort_in r l) Hr).
  - exact (proj2 (NativeMemProps.seg_sort_in r l) Hr).
Qed.

Lemma cover_filter l x : cover (filter (fun r => fst r <? snd r) l) x = cover l x.
Proof.
  unfold cover. induction l as [|r l IH]; [reflexivity|]. cbn [filter existsb].
  destruct (fst r <? snd r) eqn:E; cbn [existsb]; rewrite IH; [reflexivity|].
  replace (in_range x r) with false by (unfold in_range; lia). reflexivity.
Qed.

(* the key ranges that reader_runs turns into set_words calls *)
Definition case_ranges (c : rcase) : list (N * N) :=
  merge_runs (seg_sort (filter (fun r => fst r <? snd r) (reader_ranges c.(c_segs) c.(c_dlen)))).

Lemma case_ranges_spec c :
  Forall nonempty (case_ranges c) /\ forall x, cover (case_ranges c) x = cover (reader_ranges c.(c_segs) c.(c_dlen)) x.
Proof.
  unfold case_ranges.
  set (rs := filter (fun r => fst r <? snd r) (reader_ranges (c_segs c) (c_dlen c))).
  assert (Hne : Forall nonempty (seg_sort rs)).
  { apply Forall_forall. intros r Hr. apply (proj1 (NativeMemProps.seg_sort_in r rs)) in Hr. unfold rs in Hr. apply filter_In in Hr.
    destruct Hr as [_ Hr]. unfold nonempty. lia. }
  destruct (merge_runs_cover _ Hne) as [M1 M2]. split; [exact M1|].
  intros x. rewrite M2, cover_sort. apply cover_filter.
Qed.

Lemma reader_runs_pairs c :
  flat_map run_pairs (reader_runs c) =
  map (fun x => (x, mget0 (mem_of_list c.(c_words)) x)) (flat_map range_addrs (case_ranges c)).
Proof.
  unfold reader_runs. fold (case_ranges c). destruct (case_ranges_spec c) as [Hne _].
  rewrite flat_map_map', map_flat_map. apply flat_map_ext_in. intros r Hr.
  rewrite Forall_forall in Hne. specialize (Hne r Hr). unfold nonempty in Hne.
  unfold run_pairs, range_addrs. cbn [fst snd]. rewrite vals_rev_range by lia. rewrite app_nil_r.
  replace (snd r - N.of_nat (N.to_nat (snd r - fst r))) with (fst r) by lia. apply vals_from_map.
Qed.

Section CampaignRuns.
Variable ww : N.
Hypothesis Hww : 3 <= ww <= 6.
Variable sg : list (N * N).
Hypothesis Hload : loadable_segs ww sg = true.
Variable pm : mem.                                                               (* the real Reader's dict *)
Hypothesis Hkeys : forall a v, mget pm a = Some v -> valid sg a = true.
Hypothesis Hwords : forall a v, mget pm a = Some v -> v < 2 ^ MachineSpec.w ww.
Variable c : rcase.
Hypothesis Hcover : forall x, cover (reader_ranges c.(c_segs) c.(c_dlen)) x = has pm x.
Hypothesis Hvals : forall x, mget0 (mem_of_list c.(c_words)) x = mget0 pm x.

Theorem reader_runs_load_dict : forall a, mget (loaded_mem ww (reader_runs c)) a = mget pm a.
Proof using Hwords Hcover Hvals.
  intros a. unfold loaded_mem. rewrite fold_runs_pairs, reader_runs_pairs.
  rewrite (mget_fold_keys (fun v => N.land v (wmask ww)) (mget0 (mem_of_list (c_words c)))), mget_empty.
  rewrite cover_addrs. destruct (case_ranges_spec c) as [_ ->]. rewrite Hcover, Hvals. unfold has, mget0.
  destruct (mget pm a) as [v|] eqn:Hv; [|reflexivity]. f_equal. unfold wmask. apply land_ones_small. now apply (Hwords a).
Qed.

Theorem reader_runs_ok : Forall (run_ok ww sg) (reader_runs c).
Proof using All.
  apply Forall_forall. intros r Hr. unfold reader_runs in Hr. fold (case_ranges c) in Hr.
  apply in_map_iff in Hr. destruct Hr as (q & <- & Hq). unfold run_ok. cbn [fst snd].
  destruct (case_ranges_spec c) as [Hne Hcv]. rewrite Forall_forall in Hne. pose proof (Hne q Hq) as Hq1. unfold nonempty in Hq1.
  rewrite vals_rev_range by lia. rewrite app_nil_r, map_length, nrange_length.
  assert (Hv : forall x, fst q <= x < snd q -> valid sg x = true).
  { intros x Hx. assert (Hc : cover (case_ranges c) x = true).
    { unfold cover. apply existsb_exists. exists q. split; [exact Hq|]. unfold in_range. lia. }
    rewrite Hcv, Hcover in Hc. unfold has in Hc. destruct (mget pm x) as [v|] eqn:E; [now apply (Hkeys x v) | discriminate]. }
  split.
  - pose proof (NativeMemProps.valid_lt ww Hww sg Hload None _ (Hv (snd q - 1) ltac:(lia))) as Hlt.
    pose proof (NativeMemProps.wlim_M64 ww Hww) as HM. pose proof (NativeMemProps.w_bounds ww Hww) as Hw. nia.
  - intros j Hj. apply Hv. lia.
Qed.

End CampaignRuns.

(* the ranges recomputed by reader_ranges are the key set of what py_image builds ... *)
Lemma py_image_cover segs : forall dl pm zbs x,
  has (fst (py_image segs dl pm zbs)) x = has pm x || cover (reader_ranges segs dl) x.
Proof.
  induction segs as [|[s l] segs IH]; intros dl pm zbs x.
  - cbn [py_image reader_ranges fst]. unfold cover. cbn [existsb]. now rewrite orb_false_r.
  - destruct dl as [|d dl].
    + cbn [py_image reader_ranges fst]. unfold cover. cbn [existsb]. now rewrite orb_false_r.
    + cbn [py_image reader_ranges]. unfold cover in *. cbn [existsb]. unfold in_range at 1. cbn [fst snd].
      set (R := existsb (in_range x) (reader_ranges segs dl)) in *.
      destruct (l - d <? 1000) eqn:E; rewrite IH; fold R; unfold has; rewrite !mget_zero_range;
        try destruct ((s + d <=? x) && (x <? s + d + N.of_nat (N.to_nat (l - d)))) eqn:C1;
        destruct ((s <=? x) && (x <? s + N.of_nat (N.to_nat d))) eqn:C2;
        destruct (mget pm x); destruct R; destruct (d <? l) eqn:C3; cbn; lia.
Qed.

(* ... hence, for a case that describes an accepted file (segments, data lengths and words of the file's image), the
   campaign's runs are loadable and load the Reader's dict: the native model in the campaign starts from the same
   machine memory as the real loader's grouping *)
Section CampaignFile.
Variable decompress : bytes -> option bytes.
Variable b : bytes.
Variable img : image.
Hypothesis Hread : Fjm.read decompress b = ROk img.
Hypothesis Hbytes : all_bytes b = true.
Hypothesis Hdec_bytes : forall z x, decompress z = Some x -> all_bytes x = true.
Variable c : rcase.
Hypothesis Hc_segs : c_segs c = i_segs img.
Hypothesis Hc_dlen : c_dlen c = map dl_of (i_table img).
Hypothesis Hsound : forall a v, In (a, v) (c_words c) -> mget (i_mem img) a = Some v.
Hypothesis Hcomplete : forall a v, mget (i_mem img) a = Some v -> v <> 0 -> In (a, v) (c_words c).
Hypothesis Hload : loadable_segs (ww_of (i_w img)) (i_segs img) = true.

Theorem campaign_reader_runs :
  Forall (run_ok (ww_of (i_w img)) (i_segs img)) (reader_runs c) /\
  (forall a, mget (loaded_mem (ww_of (i_w img)) (reader_runs c)) a = mget (i_mem img) a) /\
  (forall a, mget (loaded_mem (ww_of (i_w img)) (reader_runs c)) a =
             mget (loaded_mem (ww_of (i_w img)) (dict_runs (i_mem img))) a).
Proof using All.
  destruct (reader_width _ _ _ _ Hread) as [Hww Hwe].
  pose proof (reader_memR_self _ _ _ _ Hread Hbytes Hdec_bytes) as [R1 R2].
  assert (Hkeys : forall a v, mget (i_mem img) a = Some v -> valid (i_segs img) a = true).
  { intros a v Hv. specialize (R1 a). unfold py_lookup in R1. rewrite Hv in R1. unfold rdw in R1.
    destruct (valid (i_segs img) a); [reflexivity | discriminate]. }
  assert (Hcover : forall x, cover (reader_ranges (c_segs c) (c_dlen c)) x = has (i_mem img) x).
  { intros x. destruct (py_image_reader_keys decompress b img Hread) as (pm0 & EP & HP).
    pose proof (py_image_cover (i_segs img) (map dl_of (i_table img)) (PositiveMap.empty N) [] x) as C.
    rewrite EP in C. cbn [fst] in C. unfold has at 2 in C. rewrite mget_empty in C. cbn [orb] in C.
    rewrite Hc_segs, Hc_dlen, <- C. unfold has. rewrite HP. unfold zeroed. now destruct (mget (i_mem img) x). }
  pose proof (words_mget0 img (c_words c) Hsound Hcomplete) as Hvals.
  pose proof (reader_runs_load_dict _ (i_mem img) R2 c Hcover Hvals) as Hl.
  split; [exact (reader_runs_ok _ Hww _ Hload (i_mem img) Hkeys R2 c Hcover Hvals)|]. split; [exact Hl|].
  intros a. rewrite Hl. symmetry. apply dict_runs_load_dict. exact R2.
Qed.

End CampaignFile.

(* ---- 4. the native engine from a Reader state that shows the declared image L --------------------------------------- *)
Section NativeImage.
Variable ww : N.
Hypothesis Hww : 3 <= ww <= 6.
Variable segs : list (N * N).
Variable pm : mem.
Variable zeros : list (N * N).
Variable L : limage.
Hypothesis Himg : same_image segs pm zeros L.
Hypothesis Hrep : representable (MachineSpec.w ww) L = true.
Hypothesis Hload : loadable_segs ww (lsegs L) = true.

Theorem image_run_native fmw k input fuel nm lk cs ns last :
  load_image ww (lsegs L) fmw (dict_runs pm) = Some nm ->
  top_guard ww (lsegs L) fuel (init (lmem L) input) -> N.of_nat fuel < M64 -> k_last_ops k + k_last_ops k <= M64 ->
  Memory_run k nm input fuel = RunDone lk cs ns last ->
  native_obs_eq (lsegs L) k (run ww (lsegs L) fuel (init (lmem L) input)) cs ns last.
Proof using All.
  intros HL G Hf Hk HR.
  assert (Hww3 : 3 <= ww) by lia.
  pose proof (image_memR_lmem ww segs pm zeros L Himg Hrep) as RL.
  destruct (reader_runs_correct ww (lsegs L) zeros pm (lmem L) Hww Hload RL) as (Hok & _ & RM).
  fold (loaded_mem ww (dict_runs pm)) in *.
  destruct (run_equiv ww Hww3 (lsegs L) zeros pm _ _ input fuel RM RL) as (E0 & E1 & E2 & E3 & E4 & E5 & E6).
  assert (G' : top_guard ww (lsegs L) fuel (init (loaded_mem ww (dict_runs pm)) input)).
  { destruct G as [G|G]; [now left | right]. now rewrite E4. }
  destruct (native_end_to_end ww Hww (lsegs L) Hload fmw (dict_runs pm) nm k input fuel lk cs ns last Hok HL G' Hf Hk HR)
    as (C & O & P & Q & (fc' & MR) & LS).
  fold (loaded_mem ww (dict_runs pm)) in *.
  unfold native_obs_eq. rewrite <- E0, <- E1, <- E2, <- E3, <- E4.
  repeat split; try assumption.
  intros a v Hv. rewrite <- E6 in Hv. unfold rdw in Hv.
  destruct (valid (lsegs L) a) eqn:Va; [|discriminate]. injection Hv as <-.
  destruct (Memory_get_word (s_m ns) a) as [nm' x] eqn:Eg. cbn [snd].
  exact (proj1 (api_get_word_spec ww Hww (lsegs L) Hload fc' _ _ a nm' x MR Va Eg)).
Qed.

End NativeImage.

(* what `loadable_segs` (the hypothesis of the native theorems) adds to what the writer guarantees (representable):
   only that every segment ends inside the addressable range of w-bit addresses, 2^(w - ww) words *)
Definition addressable (ww : N) (L : limage) : bool :=
  forallb (fun s => l_start s + l_len s <=? N.shiftl 1 (MachineSpec.w ww - ww)) L.

Lemma representable_loadable ww L :
  representable (MachineSpec.w ww) L = true -> addressable ww L = true -> loadable_segs ww (lsegs L) = true.
Proof.
  unfold representable, addressable, loadable_segs. intros HR HA. apply andb_prop in HR. destruct HR as [Hrep Hdis].
  apply andb_true_intro. split.
  - unfold lsegs. rewrite forallb_forall in *. intros p Hp. apply in_map_iff in Hp. destruct Hp as (s & <- & Hs).
    specialize (Hrep s Hs). specialize (HA s Hs). unfold lseg_representable in Hrep.
    repeat (apply andb_prop in Hrep; destruct Hrep as [Hrep ?]).
    unfold seg_ok. cbn [fst snd]. rewrite HA, andb_true_r. repeat (apply andb_true_intro; split); assumption.
  - clear Hrep HA. induction L as [|s L IH]; [reflexivity|].
    cbn [pairwise] in Hdis. apply andb_prop in Hdis. destruct Hdis as [H1 H2].
    cbn [lsegs map pairwise_disjoint]. fold (lsegs L). rewrite (IH H2), andb_true_r. clear IH H2.
    induction L as [|t L IH]; [reflexivity|]. cbn [forallb] in H1. apply andb_prop in H1. destruct H1 as [Ha Hb].
    cbn [lsegs map disjoint_from fst snd]. fold (lsegs L). rewrite (IH Hb), andb_true_r. exact Ha.
Qed.

(* ---- 5. from the writer's calls to the machine definition ---------------------------------------------------------- *)
Section FromFile.
Variable compress : bytes -> option bytes.
Variable decompress : bytes -> option bytes.
Hypothesis lzma_roundtrip : forall x z, compress x = Some z -> decompress z = Some x.
Local Open Scope Z_scope.

(* what C06 + C10 give for a written file, with the width turned into the machine's parameter ww *)
Lemma written_file c thr ops res st file :
  cfg_valid c = true -> exec c ops ws_empty = (res, Some st) -> fits_u64 st = true -> write compress c st = WOk file ->
  exists img L,
    read_thr thr decompress file = ROk img /\ logical ops res [] = Some L /\
    same_image (i_segs img) (i_mem img) (i_zeros img) L /\
    (3 <= ww_of (i_w img) <= 6)%N /\ MachineSpec.w (ww_of (i_w img)) = i_w img /\ i_w img = Z.to_N (c_w c) /\
    representable (MachineSpec.w (ww_of (i_w img))) L = true.
Proof.
  intros V E F W.
  destruct (roundtrip compress decompress lzma_roundtrip c V thr ops res st file E F W)
    as (img & L & HR & HL & HS & Hw & _).
  destruct (accepted_representable c ops res st V E) as (L' & HL' & Hrep). rewrite HL in HL'. injection HL' as <-.
  destruct (reader_width thr decompress file img HR) as [Hww Hwe].
  exists img, L. split; [exact HR|]. split; [exact HL|]. split; [exact HS|]. split; [exact Hww|].
  split; [exact Hwe|]. split; [exact Hw|]. rewrite Hwe, Hw. exact Hrep.
Qed.

(* (a) every accepted writer call sequence, every input and fuel, both pure-Python loops *)
Theorem file_run_python c thr ops res st file :
  cfg_valid c = true -> exec c ops ws_empty = (res, Some st) -> fits_u64 st = true -> write compress c st = WOk file ->
  exists img L,
    read_thr thr decompress file = ROk img /\ logical ops res [] = Some L /\
    let ww := ww_of (Z.to_N (c_w c)) in
    forall featured input fuel,
      py_obs_eq (lsegs L) (i_zeros img)
                (run ww (lsegs L) fuel (init (lmem L) input))
                (run_py (py_loop featured ww (i_zeros img)) fuel (py_start (i_mem img) input)).
Proof.
  intros V E F W.
  destruct (written_file c thr ops res st file V E F W) as (img & L & HR & HL & HS & Hww & Hwe & Hw & Hrep).
  exists img, L. split; [exact HR|]. split; [exact HL|]. rewrite <- Hw. cbv zeta.
  intros featured input fuel. apply (image_run_python _ (i_segs img)); [lia | exact HS | exact Hrep].
Qed.

(* (b) the native engine, loaded as _run_native loads it, any flat_max_words and knobs, under the F1 guard *)
Theorem file_run_native c thr ops res st file :
  cfg_valid c = true -> exec c ops ws_empty = (res, Some st) -> fits_u64 st = true -> write compress c st = WOk file ->
  exists img L,
    read_thr thr decompress file = ROk img /\ logical ops res [] = Some L /\
    let ww := ww_of (Z.to_N (c_w c)) in
    addressable ww L = true ->
    forall fmw k input fuel nm lk cs ns last,
      load_image ww (lsegs L) fmw (dict_runs (i_mem img)) = Some nm ->
      top_guard ww (lsegs L) fuel (init (lmem L) input) ->
      (N.of_nat fuel < M64)%N -> (k_last_ops k + k_last_ops k <= M64)%N ->
      Memory_run k nm input fuel = RunDone lk cs ns last ->
      native_obs_eq (lsegs L) k (run ww (lsegs L) fuel (init (lmem L) input)) cs ns last.
Proof.
  intros V E F W.
  destruct (written_file c thr ops res st file V E F W) as (img & L & HR & HL & HS & Hww & Hwe & Hw & Hrep).
  exists img, L. split; [exact HR|]. split; [exact HL|]. rewrite <- Hw. cbv zeta.
  intros Haddr fmw k input fuel nm lk cs ns last.
  apply (image_run_native _ Hww (i_segs img) (i_mem img) (i_zeros img) L HS Hrep (representable_loadable _ L Hrep Haddr)).
Qed.

(* (c) the three engine models started from the same file agree on every observable (C01 + C07 from the file) *)
Theorem file_run_all_engines_agree c thr ops res st file :
  cfg_valid c = true -> exec c ops ws_empty = (res, Some st) -> fits_u64 st = true -> write compress c st = WOk file ->
  exists img L,
    read_thr thr decompress file = ROk img /\ logical ops res [] = Some L /\
    let ww := ww_of (Z.to_N (c_w c)) in
    forall input fuel,
      let pf := run_py (featured_step ww (i_zeros img)) fuel (py_start (i_mem img) input) in
      let pq := run_py (fast_step ww (i_zeros img)) fuel (py_start (i_mem img) input) in
      (* featured = fast *)
      (fst pf = fst pq /\ p_ops (snd pf) = p_ops (snd pq) /\ p_out (snd pf) = p_out (snd pq) /\
       p_inp (snd pf) = p_inp (snd pq) /\ p_hist (snd pf) = p_hist (snd pq) /\
       forall a, py_lookup (i_zeros img) (p_mem (snd pf)) a = py_lookup (i_zeros img) (p_mem (snd pq)) a) /\
      (* native = featured, for every storage layout / knob setting *)
      (addressable ww L = true ->
       forall fmw k nm lk cs ns last,
         load_image ww (lsegs L) fmw (dict_runs (i_mem img)) = Some nm ->
         top_guard ww (lsegs L) fuel (init (lmem L) input) ->
         (N.of_nat fuel < M64)%N -> (k_last_ops k + k_last_ops k <= M64)%N ->
         Memory_run k nm input fuel = RunDone lk cs ns last ->
         cs = NC (fst pf) /\ s_ops ns = u64 (p_ops (snd pf)) /\ s_out ns = p_out (snd pf) /\ s_inp ns = p_inp (snd pf) /\
         last = (if (0 <? k_last_ops k)%N then rev (firstn (N.to_nat (k_last_ops k)) (p_hist (snd pf))) else []) /\
         forall a v, py_lookup (i_zeros img) (p_mem (snd pf)) a = Some v -> snd (Memory_get_word (s_m ns) a) = v).
Proof.
  intros V E F W.
  destruct (written_file c thr ops res st file V E F W) as (img & L & HR & HL & HS & Hww & Hwe & Hw & Hrep).
  exists img, L. split; [exact HR|]. split; [exact HL|]. rewrite <- Hw. cbv zeta.
  intros input fuel.
  assert (Hww3 : (3 <= ww_of (i_w img))%N) by lia.
  pose proof (image_run_python _ (i_segs img) (i_mem img) (i_zeros img) L Hww3 HS Hrep true input fuel) as A.
  pose proof (image_run_python _ (i_segs img) (i_mem img) (i_zeros img) L Hww3 HS Hrep false input fuel) as B.
  cbn [py_loop] in A, B.
  destruct A as (A0 & A1 & A2 & A3 & A4 & A5 & A6). destruct B as (B0 & B1 & B2 & B3 & B4 & B5 & B6).
  split.
  - repeat split; try congruence. all: intros a; now rewrite A6, B6.
  - intros Haddr fmw k nm lk cs ns last HLd G Hf Hk HRun.
    destruct (image_run_native _ Hww (i_segs img) (i_mem img) (i_zeros img) L HS Hrep (representable_loadable _ L Hrep Haddr) fmw k input fuel nm lk cs ns last
                HLd G Hf Hk HRun) as (C0 & C1 & C2 & C3 & C4 & C5).
    rewrite A0, A1, A2, A3, A4. repeat split; try assumption.
    intros a v Hv. apply C5. now rewrite <- A6.
Qed.

End FromFile.
