From FJ Require Import Lib.Base.
(* C14 - proofs about the pipeline model Model/AsmErrors.v.

   The method: for every function of the model, which raw (non-library) exceptions can it let out?  `raw_in S r` says
   that a raw exit of r lies in the set S.  The sets grow along the pipeline:
     E1 = {Hang}                                 operators and expression evaluation (a power that never ends; every
                                                  exception an operator raises is wrapped as a library error)
     E2 = E1 + RecursionError                     entry points of the recursive Expr traversals, the parser stage
     E4 = E2 + MemoryError                        label resolution (insert_padding)
   Macro resolution stays within E2 (self.macros[...] is only indexed with names that were looked up before).
   Everything else (TypeError/KeyError/NameError of an operator, IndexError of `flip_addresses.pop()`, struct.error in
   write_to_file) is shown unreachable.  *)
From FJ Require Import Model.Ast Model.AsmErrors.
Local Open Scope Z_scope.

Definition raw_in (S : rawexn -> Prop) {A} (r : res A) : Prop := forall x, r = RawExn x -> S x.

Definition E1 (x : rawexn) : Prop := x = Hang.
Definition E2 (x : rawexn) : Prop := E1 x \/ x = RecursionError.
Definition E4 (x : rawexn) : Prop := E2 x \/ x = MemoryError.

Lemma E1_E2 x : E1 x -> E2 x. Proof. now left. Qed.
Lemma E2_E4 x : E2 x -> E4 x. Proof. now left. Qed.
Lemma E1_E4 x : E1 x -> E4 x. Proof. intro; now apply E2_E4, E1_E2. Qed.

Lemma raw_in_weaken (S S' : rawexn -> Prop) {A} (r : res A) :
  (forall x, S x -> S' x) -> raw_in S r -> raw_in S' r.
Proof. intros H Hr x E. apply H, Hr, E. Qed.

Lemma raw_in_ok S {A} (a : A) : raw_in S (Ok a).
Proof. intros x E; discriminate. Qed.
Lemma raw_in_lib S {A} k : raw_in S (@LibError A k).
Proof. intros x E; discriminate. Qed.
Lemma raw_in_raw (S : rawexn -> Prop) {A} x : S x -> raw_in S (@RawExn A x).
Proof. intros H y E; inversion E; subst; exact H. Qed.

Lemma raw_in_retype (S : rawexn -> Prop) {A B} x : raw_in S (@RawExn A x) -> raw_in S (@RawExn B x).
Proof. intros H. apply raw_in_raw. apply H. reflexivity. Qed.

Lemma raw_in_bind S {A B} (r : res A) (f : A -> res B) :
  raw_in S r -> (forall a, r = Ok a -> raw_in S (f a)) -> raw_in S (bind r f).
Proof.
  intros Hr Hf x E. destruct r as [a|k|y]; simpl in E.
  - eapply Hf; [reflexivity|exact E].
  - discriminate.
  - inversion E; subst. apply Hr. reflexivity.
Qed.

Lemma raw_in_relabel S {A} (r : res A) k : raw_in S r -> raw_in S (relabel r k).
Proof. intros Hr x E. destruct r; simpl in E; try discriminate. inversion E; subst. apply Hr. reflexivity. Qed.

Ltac dif := match goal with |- context [if ?c then _ else _] => destruct c end.

Ltac rawsolve :=
  repeat first
    [ apply raw_in_ok | apply raw_in_lib
    | apply raw_in_raw; unfold E4, E2, E1; tauto
    | assumption ].

(* ------------------------------------------------------------------------------------------------------------------ *)
(** * Expressions *)

Lemma expr_ind2 (P : expr -> Prop) :
  (forall z, P (EInt z)) -> (forall s, P (ELbl s)) -> (forall o args, Forall P args -> P (EOp o args)) ->
  forall e, P e.
Proof.
  intros HI HL HO. fix IH 1. destruct e as [z|s|o args]; [apply HI|apply HL|].
  apply HO. induction args as [|a args IHa]; [constructor|constructor; [apply IH|exact IHa]].
Qed.

Lemma get_minimized_expr_raw cfg o ps : raw_in E1 (get_minimized_expr cfg o ps).
Proof.
  unfold get_minimized_expr. destruct (forallb is_int ps); [|rawsolve].
  destruct (op_apply cfg o (ints_of ps)) as [z|k|x]; [rawsolve|rawsolve|].
  destruct x; try dif; rawsolve.
Qed.

Lemma fold_expr_raw cfg e : raw_in E1 (fold_expr cfg e).
Proof.
  induction e as [z|s|o args IH] using expr_ind2; simpl; [rawsolve|rawsolve|].
  apply raw_in_bind.
  - induction IH as [|a args Ha _ IHl]; [rawsolve|].
    apply raw_in_bind; [exact Ha|intros a' _]. apply raw_in_bind; [exact IHl|intros; rawsolve].
  - intros args' _. apply get_minimized_expr_raw.
Qed.

Lemma fold_list_raw cfg l : raw_in E1 (fold_list cfg l).
Proof.
  induction l as [|a l IH]; simpl; [rawsolve|].
  apply raw_in_bind; [apply fold_expr_raw|intros]. apply raw_in_bind; [exact IH|intros; rawsolve].
Qed.

Lemma fold_stmt_raw cfg s : raw_in E1 (fold_stmt cfg s).
Proof.
  destruct s; simpl;
    repeat first [ apply raw_in_bind; [first [apply fold_expr_raw | apply fold_list_raw]|intros] | rawsolve ].
Qed.

Lemma fold_stmts_raw cfg l : raw_in E1 (fold_stmts cfg l).
Proof.
  induction l as [|a l IH]; simpl; [rawsolve|].
  apply raw_in_bind; [apply fold_stmt_raw|intros]. apply raw_in_bind; [exact IH|intros; rawsolve].
Qed.

Lemma parse_macros_raw cfg d : raw_in E2 (parse_macros cfg d).
Proof.
  induction d as [|[n m] d IH]; simpl; [rawsolve|].
  apply raw_in_bind; [eapply raw_in_weaken; [apply E1_E2|apply fold_stmts_raw]|intros ops _].
  destruct (negb (macro_name_eqb n main_macro_name) && negb (walkable cfg ops)); [rawsolve|].
  apply raw_in_bind; [exact IH|intros; rawsolve].
Qed.

Lemma eval_new_rec_raw cfg sg e : raw_in E1 (eval_new_rec cfg sg e).
Proof.
  induction e as [z|s|o args IH] using expr_ind2; simpl; [rawsolve|rawsolve|].
  apply raw_in_bind.
  - induction IH as [|a args Ha _ IHl]; [rawsolve|].
    apply raw_in_bind; [exact Ha|intros a' _]. apply raw_in_bind; [exact IHl|intros; rawsolve].
  - intros args' _. destruct (forallb is_int args'); [|rawsolve].
    destruct (op_apply cfg o (ints_of args')) as [z|k|x]; [rawsolve| |].
    + rawsolve.
    + destruct x; rawsolve.
Qed.

Lemma eval_new_raw cfg sg e : raw_in E2 (eval_new cfg sg e).
Proof.
  unfold eval_new. destruct (c_exprlim cfg <? expr_depth e)%nat; [rawsolve|].
  eapply raw_in_weaken; [apply E1_E2|apply eval_new_rec_raw].
Qed.

Lemma eval_new_list_raw cfg sg l : raw_in E2 (eval_new_list cfg sg l).
Proof.
  induction l as [|a l IH]; simpl; [rawsolve|].
  apply raw_in_bind; [apply eval_new_raw|intros]. apply raw_in_bind; [exact IH|intros; rawsolve].
Qed.

Lemma exact_eval_rec_raw cfg lb e : raw_in E1 (exact_eval_rec cfg lb e).
Proof.
  induction e as [z|s|o args IH] using expr_ind2; simpl; [rawsolve| |].
  - destruct (dict_get lb s); rawsolve.
  - apply raw_in_bind.
    + induction IH as [|a args Ha _ IHl]; [rawsolve|].
      apply raw_in_bind; [exact Ha|intros a' _]. apply raw_in_bind; [exact IHl|intros; rawsolve].
    + intros vs _. destruct (op_apply cfg o vs) as [z|k|x]; [rawsolve|rawsolve|].
      destruct x; try dif; rawsolve.
Qed.

Lemma exact_eval_raw cfg lb e : raw_in E2 (exact_eval cfg lb e).
Proof.
  unfold exact_eval. destruct (c_exprlim cfg <? expr_depth e)%nat; [rawsolve|].
  eapply raw_in_weaken; [apply E1_E2|apply exact_eval_rec_raw].
Qed.

(* ------------------------------------------------------------------------------------------------------------------ *)
(** * Macro resolution *)

Lemma insert_label_raw st name : raw_in E2 (insert_label st name).
Proof. unfold insert_label. destruct (dict_mem (p_labels st) name); rawsolve. Qed.

Lemma insert_segment_raw st a : raw_in E2 (insert_segment st a).
Proof.
  unfold insert_segment. destruct (dict_mem (p_labels st) (wflip_start_label (p_seg st))); [rawsolve|].
  destruct (patch_last st); rawsolve.
Qed.

Lemma align_raw cfg st n : raw_in E2 (align_current_address cfg st n).
Proof.
  unfold align_current_address. cbv zeta.
  destruct (negb (p_addr st mod (2 * c_w cfg) =? 0)); [rawsolve|]. dif; rawsolve.
Qed.

Section ResolveProps.
Variable cfg : config.
Variable macros : macro_dict.

(* a recursive call is only made for a macro that is in the dictionary (prepare_macro_call has checked it) *)
Definition callee_ok (call : callee_t) : Prop :=
  forall st mn a p, find_macro macros mn <> None -> raw_in E2 (call st mn a p).

Lemma rep_loop_raw call callee hyg cargs path k : callee_ok call -> find_macro macros callee <> None ->
  forall i st, raw_in E2 (rep_loop cfg call callee hyg cargs path k i st).
Proof.
  intros Hc Hm. induction k as [|k IH]; intros i st; simpl; [rawsolve|].
  apply raw_in_bind.
  - apply raw_in_relabel. apply eval_new_list_raw.
  - intros iargs _. apply raw_in_bind; [apply Hc; exact Hm|intros; apply IH].
Qed.

Ltac ev3 :=
  first [ apply eval_new_raw | apply eval_new_list_raw | apply raw_in_relabel; apply exact_eval_raw ].

Lemma resolve_op_raw rec sg prefix st op :
  match rec with Some call => callee_ok call | None => True end ->
  raw_in E2 (resolve_op cfg macros rec sg prefix st op).
Proof.
  intros Hrec. destruct op; simpl.
  - (* FlipJump *) repeat (apply raw_in_bind; [ev3|intros]). rawsolve.
  - (* WordFlip *) repeat (apply raw_in_bind; [ev3|intros]). rawsolve.
  - (* Pad *)
    apply raw_in_bind; [ev3|intros e' _].
    apply raw_in_bind; [ev3|].
    intros n _. destruct (n <=? 0); [rawsolve|apply align_raw].
  - (* Label *)
    destruct (dict_get sg name) as [v|]; [|apply insert_label_raw].
    destruct v; try rawsolve. apply insert_label_raw.
  - (* MacroCall *)
    apply raw_in_bind; [ev3|intros cargs' _].
    destruct (find_macro macros (call_name name cargs')) eqn:F; [|rawsolve].
    destruct rec as [call|]; [|rawsolve]. apply Hrec. congruence.
  - (* RepCall *)
    repeat (apply raw_in_bind; [ev3|intros]).
    dif; [rawsolve|].
    match goal with |- context [find_macro macros ?c] => destruct (find_macro macros c) eqn:F end; [|rawsolve].
    destruct rec as [call|]; [|rawsolve].
    dif; [rawsolve|].
    apply rep_loop_raw; [exact Hrec|congruence].
  - (* Segment *)
    repeat (apply raw_in_bind; [ev3|intros]).
    dif; [rawsolve|apply insert_segment_raw].
  - (* Reserve *)
    repeat (apply raw_in_bind; [ev3|intros]).
    dif; [rawsolve|]. dif; rawsolve.
Qed.

Lemma resolve_ops_raw step ops : (forall st op, raw_in E2 (step st op)) -> forall st, raw_in E2 (resolve_ops step ops st).
Proof.
  intros Hs. induction ops as [|op ops IH]; intros st; simpl; [rawsolve|].
  apply raw_in_bind; [apply Hs|intros; apply IH].
Qed.

(* self.macros[macro_name] never raises KeyError: the main macro is in the dictionary, every callee has been looked up *)
Lemma resolve_aux_raw fuel : forall st mn args prefix,
  find_macro macros mn <> None -> raw_in E2 (resolve_aux cfg macros fuel st mn args prefix).
Proof.
  induction fuel as [|fuel IH]; intros st mn args prefix Hm; simpl;
    (destruct (find_macro macros mn) as [m|]; [|congruence]);
    apply resolve_ops_raw; intros st' op; apply resolve_op_raw; [exact I|exact IH].
Qed.

Lemma resolve_macros_raw : has_main macros = true -> raw_in E2 (resolve_macros cfg macros).
Proof.
  intros Hm. unfold resolve_macros. apply raw_in_bind.
  - apply resolve_aux_raw. unfold has_main in Hm. destruct (find_macro macros main_macro_name); congruence.
  - intros st _. destruct (patch_last st); rawsolve.
Qed.

End ResolveProps.

(* the parser stage rewrites the bodies, not the keys *)
Lemma parse_macros_keys cfg n : forall d d', parse_macros cfg d = Ok d' ->
  (find_macro d' n = None <-> find_macro d n = None).
Proof.
  induction d as [|[k m] d IH]; simpl; intros d' E.
  - inversion E; subst. reflexivity.
  - destruct (fold_stmts cfg (m_ops m)) as [ops|?|?]; simpl in E; try discriminate.
    destruct (negb (macro_name_eqb k main_macro_name) && negb (walkable cfg ops)); try discriminate.
    destruct (parse_macros cfg d) as [d''|?|?]; simpl in E; try discriminate.
    inversion E; subst; simpl. destruct (macro_name_eqb k n); [split; discriminate|]. apply IH. reflexivity.
Qed.

Lemma parse_macros_main cfg d d' : parse_macros cfg d = Ok d' -> has_main d = true -> has_main d' = true.
Proof.
  intros E H. unfold has_main in *. pose proof (parse_macros_keys cfg main_macro_name d d' E) as [K _].
  destruct (find_macro d' main_macro_name); [reflexivity|]. rewrite (K eq_refl) in H. discriminate.
Qed.

(* ------------------------------------------------------------------------------------------------------------------ *)
(** * Label resolution and the writer *)

Definition data_ok (cfg : config) (wr : wstate) : Prop := forallb (word_ok cfg) (w_data wr) = true.

Lemma find_none_forallb {A} (f : A -> bool) l : find (fun x => negb (f x)) l = None -> forallb f l = true.
Proof.
  induction l as [|a l IH]; simpl; [reflexivity|].
  destruct (f a); simpl; [exact IH|discriminate].
Qed.

Lemma writer_add_data_spec cfg wr words n :
  raw_in E4 (writer_add_data cfg wr words n) /\
  (forall wr', writer_add_data cfg wr words n = Ok wr' -> data_ok cfg wr -> data_ok cfg wr').
Proof.
  unfold writer_add_data. destruct (find (fun x => negb (word_ok cfg x)) words) as [bad|] eqn:F.
  - split; [rawsolve|discriminate].
  - split; [rawsolve|]. intros wr' E Hd. inversion E; subst. unfold data_ok; simpl.
    rewrite forallb_app. rewrite (find_none_forallb _ _ F). exact Hd.
Qed.

Lemma writer_add_segment_data cfg wr a b c d wr' :
  writer_add_segment cfg wr a b c d = Some wr' -> w_data wr' = w_data wr.
Proof.
  unfold writer_add_segment.
  repeat match goal with |- context [if ?c then _ else _] => destruct c end; intros E; try discriminate.
  inversion E; reflexivity.
Qed.

Lemma add_segment_spec cfg wr first last words n :
  raw_in E4 (add_segment_to_fjm cfg wr first last words n) /\
  (forall r, add_segment_to_fjm cfg wr first last words n = Ok r -> data_ok cfg wr -> data_ok cfg (fst r)).
Proof.
  unfold add_segment_to_fjm. destruct (validate_addresses cfg first last); [split; [rawsolve|discriminate]|].
  destruct (first =? last); [split; [rawsolve|]; intros r E Hd; inversion E; exact Hd|].
  destruct (writer_add_data_spec cfg wr words n) as [Hraw Hok].
  destruct (writer_add_data cfg wr words n) as [wr1|k|x] eqn:E1; simpl.
  - destruct (writer_add_segment cfg wr1 (first / c_w cfg) ((last - first) / c_w cfg) (w_dlen wr) n) as [wr2|] eqn:E2.
    + split; [rawsolve|]. intros r E Hd. inversion E; subst; simpl.
      unfold data_ok. rewrite (writer_add_segment_data _ _ _ _ _ _ _ E2). apply (Hok wr1 eq_refl Hd).
    + split; [rawsolve|discriminate].
  - split; [rawsolve|discriminate].
  - split; [|discriminate]. eapply raw_in_retype; exact Hraw.
Qed.

Lemma store_wr st l x : b_wr (store st l x) = b_wr st.
Proof. destruct l; reflexivity. Qed.

Lemma get_wflip_spot_wr cfg st : b_wr (fst (get_wflip_spot cfg st)) = b_wr st.
Proof. unfold get_wflip_spot. destruct (take_pad_hole cfg (b_first st) (b_pads st)) as [[addr pads']|]; reflexivity. Qed.

Lemma wflip_chain_wr cfg rest : forall st prev ret, b_wr (wflip_chain cfg st prev rest ret) = b_wr st.
Proof.
  induction rest as [|a rest' IH]; intros st prev ret; simpl; [apply store_wr|].
  destruct (wdict_find (b_dict st) ret (a :: rest')); [apply store_wr|].
  pose proof (get_wflip_spot_wr cfg st) as Hs.
  destruct (get_wflip_spot cfg st) as [st1 [l spot]]; simpl in Hs.
  rewrite IH. unfold wdict_add; simpl. rewrite !store_wr. exact Hs.
Qed.

Lemma insert_fj_op_spec cfg st f j :
  raw_in E4 (insert_fj_op cfg st f j) /\ (forall st', insert_fj_op cfg st f j = Ok st' -> b_wr st' = b_wr st).
Proof.
  unfold insert_fj_op. destruct (negb (in_memory cfg f) || negb (in_memory cfg j)); split; try rawsolve; try discriminate.
  intros st' E; inversion E; reflexivity.
Qed.

(* `flip_addresses.pop()` never meets an empty list: a non-zero value below 2^w has a set bit below w *)
Lemma flip_addresses_nonempty cfg addr v :
  (v =? 0) = false -> in_memory cfg v = true -> flip_addresses cfg addr v <> [].
Proof.
  intros Hz Hm. unfold in_memory, word_ok in Hm. apply andb_prop in Hm. destruct Hm as [H0 H1].
  apply Z.leb_le in H0. apply Z.ltb_lt in H1. apply Z.eqb_neq in Hz.
  assert (Hpos : 0 < v) by lia.
  assert (Hw : 0 <= c_w cfg).
  { destruct (Z_lt_le_dec (c_w cfg) 0) as [Hn|]; [|assumption]. rewrite Z.pow_neg_r in H1 by assumption. lia. }
  assert (Hl : Z.log2 v < c_w cfg) by (apply Z.log2_lt_pow2; assumption).
  pose proof (Z.log2_nonneg v) as Hl0.
  pose proof (Z.bit_log2 v Hpos) as Hb.
  unfold flip_addresses. intros E. apply map_eq_nil in E.
  assert (Hin : In (Z.to_nat (Z.log2 v)) (filter (fun i => Z.testbit v (Z.of_nat i)) (seq 0 (Z.to_nat (c_w cfg))))).
  { apply filter_In. split.
    - apply in_seq. split; [lia|]. simpl. apply Z2Nat.inj_lt; lia.
    - rewrite Z2Nat.id by assumption. exact Hb. }
  rewrite E in Hin. exact Hin.
Qed.

Lemma insert_wflip_ops_spec cfg st addr v ret :
  raw_in E4 (insert_wflip_ops cfg st addr v ret) /\
  (forall st', insert_wflip_ops cfg st addr v ret = Ok st' -> b_wr st' = b_wr st).
Proof.
  unfold insert_wflip_ops. destruct (v =? 0) eqn:Hz; [apply insert_fj_op_spec|].
  destruct (in_memory cfg v) eqn:Hm; simpl; [|split; [rawsolve|discriminate]].
  match goal with |- context [if ?c then _ else _] => destruct c end; [split; [rawsolve|discriminate]|].
  pose proof (flip_addresses_nonempty cfg addr v Hz Hm) as Hne.
  destruct (flip_addresses cfg addr v) as [|a rest]; [congruence|].
  destruct (insert_fj_op_spec cfg st a 0) as [Hraw Hwr].
  destruct (insert_fj_op cfg st a 0) as [st1|k|x]; simpl.
  - split; [rawsolve|]. intros st' E; inversion E. rewrite wflip_chain_wr. apply Hwr. reflexivity.
  - split; [rawsolve|discriminate].
  - split; [|discriminate]. eapply raw_in_retype; exact Hraw.
Qed.

Lemma close_spec cfg st :
  raw_in E4 (close_and_add_segment cfg st) /\
  (forall st', close_and_add_segment cfg st = Ok st' -> data_ok cfg (b_wr st) -> data_ok cfg (b_wr st')).
Proof.
  unfold close_and_add_segment. destruct (b_nextw st =? b_first st); [split; [rawsolve|]; intros st' E H; inversion E; subst; exact H|].
  destruct (add_segment_spec cfg (b_wr st) (b_first st) (b_nextw st) (b_fjw st ++ b_wfw st) (b_nfj st + b_nwf st)) as [Hraw Hok].
  destruct (add_segment_to_fjm cfg (b_wr st) (b_first st) (b_nextw st) (b_fjw st ++ b_wfw st) (b_nfj st + b_nwf st)) as [r|k|x]; simpl.
  - split; [rawsolve|]. intros st' E Hd. inversion E; subst. specialize (Hok r eq_refl Hd). destruct (snd r); exact Hok.
  - split; [rawsolve|discriminate].
  - split; [|discriminate]. eapply raw_in_retype; exact Hraw.
Qed.

Lemma labels_step_spec cfg lb st op :
  raw_in E4 (labels_step cfg lb st op) /\
  (forall st', labels_step cfg lb st op = Ok st' -> data_ok cfg (b_wr st) -> data_ok cfg (b_wr st')).
Proof.
  assert (Hop : forall k es, raw_in E4 (op_message k es) /\ forall st', op_message k es = Ok st' -> False).
  { intros k es. unfold op_message. split; [rawsolve|discriminate]. }
  assert (Hin : forall (e : expr) es (f : Z -> res bstate) (Q : bstate -> Prop),
             (forall z, raw_in E4 (f z) /\ forall st', f z = Ok st' -> Q st') ->
             raw_in E4 (in_op (exact_eval cfg lb e) es f) /\ forall st', in_op (exact_eval cfg lb e) es f = Ok st' -> Q st').
  { intros e es f Q Hf. pose proof (exact_eval_raw cfg lb e) as Hr. unfold in_op.
    destruct (exact_eval cfg lb e) as [z|k|x].
    - apply Hf.
    - destruct (Hop KOpEval es) as [H1 H2]. split; [exact H1|]. intros st' E. destruct (H2 st' E).
    - split; [|discriminate]. eapply raw_in_retype. eapply raw_in_weaken; [apply E2_E4|exact Hr]. }
  assert (Hrg : forall (r : res bstate) es (Q : bstate -> Prop),
             (raw_in E4 r /\ forall st', r = Ok st' -> Q st') ->
             raw_in E4 (ranged r es) /\ forall st', ranged r es = Ok st' -> Q st').
  { intros r es Q [H1 H2]. unfold ranged. destruct r as [a|k|x].
    - split; [rawsolve|exact H2].
    - destruct (Hop KOpRange es) as [G1 G2]. split; [exact G1|]. intros st' E. destruct (G2 st' E).
    - split; [exact H1|discriminate]. }
  destruct op as [f j|a v r|n|s ws|after]; simpl.
  - set (Q := fun st' : bstate => data_ok cfg (b_wr st) -> data_ok cfg (b_wr st')).
    apply (Hin f [f; j] _ Q). intros fv. apply (Hin j [f; j] _ Q). intros jv. apply Hrg.
    destruct (insert_fj_op_spec cfg st fv jv) as [H1 H2]. split; [exact H1|]. intros st' E Hd. unfold data_ok. rewrite (H2 st' E). exact Hd.
  - set (Q := fun st' : bstate => data_ok cfg (b_wr st) -> data_ok cfg (b_wr st')).
    apply (Hin a [a; v; r] _ Q). intros av. apply (Hin v [a; v; r] _ Q). intros vv. apply (Hin r [a; v; r] _ Q). intros rv.
    apply Hrg. destruct (insert_wflip_ops_spec cfg st av vv rv) as [H1 H2]. split; [exact H1|].
    intros st' E Hd. unfold data_ok. rewrite (H2 st' E). exact Hd.
  - unfold insert_padding. destruct (c_padlim cfg <? n); split; try rawsolve; try discriminate.
    intros st' E Hd; inversion E; subst; exact Hd.
  - unfold insert_new_segment. destruct (close_spec cfg st) as [H1 H2].
    destruct (close_and_add_segment cfg st) as [st1|k|x]; simpl.
    + destruct (negb (in_memory cfg s)).
      * split; [rawsolve|discriminate].
      * split; [rawsolve|]. intros st' E Hd. inversion E; subst; simpl. apply (H2 st1 eq_refl Hd).
    + split; [rawsolve|discriminate].
    + split; [exact H1|discriminate].
  - unfold insert_reserve_bits.
    destruct (add_segment_spec cfg (b_wr st) (b_first st) after (b_fjw st) (b_nfj st)) as [H1 H2].
    destruct (add_segment_to_fjm cfg (b_wr st) (b_first st) after (b_fjw st) (b_nfj st)) as [r|k|x]; simpl.
    + split; [rawsolve|]. intros st' E Hd. inversion E; subst; simpl. apply (H2 r eq_refl Hd).
    + split; [rawsolve|discriminate].
    + split; [eapply raw_in_retype; exact H1|discriminate].
Qed.

Lemma labels_loop_spec cfg lb ops : forall st,
  raw_in E4 (labels_loop cfg lb st ops) /\
  (forall st', labels_loop cfg lb st ops = Ok st' -> data_ok cfg (b_wr st) -> data_ok cfg (b_wr st')).
Proof.
  induction ops as [|op ops IH]; intros st; simpl.
  - split; [rawsolve|]. intros st' E Hd; inversion E; subst; exact Hd.
  - destruct (labels_step_spec cfg lb st op) as [H1 H2].
    destruct (labels_step cfg lb st op) as [st1|k|x]; simpl.
    + destruct (IH st1) as [G1 G2]. split; [exact G1|]. intros st' E Hd. apply (G2 st' E). apply (H2 st1 eq_refl Hd).
    + split; [rawsolve|discriminate].
    + split; [exact H1|discriminate].
Qed.

Lemma labels_resolve_spec cfg w0 ops lb :
  raw_in E4 (labels_resolve cfg w0 ops lb) /\
  (forall st, labels_resolve cfg w0 ops lb = Ok st -> packable cfg (b_wr st) = true).
Proof.
  unfold labels_resolve.
  destruct (labels_loop_spec cfg lb ops (mkb 0 w0 0 0 [] [] [] [] (mkw [] 0 []))) as [H1 H2].
  destruct (labels_loop cfg lb (mkb 0 w0 0 0 [] [] [] [] (mkw [] 0 [])) ops) as [st1|k|x]; simpl.
  - destruct (close_spec cfg st1) as [G1 G2]. split; [exact G1|]. intros st E. apply (G2 st E). apply (H2 st1 eq_refl). reflexivity.
  - split; [rawsolve|discriminate].
  - split; [exact H1|discriminate].
Qed.

(* ------------------------------------------------------------------------------------------------------------------ *)
(** * The pipeline *)

(* the only raw exceptions that reach the catch-all of `assemble` *)
Lemma verdict_cases cfg t : has_main t = true ->
  match o_verdict (assemble_model cfg t) with
  | VOk | VLib _ | VHang => True
  | VCatchAll x => x = MemoryError
  end.
Proof.
  intros Hmain. unfold assemble_model.
  pose proof (parse_macros_raw cfg t) as Hp.
  destruct (parse_macros cfg t) as [t1|k|x] eqn:Ep; simpl; [|exact I|].
  2:{ specialize (Hp x eq_refl). destruct x; simpl; try exact I; unfold E2, E1 in Hp; intuition congruence. }
  pose proof (resolve_macros_raw cfg t1 (parse_macros_main cfg t t1 Ep Hmain)) as Hr.
  destruct (resolve_macros cfg t1) as [[[w0 ops] lb]|k|x]; simpl; [|exact I|].
  2:{ specialize (Hr x eq_refl). destruct x; simpl; try exact I; unfold E2, E1 in Hr; intuition congruence. }
  destruct (labels_resolve_spec cfg w0 ops lb) as [Hl Hpk].
  destruct (labels_resolve cfg w0 ops lb) as [st|k|x]; simpl; [|exact I|].
  2:{ specialize (Hl x eq_refl). destruct x; simpl; try exact I; unfold E4, E2, E1 in Hl; intuition congruence. }
  destruct (negb (first_op_assembled st)); simpl; [exact I|].
  rewrite (Hpk st eq_refl). exact I.
Qed.

Theorem specific_under_guards cfg t : has_main t = true ->
  counts_materialisable cfg t = true ->
  specific (assemble_model cfg t) = true.
Proof.
  unfold counts_materialisable, specific.
  intros Hmain. pose proof (verdict_cases cfg t Hmain) as H.
  destruct (o_verdict (assemble_model cfg t)) as [| k | x |]; intros G1; try reflexivity; try discriminate.
  subst x; discriminate.
Qed.

(* the output path is only touched by the last step, and that step cannot fail: every word handed to the Writer has been
   range-checked by add_data, so struct.pack accepts it *)
Theorem no_file_left cfg t : no_file_on_failure (assemble_model cfg t) = true.
Proof.
  unfold no_file_on_failure, assemble_model.
  destruct (parse_macros cfg t) as [t1|k|x]; simpl; [|reflexivity|destruct x; reflexivity].
  destruct (resolve_macros cfg t1) as [[[w0 ops] lb]|k|x]; simpl; [|reflexivity|destruct x; reflexivity].
  destruct (labels_resolve_spec cfg w0 ops lb) as [_ Hpk].
  destruct (labels_resolve cfg w0 ops lb) as [st|k|x]; simpl; [|reflexivity|destruct x; reflexivity].
  destruct (negb (first_op_assembled st)); simpl; [reflexivity|].
  rewrite (Hpk st eq_refl). reflexivity.
Qed.

(* the catch-all is never reached with a struct.error, and a failure at the write stage does not exist in the model *)
Theorem write_stage_total cfg t : o_file (assemble_model cfg t) <> PartialFile.
Proof.
  pose proof (no_file_left cfg t) as H. unfold no_file_on_failure in H.
  intros E. rewrite E in H. destruct (o_verdict (assemble_model cfg t)) eqn:V; try discriminate.
  (* VOk with a partial file: impossible by the definition of assemble_model *)
  clear H. revert V E. unfold assemble_model.
  destruct (parse_macros cfg t) as [t1|k|x]; simpl; [|discriminate|destruct x; discriminate].
  destruct (resolve_macros cfg t1) as [[[w0 ops] lb]|k|x]; simpl; [|discriminate|destruct x; discriminate].
  destruct (labels_resolve cfg w0 ops lb) as [st|k|x]; simpl; [|discriminate|destruct x; discriminate].
  destruct (negb (first_op_assembled st)); simpl; [discriminate|].
  destruct (packable cfg (b_wr st)); simpl; discriminate.
Qed.
