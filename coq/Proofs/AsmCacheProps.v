From FJ Require Import Lib.Base Model.AsmCache.
From Coq Require Import String.
(* C13 - proofs about the cache / global-state layer (Model/AsmCache.v). *)
Local Open Scope Z_scope.
Local Arguments Nat.eqb : simpl never.

(* ---------- decidable equalities of the key ---------- *)
Lemma fkey_eqb_eq a b : fkey_eqb a b = true <-> a = b.
Proof.
  destruct a as [[[s1 p1] m1] z1], b as [[[s2 p2] m2] z2]; unfold fkey_eqb.
  rewrite !andb_true_iff, !String.eqb_eq, !Z.eqb_eq. split.
  - intros [[[-> ->] ->] ->]; reflexivity.
  - intros E; inversion E; auto.
Qed.

Lemma list_eqb_eq {A} (e : A -> A -> bool) (He : forall a b, e a b = true <-> a = b) l1 l2 :
  list_eqb e l1 l2 = true <-> l1 = l2.
Proof.
  revert l2; induction l1 as [|a r IH]; intros [|b r2]; simpl; try (split; congruence).
  rewrite andb_true_iff, He, IH. split; [intros [-> ->]; reflexivity | intros E; inversion E; auto].
Qed.

Lemma ckey_eqb_eq a b : ckey_eqb a b = true <-> a = b.
Proof.
  destruct a as [[w1 e1] f1], b as [[w2 e2] f2]; unfold ckey_eqb.
  rewrite !andb_true_iff, Z.eqb_eq, Bool.eqb_true_iff, (list_eqb_eq fkey_eqb fkey_eqb_eq). split.
  - intros [[-> ->] ->]; reflexivity.
  - intros E; inversion E; auto.
Qed.

Lemma ckey_eqb_refl k : ckey_eqb k k = true.
Proof. apply ckey_eqb_eq; reflexivity. Qed.

Lemma ckey_eqb_neq a b : ckey_eqb a b = false <-> a <> b.
Proof.
  split.
  - intros E H. apply ckey_eqb_eq in H. congruence.
  - intros H. destruct (ckey_eqb a b) eqn:E; [apply ckey_eqb_eq in E; contradiction | reflexivity].
Qed.

Section Props.
  Variables text diag consts macros mainops opts output : Type.
  Variable init_consts : Z -> consts.
  Variable init_macros : string -> string -> macros.
  Variable init_main : mainops.
  Variable parse_file : Z -> bool -> list string -> pstate consts macros mainops -> string -> string -> text
                        -> parse_out diag consts macros mainops.
  Variable final_validate : pstate consts macros mainops -> list diag.
  Variable backend : Z -> Z -> Z -> opts -> pstate consts macros mainops -> output + diag.
  Variable ls : bool.

  Notation sh := (shape_of ls).
  Notation file := (file text diag).
  Notation request := (request text diag opts).
  Notation gstate := (gstate text diag consts macros mainops).
  Notation lstate := (lstate text diag consts macros mainops).
  Notation pstate := (pstate consts macros mainops).
  Notation cache := (cache consts macros mainops).
  Notation ploop := (parse_loop parse_file sh).
  Notation lexp := (lex_parse_curr_file parse_file sh).
  Notation pfip := (parse_files_into_parser parse_file sh).
  Notation pmt := (parse_macro_tree init_consts init_macros init_main parse_file final_validate sh).
  Notation step := (assemble_step init_consts init_macros init_main parse_file final_validate backend sh).
  Notation run := (run_history init_consts init_macros init_main parse_file final_validate backend sh).

  (* ---------- the cache as a dictionary ---------- *)
  Lemma lookup_filter_other (k k' : ckey) (c : cache) :
    ckey_eqb k' k = false ->
    lookup k' (filter (fun e => negb (ckey_eqb k (fst e))) c) = lookup k' c.
  Proof.
    intros Hn. induction c as [|[k2 s2] r IH]; simpl; [reflexivity|].
    destruct (ckey_eqb k k2) eqn:E; simpl.
    - apply ckey_eqb_eq in E; subst k2. rewrite Hn. exact IH.
    - destruct (ckey_eqb k' k2); [reflexivity | exact IH].
  Qed.

  Lemma lookup_store (k k' : ckey) (s : pstate) (c : cache) :
    lookup k' (store k s c) = if ckey_eqb k' k then Some s else lookup k' c.
  Proof.
    unfold store; simpl. destruct (ckey_eqb k' k) eqn:E; [reflexivity|]. now apply lookup_filter_other.
  Qed.

  Lemma restore_id (s : pstate) : restore s = s.
  Proof. destruct s; reflexivity. Qed.

  Definition al_clean (al : alias) : Prop := al_consts al = false /\ al_macros al = false /\ al_main al = false.

  Lemma sync_clean al (ps : pstate) (c : cache) : al_clean al -> sync al ps c = c.
  Proof. intros (A & B & C). unfold sync. now rewrite A, B, C. Qed.

  (* ---------- the relation between two processes that parsing cannot tell apart ---------- *)
  Definition grel (g1 g2 : gstate) : Prop :=
    g_limit g1 = g_limit g2 /\ g_err g1 = g_err g2 /\ g_errtxt g1 = g_errtxt g2.

  Lemma grel_refl g : grel g g. Proof. repeat split. Qed.
  Lemma grel_sym g1 g2 : grel g1 g2 -> grel g2 g1. Proof. intros (A & B & C); repeat split; auto. Qed.
  Lemma grel_trans g1 g2 g3 : grel g1 g2 -> grel g2 g3 -> grel g1 g3.
  Proof. intros (A & B & C) (A' & B' & C'); repeat split; congruence. Qed.

  Lemma lexp_rel w g1 g2 ps f :
    grel g1 g2 -> g_file g1 = g_file g2 ->
    match lexp w g1 ps f, lexp w g2 ps f with
    | (g1', ps1, oe1), (g2', ps2, oe2) =>
      grel g1' g2' /\ g_file g1' = g_file g2' /\ ps1 = ps2 /\ oe1 = oe2
      /\ g_cache g1' = g_cache g1 /\ g_cache g2' = g_cache g2
    end.
  Proof.
    intros (HL & HE & HT) HF. destruct g1 as [c1 fl1 tx1 ns1 e1 t1 l1], g2 as [c2 fl2 tx2 ns2 e2 t2 l2].
    simpl in *. subst. unfold lex_parse_curr_file. destruct (f_text f) as [t| |d]; simpl.
    - unfold exit_if_errors; simpl. destruct e2; simpl.
      + repeat split; reflexivity.
      + destruct (po_exn (parse_file l2 w [] ps (f_short f) (f_path f) t)); simpl;
          repeat split; reflexivity.
    - repeat split; reflexivity.
    - repeat split; reflexivity.
  Qed.

  Definition lrel (st1 st2 : lstate) : Prop :=
    l_ps st1 = l_ps st2 /\ l_seen st1 = l_seen st2 /\ grel (l_g st1) (l_g st2).

  (* the loop does not read the cache, the namespace left by an earlier call, curr_text or curr_file *)
  Lemma ploop_rel : forall fs w k1 k2 p1 p2 i1 i2 st1 st2,
    lrel st1 st2 ->
    snd (ploop w k1 p1 i1 fs st1) = snd (ploop w k2 p2 i2 fs st2) /\
    lrel (fst (ploop w k1 p1 i1 fs st1)) (fst (ploop w k2 p2 i2 fs st2)) /\
    (fs <> [] \/ g_file (l_g st1) = g_file (l_g st2) ->
     g_file (l_g (fst (ploop w k1 p1 i1 fs st1))) = g_file (l_g (fst (ploop w k2 p2 i2 fs st2)))).
  Proof.
    induction fs as [|f rest IH]; intros w k1 k2 p1 p2 i1 i2 st1 st2 (HP & HS & HG); pose proof HG as (HGl & HGe & HGt).
    - simpl. split; [reflexivity|]. split; [repeat split; auto|]. intros [H|H]; [congruence | exact H].
    - simpl. rewrite HS. destruct (validate_current_file (l_seen st2) f) as [seen'|e].
      + pose proof (lexp_rel w (with_file (l_g st1) (Some (f_short f, f_path f)))
                             (with_file (l_g st2) (Some (f_short f, f_path f))) (l_ps st2) f) as HL.
        rewrite HP.
        destruct (lexp w (with_file (l_g st1) (Some (f_short f, f_path f))) (l_ps st2) f) as [[g1' ps1] oe1].
        destruct (lexp w (with_file (l_g st2) (Some (f_short f, f_path f))) (l_ps st2) f) as [[g2' ps2] oe2].
        destruct HL as (G' & F' & P' & O' & _ & _).
        { repeat split; simpl; auto. }
        { reflexivity. }
        subst ps2 oe2. destruct oe1 as [e|].
        * simpl. split; [reflexivity|]. split; [repeat split; simpl; auto; apply G'|]. intros _. exact F'.
        * match goal with
          | |- snd (ploop _ _ _ _ _ ?a) = snd (ploop _ _ _ _ _ ?b) /\ _ =>
            assert (HR : lrel a b /\ g_file (l_g a) = g_file (l_g b))
          end.
          { destruct G' as (A & B & C).
            destruct k1; destruct k2; try destruct (Nat.eqb (S i1) p1); try destruct (Nat.eqb (S i2) p2);
              repeat split; simpl; auto. }
          destruct HR as (HR & HF).
          match goal with
          | |- snd (ploop _ ?k1 ?p1 ?i1 _ ?a) = snd (ploop _ ?k2 ?p2 ?i2 _ ?b) /\ _ =>
            destruct (IH w k1 k2 p1 p2 i1 i2 a b HR) as (A & B & C)
          end.
          split; [exact A|]. split; [exact B|]. intros _. apply C. right. exact HF.
      + simpl. split; [reflexivity|]. split; [repeat split; simpl; auto|]. reflexivity.
  Qed.

  Lemma ploop_app : forall l1 l2 w k p i st,
    ploop w k p i (l1 ++ l2) st =
    match ploop w k p i l1 st with
    | (st1, None) => ploop w k p (i + List.length l1) l2 st1
    | (st1, Some e) => (st1, Some e)
    end.
  Proof.
    induction l1 as [|f r IH]; intros l2 w k p i st; simpl.
    - now rewrite Nat.add_0_r.
    - destruct (validate_current_file (l_seen st) f) as [seen'|e]; [|reflexivity].
      destruct (lexp w (with_file (l_g st) (Some (f_short f, f_path f))) (l_ps st) f) as [[g ps] [e|]];
        [reflexivity|].
      rewrite IH. now rewrite Nat.add_succ_r.
  Qed.

  Lemma lexp_facts w g ps f g' ps' oe :
    lexp w g ps f = (g', ps', oe) ->
    g_limit g' = g_limit g /\ g_cache g' = g_cache g /\ g_file g' = g_file g /\
    (oe = None -> g_err g = false -> g_err g' = false /\ g_errtxt g' = g_errtxt g).
  Proof.
    destruct g as [c fl tx ns e t l]. unfold lex_parse_curr_file. destruct (f_text f) as [tt| |d]; simpl.
    - unfold exit_if_errors; simpl. destruct e; simpl.
      + intros H; inversion H; subst; simpl. repeat split; auto; discriminate.
      + destruct (parse_file l w [] ps (f_short f) (f_path f) tt) as [pst pns perrs pexn]; simpl.
        destruct pexn; simpl.
        * intros H; inversion H; subst; simpl. repeat split; auto; discriminate.
        * destruct perrs; simpl; intros H; inversion H; subst; simpl; repeat split; auto; try discriminate.
          now rewrite app_nil_r.
    - intros H; inversion H; subst; simpl. repeat split; auto; discriminate.
    - intros H; inversion H; subst; simpl. repeat split; auto; discriminate.
  Qed.

  Lemma ploop_facts : forall fs w k p i st st' oe,
    ploop w k p i fs st = (st', oe) ->
    g_limit (l_g st') = g_limit (l_g st) /\
    (al_clean (l_al st) -> al_clean (l_al st')) /\
    (oe = None -> g_err (l_g st) = false ->
     g_err (l_g st') = false /\ g_errtxt (l_g st') = g_errtxt (l_g st)).
  Proof.
    induction fs as [|f r IH]; intros w k p i st st' oe; simpl.
    - intros H; inversion H; subst. split; [reflexivity|]. split; auto.
    - destruct (validate_current_file (l_seen st) f) as [seen'|e].
      + destruct (lexp w (with_file (l_g st) (Some (f_short f, f_path f))) (l_ps st) f) as [[g ps] oe1] eqn:EL.
        apply lexp_facts in EL. destruct EL as (HL & HC & HF & HE). simpl in *. destruct oe1 as [e|].
        * intros H; inversion H; subst; simpl. split; [exact HL|]. split; [auto | discriminate].
        * intros H. apply IH in H. destruct H as (A & B & C). specialize (HE eq_refl).
          split; [|split].
          -- rewrite A. destruct k; try destruct (Nat.eqb (S i) p); simpl; auto.
          -- intros Hc. apply B. destruct k; try destruct (Nat.eqb (S i) p); simpl; auto.
             split; [|split]; reflexivity.
          -- intros Ho He. specialize (HE He). destruct HE as (HE1 & HE2).
             destruct (C Ho) as (C1 & C2).
             { destruct k; try destruct (Nat.eqb (S i) p); simpl; auto. }
             split; [exact C1|]. rewrite C2. destruct k; try destruct (Nat.eqb (S i) p); simpl; auto.
      + intros H; inversion H; subst; simpl. split; [reflexivity|]. split; [auto | discriminate].
  Qed.

  (* where the cache is written *)
  Lemma ploop_cache_same : forall fs w k p i st,
    (k = None \/ (p <= i)%nat) ->
    g_cache (l_g (fst (ploop w k p i fs st))) = g_cache (l_g st).
  Proof.
    induction fs as [|f r IH]; intros w k p i st Hk; simpl; [reflexivity|].
    destruct (validate_current_file (l_seen st) f) as [seen'|e]; [|reflexivity].
    destruct (lexp w (with_file (l_g st) (Some (f_short f, f_path f))) (l_ps st) f) as [[g ps] oe1] eqn:EL.
    apply lexp_facts in EL. destruct EL as (HL & HC & HF & HE). simpl in HC. destruct oe1 as [e|]; [exact HC|].
    rewrite IH.
    - destruct k as [k|]; [|exact HC]. destruct Hk as [Hk|Hk]; [discriminate|].
      destruct (Nat.eqb (S i) p) eqn:E; [apply Nat.eqb_eq in E; lia | exact HC].
    - destruct Hk as [Hk|Hk]; [left; exact Hk | right; lia].
  Qed.

  Lemma ploop_prefix_snapshot : forall l w k p i st st' oe,
    (i + List.length l = p)%nat -> l <> [] ->
    ploop w (Some k) p i l st = (st', oe) ->
    (oe = None -> g_cache (l_g st') = store k (l_ps st') (g_cache (l_g st))) /\
    (oe <> None -> g_cache (l_g st') = g_cache (l_g st)).
  Proof.
    induction l as [|f r IH]; intros w k p i st st' oe Hlen Hne; [congruence|]. simpl.
    destruct (validate_current_file (l_seen st) f) as [seen'|e].
    - destruct (lexp w (with_file (l_g st) (Some (f_short f, f_path f))) (l_ps st) f) as [[g ps] oe1] eqn:EL.
      apply lexp_facts in EL. destruct EL as (HL & HC & HF & HE). simpl in HC. destruct oe1 as [e|].
      + intros H; inversion H; subst; simpl. split; [discriminate | intros _; exact HC].
      + destruct r as [|f2 r2].
        * simpl in Hlen. replace (Nat.eqb (S i) p) with true by (symmetry; apply Nat.eqb_eq; lia).
          simpl. intros H; inversion H; subst; simpl. split; [intros _; now rewrite HC | congruence].
        * replace (Nat.eqb (S i) p) with false by (symmetry; apply Nat.eqb_neq; simpl in Hlen; lia).
          intros H. apply IH in H; [|simpl in *; lia | discriminate]. simpl in H. now rewrite HC in H.
    - intros H; inversion H; subst; simpl. split; [discriminate | intros _; reflexivity].
  Qed.

  (* on a hit the prefix files are only validated; this is the same sequence of validations *)
  Lemma validate_prefix_of_loop : forall l w k p i st st' (g : gstate),
    ploop w k p i l st = (st', None) ->
    exists g', validate_prefix g l (l_seen st) = (g', l_seen st', None) /\
               grel g' g /\ g_cache g' = g_cache g /\
               (l <> [] \/ g_file g = g_file (l_g st) -> g_file g' = g_file (l_g st')).
  Proof.
    induction l as [|f r IH]; intros w k p i st st' g; simpl.
    - intros H; inversion H; subst. exists g. split; [reflexivity|]. split; [apply grel_refl|].
      split; [reflexivity|]. intros [H1|H1]; [congruence | exact H1].
    - destruct (validate_current_file (l_seen st) f) as [seen'|e]; [|discriminate].
      destruct (lexp w (with_file (l_g st) (Some (f_short f, f_path f))) (l_ps st) f) as [[g1 ps] oe1] eqn:EL.
      apply lexp_facts in EL. destruct EL as (HL & HC & HF & HE). simpl in HF. destruct oe1 as [e|]; [discriminate|].
      intros H.
      eapply (IH _ _ _ _ _ _ (with_file g (Some (f_short f, f_path f)))) in H.
      destruct H as (g' & Hv & Hg & Hc & Hf). simpl in Hv.
      exists g'. split; [|split; [|split]].
      + destruct k; try destruct (Nat.eqb (S i) p); simpl in Hv; exact Hv.
      + eapply grel_trans; [exact Hg|]. repeat split.
      + rewrite Hc. reflexivity.
      + intros _. apply Hf. right. simpl. destruct k; try destruct (Nat.eqb (S i) p); simpl; auto.
  Qed.

  Lemma validate_prefix_limit : forall l (g : gstate) seen,
    g_limit (fst (fst (validate_prefix g l seen))) = g_limit g.
  Proof.
    induction l as [|f r IH]; intros g seen; simpl; [reflexivity|].
    destruct (validate_current_file seen f); [rewrite IH|]; reflexivity.
  Qed.

  Lemma pfip_limit (g : gstate) (rq : request) ps0 : g_limit (fst (fst (pfip g rq ps0))) = g_limit g.
  Proof.
    unfold parse_files_into_parser.
    destruct (request_key sh rq) as [k|]; [destruct (lookup k (g_cache g)) as [s|]|].
    - pose proof (validate_prefix_limit (firstn (prefix_length (rq_files rq)) (rq_files rq)) g []) as HV.
      destruct (validate_prefix g (firstn (prefix_length (rq_files rq)) (rq_files rq)) []) as [[g1 seen] [e|]];
        simpl in HV; [simpl; exact HV|].
      match goal with |- context [finish (ploop ?w ?k1 ?p1 ?i1 ?fs ?a)] =>
        destruct (ploop_facts fs w k1 p1 i1 a _ _ (surjective_pairing _)) as (A & _);
        destruct (ploop w k1 p1 i1 fs a) as [o oe] end.
      simpl in *. congruence.
    - match goal with |- context [finish (ploop ?w ?k1 ?p1 ?i1 ?fs ?a)] =>
        destruct (ploop_facts fs w k1 p1 i1 a _ _ (surjective_pairing _)) as (A & _);
        destruct (ploop w k1 p1 i1 fs a) as [o oe] end.
      simpl in *. exact A.
    - match goal with |- context [finish (ploop ?w ?k1 ?p1 ?i1 ?fs ?a)] =>
        destruct (ploop_facts fs w k1 p1 i1 a _ _ (surjective_pairing _)) as (A & _);
        destruct (ploop w k1 p1 i1 fs a) as [o oe] end.
      simpl in *. exact A.
  Qed.

  Lemma pmt_limit (g : gstate) (rq : request) : g_limit (fst (pmt g rq)) = g_limit g.
  Proof.
    unfold parse_macro_tree. simpl. destruct (rq_files rq) as [|first rest]; [reflexivity|].
    match goal with |- context [parse_files_into_parser _ _ ?a rq ?b] =>
      pose proof (pfip_limit a rq b) as HP; destruct (pfip a rq b) as [[g1 ps1] [e|]] end; simpl in *; [exact HP|].
    destruct (exit_if_errors _); simpl; exact HP.
  Qed.

  (* a call leaves the limit as it found it, or at max_recursion_depth + GAP *)
  Lemma step_limit_cases (g : gstate) (rq : request) :
    g_limit (fst (step g rq)) = g_limit g \/ g_limit (fst (step g rq)) = rq_depth rq + GAP.
  Proof.
    unfold assemble_step. pose proof (pmt_limit g rq) as HP.
    destruct (pmt g rq) as [g1 [ps1|e1]]; simpl in *; destruct ls; simpl; auto.
  Qed.

  Lemma limits_ok_default : forall h (g : gstate) L,
    g_limit g = L -> forallb (fun rq => Z.eqb (rq_depth rq + GAP) L) h = true ->
    limits_ok init_consts init_macros init_main parse_file final_validate backend sh L g h = true.
  Proof.
    induction h as [|rq t IH]; intros g L HL HD; simpl; [reflexivity|].
    simpl in HD. apply andb_true_iff in HD. destruct HD as (HD1 & HD2). apply Z.eqb_eq in HD1.
    assert (HS : g_limit (fst (step g rq)) = L) by (destruct (step_limit_cases g rq); congruence).
    rewrite HS, Z.eqb_refl. simpl. now apply IH.
  Qed.

  (* ---------- the stated assumptions ---------- *)
  (* U: the calls that can occur in the life of the process under consideration (history and probe) *)
  Variable U : request -> Prop.
  (* (resolved path, mtime_ns, size) identifies the content (and kind) of a file ... *)
  Hypothesis stat_identifies_content : content_identified U.
  (* ... and a file inside the stl directory is always passed under the same spelling *)
  Hypothesis stat_identifies_spelling : spelling_identified U.

  Lemma in_firstn {A} (x : A) : forall n l, In x (firstn n l) -> In x l.
  Proof.
    induction n as [|n IH]; intros [|a l]; simpl; try tauto. intros [H|H]; [left; exact H | right; now apply IH].
  Qed.

  Lemma prefix_in_stl : forall (fs : list file) f, In f (firstn (prefix_length fs) fs) -> f_in_stl f = true.
  Proof.
    induction fs as [|a r IH]; intros f; simpl; [tauto|].
    destruct (f_in_stl a) eqn:E; simpl; [|tauto]. intros [H|H]; [now subst | now apply IH].
  Qed.

  Lemma files_key_inj : forall (l1 l2 : list file) fk,
    files_key sh l1 = Some fk -> files_key sh l2 = Some fk ->
    (forall f1 f2, In f1 l1 -> In f2 l2 -> same_stat_id f1 f2 ->
       f_in_stl f1 = f_in_stl f2 /\ f_text f1 = f_text f2 /\ f_isfile f1 = f_isfile f2 /\
       f_path f1 = f_path f2 /\ f_abs f1 = f_abs f2) ->
    l1 = l2.
  Proof.
    induction l1 as [|a r IH]; intros [|b r2] fk; simpl.
    - reflexivity.
    - intros H1. inversion H1; subst. destruct (f_stat b); [destruct (files_key sh r2)|]; discriminate.
    - destruct (f_stat a); [destruct (files_key sh r)|]; try discriminate. intros H1 H2; inversion H1; subst; discriminate.
    - destruct (f_stat a) as [sa|] eqn:Ea; [|discriminate]. destruct (files_key sh r) as [la|] eqn:Er; [|discriminate].
      destruct (f_stat b) as [sb|] eqn:Eb; [|intros _ H; discriminate].
      destruct (files_key sh r2) as [lb|] eqn:Er2; [|intros _ H; discriminate].
      intros H1 H2 Hid. inversion H1; subst fk. clear H1. unfold file_key in H2; simpl in H2.
      inversion H2 as [[Hs Hr Hm Hz Hl]]. subst lb.
      assert (Hst : sa = sb) by (destruct sa, sb; simpl in *; congruence).
      assert (Hsame : same_stat_id a b) by (split; congruence).
      destruct (Hid a b (or_introl eq_refl) (or_introl eq_refl) Hsame) as (A & B & C & D & E).
      f_equal.
      + destruct a, b; simpl in *; subst; reflexivity.
      + eapply IH; eauto.
  Qed.

  Lemma same_key_same_prefix r1 r2 k :
    U r1 -> U r2 -> request_key sh r1 = Some k -> request_key sh r2 = Some k ->
    firstn (prefix_length (rq_files r1)) (rq_files r1) = firstn (prefix_length (rq_files r2)) (rq_files r2) /\
    rq_width r1 = rq_width r2 /\ rq_werror r1 = rq_werror r2 /\ prefix_length (rq_files r1) <> O.
  Proof.
    intros U1 U2. unfold request_key, stl_cache_key.
    destruct (prefix_length (rq_files r1)) as [|n1] eqn:E1; [discriminate|].
    destruct (prefix_length (rq_files r2)) as [|n2] eqn:E2; [discriminate|].
    destruct (files_key sh (firstn (S n1) (rq_files r1))) as [fk1|] eqn:K1; [|discriminate].
    destruct (files_key sh (firstn (S n2) (rq_files r2))) as [fk2|] eqn:K2; [|discriminate].
    cbv beta iota. intros H1 H2. inversion H1; subst k. inversion H2 as [[Hw He Hf]]. subst fk2.
    split; [|split; [auto | split; [auto | discriminate]]].
    eapply files_key_inj; eauto. intros f1 f2 I1 I2 Hid.
    assert (S1 : f_in_stl f1 = true) by (apply (prefix_in_stl (rq_files r1)); rewrite E1; exact I1).
    assert (S2 : f_in_stl f2 = true) by (apply (prefix_in_stl (rq_files r2)); rewrite E2; exact I2).
    apply in_firstn in I1. apply in_firstn in I2.
    destruct (stat_identifies_content r1 r2 f1 f2 U1 U2 I1 I2 Hid) as (A & B).
    destruct (stat_identifies_spelling r1 r2 f1 f2 U1 U2 I1 I2 S1 S2 Hid) as (C & D).
    repeat split; congruence.
  Qed.

  (* ---------- the invariant ---------- *)
  Definition ps0_of (width : Z) (first : file) : pstate :=
    mkps (init_consts width) (init_macros (f_short first) (f_abs first)) init_main.

  (* s is what parsing the stl prefix of rq yields in a process that has done nothing else (limit L in force) *)
  Definition prefix_ok (L : Z) (rq : request) (s : pstate) : Prop :=
    exists first st,
      hd_error (rq_files rq) = Some first /\
      ploop (rq_werror rq) None O O (firstn (prefix_length (rq_files rq)) (rq_files rq))
            (mkl (init_g L) (ps0_of (rq_width rq) first) [] no_alias) = (st, None) /\
      l_ps st = s.

  (* every cached snapshot equals the parse of the prefix its key describes *)
  Definition cache_ok (L : Z) (c : cache) : Prop :=
    forall k s, lookup k c = Some s -> forall rq, U rq -> request_key sh rq = Some k -> prefix_ok L rq s.

  Definition inv (L : Z) (g : gstate) : Prop := g_limit g = L /\ cache_ok L (g_cache g).

  Lemma cache_ok_nil L : cache_ok L [].
  Proof. intros k s H; discriminate. Qed.

  Lemma prefix_length_le (l : list file) : (prefix_length l <= List.length l)%nat.
  Proof. induction l as [|a l IH]; simpl; [lia|]. destruct (f_in_stl a); lia. Qed.

  Lemma hd_firstn {A} (l : list A) n : hd_error (firstn (S n) l) = hd_error l.
  Proof. destruct l; reflexivity. Qed.

  Definition cold (L : Z) (rq : request) (first : file) :=
    ploop (rq_werror rq) None O O (rq_files rq) (mkl (init_g L) (ps0_of (rq_width rq) first) [] no_alias).

  Lemma pfip_cold L (g : gstate) rq first :
    g_limit g = L -> g_err g = false -> g_errtxt g = [] -> cache_ok L (g_cache g) -> U rq ->
    hd_error (rq_files rq) = Some first ->
    let r := pfip g rq (ps0_of (rq_width rq) first) in
    let c := cold L rq first in
    snd r = snd c /\ snd (fst r) = l_ps (fst c) /\ grel (fst (fst r)) (l_g (fst c)) /\
    g_file (fst (fst r)) = g_file (l_g (fst c)) /\ cache_ok L (g_cache (fst (fst r))).
  Proof.
    intros HL HE HT HC HU Hhd r c. subst r c. unfold cold, parse_files_into_parser.
    assert (Hne : rq_files rq <> []) by (destruct (rq_files rq); [discriminate | discriminate]).
    assert (G0 : grel g (init_g L)) by (repeat split; simpl; auto).
    destruct (request_key sh rq) as [k|] eqn:EK.
    - destruct (lookup k (g_cache g)) as [s|] eqn:ELk.
      + (* hit *)
        destruct (HC k s ELk rq HU EK) as (first' & stp & Hhd' & Hloop & Hps).
        rewrite Hhd in Hhd'. inversion Hhd'; subst first'. clear Hhd'.
        assert (Hpl : prefix_length (rq_files rq) <> O).
        { unfold request_key in EK. destruct (prefix_length (rq_files rq)); [discriminate | discriminate]. }
        set (plen := prefix_length (rq_files rq)) in *.
        assert (Hpne : firstn plen (rq_files rq) <> []).
        { destruct plen; [congruence|]. destruct (rq_files rq); [congruence | discriminate]. }
        destruct (validate_prefix_of_loop _ _ _ _ _ _ _ g Hloop) as (g1 & Hv & Hg1 & Hc1 & Hf1).
        simpl in Hv. rewrite Hv.
        destruct (ploop_facts _ _ _ _ _ _ _ _ Hloop) as (FL & _ & FE). simpl in FL, FE.
        destruct (FE eq_refl eq_refl) as (FE1 & FE2).
        assert (Hcold : ploop (rq_werror rq) None O O (rq_files rq)
                              (mkl (init_g L) (ps0_of (rq_width rq) first) [] no_alias)
                        = ploop (rq_werror rq) None O (O + List.length (firstn plen (rq_files rq)))
                                (skipn plen (rq_files rq)) stp).
        { transitivity (ploop (rq_werror rq) None O O (firstn plen (rq_files rq) ++ skipn plen (rq_files rq))
                              (mkl (init_g L) (ps0_of (rq_width rq) first) [] no_alias)).
          - now rewrite firstn_skipn.
          - rewrite ploop_app, Hloop. reflexivity. }
        rewrite Hcold. clear Hcold.
        match goal with
        | |- context [finish (ploop ?w ?k1 ?p1 ?i1 ?fs ?a)] =>
          destruct (ploop_rel fs w k1 None p1 O i1 (O + List.length (firstn plen (rq_files rq))) a stp)
            as (R1 & R2 & R3);
            [| destruct (ploop_facts fs w k1 p1 i1 a _ _ (surjective_pairing _)) as (A1 & A2 & _);
               pose proof (ploop_cache_same fs w k1 p1 i1 a (or_intror (le_n _))) as A3;
               destruct (ploop w k1 p1 i1 fs a) as [o oe] ]
        end.
        { split; [simpl; rewrite restore_id; auto|]. split; [reflexivity|]. simpl.
          destruct Hg1 as (B1 & B2 & B3). repeat split; simpl; congruence. }
        simpl in *. split; [exact R1|]. destruct R2 as (R21 & R22 & R23). split; [exact R21|].
        rewrite sync_clean by (apply A2; repeat split; reflexivity).
        split; [destruct R23 as (X & Y & Z); repeat split; simpl; auto|].
        split; [apply R3; right; apply Hf1; left; exact Hpne|].
        rewrite A3, Hc1. exact HC.
      + (* miss, the prefix is cacheable *)
        match goal with
        | |- context [finish (ploop ?w ?k1 ?p1 ?i1 ?fs ?a)] =>
          destruct (ploop_rel fs w k1 None p1 O i1 O a (mkl (init_g L) (ps0_of (rq_width rq) first) [] no_alias))
            as (R1 & R2 & R3); [split; [reflexivity | split; [reflexivity | exact G0]]|];
          destruct (ploop_facts fs w k1 p1 i1 a _ _ (surjective_pairing _)) as (A1 & A2 & _)
        end.
        assert (Hcache : cache_ok L (g_cache (l_g (fst (ploop (rq_werror rq) (Some k) (prefix_length (rq_files rq)) O
                                   (rq_files rq) (mkl g (ps0_of (rq_width rq) first) [] no_alias)))))).
        { assert (Hpl : prefix_length (rq_files rq) <> O).
          { unfold request_key in EK. destruct (prefix_length (rq_files rq)); [discriminate | discriminate]. }
          set (plen := prefix_length (rq_files rq)) in *.
          assert (Hlen : List.length (firstn plen (rq_files rq)) = plen).
          { apply firstn_length_le. apply prefix_length_le. }
          assert (Hpne : firstn plen (rq_files rq) <> []).
          { destruct plen; [congruence|]. destruct (rq_files rq); [congruence | discriminate]. }
          assert (Hsplit : ploop (rq_werror rq) (Some k) plen O (rq_files rq)
                                 (mkl g (ps0_of (rq_width rq) first) [] no_alias)
                           = ploop (rq_werror rq) (Some k) plen O
                                   (firstn plen (rq_files rq) ++ skipn plen (rq_files rq))
                                   (mkl g (ps0_of (rq_width rq) first) [] no_alias))
            by now rewrite firstn_skipn.
          rewrite Hsplit, ploop_app. clear Hsplit.
          destruct (ploop (rq_werror rq) (Some k) plen O (firstn plen (rq_files rq))
                          (mkl g (ps0_of (rq_width rq) first) [] no_alias)) as [st1 oe1] eqn:EP.
          pose proof (ploop_prefix_snapshot _ _ _ _ _ _ _ _ (eq_trans (Nat.add_0_l _) Hlen) Hpne EP) as (S1 & S2).
          destruct oe1 as [e|].
          - simpl. rewrite S2 by discriminate. exact HC.
          - rewrite ploop_cache_same by (right; simpl; lia). rewrite (S1 eq_refl). simpl.
            intros k' s'. rewrite lookup_store. destruct (ckey_eqb k' k) eqn:Ek.
            + apply ckey_eqb_eq in Ek. subst k'. intros Hs; inversion Hs; subst s'. intros rq' HU' EK'.
              destruct (same_key_same_prefix rq rq' k HU HU' EK EK') as (P1 & P2 & P3 & P4).
              fold plen in P1.
              exists first.
              destruct (ploop_rel (firstn plen (rq_files rq)) (rq_werror rq) (Some k) None plen O O O
                                  (mkl g (ps0_of (rq_width rq) first) [] no_alias)
                                  (mkl (init_g L) (ps0_of (rq_width rq) first) [] no_alias))
                as (Q1 & Q2 & _); [split; [reflexivity | split; [reflexivity | exact G0]]|].
              rewrite EP in Q1, Q2. simpl in Q1, Q2.
              destruct (ploop (rq_werror rq) None O O (firstn plen (rq_files rq))
                              (mkl (init_g L) (ps0_of (rq_width rq) first) [] no_alias)) as [st2 oe2] eqn:EC.
              simpl in Q1, Q2. subst oe2. exists st2.
              split; [|split].
              * destruct (prefix_length (rq_files rq')) as [|n'] eqn:En';
                  [unfold request_key in EK'; rewrite En' in EK'; discriminate|].
                rewrite <- (hd_firstn (rq_files rq') n'), <- P1.
                destruct plen; [congruence|]. now rewrite hd_firstn.
              * rewrite <- P1, <- P2, <- P3. exact EC.
              * destruct Q2 as (Q21 & _). congruence.
            + intros Hs. exact (HC k' s' Hs). }
        destruct (ploop (rq_werror rq) (Some k) (prefix_length (rq_files rq)) O (rq_files rq)
                        (mkl g (ps0_of (rq_width rq) first) [] no_alias)) as [o oe].
        simpl in *. split; [exact R1|]. destruct R2 as (R21 & R22 & R23). split; [exact R21|].
        rewrite sync_clean by (apply A2; repeat split; reflexivity).
        split; [destruct R23 as (X & Y & Z); repeat split; simpl; auto|].
        split; [apply R3; left; exact Hne|]. exact Hcache.
    - (* no cacheable prefix *)
      match goal with
      | |- context [finish (ploop ?w ?k1 ?p1 ?i1 ?fs ?a)] =>
        destruct (ploop_rel fs w k1 None p1 O i1 O a (mkl (init_g L) (ps0_of (rq_width rq) first) [] no_alias))
          as (R1 & R2 & R3); [split; [reflexivity | split; [reflexivity | exact G0]]|];
        destruct (ploop_facts fs w k1 p1 i1 a _ _ (surjective_pairing _)) as (A1 & A2 & _);
        pose proof (ploop_cache_same fs w k1 p1 i1 a (or_introl eq_refl)) as A3;
        destruct (ploop w k1 p1 i1 fs a) as [o oe]
      end.
      simpl in *. split; [exact R1|]. destruct R2 as (R21 & R22 & R23). split; [exact R21|].
      rewrite sync_clean by (apply A2; repeat split; reflexivity).
      split; [destruct R23 as (X & Y & Z); repeat split; simpl; auto|].
      split; [apply R3; left; exact Hne|]. rewrite A3. exact HC.
  Qed.

  Lemma pmt_cold L (g : gstate) rq :
    inv L g -> U rq ->
    snd (pmt g rq) = snd (pmt (init_g L) rq) /\
    g_limit (fst (pmt g rq)) = L /\ cache_ok L (g_cache (fst (pmt g rq))).
  Proof.
    intros (HL & HC) HU. unfold parse_macro_tree. simpl.
    destruct (rq_files rq) as [|first rest] eqn:EF.
    - simpl. auto.
    - pose proof (pfip_cold L (with_errs g false []) rq first HL eq_refl eq_refl HC HU) as P1.
      pose proof (pfip_cold L (with_errs (init_g L) false []) rq first eq_refl eq_refl eq_refl
                            (cache_ok_nil L) HU) as P2.
      rewrite EF in P1, P2. specialize (P1 eq_refl). specialize (P2 eq_refl).
      unfold ps0_of in P1, P2. cbv zeta in P1, P2.
      destruct (pfip (with_errs g false []) rq
                     (mkps (init_consts (rq_width rq)) (init_macros (f_short first) (f_abs first)) init_main))
        as [[g1 ps1] oe1].
      destruct (pfip (with_errs (init_g L) false []) rq
                     (mkps (init_consts (rq_width rq)) (init_macros (f_short first) (f_abs first)) init_main))
        as [[g2 ps2] oe2].
      simpl in P1, P2.
      destruct P1 as (A1 & B1 & (C1 & D1 & E1) & F1 & G1). destruct P2 as (A2 & B2 & (C2 & D2 & E2) & F2 & G2).
      assert (Eo : oe1 = oe2) by congruence. assert (Ep : ps1 = ps2) by congruence.
      clear A1 A2 B1 B2. subst oe2 ps2.
      assert (HcL : g_limit (l_g (fst (cold L rq first))) = L).
      { unfold cold. destruct (ploop_facts _ _ _ _ _ _ _ _ (surjective_pairing
          (ploop (rq_werror rq) None O O (rq_files rq) (mkl (init_g L) (ps0_of (rq_width rq) first) [] no_alias))))
          as (X & _). exact X. }
      rewrite HcL in C1. destruct oe1 as [e|]; simpl.
      + split; [reflexivity|]. split; [exact C1 | exact G1].
      + unfold exit_if_errors; simpl. rewrite D1, E1, F1, <- D2, <- E2, <- F2.
        destruct (g_err g2 || nonempty (final_validate ps1)); simpl; (split; [reflexivity|]; split; [exact C1 | exact G1]).
  Qed.

  Lemma step_cold L (g : gstate) rq :
    inv L g -> U rq ->
    snd (step g rq) = snd (step (init_g L) rq) /\ cache_ok L (g_cache (fst (step g rq))) /\
    (g_limit (fst (step g rq)) = L \/ (ls = false /\ g_limit (fst (step g rq)) = rq_depth rq + GAP)).
  Proof.
    intros HI HU. pose proof HI as (HL & _). destruct (pmt_cold L g rq HI HU) as (A & B & C).
    unfold assemble_step.
    destruct (pmt g rq) as [g1 [ps1|e1]]; destruct (pmt (init_g L) rq) as [g2 [ps2|e2]]; simpl in A, B, C;
      try discriminate; inversion A; subst; simpl.
    - split; [reflexivity|]. destruct ls; simpl; auto.
    - split; [reflexivity|]. destruct ls; simpl; auto.
  Qed.

  Lemma step_limit_scoped (g : gstate) rq : ls = true -> g_limit (fst (step g rq)) = g_limit g.
  Proof.
    intros Hls. unfold assemble_step. destruct (pmt g rq) as [g1 [ps1|e1]]; simpl; rewrite Hls; reflexivity.
  Qed.

  (* the invariant along a history *)
  Lemma run_inv L : forall h (g : gstate),
    inv L g -> Forall U h -> limits_ok init_consts init_macros init_main parse_file final_validate backend sh L g h = true ->
    inv L (run g h).
  Proof.
    induction h as [|rq t IH]; intros g HI HU HLim; simpl; [exact HI|].
    inversion HU as [|x l HUrq HUt]; subst. simpl in HLim. apply andb_true_iff in HLim. destruct HLim as (HA & HB).
    apply Z.eqb_eq in HA. apply IH; auto. destruct (step_cold L g rq HI HUrq) as (_ & C & _). split; assumption.
  Qed.

  (* history independence, under the guard of the current tree *)
  Theorem history_free_guarded L0 (h : list request) (probe : request) :
    Forall U h -> U probe ->
    limit_restored init_consts init_macros init_main parse_file final_validate backend sh (init_g L0) h = true ->
    snd (step (run (init_g L0) h) probe) = snd (step (init_g L0) probe).
  Proof.
    intros HU HP HLim.
    assert (I0 : inv L0 (init_g L0 : gstate)) by (split; [reflexivity | apply cache_ok_nil]).
    pose proof (run_inv L0 h (init_g L0) I0 HU HLim) as I1.
    destruct (step_cold L0 _ probe I1 HP) as (A & _). exact A.
  Qed.

  Lemma limits_ok_scoped : ls = true -> forall h (g : gstate) L, g_limit g = L ->
    limits_ok init_consts init_macros init_main parse_file final_validate backend sh L g h = true.
  Proof.
    intros Hls. induction h as [|rq t IH]; intros g L HL; simpl; [reflexivity|].
    rewrite (step_limit_scoped g rq Hls), HL, Z.eqb_refl. simpl. apply IH. now rewrite (step_limit_scoped g rq Hls).
  Qed.

  (* with the limit restored by assemble no guard is needed *)
  Theorem history_free_scoped L0 (h : list request) (probe : request) :
    ls = true -> Forall U h -> U probe ->
    snd (step (run (init_g L0) h) probe) = snd (step (init_g L0) probe).
  Proof.
    intros Hls HU HP. apply history_free_guarded; auto. unfold limit_restored. now apply limits_ok_scoped.
  Qed.
End Props.

(* ---------- closed statement ---------- *)
Theorem history_free_code : history_free_statement code_shape.
Proof.
  intros text diag consts macros mainops opts output ic im imn pf fv be U HC HS L0 h probe HU HP.
  exact (history_free_scoped text diag consts macros mainops opts output ic im imn pf fv be true U HC HS L0 h probe
                             eq_refl HU HP).
Qed.

(* the limit is the same before and after every call, whatever the call does *)
Theorem limit_preserved_code :
  forall (text diag consts macros mainops opts output : Type)
         (init_consts : Z -> consts) (init_macros : string -> string -> macros) (init_main : mainops)
         (parse_file : Z -> bool -> list string -> pstate consts macros mainops -> string -> string -> text
                       -> parse_out diag consts macros mainops)
         (final_validate : pstate consts macros mainops -> list diag)
         (backend : Z -> Z -> Z -> opts -> pstate consts macros mainops -> output + diag)
         (g : gstate text diag consts macros mainops) (rq : request text diag opts),
    g_limit (fst (assemble_step init_consts init_macros init_main parse_file final_validate backend code_shape g rq))
    = g_limit g.
Proof.
  intros. exact (step_limit_scoped text diag consts macros mainops opts output init_consts init_macros init_main
                                   parse_file final_validate backend true g rq eq_refl).
Qed.

(* ---------- the tree before commit fe7c037 (finding F13): the witness ---------- *)
Module Witness.
  Import Replay.
  Local Open Scope string_scope.
  Definition plain (need : Z) : behaviour := mkbeh need false false [] false.
  (* history: assemble(";0\n;0", max_recursion_depth=60), no stl *)
  Definition f_small : rfile :=
    mkfile "f1" "/u/small.fj" "/u/small.fj" "/u/small.fj" false true (Some (1, 6)) (ReadOk (1, plain 20)).
  (* probe: a macro definition holding a 150-term sum, default depth: parsing it needs more than 160 frames *)
  Definition f_deep : rfile :=
    mkfile "f1" "/u/deep.fj" "/u/deep.fj" "/u/deep.fj" false true (Some (2, 700)) (ReadOk (2, plain 320)).
  Definition rq_small : rrequest := mkrq [f_small] 64 true 60 (mkbopts false 0).
  Definition rq_deep : rrequest := mkrq [f_deep] 64 true DEFAULT_DEPTH (mkbopts false 0).
  Definition history : list rrequest := [rq_small].
End Witness.

Ltac refute_with h probe :=
  let H := fresh "H" in
  intros H;
  specialize (H Replay.text Replay.token Replay.toks Replay.toks Replay.toks Replay.bopts _
                Replay.r_init_consts Replay.r_init_macros [] Replay.r_parse_file Replay.r_final_validate Replay.r_backend
                (fun r => In r (probe :: h)));
  let HC := fresh "HC" in
  assert (HC : content_identified (fun r => In r (probe :: h)));
  [ intros r1 r2 f1 f2 U1 U2 I1 I2 (Hr & Hst); simpl in U1, U2;
    repeat (match goal with
            | X : _ \/ _ |- _ => destruct X as [X|X]
            | X : False |- _ => destruct X
            | X : _ = r1 |- _ => subst r1
            | X : _ = r2 |- _ => subst r2
            end);
    simpl in I1, I2;
    repeat (match goal with
            | X : _ \/ _ |- _ => destruct X as [X|X]
            | X : False |- _ => destruct X
            | X : _ = f1 |- _ => subst f1
            | X : _ = f2 |- _ => subst f2
            end);
    simpl in Hr, Hst; try discriminate; split; reflexivity
  | let HS := fresh "HS" in
    assert (HS : spelling_identified (fun r => In r (probe :: h)));
    [ intros r1 r2 f1 f2 U1 U2 I1 I2 S1 S2 (Hr & Hst); simpl in U1, U2;
      repeat (match goal with
              | X : _ \/ _ |- _ => destruct X as [X|X]
              | X : False |- _ => destruct X
              | X : _ = r1 |- _ => subst r1
              | X : _ = r2 |- _ => subst r2
              end);
      simpl in I1, I2;
      repeat (match goal with
              | X : _ \/ _ |- _ => destruct X as [X|X]
              | X : False |- _ => destruct X
              | X : _ = f1 |- _ => subst f1
              | X : _ = f2 |- _ => subst f2
              end);
      simpl in Hr, Hst, S1, S2; try discriminate; split; reflexivity
    | specialize (H HC HS FRESH_LIMIT h probe);
      let HU := fresh "HU" in
      assert (HU : Forall (fun r => In r (probe :: h)) h)
        by (apply Forall_forall; intros x Hx; right; exact Hx);
      specialize (H HU (or_introl eq_refl));
      vm_compute in H; discriminate H ] ].

(* non-vacuity: a three-call history with a warm cache, another width, a failing
   input that leaves a namespace open - and a probe that hits the cache *)
Module Example.
  Import Replay.
  Local Open Scope string_scope.
  Definition okb : behaviour := mkbeh 50 false false [] false.
  Definition stl (n : string) : rfile :=
    mkfile n ("/stl/" ++ n) ("/stl/" ++ n) ("/stl/" ++ n) true true (Some (5, 7)) (ReadOk (9, okb)).
  Definition user (cid : Z) (b : behaviour) : rfile :=
    mkfile "f1" "/u/p.fj" "/u/p.fj" "/u/p.fj" false true (Some (cid, 10)) (ReadOk (cid, b)).
  Definition rq (w : Z) (cid : Z) (b : behaviour) : rrequest :=
    mkrq [stl "s1"; stl "s2"; user cid b] w true DEFAULT_DEPTH (mkbopts false 0).
  Definition history : list rrequest :=
    [rq 64 1 okb; rq 32 2 (mkbeh 50 true false ["broken"] false); rq 64 3 okb].
  Definition probe : rrequest := rq 64 4 okb.
End Example.

Lemma example_probe_hits_cache :
  List.length (g_cache (run_history Replay.r_init_consts Replay.r_init_macros [] Replay.r_parse_file Replay.r_final_validate
                               Replay.r_backend code_shape Replay.g0 Example.history)) = 2%nat
  /\ Replay.class_of (snd (Replay.step code_shape
         (run_history Replay.r_init_consts Replay.r_init_macros [] Replay.r_parse_file Replay.r_final_validate
                      Replay.r_backend code_shape Replay.g0 Example.history) Example.probe)) = 0.
Proof. vm_compute. split; reflexivity. Qed.

(* ---------- the structural facts matter: every one of these variants of the tree is refuted ---------- *)
Module Variants.
  Import Replay.
  Local Open Scope string_scope.
  Definition no_width_key : shape :=
    mkshape false true true true true true  true true true  true true true  true true true  true.
  Definition no_werror_key : shape :=
    mkshape true false true true true true  true true true  true true true  true true true  true.
  Definition no_mtime_size_key : shape :=
    mkshape true true true true false false  true true true  true true true  true true true  true.
  Definition shared_main_ops : shape :=
    mkshape true true true true true true  true true true  true true false  true true true  true.
  Definition shared_macros_snapshot : shape :=
    mkshape true true true true true true  true false true  true true true  true true true  true.
  Definition ns_not_reset : shape :=
    mkshape true true true true true true  true true true  true true true  false true true  true.
  Definition err_not_reset : shape :=
    mkshape true true true true true true  true true true  true true true  true false true  true.
  (* the tree before commit fe7c037: sys.setrecursionlimit never undone (finding F13) *)
  Definition limit_not_restored : shape := shape_of false.

  Definition okb := Example.okb.
  Definition rqw (w : Z) (we : bool) (cid : Z) (b : behaviour) : rrequest :=
    mkrq [Example.stl "s1"; Example.stl "s2"; Example.user cid b] w we DEFAULT_DEPTH (mkbopts false 0).
  (* an stl file edited in place: same path, new mtime and size, new content *)
  Definition stl2 : rfile :=
    mkfile "s2" "/stl/s2" "/stl/s2" "/stl/s2" true true (Some (6, 8)) (ReadOk (10, okb)).
  Definition rq_edited : rrequest :=
    mkrq [Example.stl "s1"; stl2; Example.user 4 okb] 64 true DEFAULT_DEPTH (mkbopts false 0).
  Definition broken : behaviour := mkbeh 50 true false ["left_open"] false.
  Definition rq_nostl (cid : Z) (b : behaviour) : rrequest :=
    mkrq [Example.user cid b] 64 true DEFAULT_DEPTH (mkbopts false 0).
End Variants.

Lemma variant_no_width_refuted : ~ history_free_statement Variants.no_width_key.
Proof. refute_with [Variants.rqw 64 true 1 Variants.okb] (Variants.rqw 32 true 2 Variants.okb). Qed.
Lemma variant_no_werror_refuted : ~ history_free_statement Variants.no_werror_key.
Proof. refute_with [Variants.rqw 64 true 1 Variants.okb] (Variants.rqw 64 false 2 Variants.okb). Qed.
Lemma variant_no_mtime_size_refuted : ~ history_free_statement Variants.no_mtime_size_key.
Proof. refute_with [Variants.rqw 64 true 1 Variants.okb] Variants.rq_edited. Qed.
Lemma variant_shared_main_ops_refuted : ~ history_free_statement Variants.shared_main_ops.
Proof.
  refute_with [Variants.rqw 64 true 1 Variants.okb; Variants.rqw 64 true 2 Variants.okb]
              (Variants.rqw 64 true 3 Variants.okb).
Qed.
Lemma variant_shared_macros_snapshot_refuted : ~ history_free_statement Variants.shared_macros_snapshot.
Proof. refute_with [Variants.rqw 64 true 1 Variants.okb] (Variants.rqw 64 true 3 Variants.okb). Qed.
Lemma variant_ns_not_reset_refuted : ~ history_free_statement Variants.ns_not_reset.
Proof. refute_with [Variants.rq_nostl 1 Variants.broken] (Variants.rq_nostl 2 Variants.okb). Qed.
Lemma variant_err_not_reset_refuted : ~ history_free_statement Variants.err_not_reset.
Proof. refute_with [Variants.rq_nostl 1 Variants.broken] (Variants.rq_nostl 2 Variants.okb). Qed.
Lemma variant_limit_not_restored_refuted : ~ history_free_statement Variants.limit_not_restored.
Proof. refute_with Witness.history Witness.rq_deep. Qed.
